// Command gen/c10 prints coq/Gen/C10Facts.v from the /repo working tree: structural facts about the
// oracle price path (terms, never verdicts).  Normal forms are chosen so that renamings, helper
// extraction, if/switch restructuring and early-continue rewrites do not change them.
package main

import (
	"fmt"
	"go/ast"
	"go/token"
	"strings"

	. "verifharness/genlib"
)

// ---------------------------------------------------------------- generic helpers

// noTestUtils drops test helper files that are not named *_test.go.
func noTestUtils(fs []File) []File {
	var out []File
	for _, f := range fs {
		if !strings.HasSuffix(f.Path, "test_utils.go") {
			out = append(out, f)
		}
	}
	return out
}

func recvName(fd *ast.FuncDecl) string {
	if fd.Recv != nil && len(fd.Recv.List) > 0 && len(fd.Recv.List[0].Names) > 0 {
		return fd.Recv.List[0].Names[0].Name
	}
	return ""
}

func recvType(fd *ast.FuncDecl) string {
	if fd.Recv == nil || len(fd.Recv.List) == 0 {
		return ""
	}
	t := fd.Recv.List[0].Type
	if s, ok := t.(*ast.StarExpr); ok {
		t = s.X
	}
	if id, ok := t.(*ast.Ident); ok {
		return id.Name
	}
	return ""
}

func method(files []File, typ, name string) *ast.FuncDecl {
	for _, fl := range files {
		for _, d := range fl.F.Decls {
			if fd, ok := d.(*ast.FuncDecl); ok && fd.Name.Name == name && recvType(fd) == typ && fd.Body != nil {
				return fd
			}
		}
	}
	return nil
}

func strip(e ast.Expr) ast.Expr {
	for {
		p, ok := e.(*ast.ParenExpr)
		if !ok {
			return e
		}
		e = p.X
	}
}

func isConv(e ast.Expr) bool {
	e = strip(e)
	id, ok := e.(*ast.Ident)
	return ok && (id.Name == "uint64" || id.Name == "int64" || id.Name == "int" || id.Name == "uint")
}

// sexp prints a fully parenthesised prefix form; integer conversions are dropped, identifiers are
// renamed / inlined through sub, selectors listed in bare lose their qualifier.
func sexp(e ast.Expr, sub map[string]ast.Expr, ren map[string]string, bare map[string]bool, depth int) string {
	e = strip(e)
	switch x := e.(type) {
	case *ast.Ident:
		if depth < 6 {
			if d, ok := sub[x.Name]; ok {
				return sexp(d, sub, ren, bare, depth+1)
			}
		}
		if r, ok := ren[x.Name]; ok {
			return r
		}
		return x.Name
	case *ast.BasicLit:
		return x.Value
	case *ast.BinaryExpr:
		return "(" + x.Op.String() + " " + sexp(x.X, sub, ren, bare, depth) + " " + sexp(x.Y, sub, ren, bare, depth) + ")"
	case *ast.UnaryExpr:
		return "(" + x.Op.String() + " " + sexp(x.X, sub, ren, bare, depth) + ")"
	case *ast.SelectorExpr:
		if bare[x.Sel.Name] {
			return x.Sel.Name
		}
		return sexp(x.X, sub, ren, bare, depth) + "." + x.Sel.Name
	case *ast.CallExpr:
		if isConv(x.Fun) && len(x.Args) == 1 {
			return sexp(x.Args[0], sub, ren, bare, depth)
		}
		if s, ok := x.Fun.(*ast.SelectorExpr); ok && s.Sel.Name == "BlockHeight" && len(x.Args) == 0 {
			return "H"
		}
		var as []string
		for _, a := range x.Args {
			as = append(as, sexp(a, sub, ren, bare, depth))
		}
		return "call(" + sexp(x.Fun, sub, ren, bare, depth) + ";" + strings.Join(as, ",") + ")"
	}
	return "?" + Nospace(e)
}

// simpleDefs collects `x := e` (single value) definitions of a function body.
func simpleDefs(body *ast.BlockStmt) map[string]ast.Expr {
	m := map[string]ast.Expr{}
	ast.Inspect(body, func(n ast.Node) bool {
		if a, ok := n.(*ast.AssignStmt); ok && a.Tok == token.DEFINE && len(a.Lhs) == 1 && len(a.Rhs) == 1 {
			if id, ok := a.Lhs[0].(*ast.Ident); ok {
				m[id.Name] = a.Rhs[0]
			}
		}
		return true
	})
	return m
}

func conjuncts(e ast.Expr, op token.Token) []ast.Expr {
	e = strip(e)
	if b, ok := e.(*ast.BinaryExpr); ok && b.Op == op {
		return append(conjuncts(b.X, op), conjuncts(b.Y, op)...)
	}
	return []ast.Expr{e}
}

func callSel(e ast.Expr) (recv ast.Expr, name string, args []ast.Expr, ok bool) {
	c, isCall := strip(e).(*ast.CallExpr)
	if !isCall {
		return nil, "", nil, false
	}
	s, isSel := c.Fun.(*ast.SelectorExpr)
	if !isSel {
		return nil, "", nil, false
	}
	return s.X, s.Sel.Name, c.Args, true
}

func coqList(xs []string) string {
	var q []string
	for _, x := range xs {
		q = append(q, CoqString(x))
	}
	return "[" + strings.Join(q, "; ") + "]"
}

// ---------------------------------------------------------------- facts

var stages = map[string]bool{"newValidatorPerformances": true, "groupVotesByPair": true, "removeInvalidVotes": true,
	"clearExchangeRates": true, "Tally": true, "SetPrice": true, "incrementMissCounters": true,
	"incrementAbstainsByOmission": true, "rewardWinners": true, "clearVotesAndPrevotes": true, "refreshWhitelist": true}

// pipeline: the stage calls reached from fd in source order, helpers of the package inlined.
func pipeline(fd *ast.FuncDecl, kf map[string]*ast.FuncDecl) []string {
	var seq []string
	var walk func(fd *ast.FuncDecl, depth int, seen map[string]bool)
	walk = func(fd *ast.FuncDecl, depth int, seen map[string]bool) {
		rn := recvName(fd)
		ast.Inspect(fd.Body, func(n ast.Node) bool {
			if _, ok := n.(*ast.FuncLit); ok {
				return false
			}
			ce, ok := n.(*ast.CallExpr)
			if !ok {
				return true
			}
			name := ""
			switch f := ce.Fun.(type) {
			case *ast.Ident:
				name = f.Name
			case *ast.SelectorExpr:
				if id, ok := f.X.(*ast.Ident); ok && id.Name == rn {
					name = f.Sel.Name
				}
			}
			if name == "" {
				return true
			}
			if stages[name] {
				seq = append(seq, name)
				return true
			}
			if d, ok := kf[name]; ok && d.Body != nil && depth < 4 && !seen[name] {
				seen[name] = true
				walk(d, depth+1, seen)
				delete(seen, name)
			}
			return true
		})
	}
	walk(fd, 0, map[string]bool{fd.Name.Name: true})
	return seq
}

func earlyReturns(fd *ast.FuncDecl) int {
	n := 0
	var last ast.Stmt
	if l := len(fd.Body.List); l > 0 {
		last = fd.Body.List[l-1]
	}
	ast.Inspect(fd.Body, func(x ast.Node) bool {
		if _, ok := x.(*ast.FuncLit); ok {
			return false
		}
		if r, ok := x.(*ast.ReturnStmt); ok && ast.Stmt(r) != last {
			n++
		}
		return true
	})
	return n
}

// thresholdRounding: the method applied to the result of ….MulInt64(…) in removeInvalidVotes.
func thresholdRounding(fd *ast.FuncDecl) (round string, fromVoteThreshold bool) {
	round = "RoundOther"
	ast.Inspect(fd.Body, func(n ast.Node) bool {
		recv, name, _, ok := callSelNode(n)
		if !ok {
			return true
		}
		if _, inner, _, ok2 := callSel(recv); ok2 && inner == "MulInt64" {
			switch name {
			case "RoundInt":
				round = "RoundInt"
			case "TruncateInt":
				round = "TruncateInt"
			}
			fromVoteThreshold = strings.Contains(Nospace(recv), "VoteThreshold")
		}
		return true
	})
	return
}

func callSelNode(n ast.Node) (ast.Expr, string, []ast.Expr, bool) {
	e, ok := n.(ast.Expr)
	if !ok {
		return nil, "", nil, false
	}
	return callSel(e)
}

// powerPerTuple: in groupVotesByPair the variable that is zeroed for abstain votes is (re)defined
// inside the loop over the ExchangeRateTuples.
func powerPerTuple(fd *ast.FuncDecl) bool {
	zeroed := ""
	ast.Inspect(fd.Body, func(n ast.Node) bool {
		if a, ok := n.(*ast.AssignStmt); ok && a.Tok == token.ASSIGN && len(a.Lhs) == 1 && len(a.Rhs) == 1 {
			if l, ok := a.Rhs[0].(*ast.BasicLit); ok && l.Value == "0" {
				if id, ok := a.Lhs[0].(*ast.Ident); ok {
					zeroed = id.Name
				}
			}
		}
		return true
	})
	if zeroed == "" {
		return false
	}
	res := false
	var stack []*ast.RangeStmt
	var visit func(n ast.Node)
	visit = func(n ast.Node) {
		ast.Inspect(n, func(x ast.Node) bool {
			if x == nil || x == n {
				return true
			}
			if r, ok := x.(*ast.RangeStmt); ok {
				stack = append(stack, r)
				visit(r.Body)
				stack = stack[:len(stack)-1]
				return false
			}
			if a, ok := x.(*ast.AssignStmt); ok && a.Tok == token.DEFINE && len(a.Lhs) == 1 {
				if id, ok := a.Lhs[0].(*ast.Ident); ok && id.Name == zeroed && len(stack) > 0 {
					if strings.HasSuffix(Nospace(stack[len(stack)-1].X), "ExchangeRateTuples") {
						res = true
					}
				}
			}
			return true
		})
	}
	visit(fd.Body)
	return res
}

// median: facts about the weighted-median loop (followed through a helper method of the same type).
type medianFacts struct {
	sorts, guard, halfDiv2, accumulates bool
	cmp                               string
}

func median(fd *ast.FuncDecl, tf []File) medianFacts {
	var mf medianFacts
	mf.cmp = "CmpOther"
	mf.sorts = strings.Contains(Nospace(fd.Body), "sort.Sort(")
	// find the function that holds the loop
	holder := fd
	findLoop := func(f *ast.FuncDecl) (*ast.RangeStmt, *ast.IfStmt) {
		var rs *ast.RangeStmt
		var is *ast.IfStmt
		ast.Inspect(f.Body, func(n ast.Node) bool {
			r, ok := n.(*ast.RangeStmt)
			if !ok || rs != nil {
				return true
			}
			ast.Inspect(r.Body, func(m ast.Node) bool {
				i, ok := m.(*ast.IfStmt)
				if !ok || is != nil {
					return true
				}
				for _, s := range i.Body.List {
					if ret, ok := s.(*ast.ReturnStmt); ok && len(ret.Results) == 1 && strings.HasSuffix(Nospace(ret.Results[0]), ".ExchangeRate") {
						is = i
					}
				}
				return true
			})
			if is != nil {
				rs = r
			}
			return true
		})
		return rs, is
	}
	rs, is := findLoop(holder)
	if rs == nil {
		rn := recvName(fd)
		ast.Inspect(fd.Body, func(n ast.Node) bool {
			recv, name, _, ok := callSelNode(n)
			if !ok || rs != nil {
				return true
			}
			if id, ok := recv.(*ast.Ident); ok && id.Name == rn {
				if h := method(tf, recvType(fd), name); h != nil {
					if r2, i2 := findLoop(h); r2 != nil {
						holder, rs, is = h, r2, i2
					}
				}
			}
			return true
		})
	}
	if rs == nil {
		return mf
	}
	defs := simpleDefs(holder.Body)
	accum := map[string]bool{}
	ast.Inspect(rs.Body, func(n ast.Node) bool {
		if a, ok := n.(*ast.AssignStmt); ok && a.Tok == token.ADD_ASSIGN && len(a.Lhs) == 1 {
			if id, ok := a.Lhs[0].(*ast.Ident); ok {
				accum[id.Name] = true
			}
		}
		return true
	})
	isHalf := func(e ast.Expr) bool {
		e = strip(e)
		if id, ok := e.(*ast.Ident); ok {
			if d, ok := defs[id.Name]; ok {
				e = strip(d)
			}
		}
		b, ok := e.(*ast.BinaryExpr)
		if !ok || b.Op != token.QUO {
			return false
		}
		l, ok := strip(b.Y).(*ast.BasicLit)
		return ok && l.Value == "2" && strings.Contains(Nospace(b.X), "ower")
	}
	for _, c := range conjuncts(is.Cond, token.LAND) {
		b, ok := c.(*ast.BinaryExpr)
		if !ok {
			continue
		}
		if l, ok := strip(b.Y).(*ast.BasicLit); ok && l.Value == "0" && b.Op == token.GTR && strings.HasSuffix(Nospace(b.X), "ower") {
			mf.guard = true
			continue
		}
		if b.Op == token.GEQ || b.Op == token.GTR {
			if id, ok := strip(b.X).(*ast.Ident); ok && accum[id.Name] {
				mf.accumulates = true
			}
			mf.halfDiv2 = isHalf(b.Y)
			if b.Op == token.GEQ {
				mf.cmp = "CmpGe"
			} else {
				mf.cmp = "CmpGt"
			}
		}
	}
	return mf
}

// tallyUpper: form of the upper band test in Tally.
func tallyForm(fd *ast.FuncDecl) (lowerOK bool, upper string, halved bool) {
	upper = "TallyOther"
	ast.Inspect(fd.Body, func(n ast.Node) bool {
		b, ok := n.(*ast.BinaryExpr)
		if !ok || b.Op != token.LAND {
			return true
		}
		for _, c := range conjuncts(b, token.LAND) {
			recv, name, args, ok := callSel(c)
			if !ok || len(args) != 1 {
				continue
			}
			switch name {
			case "GTE": // rate.GTE(median.Sub(spread))
				if _, in, _, ok := callSel(args[0]); ok && in == "Sub" && strings.HasSuffix(Nospace(recv), "ExchangeRate") {
					lowerOK = true
				}
			case "LTE":
				if _, in, _, ok := callSel(args[0]); ok && in == "Add" && strings.HasSuffix(Nospace(recv), "ExchangeRate") {
					upper = "TallyAdd" // rate.LTE(median.Add(spread))
				} else if r2, in2, _, ok := callSel(recv); ok && in2 == "Sub" && strings.HasSuffix(Nospace(r2), "ExchangeRate") {
					upper = "TallyNoAdd" // rate.Sub(spread).LTE(median)
				}
			}
		}
		return true
	})
	halved = strings.Contains(Nospace(fd.Body), "and.QuoInt64(2)")
	return
}

func main() {
	repo := Repo()
	Header(repo)
	keeper := noTestUtils(ParseDir(repo + "/x/oracle/keeper"))
	types := ParseDir(repo + "/x/oracle/types")
	kf := Funcs(keeper)
	tfm := Funcs(types)

	var pipe []string
	early := 99
	if fd := kf["UpdateExchangeRates"]; fd != nil && fd.Body != nil {
		pipe = pipeline(fd, kf)
		early = earlyReturns(fd)
	}
	round, fromThr := "RoundOther", false
	if fd := kf["removeInvalidVotes"]; fd != nil && fd.Body != nil {
		round, fromThr = thresholdRounding(fd)
	}
	ppt := false
	if fd := kf["groupVotesByPair"]; fd != nil && fd.Body != nil {
		ppt = powerPerTuple(fd)
	}
	var mf medianFacts
	mf.cmp = "CmpOther"
	if fd := method(types, "ExchangeRateVotes", "WeightedMedianWithAssertion"); fd != nil {
		mf = median(fd, types)
	}
	gate := ""
	if fd := tfm["IsPeriodLastBlock"]; fd != nil && fd.Body != nil && len(fd.Body.List) > 0 {
		ren := map[string]string{}
		i := 0
		for _, f := range fd.Type.Params.List {
			for _, n := range f.Names {
				ren[n.Name] = fmt.Sprintf("P%d", i)
				i++
			}
		}
		if r, ok := fd.Body.List[len(fd.Body.List)-1].(*ast.ReturnStmt); ok && len(r.Results) == 1 {
			gate = sexp(r.Results[0], simpleDefs(fd.Body), ren, nil, 0)
		}
	}
	expiry, expiryText := "ExpiryOther", ""
	if fd := kf["clearExchangeRates"]; fd != nil && fd.Body != nil {
		defs := simpleDefs(fd.Body)
		for name, rhs := range defs {
			if strings.Contains(strings.ToLower(name), "expired") {
				sub := map[string]ast.Expr{}
				for k, v := range defs {
					if k != name {
						sub[k] = v
					}
				}
				expiryText = sexp(rhs, sub, nil, map[string]bool{"CreatedBlock": true, "ExpirationBlocks": true}, 0)
			}
		}
		switch expiryText {
		case "(&& (>= H CreatedBlock) (>= (- H CreatedBlock) ExpirationBlocks))":
			expiry = "ExpiryNoWrap"
		case "(<= (+ CreatedBlock ExpirationBlocks) H)":
			expiry = "ExpiryWrapSum"
		}
	}
	lowerOK, upper, halved := false, "TallyOther", false
	if fd := kf["Tally"]; fd != nil && fd.Body != nil {
		lowerOK, upper, halved = tallyForm(fd)
	}
	// Params.Validate
	var conds []string
	if fd := method(types, "Params", "Validate"); fd != nil {
		rn := recvName(fd)
		ast.Inspect(fd.Body, func(n ast.Node) bool {
			if i, ok := n.(*ast.IfStmt); ok && i.Init == nil {
				c := sexp(i.Cond, nil, map[string]string{rn: "p"}, nil, 0)
				conds = append(conds, c)
			}
			return true
		})
	}
	has := func(s string) bool {
		for _, c := range conds {
			if c == s {
				return true
			}
		}
		return false
	}
	editValidates := false
	if fd := kf["EditOracleParams"]; fd != nil && fd.Body != nil {
		var vpos, upos token.Pos
		ast.Inspect(fd.Body, func(n ast.Node) bool {
			if _, name, _, ok := callSelNode(n); ok {
				if name == "Validate" && vpos == 0 {
					vpos = n.Pos()
				}
				if (name == "UpdateParams" || name == "Set") && upos == 0 {
					upos = n.Pos()
				}
			}
			return true
		})
		editValidates = vpos != 0 && upos != 0 && vpos < upos
	}

	fmt.Println("Require Import Nib.C10.Cfg.")
	fmt.Println("From Coq Require Import String List. Import ListNotations. Open Scope string_scope.")
	fmt.Println("Definition current_cfg : code_cfg := {|")
	fmt.Printf("  cc_pipeline := %s;\n", coqList(pipe))
	fmt.Printf("  cc_early_returns := %d;\n", early)
	fmt.Printf("  cc_rounding := %s;\n", round)
	fmt.Printf("  cc_threshold_from_param := %s;\n", CoqBool(fromThr))
	fmt.Printf("  cc_power_per_tuple := %s;\n", CoqBool(ppt))
	fmt.Printf("  cc_median_sorts := %s;\n", CoqBool(mf.sorts))
	fmt.Printf("  cc_median_guard := %s;\n", CoqBool(mf.guard))
	fmt.Printf("  cc_median_cmp := %s;\n", mf.cmp)
	fmt.Printf("  cc_median_half := %s;\n", CoqBool(mf.halfDiv2 && mf.accumulates))
	fmt.Printf("  cc_period_gate := %s;\n", CoqString(gate))
	fmt.Printf("  cc_expiry := %s;\n", expiry)
	fmt.Printf("  cc_tally_lower := %s;\n", CoqBool(lowerOK))
	fmt.Printf("  cc_tally_upper := %s;\n", upper)
	fmt.Printf("  cc_band_halved := %s;\n", CoqBool(halved))
	fmt.Printf("  cc_validate_vote_period := %s;\n", CoqBool(has("(== p.VotePeriod 0)")))
	fmt.Printf("  cc_validate_thr_lower := %s;\n", CoqBool(has("call(p.VoteThreshold.LTE;call(math.LegacyNewDecWithPrec;33,2))")))
	fmt.Printf("  cc_validate_thr_upper := %s;\n", CoqBool(has("call(p.VoteThreshold.GT;call(math.LegacyOneDec;))")))
	fmt.Printf("  cc_validate_min_voters := %s;\n", CoqBool(has("(<= p.MinVoters 0)")))
	fmt.Printf("  cc_validate_band := %s;\n", CoqBool(has("(|| call(p.RewardBand.GT;call(math.LegacyOneDec;)) call(p.RewardBand.IsNegative;))")))
	fmt.Printf("  cc_edit_validates := %s |}.\n", CoqBool(editValidates))
	fmt.Println("(* diagnostics (not used by the obligations) *)")
	fmt.Printf("Definition expiry_normal_form : string := %s.\n", CoqString(expiryText))
	fmt.Printf("Definition validate_conditions : list string := %s.\n", coqList(conds))
}
