// Command gen/c10 prints coq/Gen/C10Facts.v from the /repo working tree: structural facts about the
// oracle price path (terms, never verdicts).  Whole packages are parsed (new files included), helper
// calls are followed transitively, pure helpers are inlined with parameter substitution, guards are read
// as path conditions — so renamings, helper extraction, if/switch restructuring, early-continue rewrites
// and moved functions do not change the extracted record.
package main

import (
	"fmt"
	"go/ast"
	"go/token"
	"strings"

	. "verifharness/genlib"
)

var stages = map[string]bool{"newValidatorPerformances": true, "groupVotesByPair": true, "removeInvalidVotes": true,
	"clearExchangeRates": true, "Tally": true, "SetPrice": true, "incrementMissCounters": true,
	"incrementAbstainsByOmission": true, "rewardWinners": true, "clearVotesAndPrevotes": true, "refreshWhitelist": true}

// stageByContent recognises a stage function that was RENAMED by what its own body does (the characteristic store /
// keeper operation of the stage); "" when the body is none of them.  Only consulted for callees whose name is not a
// stage name, so the names in the tree today keep their meaning.
func stageByContent(d *ast.FuncDecl) string {
	if d == nil || d.Body == nil {
		return ""
	}
	has := map[string]bool{}
	ast.Inspect(d.Body, func(n ast.Node) bool {
		switch x := n.(type) {
		case *ast.FuncLit:
			return false
		case *ast.CallExpr:
			f := Nospace(x.Fun)
			for _, suf := range []string{"ValidatorsPowerStoreIterator", ".MissCounters.Insert", "AllocateTokensToValidator", ".Votes.Iterate",
				".MulInt64", ".ExchangeRates.Delete", ".Votes.Delete", ".WhitelistedPairs.Insert"} {
				if strings.HasSuffix(f, suf) {
					has[suf] = true
				}
			}
			if f == "append" {
				has["append"] = true
			}
		case *ast.AssignStmt:
			if x.Tok == token.ADD_ASSIGN && len(x.Lhs) == 1 && strings.HasSuffix(Nospace(x.Lhs[0]), ".AbstainCount") {
				has["abstain+="] = true
			}
		}
		return true
	})
	switch {
	case has["ValidatorsPowerStoreIterator"]:
		return "newValidatorPerformances"
	case has[".Votes.Iterate"] && has["append"]:
		return "groupVotesByPair"
	case has[".MulInt64"]:
		return "removeInvalidVotes"
	case has[".ExchangeRates.Delete"]:
		return "clearExchangeRates"
	case has[".MissCounters.Insert"]:
		return "incrementMissCounters"
	case has["abstain+="]:
		return "incrementAbstainsByOmission"
	case has["AllocateTokensToValidator"]:
		return "rewardWinners"
	case has[".Votes.Delete"]:
		return "clearVotesAndPrevotes"
	case has[".WhitelistedPairs.Insert"]:
		return "refreshWhitelist"
	}
	return ""
}

// stageFn: the function that implements a stage — by its name, or (renamed) by content within the call closure of root.
func stageFn(p *pkg, root *ast.FuncDecl, stage string, typ ...string) *ast.FuncDecl {
	if fd := p.fn(stage, typ...); fd != nil {
		return fd
	}
	if root == nil {
		return nil
	}
	for _, d := range p.closure(root) {
		if d != root && !stages[d.Name.Name] && stageByContent(d) == stage {
			return d
		}
	}
	return nil
}

// pipeline: the stage calls reached from fd in source order, helpers of the package inlined.
func pipeline(p *pkg, fd *ast.FuncDecl) []string {
	var seq []string
	var walk func(fd *ast.FuncDecl, depth int, seen map[*ast.FuncDecl]bool)
	walk = func(fd *ast.FuncDecl, depth int, seen map[*ast.FuncDecl]bool) {
		ast.Inspect(fd.Body, func(n ast.Node) bool {
			if _, ok := n.(*ast.FuncLit); ok {
				return false
			}
			ce, ok := n.(*ast.CallExpr)
			if !ok {
				return true
			}
			name := ""
			switch f := ce.Fun.(type) {
			case *ast.Ident:
				name = f.Name
			case *ast.SelectorExpr:
				name = f.Sel.Name
			}
			d := p.resolve(ce)
			if stages[name] && d != nil {
				seq = append(seq, name)
				return true
			}
			if st := stageByContent(d); st != "" && !stages[name] {
				seq = append(seq, st) // a renamed stage
				return true
			}
			if d != nil && depth < 5 && !seen[d] {
				seen[d] = true
				walk(d, depth+1, seen)
				delete(seen, d)
			}
			return true
		})
	}
	walk(fd, 0, map[*ast.FuncDecl]bool{fd: true})
	return seq
}

// guardsOf: number of non-error path conditions on the first call of `name` reached from fd
// (in the function that contains the call).
func guardsOf(p *pkg, fd *ast.FuncDecl, name string) int {
	owner, call := p.findCall(fd, name, nil)
	if call == nil {
		return 99
	}
	n := 0
	for _, l := range p.literals(pathConds(owner.Body, call)) {
		if !isErrCond(l.e) {
			n++
		}
	}
	return n
}

// thresholdRounding: the method applied to the result of ….MulInt64(…) on the way from removeInvalidVotes.
func thresholdRounding(p *pkg, fd *ast.FuncDecl) (round string, fromVoteThreshold bool) {
	round = "RoundOther"
	p.inspectClosure(fd, func(_ *ast.FuncDecl, n ast.Node) bool {
		recv, name, _, ok := callSelNode(n)
		if !ok {
			return true
		}
		if _, inner, _, ok2 := callSel(recv); ok2 && inner == "MulInt64" {
			switch name {
			case "RoundInt":
				round = "RoundInt"
			case "TruncateInt":
				round = "TruncateInt"
			}
			fromVoteThreshold = strings.Contains(Nospace(recv), "VoteThreshold")
		}
		return true
	})
	return
}

// groupFacts: (1) the power variable zeroed for abstain votes is (re)defined inside the loop over the
// ExchangeRateTuples; (2) the vote is only appended if the voter was found in the performance map.
func groupFacts(p *pkg, fd *ast.FuncDecl) (perTuple, skipsIneligible bool) {
	owner, app := p.findCall(fd, "append", nil)
	if app == nil {
		return
	}
	zeroed := ""
	okVars := map[string]bool{} // second results of `x, ok := m[k]`
	ast.Inspect(owner.Body, func(n ast.Node) bool {
		a, ok := n.(*ast.AssignStmt)
		if !ok {
			return true
		}
		if a.Tok == token.ASSIGN && len(a.Lhs) == 1 && len(a.Rhs) == 1 {
			if l, ok := a.Rhs[0].(*ast.BasicLit); ok && l.Value == "0" {
				if id, ok := a.Lhs[0].(*ast.Ident); ok {
					zeroed = id.Name
				}
			}
		}
		if len(a.Lhs) == 2 && len(a.Rhs) == 1 {
			if _, ok := a.Rhs[0].(*ast.IndexExpr); ok {
				if id, ok := a.Lhs[1].(*ast.Ident); ok {
					okVars[id.Name] = true
				}
			}
		}
		return true
	})
	for _, l := range p.literals(pathConds(owner.Body, app)) {
		if id, ok := l.e.(*ast.Ident); ok && okVars[id.Name] && l.pos {
			skipsIneligible = true
		}
	}
	if zeroed == "" {
		return
	}
	var stack []*ast.RangeStmt
	var visit func(n ast.Node)
	visit = func(n ast.Node) {
		ast.Inspect(n, func(x ast.Node) bool {
			if x == nil || x == n {
				return true
			}
			if r, ok := x.(*ast.RangeStmt); ok {
				stack = append(stack, r)
				visit(r.Body)
				stack = stack[:len(stack)-1]
				return false
			}
			if a, ok := x.(*ast.AssignStmt); ok && a.Tok == token.DEFINE && len(a.Lhs) == 1 {
				if id, ok := a.Lhs[0].(*ast.Ident); ok && id.Name == zeroed && len(stack) > 0 {
					if strings.HasSuffix(Nospace(stack[len(stack)-1].X), "ExchangeRateTuples") {
						perTuple = true
					}
				}
			}
			return true
		})
	}
	visit(owner.Body)
	return
}

type medianFacts struct {
	sorts, guard, halfDiv2, accumulates bool
	cmp                               string
}

// median: facts about the weighted-median loop, wherever in the call closure it lives.
func median(p *pkg, fd *ast.FuncDecl) medianFacts {
	mf := medianFacts{cmp: "CmpOther"}
	var holder *ast.FuncDecl
	var rs *ast.RangeStmt
	var is *ast.IfStmt
	p.inspectClosure(fd, func(o *ast.FuncDecl, n ast.Node) bool {
		if c, ok := n.(*ast.CallExpr); ok && Nospace(c.Fun) == "sort.Sort" {
			mf.sorts = true
		}
		r, ok := n.(*ast.RangeStmt)
		if !ok || rs != nil {
			return true
		}
		ast.Inspect(r.Body, func(m ast.Node) bool {
			i, ok := m.(*ast.IfStmt)
			if !ok || is != nil {
				return true
			}
			for _, s := range i.Body.List {
				if ret, ok := s.(*ast.ReturnStmt); ok && len(ret.Results) == 1 && strings.HasSuffix(Nospace(ret.Results[0]), ".ExchangeRate") {
					is = i
				}
			}
			return true
		})
		if is != nil {
			rs, holder = r, o
		}
		return true
	})
	if rs == nil {
		return mf
	}
	defs := simpleDefs(holder.Body)
	accum := map[string]bool{}
	ast.Inspect(rs.Body, func(n ast.Node) bool {
		if a, ok := n.(*ast.AssignStmt); ok && a.Tok == token.ADD_ASSIGN && len(a.Lhs) == 1 {
			if id, ok := a.Lhs[0].(*ast.Ident); ok {
				accum[id.Name] = true
			}
		}
		return true
	})
	isHalf := func(e ast.Expr) bool {
		e = strip(e)
		if id, ok := e.(*ast.Ident); ok {
			if d, ok := defs[id.Name]; ok {
				e = strip(d)
			}
		}
		b, ok := e.(*ast.BinaryExpr)
		if !ok || b.Op != token.QUO {
			return false
		}
		l, ok := strip(b.Y).(*ast.BasicLit)
		return ok && l.Value == "2" && strings.Contains(Nospace(b.X), "ower")
	}
	for _, c := range split(is.Cond, token.LAND) {
		b, ok := c.(*ast.BinaryExpr)
		if !ok {
			continue
		}
		if l, ok := strip(b.Y).(*ast.BasicLit); ok && l.Value == "0" && b.Op == token.GTR && strings.HasSuffix(Nospace(b.X), "ower") {
			mf.guard = true
			continue
		}
		if b.Op == token.GEQ || b.Op == token.GTR {
			if id, ok := strip(b.X).(*ast.Ident); ok && accum[id.Name] {
				mf.accumulates = true
			}
			mf.halfDiv2 = isHalf(b.Y)
			if b.Op == token.GEQ {
				mf.cmp = "CmpGe"
			} else {
				mf.cmp = "CmpGt"
			}
		}
	}
	return mf
}

// tallyForm: the two band tests and the halving of the band, anywhere in the call closure of Tally.
func tallyForm(p *pkg, fd *ast.FuncDecl) (lowerOK bool, upper string, halved bool) {
	upper = "TallyOther"
	p.inspectClosure(fd, func(_ *ast.FuncDecl, n ast.Node) bool {
		if c, ok := n.(*ast.CallExpr); ok {
			if recv, name, args, ok := callSel(c); ok && name == "QuoInt64" && len(args) == 1 && Nospace(args[0]) == "2" &&
				strings.HasSuffix(strings.ToLower(Nospace(recv)), "band") {
				halved = true
			}
		}
		b, ok := n.(*ast.BinaryExpr)
		if !ok || b.Op != token.LAND {
			return true
		}
		for _, c := range split(b, token.LAND) {
			recv, name, args, ok := callSel(c)
			if !ok || len(args) != 1 {
				continue
			}
			switch name {
			case "GTE": // rate.GTE(median.Sub(spread))
				if _, in, _, ok := callSel(args[0]); ok && in == "Sub" && strings.HasSuffix(Nospace(recv), "ExchangeRate") {
					lowerOK = true
				}
			case "LTE":
				if _, in, _, ok := callSel(args[0]); ok && in == "Add" && strings.HasSuffix(Nospace(recv), "ExchangeRate") {
					upper = "TallyAdd" // rate.LTE(median.Add(spread))
				} else if r2, in2, _, ok := callSel(recv); ok && in2 == "Sub" && strings.HasSuffix(Nospace(r2), "ExchangeRate") {
					upper = "TallyNoAdd" // rate.Sub(spread).LTE(median)
				}
			}
		}
		return true
	})
	return
}

// gateOf: the period gates on the path to the call of `name` in EndBlocker, e.g. ["+VotePeriod"].
func gateOf(p *pkg, fd *ast.FuncDecl, name string) []string {
	owner, call := p.findCall(fd, name, nil)
	if call == nil {
		return []string{"missing"}
	}
	var out []string
	for _, l := range p.literals(pathConds(owner.Body, call)) {
		if isErrCond(l.e) {
			continue
		}
		sign := "+"
		if !l.pos {
			sign = "-"
		}
		if c, ok := l.e.(*ast.CallExpr); ok && strings.HasSuffix(Nospace(c.Fun), "IsPeriodLastBlock") && len(c.Args) == 2 {
			a := Nospace(c.Args[1])
			if i := strings.LastIndex(a, "."); i >= 0 {
				a = a[i+1:]
			}
			out = append(out, sign+a)
		} else {
			out = append(out, sign+"other:"+Nospace(l.e))
		}
	}
	return out
}

// callOrder: which of the named functions are called from fd (helpers inlined), in source order.
func callOrder(p *pkg, fd *ast.FuncDecl, names map[string]bool) []string {
	var seq []string
	var walk func(fd *ast.FuncDecl, depth int)
	walk = func(fd *ast.FuncDecl, depth int) {
		ast.Inspect(fd.Body, func(n ast.Node) bool {
			ce, ok := n.(*ast.CallExpr)
			if !ok {
				return true
			}
			name := ""
			switch f := ce.Fun.(type) {
			case *ast.Ident:
				name = f.Name
			case *ast.SelectorExpr:
				name = f.Sel.Name
			}
			if names[name] {
				seq = append(seq, name)
				return true
			}
			if d := p.resolve(ce); d != nil && depth < 4 {
				walk(d, depth+1)
			}
			return true
		})
	}
	walk(fd, 0)
	return seq
}

// voterStrings: the distinct forms of the Voter field in every AggregateExchangeRateVote{…} /
// AggregateExchangeRatePrevote{…} composite literal of the given packages: "canon" when it is <expr>.String()
// (local single-assignment aliases inlined), otherwise "raw:<expr>" (e.g. a message field).
func voterStrings(ps ...*pkg) []string {
	seen := map[string]bool{}
	for _, p := range ps {
		for _, f := range p.files {
			for _, dcl := range f.F.Decls {
				fd, ok := dcl.(*ast.FuncDecl)
				if !ok || fd.Body == nil {
					continue
				}
				defs := simpleDefs(fd.Body)
				ast.Inspect(fd.Body, func(n ast.Node) bool {
					cl, ok := n.(*ast.CompositeLit)
					if !ok || cl.Type == nil {
						return true
					}
					tn := Nospace(cl.Type)
					if i := strings.LastIndex(tn, "."); i >= 0 {
						tn = tn[i+1:]
					}
					if tn != "AggregateExchangeRateVote" && tn != "AggregateExchangeRatePrevote" {
						return true
					}
					for _, el := range cl.Elts {
						kv, ok := el.(*ast.KeyValueExpr)
						if !ok {
							seen["raw:positional"] = true
							continue
						}
						if k, ok := kv.Key.(*ast.Ident); !ok || k.Name != "Voter" {
							continue
						}
						v := strip(kv.Value)
						if id, ok := v.(*ast.Ident); ok {
							if d, ok := defs[id.Name]; ok {
								v = strip(d)
							}
						}
						if _, name, args, ok := callSel(v); ok && name == "String" && len(args) == 0 {
							seen["canon"] = true
						} else {
							seen["raw:"+Nospace(v)] = true
						}
					}
					return true
				})
			}
		}
	}
	var out []string
	for k := range seen {
		out = append(out, k)
	}
	return sortedCopy(out)
}

// dupCheck: how the vote-string parser detects a pair that is named twice.  "DupSeenSet": inside its loop it looks the
// pair up in a map / set (comma-ok index or .Has) AND records it there (index assignment or .Add) — a set of all pairs seen so far;
// "DupPrevOnly": it only compares the pair with the one of the tuple at index i-1; "DupNone": neither; "DupOther": a lookup
// without recording.
func dupCheck(p *pkg) string {
	fd := p.fn("NewExchangeRateTuplesFromString")
	if fd == nil {
		for _, ds := range p.byNm {
			for _, d := range ds {
				if d.Name.Name != "NewExchangeRateTupleFromString" && containsCall(d.Body, "NewExchangeRateTupleFromString") {
					fd = d
				}
			}
		}
	}
	if fd == nil {
		return "DupOther"
	}
	isPair := func(e ast.Expr) bool { return strings.HasSuffix(Nospace(e), ".Pair") || strings.HasSuffix(strings.ToLower(Nospace(e)), "pair") }
	looked, recorded := map[string]bool{}, map[string]bool{}
	prev := false
	p.inspectClosure(fd, func(_ *ast.FuncDecl, n ast.Node) bool {
		switch x := n.(type) {
		case *ast.AssignStmt:
			if len(x.Lhs) == 2 && len(x.Rhs) == 1 { // _, ok := m[pair]
				if ix, ok := x.Rhs[0].(*ast.IndexExpr); ok && isPair(ix.Index) {
					looked[Nospace(ix.X)] = true
				}
			}
			if len(x.Lhs) == 1 && (x.Tok == token.ASSIGN) { // m[pair] = …
				if ix, ok := x.Lhs[0].(*ast.IndexExpr); ok && isPair(ix.Index) {
					recorded[Nospace(ix.X)] = true
				}
			}
		case *ast.CallExpr:
			if recv, name, args, ok := callSel(x); ok && len(args) == 1 && isPair(args[0]) {
				switch name {
				case "Has", "Contains":
					looked[Nospace(recv)] = true
				case "Add", "Insert":
					recorded[Nospace(recv)] = true
				}
			}
		case *ast.BinaryExpr:
			if x.Op == token.EQL || x.Op == token.NEQ {
				l, r := Nospace(x.X), Nospace(x.Y)
				if strings.HasSuffix(l, ".Pair") && strings.HasSuffix(r, ".Pair") && (strings.Contains(l, "-1]") || strings.Contains(r, "-1]")) {
					prev = true
				}
			}
		}
		return true
	})
	for m := range looked {
		if recorded[m] {
			return "DupSeenSet"
		}
	}
	switch {
	case len(looked) > 0:
		return "DupOther"
	case prev:
		return "DupPrevOnly"
	}
	return "DupNone"
}

func main() {
	repo := Repo()
	Header(repo)
	kp := loadPkg(repo + "/x/oracle/keeper")
	tp := loadPkg(repo + "/x/oracle/types")
	ap := loadPkg(repo + "/x/oracle")

	var pipe []string
	clearGuards := 99
	root := kp.fn("UpdateExchangeRates", "Keeper")
	if fd := root; fd != nil {
		pipe = pipeline(kp, fd)
		if c := stageFn(kp, root, "clearVotesAndPrevotes"); c != nil {
			clearGuards = guardsOf(kp, fd, c.Name.Name)
		}
	}
	round, fromThr := "RoundOther", false
	if fd := stageFn(kp, root, "removeInvalidVotes"); fd != nil {
		round, fromThr = thresholdRounding(kp, fd)
	}
	ppt, skips := false, false
	if fd := stageFn(kp, root, "groupVotesByPair"); fd != nil {
		ppt, skips = groupFacts(kp, fd)
	}
	mf := medianFacts{cmp: "CmpOther"}
	if fd := tp.fn("WeightedMedianWithAssertion", "ExchangeRateVotes"); fd != nil {
		mf = median(tp, fd)
	}
	gate := ""
	if fd := tp.fn("IsPeriodLastBlock"); fd != nil && len(fd.Body.List) > 0 {
		ren := map[string]string{}
		for i, n := range paramNames(fd) {
			ren[n] = fmt.Sprintf("P%d", i)
		}
		if r, ok := fd.Body.List[len(fd.Body.List)-1].(*ast.ReturnStmt); ok && len(r.Results) == 1 {
			gate = sx{tp, nil}.str(r.Results[0], simpleDefs(fd.Body), ren, 0)
		}
	}
	updGate := []string{"missing"}
	var ebOrder []string
	if fd := ap.fn("EndBlocker"); fd != nil {
		updGate = gateOf(ap, fd, "UpdateExchangeRates")
		ebOrder = callOrder(ap, fd, map[string]bool{"UpdateExchangeRates": true, "SlashAndResetMissCounters": true})
	}
	expiry, expiryText := "ExpiryOther", ""
	if fd := stageFn(kp, root, "clearExchangeRates"); fd != nil {
		kp.inspectClosure(fd, func(o *ast.FuncDecl, n ast.Node) bool {
			a, ok := n.(*ast.AssignStmt)
			if !ok || a.Tok != token.DEFINE || len(a.Lhs) != 1 || len(a.Rhs) != 1 || expiryText != "" {
				return true
			}
			id, ok := a.Lhs[0].(*ast.Ident)
			if !ok || !strings.Contains(strings.ToLower(id.Name), "expired") {
				return true
			}
			sub := simpleDefs(o.Body)
			delete(sub, id.Name)
			expiryText = sx{kp, map[string]bool{"CreatedBlock": true, "ExpirationBlocks": true}}.str(a.Rhs[0], sub, nil, 0)
			return true
		})
		switch expiryText {
		case "(&& (>= H CreatedBlock) (>= (- H CreatedBlock) ExpirationBlocks))":
			expiry = "ExpiryNoWrap"
		case "(<= (+ CreatedBlock ExpirationBlocks) H)":
			expiry = "ExpiryWrapSum"
		}
	}
	lowerOK, upper, halved := false, "TallyOther", false
	if fd := kp.fn("Tally"); fd != nil {
		lowerOK, upper, halved = tallyForm(kp, fd)
	}
	// Params.Validate
	var conds []string
	if fd := tp.fn("Validate", "Params"); fd != nil {
		rn := recvName(fd)
		tp.inspectClosure(fd, func(o *ast.FuncDecl, n ast.Node) bool {
			if i, ok := n.(*ast.IfStmt); ok && i.Init == nil && o == fd {
				conds = append(conds, sx{tp, nil}.str(i.Cond, nil, map[string]string{rn: "p"}, 0))
			}
			return true
		})
	}
	has := func(s string) bool {
		for _, c := range conds {
			if c == s {
				return true
			}
		}
		return false
	}
	editValidates := false
	if fd := kp.fn("EditOracleParams"); fd != nil {
		var vpos, upos token.Pos
		ast.Inspect(fd.Body, func(n ast.Node) bool {
			if _, name, _, ok := callSelNode(n); ok {
				if name == "Validate" && vpos == 0 {
					vpos = n.Pos()
				}
				if (name == "UpdateParams" || name == "Set") && upos == 0 {
					upos = n.Pos()
				}
			}
			return true
		})
		editValidates = vpos != 0 && upos != 0 && vpos < upos
	}

	fmt.Println("Require Import Nib.C10.Cfg.")
	fmt.Println("From Coq Require Import String List. Import ListNotations. Open Scope string_scope.")
	fmt.Println("Definition current_cfg : code_cfg := {|")
	fmt.Printf("  cc_pipeline := %s;\n", coqStrs(pipe))
	fmt.Printf("  cc_clear_votes_guards := %d;\n", clearGuards)
	fmt.Printf("  cc_update_gate := %s;\n", coqStrs(updGate))
	fmt.Printf("  cc_endblock_order := %s;\n", coqStrs(ebOrder))
	fmt.Printf("  cc_rounding := %s;\n", round)
	fmt.Printf("  cc_threshold_from_param := %s;\n", CoqBool(fromThr))
	fmt.Printf("  cc_skips_ineligible := %s;\n", CoqBool(skips))
	fmt.Printf("  cc_power_per_tuple := %s;\n", CoqBool(ppt))
	fmt.Printf("  cc_median_sorts := %s;\n", CoqBool(mf.sorts))
	fmt.Printf("  cc_median_guard := %s;\n", CoqBool(mf.guard))
	fmt.Printf("  cc_median_cmp := %s;\n", mf.cmp)
	fmt.Printf("  cc_median_half := %s;\n", CoqBool(mf.halfDiv2 && mf.accumulates))
	fmt.Printf("  cc_period_gate := %s;\n", CoqString(gate))
	fmt.Printf("  cc_expiry := %s;\n", expiry)
	fmt.Printf("  cc_tally_lower := %s;\n", CoqBool(lowerOK))
	fmt.Printf("  cc_tally_upper := %s;\n", upper)
	fmt.Printf("  cc_band_halved := %s;\n", CoqBool(halved))
	fmt.Printf("  cc_validate_vote_period := %s;\n", CoqBool(has("(== p.VotePeriod 0)")))
	fmt.Printf("  cc_validate_thr_lower := %s;\n", CoqBool(has("call(p.VoteThreshold.LTE;call(math.LegacyNewDecWithPrec;33,2))")))
	fmt.Printf("  cc_validate_thr_upper := %s;\n", CoqBool(has("call(p.VoteThreshold.GT;call(math.LegacyOneDec;))")))
	fmt.Printf("  cc_validate_min_voters := %s;\n", CoqBool(has("(<= p.MinVoters 0)")))
	fmt.Printf("  cc_validate_band := %s;\n", CoqBool(has("(|| call(p.RewardBand.GT;call(math.LegacyOneDec;)) call(p.RewardBand.IsNegative;))")))
	fmt.Printf("  cc_edit_validates := %s;\n", CoqBool(editValidates))
	fmt.Printf("  cc_dup_check := %s;\n", dupCheck(tp))
	fmt.Printf("  cc_voter_strings := %s |}.\n", coqStrs(voterStrings(ap, kp, tp)))
	fmt.Println("(* diagnostics (not used by the obligations) *)")
	fmt.Printf("Definition expiry_normal_form : string := %s.\n", CoqString(expiryText))
	fmt.Printf("Definition validate_conditions : list string := %s.\n", coqStrs(conds))
}
