// astx.go — AST utilities shared (as an identical copy) by harness/gen/c10 and harness/gen/c12:
// whole-package function table, call resolution, transitive call closure, path conditions of a
// statement, prefix normal forms with pure helpers inlined (parameter substitution).
package main

import (
	"go/ast"
	"go/token"
	"sort"
	"strings"

	. "verifharness/genlib"
)

// ---------------------------------------------------------------- package table

type pkg struct {
	files []File
	byNm  map[string][]*ast.FuncDecl
}

func loadPkg(dirs ...string) *pkg {
	p := &pkg{byNm: map[string][]*ast.FuncDecl{}}
	for _, d := range dirs {
		for _, f := range ParseDir(d) {
			if strings.HasSuffix(f.Path, "test_utils.go") { // test helpers not named *_test.go
				continue
			}
			p.files = append(p.files, f)
			for _, dcl := range f.F.Decls {
				if fd, ok := dcl.(*ast.FuncDecl); ok && fd.Body != nil {
					p.byNm[fd.Name.Name] = append(p.byNm[fd.Name.Name], fd)
				}
			}
		}
	}
	return p
}

func recvName(fd *ast.FuncDecl) string {
	if fd.Recv != nil && len(fd.Recv.List) > 0 && len(fd.Recv.List[0].Names) > 0 {
		return fd.Recv.List[0].Names[0].Name
	}
	return ""
}

func recvType(fd *ast.FuncDecl) string {
	if fd.Recv == nil || len(fd.Recv.List) == 0 {
		return ""
	}
	t := fd.Recv.List[0].Type
	if s, ok := t.(*ast.StarExpr); ok {
		t = s.X
	}
	if id, ok := t.(*ast.Ident); ok {
		return id.Name
	}
	return ""
}

func nParams(fd *ast.FuncDecl) int {
	n := 0
	for _, f := range fd.Type.Params.List {
		if len(f.Names) == 0 {
			n++
		}
		n += len(f.Names)
	}
	return n
}

func paramNames(fd *ast.FuncDecl) []string {
	var out []string
	for _, f := range fd.Type.Params.List {
		if len(f.Names) == 0 {
			out = append(out, "_")
		}
		for _, n := range f.Names {
			out = append(out, n.Name)
		}
	}
	return out
}

// fn returns the function / method with this name (and receiver type, if given).
func (p *pkg) fn(name string, typ ...string) *ast.FuncDecl {
	for _, fd := range p.byNm[name] {
		if len(typ) == 0 || recvType(fd) == typ[0] {
			return fd
		}
	}
	return nil
}

// resolve maps a call to a function of the package: plain identifiers to functions, x.M(…) to the
// method M when exactly one declaration of that name with that arity exists in the package.
func (p *pkg) resolve(ce *ast.CallExpr) *ast.FuncDecl {
	name := ""
	isMethod := false
	switch f := ce.Fun.(type) {
	case *ast.Ident:
		name = f.Name
	case *ast.SelectorExpr:
		name, isMethod = f.Sel.Name, true
		if id, ok := f.X.(*ast.Ident); ok && (id.Name == "types" || id.Name == "keeper") {
			isMethod = false // package-qualified function
		}
	}
	var cands []*ast.FuncDecl
	for _, fd := range p.byNm[name] {
		if (fd.Recv != nil) == isMethod && nParams(fd) == len(ce.Args) {
			cands = append(cands, fd)
		}
	}
	if len(cands) == 1 {
		return cands[0]
	}
	return nil
}

// closure: fd and everything of the package reachable from it through calls, in discovery order.
func (p *pkg) closure(fd *ast.FuncDecl) []*ast.FuncDecl {
	seen := map[*ast.FuncDecl]bool{fd: true}
	out := []*ast.FuncDecl{fd}
	for i := 0; i < len(out); i++ {
		ast.Inspect(out[i].Body, func(n ast.Node) bool {
			if ce, ok := n.(*ast.CallExpr); ok {
				if d := p.resolve(ce); d != nil && !seen[d] {
					seen[d] = true
					out = append(out, d)
				}
			}
			return true
		})
	}
	return out
}

// inspectClosure visits every node of every body in the closure.
func (p *pkg) inspectClosure(fd *ast.FuncDecl, f func(owner *ast.FuncDecl, n ast.Node) bool) {
	for _, d := range p.closure(fd) {
		d := d
		ast.Inspect(d.Body, func(n ast.Node) bool { return f(d, n) })
	}
}

// pureReturn: the result expression of a helper whose body is a single `return e`.
func pureReturn(fd *ast.FuncDecl) ast.Expr {
	if fd == nil || len(fd.Body.List) != 1 {
		return nil
	}
	if r, ok := fd.Body.List[0].(*ast.ReturnStmt); ok && len(r.Results) == 1 {
		return r.Results[0]
	}
	return nil
}

// ---------------------------------------------------------------- expressions

func strip(e ast.Expr) ast.Expr {
	for {
		p, ok := e.(*ast.ParenExpr)
		if !ok {
			return e
		}
		e = p.X
	}
}

func isConv(e ast.Expr) bool {
	id, ok := strip(e).(*ast.Ident)
	return ok && (id.Name == "uint64" || id.Name == "int64" || id.Name == "int" || id.Name == "uint")
}

func callSel(e ast.Expr) (recv ast.Expr, name string, args []ast.Expr, ok bool) {
	c, isCall := strip(e).(*ast.CallExpr)
	if !isCall {
		return nil, "", nil, false
	}
	s, isSel := c.Fun.(*ast.SelectorExpr)
	if !isSel {
		return nil, "", nil, false
	}
	return s.X, s.Sel.Name, c.Args, true
}

func callSelNode(n ast.Node) (ast.Expr, string, []ast.Expr, bool) {
	e, ok := n.(ast.Expr)
	if !ok {
		return nil, "", nil, false
	}
	return callSel(e)
}

func containsCall(n ast.Node, name string) bool {
	found := false
	ast.Inspect(n, func(x ast.Node) bool {
		if _, nm, _, ok := callSelNode(x); ok && nm == name {
			found = true
		}
		if c, ok := x.(*ast.CallExpr); ok {
			if id, ok := c.Fun.(*ast.Ident); ok && id.Name == name {
				found = true
			}
		}
		return true
	})
	return found
}

func split(e ast.Expr, op token.Token) []ast.Expr {
	e = strip(e)
	if b, ok := e.(*ast.BinaryExpr); ok && b.Op == op {
		return append(split(b.X, op), split(b.Y, op)...)
	}
	return []ast.Expr{e}
}

// simpleDefs collects `x := e` (single value) definitions of a body.
func simpleDefs(body ast.Node) map[string]ast.Expr {
	m := map[string]ast.Expr{}
	ast.Inspect(body, func(n ast.Node) bool {
		if a, ok := n.(*ast.AssignStmt); ok && a.Tok == token.DEFINE && len(a.Lhs) == 1 && len(a.Rhs) == 1 {
			if id, ok := a.Lhs[0].(*ast.Ident); ok {
				m[id.Name] = a.Rhs[0]
			}
		}
		return true
	})
	return m
}

// sx prints a fully parenthesised prefix form: integer conversions dropped, ….BlockHeight() = H, local
// single-value definitions (sub) and pure helpers of the package inlined with parameter substitution,
// identifiers renamed through ren, selectors listed in bare without their qualifier.
type sx struct {
	p    *pkg
	bare map[string]bool
}

func (s sx) str(e ast.Expr, sub map[string]ast.Expr, ren map[string]string, depth int) string {
	e = strip(e)
	switch x := e.(type) {
	case *ast.Ident:
		if r, ok := ren[x.Name]; ok {
			return r
		}
		if depth < 8 {
			if d, ok := sub[x.Name]; ok {
				return s.str(d, sub, ren, depth+1)
			}
		}
		return x.Name
	case *ast.BasicLit:
		return x.Value
	case *ast.BinaryExpr:
		return "(" + x.Op.String() + " " + s.str(x.X, sub, ren, depth) + " " + s.str(x.Y, sub, ren, depth) + ")"
	case *ast.UnaryExpr:
		return "(" + x.Op.String() + " " + s.str(x.X, sub, ren, depth) + ")"
	case *ast.SelectorExpr:
		if s.bare[x.Sel.Name] {
			return x.Sel.Name
		}
		return s.str(x.X, sub, ren, depth) + "." + x.Sel.Name
	case *ast.CallExpr:
		if isConv(x.Fun) && len(x.Args) == 1 {
			return s.str(x.Args[0], sub, ren, depth)
		}
		if sel, ok := x.Fun.(*ast.SelectorExpr); ok && sel.Sel.Name == "BlockHeight" && len(x.Args) == 0 {
			return "H"
		}
		var as []string
		for _, a := range x.Args {
			as = append(as, s.str(a, sub, ren, depth))
		}
		if s.p != nil && depth < 8 {
			if d := s.p.resolve(x); d != nil {
				if r := pureReturn(d); r != nil {
					ren2 := map[string]string{}
					for i, pn := range paramNames(d) {
						ren2[pn] = as[i]
					}
					if rn := recvName(d); rn != "" {
						if sel, ok := x.Fun.(*ast.SelectorExpr); ok {
							ren2[rn] = s.str(sel.X, sub, ren, depth)
						}
					}
					return s.str(r, nil, ren2, depth+1)
				}
			}
		}
		return "call(" + s.str(x.Fun, sub, ren, depth) + ";" + strings.Join(as, ",") + ")"
	}
	return "?" + Nospace(e)
}

// expand replaces a call of a pure helper of the package by the helper's result expression
// (no substitution: used where only the shape matters).
func (p *pkg) expand(e ast.Expr) ast.Expr {
	for i := 0; i < 4; i++ {
		c, ok := strip(e).(*ast.CallExpr)
		if !ok {
			return e
		}
		r := pureReturn(p.resolve(c))
		if r == nil {
			return e
		}
		e = r
	}
	return e
}

// ---------------------------------------------------------------- path conditions

type pc struct {
	cond ast.Expr
	pos  bool // true: cond holds on the path; false: its negation holds
}

func within(n, target ast.Node) bool { return n.Pos() <= target.Pos() && target.End() <= n.End() }

func terminates(b *ast.BlockStmt) bool {
	if b == nil || len(b.List) == 0 {
		return false
	}
	switch x := b.List[len(b.List)-1].(type) {
	case *ast.ReturnStmt:
		return true
	case *ast.BranchStmt:
		return x.Tok == token.CONTINUE || x.Tok == token.BREAK
	case *ast.ExprStmt:
		if c, ok := x.X.(*ast.CallExpr); ok {
			if id, ok := c.Fun.(*ast.Ident); ok && id.Name == "panic" {
				return true
			}
		}
	}
	return false
}

// pathConds: the conditions under which target (a node inside body) is reached: enclosing ifs and the
// negations of preceding sibling guards whose body leaves (return / continue / break / panic).
func pathConds(body *ast.BlockStmt, target ast.Node) []pc {
	var walk func(stmts []ast.Stmt, acc []pc) ([]pc, bool)
	var inStmt func(s ast.Stmt, acc []pc) ([]pc, bool)
	walk = func(stmts []ast.Stmt, acc []pc) ([]pc, bool) {
		for _, s := range stmts {
			if within(s, target) {
				return inStmt(s, acc)
			}
			if i, ok := s.(*ast.IfStmt); ok && i.Else == nil && terminates(i.Body) {
				acc = append(acc, pc{i.Cond, false})
			}
		}
		return acc, false
	}
	inStmt = func(s ast.Stmt, acc []pc) ([]pc, bool) {
		switch x := s.(type) {
		case *ast.IfStmt:
			if within(x.Body, target) {
				return walk(x.Body.List, append(acc, pc{x.Cond, true}))
			}
			if x.Else != nil && within(x.Else, target) {
				acc = append(acc, pc{x.Cond, false})
				if b, ok := x.Else.(*ast.BlockStmt); ok {
					return walk(b.List, acc)
				}
				return inStmt(x.Else, acc)
			}
			return acc, true
		case *ast.BlockStmt:
			return walk(x.List, acc)
		case *ast.RangeStmt:
			if within(x.Body, target) {
				return walk(x.Body.List, acc)
			}
		case *ast.ForStmt:
			if within(x.Body, target) {
				return walk(x.Body.List, acc)
			}
		case *ast.SwitchStmt:
			for _, c := range x.Body.List {
				if cc, ok := c.(*ast.CaseClause); ok && within(cc, target) {
					return walk(cc.Body, acc)
				}
			}
		}
		return acc, true
	}
	acc, _ := walk(body.List, nil)
	return acc
}

// literals: the path conditions as signed literals: a positive `a && b` gives +a +b, a negated
// `a || b` gives -a -b; anything else stays one literal.  Pure helper calls are expanded first.
type lit struct {
	e   ast.Expr
	pos bool
}

func (p *pkg) literals(pcs []pc) []lit {
	var out []lit
	for _, c := range pcs {
		e := p.expand(c.cond)
		op := token.LAND
		if !c.pos {
			op = token.LOR
		}
		for _, part := range split(e, op) {
			part = p.expand(part)
			pos := c.pos
			for {
				u, ok := strip(part).(*ast.UnaryExpr)
				if !ok || u.Op != token.NOT {
					break
				}
				part, pos = u.X, !pos
			}
			out = append(out, lit{strip(part), pos})
		}
	}
	return out
}

func isErrCond(e ast.Expr) bool {
	s := Nospace(e)
	return s == "err!=nil" || s == "err==nil"
}

func coqStrs(xs []string) string {
	var q []string
	for _, x := range xs {
		q = append(q, CoqString(x))
	}
	return "[" + strings.Join(q, "; ") + "]"
}

func sortedCopy(xs []string) []string {
	out := append([]string{}, xs...)
	sort.Strings(out)
	return out
}

// findCall: the first call in the closure of fd whose callee (selector or identifier) has this name;
// returns the function that contains it.
func (p *pkg) findCall(fd *ast.FuncDecl, name string, extra func(*ast.CallExpr) bool) (*ast.FuncDecl, *ast.CallExpr) {
	var owner *ast.FuncDecl
	var call *ast.CallExpr
	p.inspectClosure(fd, func(o *ast.FuncDecl, n ast.Node) bool {
		if call != nil {
			return false
		}
		c, ok := n.(*ast.CallExpr)
		if !ok {
			return true
		}
		nm := ""
		switch f := c.Fun.(type) {
		case *ast.Ident:
			nm = f.Name
		case *ast.SelectorExpr:
			nm = f.Sel.Name
		}
		if nm == name && (extra == nil || extra(c)) {
			owner, call = o, c
		}
		return true
	})
	return owner, call
}
