// Command gen/c17 prints coq/Gen/C17Facts.v from the /repo working tree (terms, never verdicts).
package main

import (
	"verifharness/gen/c17dev/antefacts"
	. "verifharness/genlib"
)

func main() {
	repo := Repo()
	Header(repo)
	antefacts.Emit(repo)
}
