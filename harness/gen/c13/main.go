// Command gen/c13 prints coq/Gen/C13Facts.v: the inflation module's default parameters and default genesis
// counters and the collections.Sequence default, printed from the packages of the /repo working tree this binary
// is linked against (constants, never verdicts); the roll-over comparison of hooks.go (go/ast); and the x/bank
// blocked-recipient table of the application wiring: the application of the linked tree is constructed (app.NewNibiruApp
// through testapp, i.e. app/app_config.go + depinject as a node does) and its bank keeper is asked, for every module
// account of the auth keeper's permission table, whether it is a blocked recipient.
package main

import (
	"fmt"
	"go/ast"
	"go/token"
	"os"
	"sort"
	"strings"

	"github.com/NibiruChain/collections"
	authtypes "github.com/cosmos/cosmos-sdk/x/auth/types"
	govtypes "github.com/cosmos/cosmos-sdk/x/gov/types"

	. "verifharness/genlib"

	"github.com/NibiruChain/nibiru/v2/x/common/testutil/testapp"
	inflationtypes "github.com/NibiruChain/nibiru/v2/x/inflation/types"
)

func z(s string) string { return "(" + s + ")%Z" }

func main() {
	repo := Repo()
	Header(repo)
	p := inflationtypes.DefaultParams()
	g := inflationtypes.DefaultGenesisState()
	var fs []string
	for _, f := range p.PolynomialFactors {
		fs = append(fs, z(f.BigInt().String()))
	}
	d := p.InflationDistribution
	b := func(x bool) string {
		if x {
			return "true"
		}
		return "false"
	}
	fmt.Println("From Coq Require Import ZArith List. Import ListNotations.")
	fmt.Println("Require Import Nib.C13.Model.")
	fmt.Printf("Definition gen_default_params : params := {| p_enabled := %s; p_started := %s; p_factors := [%s];\n", b(p.InflationEnabled), b(p.HasInflationStarted), strings.Join(fs, "; "))
	fmt.Printf("  p_staking := %s; p_community := %s; p_strategic := %s;\n", z(d.StakingRewards.BigInt().String()), z(d.CommunityPool.BigInt().String()), z(d.StrategicReserves.BigInt().String()))
	fmt.Printf("  p_epp := %s; p_ppy := %s; p_max := %s |}.\n", z(fmt.Sprint(p.EpochsPerPeriod)), z(fmt.Sprint(p.PeriodsPerYear)), z(fmt.Sprint(p.MaxPeriod)))
	gp := g.Params
	fmt.Printf("Definition gen_genesis_params_are_default : bool := %s.\n", b(gp.String() == p.String()))
	fmt.Printf("Definition gen_genesis_period : Z := %s.\n", z(fmt.Sprint(g.Period)))
	fmt.Printf("Definition gen_genesis_skipped : Z := %s.\n", z(fmt.Sprint(g.SkippedEpochs)))
	fmt.Printf("Definition gen_sequence_default : Z := %s.\n", z(fmt.Sprint(collections.DefaultSequenceStart)))
	genRollover(repo)
	genWiring()
}

// genWiring prints the module accounts of the application (auth keeper permission table), which of them the
// application's bank keeper refuses as recipients (BlockedAddr), and the name of the governance module account.
func genWiring() {
	// the application writes ./data (wasm) into the working directory and may log to stdout
	dir, err := os.MkdirTemp("", "gen-c13-")
	if err != nil {
		Fatal(err)
	}
	defer os.RemoveAll(dir)
	if err := os.Chdir(dir); err != nil {
		Fatal(err)
	}
	stdout := os.Stdout
	os.Stdout = os.Stderr
	a, _ := testapp.NewNibiruTestAppAndContext()
	os.Stdout = stdout
	var names, blocked []string
	for name := range a.AccountKeeper.GetModulePermissions() {
		names = append(names, name)
	}
	sort.Strings(names)
	for _, n := range names {
		if a.BankKeeper.BlockedAddr(authtypes.NewModuleAddress(n)) {
			blocked = append(blocked, n)
		}
	}
	q := func(xs []string) string {
		var out []string
		for _, x := range xs {
			out = append(out, fmt.Sprintf("%q", x))
		}
		return "[" + strings.Join(out, "; ") + "]%string"
	}
	fmt.Println("From Coq Require Import String.")
	fmt.Printf("Definition gen_module_accounts : list string := %s.\n", q(names))
	fmt.Printf("Definition gen_blocked : list string := %s.\n", q(blocked))
	fmt.Printf("Definition gen_gov_account : string := %q%%string.\n", govtypes.ModuleName)
}

// genRollover prints the comparison guarding CurrentPeriod.Next in Hooks.AfterEpochEnd as a term: operator, operands,
// int64/uint64 conversions — locals and a one-level helper function are inlined, the four quantities are named by role.
func genRollover(repo string) {
	files := ParseDir(repo + "/x/inflation/keeper")
	funcs := Funcs(files)
	var hook *ast.FuncDecl
	for _, fl := range files {
		for _, d := range fl.F.Decls {
			if fd, ok := d.(*ast.FuncDecl); ok && fd.Name.Name == "AfterEpochEnd" && fd.Recv != nil && fd.Body != nil {
				hook = fd
			}
		}
	}
	fmt.Println("Require Import Nib.C13.RollExpr.")
	out := "(COther, ROther, ROther)"
	if hook != nil {
		env := map[string]string{}
		// the epoch number: the last parameter
		ps := hook.Type.Params.List
		if len(ps) > 0 {
			last := ps[len(ps)-1]
			if len(last.Names) > 0 {
				env[last.Names[len(last.Names)-1].Name] = "(RVar VE)"
			}
		}
		var cond ast.Expr
		for _, st := range hook.Body.List {
			switch x := st.(type) {
			case *ast.AssignStmt:
				if len(x.Lhs) == 1 && len(x.Rhs) == 1 {
					if id, ok := x.Lhs[0].(*ast.Ident); ok {
						env[id.Name] = roleOrExpr(x.Rhs[0], env)
					}
				}
			case *ast.IfStmt:
				calls := false
				ast.Inspect(x.Body, func(n ast.Node) bool {
					if c, ok := n.(*ast.CallExpr); ok && strings.HasSuffix(Nospace(c.Fun), ".CurrentPeriod.Next") {
						calls = true
					}
					return true
				})
				if calls && cond == nil {
					cond = x.Cond
				}
			}
		}
		if cond != nil {
			out = cmpTerm(cond, env, funcs)
		}
	}
	fmt.Printf("Definition gen_rollover : rcmp * rexp * rexp := %s.\n", out)
}

func roleOrExpr(e ast.Expr, env map[string]string) string {
	src := Nospace(e)
	switch {
	case strings.HasSuffix(src, ".CurrentPeriod.Peek(ctx)"):
		return "(RVar VPer)"
	case strings.HasSuffix(src, ".GetEpochsPerPeriod(ctx)"):
		return "(RVar VEpp)"
	case strings.HasSuffix(src, ".NumSkippedEpochs.Peek(ctx)"):
		return "(RVar VSk)"
	}
	return expTerm(e, env)
}

func expTerm(e ast.Expr, env map[string]string) string {
	switch x := e.(type) {
	case *ast.ParenExpr:
		return expTerm(x.X, env)
	case *ast.Ident:
		if t, ok := env[x.Name]; ok {
			return t
		}
	case *ast.CallExpr:
		if id, ok := x.Fun.(*ast.Ident); ok && len(x.Args) == 1 {
			switch id.Name {
			case "int64":
				return "(RI64 " + expTerm(x.Args[0], env) + ")"
			case "uint64":
				return "(RU64 " + expTerm(x.Args[0], env) + ")"
			}
		}
	case *ast.BinaryExpr:
		op := map[token.Token]string{token.SUB: "RSub", token.ADD: "RAdd", token.MUL: "RMul"}[x.Op]
		if op != "" {
			return "(" + op + " " + expTerm(x.X, env) + " " + expTerm(x.Y, env) + ")"
		}
	}
	return "ROther"
}

func cmpTerm(e ast.Expr, env map[string]string, funcs map[string]*ast.FuncDecl) string {
	switch x := e.(type) {
	case *ast.ParenExpr:
		return cmpTerm(x.X, env, funcs)
	case *ast.BinaryExpr:
		op := map[token.Token]string{token.GEQ: "CGe", token.GTR: "CGt", token.LEQ: "CLe", token.LSS: "CLt"}[x.Op]
		if op != "" {
			return "(" + op + ", " + expTerm(x.X, env) + ", " + expTerm(x.Y, env) + ")"
		}
	case *ast.CallExpr:
		// a helper of the same package: bind its parameters to the arguments, inline its locals, take its return
		if id, ok := x.Fun.(*ast.Ident); ok {
			if fd := funcs[id.Name]; fd != nil && fd.Body != nil && fd.Recv == nil {
				inner := map[string]string{}
				i := 0
				for _, f := range fd.Type.Params.List {
					for _, n := range f.Names {
						if i < len(x.Args) {
							inner[n.Name] = expTerm(x.Args[i], env)
						}
						i++
					}
				}
				for _, st := range fd.Body.List {
					switch y := st.(type) {
					case *ast.AssignStmt:
						if len(y.Lhs) == 1 && len(y.Rhs) == 1 {
							if lid, ok := y.Lhs[0].(*ast.Ident); ok {
								inner[lid.Name] = expTerm(y.Rhs[0], inner)
							}
						}
					case *ast.ReturnStmt:
						if len(y.Results) == 1 {
							return cmpTerm(y.Results[0], inner, map[string]*ast.FuncDecl{})
						}
					}
				}
			}
		}
	}
	return "(COther, ROther, ROther)"
}
