// Command gen/c13 prints coq/Gen/C13Facts.v: the inflation module's default parameters and default genesis
// counters and the collections.Sequence default, printed from the packages of the /repo working tree this binary
// is linked against (constants, never verdicts).
package main

import (
	"fmt"
	"strings"

	"github.com/NibiruChain/collections"

	. "verifharness/genlib"

	inflationtypes "github.com/NibiruChain/nibiru/v2/x/inflation/types"
)

func z(s string) string { return "(" + s + ")%Z" }

func main() {
	repo := Repo()
	Header(repo)
	p := inflationtypes.DefaultParams()
	g := inflationtypes.DefaultGenesisState()
	var fs []string
	for _, f := range p.PolynomialFactors {
		fs = append(fs, z(f.BigInt().String()))
	}
	d := p.InflationDistribution
	b := func(x bool) string {
		if x {
			return "true"
		}
		return "false"
	}
	fmt.Println("From Coq Require Import ZArith List. Import ListNotations.")
	fmt.Println("Require Import Nib.C13.Model.")
	fmt.Printf("Definition gen_default_params : params := {| p_enabled := %s; p_started := %s; p_factors := [%s];\n", b(p.InflationEnabled), b(p.HasInflationStarted), strings.Join(fs, "; "))
	fmt.Printf("  p_staking := %s; p_community := %s; p_strategic := %s;\n", z(d.StakingRewards.BigInt().String()), z(d.CommunityPool.BigInt().String()), z(d.StrategicReserves.BigInt().String()))
	fmt.Printf("  p_epp := %s; p_ppy := %s; p_max := %s |}.\n", z(fmt.Sprint(p.EpochsPerPeriod)), z(fmt.Sprint(p.PeriodsPerYear)), z(fmt.Sprint(p.MaxPeriod)))
	gp := g.Params
	fmt.Printf("Definition gen_genesis_params_are_default : bool := %s.\n", b(gp.String() == p.String()))
	fmt.Printf("Definition gen_genesis_period : Z := %s.\n", z(fmt.Sprint(g.Period)))
	fmt.Printf("Definition gen_genesis_skipped : Z := %s.\n", z(fmt.Sprint(g.SkippedEpochs)))
	fmt.Printf("Definition gen_sequence_default : Z := %s.\n", z(fmt.Sprint(collections.DefaultSequenceStart)))
}
