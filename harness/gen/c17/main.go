// Command gen/c17 prints coq/Gen/C17Facts.v from the /repo working tree (terms, never verdicts):
// the go/ast facts about the ante routing and the commission guard (antefacts, shared with C02), and —
// from the LINKED application, because depinject wiring is invisible to go/ast — the set of message
// carriers: every registered sdk.Msg type with a google.protobuf.Any field that accepts an sdk.Msg or with
// an accessor returning []sdk.Msg, split by whether the msg service router can execute it.
package main

import (
	"fmt"
	"sort"
	"strings"

	"verifharness/c17/carriers"
	"verifharness/gen/c17/antefacts"
	. "verifharness/genlib"
	"verifharness/hx"
)

func strList(l []string) string {
	var q []string
	for _, s := range l {
		q = append(q, CoqString(s))
	}
	return "[" + strings.Join(q, "; ") + "]"
}

func main() {
	repo := Repo()
	Header(repo)
	antefacts.Emit(repo)

	c := hx.NewChain(nil)
	var routed, unrouted, opaque []string
	nAny, nMsgs := 0, 0
	for _, i := range carriers.Probe(c.App.InterfaceRegistry(), c.App.MsgServiceRouter()) {
		nMsgs++
		if len(i.AnyFields) > 0 {
			nAny++
		}
		switch {
		case i.Carries() && i.Routed:
			routed = append(routed, i.URL)
		case i.Carries():
			unrouted = append(unrouted, i.URL)
		case len(i.OpaqueFields) > 0 && i.Routed:
			opaque = append(opaque, i.URL)
		}
	}
	sort.Strings(routed)
	sort.Strings(unrouted)
	sort.Strings(opaque)
	fmt.Printf("(* linked application: %d registered sdk.Msg types, %d with google.protobuf.Any fields *)\n", nMsgs, nAny)
	// message types the msg service router executes and that carry sdk.Msgs (an Any field accepting an sdk.Msg / a []sdk.Msg accessor)
	fmt.Printf("Definition routed_msg_carriers : list string := %s.\n", strList(routed))
	// routed message types with an Any field their UnpackInterfaces never looks at (content unknown to the probe)
	fmt.Printf("Definition routed_opaque_any : list string := %s.\n", strList(opaque))
	// carriers known to the codec but without a handler: a transaction naming them fails
	fmt.Printf("Definition unrouted_msg_carriers : list string := %s.\n", strList(unrouted))
}
