// Package antefacts re-extracts, with go/parser + go/ast only, the configuration-like facts of the
// ante routing that properties C17 and C02 rest on, and prints them as Coq terms (never verdicts):
//
//   - the ordered decorator lists of NewAnteHandlerNonEVM (app/ante.go) and NewAnteHandlerEVM
//     (app/evmante/evmante_handler.go);
//   - the arms of the extension-option switch of NewAnteHandler and what happens without options;
//   - for each Nibiru guard decorator which message types it tests, whether it looks into
//     MsgExec.GetMessages() and whether it does so recursively (to any depth);
//   - how the commission decorator compares (operand, comparison method, bound) and MAX_COMMISSION;
//   - what the wasm message handler (app/wasmext/wasm.go handleSdkMessage) checks before routing;
//   - which SigGasConsumer the app installs.
package antefacts

import (
	"fmt"
	"go/ast"
	"go/token"
	"os"
	"path/filepath"
	"sort"
	"strconv"
	"strings"

	. "verifharness/genlib"
)

// ---------------------------------------------------------------- helpers

func findFunc(files []File, name, recv string) *ast.FuncDecl {
	for _, fl := range files {
		for _, d := range fl.F.Decls {
			fd, ok := d.(*ast.FuncDecl)
			if !ok || fd.Name.Name != name || fd.Body == nil {
				continue
			}
			if recv == "" && fd.Recv == nil {
				return fd
			}
			if recv != "" && fd.Recv != nil && len(fd.Recv.List) == 1 && strings.TrimPrefix(Nospace(fd.Recv.List[0].Type), "*") == recv {
				return fd
			}
		}
	}
	return nil
}

// decoratorName normalises one argument of sdk.ChainAnteDecorators:
// `ante.AnteDecoratorAuthzGuard{}` -> AnteDecoratorAuthzGuard, `authante.NewSetUpContextDecorator()` ->
// NewSetUpContextDecorator, `CanTransferDecorator{options.EvmKeeper}` -> CanTransferDecorator.
func decoratorName(e ast.Expr) string {
	switch x := e.(type) {
	case *ast.CompositeLit:
		return lastIdent(x.Type)
	case *ast.CallExpr:
		return lastIdent(x.Fun)
	}
	return "?" + Nospace(e)
}

func lastIdent(e ast.Expr) string {
	switch x := e.(type) {
	case *ast.Ident:
		return x.Name
	case *ast.SelectorExpr:
		return x.Sel.Name
	case *ast.StarExpr:
		return lastIdent(x.X)
	case *ast.ParenExpr:
		return lastIdent(x.X)
	}
	return "?" + Nospace(e)
}

// chainOf returns the decorator names of the single `return sdk.ChainAnteDecorators(...)` of fn.
func chainOf(fd *ast.FuncDecl) []string {
	var out []string
	found := 0
	if fd == nil {
		return []string{"?missing"}
	}
	ast.Inspect(fd.Body, func(n ast.Node) bool {
		call, ok := n.(*ast.CallExpr)
		if !ok {
			return true
		}
		if lastIdent(call.Fun) == "ChainAnteDecorators" {
			found++
			args := call.Args
			if call.Ellipsis.IsValid() && len(args) == 1 {
				// `decorators := []sdk.AnteDecorator{…}; return sdk.ChainAnteDecorators(decorators...)`
				if id, ok := args[0].(*ast.Ident); ok {
					if cl := singleDefComposite(fd, id.Name); cl != nil {
						args = cl.Elts
					}
				} else if cl, ok := args[0].(*ast.CompositeLit); ok {
					args = cl.Elts
				}
			}
			for _, a := range args {
				out = append(out, decoratorName(a))
			}
			return false
		}
		return true
	})
	if found != 1 {
		return []string{"?chains=" + strconv.Itoa(found)}
	}
	return out
}

// singleDefComposite: the composite literal a local is bound to, when the local is defined once and never
// assigned or appended to again.
func singleDefComposite(fd *ast.FuncDecl, name string) *ast.CompositeLit {
	var lit *ast.CompositeLit
	n := 0
	ast.Inspect(fd.Body, func(x ast.Node) bool {
		if as, ok := x.(*ast.AssignStmt); ok {
			for i, l := range as.Lhs {
				if id, ok := l.(*ast.Ident); ok && id.Name == name {
					n++
					if as.Tok == token.DEFINE && len(as.Lhs) == len(as.Rhs) {
						if cl, ok := as.Rhs[i].(*ast.CompositeLit); ok {
							lit = cl
						}
					}
				}
			}
		}
		return true
	})
	if n == 1 {
		return lit
	}
	return nil
}

func coqStrList(xs []string) string {
	var q []string
	for _, x := range xs {
		q = append(q, CoqString(x))
	}
	return "[" + strings.Join(q, "; ") + "]"
}

// returnsError: the block contains a return statement whose last result is not the literal nil.
func returnsError(b *ast.BlockStmt) bool {
	res := false
	if b == nil {
		return false
	}
	ast.Inspect(b, func(n ast.Node) bool {
		if _, ok := n.(*ast.FuncLit); ok {
			return false
		}
		if r, ok := n.(*ast.ReturnStmt); ok && len(r.Results) > 0 {
			last := r.Results[len(r.Results)-1]
			if id, ok := last.(*ast.Ident); !ok || id.Name != "nil" {
				res = true
			}
		}
		return true
	})
	return res
}

// hasTopLevelReturn: one of the statements (not nested in an if/for/switch) is a return, i.e. control never
// reaches the end of the list.
func hasTopLevelReturn(stmts []ast.Stmt) bool {
	for _, s := range stmts {
		switch x := s.(type) {
		case *ast.ReturnStmt:
			return true
		case *ast.BlockStmt:
			if hasTopLevelReturn(x.List) {
				return true
			}
		case *ast.BranchStmt:
			if x.Tok == token.GOTO || x.Tok == token.BREAK && x.Label != nil {
				return true
			}
		}
	}
	return false
}

// firstStmtRejects: the statement list starts by returning a non-nil error.
func firstStmtRejects(stmts []ast.Stmt) bool {
	if len(stmts) == 0 {
		return false
	}
	r, ok := stmts[0].(*ast.ReturnStmt)
	if !ok || len(r.Results) == 0 {
		return false
	}
	last := r.Results[len(r.Results)-1]
	id, isId := last.(*ast.Ident)
	return !(isId && id.Name == "nil")
}

// ---------------------------------------------------------------- extension-option switch

type extFacts struct {
	switchOnFirstOption bool
	arms                [][2]string // (type url literal, handler constructor)
	deflt               string      // ArmReject | ArmMissing | ArmHandler "name" | ArmOther
	noExt               string      // constructor used when there is no extension option
	returnsInsideIf     bool        // `return anteHandler(ctx, tx, sim)` inside the len(opts)>0 block
}

func handlerAssigned(stmts []ast.Stmt) string {
	name := ""
	for _, s := range stmts {
		ast.Inspect(s, func(n ast.Node) bool {
			as, ok := n.(*ast.AssignStmt)
			if !ok {
				return true
			}
			for i, l := range as.Lhs {
				if id, ok := l.(*ast.Ident); ok && id.Name == "anteHandler" && i < len(as.Rhs) {
					if c, ok := as.Rhs[i].(*ast.CallExpr); ok {
						name = lastIdent(c.Fun)
					} else {
						name = "?" + Nospace(as.Rhs[i])
					}
				}
			}
			return true
		})
	}
	return name
}

func extSwitch(fd *ast.FuncDecl) extFacts {
	f := extFacts{deflt: "ArmMissing", noExt: "?"}
	if fd == nil {
		return f
	}
	// the handler used when there is no extension option: the anteHandler assignment(s) in the statements of
	// the returned closure that do NOT contain the extension-option switch (`switch tx.(type) {case sdk.Tx: …}`
	// or a plain assignment)
	ast.Inspect(fd.Body, func(n ast.Node) bool {
		fl, ok := n.(*ast.FuncLit)
		if !ok {
			return true
		}
		var rest []ast.Stmt
		for _, st := range fl.Body.List {
			if strings.Contains(Nospace(st), "GetExtensionOptions()") || strings.Contains(Nospace(st), "GetTypeUrl()") {
				continue
			}
			rest = append(rest, st)
		}
		if h := handlerAssigned(rest); h != "" {
			f.noExt = h
		}
		return false
	})
	flLocals := singleDefLocals(fd)
	ast.Inspect(fd.Body, func(n ast.Node) bool {
		switch x := n.(type) {
		case *ast.SwitchStmt:
			// the string switch over the first option's type url
			tag := ""
			if x.Init != nil {
				tag = Nospace(x.Init)
			}
			if x.Tag != nil {
				tag += "|" + Nospace(x.Tag)
			}
			if x.Tag != nil {
				if id, ok := x.Tag.(*ast.Ident); ok {
					if v, ok := flLocals[id.Name]; ok {
						tag += "|" + v
					}
				}
			}
			if !strings.Contains(tag, "GetTypeUrl()") {
				return true
			}
			f.switchOnFirstOption = strings.Contains(tag, "opts[0].GetTypeUrl()")
			for _, c := range x.Body.List {
				cc := c.(*ast.CaseClause)
				if cc.List == nil {
					switch {
					case firstStmtRejects(cc.Body):
						f.deflt = "ArmReject"
					case handlerAssigned(cc.Body) != "":
						f.deflt = "ArmHandler " + CoqString(handlerAssigned(cc.Body))
					default:
						f.deflt = "ArmOther"
					}
					continue
				}
				for _, e := range cc.List {
					lit := Nospace(e)
					if bl, ok := e.(*ast.BasicLit); ok && bl.Kind == token.STRING {
						if s, err := strconv.Unquote(bl.Value); err == nil {
							lit = s
						}
					}
					h := handlerAssigned(cc.Body)
					if h == "" {
						if firstStmtRejects(cc.Body) {
							h = "!reject"
						} else {
							h = "?"
						}
					}
					f.arms = append(f.arms, [2]string{lit, h})
				}
			}
		case *ast.IfStmt:
			if strings.Contains(Nospace(x.Cond), "len(opts)>0") {
				for _, s := range x.Body.List {
					if r, ok := s.(*ast.ReturnStmt); ok && len(r.Results) == 1 && strings.HasPrefix(Nospace(r.Results[0]), "anteHandler(") {
						f.returnsInsideIf = true
					}
				}
			}
		}
		return true
	})
	return f
}

// ---------------------------------------------------------------- guards

type guardFacts struct {
	found     bool
	tests     []string // message types tested (type switch cases / type assertions), sorted
	intoExec  bool     // calls GetMessages() on a MsgExec
	recursive bool     // … and re-applies the same checking function to the result (any depth)
	rejects   bool     // some tested branch returns a non-nil error
}

// helperClosure: package-level functions (no receiver) reachable from fd by direct calls.
func helperClosure(files []File, fd *ast.FuncDecl) []*ast.FuncDecl {
	seen := map[string]bool{}
	out := []*ast.FuncDecl{fd}
	for i := 0; i < len(out); i++ {
		ast.Inspect(out[i].Body, func(n ast.Node) bool {
			if c, ok := n.(*ast.CallExpr); ok {
				if id, ok := c.Fun.(*ast.Ident); ok && !seen[id.Name] {
					if h := findFunc(files, id.Name, ""); h != nil {
						seen[id.Name] = true
						out = append(out, h)
					}
				}
			}
			return true
		})
	}
	return out
}

func typeName(e ast.Expr) string { return strings.TrimPrefix(Nospace(e), "*") }

func guardOf(files []File, recv string) guardFacts {
	g := guardFacts{}
	fd := findFunc(files, "AnteHandle", recv)
	if fd == nil {
		return g
	}
	g.found = true
	tests := map[string]bool{}
	fns := helperClosure(files, fd)
	names := map[string]bool{}
	for _, f := range fns {
		if f.Recv == nil {
			names[f.Name.Name] = true
		}
	}
	for _, f := range fns {
		// variables bound to GetMessages() results inside f
		msgVars := map[string]bool{}
		ast.Inspect(f.Body, func(n ast.Node) bool {
			switch x := n.(type) {
			case *ast.TypeSwitchStmt:
				for _, c := range x.Body.List {
					cc := c.(*ast.CaseClause)
					for _, e := range cc.List {
						tests[typeName(e)] = true
					}
					if cc.List != nil && returnsError(&ast.BlockStmt{List: cc.Body}) {
						g.rejects = true
					}
				}
			case *ast.TypeAssertExpr:
				if x.Type != nil {
					tests[typeName(x.Type)] = true
				}
			case *ast.IfStmt:
				if returnsError(x.Body) {
					g.rejects = true
				}
			case *ast.AssignStmt:
				for i, r := range x.Rhs {
					if c, ok := r.(*ast.CallExpr); ok && lastIdent(c.Fun) == "GetMessages" {
						g.intoExec = true
						if i < len(x.Lhs) {
							if id, ok := x.Lhs[i].(*ast.Ident); ok {
								msgVars[id.Name] = true
							}
						}
						if len(x.Rhs) == 1 && len(x.Lhs) >= 1 {
							if id, ok := x.Lhs[0].(*ast.Ident); ok {
								msgVars[id.Name] = true
							}
						}
					}
				}
			}
			return true
		})
		// recursion: a call of one of the checking functions (or of AnteHandle itself is not possible
		// on a message list) with a GetMessages() result as argument
		ast.Inspect(f.Body, func(n ast.Node) bool {
			c, ok := n.(*ast.CallExpr)
			if !ok {
				return true
			}
			id, ok := c.Fun.(*ast.Ident)
			if !ok || !names[id.Name] {
				return true
			}
			for _, a := range c.Args {
				if aid, ok := a.(*ast.Ident); ok && msgVars[aid.Name] {
					// the callee must (transitively) reach the function holding the type tests: it is in the
					// closure by construction; recursion means the callee can reach f again
					for _, h := range helperClosure(files, findFunc(files, id.Name, "")) {
						if h == f {
							g.recursive = true
						}
					}
				}
				if ac, ok := a.(*ast.CallExpr); ok && lastIdent(ac.Fun) == "GetMessages" {
					for _, h := range helperClosure(files, findFunc(files, id.Name, "")) {
						if h == f {
							g.recursive = true
						}
					}
				}
			}
			return true
		})
	}
	for t := range tests {
		g.tests = append(g.tests, t)
	}
	sort.Strings(g.tests)
	return g
}

func printGuard(name string, g guardFacts) {
	fmt.Printf("Definition %s : guard := {| g_found := %s; g_tests := %s; g_into_exec := %s; g_recursive := %s; g_rejects := %s |}.\n",
		name, CoqBool(g.found), coqStrList(g.tests), CoqBool(g.intoExec), CoqBool(g.recursive), CoqBool(g.rejects))
}

// ---------------------------------------------------------------- commission comparison

type cmpFacts struct {
	operand string // expression compared, local aliases resolved
	method  string // GT | GTE | LT | LTE | …
	bound   string // argument expression
	rejects bool   // the guarded block returns a non-nil error
	nilSafe bool   // (edit only) the condition also tests the pointer against nil first
}

// singleDefLocals: locals of fn that are defined exactly once (`x := e`, one name per side) and never assigned
// again, incremented or used as a range variable — such a name IS the expression it was bound to, provided the
// expression is pure (the caller only accepts known pure right-hand sides such as MAX_COMMISSION()).
func singleDefLocals(fn *ast.FuncDecl) map[string]string {
	defs := map[string]string{}
	count := map[string]int{}
	ast.Inspect(fn.Body, func(n ast.Node) bool {
		switch x := n.(type) {
		case *ast.AssignStmt:
			for i, l := range x.Lhs {
				id, ok := l.(*ast.Ident)
				if !ok {
					continue
				}
				count[id.Name]++
				if x.Tok == token.DEFINE && len(x.Lhs) == len(x.Rhs) {
					defs[id.Name] = Nospace(x.Rhs[i])
				} else {
					count[id.Name]++ // plain assignment or multi-value define: not a constant binding
				}
			}
		case *ast.IncDecStmt:
			if id, ok := x.X.(*ast.Ident); ok {
				count[id.Name] += 2
			}
		case *ast.RangeStmt:
			for _, e := range []ast.Expr{x.Key, x.Value} {
				if id, ok := e.(*ast.Ident); ok {
					count[id.Name] += 2
				}
			}
		}
		return true
	})
	out := map[string]string{}
	for n, e := range defs {
		if count[n] == 1 {
			out[n] = e
		}
	}
	return out
}

// cmpEnv: what is needed to read an expression of a type-switch clause semantically.
type cmpEnv struct {
	switchVar string            // `switch v := msg.(type)`: v is the message
	fnLocals  map[string]string // single-definition locals of the enclosing function
}

// aliasesOf: `x := e` definitions made directly in the clause or in the Init of one of its if statements.
func aliasesOf(clause []ast.Stmt) map[string]string {
	alias := map[string]string{}
	add := func(st ast.Stmt) {
		// `x := e` and a later straight-line `x = e2` (the last binding before the comparison wins)
		if as, ok := st.(*ast.AssignStmt); ok && (as.Tok == token.DEFINE || as.Tok == token.ASSIGN) && len(as.Lhs) == len(as.Rhs) {
			for i, l := range as.Lhs {
				if id, ok := l.(*ast.Ident); ok {
					alias[id.Name] = Nospace(as.Rhs[i])
				}
			}
		}
	}
	for _, s := range clause {
		add(s)
		if ifs, ok := s.(*ast.IfStmt); ok && ifs.Init != nil {
			add(ifs.Init)
		}
	}
	return alias
}

// resolve rewrites an expression to a normal form: dereference stripped, clause aliases and constant locals
// unfolded (a few steps), the type-switch variable called `msg`.
func resolve(env cmpEnv, alias map[string]string, e ast.Expr) string {
	s := strings.TrimPrefix(Nospace(e), "*")
	for i := 0; i < 4; i++ {
		if v, ok := alias[s]; ok {
			s = strings.TrimPrefix(v, "*")
			continue
		}
		if v, ok := env.fnLocals[s]; ok {
			s = v
			continue
		}
		break
	}
	if env.switchVar != "" && env.switchVar != "_" {
		if s == env.switchVar {
			s = "msg"
		} else if strings.HasPrefix(s, env.switchVar+".") {
			s = "msg." + strings.TrimPrefix(s, env.switchVar+".")
		}
	}
	return s
}

// cmpIn reads the first `if … X.CMP(bound) … { return err }` of a clause.  Nil-safety of a pointer operand is
// either `X != nil && X.CMP(bound)` in the same condition or an earlier `if X == nil { continue }`.
func cmpIn(env cmpEnv, clause []ast.Stmt) cmpFacts {
	c := cmpFacts{operand: "?", method: "?", bound: "?"}
	alias := aliasesOf(clause)
	nilGuarded := map[string]bool{} // operands (normal form) behind an earlier `if X == nil { continue }`
	for _, s := range clause {
		ifs, ok := s.(*ast.IfStmt)
		if !ok {
			continue
		}
		if be, ok := ifs.Cond.(*ast.BinaryExpr); ok && be.Op == token.EQL && Nospace(be.Y) == "nil" && ifs.Else == nil && len(ifs.Body.List) == 1 {
			if br, ok := ifs.Body.List[0].(*ast.BranchStmt); ok && br.Label == nil && (br.Tok == token.CONTINUE || br.Tok == token.BREAK) {
				nilGuarded[resolve(env, alias, be.X)] = true
				continue
			}
		}
		found := false
		ast.Inspect(ifs.Cond, func(n ast.Node) bool {
			call, ok := n.(*ast.CallExpr)
			if !ok || found {
				return true
			}
			sel, ok := call.Fun.(*ast.SelectorExpr)
			if !ok || len(call.Args) != 1 {
				return true
			}
			switch sel.Sel.Name {
			case "GT", "GTE", "LT", "LTE", "Equal", "IsNil":
				found = true
				c.method = sel.Sel.Name
				c.operand = resolve(env, alias, sel.X)
				c.bound = resolve(env, alias, call.Args[0])
			}
			return true
		})
		if !found {
			continue
		}
		// `A != nil && …` in the same condition, where A is the operand
		inCond := false
		ast.Inspect(ifs.Cond, func(n ast.Node) bool {
			if be, ok := n.(*ast.BinaryExpr); ok && be.Op == token.LAND {
				if l, ok := be.X.(*ast.BinaryExpr); ok && l.Op == token.NEQ && Nospace(l.Y) == "nil" && resolve(env, alias, l.X) == c.operand {
					inCond = true
				}
			}
			return true
		})
		c.nilSafe = inCond || nilGuarded[c.operand]
		c.rejects = returnsError(ifs.Body)
		break
	}
	return c
}

func printCmp(name string, c cmpFacts) {
	m := map[string]string{"GT": "CmpGT", "GTE": "CmpGTE", "LT": "CmpLT", "LTE": "CmpLTE"}[c.method]
	if m == "" {
		m = "CmpOther"
	}
	fmt.Printf("Definition %s : comparison_site := {| c_operand := %s; c_method := %s; c_bound := %s; c_rejects := %s; c_nil_safe := %s |}.\n",
		name, CoqString(c.operand), m, CoqString(c.bound), CoqBool(c.rejects), CoqBool(c.nilSafe))
}

// pkgValue: the initialiser of a package-level `const`/`var` name (single-name specs only).
func pkgValue(files []File, name string) ast.Expr {
	for _, fl := range files {
		for _, d := range fl.F.Decls {
			gd, ok := d.(*ast.GenDecl)
			if !ok || (gd.Tok != token.CONST && gd.Tok != token.VAR) {
				continue
			}
			for _, sp := range gd.Specs {
				vs := sp.(*ast.ValueSpec)
				for i, n := range vs.Names {
					if n.Name == name && i < len(vs.Values) {
						return vs.Values[i]
					}
				}
			}
		}
	}
	return nil
}

func evalInt(files []File, e ast.Expr, depth int) (int64, bool) {
	switch x := e.(type) {
	case *ast.BasicLit:
		if x.Kind == token.INT {
			v, err := strconv.ParseInt(strings.ReplaceAll(x.Value, "_", ""), 0, 64)
			return v, err == nil
		}
	case *ast.Ident:
		if depth < 3 {
			if v := pkgValue(files, x.Name); v != nil {
				return evalInt(files, v, depth+1)
			}
		}
	case *ast.CallExpr: // int64(25)
		if len(x.Args) == 1 && strings.HasPrefix(lastIdent(x.Fun), "int") {
			return evalInt(files, x.Args[0], depth+1)
		}
	case *ast.ParenExpr:
		return evalInt(files, x.X, depth)
	}
	return 0, false
}

// evalDec evaluates a constant LegacyDec expression to its raw integer (×10^18); "" when not understood.
func evalDec(files []File, e ast.Expr, depth int) string {
	switch x := e.(type) {
	case *ast.CallExpr:
		fn := lastIdent(x.Fun)
		if strings.HasSuffix(fn, "NewDecFromStr") && len(x.Args) == 1 {
			if bl, ok := x.Args[0].(*ast.BasicLit); ok && bl.Kind == token.STRING {
				if s, err := strconv.Unquote(bl.Value); err == nil {
					return decRaw(s)
				}
			}
		}
		if strings.HasSuffix(fn, "NewDecWithPrec") && len(x.Args) == 2 {
			i, ok1 := evalInt(files, x.Args[0], 0)
			pr, ok2 := evalInt(files, x.Args[1], 0)
			if ok1 && ok2 && pr >= 0 && pr <= 18 && i >= 0 {
				return strings.TrimLeft(strconv.FormatInt(i, 10)+strings.Repeat("0", int(18-pr)), "0")
			}
		}
	case *ast.Ident:
		if depth < 3 {
			if v := pkgValue(files, x.Name); v != nil {
				return evalDec(files, v, depth+1)
			}
		}
	case *ast.ParenExpr:
		return evalDec(files, x.X, depth)
	}
	return ""
}

// decRaw turns a decimal literal such as "0.25" into the raw LegacyDec integer (×10^18); "" if malformed.
func decRaw(s string) string {
	neg := strings.HasPrefix(s, "-")
	s = strings.TrimPrefix(s, "-")
	parts := strings.SplitN(s, ".", 2)
	ip, fp := parts[0], ""
	if len(parts) == 2 {
		fp = parts[1]
	}
	if ip == "" || len(fp) > 18 {
		return ""
	}
	for _, ch := range ip + fp {
		if ch < '0' || ch > '9' {
			return ""
		}
	}
	d := strings.TrimLeft(ip+fp+strings.Repeat("0", 18-len(fp)), "0")
	if d == "" {
		d = "0"
	}
	if neg {
		d = "-" + d
	}
	return d
}

// goDirs lists every directory under repo/<root> that holds non-test .go files.
func goDirs(repo string, roots ...string) []string {
	var out []string
	for _, r := range roots {
		filepath.WalkDir(filepath.Join(repo, r), func(p string, d os.DirEntry, err error) error {
			if err != nil || !d.IsDir() {
				return nil
			}
			ents, _ := os.ReadDir(p)
			for _, e := range ents {
				if !e.IsDir() && strings.HasSuffix(e.Name(), ".go") && !strings.HasSuffix(e.Name(), "_test.go") {
					out = append(out, p)
					break
				}
			}
			return nil
		})
	}
	sort.Strings(out)
	return out
}

// ---------------------------------------------------------------- main entry

// Emit prints every definition (the caller has printed the header).
func Emit(repo string) {
	appFiles := ParseDir(repo + "/app")
	anteFiles := ParseDir(repo + "/app/ante")
	evmAnteFiles := ParseDir(repo + "/app/evmante")
	wasmFiles := ParseDir(repo + "/app/wasmext")

	fmt.Println("Require Import Nib.C17.AnteFacts.")
	fmt.Println("From Coq Require Import String List ZArith. Import ListNotations. Open Scope string_scope.")

	fmt.Printf("Definition nonevm_chain : list string := %s.\n", coqStrList(chainOf(findFunc(appFiles, "NewAnteHandlerNonEVM", ""))))
	fmt.Printf("Definition evm_chain : list string := %s.\n", coqStrList(chainOf(findFunc(evmAnteFiles, "NewAnteHandlerEVM", ""))))

	x := extSwitch(findFunc(appFiles, "NewAnteHandler", ""))
	var arms []string
	for _, a := range x.arms {
		arms = append(arms, fmt.Sprintf("(%s, %s)", CoqString(a[0]), CoqString(a[1])))
	}
	fmt.Printf("Definition ext_switch : ext_facts := {| x_on_first_option := %s; x_arms := [%s]; x_default := %s; x_no_ext := %s; x_returns_inside := %s |}.\n",
		CoqBool(x.switchOnFirstOption), strings.Join(arms, "; "), x.deflt, CoqString(x.noExt), CoqBool(x.returnsInsideIf))

	printGuard("guard_prevent_eth", guardOf(anteFiles, "AnteDecoratorPreventEtheruemTxMsgs"))
	printGuard("guard_authz", guardOf(anteFiles, "AnteDecoratorAuthzGuard"))
	gc := guardOf(anteFiles, "AnteDecoratorStakingCommission")
	printGuard("guard_commission", gc)

	// commission comparison sites: the type-switch clauses for MsgCreateValidator / MsgEditValidator
	create, edit := cmpFacts{operand: "?", method: "?", bound: "?"}, cmpFacts{operand: "?", method: "?", bound: "?"}
	if fd := findFunc(anteFiles, "AnteHandle", "AnteDecoratorStakingCommission"); fd != nil {
		for _, f := range helperClosure(anteFiles, fd) {
			ast.Inspect(f.Body, func(n ast.Node) bool {
				ts, ok := n.(*ast.TypeSwitchStmt)
				if !ok {
					return true
				}
				env := cmpEnv{fnLocals: singleDefLocals(f)}
				if as, ok := ts.Assign.(*ast.AssignStmt); ok && len(as.Lhs) == 1 {
					if id, ok := as.Lhs[0].(*ast.Ident); ok {
						env.switchVar = id.Name
					}
				}
				for _, c := range ts.Body.List {
					cc := c.(*ast.CaseClause)
					for _, e := range cc.List {
						switch typeName(e) {
						case "stakingtypes.MsgCreateValidator":
							create = cmpIn(env, cc.Body)
						case "stakingtypes.MsgEditValidator":
							edit = cmpIn(env, cc.Body)
						}
					}
				}
				return true
			})
		}
	}
	printCmp("commission_create_site", create)
	printCmp("commission_edit_site", edit)

	// does the loop over the message list go on after each clause?  (an unconditional `return` in a clause, or
	// after the switch, ends the scan: later messages of the same list are never checked)
	afterExec, afterCreate, afterEdit, afterOther, afterSwitch := false, false, false, false, false
	if fd := findFunc(anteFiles, "AnteHandle", "AnteDecoratorStakingCommission"); fd != nil {
		for _, f := range helperClosure(anteFiles, fd) {
			ast.Inspect(f.Body, func(n ast.Node) bool {
				var loopBody *ast.BlockStmt
				switch l := n.(type) {
				case *ast.RangeStmt:
					loopBody = l.Body
				case *ast.ForStmt:
					loopBody = l.Body
				default:
					return true
				}
				rs := struct{ Body *ast.BlockStmt }{loopBody}
				for i, st := range rs.Body.List {
					ts, ok := st.(*ast.TypeSwitchStmt)
					if !ok {
						continue
					}
					staking := false
					for _, c := range ts.Body.List {
						for _, e := range c.(*ast.CaseClause).List {
							if typeName(e) == "stakingtypes.MsgCreateValidator" {
								staking = true
							}
						}
					}
					if !staking {
						continue
					}
					afterOther = true // no default clause: other messages fall out of the switch
					for _, c := range ts.Body.List {
						cc := c.(*ast.CaseClause)
						goesOn := !hasTopLevelReturn(cc.Body)
						if cc.List == nil {
							afterOther = goesOn
						}
						for _, e := range cc.List {
							switch typeName(e) {
							case "stakingtypes.MsgCreateValidator":
								afterCreate = goesOn
							case "stakingtypes.MsgEditValidator":
								afterEdit = goesOn
							case "authz.MsgExec":
								afterExec = goesOn
							}
						}
					}
					afterSwitch = !hasTopLevelReturn(rs.Body.List[i+1:])
				}
				return true
			})
		}
	}
	fmt.Printf("Definition commission_scan : scan_facts := {| s_after_exec := %s; s_after_create := %s; s_after_edit := %s; s_after_other := %s; s_after_switch := %s |}.\n",
		CoqBool(afterExec), CoqBool(afterCreate), CoqBool(afterEdit), CoqBool(afterOther), CoqBool(afterSwitch))

	// MAX_COMMISSION: `func MAX_COMMISSION() sdk.Dec { return math.LegacyMustNewDecFromStr("0.25") }`, also
	// NewDecWithPrec(i, prec) with integer literals / package-level constants, or a package-level var/const
	raw := ""
	if fd := findFunc(anteFiles, "MAX_COMMISSION", ""); fd != nil && len(fd.Body.List) == 1 {
		if r, ok := fd.Body.List[0].(*ast.ReturnStmt); ok && len(r.Results) == 1 {
			raw = evalDec(anteFiles, r.Results[0], 0)
		}
	}
	if raw == "" {
		fmt.Println("Definition max_commission_raw : option Z := None.")
	} else {
		fmt.Printf("Definition max_commission_raw : option Z := Some (%s)%%Z.\n", raw)
	}

	// wasm message handler
	wh := findFunc(wasmFiles, "handleSdkMessage", "SDKMessageHandler")
	var vb, signer, refusesEth, commission, routes bool
	if wh != nil {
		routePos := token.Pos(0)
		ast.Inspect(wh.Body, func(n ast.Node) bool {
			if c, ok := n.(*ast.CallExpr); ok && Nospace(c) == "h.router.Handler(msg)" && routePos == 0 {
				routePos = c.Pos()
				routes = true
			}
			return true
		})
		isEthType := func(e ast.Expr) bool { return strings.TrimPrefix(Nospace(e), "*") == "evm.MsgEthereumTx" }
		locals := singleDefLocals(wh)
		unfold := func(e ast.Expr) string {
			t := Nospace(e)
			if v, ok := locals[t]; ok {
				return v
			}
			return t
		}
		isEthURL := func(e ast.Expr) bool {
			t := unfold(e)
			return t == "sdk.MsgTypeURL(new(evm.MsgEthereumTx))" || t == "sdk.MsgTypeURL(&evm.MsgEthereumTx{})"
		}
		// errVarChecked: the statement after index i is `if <name> != nil { return …err }`
		errChecked := func(i int, name string) bool {
			if i+1 >= len(wh.Body.List) {
				return false
			}
			ifs, ok := wh.Body.List[i+1].(*ast.IfStmt)
			return ok && ifs.Init == nil && Nospace(ifs.Cond) == name+"!=nil" && returnsError(ifs.Body)
		}
		// unconditional guard calls: `if err := CALL; err != nil { return }` or `err := CALL` + `if err != nil { return }`
		guardCall := func(i int, st ast.Stmt) *ast.CallExpr {
			switch x := st.(type) {
			case *ast.IfStmt:
				if as, ok := x.Init.(*ast.AssignStmt); ok && len(as.Rhs) == 1 && returnsError(x.Body) && strings.HasSuffix(Nospace(x.Cond), "!=nil") {
					if c, ok := as.Rhs[0].(*ast.CallExpr); ok {
						return c
					}
				}
			case *ast.AssignStmt:
				if len(x.Rhs) == 1 && len(x.Lhs) >= 1 {
					if c, ok := x.Rhs[0].(*ast.CallExpr); ok {
						if id, ok := x.Lhs[len(x.Lhs)-1].(*ast.Ident); ok && errChecked(i, id.Name) {
							return c
						}
					}
				}
			}
			return nil
		}
		for i, s := range wh.Body.List {
			if routePos != 0 && s.Pos() >= routePos {
				break
			}
			src := Nospace(s)
			if c := guardCall(i, s); c != nil {
				cs := Nospace(c)
				if cs == "msg.ValidateBasic()" {
					vb = true
				}
				if strings.Contains(strings.ToLower(lastIdent(c.Fun)), "commission") && strings.Contains(cs, "msg") {
					commission = true // applied to every dispatched message, whatever its type
				}
			}
			switch x := s.(type) {
			case *ast.IfStmt:
				// `if typeURL == sdk.MsgTypeURL(new(evm.MsgEthereumTx)) { return err }` (either side, local unfolded)
				if be, ok := x.Cond.(*ast.BinaryExpr); ok && be.Op == token.EQL && (isEthURL(be.X) || isEthURL(be.Y)) && returnsError(x.Body) {
					refusesEth = true
				}
				// `if _, ok := msg.(*evm.MsgEthereumTx); ok { return err }`
				if as, ok := x.Init.(*ast.AssignStmt); ok && len(as.Rhs) == 1 {
					if ta, ok := as.Rhs[0].(*ast.TypeAssertExpr); ok && ta.Type != nil && isEthType(ta.Type) && Nospace(ta.X) == "msg" && returnsError(x.Body) {
						refusesEth = true
					}
				}
			case *ast.TypeSwitchStmt:
				// `switch msg.(type) { case *evm.MsgEthereumTx: return err … }`
				for _, c := range x.Body.List {
					cc := c.(*ast.CaseClause)
					for _, e := range cc.List {
						if isEthType(e) && len(cc.List) == 1 && firstStmtRejects(cc.Body) {
							refusesEth = true
						}
					}
				}
			case *ast.SwitchStmt:
				// `switch sdk.MsgTypeURL(msg) { case sdk.MsgTypeURL(&evm.MsgEthereumTx{}): return err }`
				for _, c := range x.Body.List {
					cc := c.(*ast.CaseClause)
					for _, e := range cc.List {
						if isEthURL(e) && len(cc.List) == 1 && firstStmtRejects(cc.Body) {
							refusesEth = true
						}
					}
				}
			case *ast.RangeStmt:
				if strings.Contains(Nospace(x.X), "msg.GetSigners()") && strings.Contains(src, ".Equals(contractAddr)") && returnsError(x.Body) {
					signer = true
				}
			}
		}
	}
	fmt.Printf("Definition wasm_handler : wasm_facts := {| w_validate_basic := %s; w_signer_is_contract := %s; w_refuses_eth := %s; w_commission_check := %s; w_routes := %s |}.\n",
		CoqBool(vb), CoqBool(signer), CoqBool(refusesEth), CoqBool(commission), CoqBool(routes))

	// extension options registered with the interface registry (anything else fails tx decoding)
	var regExt []string
	for _, dir := range goDirs(repo, "x", "app", "eth") {
		for _, fl := range ParseDir(dir) {
			ast.Inspect(fl.F, func(n ast.Node) bool {
				c, ok := n.(*ast.CallExpr)
				if !ok || lastIdent(c.Fun) != "RegisterImplementations" || len(c.Args) < 2 {
					return true
				}
				if !strings.Contains(Nospace(c.Args[0]), "TxExtensionOptionI") {
					return true
				}
				for _, a := range c.Args[1:] {
					if u, ok := a.(*ast.UnaryExpr); ok {
						if cl, ok := u.X.(*ast.CompositeLit); ok {
							regExt = append(regExt, lastIdent(cl.Type))
							continue
						}
					}
					regExt = append(regExt, "?"+Nospace(a))
				}
				return true
			})
		}
	}
	sort.Strings(regExt)
	fmt.Printf("Definition registered_ext_options : list string := %s.\n", coqStrList(regExt))

	// ICA host allow-lists set by upgrade handlers (`AllowMessages: []string{sdk.MsgTypeURL(&pkg.Type{}), …}`)
	var icaLists []string
	for _, dir := range goDirs(repo, "app/upgrades") {
		for _, fl := range ParseDir(dir) {
			ast.Inspect(fl.F, func(n ast.Node) bool {
				kv, ok := n.(*ast.KeyValueExpr)
				if !ok {
					return true
				}
				id, ok := kv.Key.(*ast.Ident)
				if !ok || id.Name != "AllowMessages" {
					return true
				}
				cl, ok := kv.Value.(*ast.CompositeLit)
				if !ok {
					icaLists = append(icaLists, coqStrList([]string{"?" + Nospace(kv.Value)}))
					return true
				}
				var names []string
				for _, e := range cl.Elts {
					name := "?" + Nospace(e)
					if c, ok := e.(*ast.CallExpr); ok && lastIdent(c.Fun) == "MsgTypeURL" && len(c.Args) == 1 {
						if u, ok := c.Args[0].(*ast.UnaryExpr); ok {
							if l, ok := u.X.(*ast.CompositeLit); ok {
								name = Nospace(l.Type)
							}
						}
					} else if bl, ok := e.(*ast.BasicLit); ok {
						if v, err := strconv.Unquote(bl.Value); err == nil {
							name = v
						}
					}
					names = append(names, name)
				}
				icaLists = append(icaLists, coqStrList(names))
				return true
			})
		}
	}
	fmt.Printf("Definition ica_allow_lists : list (list string) := [%s].\n", strings.Join(icaLists, "; "))

	// MsgEthereumTx.GetSigners: recovered from the signature (GetSender) and never from the unsigned From field
	recovered := false
	if fd := findFunc(ParseDir(repo+"/x/evm"), "GetSigners", "MsgEthereumTx"); fd != nil {
		body := Nospace(fd.Body)
		recovered = strings.Contains(body, "msg.GetSender(") && !strings.Contains(body, "From")
	}
	fmt.Printf("Definition eth_signers_from_signature : bool := %s.\n", CoqBool(recovered))

	// SigGasConsumer installed by app.go
	sgc := "?"
	for _, fl := range appFiles {
		ast.Inspect(fl.F, func(n ast.Node) bool {
			if kv, ok := n.(*ast.KeyValueExpr); ok {
				if id, ok := kv.Key.(*ast.Ident); ok && id.Name == "SigGasConsumer" {
					sgc = lastIdent(kv.Value)
				}
			}
			return true
		})
	}
	fmt.Printf("Definition sig_gas_consumer : string := %s.\n", CoqString(sgc))
}
