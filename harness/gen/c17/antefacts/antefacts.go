// Package antefacts re-extracts, with go/parser + go/ast only, the configuration-like facts of the
// ante routing that properties C17 and C02 rest on, and prints them as Coq terms (never verdicts):
//
//   - the ordered decorator lists of NewAnteHandlerNonEVM (app/ante.go) and NewAnteHandlerEVM
//     (app/evmante/evmante_handler.go);
//   - the arms of the extension-option switch of NewAnteHandler and what happens without options;
//   - for each Nibiru guard decorator which message types it tests, whether it looks into
//     MsgExec.GetMessages() and whether it does so recursively (to any depth);
//   - how the commission decorator compares (operand, comparison method, bound) and MAX_COMMISSION;
//   - what the wasm message handler (app/wasmext/wasm.go handleSdkMessage) checks before routing;
//   - which SigGasConsumer the app installs.
package antefacts

import (
	"fmt"
	"go/ast"
	"go/token"
	"os"
	"path/filepath"
	"regexp"
	"sort"
	"strconv"
	"strings"

	. "verifharness/genlib"
)

// ---------------------------------------------------------------- helpers

func findFunc(files []File, name, recv string) *ast.FuncDecl {
	for _, fl := range files {
		for _, d := range fl.F.Decls {
			fd, ok := d.(*ast.FuncDecl)
			if !ok || fd.Name.Name != name || fd.Body == nil {
				continue
			}
			if recv == "" && fd.Recv == nil {
				return fd
			}
			if recv != "" && fd.Recv != nil && len(fd.Recv.List) == 1 && strings.TrimPrefix(Nospace(fd.Recv.List[0].Type), "*") == recv {
				return fd
			}
		}
	}
	return nil
}

// decoratorName normalises one argument of sdk.ChainAnteDecorators:
// `ante.AnteDecoratorAuthzGuard{}` -> AnteDecoratorAuthzGuard, `authante.NewSetUpContextDecorator()` ->
// NewSetUpContextDecorator, `CanTransferDecorator{options.EvmKeeper}` -> CanTransferDecorator.
func decoratorName(e ast.Expr) string {
	switch x := e.(type) {
	case *ast.CompositeLit:
		return lastIdent(x.Type)
	case *ast.CallExpr:
		return lastIdent(x.Fun)
	}
	return "?" + Nospace(e)
}

func lastIdent(e ast.Expr) string {
	switch x := e.(type) {
	case *ast.Ident:
		return x.Name
	case *ast.SelectorExpr:
		return x.Sel.Name
	case *ast.StarExpr:
		return lastIdent(x.X)
	case *ast.ParenExpr:
		return lastIdent(x.X)
	}
	return "?" + Nospace(e)
}

// chainOf returns the decorator names of the single `return sdk.ChainAnteDecorators(...)` of fn.
func chainOf(fd *ast.FuncDecl) []string {
	var out []string
	found := 0
	if fd == nil {
		return []string{"?missing"}
	}
	ast.Inspect(fd.Body, func(n ast.Node) bool {
		call, ok := n.(*ast.CallExpr)
		if !ok {
			return true
		}
		if lastIdent(call.Fun) == "ChainAnteDecorators" {
			found++
			args := call.Args
			if call.Ellipsis.IsValid() && len(args) == 1 {
				// `decorators := []sdk.AnteDecorator{…}; return sdk.ChainAnteDecorators(decorators...)`
				if id, ok := args[0].(*ast.Ident); ok {
					if cl := singleDefComposite(fd, id.Name); cl != nil {
						args = cl.Elts
					}
				} else if cl, ok := args[0].(*ast.CompositeLit); ok {
					args = cl.Elts
				}
			}
			for _, a := range args {
				out = append(out, decoratorName(a))
			}
			return false
		}
		return true
	})
	if found != 1 {
		return []string{"?chains=" + strconv.Itoa(found)}
	}
	return out
}

// singleDefComposite: the elements of the slice a local holds when it reaches the call: `x := []T{…}` (or
// `var x []T`) followed only by straight-line `x = append(x, …)` statements at the top level of the function.
func singleDefComposite(fd *ast.FuncDecl, name string) *ast.CompositeLit {
	var elts []ast.Expr
	defined, bad := false, false
	isName := func(e ast.Expr) bool { id, ok := e.(*ast.Ident); return ok && id.Name == name }
	for _, st := range fd.Body.List {
		switch x := st.(type) {
		case *ast.DeclStmt:
			if gd, ok := x.Decl.(*ast.GenDecl); ok {
				for _, sp := range gd.Specs {
					if vs, ok := sp.(*ast.ValueSpec); ok {
						for i, n := range vs.Names {
							if n.Name == name {
								defined = true
								if i < len(vs.Values) {
									if cl, ok := vs.Values[i].(*ast.CompositeLit); ok {
										elts = append(elts, cl.Elts...)
									} else {
										bad = true
									}
								}
							}
						}
					}
				}
			}
		case *ast.AssignStmt:
			for i, l := range x.Lhs {
				if !isName(l) || len(x.Lhs) != len(x.Rhs) {
					if isName(l) {
						bad = true
					}
					continue
				}
				switch r := x.Rhs[i].(type) {
				case *ast.CompositeLit:
					if x.Tok != token.DEFINE || defined {
						bad = true
					}
					defined = true
					elts = append([]ast.Expr{}, r.Elts...)
				case *ast.CallExpr:
					if id, ok := r.Fun.(*ast.Ident); ok && id.Name == "append" && len(r.Args) >= 1 && isName(r.Args[0]) && !r.Ellipsis.IsValid() && defined {
						elts = append(elts, r.Args[1:]...)
					} else {
						bad = true
					}
				default:
					bad = true
				}
			}
		default:
			// any other statement that mentions the name as an assignment target or an append makes the reading unsafe
			ast.Inspect(st, func(n ast.Node) bool {
				if as, ok := n.(*ast.AssignStmt); ok {
					for _, l := range as.Lhs {
						if isName(l) {
							bad = true
						}
					}
				}
				return true
			})
		}
	}
	if !defined || bad {
		return nil
	}
	return &ast.CompositeLit{Elts: elts}
}

func coqStrList(xs []string) string {
	var q []string
	for _, x := range xs {
		q = append(q, CoqString(x))
	}
	return "[" + strings.Join(q, "; ") + "]"
}

// returnsError: the block contains a return statement whose last result is not the literal nil.
func returnsError(b *ast.BlockStmt) bool {
	res := false
	if b == nil {
		return false
	}
	ast.Inspect(b, func(n ast.Node) bool {
		if _, ok := n.(*ast.FuncLit); ok {
			return false
		}
		if r, ok := n.(*ast.ReturnStmt); ok && len(r.Results) > 0 {
			last := r.Results[len(r.Results)-1]
			if id, ok := last.(*ast.Ident); !ok || id.Name != "nil" {
				res = true
			}
		}
		return true
	})
	return res
}

// hasTopLevelReturn: one of the statements (not nested in an if/for/switch) is a return, i.e. control never
// reaches the end of the list.
func hasTopLevelReturn(stmts []ast.Stmt) bool {
	for _, s := range stmts {
		switch x := s.(type) {
		case *ast.ReturnStmt:
			return true
		case *ast.BlockStmt:
			if hasTopLevelReturn(x.List) {
				return true
			}
		case *ast.BranchStmt:
			if x.Tok == token.GOTO || x.Tok == token.BREAK && x.Label != nil {
				return true
			}
		}
	}
	return false
}

// firstStmtRejects: the statement list starts by returning a non-nil error.
func firstStmtRejects(stmts []ast.Stmt) bool {
	if len(stmts) == 0 {
		return false
	}
	r, ok := stmts[0].(*ast.ReturnStmt)
	if !ok || len(r.Results) == 0 {
		return false
	}
	last := r.Results[len(r.Results)-1]
	id, isId := last.(*ast.Ident)
	return !(isId && id.Name == "nil")
}

// ---------------------------------------------------------------- extension-option switch

type extFacts struct {
	switchOnFirstOption bool
	arms                [][2]string // (type url literal, handler constructor)
	deflt               string      // ArmReject | ArmMissing | ArmHandler "name" | ArmOther
	noExt               string      // constructor used when there is no extension option
	noExtHeight0        string      // … when additionally ctx.BlockHeight() == 0 (gentxs delivered from InitChain); = noExt unless the code distinguishes
	returnsInsideIf     bool        // `return anteHandler(ctx, tx, sim)` inside the len(opts)>0 block
}

// handlerIn: the ante-handler constructor (NewAnteHandler…) that the statements assign or return; "" when there
// is none, "?multi" when there are several different ones.
func handlerIn(stmts []ast.Stmt) string {
	seen := map[string]bool{}
	note := func(e ast.Expr) {
		if c, ok := e.(*ast.CallExpr); ok && strings.HasPrefix(lastIdent(c.Fun), "NewAnteHandler") {
			seen[lastIdent(c.Fun)] = true
		}
	}
	for _, s := range stmts {
		ast.Inspect(s, func(n ast.Node) bool {
			switch x := n.(type) {
			case *ast.FuncLit:
				return false
			case *ast.AssignStmt:
				for _, r := range x.Rhs {
					note(r)
				}
			case *ast.ReturnStmt:
				for _, r := range x.Results {
					note(r)
				}
			}
			return true
		})
	}
	switch len(seen) {
	case 0:
		return ""
	case 1:
		for k := range seen {
			return k
		}
	}
	return "?multi"
}

func armOf(stmts []ast.Stmt) string {
	switch h := handlerIn(stmts); {
	case firstStmtRejects(stmts):
		return "ArmReject"
	case h != "":
		return "ArmHandler " + CoqString(h)
	}
	return "ArmOther"
}

// stringConst: a string literal, or a package-level constant/variable bound to one.
func stringConst(files []File, e ast.Expr) (string, bool) {
	switch x := e.(type) {
	case *ast.BasicLit:
		if x.Kind == token.STRING {
			if v, err := strconv.Unquote(x.Value); err == nil {
				return v, true
			}
		}
	case *ast.Ident:
		if v := pkgValue(files, x.Name); v != nil {
			if _, isId := v.(*ast.Ident); !isId {
				return stringConst(files, v)
			}
		}
	case *ast.ParenExpr:
		return stringConst(files, x.X)
	}
	return "", false
}

type routeBody struct {
	name  string
	stmts []ast.Stmt
	node  ast.Node // the function (decl or literal) whose body this is
}

// definingRHS: the right-hand side the identifier is bound to inside node (also in if/switch Init, also as
// one of several results of a single call).
func definingRHS(node ast.Node, name string) ast.Expr {
	var rhs ast.Expr
	ast.Inspect(node, func(n ast.Node) bool {
		as, ok := n.(*ast.AssignStmt)
		if !ok || rhs != nil {
			return true
		}
		for i, l := range as.Lhs {
			if id, ok := l.(*ast.Ident); ok && id.Name == name {
				if len(as.Lhs) == len(as.Rhs) {
					rhs = as.Rhs[i]
				} else if len(as.Rhs) == 1 {
					rhs = as.Rhs[0]
				}
			}
		}
		return true
	})
	return rhs
}

const firstOptionURL = "[0].GetTypeUrl()"

// isFirstOptionURL: the expression is the type URL of the first extension option — directly, through a local, or
// through a same-package helper that returns it.
func isFirstOptionURL(files []File, scope ast.Node, e ast.Expr, depth int) bool {
	if e == nil || depth > 3 {
		return false
	}
	if strings.Contains(Nospace(e), firstOptionURL) {
		return true
	}
	switch x := e.(type) {
	case *ast.Ident:
		return isFirstOptionURL(files, scope, definingRHS(scope, x.Name), depth+1)
	case *ast.CallExpr:
		if id, ok := x.Fun.(*ast.Ident); ok {
			if h := findFunc(files, id.Name, ""); h != nil {
				found := false
				ast.Inspect(h.Body, func(n ast.Node) bool {
					if r, ok := n.(*ast.ReturnStmt); ok && len(r.Results) > 0 && isFirstOptionURL(files, h, r.Results[0], depth+1) {
						found = true
					}
					return true
				})
				return found
			}
		}
	}
	return false
}

// blockWith finds the statement list that directly contains target, searching below the given list.
func blockWith(list []ast.Stmt, target ast.Stmt) []ast.Stmt {
	for _, s := range list {
		if s == target {
			return list
		}
	}
	var res []ast.Stmt
	for _, s := range list {
		ast.Inspect(s, func(n ast.Node) bool {
			if res != nil {
				return false
			}
			switch b := n.(type) {
			case *ast.BlockStmt:
				for _, t := range b.List {
					if t == target {
						res = b.List
					}
				}
			case *ast.CaseClause:
				for _, t := range b.Body {
					if t == target {
						res = b.Body
					}
				}
			}
			return true
		})
	}
	return res
}

func after(list []ast.Stmt, target ast.Stmt) []ast.Stmt {
	for i, s := range list {
		if s == target {
			return list[i+1:]
		}
	}
	return nil
}

func hasReturn(stmts []ast.Stmt) bool {
	for _, s := range stmts {
		if _, ok := s.(*ast.ReturnStmt); ok {
			return true
		}
	}
	return false
}

// extSwitch reads how the ante handler is chosen from the first extension option.  The logic may live in the
// closure returned by NewAnteHandler or in same-package helpers it calls; it may be a `switch` over the type URL
// or an `if url ==/!= <eth url>` with guard clauses; the URL may be a literal or a named constant.
func extSwitch(files []File, fd *ast.FuncDecl) extFacts {
	f := extFacts{deflt: "ArmMissing", noExt: "?", noExtHeight0: "?"}
	if fd == nil {
		return f
	}
	var bodies []routeBody
	ast.Inspect(fd.Body, func(n ast.Node) bool {
		if fl, ok := n.(*ast.FuncLit); ok {
			bodies = append(bodies, routeBody{"closure", fl.Body.List, fl})
		}
		return true
	})
	bodies = append(bodies, routeBody{fd.Name.Name, fd.Body.List, fd})
	for _, h := range helperClosure(files, fd)[1:] {
		bodies = append(bodies, routeBody{h.Name.Name, h.Body.List, h})
	}
	for _, rb := range bodies {
		var sw *ast.SwitchStmt
		var cmpIf *ast.IfStmt
		var cmpOp token.Token
		var cmpOther ast.Expr
		for _, top := range rb.stmts {
			ast.Inspect(top, func(n ast.Node) bool {
				switch x := n.(type) {
				case *ast.FuncLit:
					return rb.node == n
				case *ast.SwitchStmt:
					if sw != nil {
						return true
					}
					var tag ast.Expr = x.Tag
					if tag == nil {
						return true
					}
					scope := ast.Node(rb.node)
					if x.Init != nil {
						if id, ok := tag.(*ast.Ident); ok {
							if r := definingRHS(x.Init, id.Name); r != nil {
								tag = r
							}
						}
					}
					if isFirstOptionURL(files, scope, tag, 0) {
						sw = x
					}
				case *ast.IfStmt:
					if cmpIf != nil {
						return true
					}
					if be, ok := x.Cond.(*ast.BinaryExpr); ok && (be.Op == token.EQL || be.Op == token.NEQ) {
						for _, pair := range [][2]ast.Expr{{be.X, be.Y}, {be.Y, be.X}} {
							if u, ok := stringConst(files, pair[0]); ok && u == "/eth.evm.v1.ExtensionOptionsEthereumTx" {
								cmpIf, cmpOp, cmpOther = x, be.Op, pair[1]
							}
						}
					}
				}
				return true
			})
		}
		if sw == nil && cmpIf == nil {
			continue
		}
		var site ast.Stmt
		if sw != nil {
			site = sw
			f.switchOnFirstOption = true
			for _, c := range sw.Body.List {
				cc := c.(*ast.CaseClause)
				if cc.List == nil {
					f.deflt = armOf(cc.Body)
					continue
				}
				for _, e := range cc.List {
					lit, ok := stringConst(files, e)
					if !ok {
						lit = "?" + Nospace(e)
					}
					h := handlerIn(cc.Body)
					if h == "" {
						if firstStmtRejects(cc.Body) {
							h = "!reject"
						} else {
							h = "?"
						}
					}
					f.arms = append(f.arms, [2]string{lit, h})
				}
			}
			// every arm returns, or the enclosing (nested) block returns right after the switch
			blk := blockWith(rb.stmts, sw)
			armsReturn := true
			for _, c := range sw.Body.List {
				if cc := c.(*ast.CaseClause); !firstStmtRejects(cc.Body) && !hasReturn(cc.Body) {
					armsReturn = false
				}
			}
			nested := len(blk) > 0 && !(len(rb.stmts) > 0 && &blk[0] == &rb.stmts[0])
			f.returnsInsideIf = armsReturn || (nested && hasReturn(after(blk, sw)))
		} else {
			site = cmpIf
			f.switchOnFirstOption = isFirstOptionURL(files, rb.node, cmpOther, 0)
			blk := blockWith(rb.stmts, cmpIf)
			rest := after(blk, cmpIf)
			var evmArm, otherArm []ast.Stmt
			if cmpOp == token.NEQ {
				otherArm, evmArm = cmpIf.Body.List, rest
				if cmpIf.Else != nil {
					if eb, ok := cmpIf.Else.(*ast.BlockStmt); ok {
						evmArm = eb.List
					}
				}
			} else {
				evmArm, otherArm = cmpIf.Body.List, rest
				if cmpIf.Else != nil {
					if eb, ok := cmpIf.Else.(*ast.BlockStmt); ok {
						otherArm = eb.List
					}
				}
			}
			h := handlerIn(evmArm)
			if h == "" {
				h = "?"
			}
			f.arms = [][2]string{{"/eth.evm.v1.ExtensionOptionsEthereumTx", h}}
			f.deflt = armOf(otherArm)
			nested := len(blk) > 0 && !(len(rb.stmts) > 0 && &blk[0] == &rb.stmts[0])
			f.returnsInsideIf = nested && (hasReturn(evmArm) || hasReturn(rest)) && (firstStmtRejects(otherArm) || hasReturn(otherArm))
		}
		// without an extension option: the constructor used by the top-level statements of the routing function
		// other than the one that holds the comparison
		var others []ast.Stmt
		for _, top := range rb.stmts {
			if !(top.Pos() <= site.Pos() && site.End() <= top.End()) {
				others = append(others, top)
			}
		}
		if h := handlerIn(others); h != "" {
			f.noExt, f.noExtHeight0 = h, h
			if h == "?multi" {
				// `if ctx.BlockHeight() == 0 { A } else { B }` (or the mirrored test): gentxs are routed apart
				for _, top := range others {
					ast.Inspect(top, func(n ast.Node) bool {
						ifs, ok := n.(*ast.IfStmt)
						if !ok || ifs.Else == nil {
							return true
						}
						eb, ok := ifs.Else.(*ast.BlockStmt)
						if !ok {
							return true
						}
						cond := Nospace(ifs.Cond)
						a, b := handlerIn(ifs.Body.List), handlerIn(eb.List)
						if a == "" || b == "" || a == "?multi" || b == "?multi" || !strings.Contains(cond, ".BlockHeight()") {
							return true
						}
						switch {
						case strings.HasSuffix(cond, ".BlockHeight()==0") || strings.HasSuffix(cond, ".BlockHeight()<=0") || strings.HasSuffix(cond, ".BlockHeight()<1"):
							f.noExtHeight0, f.noExt = a, b
						case strings.HasSuffix(cond, ".BlockHeight()!=0") || strings.HasSuffix(cond, ".BlockHeight()>0") || strings.HasSuffix(cond, ".BlockHeight()>=1"):
							f.noExtHeight0, f.noExt = b, a
						}
						return true
					})
				}
			}
		}
		break
	}
	return f
}

// ---------------------------------------------------------------- guards

type guardFacts struct {
	found     bool
	tests     []string // message types tested (type switch cases / type assertions), sorted
	intoExec  bool     // calls GetMessages() on a MsgExec
	recursive bool     // … and re-applies the same checking function to the result (any depth)
	rejects   bool     // some tested branch returns a non-nil error
}

// helperClosure: package-level functions (no receiver) reachable from fd by direct calls.
func helperClosure(files []File, fd *ast.FuncDecl) []*ast.FuncDecl {
	seen := map[string]bool{}
	out := []*ast.FuncDecl{fd}
	for i := 0; i < len(out); i++ {
		ast.Inspect(out[i].Body, func(n ast.Node) bool {
			if c, ok := n.(*ast.CallExpr); ok {
				if id, ok := c.Fun.(*ast.Ident); ok && !seen[id.Name] {
					if h := findFunc(files, id.Name, ""); h != nil {
						seen[id.Name] = true
						out = append(out, h)
					}
				}
			}
			return true
		})
	}
	return out
}

func typeName(e ast.Expr) string { return strings.TrimPrefix(Nospace(e), "*") }

func guardOf(files []File, recv string) guardFacts {
	g := guardFacts{}
	fd := findFunc(files, "AnteHandle", recv)
	if fd == nil {
		return g
	}
	g.found = true
	tests := map[string]bool{}
	fns := helperClosure(files, fd)
	names := map[string]bool{}
	for _, f := range fns {
		if f.Recv == nil {
			names[f.Name.Name] = true
		}
	}
	for _, f := range fns {
		// variables bound to GetMessages() results inside f
		msgVars := map[string]bool{}
		ast.Inspect(f.Body, func(n ast.Node) bool {
			switch x := n.(type) {
			case *ast.TypeSwitchStmt:
				for _, c := range x.Body.List {
					cc := c.(*ast.CaseClause)
					for _, e := range cc.List {
						tests[typeName(e)] = true
					}
					if cc.List != nil && returnsError(&ast.BlockStmt{List: cc.Body}) {
						g.rejects = true
					}
				}
			case *ast.TypeAssertExpr:
				if x.Type != nil {
					tests[typeName(x.Type)] = true
				}
			case *ast.IfStmt:
				if returnsError(x.Body) {
					g.rejects = true
				}
			case *ast.AssignStmt:
				for i, r := range x.Rhs {
					if c, ok := r.(*ast.CallExpr); ok && lastIdent(c.Fun) == "GetMessages" {
						g.intoExec = true
						if i < len(x.Lhs) {
							if id, ok := x.Lhs[i].(*ast.Ident); ok {
								msgVars[id.Name] = true
							}
						}
						if len(x.Rhs) == 1 && len(x.Lhs) >= 1 {
							if id, ok := x.Lhs[0].(*ast.Ident); ok {
								msgVars[id.Name] = true
							}
						}
					}
				}
			}
			return true
		})
		// recursion: a call of one of the checking functions (or of AnteHandle itself is not possible
		// on a message list) with a GetMessages() result as argument
		ast.Inspect(f.Body, func(n ast.Node) bool {
			c, ok := n.(*ast.CallExpr)
			if !ok {
				return true
			}
			id, ok := c.Fun.(*ast.Ident)
			if !ok || !names[id.Name] {
				return true
			}
			for _, a := range c.Args {
				if aid, ok := a.(*ast.Ident); ok && msgVars[aid.Name] {
					// the callee must (transitively) reach the function holding the type tests: it is in the
					// closure by construction; recursion means the callee can reach f again
					for _, h := range helperClosure(files, findFunc(files, id.Name, "")) {
						if h == f {
							g.recursive = true
						}
					}
				}
				if ac, ok := a.(*ast.CallExpr); ok && lastIdent(ac.Fun) == "GetMessages" {
					for _, h := range helperClosure(files, findFunc(files, id.Name, "")) {
						if h == f {
							g.recursive = true
						}
					}
				}
			}
			return true
		})
	}
	for t := range tests {
		g.tests = append(g.tests, t)
	}
	sort.Strings(g.tests)
	return g
}

func printGuard(name string, g guardFacts) {
	fmt.Printf("Definition %s : guard := {| g_found := %s; g_tests := %s; g_into_exec := %s; g_recursive := %s; g_rejects := %s |}.\n",
		name, CoqBool(g.found), coqStrList(g.tests), CoqBool(g.intoExec), CoqBool(g.recursive), CoqBool(g.rejects))
}

// ---------------------------------------------------------------- commission comparison

type cmpFacts struct {
	operand string // expression compared, local aliases resolved
	method  string // GT | GTE | LT | LTE | …
	bound   string // argument expression
	rejects bool   // the guarded block returns a non-nil error
	nilSafe bool   // (edit only) the condition also tests the pointer against nil first
}

// singleDefLocals: locals of fn that are defined exactly once (`x := e`, one name per side) and never assigned
// again, incremented or used as a range variable — such a name IS the expression it was bound to, provided the
// expression is pure (the caller only accepts known pure right-hand sides such as MAX_COMMISSION()).
func singleDefLocals(fn *ast.FuncDecl) map[string]string {
	defs := map[string]string{}
	count := map[string]int{}
	ast.Inspect(fn.Body, func(n ast.Node) bool {
		switch x := n.(type) {
		case *ast.AssignStmt:
			for i, l := range x.Lhs {
				id, ok := l.(*ast.Ident)
				if !ok {
					continue
				}
				count[id.Name]++
				if x.Tok == token.DEFINE && len(x.Lhs) == len(x.Rhs) {
					defs[id.Name] = Nospace(x.Rhs[i])
				} else {
					count[id.Name]++ // plain assignment or multi-value define: not a constant binding
				}
			}
		case *ast.IncDecStmt:
			if id, ok := x.X.(*ast.Ident); ok {
				count[id.Name] += 2
			}
		case *ast.RangeStmt:
			for _, e := range []ast.Expr{x.Key, x.Value} {
				if id, ok := e.(*ast.Ident); ok {
					count[id.Name] += 2
				}
			}
		}
		return true
	})
	out := map[string]string{}
	for n, e := range defs {
		if count[n] == 1 {
			out[n] = e
		}
	}
	return out
}

// cmpEnv: what is needed to read an expression of a type-switch clause semantically.
type cmpEnv struct {
	switchVar string            // `switch v := msg.(type)`: v is the message
	fnLocals  map[string]string // single-definition locals of the enclosing function
	files     []File            // the package: one-expression predicates (`func over(r sdk.Dec) bool { return r.GT(MAX()) }`) are unfolded
}

// predicateHelper: call is `f(args…)` of a same-package function whose body is the single statement `return <expr>`;
// returns that expression and the parameter name → argument expression map.
func predicateHelper(files []File, call *ast.CallExpr) (ast.Expr, map[string]ast.Expr) {
	id, ok := call.Fun.(*ast.Ident)
	if !ok || files == nil {
		return nil, nil
	}
	fd := findFunc(files, id.Name, "")
	if fd == nil || fd.Body == nil || len(fd.Body.List) != 1 || fd.Type.Params == nil {
		return nil, nil
	}
	r, ok := fd.Body.List[0].(*ast.ReturnStmt)
	if !ok || len(r.Results) != 1 {
		return nil, nil
	}
	params := map[string]ast.Expr{}
	i := 0
	for _, f := range fd.Type.Params.List {
		for _, n := range f.Names {
			if i < len(call.Args) {
				params[n.Name] = call.Args[i]
			}
			i++
		}
	}
	if i != len(call.Args) {
		return nil, nil
	}
	return r.Results[0], params
}

// aliasesOf: `x := e` definitions made directly in the clause or in the Init of one of its if statements.
func aliasesOf(clause []ast.Stmt) map[string]string {
	alias := map[string]string{}
	add := func(st ast.Stmt) {
		// `x := e` and a later straight-line `x = e2` (the last binding before the comparison wins)
		if as, ok := st.(*ast.AssignStmt); ok && (as.Tok == token.DEFINE || as.Tok == token.ASSIGN) && len(as.Lhs) == len(as.Rhs) {
			for i, l := range as.Lhs {
				if id, ok := l.(*ast.Ident); ok {
					alias[id.Name] = Nospace(as.Rhs[i])
				}
			}
		}
	}
	for _, s := range clause {
		add(s)
		if ifs, ok := s.(*ast.IfStmt); ok && ifs.Init != nil {
			add(ifs.Init)
		}
	}
	return alias
}

// resolve rewrites an expression to a normal form: dereference stripped, clause aliases and constant locals
// unfolded (a few steps), the type-switch variable called `msg`.
func resolve(env cmpEnv, alias map[string]string, e ast.Expr) string {
	s := strings.TrimPrefix(Nospace(e), "*")
	for i := 0; i < 4; i++ {
		if v, ok := alias[s]; ok {
			s = strings.TrimPrefix(v, "*")
			continue
		}
		if v, ok := env.fnLocals[s]; ok {
			s = v
			continue
		}
		break
	}
	if env.switchVar != "" && env.switchVar != "_" {
		if s == env.switchVar {
			s = "msg"
		} else if strings.HasPrefix(s, env.switchVar+".") {
			s = "msg." + strings.TrimPrefix(s, env.switchVar+".")
		}
	}
	return s
}

// cmpIn reads the first `if … X.CMP(bound) … { return err }` of a clause.  Nil-safety of a pointer operand is
// either `X != nil && X.CMP(bound)` in the same condition or an earlier `if X == nil { continue }`.
func cmpIn(env cmpEnv, clause []ast.Stmt) cmpFacts {
	c := cmpFacts{operand: "?", method: "?", bound: "?"}
	alias := aliasesOf(clause)
	nilGuarded := map[string]bool{} // operands (normal form) behind an earlier `if X == nil { continue }`
	for _, s := range clause {
		ifs, ok := s.(*ast.IfStmt)
		if !ok {
			continue
		}
		if be, ok := ifs.Cond.(*ast.BinaryExpr); ok && be.Op == token.EQL && Nospace(be.Y) == "nil" && ifs.Else == nil && len(ifs.Body.List) == 1 {
			if br, ok := ifs.Body.List[0].(*ast.BranchStmt); ok && br.Label == nil && (br.Tok == token.CONTINUE || br.Tok == token.BREAK) {
				nilGuarded[resolve(env, alias, be.X)] = true
				continue
			}
		}
		found := false
		ast.Inspect(ifs.Cond, func(n ast.Node) bool {
			call, ok := n.(*ast.CallExpr)
			if !ok || found {
				return true
			}
			sel, ok := call.Fun.(*ast.SelectorExpr)
			if !ok || len(call.Args) != 1 {
				return true
			}
			switch sel.Sel.Name {
			case "GT", "GTE", "LT", "LTE", "Equal", "IsNil":
				found = true
				c.method = sel.Sel.Name
				c.operand = resolve(env, alias, sel.X)
				c.bound = resolve(env, alias, call.Args[0])
			}
			return true
		})
		if !found {
			// the comparison behind a one-expression predicate of the same package: `if over(rate)` with
			// `func over(r sdk.Dec) bool { return r.GT(MAX_COMMISSION()) }` — parameters stand for the arguments
			ast.Inspect(ifs.Cond, func(n ast.Node) bool {
				call, ok := n.(*ast.CallExpr)
				if !ok || found {
					return true
				}
				body, params := predicateHelper(env.files, call)
				if body == nil {
					return true
				}
				inner, ok := body.(*ast.CallExpr)
				if !ok || len(inner.Args) != 1 {
					return true
				}
				sel, ok := inner.Fun.(*ast.SelectorExpr)
				if !ok {
					return true
				}
				subst := func(e ast.Expr) string {
					if u, ok := e.(*ast.StarExpr); ok {
						e = u.X
					}
					if id, ok := e.(*ast.Ident); ok {
						if a, ok := params[id.Name]; ok {
							return resolve(env, alias, a)
						}
					}
					return strings.TrimPrefix(Nospace(e), "*")
				}
				switch sel.Sel.Name {
				case "GT", "GTE", "LT", "LTE", "Equal", "IsNil":
					found = true
					c.method = sel.Sel.Name
					c.operand = subst(sel.X)
					c.bound = subst(inner.Args[0])
				}
				return true
			})
		}
		if !found {
			continue
		}
		// `A != nil && …` in the same condition, where A is the operand
		inCond := false
		ast.Inspect(ifs.Cond, func(n ast.Node) bool {
			if be, ok := n.(*ast.BinaryExpr); ok && be.Op == token.LAND {
				if l, ok := be.X.(*ast.BinaryExpr); ok && l.Op == token.NEQ && Nospace(l.Y) == "nil" && resolve(env, alias, l.X) == c.operand {
					inCond = true
				}
			}
			return true
		})
		c.nilSafe = inCond || nilGuarded[c.operand]
		c.rejects = returnsError(ifs.Body)
		break
	}
	return c
}

func printCmp(name string, c cmpFacts) {
	m := map[string]string{"GT": "CmpGT", "GTE": "CmpGTE", "LT": "CmpLT", "LTE": "CmpLTE"}[c.method]
	if m == "" {
		m = "CmpOther"
	}
	fmt.Printf("Definition %s : comparison_site := {| c_operand := %s; c_method := %s; c_bound := %s; c_rejects := %s; c_nil_safe := %s |}.\n",
		name, CoqString(c.operand), m, CoqString(c.bound), CoqBool(c.rejects), CoqBool(c.nilSafe))
}

// pkgValue: the initialiser of a package-level `const`/`var` name (single-name specs only).
func pkgValue(files []File, name string) ast.Expr {
	for _, fl := range files {
		for _, d := range fl.F.Decls {
			gd, ok := d.(*ast.GenDecl)
			if !ok || (gd.Tok != token.CONST && gd.Tok != token.VAR) {
				continue
			}
			for _, sp := range gd.Specs {
				vs := sp.(*ast.ValueSpec)
				for i, n := range vs.Names {
					if n.Name == name && i < len(vs.Values) {
						return vs.Values[i]
					}
				}
			}
		}
	}
	return nil
}

func evalInt(files []File, e ast.Expr, depth int) (int64, bool) {
	switch x := e.(type) {
	case *ast.BasicLit:
		if x.Kind == token.INT {
			v, err := strconv.ParseInt(strings.ReplaceAll(x.Value, "_", ""), 0, 64)
			return v, err == nil
		}
	case *ast.Ident:
		if depth < 3 {
			if v := pkgValue(files, x.Name); v != nil {
				return evalInt(files, v, depth+1)
			}
		}
	case *ast.CallExpr: // int64(25)
		if len(x.Args) == 1 && strings.HasPrefix(lastIdent(x.Fun), "int") {
			return evalInt(files, x.Args[0], depth+1)
		}
	case *ast.ParenExpr:
		return evalInt(files, x.X, depth)
	}
	return 0, false
}

// evalDec evaluates a constant LegacyDec expression to its raw integer (×10^18); "" when not understood.
func evalDec(files []File, e ast.Expr, depth int) string {
	switch x := e.(type) {
	case *ast.CallExpr:
		fn := lastIdent(x.Fun)
		if strings.HasSuffix(fn, "NewDecFromStr") && len(x.Args) == 1 {
			if bl, ok := x.Args[0].(*ast.BasicLit); ok && bl.Kind == token.STRING {
				if s, err := strconv.Unquote(bl.Value); err == nil {
					return decRaw(s)
				}
			}
		}
		if strings.HasSuffix(fn, "NewDecWithPrec") && len(x.Args) == 2 {
			i, ok1 := evalInt(files, x.Args[0], 0)
			pr, ok2 := evalInt(files, x.Args[1], 0)
			if ok1 && ok2 && pr >= 0 && pr <= 18 && i >= 0 {
				return strings.TrimLeft(strconv.FormatInt(i, 10)+strings.Repeat("0", int(18-pr)), "0")
			}
		}
	case *ast.Ident:
		if depth < 3 {
			if v := pkgValue(files, x.Name); v != nil {
				return evalDec(files, v, depth+1)
			}
		}
	case *ast.ParenExpr:
		return evalDec(files, x.X, depth)
	}
	return ""
}

// decRaw turns a decimal literal such as "0.25" into the raw LegacyDec integer (×10^18); "" if malformed.
func decRaw(s string) string {
	neg := strings.HasPrefix(s, "-")
	s = strings.TrimPrefix(s, "-")
	parts := strings.SplitN(s, ".", 2)
	ip, fp := parts[0], ""
	if len(parts) == 2 {
		fp = parts[1]
	}
	if ip == "" || len(fp) > 18 {
		return ""
	}
	for _, ch := range ip + fp {
		if ch < '0' || ch > '9' {
			return ""
		}
	}
	d := strings.TrimLeft(ip+fp+strings.Repeat("0", 18-len(fp)), "0")
	if d == "" {
		d = "0"
	}
	if neg {
		d = "-" + d
	}
	return d
}

// goDirs lists every directory under repo/<root> that holds non-test .go files.
func goDirs(repo string, roots ...string) []string {
	var out []string
	for _, r := range roots {
		filepath.WalkDir(filepath.Join(repo, r), func(p string, d os.DirEntry, err error) error {
			if err != nil || !d.IsDir() {
				return nil
			}
			ents, _ := os.ReadDir(p)
			for _, e := range ents {
				if !e.IsDir() && strings.HasSuffix(e.Name(), ".go") && !strings.HasSuffix(e.Name(), "_test.go") {
					out = append(out, p)
					break
				}
			}
			return nil
		})
	}
	sort.Strings(out)
	return out
}

// ---------------------------------------------------------------- per-message dispatch clauses

type dispatchClause struct {
	types []string // nil: the default clause
	v     string   // the variable bound to the typed message
	body  []ast.Stmt
}

// dispatchClauses reads the statements of a loop body as a dispatch on the message type: the clauses of a type
// switch, or the bodies of top-level `if v, ok := x.(*T); ok { … } [else if …]` statements.  rest = the top-level
// statements that follow the switch (or that are not part of the if-chain).
func dispatchClauses(list []ast.Stmt) (clauses []dispatchClause, rest []ast.Stmt, hasDefault bool) {
	for i, st := range list {
		if ts, ok := st.(*ast.TypeSwitchStmt); ok {
			v := ""
			if as, ok := ts.Assign.(*ast.AssignStmt); ok && len(as.Lhs) == 1 {
				if id, ok := as.Lhs[0].(*ast.Ident); ok {
					v = id.Name
				}
			}
			for _, c := range ts.Body.List {
				cc := c.(*ast.CaseClause)
				cl := dispatchClause{v: v, body: cc.Body}
				if cc.List == nil {
					hasDefault = true
				} else {
					cl.types = []string{}
					for _, e := range cc.List {
						cl.types = append(cl.types, typeName(e))
					}
				}
				clauses = append(clauses, cl)
			}
			return clauses, list[i+1:], hasDefault
		}
	}
	for _, st := range list {
		ifs, ok := st.(*ast.IfStmt)
		matched := false
		for ok && ifs != nil {
			as, isAs := ifs.Init.(*ast.AssignStmt)
			if !isAs || len(as.Lhs) != 2 || len(as.Rhs) != 1 {
				break
			}
			ta, isTa := as.Rhs[0].(*ast.TypeAssertExpr)
			okId, isId := as.Lhs[1].(*ast.Ident)
			if !isTa || ta.Type == nil || !isId || Nospace(ifs.Cond) != okId.Name {
				break
			}
			matched = true
			clauses = append(clauses, dispatchClause{types: []string{typeName(ta.Type)}, v: Nospace(as.Lhs[0]), body: ifs.Body.List})
			switch e := ifs.Else.(type) {
			case *ast.IfStmt:
				ifs = e
			case *ast.BlockStmt:
				clauses = append(clauses, dispatchClause{body: e.List})
				hasDefault = true
				ifs = nil
			default:
				ifs = nil
			}
		}
		if !matched {
			rest = append(rest, st)
		}
	}
	return clauses, rest, hasDefault
}

// ---------------------------------------------------------------- flattening a handler into its guards

func findMethodAnyRecv(files []File, name string) *ast.FuncDecl {
	for _, fl := range files {
		for _, d := range fl.F.Decls {
			if fd, ok := d.(*ast.FuncDecl); ok && fd.Name.Name == name && fd.Body != nil {
				return fd
			}
		}
	}
	return nil
}

// canonNames: parameter (and receiver) names of fn → canonical names, by parameter type.
func canonNames(fn *ast.FuncDecl) map[string]string {
	m := map[string]string{}
	if fn.Type.Params != nil {
		for _, f := range fn.Type.Params.List {
			c := ""
			switch strings.TrimPrefix(Nospace(f.Type), "*") {
			case "sdk.Msg":
				c = "msg"
			case "sdk.Address", "sdk.AccAddress":
				c = "contractAddr"
			}
			if c != "" {
				for _, n := range f.Names {
					m[n.Name] = c
				}
			}
		}
	}
	if fn.Recv != nil && len(fn.Recv.List) == 1 && len(fn.Recv.List[0].Names) == 1 {
		m[fn.Recv.List[0].Names[0].Name] = "h"
	}
	return m
}

// canonText prints a node with the parameters of fn renamed to their canonical names.
func canonText(fn *ast.FuncDecl, n ast.Node) string {
	t := Nospace(n)
	for from, to := range canonNames(fn) {
		if from != to {
			t = regexp.MustCompile(`\b`+regexp.QuoteMeta(from)+`\b`).ReplaceAllString(t, to)
		}
	}
	return t
}

type flatItem struct {
	fn       *ast.FuncDecl
	stmt     ast.Stmt      // a statement that is not a guard call
	text     string        // canonical text of the statement (or of the call)
	call     *ast.CallExpr // a guard / tail call that could not be inlined
	callText string
}

// samePkgCallee: the function or method of the same package a call refers to (plain identifier, or a method
// called on the receiver of the calling function).
func samePkgCallee(files []File, caller *ast.FuncDecl, c *ast.CallExpr) *ast.FuncDecl {
	switch f := c.Fun.(type) {
	case *ast.Ident:
		return findFunc(files, f.Name, "")
	case *ast.SelectorExpr:
		if id, ok := f.X.(*ast.Ident); ok && caller.Recv != nil && len(caller.Recv.List) == 1 && len(caller.Recv.List[0].Names) == 1 &&
			caller.Recv.List[0].Names[0].Name == id.Name {
			for _, fl := range files {
				for _, d := range fl.F.Decls {
					if fd, ok := d.(*ast.FuncDecl); ok && fd.Recv != nil && fd.Name.Name == f.Sel.Name && fd.Body != nil {
						return fd
					}
				}
			}
		}
	}
	return nil
}

func flattenGuards(files []File, fn *ast.FuncDecl, depth int, out *[]flatItem) {
	list := fn.Body.List
	errChecked := func(i int, name string) bool {
		if i+1 >= len(list) {
			return false
		}
		ifs, ok := list[i+1].(*ast.IfStmt)
		return ok && ifs.Init == nil && Nospace(ifs.Cond) == name+"!=nil" && returnsError(ifs.Body)
	}
	skip := map[int]bool{}
	for i, st := range list {
		if skip[i] {
			continue
		}
		var call *ast.CallExpr
		switch x := st.(type) {
		case *ast.IfStmt:
			if as, ok := x.Init.(*ast.AssignStmt); ok && len(as.Rhs) == 1 && returnsError(x.Body) && strings.HasSuffix(Nospace(x.Cond), "!=nil") && x.Else == nil {
				if c, ok := as.Rhs[0].(*ast.CallExpr); ok {
					call = c
				}
			}
		case *ast.AssignStmt:
			if len(x.Rhs) == 1 && len(x.Lhs) >= 1 {
				if c, ok := x.Rhs[0].(*ast.CallExpr); ok {
					if id, ok := x.Lhs[len(x.Lhs)-1].(*ast.Ident); ok && len(x.Lhs) == 1 && errChecked(i, id.Name) {
						call = c
						skip[i+1] = true
					}
				}
			}
		case *ast.ReturnStmt:
			if len(x.Results) == 1 {
				if c, ok := x.Results[0].(*ast.CallExpr); ok {
					call = c
				}
			}
		}
		if call != nil {
			if callee := samePkgCallee(files, fn, call); callee != nil && depth < 3 {
				flattenGuards(files, callee, depth+1, out)
				continue
			}
			if _, isRet := st.(*ast.ReturnStmt); !isRet || strings.Contains(strings.ToLower(lastIdent(call.Fun)), "commission") {
				*out = append(*out, flatItem{fn: fn, call: call, callText: canonText(fn, call), text: canonText(fn, call)})
				continue
			}
		}
		*out = append(*out, flatItem{fn: fn, stmt: st, text: canonText(fn, st)})
	}
}

// isForeignSignerPred: e is (or is a local bound exactly once to) `func(a T) bool { return !a.Equals(contractAddr) }`,
// where contractAddr is the address parameter of fn.
func isForeignSignerPred(fn *ast.FuncDecl, e ast.Expr) bool {
	lit, _ := e.(*ast.FuncLit)
	if id, ok := e.(*ast.Ident); ok {
		n := 0
		ast.Inspect(fn.Body, func(x ast.Node) bool {
			if as, ok := x.(*ast.AssignStmt); ok && len(as.Lhs) == len(as.Rhs) {
				for i, l := range as.Lhs {
					if li, ok := l.(*ast.Ident); ok && li.Name == id.Name {
						n++
						lit, _ = as.Rhs[i].(*ast.FuncLit)
					}
				}
			}
			return true
		})
		if n != 1 {
			return false
		}
	}
	if lit == nil || lit.Type.Params == nil || len(lit.Type.Params.List) != 1 || len(lit.Type.Params.List[0].Names) != 1 || len(lit.Body.List) != 1 {
		return false
	}
	p := lit.Type.Params.List[0].Names[0].Name
	r, ok := lit.Body.List[0].(*ast.ReturnStmt)
	if !ok || len(r.Results) != 1 {
		return false
	}
	u, ok := r.Results[0].(*ast.UnaryExpr)
	if !ok || u.Op != token.NOT {
		return false
	}
	c, ok := u.X.(*ast.CallExpr)
	if !ok || len(c.Args) != 1 {
		return false
	}
	sel, ok := c.Fun.(*ast.SelectorExpr)
	if !ok || sel.Sel.Name != "Equals" {
		return false
	}
	x, a := Nospace(sel.X), canonText(fn, c.Args[0])
	return (x == p && a == "contractAddr") || (canonText(fn, sel.X) == "contractAddr" && Nospace(c.Args[0]) == p)
}

// ---------------------------------------------------------------- main entry

// Emit prints every definition (the caller has printed the header).
func Emit(repo string) {
	appFiles := ParseDir(repo + "/app")
	anteFiles := ParseDir(repo + "/app/ante")
	evmAnteFiles := ParseDir(repo + "/app/evmante")
	wasmFiles := ParseDir(repo + "/app/wasmext")

	fmt.Println("Require Import Nib.C17.AnteFacts.")
	fmt.Println("From Coq Require Import String List ZArith. Import ListNotations. Open Scope string_scope.")

	fmt.Printf("Definition nonevm_chain : list string := %s.\n", coqStrList(chainOf(findFunc(appFiles, "NewAnteHandlerNonEVM", ""))))
	fmt.Printf("Definition evm_chain : list string := %s.\n", coqStrList(chainOf(findFunc(evmAnteFiles, "NewAnteHandlerEVM", ""))))

	x := extSwitch(appFiles, findFunc(appFiles, "NewAnteHandler", ""))
	var arms []string
	for _, a := range x.arms {
		arms = append(arms, fmt.Sprintf("(%s, %s)", CoqString(a[0]), CoqString(a[1])))
	}
	fmt.Printf("Definition ext_switch : ext_facts := {| x_on_first_option := %s; x_arms := [%s]; x_default := %s; x_no_ext := %s; x_no_ext_height0 := %s; x_returns_inside := %s |}.\n",
		CoqBool(x.switchOnFirstOption), strings.Join(arms, "; "), x.deflt, CoqString(x.noExt), CoqString(x.noExtHeight0), CoqBool(x.returnsInsideIf))
	// the decorator list of the constructor that handles gentxs (= the non-EVM list unless routed apart)
	fmt.Printf("Definition genesis_chain : list string := %s.\n", coqStrList(chainOf(findFunc(appFiles, x.noExtHeight0, ""))))

	printGuard("guard_prevent_eth", guardOf(anteFiles, "AnteDecoratorPreventEtheruemTxMsgs"))
	printGuard("guard_authz", guardOf(anteFiles, "AnteDecoratorAuthzGuard"))
	gc := guardOf(anteFiles, "AnteDecoratorStakingCommission")
	printGuard("guard_commission", gc)

	// commission comparison sites and scan order: the per-message dispatch inside the loop over the message list,
	// written either as a type switch or as a chain of `if v, ok := msg.(*T); ok { … }` statements
	create, edit := cmpFacts{operand: "?", method: "?", bound: "?"}, cmpFacts{operand: "?", method: "?", bound: "?"}
	afterExec, afterCreate, afterEdit, afterOther, afterSwitch := false, false, false, false, false
	if fd := findFunc(anteFiles, "AnteHandle", "AnteDecoratorStakingCommission"); fd != nil {
		for _, f := range helperClosure(anteFiles, fd) {
			ast.Inspect(f.Body, func(n ast.Node) bool {
				var loopBody *ast.BlockStmt
				switch l := n.(type) {
				case *ast.RangeStmt:
					loopBody = l.Body
				case *ast.ForStmt:
					loopBody = l.Body
				default:
					return true
				}
				clauses, rest, hasDefault := dispatchClauses(loopBody.List)
				hasStaking := func(cs []dispatchClause) bool {
					for _, c := range cs {
						for _, t := range c.types {
							if t == "stakingtypes.MsgCreateValidator" {
								return true
							}
						}
					}
					return false
				}
				staking := hasStaking(clauses)
				// the dispatch may live in a per-message function of the same package called from the loop body:
				// `if err := check(msg); err != nil { return err }` (the loop goes on after a nil result, whatever
				// the clause returned it) or `return check(msg)` (the loop ends after the first message)
				bodyFn := f
				perMsg, perMsgGoesOn := false, false
				if !staking {
					for i, st := range loopBody.List {
						var call *ast.CallExpr
						guard := false
						switch x := st.(type) {
						case *ast.IfStmt:
							if as, ok := x.Init.(*ast.AssignStmt); ok && len(as.Rhs) == 1 && x.Else == nil && strings.HasSuffix(Nospace(x.Cond), "!=nil") && returnsError(x.Body) {
								call, _ = as.Rhs[0].(*ast.CallExpr)
								guard = true
							}
						case *ast.AssignStmt:
							if len(x.Rhs) == 1 && len(x.Lhs) == 1 && i+1 < len(loopBody.List) {
								if nx, ok := loopBody.List[i+1].(*ast.IfStmt); ok && nx.Init == nil && Nospace(nx.Cond) == Nospace(x.Lhs[0])+"!=nil" && returnsError(nx.Body) {
									call, _ = x.Rhs[0].(*ast.CallExpr)
									guard = true
								}
							}
						case *ast.ReturnStmt:
							if len(x.Results) == 1 {
								call, _ = x.Results[0].(*ast.CallExpr)
							}
						}
						if call == nil {
							continue
						}
						id, ok := call.Fun.(*ast.Ident)
						if !ok {
							continue
						}
						callee := findFunc(anteFiles, id.Name, "")
						if callee == nil || callee.Body == nil {
							continue
						}
						cs, _, hd := dispatchClauses(callee.Body.List)
						if !hasStaking(cs) {
							continue
						}
						clauses, hasDefault, staking = cs, hd, true
						bodyFn, perMsg, perMsgGoesOn = callee, true, guard
						rest = loopBody.List[i+1:]
						if guard {
							if _, isAssign := st.(*ast.AssignStmt); isAssign {
								rest = loopBody.List[i+2:] // the error test that belongs to the call
							}
						}
						break
					}
				}
				if !staking {
					return true
				}
				if !hasDefault {
					afterOther = !perMsg || perMsgGoesOn // other messages fall out of the dispatch
				}
				for _, c := range clauses {
					env := cmpEnv{fnLocals: singleDefLocals(bodyFn), switchVar: c.v, files: anteFiles}
					goesOn := !hasTopLevelReturn(c.body)
					if perMsg {
						goesOn = perMsgGoesOn // a return inside the clause ends the per-message function, not the loop
					}
					if c.types == nil {
						afterOther = goesOn
					}
					for _, t := range c.types {
						switch t {
						case "stakingtypes.MsgCreateValidator":
							create = cmpIn(env, c.body)
							afterCreate = goesOn
						case "stakingtypes.MsgEditValidator":
							edit = cmpIn(env, c.body)
							afterEdit = goesOn
						case "authz.MsgExec":
							afterExec = goesOn
						}
					}
				}
				afterSwitch = !hasTopLevelReturn(rest) && (!perMsg || perMsgGoesOn)
				return true
			})
		}
	}
	printCmp("commission_create_site", create)
	printCmp("commission_edit_site", edit)
	fmt.Printf("Definition commission_scan : scan_facts := {| s_after_exec := %s; s_after_create := %s; s_after_edit := %s; s_after_other := %s; s_after_switch := %s |}.\n",
		CoqBool(afterExec), CoqBool(afterCreate), CoqBool(afterEdit), CoqBool(afterOther), CoqBool(afterSwitch))

	// MAX_COMMISSION: `func MAX_COMMISSION() sdk.Dec { return math.LegacyMustNewDecFromStr("0.25") }`, also
	// NewDecWithPrec(i, prec) with integer literals / package-level constants, or a package-level var/const
	raw := ""
	if fd := findFunc(anteFiles, "MAX_COMMISSION", ""); fd != nil && len(fd.Body.List) == 1 {
		if r, ok := fd.Body.List[0].(*ast.ReturnStmt); ok && len(r.Results) == 1 {
			raw = evalDec(anteFiles, r.Results[0], 0)
		}
	}
	if raw == "" {
		fmt.Println("Definition max_commission_raw : option Z := None.")
	} else {
		fmt.Printf("Definition max_commission_raw : option Z := Some (%s)%%Z.\n", raw)
	}

	// wasm message handler: handleSdkMessage, read as the straight-line sequence of guards it applies before
	// routing — same-package helpers called in guard position (`if err := f(…); err != nil { return }`) or in
	// tail position (`return f(…)`) are inlined (3 levels), parameters are identified by TYPE (sdk.Msg → msg,
	// sdk.Address/sdk.AccAddress → contractAddr), so moving code to other files, splitting it into helpers and
	// renaming receivers/parameters do not change what is read
	var vb, signer, refusesEth, commission, routes bool
	// the handler is found by its ROLE — the same-package method that DispatchMsg (the wasmd Messenger interface
	// method) calls for every encoded message inside its loop — not by its name
	wh := findMethodAnyRecv(wasmFiles, "handleSdkMessage")
	if dm := findMethodAnyRecv(wasmFiles, "DispatchMsg"); dm != nil {
		ast.Inspect(dm.Body, func(n ast.Node) bool {
			rs, ok := n.(*ast.RangeStmt)
			if !ok {
				return true
			}
			done := false
			ast.Inspect(rs.Body, func(m ast.Node) bool {
				if c, ok := m.(*ast.CallExpr); ok && !done {
					if callee := samePkgCallee(wasmFiles, dm, c); callee != nil {
						wh, done = callee, true
					}
				}
				return !done
			})
			return !done
		})
	}
	if wh != nil {
		var items []flatItem
		flattenGuards(wasmFiles, wh, 0, &items)
		isEthType := func(e ast.Expr) bool { return strings.TrimPrefix(Nospace(e), "*") == "evm.MsgEthereumTx" }
		for _, it := range items {
			if strings.Contains(it.text, ".Handler(msg)") {
				routes = true
				break
			}
			locals := singleDefLocals(it.fn)
			isEthURL := func(e ast.Expr) bool {
				t := Nospace(e)
				if v, ok := locals[t]; ok {
					t = v
				}
				return t == "sdk.MsgTypeURL(new(evm.MsgEthereumTx))" || t == "sdk.MsgTypeURL(&evm.MsgEthereumTx{})"
			}
			if it.call != nil {
				if it.callText == "msg.ValidateBasic()" {
					vb = true
				}
				if strings.Contains(strings.ToLower(lastIdent(it.call.Fun)), "commission") && strings.Contains(it.callText, "msg") {
					commission = true // applied to every dispatched message, whatever its type
				}
				continue
			}
			switch x := it.stmt.(type) {
			case *ast.IfStmt:
				if be, ok := x.Cond.(*ast.BinaryExpr); ok && be.Op == token.EQL && (isEthURL(be.X) || isEthURL(be.Y)) && returnsError(x.Body) {
					refusesEth = true
				}
				if as, ok := x.Init.(*ast.AssignStmt); ok && len(as.Rhs) == 1 {
					if ta, ok := as.Rhs[0].(*ast.TypeAssertExpr); ok && ta.Type != nil && isEthType(ta.Type) && canonText(it.fn, ta.X) == "msg" && returnsError(x.Body) {
						refusesEth = true
					}
				}
				// `if slices.ContainsFunc(msg.GetSigners(), p) { return err }` with p = func(a) bool { return !a.Equals(contractAddr) }
				if c, ok := x.Cond.(*ast.CallExpr); ok && x.Init == nil && lastIdent(c.Fun) == "ContainsFunc" && len(c.Args) == 2 &&
					canonText(it.fn, c.Args[0]) == "msg.GetSigners()" && returnsError(x.Body) && isForeignSignerPred(it.fn, c.Args[1]) {
					signer = true
				}
			case *ast.TypeSwitchStmt:
				for _, c := range x.Body.List {
					cc := c.(*ast.CaseClause)
					for _, e := range cc.List {
						if isEthType(e) && len(cc.List) == 1 && firstStmtRejects(cc.Body) {
							refusesEth = true
						}
					}
				}
			case *ast.SwitchStmt:
				for _, c := range x.Body.List {
					cc := c.(*ast.CaseClause)
					for _, e := range cc.List {
						if isEthURL(e) && len(cc.List) == 1 && firstStmtRejects(cc.Body) {
							refusesEth = true
						}
					}
				}
			case *ast.RangeStmt:
				if strings.Contains(canonText(it.fn, x.X), "msg.GetSigners()") && strings.Contains(it.text, ".Equals(contractAddr)") && returnsError(x.Body) {
					signer = true
				}
			}
		}
	}
	fmt.Printf("Definition wasm_handler : wasm_facts := {| w_validate_basic := %s; w_signer_is_contract := %s; w_refuses_eth := %s; w_commission_check := %s; w_routes := %s |}.\n",
		CoqBool(vb), CoqBool(signer), CoqBool(refusesEth), CoqBool(commission), CoqBool(routes))

	// extension options registered with the interface registry (anything else fails tx decoding)
	var regExt []string
	for _, dir := range goDirs(repo, "x", "app", "eth") {
		for _, fl := range ParseDir(dir) {
			ast.Inspect(fl.F, func(n ast.Node) bool {
				c, ok := n.(*ast.CallExpr)
				if !ok || lastIdent(c.Fun) != "RegisterImplementations" || len(c.Args) < 2 {
					return true
				}
				if !strings.Contains(Nospace(c.Args[0]), "TxExtensionOptionI") {
					return true
				}
				for _, a := range c.Args[1:] {
					if u, ok := a.(*ast.UnaryExpr); ok {
						if cl, ok := u.X.(*ast.CompositeLit); ok {
							regExt = append(regExt, lastIdent(cl.Type))
							continue
						}
					}
					regExt = append(regExt, "?"+Nospace(a))
				}
				return true
			})
		}
	}
	sort.Strings(regExt)
	fmt.Printf("Definition registered_ext_options : list string := %s.\n", coqStrList(regExt))

	// ICA host allow-lists set by upgrade handlers (`AllowMessages: []string{sdk.MsgTypeURL(&pkg.Type{}), …}`)
	var icaLists []string
	for _, dir := range goDirs(repo, "app/upgrades") {
		for _, fl := range ParseDir(dir) {
			ast.Inspect(fl.F, func(n ast.Node) bool {
				kv, ok := n.(*ast.KeyValueExpr)
				if !ok {
					return true
				}
				id, ok := kv.Key.(*ast.Ident)
				if !ok || id.Name != "AllowMessages" {
					return true
				}
				cl, ok := kv.Value.(*ast.CompositeLit)
				if !ok {
					icaLists = append(icaLists, coqStrList([]string{"?" + Nospace(kv.Value)}))
					return true
				}
				var names []string
				for _, e := range cl.Elts {
					name := "?" + Nospace(e)
					if c, ok := e.(*ast.CallExpr); ok && lastIdent(c.Fun) == "MsgTypeURL" && len(c.Args) == 1 {
						if u, ok := c.Args[0].(*ast.UnaryExpr); ok {
							if l, ok := u.X.(*ast.CompositeLit); ok {
								name = Nospace(l.Type)
							}
						}
					} else if bl, ok := e.(*ast.BasicLit); ok {
						if v, err := strconv.Unquote(bl.Value); err == nil {
							name = v
						}
					}
					names = append(names, name)
				}
				icaLists = append(icaLists, coqStrList(names))
				return true
			})
		}
	}
	fmt.Printf("Definition ica_allow_lists : list (list string) := [%s].\n", strings.Join(icaLists, "; "))

	// MsgEthereumTx.GetSigners: recovered from the signature (GetSender) and never from the unsigned From field
	recovered := false
	if fd := findFunc(ParseDir(repo+"/x/evm"), "GetSigners", "MsgEthereumTx"); fd != nil {
		body := Nospace(fd.Body)
		recovered = strings.Contains(body, ".GetSender(") && !strings.Contains(body, "From")
	}
	fmt.Printf("Definition eth_signers_from_signature : bool := %s.\n", CoqBool(recovered))

	// keeper.VerifyFee (what the EVM ante handler deducts up front): is the amount WeiToNative(price × gasLimit),
	// i.e. the conversion to the bank denom applied to TxData.EffectiveFeeWei — possibly through same-package
	// helpers and single-definition locals — and never to the per-gas price?
	feeOfTotal := false
	{
		kfiles := ParseDir(repo + "/x/evm/keeper")
		if vf := findFunc(kfiles, "VerifyFee", ""); vf != nil {
			convTotal, convPrice := false, false
			for _, f := range helperClosure(kfiles, vf) {
				locals := singleDefLocals(f)
				unfold := func(e ast.Expr) string {
					t := Nospace(e)
					for i := 0; i < 3; i++ {
						if v, ok := locals[t]; ok {
							t = v
						}
					}
					return t
				}
				ast.Inspect(f.Body, func(n ast.Node) bool {
					c, ok := n.(*ast.CallExpr)
					if !ok || lastIdent(c.Fun) != "WeiToNative" || len(c.Args) != 1 {
						return true
					}
					a := unfold(c.Args[0])
					if strings.Contains(a, "EffectiveFeeWei(") {
						convTotal = true
					}
					if strings.Contains(a, "EffectiveGasPriceWeiPerGas(") || strings.Contains(a, "GetGasPrice(") || strings.Contains(a, "GetGasFeeCapWei(") {
						convPrice = true
					}
					return true
				})
			}
			feeOfTotal = convTotal && !convPrice
		}
	}
	fmt.Printf("Definition verify_fee_of_total : bool := %s.\n", CoqBool(feeOfTotal))

	// SigGasConsumer installed by app.go
	sgc := "?"
	for _, fl := range appFiles {
		ast.Inspect(fl.F, func(n ast.Node) bool {
			if kv, ok := n.(*ast.KeyValueExpr); ok {
				if id, ok := kv.Key.(*ast.Ident); ok && id.Name == "SigGasConsumer" {
					sgc = lastIdent(kv.Value)
				}
			}
			return true
		})
	}
	fmt.Printf("Definition sig_gas_consumer : string := %s.\n", CoqString(sgc))
}
