// Command gen/c09 prints coq/Gen/C09Facts.v from the /repo working tree (terms, never verdicts):
// every function of the non-test code under x/, app/ and eth/ that reads or writes the process-wide
// pointer Keeper.Bank.StateDB (a selector `<…>.Bank.StateDB`, or `<recv>.StateDB` inside a method
// of NibiruBankKeeper), with the number of reads / writes and whether EVERY access is guarded
// against contexts of queries / simulations / CheckTx, in one of the two syntactic forms
//
//	if !ctx.IsCheckTx() { … access … }
//	if ctx.IsCheckTx() [|| …] { return … }   followed by the access in the same block
//	(an access in the condition itself, after the `ctx.IsCheckTx() ||` disjunct, counts too)
package main

import (
	"fmt"
	"go/ast"
	"go/token"
	"os"
	"path/filepath"
	"sort"
	"strings"

	. "verifharness/genlib"
)

type site struct {
	dir, fn       string
	reads, writes int
	unguarded     int
}

func main() {
	repo := Repo()
	Header(repo)
	var sites []site
	for _, top := range []string{"x", "app", "eth"} {
		filepath.WalkDir(filepath.Join(repo, top), func(p string, d os.DirEntry, err error) error {
			if err != nil || !d.IsDir() {
				return nil
			}
			for _, fl := range ParseDir(p) {
				for _, decl := range fl.F.Decls {
					fd, ok := decl.(*ast.FuncDecl)
					if !ok || fd.Body == nil {
						continue
					}
					s := site{dir: strings.TrimPrefix(p, repo+"/"), fn: fd.Name.Name}
					scan(fd, &s)
					if s.reads+s.writes > 0 {
						sites = append(sites, s)
					}
				}
			}
			return nil
		})
	}
	sort.Slice(sites, func(i, j int) bool {
		if sites[i].dir != sites[j].dir {
			return sites[i].dir < sites[j].dir
		}
		return sites[i].fn < sites[j].fn
	})
	fmt.Println("From Coq Require Import String List. Import ListNotations. Open Scope string_scope.")
	fmt.Println("(* functions touching Keeper.Bank.StateDB: (directory, function, reads, writes, every access guarded by ctx.IsCheckTx) *)")
	fmt.Println("Definition ptr_sites : list (string * string * nat * nat * bool) := [")
	for i, s := range sites {
		sep := ";"
		if i == len(sites)-1 {
			sep = ""
		}
		fmt.Printf("  (%s, %s, %d, %d, %s)%s\n", CoqString(s.dir), CoqString(s.fn), s.reads, s.writes, CoqBool(s.unguarded == 0), sep)
	}
	fmt.Println("].")
	vars := sharedState(repo)
	aliasing(repo, vars)
	buffers(repo)
}

// the custom modules (x/evm, x/inflation, x/oracle, x/epochs, x/sudo, x/tokenfactory, x/devgas) whose keepers are singletons shared by block execution and requests
var moduleRoots = []string{"x/evm", "x/inflation", "x/oracle", "x/epochs", "x/sudo", "x/tokenfactory", "x/devgas"}

// directories that are not on the node's execution paths: compiled-contract artefacts, CLI, test helpers, simulation
func artefactDir(dir string) bool {
	if strings.HasPrefix(dir, "x/evm/embeds") {
		return true
	}
	for _, suf := range []string{"/evmtest", "/cli", "/client/cli", "/simulation", "/testutil", "/fixture", "/integration", "/mocks"} {
		if strings.HasSuffix(dir, suf) || strings.Contains(dir, suf+"/") {
			return true
		}
	}
	return false
}

// typeKind classifies a type expression syntactically:
//
//	basic   string / bool / numeric / arrays of those — a value, immutable unless the holder is assigned
//	func    function value
//	ptr map slice chan sync   reference-like: pointers, maps, slices, channels, anything from sync / sync/atomic
//	value   external named types known to be plain values (gethcommon.Address, gethcommon.Hash)
//	local   a named type declared in the inventoried packages (its own fields are inventoried)
//	named   any other named type (interfaces, generics, external structs): mutability unknown
func typeKind(e ast.Expr, local map[string]bool) string {
	t := Nospace(e)
	if strings.Contains(t, "sync.") || strings.Contains(t, "atomic.") {
		return "sync"
	}
	switch x := e.(type) {
	case *ast.StarExpr:
		return "ptr"
	case *ast.MapType:
		return "map"
	case *ast.ChanType:
		return "chan"
	case *ast.FuncType:
		return "func"
	case *ast.ArrayType:
		if x.Len == nil {
			return "slice"
		}
		if typeKind(x.Elt, local) == "basic" {
			return "basic"
		}
		return "named"
	case *ast.Ident:
		switch x.Name {
		case "string", "bool", "byte", "rune", "int", "int8", "int16", "int32", "int64", "uint", "uint8", "uint16", "uint32", "uint64", "float32", "float64", "uintptr":
			return "basic"
		}
		if local[x.Name] {
			return "local"
		}
		return "named"
	case *ast.SelectorExpr:
		if t == "gethcommon.Address" || t == "common.Address" || t == "gethcommon.Hash" || t == "common.Hash" {
			return "value"
		}
		return "named"
	}
	return "named"
}

// sharedState inventories the state that lives on process-wide singletons reachable from BOTH block execution and
// read-only requests.  Fields: of the root structs (evm Keeper, NibiruBankKeeper, every struct type of
// x/evm/precompile that has a Run method, i.e. the precompile objects built once by InitPrecompiles) and, transitively,
// of the struct types of those two packages their fields name.  Type aliases and per-call structs are not roots.
// Variables: every package-level `var` of the non-generated, non-test code under x/evm.  For each, the syntactic kind
// of its type / initialiser and whether it is assigned outside constructors (New*/Precompile*/Init*/init).
func sharedState(repo string) map[string]bool {
	type sdecl struct {
		dir string
		st  *ast.StructType
	}
	structs := map[string]sdecl{}
	hasRun := map[string]bool{}
	var allFiles []File
	dirs := []string{"x/evm/keeper", "x/evm/precompile", "x/inflation/keeper", "x/oracle/keeper", "x/epochs/keeper", "x/sudo/keeper",
		"x/tokenfactory/keeper", "x/devgas/v1/keeper"}
	for _, dir := range dirs {
		for _, fl := range ParseDir(filepath.Join(repo, dir)) {
			allFiles = append(allFiles, fl)
			for _, decl := range fl.F.Decls {
				switch d := decl.(type) {
				case *ast.GenDecl:
					if d.Tok != token.TYPE {
						continue
					}
					for _, sp := range d.Specs {
						ts := sp.(*ast.TypeSpec)
						if ts.Assign.IsValid() { // alias: no new type
							continue
						}
						if stt, ok := ts.Type.(*ast.StructType); ok {
							structs[dir+"|"+ts.Name.Name] = sdecl{dir, stt}
						}
					}
				case *ast.FuncDecl:
					if d.Recv != nil && d.Name.Name == "Run" && len(d.Recv.List) == 1 {
						t := d.Recv.List[0].Type
						if st, ok := t.(*ast.StarExpr); ok {
							t = st.X
						}
						if id, ok := t.(*ast.Ident); ok && dir == "x/evm/precompile" {
							hasRun[id.Name] = true
						}
					}
				}
			}
		}
	}
	localOf := func(dir string) map[string]bool {
		m := map[string]bool{}
		for k := range structs {
			if strings.HasPrefix(k, dir+"|") {
				m[strings.TrimPrefix(k, dir+"|")] = true
			}
		}
		return m
	}
	// closure from the roots (per package: every module has its own Keeper)
	reach := map[string]bool{}
	var visit func(key string)
	visit = func(key string) {
		if reach[key] {
			return
		}
		sd, ok := structs[key]
		if !ok {
			return
		}
		reach[key] = true
		loc := localOf(sd.dir)
		for _, f := range sd.st.Fields.List {
			ast.Inspect(f.Type, func(m ast.Node) bool {
				if _, ok := m.(*ast.SelectorExpr); ok {
					return false // pkg.T names a type of another package
				}
				if id, ok := m.(*ast.Ident); ok && loc[id.Name] {
					visit(sd.dir + "|" + id.Name)
				}
				return true
			})
		}
	}
	for _, dir := range dirs {
		visit(dir + "|Keeper")
	}
	visit("x/evm/keeper|NibiruBankKeeper")
	for n := range hasRun {
		visit("x/evm/precompile|" + n)
	}
	// field names assigned outside constructors, anywhere under x/evm
	ctor := func(name string) bool {
		return name == "init" || strings.HasPrefix(name, "New") || strings.HasPrefix(name, "Precompile") || strings.HasPrefix(name, "Init")
	}
	assignedField := map[string]bool{}
	assignedVar := map[string]bool{} // dir|name
	var evmFiles []struct {
		dir string
		fl  File
	}
	for _, root := range moduleRoots {
		filepath.WalkDir(filepath.Join(repo, root), func(p string, d os.DirEntry, err error) error {
			if err != nil || !d.IsDir() {
				return nil
			}
			for _, fl := range ParseDir(p) {
				if !strings.Contains(filepath.Base(fl.Path), ".pb.") {
					evmFiles = append(evmFiles, struct {
						dir string
						fl  File
					}{strings.TrimPrefix(p, repo+"/"), fl})
				}
			}
			return nil
		})
	}
	lhsRoot := func(e ast.Expr) ast.Expr { // x[i] = …, *x = … count as assignments to x
		for {
			switch x := e.(type) {
			case *ast.IndexExpr:
				e = x.X
			case *ast.StarExpr:
				e = x.X
			case *ast.ParenExpr:
				e = x.X
			default:
				return e
			}
		}
	}
	for _, ef := range evmFiles {
		for _, decl := range ef.fl.F.Decls {
			fd, ok := decl.(*ast.FuncDecl)
			if !ok || fd.Body == nil || ctor(fd.Name.Name) {
				continue
			}
			mark := func(l ast.Expr) {
				switch x := lhsRoot(l).(type) {
				case *ast.SelectorExpr:
					assignedField[x.Sel.Name] = true
					if id, ok := x.X.(*ast.Ident); ok {
						assignedVar["pkg:"+id.Name+"|"+x.Sel.Name] = true
					}
				case *ast.Ident:
					assignedVar[ef.dir+"|"+x.Name] = true
				}
			}
			// locals shadowing package names are rare in this code base; := definitions are not assignments to package vars
			ast.Inspect(fd.Body, func(n ast.Node) bool {
				switch a := n.(type) {
				case *ast.AssignStmt:
					if a.Tok == token.DEFINE {
						return true
					}
					for _, l := range a.Lhs {
						mark(l)
					}
				case *ast.IncDecStmt:
					mark(a.X)
				}
				return true
			})
		}
	}

	type field struct{ dir, st, name, typ, kind string }
	var fields []field
	for key := range reach {
		sd := structs[key]
		n := strings.TrimPrefix(key, sd.dir+"|")
		local := localOf(sd.dir)
		for _, f := range sd.st.Fields.List {
			typ := Nospace(f.Type)
			k := typeKind(f.Type, local)
			if len(f.Names) == 0 {
				fields = append(fields, field{sd.dir, n, "<embedded>", typ, k})
			}
			for _, nm := range f.Names {
				fields = append(fields, field{sd.dir, n, nm.Name, typ, k})
			}
		}
	}
	sort.Slice(fields, func(i, j int) bool {
		a, b := fields[i], fields[j]
		return a.dir+"|"+a.st+"|"+a.name+"|"+a.typ < b.dir+"|"+b.st+"|"+b.name+"|"+b.typ
	})
	fmt.Println("(* fields of the singleton structs shared by DeliverTx and requests: (directory, struct, field, type, kind of the type, assigned outside constructors) *)")
	fmt.Println("Definition shared_fields : list (string * string * string * string * string * bool) := [")
	for i, f := range fields {
		sep := ";"
		if i == len(fields)-1 {
			sep = ""
		}
		fmt.Printf("  (%s, %s, %s, %s, %s, %s)%s\n", CoqString(f.dir), CoqString(f.st), CoqString(f.name), CoqString(f.typ), CoqString(f.kind),
			CoqBool(f.name != "<embedded>" && assignedField[f.name]), sep)
	}
	fmt.Println("].")

	// package-level variables
	type pvar struct {
		dir, name, typ, kind string
		assigned             bool
	}
	var vars []pvar
	initKind := func(v ast.Expr) string {
		if t := Nospace(v); strings.Contains(t, "sync.") || strings.Contains(t, "atomic.") {
			return "sync"
		}
		switch x := v.(type) {
		case *ast.BasicLit:
			return "basic"
		case *ast.FuncLit:
			return "func"
		case *ast.CallExpr:
			f := Nospace(x.Fun)
			switch {
			case f == "errors.New" || f == "fmt.Errorf" || strings.HasSuffix(f, ".Register") || strings.HasSuffix(f, ".Wrap") || strings.HasSuffix(f, ".Wrapf") ||
				strings.Contains(strings.ToLower(f), "registererror"):
				return "err"
			case strings.HasSuffix(f, "HexToAddress") || strings.HasSuffix(f, "BytesToAddress") || strings.HasSuffix(f, "HexToHash"):
				return "value"
			}
		}
		return "ref"
	}
	for _, ef := range evmFiles {
		if artefactDir(ef.dir) {
			continue // compiled-contract artefacts, CLI, simulation and test helpers are not on the node's execution paths
		}
		pkg := ef.fl.F.Name.Name
		for _, decl := range ef.fl.F.Decls {
			gd, ok := decl.(*ast.GenDecl)
			if !ok || gd.Tok != token.VAR {
				continue
			}
			for _, sp := range gd.Specs {
				vs := sp.(*ast.ValueSpec)
				for i, n := range vs.Names {
					if n.Name == "_" {
						continue
					}
					typ, kind := "", "ref"
					if vs.Type != nil {
						typ = Nospace(vs.Type)
						switch typeKind(vs.Type, nil) {
						case "sync":
							kind = "sync"
						case "basic":
							kind = "basic"
						case "func":
							kind = "func"
						case "value":
							kind = "value"
						}
						if typ == "error" {
							kind = "err"
						}
					}
					if i < len(vs.Values) && vs.Type == nil {
						kind = initKind(vs.Values[i])
						// sentinel-error naming convention: ErrXxx / errXxx bound to the result of a call
						if _, isCall := vs.Values[i].(*ast.CallExpr); isCall && kind == "ref" && (strings.HasPrefix(n.Name, "Err") || strings.HasPrefix(n.Name, "err")) {
							kind = "err"
						}
					}
					vars = append(vars, pvar{ef.dir, n.Name, typ, kind, assignedVar[ef.dir+"|"+n.Name] || assignedVar["pkg:"+pkg+"|"+n.Name]})
				}
			}
		}
	}
	sort.Slice(vars, func(i, j int) bool { return vars[i].dir+"|"+vars[i].name < vars[j].dir+"|"+vars[j].name })
	fmt.Println("(* package-level variables of x/evm (non-test, non-generated): (directory, name, declared type or \"\", kind, assigned outside init/constructors) *)")
	fmt.Println("Definition package_vars : list (string * string * string * string * bool) := [")
	for i, v := range vars {
		sep := ";"
		if i == len(vars)-1 {
			sep = ""
		}
		fmt.Printf("  (%s, %s, %s, %s, %s)%s\n", CoqString(v.dir), CoqString(v.name), CoqString(v.typ), CoqString(v.kind), CoqBool(v.assigned), sep)
	}
	fmt.Println("].")
	names := map[string]bool{}
	for _, v := range vars {
		if !artefactDir(v.dir) && (v.kind == "ref" || v.kind == "sync" || v.assigned) {
			names[v.dir+"|"+v.name] = true
		}
	}
	return names
}

// methods of math/big.Int (and uint256.Int) that overwrite their receiver
var bigMutators = map[string]bool{"Add": true, "Sub": true, "Mul": true, "Div": true, "Quo": true, "Rem": true, "Mod": true, "Neg": true,
	"Exp": true, "Lsh": true, "Rsh": true, "And": true, "Or": true, "Xor": true, "Not": true, "Abs": true, "Sqrt": true,
	"Set": true, "SetUint64": true, "SetInt64": true, "SetBytes": true, "SetString": true, "SetBit": true}

// freshValue: the expression certainly denotes a newly allocated number (new(big.Int), big.NewInt(..), an sdk.Dec / sdk.Int
// constructor, or a method chain on one)
func freshValue(e ast.Expr) bool {
	switch x := e.(type) {
	case *ast.CallExpr:
		f := Nospace(x.Fun)
		if f == "new" || f == "big.NewInt" || f == "uint256.NewInt" {
			return true
		}
		if i := strings.LastIndex(f, "."); i > 0 {
			n := f[i+1:]
			if (strings.HasPrefix(n, "NewDec") || strings.HasPrefix(n, "LegacyNewDec") || strings.HasPrefix(n, "NewInt") || strings.HasPrefix(n, "ZeroDec") ||
				strings.HasPrefix(n, "OneDec") || strings.HasPrefix(n, "LegacyZeroDec") || strings.HasPrefix(n, "LegacyOneDec") || strings.HasPrefix(n, "ZeroInt")) &&
				(strings.HasPrefix(f, "sdk.") || strings.HasPrefix(f, "math.") || strings.HasPrefix(f, "sdkmath.")) {
				return true
			}
		}
		if sel, ok := x.Fun.(*ast.SelectorExpr); ok {
			return freshValue(sel.X)
		}
	case *ast.ParenExpr:
		return freshValue(x.X)
	}
	return false
}

// aliasing prints two inventories over the non-test, non-generated code of x/evm, app/evmante and eth:
//
//	inplace_sites  calls `x.Op(x, …)` / `x.SetXxx(v)` of a receiver-overwriting big-number method whose receiver x is
//	               NOT certainly fresh (a parameter, a field, a package variable, a value returned by another function):
//	               the arithmetic that can change a value somebody else still holds
//	var_aliases    `return <reference-like package-level variable of x/evm>`: functions that hand out the shared object itself
func aliasing(repo string, pkgVars map[string]bool) {
	type site struct{ dir, fn, expr string }
	var inplace, aliases []site
	for _, top := range append(append([]string{}, moduleRoots...), "app/evmante", "eth") {
		filepath.WalkDir(filepath.Join(repo, top), func(p string, d os.DirEntry, err error) error {
			if err != nil || !d.IsDir() {
				return nil
			}
			dir := strings.TrimPrefix(p, repo+"/")
			if artefactDir(dir) {
				return nil
			}
			for _, fl := range ParseDir(p) {
				if strings.Contains(filepath.Base(fl.Path), ".pb.") {
					continue
				}
				for _, decl := range fl.F.Decls {
					fd, ok := decl.(*ast.FuncDecl)
					if !ok || fd.Body == nil {
						continue
					}
					freshLocal, notFresh := map[string]bool{}, map[string]bool{}
					ast.Inspect(fd.Body, func(n ast.Node) bool {
						switch a := n.(type) {
						case *ast.AssignStmt:
							for i, l := range a.Lhs {
								if id, ok := l.(*ast.Ident); ok {
									if len(a.Rhs) == len(a.Lhs) && freshValue(a.Rhs[i]) {
										freshLocal[id.Name] = true
									} else {
										notFresh[id.Name] = true
									}
								}
							}
						case *ast.ValueSpec:
							for i, id := range a.Names {
								if i < len(a.Values) && freshValue(a.Values[i]) {
									freshLocal[id.Name] = true
								} else {
									notFresh[id.Name] = true
								}
							}
						}
						return true
					})
					ast.Inspect(fd.Body, func(n ast.Node) bool {
						switch x := n.(type) {
						case *ast.CallExpr:
							sel, ok := x.Fun.(*ast.SelectorExpr)
							if !ok {
								return true
							}
							// sdk.Dec / sdk.Int in-place API: every method named …Mut overwrites its receiver
							if strings.HasSuffix(sel.Sel.Name, "Mut") && len(sel.Sel.Name) > 3 {
								if freshValue(sel.X) {
									return true
								}
								if id, ok := sel.X.(*ast.Ident); ok && freshLocal[id.Name] && !notFresh[id.Name] {
									return true
								}
								inplace = append(inplace, site{dir, fd.Name.Name, Nospace(x.Fun)})
								return true
							}
							if !bigMutators[sel.Sel.Name] || len(x.Args) == 0 {
								return true
							}
							if unary := map[string]bool{"Neg": true, "Not": true, "Abs": true, "Sqrt": true}; len(x.Args) < 2 && !unary[sel.Sel.Name] && !strings.HasPrefix(sel.Sel.Name, "Set") {
								return true // sdk.Dec / sdk.Int style x.Mul(y): allocates
							}
							recv := Nospace(sel.X)
							isSet := strings.HasPrefix(sel.Sel.Name, "Set")
							same := false
							for _, a := range x.Args {
								if Nospace(a) == recv {
									same = true
								}
							}
							if !same && !(isSet && (len(x.Args) == 1 || sel.Sel.Name == "SetString" || sel.Sel.Name == "SetBit")) {
								return true
							}
							if freshValue(sel.X) {
								return true
							}
							if id, ok := sel.X.(*ast.Ident); ok && freshLocal[id.Name] && !notFresh[id.Name] {
								return true
							}
							inplace = append(inplace, site{dir, fd.Name.Name, Nospace(x)})
						case *ast.ReturnStmt:
							for _, r := range x.Results {
								name := ""
								switch e := r.(type) {
								case *ast.Ident:
									if pkgVars[dir+"|"+e.Name] {
										name = e.Name
									}
								case *ast.SelectorExpr:
									if id, ok := e.X.(*ast.Ident); ok {
										for key := range pkgVars {
											vd := key[:strings.Index(key, "|")]
											if (filepath.Base(vd) == id.Name || filepath.Base(vd) == "types" && strings.HasSuffix(id.Name, "types")) && key == vd+"|"+e.Sel.Name {
												name = id.Name + "." + e.Sel.Name
											}
										}
									}
								}
								if name != "" {
									aliases = append(aliases, site{dir, fd.Name.Name, name})
								}
							}
						}
						return true
					})
				}
			}
			return nil
		})
	}
	pr := func(title, name string, l []site) {
		sort.Slice(l, func(i, j int) bool { return l[i].dir+"|"+l[i].fn+"|"+l[i].expr < l[j].dir+"|"+l[j].fn+"|"+l[j].expr })
		fmt.Println("(* " + title + ": (directory, function, expression) *)")
		fmt.Printf("Definition %s : list (string * string * string) := [\n", name)
		for i, s := range l {
			sep := ";"
			if i == len(l)-1 {
				sep = ""
			}
			fmt.Printf("  (%s, %s, %s)%s\n", CoqString(s.dir), CoqString(s.fn), CoqString(s.expr), sep)
		}
		fmt.Println("].")
	}
	pr("receiver-overwriting big-number arithmetic on a receiver that is not certainly fresh", "inplace_sites", inplace)
	pr("functions returning a package-level variable of x/evm itself (not a copy)", "var_aliases", aliases)
}

// helperDir: CLI, test-helper and simulation directories (not on the node's execution paths).  Unlike artefactDir it keeps
// x/evm/embeds: the embedded byte codes are package-level slices that block execution and requests both read.
func helperDir(dir string) bool {
	for _, suf := range []string{"/evmtest", "/cli", "/client/cli", "/simulation", "/testutil", "/fixture", "/integration", "/mocks", "/precompile/test"} {
		if strings.HasSuffix(dir, suf) || strings.Contains(dir, suf+"/") {
			return true
		}
	}
	return false
}

const nibiruMod = "github.com/NibiruChain/nibiru/v2/"

// buffers prints two inventories over the non-test, non-generated code of the custom modules, app and eth (x/evm/embeds
// included):
//
//	buffer_sites   every write through a slice / index expression whose BASE is shared: `append(base, …)` (writes into the
//	               backing array whenever cap(base) > len(base); kind append-resliced when the base is itself a slice
//	               expression `x[:n]`), `base[i] = v` / `base[i]++`, `copy(base…, …)`, where the
//	               root of base is a package-level variable of the same package, a package-level variable of another nibiru
//	               package (`embeds.X.Bytecode`), or a field reached from the receiver of a method of a keeper / precompile
//	               singleton.  (kind, base, slot = last field or variable name of the base)
//	slice_origins  how the slots that are appended to are materialised: every assignment / composite-literal entry /
//	               initialiser of a field or variable with that name, with the callee of the right-hand side written with
//	               its import path (`github.com/ethereum/go-ethereum/common.FromHex`)
func buffers(repo string) {
	type pfile struct {
		dir string
		fl  File
	}
	var files []pfile
	pkgVars := map[string]map[string]bool{} // dir -> names
	for _, top := range append(append([]string{}, moduleRoots...), "app", "eth") {
		filepath.WalkDir(filepath.Join(repo, top), func(p string, d os.DirEntry, err error) error {
			if err != nil || !d.IsDir() {
				return nil
			}
			dir := strings.TrimPrefix(p, repo+"/")
			if helperDir(dir) {
				return nil
			}
			for _, fl := range ParseDir(p) {
				if strings.Contains(filepath.Base(fl.Path), ".pb.") {
					continue
				}
				files = append(files, pfile{dir, fl})
				for _, decl := range fl.F.Decls {
					if gd, ok := decl.(*ast.GenDecl); ok && gd.Tok == token.VAR {
						for _, sp := range gd.Specs {
							for _, n := range sp.(*ast.ValueSpec).Names {
								if pkgVars[dir] == nil {
									pkgVars[dir] = map[string]bool{}
								}
								pkgVars[dir][n.Name] = true
							}
						}
					}
				}
			}
			return nil
		})
	}
	// receiver types whose values are process-wide singletons
	singleton := func(dir, typ string) bool {
		if typ == "Keeper" || typ == "NibiruBankKeeper" || typ == "EvmState" || typ == "FunTokenState" || typ == "StoreAPI" {
			return strings.HasSuffix(dir, "/keeper")
		}
		return dir == "x/evm/precompile" && strings.HasPrefix(typ, "precompile")
	}
	imports := func(f *ast.File) map[string]string { // local name -> import path
		m := map[string]string{}
		for _, im := range f.Imports {
			path := strings.Trim(im.Path.Value, `"`)
			name := path[strings.LastIndex(path, "/")+1:]
			if im.Name != nil {
				name = im.Name.Name
			}
			m[name] = path
		}
		return m
	}
	type site struct{ dir, fn, kind, base, slot string }
	var sites []site
	type origin struct{ dir, fn, lhs, callee, slot string }
	var origins []origin
	for _, pf := range files {
		imp := imports(pf.fl.F)
		for _, decl := range pf.fl.F.Decls {
			fd, ok := decl.(*ast.FuncDecl)
			if !ok || fd.Body == nil || fd.Name.Name == "init" {
				continue
			}
			locals := map[string]bool{}
			recvName, recvType := "", ""
			addFields := func(fl *ast.FieldList) {
				if fl == nil {
					return
				}
				for _, f := range fl.List {
					for _, n := range f.Names {
						locals[n.Name] = true
					}
				}
			}
			addFields(fd.Type.Params)
			addFields(fd.Type.Results)
			if fd.Recv != nil && len(fd.Recv.List) == 1 {
				addFields(fd.Recv)
				if len(fd.Recv.List[0].Names) == 1 {
					recvName = fd.Recv.List[0].Names[0].Name
				}
				t := fd.Recv.List[0].Type
				if st, ok := t.(*ast.StarExpr); ok {
					t = st.X
				}
				if id, ok := t.(*ast.Ident); ok {
					recvType = id.Name
				}
			}
			ast.Inspect(fd.Body, func(n ast.Node) bool {
				switch a := n.(type) {
				case *ast.AssignStmt:
					if a.Tok == token.DEFINE {
						for _, l := range a.Lhs {
							if id, ok := l.(*ast.Ident); ok {
								locals[id.Name] = true
							}
						}
					}
				case *ast.ValueSpec:
					for _, id := range a.Names {
						locals[id.Name] = true
					}
				case *ast.RangeStmt:
					if a.Tok == token.DEFINE {
						for _, e := range []ast.Expr{a.Key, a.Value} {
							if id, ok := e.(*ast.Ident); ok {
								locals[id.Name] = true
							}
						}
					}
				}
				return true
			})
			// shared: (is the base rooted in shared state, slot name)
			shared := func(e ast.Expr) (bool, string) {
				var sels []string
				for {
					switch x := e.(type) {
					case *ast.SelectorExpr:
						sels = append([]string{x.Sel.Name}, sels...)
						e = x.X
						continue
					case *ast.IndexExpr:
						e = x.X
						continue
					case *ast.SliceExpr:
						e = x.X
						continue
					case *ast.ParenExpr:
						e = x.X
						continue
					case *ast.StarExpr:
						e = x.X
						continue
					}
					break
				}
				id, ok := e.(*ast.Ident)
				if !ok {
					return false, "" // rooted in a call / literal: a value of this call
				}
				slot := id.Name
				if len(sels) > 0 {
					slot = sels[len(sels)-1]
				}
				if locals[id.Name] {
					if id.Name == recvName && len(sels) > 0 && singleton(pf.dir, recvType) {
						return true, slot
					}
					return false, ""
				}
				if pkgVars[pf.dir][id.Name] {
					return true, slot
				}
				if path, ok := imp[id.Name]; ok && strings.HasPrefix(path, nibiruMod) && len(sels) > 0 {
					if pkgVars[strings.TrimPrefix(path, nibiruMod)][sels[0]] {
						return true, slot
					}
				}
				return false, ""
			}
			add := func(kind string, base ast.Expr) {
				if ok, slot := shared(base); ok {
					sites = append(sites, site{pf.dir, fd.Name.Name, kind, Nospace(base), slot})
				}
			}
			ast.Inspect(fd.Body, func(n ast.Node) bool {
				switch x := n.(type) {
				case *ast.CallExpr:
					if id, ok := x.Fun.(*ast.Ident); ok && len(x.Args) > 0 && !locals[id.Name] {
						switch id.Name {
						case "append":
							kind, base := "append", x.Args[0]
							if b, ok := base.(*ast.ParenExpr); ok {
								base = b.X
							}
							if _, ok := base.(*ast.SliceExpr); ok {
								kind = "append-resliced" // base[:n]: capacity beyond the new length by construction
							}
							add(kind, base)
						case "copy":
							add("copy-dst", x.Args[0])
						}
					}
				case *ast.AssignStmt:
					if x.Tok != token.DEFINE {
						for _, l := range x.Lhs {
							if ie, ok := l.(*ast.IndexExpr); ok {
								add("index-write", ie.X)
							}
						}
					}
				case *ast.IncDecStmt:
					if ie, ok := x.X.(*ast.IndexExpr); ok {
						add("index-write", ie.X)
					}
				}
				return true
			})
		}
	}
	slots := map[string]bool{}
	for _, s := range sites {
		if strings.HasPrefix(s.kind, "append") {
			slots[s.slot] = true
		}
	}
	calleeOf := func(imp map[string]string, dir string, e ast.Expr) string {
		ce, ok := e.(*ast.CallExpr)
		if !ok {
			return "expr:" + Nospace(e)
		}
		switch f := ce.Fun.(type) {
		case *ast.Ident:
			if f.Name == "make" || f.Name == "append" || f.Name == "new" {
				return fmt.Sprintf("%s/%d", f.Name, len(ce.Args)) // make/2 allocates cap = len, make/3 names a capacity
			}
			return dir + "." + f.Name
		case *ast.SelectorExpr:
			if id, ok := f.X.(*ast.Ident); ok {
				if path, ok := imp[id.Name]; ok {
					return path + "." + f.Sel.Name
				}
			}
		}
		return "expr:" + Nospace(ce.Fun)
	}
	for _, pf := range files {
		imp := imports(pf.fl.F)
		for _, decl := range pf.fl.F.Decls {
			switch d := decl.(type) {
			case *ast.GenDecl:
				if d.Tok != token.VAR {
					continue
				}
				ast.Inspect(d, func(n ast.Node) bool {
					switch x := n.(type) {
					case *ast.ValueSpec:
						for i, nm := range x.Names {
							if slots[nm.Name] && i < len(x.Values) {
								origins = append(origins, origin{pf.dir, "<var>", nm.Name, calleeOf(imp, pf.dir, x.Values[i]), nm.Name})
							}
						}
					case *ast.KeyValueExpr:
						if id, ok := x.Key.(*ast.Ident); ok && slots[id.Name] {
							origins = append(origins, origin{pf.dir, "<var>", id.Name, calleeOf(imp, pf.dir, x.Value), id.Name})
						}
					}
					return true
				})
			case *ast.FuncDecl:
				if d.Body == nil {
					continue
				}
				ast.Inspect(d.Body, func(n ast.Node) bool {
					switch x := n.(type) {
					case *ast.AssignStmt:
						for i, l := range x.Lhs {
							name := ""
							switch le := l.(type) {
							case *ast.SelectorExpr:
								name = le.Sel.Name
							case *ast.Ident:
								if pkgVars[pf.dir][le.Name] && x.Tok != token.DEFINE {
									name = le.Name
								}
							}
							if name == "" || !slots[name] {
								continue
							}
							rhs := x.Rhs[0]
							if len(x.Rhs) == len(x.Lhs) {
								rhs = x.Rhs[i]
							}
							origins = append(origins, origin{pf.dir, d.Name.Name, Nospace(l), calleeOf(imp, pf.dir, rhs), name})
						}
					case *ast.KeyValueExpr:
						if id, ok := x.Key.(*ast.Ident); ok && slots[id.Name] {
							origins = append(origins, origin{pf.dir, d.Name.Name, id.Name, calleeOf(imp, pf.dir, x.Value), id.Name})
						}
					}
					return true
				})
			}
		}
	}
	sort.Slice(sites, func(i, j int) bool {
		a, b := sites[i], sites[j]
		return a.dir+"|"+a.fn+"|"+a.kind+"|"+a.base < b.dir+"|"+b.fn+"|"+b.kind+"|"+b.base
	})
	sort.Slice(origins, func(i, j int) bool {
		a, b := origins[i], origins[j]
		return a.dir+"|"+a.fn+"|"+a.lhs+"|"+a.callee < b.dir+"|"+b.fn+"|"+b.lhs+"|"+b.callee
	})
	fmt.Println("(* writes through a slice / index expression whose base is a package-level variable or a field of a singleton: (directory, function, kind, base, slot) *)")
	fmt.Println("Definition buffer_sites : list (string * string * string * string * string) := [")
	for i, s := range sites {
		sep := ";"
		if i == len(sites)-1 {
			sep = ""
		}
		fmt.Printf("  (%s, %s, %s, %s, %s)%s\n", CoqString(s.dir), CoqString(s.fn), CoqString(s.kind), CoqString(s.base), CoqString(s.slot), sep)
	}
	fmt.Println("].")
	fmt.Println("(* how the appended-to slots are materialised: (directory, function, left-hand side, callee of the right-hand side, slot) *)")
	fmt.Println("Definition slice_origins : list (string * string * string * string * string) := [")
	for i, o := range origins {
		sep := ";"
		if i == len(origins)-1 {
			sep = ""
		}
		fmt.Printf("  (%s, %s, %s, %s, %s)%s\n", CoqString(o.dir), CoqString(o.fn), CoqString(o.lhs), CoqString(o.callee), CoqString(o.slot), sep)
	}
	fmt.Println("].")
}

// receiver name when fd is a method of NibiruBankKeeper
func bankRecv(fd *ast.FuncDecl) string {
	if fd.Recv == nil || len(fd.Recv.List) != 1 || len(fd.Recv.List[0].Names) != 1 {
		return ""
	}
	t := fd.Recv.List[0].Type
	if st, ok := t.(*ast.StarExpr); ok {
		t = st.X
	}
	if id, ok := t.(*ast.Ident); ok && id.Name == "NibiruBankKeeper" {
		return fd.Recv.List[0].Names[0].Name
	}
	return ""
}

func isPtr(e ast.Expr, recv string) bool {
	sel, ok := e.(*ast.SelectorExpr)
	if !ok || sel.Sel.Name != "StateDB" {
		return false
	}
	switch x := sel.X.(type) {
	case *ast.SelectorExpr:
		return x.Sel.Name == "Bank"
	case *ast.Ident:
		return recv != "" && x.Name == recv
	}
	return false
}

func scan(fd *ast.FuncDecl, s *site) {
	recv := bankRecv(fd)
	count := func(n ast.Node, safe bool) {
		if n == nil {
			return
		}
		writes := map[ast.Expr]bool{}
		ast.Inspect(n, func(m ast.Node) bool {
			if as, ok := m.(*ast.AssignStmt); ok {
				for _, l := range as.Lhs {
					if isPtr(l, recv) {
						writes[l] = true
					}
				}
			}
			return true
		})
		ast.Inspect(n, func(m ast.Node) bool {
			e, ok := m.(ast.Expr)
			if !ok || !isPtr(e, recv) {
				return true
			}
			if writes[e] {
				s.writes++
			} else {
				s.reads++
			}
			if !safe {
				s.unguarded++
			}
			return false
		})
	}
	var block func(list []ast.Stmt, safe bool)
	var stmt func(st ast.Stmt, safe bool)
	endsWithReturn := func(b *ast.BlockStmt) bool {
		if b == nil || len(b.List) == 0 {
			return false
		}
		_, ok := b.List[len(b.List)-1].(*ast.ReturnStmt)
		return ok
	}
	stmt = func(st ast.Stmt, safe bool) {
		switch x := st.(type) {
		case *ast.BlockStmt:
			block(x.List, safe)
		case *ast.IfStmt:
			cond := Nospace(x.Cond)
			if x.Init != nil {
				stmt(x.Init, safe)
			}
			count(x.Cond, safe || strings.HasPrefix(cond, "ctx.IsCheckTx()||"))
			neg := cond == "!ctx.IsCheckTx()" || strings.HasPrefix(cond, "!ctx.IsCheckTx()&&")
			block(x.Body.List, safe || neg)
			if x.Else != nil {
				stmt(x.Else, safe)
			}
		case *ast.DeferStmt:
			if fl, ok := x.Call.Fun.(*ast.FuncLit); ok {
				block(fl.Body.List, safe)
			} else {
				count(x, safe)
			}
		case *ast.ForStmt:
			count(x.Init, safe)
			count(x.Cond, safe)
			count(x.Post, safe)
			block(x.Body.List, safe)
		case *ast.RangeStmt:
			count(x.X, safe)
			block(x.Body.List, safe)
		default:
			// statements with nested function literals (closures passed as arguments) are scanned as a whole
			count(st, safe)
		}
	}
	block = func(list []ast.Stmt, safe bool) {
		for _, st := range list {
			stmt(st, safe)
			if ifs, ok := st.(*ast.IfStmt); ok && ifs.Else == nil && endsWithReturn(ifs.Body) {
				c := Nospace(ifs.Cond)
				if c == "ctx.IsCheckTx()" || strings.HasPrefix(c, "ctx.IsCheckTx()||") {
					safe = true
				}
			}
		}
	}
	block(fd.Body.List, false)
	_ = token.NoPos
}
