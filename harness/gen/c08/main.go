// Command gen/c08 prints coq/Gen/C08Facts.v from the /repo working tree (terms, never verdicts):
// the ABI methods of the three Nibiru precompiles (from the embedded ABI JSON), the isMutation
// table, the shape of every Run dispatcher and method handler (which guard, placed first?), the
// panic guards of requiredGas / bankMsgSend, and the read-only flag geth's call wrappers pass.
package main

import (
	"encoding/json"
	"fmt"
	"go/ast"
	"go/parser"
	"go/token"
	"os"
	"path/filepath"
	"regexp"
	"sort"
	"strconv"
	"strings"

	gethabi "github.com/ethereum/go-ethereum/accounts/abi"

	"github.com/NibiruChain/nibiru/v2/x/common/asset"

	. "verifharness/genlib"
)

type pcDesc struct {
	coqName  string // f_funtoken …
	typeName string // precompileFunToken
	prefix   string // constructor prefix FT_
}

var pcs = []pcDesc{
	{"funtoken", "precompileFunToken", "FT_"},
	{"wasm", "precompileWasm", "W_"},
	{"oracle", "precompileOracle", "O_"},
}

var knownMids = map[string]bool{
	"FT_sendToBank": true, "FT_balance": true, "FT_bankBalance": true, "FT_whoAmI": true, "FT_sendToEvm": true,
	"FT_bankMsgSend": true, "FT_getErc20Address": true,
	"W_execute": true, "W_query": true, "W_instantiate": true, "W_executeMulti": true, "W_queryRaw": true,
	"O_queryExchangeRate": true, "O_chainLinkLatestRoundData": true,
}

func main() {
	repo := Repo()
	Header(repo)
	files := ParseDir(repo + "/x/evm/precompile")
	consts := stringConsts(files)
	collectPackageMaps(files)
	methodsOf := methodDecls(files) // "recv.name" -> decl ; plain funcs under ".name"

	fmt.Println("Require Import Nib.C08.Model.")
	fmt.Println("From Coq Require Import String List ZArith. Import ListNotations. Local Open Scope string_scope. Local Open Scope Z_scope.")

	isMut := mutationTable(files, consts)
	handlerOf := map[string]*ast.FuncDecl{} // "typeName.abiMethod" -> handler declaration (found through the Run switch)

	for _, pc := range pcs {
		abiPath := abiJSONPath(repo, methodsOf[pc.typeName+".ABI"])
		abi := loadABI(abiPath)
		run := methodsOf[pc.typeName+".Run"]
		if run == nil {
			Fatal(fmt.Errorf("no Run method on %s", pc.typeName))
		}
		ri := analyseRun(run, consts)
		for abiName, h := range ri.handlers {
			handlerOf[pc.typeName+"."+abiName] = lookupHandler(methodsOf, pc.typeName, h)
		}
		names := make([]string, 0, len(abi.Methods))
		for n := range abi.Methods {
			names = append(names, n)
		}
		sort.Strings(names)
		fmt.Printf("(* %s: ABI %s *)\n", pc.typeName, strings.TrimPrefix(abiPath, repo+"/"))
		fmt.Printf("Definition %s_facts : pc_facts := {|\n  pf_methods := [\n", pc.coqName)
		for i, n := range names {
			m := abi.Methods[n]
			sel := uint64(m.ID[0])<<24 | uint64(m.ID[1])<<16 | uint64(m.ID[2])<<8 | uint64(m.ID[3])
			mid := pc.prefix + m.RawName
			if !knownMids[mid] {
				mid = "M_other"
			}
			view := m.StateMutability == "view" || m.StateMutability == "pure"
			hname, inSwitch := ri.handlers[m.RawName]
			guard, first := "GNone", true
			if inSwitch {
				guard, first = analyseHandler(lookupHandler(methodsOf, pc.typeName, hname), hname, ri.readonlyParam)
			}
			sep := ";"
			if i == len(names)-1 {
				sep = ""
			}
			fmt.Printf("    {| mf_id := %s; mf_name := %s; mf_sel := %d; mf_abi_view := %s; mf_mutation := %s; mf_in_switch := %s; mf_guard := %s; mf_guard_first := %s |}%s (* %s -> %s *)\n",
				mid, CoqString(m.RawName), sel, CoqBool(view), CoqBool(isMut[m.RawName]), CoqBool(inSwitch), guard, CoqBool(first), sep, m.Sig, hname.fn)
		}
		fmt.Printf("  ];\n  pf_start_first := %s;\n  pf_oog_deferred := %s;\n  pf_usegas := %s |}.\n",
			CoqBool(ri.startFirst), CoqBool(ri.oogDeferred), CoqBool(ri.useGas))
		// switch cases that name no ABI method (dead arms) are listed for the record
		var dead []string
		for n := range ri.handlers {
			if _, ok := abi.Methods[n]; !ok {
				dead = append(dead, n)
			}
		}
		sort.Strings(dead)
		fmt.Printf("Definition %s_switch_arms_without_abi_method : list string := [%s].\n", pc.coqName, joinCoqStrings(dead))
	}

	plain := methodsOf
	intC := map[string]int64{}
	for _, fl := range files {
		for _, d := range fl.F.Decls {
			if gd, ok := d.(*ast.GenDecl); ok {
				collectIntConsts(gd, intC)
			}
		}
	}
	lenGuard := requiredGasLenGuard(plain[".requiredGas"], intC)
	evOf := func(abiMethod string) []event {
		return linearEvents(handlerOf["precompileFunToken."+abiMethod], methodsOf, 0, map[*ast.FuncDecl]bool{})
	}
	denomGuard, amountGuard := bankMsgSendGuards(evOf("bankMsgSend"))
	localMeter := localMeterFrom(plain[".OnRunStart"], 3, methodsOf, 0)
	oogOnly := oogOnlySemantic(plain[".HandleOutOfGasPanic"])
	g := gethFacts(repo)
	addrConvTotal := addrConversionTotal(repo)

	evmDenomGuard := lookupGuarded(evOf("sendToEvm"), "denom-guard")
	erc20NulGuard := lookupGuarded(evOf("getErc20Address"), "nul-guard")
	supplyGuard := guardedBy(evOf("sendToBank"), "mint", "supply-guard", false)
	fmt.Printf("Definition current_guards : panic_guards := {|\n  g_len := %s;\n  g_denom := %s;\n  g_amount := %s;\n  g_evm_denom := %s;\n  g_erc20_nul := %s;\n  g_supply := %s |}.\n",
		CoqBool(lenGuard), CoqBool(denomGuard), CoqBool(amountGuard), CoqBool(evmDenomGuard), CoqBool(erc20NulGuard), CoqBool(supplyGuard))
	fmt.Printf("Definition current_facts : facts := {|\n  f_funtoken := funtoken_facts;\n  f_wasm := wasm_facts;\n  f_oracle := oracle_facts;\n  f_guards := current_guards;\n")
	snapEach, maxCalls := snapshotFacts(repo)
	fmt.Printf("  f_local_meter := %s;\n  f_oog_only := %s;\n  f_addr_conv_total := %s;\n  f_direct_ro := %s;\n  f_call_inherits_static := %s;\n  f_snap_each_call := %s;\n  f_max_calls := %d;\n  f_revert_decode_total := %s;\n  f_pair_validation_total := %s |}.\n",
		CoqBool(localMeter), CoqBool(oogOnly), CoqBool(addrConvTotal), CoqBool(g.directRO), CoqBool(g.callInherits), CoqBool(snapEach), maxCalls, CoqBool(revertDecodeTotal(repo)), CoqBool(pairValidationTotal()))
	fmt.Printf("(* geth fork %s: read-only argument of RunPrecompiledContract per wrapper; RequiredGas charged before Run *)\n", g.dir)
	fmt.Printf("Definition geth_readonly_args : list (string * string) := [%s].\n", g.pairs)
	fmt.Printf("Definition geth_charges_required_gas_first : bool := %s.\n", CoqBool(g.chargesFirst))
	// isMutation entries naming no ABI method
	var extra []string
	for n := range isMut {
		extra = append(extra, n)
	}
	sort.Strings(extra)
	fmt.Printf("Definition is_mutation_table : list (string * bool) := [%s].\n", func() string {
		var xs []string
		for _, n := range extra {
			xs = append(xs, fmt.Sprintf("(%s, %s)", CoqString(n), CoqBool(isMut[n])))
		}
		return strings.Join(xs, "; ")
	}())
}

func lookupHandler(methodsOf map[string]*ast.FuncDecl, typeName string, h handlerRef) *ast.FuncDecl {
	if h.plain {
		return methodsOf["."+h.fn]
	}
	return methodsOf[typeName+"."+h.fn]
}

func joinCoqStrings(xs []string) string {
	var out []string
	for _, x := range xs {
		out = append(out, CoqString(x))
	}
	return strings.Join(out, "; ")
}

// ---------------------------------------------------------------- package-level helpers

func stringConsts(files []File) map[string]string {
	m := map[string]string{}
	for _, fl := range files {
		for _, d := range fl.F.Decls {
			gd, ok := d.(*ast.GenDecl)
			if !ok || gd.Tok != token.CONST {
				continue
			}
			for _, sp := range gd.Specs {
				vs := sp.(*ast.ValueSpec)
				for i, n := range vs.Names {
					if i < len(vs.Values) {
						if bl, ok := vs.Values[i].(*ast.BasicLit); ok && bl.Kind == token.STRING {
							if s, err := strconv.Unquote(bl.Value); err == nil {
								m[n.Name] = s
							}
						}
					}
				}
			}
		}
	}
	return m
}

func recvName(fd *ast.FuncDecl) string {
	if fd.Recv == nil || len(fd.Recv.List) == 0 {
		return ""
	}
	t := fd.Recv.List[0].Type
	if st, ok := t.(*ast.StarExpr); ok {
		t = st.X
	}
	if id, ok := t.(*ast.Ident); ok {
		return id.Name
	}
	return "?"
}

func methodDecls(files []File) map[string]*ast.FuncDecl {
	m := map[string]*ast.FuncDecl{}
	for _, fl := range files {
		for _, d := range fl.F.Decls {
			if fd, ok := d.(*ast.FuncDecl); ok {
				m[recvName(fd)+"."+fd.Name.Name] = fd
			}
		}
	}
	return m
}

func mutationTable(files []File, consts map[string]string) map[string]bool {
	out := map[string]bool{}
	found := false
	for _, fl := range files {
		for _, d := range fl.F.Decls {
			gd, ok := d.(*ast.GenDecl)
			if !ok || gd.Tok != token.VAR {
				continue
			}
			for _, sp := range gd.Specs {
				vs := sp.(*ast.ValueSpec)
				for i, n := range vs.Names {
					if n.Name != "isMutation" || i >= len(vs.Values) {
						continue
					}
					cl, ok := vs.Values[i].(*ast.CompositeLit)
					if !ok {
						Fatal(fmt.Errorf("isMutation is not a composite literal"))
					}
					found = true
					for _, e := range cl.Elts {
						kv := e.(*ast.KeyValueExpr)
						key := ""
						switch k := kv.Key.(type) {
						case *ast.Ident:
							key = consts[k.Name]
						case *ast.BasicLit:
							key, _ = strconv.Unquote(k.Value)
						}
						if key == "" {
							Fatal(fmt.Errorf("isMutation key %s not resolved", Src(kv.Key)))
						}
						out[key] = Src(kv.Value) == "true"
					}
				}
			}
		}
	}
	if !found {
		// the same table written as a predicate:  func f(name PrecompileMethod) bool { switch name { case A, B: return true … default: return false } }
		// (interpreted for every method-name constant; a method no arm names takes the default arm, Go's missing map key)
		for _, fl := range files {
			for _, d := range fl.F.Decls {
				fd, ok := d.(*ast.FuncDecl)
				if !ok || fd.Recv != nil || fd.Body == nil || found {
					continue
				}
				ps := fd.Type.Params.List
				if len(ps) != 1 || len(ps[0].Names) != 1 || Nospace(ps[0].Type) != "PrecompileMethod" ||
					fd.Type.Results == nil || len(fd.Type.Results.List) != 1 || Nospace(fd.Type.Results.List[0].Type) != "bool" {
					continue
				}
				if len(fd.Body.List) == 0 {
					continue
				}
				sw, ok := fd.Body.List[0].(*ast.SwitchStmt)
				if !ok || sw.Tag == nil || Src(sw.Tag) != ps[0].Names[0].Name {
					continue
				}
				armValue := func(body []ast.Stmt) (bool, bool) {
					if len(body) != 1 {
						return false, false
					}
					r, ok := body[0].(*ast.ReturnStmt)
					if !ok || len(r.Results) != 1 {
						return false, false
					}
					switch Src(r.Results[0]) {
					case "true":
						return true, true
					case "false":
						return false, true
					}
					return false, false
				}
				table := map[string]bool{}
				understood := true
				for _, c := range sw.Body.List {
					cc := c.(*ast.CaseClause)
					v, ok := armValue(cc.Body)
					if !ok {
						understood = false
						break
					}
					if cc.List == nil {
						if v { // a default of true cannot be written as a table with Go's missing-key semantics
							understood = false
						}
						continue
					}
					for _, e := range cc.List {
						key := ""
						switch k := e.(type) {
						case *ast.Ident:
							key = consts[k.Name]
						case *ast.BasicLit:
							key, _ = strconv.Unquote(k.Value)
						}
						if key == "" {
							understood = false
							continue
						}
						if _, dup := table[key]; !dup { // the first matching arm wins
							table[key] = v
						}
					}
				}
				// whatever follows the switch must be `return false`
				for _, s := range fd.Body.List[1:] {
					if r, ok := s.(*ast.ReturnStmt); !ok || len(r.Results) != 1 || Src(r.Results[0]) != "false" {
						understood = false
					}
				}
				if understood && len(table) > 0 {
					out, found = table, true
				}
			}
		}
	}
	if !found {
		Fatal(fmt.Errorf("isMutation table not found"))
	}
	return out
}

// abiJSONPath follows  func (p T) ABI() { return embeds.SmartContract_X.ABI }  ->  embeds.go:
// SmartContract_X = CompiledEvmContract{EmbedJSON: v}  ->  //go:embed path  above  v []byte.
func abiJSONPath(repo string, abiFn *ast.FuncDecl) string {
	if abiFn == nil || abiFn.Body == nil {
		Fatal(fmt.Errorf("precompile has no ABI() method"))
	}
	re := regexp.MustCompile(`embeds\.(SmartContract_[A-Za-z0-9_]+)\.ABI`)
	mm := re.FindStringSubmatch(Nospace(abiFn.Body))
	if mm == nil {
		Fatal(fmt.Errorf("ABI() does not return embeds.SmartContract_X.ABI: %s", Src(abiFn.Body)))
	}
	contractVar := mm[1]
	embedsDir := repo + "/x/evm/embeds"
	f, err := parser.ParseFile(Fset, embedsDir+"/embeds.go", nil, parser.ParseComments)
	if err != nil {
		Fatal(err)
	}
	jsonVar := ""
	embedOf := map[string]string{}
	for _, d := range f.Decls {
		gd, ok := d.(*ast.GenDecl)
		if !ok || gd.Tok != token.VAR {
			continue
		}
		for _, sp := range gd.Specs {
			vs := sp.(*ast.ValueSpec)
			if vs.Doc != nil {
				for _, c := range vs.Doc.List {
					if strings.HasPrefix(c.Text, "//go:embed ") && len(vs.Names) == 1 {
						embedOf[vs.Names[0].Name] = strings.TrimSpace(strings.TrimPrefix(c.Text, "//go:embed "))
					}
				}
			}
			for i, n := range vs.Names {
				if n.Name == contractVar && i < len(vs.Values) {
					if cl, ok := vs.Values[i].(*ast.CompositeLit); ok {
						for _, e := range cl.Elts {
							if kv, ok := e.(*ast.KeyValueExpr); ok && Src(kv.Key) == "EmbedJSON" {
								jsonVar = Src(kv.Value)
							}
						}
					}
				}
			}
		}
	}
	p, ok := embedOf[jsonVar]
	if jsonVar == "" || !ok {
		Fatal(fmt.Errorf("cannot resolve the embedded ABI JSON of %s", contractVar))
	}
	return filepath.Join(embedsDir, p)
}

func loadABI(path string) gethabi.ABI {
	bz, err := os.ReadFile(path)
	if err != nil {
		Fatal(err)
	}
	var art struct {
		ABI json.RawMessage `json:"abi"`
	}
	if err := json.Unmarshal(bz, &art); err != nil {
		Fatal(err)
	}
	a, err := gethabi.JSON(strings.NewReader(string(art.ABI)))
	if err != nil {
		Fatal(err)
	}
	return a
}

// ---------------------------------------------------------------- Run dispatcher

type handlerRef struct {
	fn            string
	plain         bool // a plain function, not a method of the precompile type
	readonlyArgAt int  // index of the Run's read-only parameter among the call arguments (-1: not passed)
}

type runInfo struct {
	startFirst, oogDeferred, useGas bool
	readonlyParam                   string
	handlers                        map[string]handlerRef // ABI method name -> handler
}

func isErrReturnIf(s ast.Stmt) bool {
	is, ok := s.(*ast.IfStmt)
	if !ok || is.Init != nil || Nospace(is.Cond) != "err!=nil" || len(is.Body.List) == 0 {
		return false
	}
	_, ok = is.Body.List[len(is.Body.List)-1].(*ast.ReturnStmt)
	return ok
}

// packageMaps: package-level  var X = map[K]V{ key: value, … }  composite literals, by name.
var packageMaps = map[string]*ast.CompositeLit{}

func collectPackageMaps(files []File) {
	for _, fl := range files {
		for _, d := range fl.F.Decls {
			gd, ok := d.(*ast.GenDecl)
			if !ok || gd.Tok != token.VAR {
				continue
			}
			for _, sp := range gd.Specs {
				vs := sp.(*ast.ValueSpec)
				for i, n := range vs.Names {
					if i < len(vs.Values) {
						if cl, ok := vs.Values[i].(*ast.CompositeLit); ok {
							if _, isMap := cl.Type.(*ast.MapType); isMap || cl.Type == nil {
								packageMaps[n.Name] = cl
							}
						}
					}
				}
			}
		}
	}
}

func flatParams(ft *ast.FuncType) []string {
	var out []string
	for _, p := range ft.Params.List {
		if len(p.Names) == 0 {
			out = append(out, "_")
		}
		for _, n := range p.Names {
			out = append(out, n.Name)
		}
	}
	return out
}

// analyseRun understands a Run method that dispatches either with
//
//	switch PrecompileMethod(<method>.Name) { case C: bz, err = p.h(…) … }
//
// or through a package-level table of handlers
//
//	h, ok := table[PrecompileMethod(<method>.Name)]; if !ok { …; return }; …; bz, err = h(p, …)
func analyseRun(run *ast.FuncDecl, consts map[string]string) runInfo {
	ri := runInfo{handlers: map[string]handlerRef{}}
	pnames := flatParams(run.Type)
	if len(pnames) == 3 {
		ri.readonlyParam = pnames[2]
	}
	recv := "p"
	if run.Recv != nil && len(run.Recv.List) == 1 && len(run.Recv.List[0].Names) == 1 {
		recv = run.Recv.List[0].Names[0].Name
	}
	stmts := run.Body.List
	// first non-defer statement: the OnRunStart call, its error returned
	i := 0
	for i < len(stmts) {
		if _, ok := stmts[i].(*ast.DeferStmt); ok {
			i++
			continue
		}
		break
	}
	startVar := ""
	if i+1 < len(stmts) {
		if as, ok := stmts[i].(*ast.AssignStmt); ok && len(as.Rhs) == 1 && len(as.Lhs) >= 1 {
			rhs := Nospace(as.Rhs[0])
			if len(pnames) == 3 && rhs == "OnRunStart("+pnames[0]+","+pnames[1]+".Input,"+recv+".ABI(),"+pnames[1]+".Gas)" && isErrReturnIf(stmts[i+1]) {
				ri.startFirst = true
				startVar = Src(as.Lhs[0])
			}
		}
	}
	// aliases of the start result's cache context
	ctxAliases := map[string]bool{}
	if startVar != "" {
		ctxAliases[startVar+".CacheCtx"] = true
		for _, s := range stmts {
			if as, ok := s.(*ast.AssignStmt); ok && len(as.Lhs) == len(as.Rhs) {
				for k := range as.Rhs {
					if Nospace(as.Rhs[k]) == startVar+".CacheCtx" {
						ctxAliases[Src(as.Lhs[k])] = true
					}
				}
			}
		}
	}
	readonlyAt := func(call *ast.CallExpr, shift int) int {
		for k, a := range call.Args {
			if id, ok := a.(*ast.Ident); ok && id.Name == ri.readonlyParam {
				return k - shift
			}
		}
		return -1
	}
	dispatchIdx := -1
	for j, s := range stmts {
		// (a) switch
		if sw, ok := s.(*ast.SwitchStmt); ok && sw.Tag != nil && strings.HasPrefix(Nospace(sw.Tag), "PrecompileMethod(") {
			dispatchIdx = j
			for _, c := range sw.Body.List {
				cc := c.(*ast.CaseClause)
				for _, e := range cc.List {
					name := ""
					if id, ok := e.(*ast.Ident); ok {
						name = consts[id.Name]
					}
					if name == "" || len(cc.Body) == 0 {
						continue
					}
					as, ok := cc.Body[0].(*ast.AssignStmt)
					if !ok || len(as.Rhs) != 1 {
						continue
					}
					call, ok := as.Rhs[0].(*ast.CallExpr)
					if !ok {
						continue
					}
					sel, ok := call.Fun.(*ast.SelectorExpr)
					if !ok || Src(sel.X) != recv {
						continue
					}
					ri.handlers[name] = handlerRef{fn: sel.Sel.Name, readonlyArgAt: readonlyAt(call, 0)}
				}
			}
			break
		}
		// (b) table lookup
		as, ok := s.(*ast.AssignStmt)
		if !ok || len(as.Rhs) != 1 || len(as.Lhs) != 2 {
			continue
		}
		ix, ok := as.Rhs[0].(*ast.IndexExpr)
		if !ok || !strings.HasPrefix(Nospace(ix.Index), "PrecompileMethod(") {
			continue
		}
		tbl, ok := ix.X.(*ast.Ident)
		if !ok || packageMaps[tbl.Name] == nil {
			continue
		}
		hVar, okVar := Src(as.Lhs[0]), Src(as.Lhs[1])
		// unknown methods must return right away
		if j+1 >= len(stmts) {
			continue
		}
		if is, ok := stmts[j+1].(*ast.IfStmt); !ok || Nospace(is.Cond) != "!"+okVar || !returnsInside(is.Body) {
			continue
		}
		// the call of the looked-up handler
		for j2 := j + 2; j2 < len(stmts); j2++ {
			as2, ok := stmts[j2].(*ast.AssignStmt)
			if !ok || len(as2.Rhs) != 1 {
				continue
			}
			call, ok := as2.Rhs[0].(*ast.CallExpr)
			if !ok || Src(call.Fun) != hVar {
				continue
			}
			dispatchIdx = j2
			for _, e := range packageMaps[tbl.Name].Elts {
				kv, ok := e.(*ast.KeyValueExpr)
				if !ok {
					continue
				}
				name := ""
				if id, ok := kv.Key.(*ast.Ident); ok {
					name = consts[id.Name]
				}
				if name == "" {
					continue
				}
				switch v := kv.Value.(type) {
				case *ast.SelectorExpr: // method expression T.handler: first call argument is the receiver
					ri.handlers[name] = handlerRef{fn: v.Sel.Name, readonlyArgAt: readonlyAt(call, 1)}
				case *ast.Ident: // plain function
					ri.handlers[name] = handlerRef{fn: v.Name, plain: true, readonlyArgAt: readonlyAt(call, 0)}
				}
			}
			break
		}
		if dispatchIdx >= 0 {
			break
		}
	}
	if dispatchIdx < 0 {
		return ri
	}
	for _, s := range stmts[:dispatchIdx] {
		if ds, ok := s.(*ast.DeferStmt); ok && Nospace(ds) == "deferHandleOutOfGasPanic(&err)()" {
			ri.oogDeferred = true
		}
	}
	for _, s := range stmts[dispatchIdx+1:] {
		if isErrReturnIf(s) {
			break
		}
		es, ok := s.(*ast.ExprStmt)
		if !ok {
			continue
		}
		call, ok := es.X.(*ast.CallExpr)
		if !ok || len(pnames) != 3 || Nospace(call.Fun) != pnames[1]+".UseGas" || len(call.Args) != 1 {
			continue
		}
		arg := Nospace(call.Args[0])
		for a := range ctxAliases {
			if arg == a+".GasMeter().GasConsumed()" {
				ri.useGas = true
			}
		}
	}
	return ri
}

// ---------------------------------------------------------------- method handlers

func returnsInside(b *ast.BlockStmt) bool {
	for _, s := range b.List {
		if _, ok := s.(*ast.ReturnStmt); ok {
			return true
		}
	}
	return false
}

// guardOf classifies  if err := assertX(...); err != nil { return … }
func guardOf(s ast.Stmt, fd *ast.FuncDecl, h handlerRef) string {
	is, ok := s.(*ast.IfStmt)
	if !ok || is.Init == nil || Nospace(is.Cond) != "err!=nil" || !returnsInside(is.Body) {
		return ""
	}
	as, ok := is.Init.(*ast.AssignStmt)
	if !ok || len(as.Rhs) != 1 {
		return ""
	}
	call, ok := as.Rhs[0].(*ast.CallExpr)
	if !ok {
		return ""
	}
	id, ok := call.Fun.(*ast.Ident)
	if !ok {
		return ""
	}
	switch id.Name {
	case "assertNotReadonlyTx":
		// first argument must be the handler parameter that receives Run's read-only flag
		if len(call.Args) < 1 || h.readonlyArgAt < 0 {
			return ""
		}
		var pnames []string
		for _, p := range fd.Type.Params.List {
			for _, n := range p.Names {
				pnames = append(pnames, n.Name)
			}
		}
		if h.readonlyArgAt >= len(pnames) || Src(call.Args[0]) != pnames[h.readonlyArgAt] {
			return ""
		}
		return "GReadonly"
	case "assertContractQuery":
		return "GQuery"
	}
	return ""
}

// benign statements that may precede the guard: unpacking the start result, deferred error wrapping
func benign(s ast.Stmt) bool {
	switch x := s.(type) {
	case *ast.DeferStmt:
		// a deferred closure, or a deferred named function whose arguments are evaluated without any call
		// (defer wrapErr(method, &err)): nothing runs before the function returns
		if _, ok := x.Call.Fun.(*ast.FuncLit); ok {
			return true
		}
		pure := true
		for _, a := range x.Call.Args {
			ast.Inspect(a, func(n ast.Node) bool {
				if _, isCall := n.(*ast.CallExpr); isCall {
					pure = false
				}
				return true
			})
		}
		if sel, ok := x.Call.Fun.(*ast.SelectorExpr); ok {
			ast.Inspect(sel.X, func(n ast.Node) bool {
				if _, isCall := n.(*ast.CallExpr); isCall {
					pure = false
				}
				return true
			})
		}
		return pure
	case *ast.AssignStmt:
		for _, r := range x.Rhs {
			sel, ok := r.(*ast.SelectorExpr)
			if !ok {
				return false
			}
			if id, ok := sel.X.(*ast.Ident); !ok || (id.Name != "start" && id.Name != "startResult") {
				return false
			}
		}
		return true
	}
	return false
}

func analyseHandler(fd *ast.FuncDecl, h handlerRef, readonlyParam string) (guard string, first bool) {
	if fd == nil || fd.Body == nil {
		return "GNone", false
	}
	seenOther := false
	for _, s := range fd.Body.List {
		if benign(s) {
			continue
		}
		if g := guardOf(s, fd, h); g != "" {
			return g, !seenOther
		}
		seenOther = true
	}
	// no guard at all: vacuously "first"
	return "GNone", true
}

// ---------------------------------------------------------------- panic guards

// requiredGasLenGuard: before the first slice expression on `input`, an if that returns when
// len(input) is below the largest constant index used for slicing (semantic: named integer
// constants are folded, `len(input) < n`, `n > len(input)`, `len(input) <= n-1` are the same guard).
func requiredGasLenGuard(fd *ast.FuncDecl, consts map[string]int64) bool {
	if fd == nil || fd.Body == nil {
		return false
	}
	local := map[string]int64{}
	for k, v := range consts {
		local[k] = v
	}
	collectIntConsts(fd.Body, local)
	slicePos := token.NoPos
	var maxIdx int64 = 0
	ast.Inspect(fd.Body, func(n ast.Node) bool {
		if se, ok := n.(*ast.SliceExpr); ok && Src(se.X) == "input" {
			if slicePos == token.NoPos {
				slicePos = se.Pos()
			}
			for _, e := range []ast.Expr{se.Low, se.High} {
				if e == nil {
					continue
				}
				if v, ok := evalInt(e, local); ok {
					if v > maxIdx {
						maxIdx = v
					}
				} else {
					maxIdx = 1 << 62 // an index we cannot evaluate: no constant guard covers it
				}
			}
		}
		return true
	})
	if slicePos == token.NoPos {
		return true // nothing to guard
	}
	for _, s := range fd.Body.List {
		is, ok := s.(*ast.IfStmt)
		if !ok || is.Pos() > slicePos || is.Init != nil || !returnsInside(is.Body) {
			continue
		}
		if n, ok := lenInputBelow(is.Cond, local); ok && n >= maxIdx {
			return true
		}
	}
	return false
}

// lenInputBelow recognises conditions equivalent to  len(input) < n  and returns n.
func lenInputBelow(e ast.Expr, consts map[string]int64) (int64, bool) {
	if p, ok := e.(*ast.ParenExpr); ok {
		return lenInputBelow(p.X, consts)
	}
	be, ok := e.(*ast.BinaryExpr)
	if !ok {
		return 0, false
	}
	isLen := func(x ast.Expr) bool { return Nospace(x) == "len(input)" }
	switch {
	case isLen(be.X):
		if v, ok := evalInt(be.Y, consts); ok {
			switch be.Op {
			case token.LSS:
				return v, true
			case token.LEQ:
				return v + 1, true
			}
		}
	case isLen(be.Y):
		if v, ok := evalInt(be.X, consts); ok {
			switch be.Op {
			case token.GTR:
				return v, true
			case token.GEQ:
				return v + 1, true
			}
		}
	}
	return 0, false
}

func evalInt(e ast.Expr, consts map[string]int64) (int64, bool) {
	switch x := e.(type) {
	case *ast.BasicLit:
		if x.Kind == token.INT {
			v, err := strconv.ParseInt(x.Value, 0, 64)
			return v, err == nil
		}
	case *ast.Ident:
		v, ok := consts[x.Name]
		return v, ok
	case *ast.ParenExpr:
		return evalInt(x.X, consts)
	case *ast.CallExpr: // conversions int(x), uint64(x) …
		if id, ok := x.Fun.(*ast.Ident); ok && len(x.Args) == 1 && (strings.HasPrefix(id.Name, "int") || strings.HasPrefix(id.Name, "uint")) {
			return evalInt(x.Args[0], consts)
		}
	case *ast.BinaryExpr:
		a, ok1 := evalInt(x.X, consts)
		b, ok2 := evalInt(x.Y, consts)
		if ok1 && ok2 {
			switch x.Op {
			case token.ADD:
				return a + b, true
			case token.SUB:
				return a - b, true
			case token.MUL:
				return a * b, true
			}
		}
	}
	return 0, false
}

// collectIntConsts adds `const name [type] = <int expr>` declarations found under n.
func collectIntConsts(n ast.Node, into map[string]int64) {
	ast.Inspect(n, func(x ast.Node) bool {
		gd, ok := x.(*ast.GenDecl)
		if !ok || gd.Tok != token.CONST {
			return true
		}
		for _, sp := range gd.Specs {
			vs := sp.(*ast.ValueSpec)
			for i, nm := range vs.Names {
				if i < len(vs.Values) {
					if v, ok := evalInt(vs.Values[i], into); ok {
						into[nm.Name] = v
					}
				}
			}
		}
		return true
	})
}

// ---------------------------------------------------------------- HandleOutOfGasPanic, semantically

// oogOnly interprets the deferred closure of HandleOutOfGasPanic for the three possible recovered
// values (nothing, an sdk.ErrorOutOfGas, anything else) and answers: nothing => no effect;
// out of gas => *err = vm.ErrOutOfGas and no re-panic; anything else => re-panic, *err untouched.
// Statement shapes it does not understand make the answer false.
type oogState struct {
	rVar    string
	isOOG   map[string]bool // boolean variables holding "r is an sdk.ErrorOutOfGas"
	scen    int             // 0 nothing recovered, 1 out of gas, 2 other value
	setErr  bool
	panics  bool
	done    bool
	unknown bool
}

func (st *oogState) cond(e ast.Expr) (val bool, ok bool) {
	switch x := e.(type) {
	case *ast.ParenExpr:
		return st.cond(x.X)
	case *ast.UnaryExpr:
		if x.Op == token.NOT {
			v, ok := st.cond(x.X)
			return !v, ok
		}
	case *ast.Ident:
		if st.isOOG[x.Name] {
			return st.scen == 1, true
		}
	case *ast.BinaryExpr:
		switch x.Op {
		case token.LAND, token.LOR:
			a, ok1 := st.cond(x.X)
			b, ok2 := st.cond(x.Y)
			if ok1 && ok2 {
				if x.Op == token.LAND {
					return a && b, true
				}
				return a || b, true
			}
		case token.NEQ, token.EQL:
			l, r := Src(x.X), Src(x.Y)
			if (l == st.rVar && r == "nil") || (r == st.rVar && l == "nil") {
				isNil := st.scen == 0
				if x.Op == token.EQL {
					return isNil, true
				}
				return !isNil, true
			}
		}
	}
	return false, false
}

func isOOGType(e ast.Expr) bool {
	s := Nospace(e)
	return s == "sdk.ErrorOutOfGas" || s == "storetypes.ErrorOutOfGas" || s == "store.ErrorOutOfGas"
}

func (st *oogState) stmt(s ast.Stmt) {
	if st.done || st.unknown {
		return
	}
	switch x := s.(type) {
	case *ast.BlockStmt:
		for _, y := range x.List {
			st.stmt(y)
		}
	case *ast.AssignStmt:
		if len(x.Rhs) == 1 {
			rhs := Nospace(x.Rhs[0])
			if rhs == "recover()" && len(x.Lhs) == 1 {
				st.rVar = Src(x.Lhs[0])
				return
			}
			if ta, ok := x.Rhs[0].(*ast.TypeAssertExpr); ok && ta.Type != nil && Src(ta.X) == st.rVar && isOOGType(ta.Type) && len(x.Lhs) == 2 {
				st.isOOG[Src(x.Lhs[1])] = true
				return
			}
			if len(x.Lhs) == 1 && Nospace(x.Lhs[0]) == "*err" && rhs == "vm.ErrOutOfGas" {
				st.setErr = true
				return
			}
		}
		st.unknown = true
	case *ast.ExprStmt:
		if Nospace(x.X) == "panic("+st.rVar+")" {
			st.panics, st.done = true, true
			return
		}
		st.unknown = true
	case *ast.ReturnStmt:
		st.done = true
	case *ast.IfStmt:
		if x.Init != nil {
			st.stmt(x.Init)
		}
		v, ok := st.cond(x.Cond)
		if !ok {
			st.unknown = true
			return
		}
		if v {
			st.stmt(x.Body)
		} else if x.Else != nil {
			st.stmt(x.Else)
		}
	case *ast.TypeSwitchStmt:
		subj := ""
		switch a := x.Assign.(type) {
		case *ast.ExprStmt:
			if ta, ok := a.X.(*ast.TypeAssertExpr); ok {
				subj = Src(ta.X)
			}
		case *ast.AssignStmt:
			if len(a.Rhs) == 1 {
				if ta, ok := a.Rhs[0].(*ast.TypeAssertExpr); ok {
					subj = Src(ta.X)
				}
			}
		}
		if subj != st.rVar || subj == "" {
			st.unknown = true
			return
		}
		var chosen, def *ast.CaseClause
		for _, c := range x.Body.List {
			cc := c.(*ast.CaseClause)
			if cc.List == nil {
				def = cc
				continue
			}
			for _, t := range cc.List {
				if (st.scen == 1 && isOOGType(t)) || (st.scen == 0 && Src(t) == "nil") {
					chosen = cc
				}
			}
		}
		if chosen == nil {
			chosen = def
		}
		if chosen != nil {
			for _, y := range chosen.Body {
				st.stmt(y)
			}
		}
	default:
		st.unknown = true
	}
}

func oogOnlySemantic(fd *ast.FuncDecl) bool {
	if fd == nil || fd.Body == nil {
		return false
	}
	var lit *ast.FuncLit
	ast.Inspect(fd.Body, func(n ast.Node) bool {
		if fl, ok := n.(*ast.FuncLit); ok && lit == nil {
			lit = fl
		}
		return true
	})
	if lit == nil {
		return false
	}
	for scen := 0; scen < 3; scen++ {
		st := &oogState{isOOG: map[string]bool{}, scen: scen}
		st.stmt(lit.Body)
		if st.unknown || st.rVar == "" {
			return false
		}
		switch scen {
		case 0:
			if st.setErr || st.panics {
				return false
			}
		case 1:
			if !st.setErr || st.panics {
				return false
			}
		case 2:
			if st.setErr || !st.panics {
				return false
			}
		}
	}
	return true
}

// ---------------------------------------------------------------- linearised events with inlining

// An event is something that matters for a panic guard, in execution order of the straight-line
// reading of a handler: same-package callees (p.helper(…), helper(…)) are read at their call site,
// transitively (depth 4), so that moving code into helpers or other files does not change the facts.
type event struct {
	kind string // mint | supply-guard | newcoin | denom-guard | amount-guard | lookup | nul-guard
	arg  string // validated / constructed variable where it matters
}

var (
	supplyCond = regexp.MustCompile(`^[A-Za-z0-9_.()]+\.BitLen\(\)>math\.MaxBitLen$`)
	amountCond = regexp.MustCompile(`^(\w+==nil\|\|)?\w+\.Sign\(\)(<0|!=1|<=0)$`)
	nulCond    = regexp.MustCompile(`^strings\.(ContainsRune\(\w+,0\)|Contains\(\w+,"\\x00"\)|IndexByte\(\w+,0\)>=0)$`)
	denomInit  = regexp.MustCompile(`^\w+:?=sdk\.ValidateDenom\((\w+)\)$`)
)

func linearEvents(fd *ast.FuncDecl, methodsOf map[string]*ast.FuncDecl, depth int, stack map[*ast.FuncDecl]bool) []event {
	var evs []event
	if fd == nil || fd.Body == nil || depth > 4 || stack[fd] {
		return evs
	}
	stack[fd] = true
	defer delete(stack, fd)
	recvT := recvName(fd)
	recvV := ""
	if fd.Recv != nil && len(fd.Recv.List) == 1 && len(fd.Recv.List[0].Names) == 1 {
		recvV = fd.Recv.List[0].Names[0].Name
	}
	ast.Inspect(fd.Body, func(n ast.Node) bool {
		switch x := n.(type) {
		case *ast.FuncLit:
			return false
		case *ast.IfStmt:
			c := Nospace(x.Cond)
			ret := returnsInside(x.Body)
			switch {
			case ret && supplyCond.MatchString(c):
				evs = append(evs, event{"supply-guard", ""})
			case ret && amountCond.MatchString(c):
				evs = append(evs, event{"amount-guard", ""})
			case ret && nulCond.MatchString(c):
				evs = append(evs, event{"nul-guard", ""})
			case ret && x.Init != nil && (c == "err!=nil" || c == "e!=nil"):
				if m := denomInit.FindStringSubmatch(Nospace(x.Init)); m != nil {
					evs = append(evs, event{"denom-guard", m[1]})
				}
			}
		case *ast.CallExpr:
			f := Nospace(x.Fun)
			switch {
			case strings.HasSuffix(f, ".MintCoins"):
				evs = append(evs, event{"mint", ""})
			case f == "sdk.NewCoin":
				a := ""
				if len(x.Args) > 0 {
					a = Nospace(x.Args[0])
				}
				evs = append(evs, event{"newcoin", a})
			case strings.HasSuffix(f, ".ExactMatch"):
				evs = append(evs, event{"lookup", ""})
			}
			// same-package callee read in place
			var callee *ast.FuncDecl
			switch fn := x.Fun.(type) {
			case *ast.Ident:
				callee = methodsOf["."+fn.Name]
			case *ast.SelectorExpr:
				if id, ok := fn.X.(*ast.Ident); ok && recvV != "" && id.Name == recvV {
					callee = methodsOf[recvT+"."+fn.Sel.Name]
				}
			}
			if callee != nil {
				// arguments are evaluated first
				for _, a := range x.Args {
					ast.Inspect(a, func(m ast.Node) bool { return true })
				}
				evs = append(evs, linearEvents(callee, methodsOf, depth+1, stack)...)
			}
		}
		return true
	})
	return evs
}

// every event of kind `what` is preceded by one of kind `guard` (optionally on the same variable)
func guardedBy(evs []event, what, guard string, sameArg bool) bool {
	for i, e := range evs {
		if e.kind != what {
			continue
		}
		ok := false
		for _, g := range evs[:i] {
			if g.kind == guard && (!sameArg || g.arg == e.arg) {
				ok = true
			}
		}
		if !ok {
			return false
		}
	}
	return true
}

func firstIdx(evs []event, kind string) int {
	for i, e := range evs {
		if e.kind == kind {
			return i
		}
	}
	return -1
}

// bankMsgSend: the first sdk.NewCoin(x, …) comes after a returning sdk.ValidateDenom(x) check and
// after a returning sign check of the amount
func bankMsgSendGuards(evs []event) (denom, amount bool) {
	i := firstIdx(evs, "newcoin")
	if i < 0 {
		return true, true
	}
	for _, g := range evs[:i] {
		if g.kind == "denom-guard" && g.arg == evs[i].arg {
			denom = true
		}
		if g.kind == "amount-guard" {
			amount = true
		}
	}
	return
}

// sendToEvm: a returning sdk.ValidateDenom check precedes the first FunTokens index lookup
func lookupGuarded(evs []event, guard string) bool {
	i := firstIdx(evs, "lookup")
	if i < 0 {
		return true
	}
	for _, g := range evs[:i] {
		if g.kind == guard {
			return true
		}
	}
	return false
}

// localMeterFrom: the parameter #idx of fd reaches  <ctx>.WithGasMeter(sdk.NewGasMeter(<param>))  untouched,
// in fd itself or through same-package helpers it is handed to
func localMeterFrom(fd *ast.FuncDecl, idx int, methodsOf map[string]*ast.FuncDecl, depth int) bool {
	if fd == nil || fd.Body == nil || depth > 4 {
		return false
	}
	ps := flatParams(fd.Type)
	if idx < 0 || idx >= len(ps) {
		return false
	}
	name := ps[idx]
	b := Nospace(fd.Body)
	for _, bad := range []string{name + "=", name + ":=", name + "+=", name + "-=", name + "++", name + "--"} {
		// (== is a comparison, not an assignment)
		if k := strings.Index(b, bad); k >= 0 && !strings.HasPrefix(b[k+len(name):], "==") {
			// make sure the match starts at an identifier boundary
			if k == 0 || !(b[k-1] == '_' || b[k-1] >= '0' && b[k-1] <= '9' || b[k-1] >= 'a' && b[k-1] <= 'z' || b[k-1] >= 'A' && b[k-1] <= 'Z' || b[k-1] == '.') {
				return false
			}
		}
	}
	if strings.Contains(b, ".WithGasMeter(sdk.NewGasMeter("+name+"))") {
		return true
	}
	found := false
	ast.Inspect(fd.Body, func(n ast.Node) bool {
		call, ok := n.(*ast.CallExpr)
		if !ok || found {
			return true
		}
		id, ok := call.Fun.(*ast.Ident)
		if !ok || methodsOf["."+id.Name] == nil {
			return true
		}
		for k, a := range call.Args {
			if Src(a) == name && localMeterFrom(methodsOf["."+id.Name], k, methodsOf, depth+1) {
				found = true
			}
		}
		return true
	})
	return found
}

// addrConversionTotal: eth.NibiruAddrToEthAddr returns gethcommon.BytesToAddress(<bytes>) on every path
// (total: pads short inputs, keeps the last 20 bytes of long ones); a slice-to-array conversion or
// anything else it does not recognise gives false.
func addrConversionTotal(repo string) bool {
	for _, fl := range ParseDir(repo + "/eth") {
		for _, d := range fl.F.Decls {
			fd, ok := d.(*ast.FuncDecl)
			if !ok || fd.Recv != nil || fd.Name.Name != "NibiruAddrToEthAddr" || fd.Body == nil {
				continue
			}
			n, okAll := 0, true
			re := regexp.MustCompile(`^\w+\.BytesToAddress\(.+\)$`)
			ast.Inspect(fd.Body, func(x ast.Node) bool {
				if r, ok := x.(*ast.ReturnStmt); ok {
					n++
					if len(r.Results) != 1 || !re.MatchString(Nospace(r.Results[0])) {
						okAll = false
					}
				}
				return true
			})
			return n > 0 && okAll
		}
	}
	return false
}

// ---------------------------------------------------------------- StateDB: the journaled multistore snapshot

// snapshotFacts reads x/evm/statedb: the method of *StateDB that receives a PrecompileCalled value (found by
// the parameter's type, whatever it is called) and appends it to the journal.
//
//	snapEach: the append is reached on EVERY call of that method - no statement before it can leave the method
//	          (a return anywhere inside an earlier statement) and the append itself is not nested in a branch
//	          or loop; same-package helpers the value is handed to are read at their call site.
//	maxCalls: how many calls one StateDB admits: the method returns an error when its call counter compares
//	          above a package constant; N calls pass for `counter++ ; if counter > N`, the equivalent forms
//	          (>=, flipped operands, comparison before the increment) are folded. No such test: no limit (2^62).
func snapshotFacts(repo string) (snapEach bool, maxCalls int64) {
	files := ParseDir(repo + "/x/evm/statedb")
	methodsOf := methodDecls(files)
	intC := map[string]int64{}
	for _, fl := range files {
		for _, d := range fl.F.Decls {
			if gd, ok := d.(*ast.GenDecl); ok {
				collectIntConsts(gd, intC)
			}
		}
	}
	maxCalls = 1 << 62
	var names []string
	for n := range methodsOf {
		names = append(names, n)
	}
	sort.Strings(names)
	for _, n := range names {
		fd := methodsOf[n]
		if fd.Body == nil || recvName(fd) != "StateDB" {
			continue
		}
		param := ""
		for _, p := range fd.Type.Params.List {
			if Nospace(p.Type) == "PrecompileCalled" && len(p.Names) == 1 {
				param = p.Names[0].Name
			}
		}
		if param == "" {
			continue
		}
		found, uncond := appendReached(fd, param, methodsOf, 0)
		if !found {
			continue
		}
		snapEach = uncond
		if lim, ok := callLimit(fd, intC); ok {
			maxCalls = lim
		}
		return
	}
	return false, maxCalls
}

func containsReturn(n ast.Node) bool {
	r := false
	ast.Inspect(n, func(x ast.Node) bool {
		switch x.(type) {
		case *ast.FuncLit:
			return false
		case *ast.ReturnStmt:
			r = true
		}
		return true
	})
	return r
}

// isJournalAppend: <anything>.append(<param>) as a statement of its own
func isJournalAppend(s ast.Stmt, param string) bool {
	es, ok := s.(*ast.ExprStmt)
	if !ok {
		return false
	}
	call, ok := es.X.(*ast.CallExpr)
	if !ok || len(call.Args) != 1 || Src(call.Args[0]) != param {
		return false
	}
	sel, ok := call.Fun.(*ast.SelectorExpr)
	return ok && sel.Sel.Name == "append"
}

func appendReached(fd *ast.FuncDecl, param string, methodsOf map[string]*ast.FuncDecl, depth int) (found, unconditional bool) {
	if fd == nil || fd.Body == nil || depth > 3 {
		return false, false
	}
	recvT, recvV := recvName(fd), ""
	if fd.Recv != nil && len(fd.Recv.List) == 1 && len(fd.Recv.List[0].Names) == 1 {
		recvV = fd.Recv.List[0].Names[0].Name
	}
	for _, s := range fd.Body.List {
		if isJournalAppend(s, param) {
			return true, true
		}
		// the value handed to a same-package helper: read the helper in place
		var call *ast.CallExpr
		switch x := s.(type) {
		case *ast.ExprStmt:
			call, _ = x.X.(*ast.CallExpr)
		case *ast.AssignStmt:
			if len(x.Rhs) == 1 {
				call, _ = x.Rhs[0].(*ast.CallExpr)
			}
		}
		if call != nil {
			var callee *ast.FuncDecl
			switch fn := call.Fun.(type) {
			case *ast.Ident:
				callee = methodsOf["."+fn.Name]
			case *ast.SelectorExpr:
				if id, ok := fn.X.(*ast.Ident); ok && recvV != "" && id.Name == recvV {
					callee = methodsOf[recvT+"."+fn.Sel.Name]
				}
			}
			if callee != nil {
				ps := flatParams(callee.Type)
				for k, a := range call.Args {
					if Src(a) == param && k < len(ps) {
						if f, u := appendReached(callee, ps[k], methodsOf, depth+1); f {
							return true, u
						}
					}
				}
			}
		}
		// the append somewhere inside this statement (a branch, a loop): conditional
		nested := false
		ast.Inspect(s, func(x ast.Node) bool {
			if st, ok := x.(ast.Stmt); ok && isJournalAppend(st, param) {
				nested = true
			}
			return true
		})
		if nested {
			return true, false
		}
		// a way out of the method before the append
		if containsReturn(s) {
			rest := false
			for _, t := range fd.Body.List {
				ast.Inspect(t, func(x ast.Node) bool {
					if st, ok := x.(ast.Stmt); ok && isJournalAppend(st, param) {
						rest = true
					}
					return true
				})
			}
			return rest, false
		}
	}
	return false, false
}

// callLimit: if <counter> > N { return <error> } after <counter>++ (or the equivalent forms)
func callLimit(fd *ast.FuncDecl, consts map[string]int64) (int64, bool) {
	incremented := map[string]bool{}
	for _, s := range fd.Body.List {
		switch x := s.(type) {
		case *ast.IncDecStmt:
			if x.Tok == token.INC {
				incremented[Nospace(x.X)] = true
			}
		case *ast.AssignStmt:
			if x.Tok == token.ADD_ASSIGN && len(x.Lhs) == 1 && len(x.Rhs) == 1 && Nospace(x.Rhs[0]) == "1" {
				incremented[Nospace(x.Lhs[0])] = true
			}
		case *ast.IfStmt:
			be, ok := x.Cond.(*ast.BinaryExpr)
			if !ok || x.Init != nil || !containsReturn(x.Body) {
				continue
			}
			counter, op, other := be.X, be.Op, be.Y
			if _, isConst := evalInt(be.X, consts); isConst {
				counter, other = be.Y, be.X
				switch be.Op {
				case token.LSS:
					op = token.GTR
				case token.LEQ:
					op = token.GEQ
				case token.GTR:
					op = token.LSS
				case token.GEQ:
					op = token.LEQ
				}
			}
			n, ok := evalInt(other, consts)
			if !ok {
				continue
			}
			post := incremented[Nospace(counter)]
			switch {
			case op == token.GTR && post:
				return n, true
			case op == token.GEQ && post:
				return n - 1, true
			case op == token.GTR && !post:
				return n + 1, true
			case op == token.GEQ && !post:
				return n, true
			}
		}
	}
	return 0, false
}

// ---------------------------------------------------------------- the Oracle's pair validation, by running it

// pairValidationTotal RUNS asset.TryNewPair (what the Oracle precompile applies to the untrusted pair string before
// it becomes a collections string key) of the tree the generator is built against on a fixed table of hostile
// strings: every well-formed pair with one byte (NUL, 0xff, space, newline, '!') inserted at every position,
// garbage in front / behind, missing and duplicated separators.  true = every one of them is refused (the
// validation judges the whole string of each side) and the well-formed controls are accepted.
func pairValidationTotal() bool {
	good := []string{"unibi:uusd", "ubtc:uusd", "abc:xyz", "u/n.i_b-i:uusd"}
	for _, g := range good {
		if _, err := asset.TryNewPair(g); err != nil {
			return false
		}
	}
	var hostile []string
	for _, g := range good {
		for _, b := range []string{"\x00", "\xff", " ", "\n", "!", "\x00\x00"} {
			for i := 0; i <= len(g); i++ {
				hostile = append(hostile, g[:i]+b+g[i:])
			}
		}
		hostile = append(hostile, g+":", ":"+g, g+":"+g, strings.Replace(g, ":", "", 1), strings.Replace(g, ":", "::", 1), g+strings.Repeat("z", 200)+"\x00")
	}
	hostile = append(hostile, "", ":", "\x00", "a:b", "ab:cd\x00", "unibi:uusd\x00", "un\x00ibi:uusd")
	for _, h := range hostile {
		if _, err := asset.TryNewPair(h); err == nil {
			return false
		}
	}
	return true
}

// ---------------------------------------------------------------- decoding the revert data of a called contract

// revertDecodeTotal: the function of package x/evm that x/evm/keeper applies to the return data of a failed
// contract call (`evm.F(<resp>.Ret)`; NewRevertError by name when no such call is found) never slices or
// indexes its []byte parameter beyond a length it has established: every p[i], p[lo:hi], p[lo:] with constant
// bounds sits behind `len(p) >= n` (an enclosing if / the right side of &&) or after a returning
// `if len(p) < n { … }`; same-package helpers the slice is handed to are read the same way; library decoders
// (abi.UnpackRevert …) are trusted.  A bound it cannot evaluate counts as unguarded.
func revertDecodeTotal(repo string) bool {
	evmFiles := ParseDir(repo + "/x/evm")
	funcs := map[string]*ast.FuncDecl{}
	intC := map[string]int64{}
	for _, fl := range evmFiles {
		if strings.HasSuffix(fl.Path, "_test.go") {
			continue
		}
		for _, d := range fl.F.Decls {
			switch x := d.(type) {
			case *ast.FuncDecl:
				if x.Recv == nil {
					funcs[x.Name.Name] = x
				}
			case *ast.GenDecl:
				collectIntConsts(x, intC)
			}
		}
	}
	targets := map[string]int{} // function name -> index of the parameter holding the return data
	for _, fl := range ParseDir(repo + "/x/evm/keeper") {
		if strings.HasSuffix(fl.Path, "_test.go") {
			continue
		}
		ast.Inspect(fl.F, func(n ast.Node) bool {
			call, ok := n.(*ast.CallExpr)
			if !ok {
				return true
			}
			sel, ok := call.Fun.(*ast.SelectorExpr)
			if !ok || Src(sel.X) != "evm" || funcs[sel.Sel.Name] == nil {
				return true
			}
			for k, a := range call.Args {
				if as, ok := a.(*ast.SelectorExpr); ok && as.Sel.Name == "Ret" {
					targets[sel.Sel.Name] = k
				}
			}
			return true
		})
	}
	if len(targets) == 0 && funcs["NewRevertError"] != nil {
		targets["NewRevertError"] = 0
	}
	for name, idx := range targets {
		if !sliceTotal(funcs[name], idx, funcs, intC, 0) {
			return false
		}
	}
	return true
}

type sliceCheck struct {
	p      string
	consts map[string]int64
	funcs  map[string]*ast.FuncDecl
	depth  int
	ok     bool
}

func (c *sliceCheck) lenOf(e ast.Expr) bool { return Nospace(e) == "len("+c.p+")" }

// lower bound on len(p) that holds when cond is true / false
func (c *sliceCheck) bound(cond ast.Expr, truth bool) int64 {
	switch x := cond.(type) {
	case *ast.ParenExpr:
		return c.bound(x.X, truth)
	case *ast.UnaryExpr:
		if x.Op == token.NOT {
			return c.bound(x.X, !truth)
		}
	case *ast.BinaryExpr:
		if (x.Op == token.LAND && truth) || (x.Op == token.LOR && !truth) {
			a, b := c.bound(x.X, truth), c.bound(x.Y, truth)
			if a > b {
				return a
			}
			return b
		}
		op, other := x.Op, x.Y
		switch {
		case c.lenOf(x.X):
		case c.lenOf(x.Y):
			other = x.X
			switch x.Op {
			case token.LSS:
				op = token.GTR
			case token.LEQ:
				op = token.GEQ
			case token.GTR:
				op = token.LSS
			case token.GEQ:
				op = token.LEQ
			}
		default:
			return 0
		}
		n, ok := evalInt(other, c.consts)
		if !ok {
			return 0
		}
		if truth {
			switch op {
			case token.GEQ, token.EQL:
				return n
			case token.GTR:
				return n + 1
			}
		} else {
			switch op {
			case token.LSS:
				return n
			case token.LEQ:
				return n + 1
			}
		}
	}
	return 0
}

func max64(a, b int64) int64 {
	if a > b {
		return a
	}
	return b
}

func (c *sliceCheck) expr(e ast.Node, g int64) {
	if e == nil {
		return
	}
	switch x := e.(type) {
	case *ast.BinaryExpr:
		if x.Op == token.LAND {
			c.expr(x.X, g)
			c.expr(x.Y, max64(g, c.bound(x.X, true)))
			return
		}
		if x.Op == token.LOR {
			c.expr(x.X, g)
			c.expr(x.Y, max64(g, c.bound(x.X, false)))
			return
		}
	case *ast.FuncLit:
		c.block(x.Body.List, 0)
		return
	}
	ast.Inspect(e, func(n ast.Node) bool {
		switch x := n.(type) {
		case *ast.BinaryExpr:
			if (x.Op == token.LAND || x.Op == token.LOR) && ast.Node(x) != e {
				c.expr(x, g)
				return false
			}
		case *ast.FuncLit:
			c.expr(x, g)
			return false
		case *ast.SliceExpr:
			if Src(x.X) == c.p {
				var need int64
				for _, b := range []ast.Expr{x.Low, x.High, x.Max} {
					if b == nil || c.lenOf(b) {
						continue
					}
					v, ok := evalInt(b, c.consts)
					if !ok {
						c.ok = false
						continue
					}
					need = max64(need, v)
				}
				if need > g {
					c.ok = false
				}
			}
		case *ast.IndexExpr:
			if Src(x.X) == c.p {
				v, ok := evalInt(x.Index, c.consts)
				if !ok || v+1 > g {
					c.ok = false
				}
			}
		case *ast.CallExpr:
			// the slice itself handed to a same-package helper
			if id, ok := x.Fun.(*ast.Ident); ok && c.funcs[id.Name] != nil && c.depth < 3 {
				for k, a := range x.Args {
					if Src(a) == c.p && !sliceTotal(c.funcs[id.Name], k, c.funcs, c.consts, c.depth+1) {
						// the helper may rely on what the caller established: accept it only if it is total by itself
						c.ok = false
					}
				}
			}
		}
		return true
	})
}

func terminates(b *ast.BlockStmt) bool {
	if b == nil || len(b.List) == 0 {
		return false
	}
	switch x := b.List[len(b.List)-1].(type) {
	case *ast.ReturnStmt:
		return true
	case *ast.ExprStmt:
		if call, ok := x.X.(*ast.CallExpr); ok && Src(call.Fun) == "panic" {
			return true
		}
	}
	return false
}

func (c *sliceCheck) block(stmts []ast.Stmt, g int64) {
	for _, s := range stmts {
		switch x := s.(type) {
		case *ast.BlockStmt:
			c.block(x.List, g)
		case *ast.IfStmt:
			if x.Init != nil {
				c.block([]ast.Stmt{x.Init}, g)
			}
			c.expr(x.Cond, g)
			c.block(x.Body.List, max64(g, c.bound(x.Cond, true)))
			gElse := max64(g, c.bound(x.Cond, false))
			switch e := x.Else.(type) {
			case *ast.BlockStmt:
				c.block(e.List, gElse)
			case *ast.IfStmt:
				c.block([]ast.Stmt{e}, gElse)
			}
			if terminates(x.Body) && x.Else == nil {
				g = gElse
			}
		case *ast.ForStmt:
			c.expr(x.Cond, g)
			c.block(x.Body.List, g)
		case *ast.RangeStmt:
			c.expr(x.X, g)
			c.block(x.Body.List, g)
		case *ast.AssignStmt:
			// the parameter re-assigned: nothing is known about its length any more
			for _, l := range x.Lhs {
				if Src(l) == c.p {
					g = 0
				}
			}
			for _, r := range x.Rhs {
				c.expr(r, g)
			}
		default:
			c.expr(s, g)
		}
	}
}

func sliceTotal(fd *ast.FuncDecl, paramIdx int, funcs map[string]*ast.FuncDecl, consts map[string]int64, depth int) bool {
	if fd == nil || fd.Body == nil {
		return false
	}
	ps := flatParams(fd.Type)
	if paramIdx < 0 || paramIdx >= len(ps) {
		return false
	}
	local := map[string]int64{}
	for k, v := range consts {
		local[k] = v
	}
	collectIntConsts(fd.Body, local)
	c := &sliceCheck{p: ps[paramIdx], consts: local, funcs: funcs, depth: depth, ok: true}
	c.block(fd.Body.List, 0)
	return c.ok
}

// ---------------------------------------------------------------- go-ethereum fork

type gethInfo struct {
	dir                                  string
	directRO, callInherits, chargesFirst bool
	pairs                                string
}

func escapeModPath(p string) string {
	var b strings.Builder
	for _, r := range p {
		if r >= 'A' && r <= 'Z' {
			b.WriteByte('!')
			b.WriteRune(r + 32)
		} else {
			b.WriteRune(r)
		}
	}
	return b.String()
}

func gethFacts(repo string) gethInfo {
	bz, err := os.ReadFile(repo + "/go.mod")
	if err != nil {
		Fatal(err)
	}
	re := regexp.MustCompile(`(?m)^\s*github\.com/ethereum/go-ethereum\s*=>\s*(\S+)\s+(\S+)\s*$`)
	mm := re.FindStringSubmatch(string(bz))
	if mm == nil {
		Fatal(fmt.Errorf("go.mod has no replace for go-ethereum"))
	}
	cache := os.Getenv("GOMODCACHE")
	if cache == "" {
		gp := os.Getenv("GOPATH")
		if gp == "" {
			gp = filepath.Join(os.Getenv("HOME"), "go")
		}
		cache = filepath.Join(gp, "pkg", "mod")
	}
	dir := filepath.Join(cache, escapeModPath(mm[1])+"@"+mm[2])
	gi := gethInfo{dir: mm[1] + "@" + mm[2]}
	f, err := parser.ParseFile(Fset, filepath.Join(dir, "core/vm/evm.go"), nil, 0)
	if err != nil {
		Fatal(err)
	}
	args := map[string]string{}
	for _, d := range f.Decls {
		fd, ok := d.(*ast.FuncDecl)
		if !ok || fd.Body == nil || recvName(fd) != "EVM" {
			continue
		}
		switch fd.Name.Name {
		case "Call", "StaticCall", "DelegateCall", "CallCode":
			ast.Inspect(fd.Body, func(n ast.Node) bool {
				if c, ok := n.(*ast.CallExpr); ok && Nospace(c.Fun) == "evm.RunPrecompiledContract" && len(c.Args) == 6 {
					args[fd.Name.Name] = Nospace(c.Args[5])
				}
				return true
			})
		}
	}
	gi.directRO = args["StaticCall"] == "true" && args["DelegateCall"] == "true" && args["CallCode"] == "true"
	gi.callInherits = args["Call"] == "evm.interpreter.readOnly"
	var ps []string
	for _, n := range []string{"Call", "CallCode", "DelegateCall", "StaticCall"} {
		ps = append(ps, fmt.Sprintf("(%s, %s)", CoqString(n), CoqString(args[n])))
	}
	gi.pairs = strings.Join(ps, "; ")
	f2, err := parser.ParseFile(Fset, filepath.Join(dir, "core/vm/contracts.go"), nil, 0)
	if err != nil {
		Fatal(err)
	}
	for _, d := range f2.Decls {
		if fd, ok := d.(*ast.FuncDecl); ok && fd.Name.Name == "runPrecompiledContract" && fd.Body != nil {
			b := Nospace(fd.Body)
			i := strings.Index(b, "gasCost:=p.RequiredGas(input)if!contract.UseGas(gasCost){returnnil,contract.Gas,ErrOutOfGas}")
			j := strings.Index(b, "p.Run(")
			gi.chargesFirst = i >= 0 && j > i
		}
	}
	return gi
}
