// Command gen/c20 prints coq/Gen/C20Facts.v from the /repo working tree (terms, never verdicts):
//
//   - collections : every collections.New… call in the keepers of the seven custom modules
//     (constructor, namespace number, transient?, name it is bound to)
//   - modules     : per module the fields of the GenesisState proto struct, the fields InitGenesis
//     reads and the fields ExportGenesis fills
//   - current_cfg : the two formulas of the genesis code the model is parameterised by
package main

import (
	"fmt"
	"go/ast"
	"go/token"
	"regexp"
	"sort"
	"strconv"
	"strings"

	. "verifharness/genlib"
)

type modSpec struct {
	name       string
	keeperDirs []string // where collections are declared
	constDirs  []string // where namespace constants live
	pbFile     string   // file holding `type GenesisState struct`
	pbDir      string
	genDirs    []string // where InitGenesis / ExportGenesis (and NewGenesisState) live
}

// accessNames[module]: the Go field names through which the module's code reaches its collections
var accessNames = map[string][]string{}

var mods = []modSpec{
	{"evm", []string{"x/evm/keeper"}, []string{"x/evm"}, "", "x/evm", []string{"x/evm/evmmodule", "x/evm"}},
	{"oracle", []string{"x/oracle/keeper"}, []string{"x/oracle/types"}, "", "x/oracle/types", []string{"x/oracle", "x/oracle/types"}},
	{"inflation", []string{"x/inflation/keeper"}, []string{"x/inflation/types"}, "", "x/inflation/types", []string{"x/inflation", "x/inflation/types"}},
	{"epochs", []string{"x/epochs/keeper"}, []string{"x/epochs/types"}, "", "x/epochs/types", []string{"x/epochs", "x/epochs/types"}},
	{"sudo", []string{"x/sudo/keeper"}, []string{"x/sudo/types"}, "", "x/sudo/types", []string{"x/sudo", "x/sudo/types"}},
	{"tokenfactory", []string{"x/tokenfactory/keeper"}, []string{"x/tokenfactory/types"}, "", "x/tokenfactory/types", []string{"x/tokenfactory/keeper", "x/tokenfactory/types"}},
	{"devgas", []string{"x/devgas/v1/keeper"}, []string{"x/devgas/v1/types"}, "", "x/devgas/v1/types", []string{"x/devgas/v1", "x/devgas/v1/types"}},
}

func main() {
	repo := Repo()
	Header(repo)
	fmt.Println("Require Import Nib.C20.Model Nib.C20.Spec Nib.C20.Shape.")
	fmt.Println("From Coq Require Import String List. Import ListNotations. Open Scope string_scope.")
	var colls []string
	var modfacts []string
	for _, m := range mods {
		consts := map[string]int{}
		for _, d := range m.constDirs {
			evalConsts(ParseDir(repo+"/"+d), consts)
		}
		for _, d := range m.keeperDirs { // namespace constants may also be declared next to the keeper
			evalConsts(ParseDir(repo+"/"+d), consts)
		}
		for _, d := range m.keeperDirs {
			colls = append(colls, collections(m.name, ParseDir(repo+"/"+d), consts)...)
		}
		fields := genesisFields(ParseDir(repo + "/" + m.pbDir))
		var gfiles []File
		for _, d := range m.genDirs {
			gfiles = append(gfiles, ParseDir(repo+"/"+d)...)
		}
		reads, writes := genesisUse(gfiles, fields)
		var kfiles []File
		for _, d := range m.keeperDirs {
			kfiles = append(kfiles, ParseDir(repo+"/"+d)...)
		}
		iw, er := collectionUse(append(kfiles, gfiles...), accessNames[m.name])
		modfacts = append(modfacts, fmt.Sprintf("  {| mf_module := %s; mf_genesis_fields := %s;\n     mf_init_reads := %s;\n     mf_export_writes := %s;\n     mf_init_stores := %s;\n     mf_export_loads := %s |}",
			CoqString(m.name), coqStrs(fields), coqStrs(reads), coqStrs(writes), coqStrs(iw), coqStrs(er)))
	}
	fmt.Println("Definition collections : list coll := [")
	fmt.Println(strings.Join(colls, ";\n"))
	fmt.Println("].")
	fmt.Println("Definition modules : list modfacts := [")
	fmt.Println(strings.Join(modfacts, ";\n"))
	fmt.Println("].")
	genCfg(repo)
}

func coqStrs(l []string) string {
	var q []string
	for _, s := range l {
		q = append(q, CoqString(s))
	}
	return "[" + strings.Join(q, "; ") + "]"
}

// ---------------------------------------------------------------- namespace constants

// evalConsts evaluates integer const blocks (iota, literals, +) of the given files.
func evalConsts(files []File, out map[string]int) {
	for _, fl := range files {
		for _, d := range fl.F.Decls {
			gd, ok := d.(*ast.GenDecl)
			if !ok || gd.Tok != token.CONST {
				continue
			}
			var last ast.Expr
			for i, sp := range gd.Specs {
				vs := sp.(*ast.ValueSpec)
				if len(vs.Values) > 0 {
					last = vs.Values[0]
				}
				if last == nil || len(vs.Names) != 1 {
					continue
				}
				if v, ok := evalInt(last, i, out); ok {
					out[vs.Names[0].Name] = v
				}
			}
		}
	}
}

func evalInt(e ast.Expr, iota int, env map[string]int) (int, bool) {
	switch x := e.(type) {
	case *ast.BasicLit:
		if x.Kind == token.INT {
			v, err := strconv.Atoi(x.Value)
			return v, err == nil
		}
	case *ast.Ident:
		if x.Name == "iota" {
			return iota, true
		}
		v, ok := env[x.Name]
		return v, ok
	case *ast.SelectorExpr:
		v, ok := env[x.Sel.Name]
		return v, ok
	case *ast.ParenExpr:
		return evalInt(x.X, iota, env)
	case *ast.BinaryExpr:
		a, ok1 := evalInt(x.X, iota, env)
		b, ok2 := evalInt(x.Y, iota, env)
		if ok1 && ok2 {
			switch x.Op {
			case token.ADD:
				return a + b, true
			case token.SUB:
				return a - b, true
			case token.MUL:
				return a * b, true
			}
		}
	case *ast.CallExpr: // conversions like collections.Namespace(3)
		if len(x.Args) == 1 {
			return evalInt(x.Args[0], iota, env)
		}
	}
	return 0, false
}

// ---------------------------------------------------------------- collections

func collections(mod string, files []File, consts map[string]int) []string {
	var out []string
	for _, fl := range files {
		for _, d := range fl.F.Decls {
			fd, ok := d.(*ast.FuncDecl)
			if !ok || fd.Body == nil {
				continue
			}
			// local variables holding namespaces: `var ns collections.Namespace = types.KeyPrefixX` / `ns := …`
			locals := map[string]ast.Expr{}
			ast.Inspect(fd.Body, func(n ast.Node) bool {
				switch x := n.(type) {
				case *ast.ValueSpec:
					for i, nm := range x.Names {
						if i < len(x.Values) {
							locals[nm.Name] = x.Values[i]
						}
					}
				case *ast.AssignStmt:
					if x.Tok == token.DEFINE {
						for i, l := range x.Lhs {
							if id, ok := l.(*ast.Ident); ok && i < len(x.Rhs) {
								if _, isCall := x.Rhs[i].(*ast.CallExpr); !isCall {
									locals[id.Name] = x.Rhs[i]
								}
							}
						}
					}
				}
				return true
			})
			names, fieldNames := bindNames(fd.Body)
			ast.Inspect(fd.Body, func(n ast.Node) bool {
				call, ok := n.(*ast.CallExpr)
				if !ok {
					return true
				}
				ctor := ctorName(call.Fun)
				if ctor == "" || len(call.Args) < 2 {
					return true
				}
				nsExpr := call.Args[1]
				if id, ok := nsExpr.(*ast.Ident); ok {
					if v, ok := locals[id.Name]; ok {
						nsExpr = v
					}
				}
				ns, ok := evalInt(nsExpr, 0, consts)
				nsTxt := Nospace(nsExpr)
				if !ok {
					ns = 999 // unresolved namespace: not in the classification table
				}
				transient := strings.HasSuffix(ctor, "Transient")
				name := names[call]
				if !fieldNames[call] {
					// built inside a helper (NewFunTokenState, NewTFDenomStore, …): the field the helper's result is stored in
					if n := helperField(files, fd.Name.Name); n != "" {
						name = n
					}
				}
				if ctor != "NewMultiIndex" {
					accessNames[mod] = append(accessNames[mod], name)
				}
				out = append(out, fmt.Sprintf("  {| cl_module := %s; cl_ctor := %s; cl_ns := %d; cl_transient := %s; cl_name := %s; cl_nsexpr := %s |}",
					CoqString(mod), CoqString(ctor), ns, CoqBool(transient), CoqString(name), CoqString(nsTxt)))
				return true
			})
		}
	}
	return out
}

// ctorName: "NewMap" … for collections.NewX[…](…)
func ctorName(fun ast.Expr) string {
	switch x := fun.(type) {
	case *ast.IndexExpr:
		return ctorName(x.X)
	case *ast.IndexListExpr:
		return ctorName(x.X)
	case *ast.SelectorExpr:
		if id, ok := x.X.(*ast.Ident); ok && id.Name == "collections" && strings.HasPrefix(x.Sel.Name, "New") {
			switch x.Sel.Name {
			case "NewMap", "NewItem", "NewKeySet", "NewSequence", "NewIndexedMap", "NewMultiIndex", "NewItemTransient", "NewMapTransient", "NewKeySetTransient":
				return x.Sel.Name
			}
			if strings.Contains(x.Sel.Name, "Encoder") {
				return ""
			}
			return x.Sel.Name // an unknown constructor is reported, so that it cannot hide a collection
		}
	}
	return ""
}

// bindNames: the Go name a constructor call is bound to (struct literal key, := target); the second
// map says whether that name is a struct field (literal key)
func bindNames(body *ast.BlockStmt) (map[*ast.CallExpr]string, map[*ast.CallExpr]bool) {
	m := map[*ast.CallExpr]string{}
	isField := map[*ast.CallExpr]bool{}
	ast.Inspect(body, func(n ast.Node) bool {
		switch x := n.(type) {
		case *ast.KeyValueExpr:
			if c, ok := x.Value.(*ast.CallExpr); ok {
				if id, ok := x.Key.(*ast.Ident); ok {
					m[c] = id.Name
					isField[c] = true
				}
			}
		case *ast.AssignStmt:
			for i, r := range x.Rhs {
				if c, ok := r.(*ast.CallExpr); ok && i < len(x.Lhs) {
					m[c] = Nospace(x.Lhs[i])
				}
			}
		}
		return true
	})
	return m, isField
}

// helperField: `Field: helper(...)` somewhere in the package -> "Field"
func helperField(files []File, helper string) string {
	res := ""
	for _, fl := range files {
		ast.Inspect(fl.F, func(n ast.Node) bool {
			kv, ok := n.(*ast.KeyValueExpr)
			if !ok {
				return true
			}
			c, ok := kv.Value.(*ast.CallExpr)
			if !ok {
				return true
			}
			fn := ""
			switch f := c.Fun.(type) {
			case *ast.Ident:
				fn = f.Name
			case *ast.SelectorExpr:
				fn = f.Sel.Name
			}
			if fn == helper {
				if id, ok := kv.Key.(*ast.Ident); ok {
					res = id.Name
				}
			}
			return true
		})
	}
	return res
}

// collectionUse: which collections (by access name) InitGenesis STORES into and ExportGenesis LOADS from,
// directly (`x.Name.Insert(…)`) or through functions of the module it calls (closure by function name).
func collectionUse(files []File, names []string) (initStores, exportLoads []string) {
	decls := map[string][]*ast.FuncDecl{}
	var initFn, expFn *ast.FuncDecl
	for _, fl := range files {
		if strings.HasSuffix(fl.Path, ".pb.go") {
			continue
		}
		for _, d := range fl.F.Decls {
			fd, ok := d.(*ast.FuncDecl)
			if !ok || fd.Body == nil {
				continue
			}
			decls[fd.Name.Name] = append(decls[fd.Name.Name], fd)
			better := func(cur *ast.FuncDecl) bool { return cur == nil || (cur.Recv != nil && fd.Recv == nil) }
			if fd.Name.Name == "InitGenesis" && better(initFn) {
				initFn = fd
			}
			if fd.Name.Name == "ExportGenesis" && better(expFn) {
				expFn = fd
			}
		}
	}
	isName := map[string]bool{}
	for _, n := range names {
		isName[n] = true
	}
	stores := map[string]bool{"Insert": true, "Set": true, "SafeInsert": true, "Next": true}
	loads := map[string]bool{"Get": true, "GetOr": true, "Iterate": true, "Peek": true, "Has": true, "Collect": true}
	var walk func(fd *ast.FuncDecl, kinds map[string]bool, seen map[*ast.FuncDecl]bool, out map[string]bool)
	walk = func(fd *ast.FuncDecl, kinds map[string]bool, seen map[*ast.FuncDecl]bool, out map[string]bool) {
		if fd == nil || seen[fd] {
			return
		}
		seen[fd] = true
		ast.Inspect(fd.Body, func(n ast.Node) bool {
			c, ok := n.(*ast.CallExpr)
			if !ok {
				return true
			}
			switch f := c.Fun.(type) {
			case *ast.SelectorExpr:
				if inner, ok := f.X.(*ast.SelectorExpr); ok && isName[inner.Sel.Name] && kinds[f.Sel.Name] {
					out[inner.Sel.Name] = true
				}
				for _, callee := range decls[f.Sel.Name] {
					if callee.Name.Name != "InitGenesis" && callee.Name.Name != "ExportGenesis" {
						walk(callee, kinds, seen, out)
					}
				}
			case *ast.Ident:
				for _, callee := range decls[f.Name] {
					walk(callee, kinds, seen, out)
				}
			}
			return true
		})
	}
	is, el := map[string]bool{}, map[string]bool{}
	walk(initFn, stores, map[*ast.FuncDecl]bool{}, is)
	walk(expFn, loads, map[*ast.FuncDecl]bool{}, el)
	for k := range is {
		initStores = append(initStores, k)
	}
	for k := range el {
		exportLoads = append(exportLoads, k)
	}
	sort.Strings(initStores)
	sort.Strings(exportLoads)
	return
}

// ---------------------------------------------------------------- genesis fields and their use

func genesisFields(files []File) []string {
	var out []string
	for _, fl := range files {
		if !strings.HasSuffix(fl.Path, ".pb.go") {
			continue
		}
		for _, d := range fl.F.Decls {
			gd, ok := d.(*ast.GenDecl)
			if !ok {
				continue
			}
			for _, sp := range gd.Specs {
				ts, ok := sp.(*ast.TypeSpec)
				if !ok || ts.Name.Name != "GenesisState" {
					continue
				}
				if st, ok := ts.Type.(*ast.StructType); ok {
					for _, f := range st.Fields.List {
						for _, nm := range f.Names {
							if !strings.HasPrefix(nm.Name, "XXX_") {
								out = append(out, nm.Name)
							}
						}
					}
				}
			}
		}
	}
	return out
}

func isField(fields []string, f string) bool {
	for _, x := range fields {
		if x == f {
			return true
		}
	}
	return false
}

// genesisUse: fields of GenesisState that InitGenesis reads (x.F, x.GetF()) and ExportGenesis fills
// (composite literal keys, `g.F = …`, or positional args of NewGenesisState resolved through its body).
func genesisUse(files []File, fields []string) (reads, writes []string) {
	var initFn, expFn, newFn *ast.FuncDecl
	for _, fl := range files {
		if strings.HasSuffix(fl.Path, ".pb.go") {
			continue
		}
		for _, d := range fl.F.Decls {
			fd, ok := d.(*ast.FuncDecl)
			if !ok || fd.Body == nil {
				continue
			}
			// prefer the package-level function over the AppModule method that wraps it
			better := func(cur *ast.FuncDecl) bool { return cur == nil || (cur.Recv != nil && fd.Recv == nil) }
			switch fd.Name.Name {
			case "InitGenesis":
				if better(initFn) {
					initFn = fd
				}
			case "ExportGenesis":
				if better(expFn) {
					expFn = fd
				}
			case "NewGenesisState":
				newFn = fd
			}
		}
	}
	rs, ws := map[string]bool{}, map[string]bool{}
	if initFn != nil {
		// the genesis parameter: the one whose type mentions GenesisState
		param := ""
		for _, p := range initFn.Type.Params.List {
			if strings.Contains(Nospace(p.Type), "GenesisState") && len(p.Names) > 0 {
				param = p.Names[0].Name
			}
		}
		ast.Inspect(initFn.Body, func(n ast.Node) bool {
			sel, ok := n.(*ast.SelectorExpr)
			if !ok {
				return true
			}
			if id, ok := sel.X.(*ast.Ident); ok && id.Name == param {
				f := strings.TrimPrefix(sel.Sel.Name, "Get")
				if isField(fields, sel.Sel.Name) {
					rs[sel.Sel.Name] = true
				} else if isField(fields, f) {
					rs[f] = true
				}
			}
			return true
		})
	}
	litKeys := func(body *ast.BlockStmt, only func(k string, v ast.Expr) bool) {
		ast.Inspect(body, func(n ast.Node) bool {
			cl, ok := n.(*ast.CompositeLit)
			if !ok || !strings.HasSuffix(Nospace(cl.Type), "GenesisState") {
				return true
			}
			for _, el := range cl.Elts {
				if kv, ok := el.(*ast.KeyValueExpr); ok {
					if id, ok := kv.Key.(*ast.Ident); ok && isField(fields, id.Name) && only(id.Name, kv.Value) {
						ws[id.Name] = true
					}
				}
			}
			return true
		})
	}
	if expFn != nil {
		litKeys(expFn.Body, func(string, ast.Expr) bool { return true })
		ast.Inspect(expFn.Body, func(n ast.Node) bool {
			switch x := n.(type) {
			case *ast.AssignStmt:
				for _, l := range x.Lhs {
					if sel, ok := l.(*ast.SelectorExpr); ok && isField(fields, sel.Sel.Name) {
						ws[sel.Sel.Name] = true
					}
				}
			case *ast.CallExpr:
				if strings.HasSuffix(Nospace(x.Fun), "NewGenesisState") && newFn != nil {
					// positional: parameter i of NewGenesisState -> the field it is stored in
					var params []string
					for _, p := range newFn.Type.Params.List {
						for _, nm := range p.Names {
							params = append(params, nm.Name)
						}
					}
					litKeys(newFn.Body, func(k string, v ast.Expr) bool {
						id, ok := v.(*ast.Ident)
						if !ok {
							return false
						}
						for i, p := range params {
							if p == id.Name && i < len(x.Args) {
								return Nospace(x.Args[i]) != "nil"
							}
						}
						return false
					})
				}
			}
			return true
		})
	}
	for k := range rs {
		reads = append(reads, k)
	}
	for k := range ws {
		writes = append(writes, k)
	}
	sort.Strings(reads)
	sort.Strings(writes)
	return
}

// ---------------------------------------------------------------- the two formulas

func genCfg(repo string) {
	rid := "RidUnknown"
	if fd := plainFunc(ParseDir(repo+"/x/oracle"), "InitGenesis"); fd != nil && fd.Body != nil {
		body := Nospace(fd.Body)
		// the keeper and genesis parameters may be renamed: names are wildcards, the formula is not
		param := ""
		for _, p := range fd.Type.Params.List {
			if strings.Contains(Nospace(p.Type), "GenesisState") && len(p.Names) > 0 {
				param = p.Names[0].Name
			}
		}
		d := regexp.QuoteMeta(param)
		re := regexp.MustCompile(`iflen\(` + d + `\.Rewards\)!=0\{\w+\.RewardsID\.Set\(ctx,` + d + `\.Rewards\[len\(` + d + `\.Rewards\)-1\]\.Id(\+1)?\)\}`)
		if m := re.FindStringSubmatch(body); m != nil && param != "" && strings.Count(body, "RewardsID.Set(") == 1 {
			if m[1] == "+1" {
				rid = "RidLastPlus1"
			} else {
				rid = "RidLast"
			}
		}
	}
	// tokenfactory: the function InitGenesis calls per genesis denom reads the bank metadata that x/bank's genesis
	// already restored BEFORE calling the insert function (which writes the default metadata) and writes it back AFTER.
	// Matched by structure; function, receiver and local names are wildcards (renames are harmless).
	keeps := false
	src := ""
	{
		tfFiles := ParseDir(repo + "/x/tokenfactory/keeper")
		tf := Funcs(tfFiles)
		genInsert := ""
		if fd := tf["InitGenesis"]; fd != nil && fd.Body != nil {
			if m := regexp.MustCompile(`for_,(\w+):=range\w+\.(?:GetFactoryDenoms\(\)|FactoryDenoms)\{(?:\w+\.)+(\w+)\(ctx,(\w+)\)\}`).FindStringSubmatch(stripComments(fd.Body)); m != nil && m[1] == m[3] {
				genInsert = m[2]
			}
		}
		if fd := tf[genInsert]; genInsert != "" && fd != nil && fd.Body != nil {
			src = Nospace(fd.Body)
			re := regexp.MustCompile(`(\w+),(\w+):=(\w+)\.bankKeeper\.GetDenomMetaData\(ctx,\w+\.Denom\)(\w+)\.(\w+)\(ctx,\w+,\w+\)if(\w+)\{(\w+)\.bankKeeper\.SetDenomMetaData\(ctx,(\w+)\)\}\}$`)
			if m := re.FindStringSubmatch(stripComments(fd.Body)); m != nil && m[3] == m[4] && m[3] == m[7] && m[2] == m[6] && strings.HasSuffix(m[1], m[8]) { // m[1] may carry the previous token (no whitespace)
				// the insert function must still be the one that writes the default metadata
				if ins := tf[m[5]]; ins != nil && ins.Body != nil &&
					regexp.MustCompile(`\w+\.bankKeeper\.SetDenomMetaData\(ctx,\w+\.DefaultBankMetadata\(\)\)`).MatchString(Nospace(ins.Body)) &&
					strings.Count(src, "SetDenomMetaData(") == 1 {
					keeps = true
				}
			}
		}
	}
	// asset.Pair: the JSON codec used for every pair in a genesis file copies the string unchanged
	pairID := false
	{
		un, ma, st := "", "", ""
		for _, fl := range ParseDir(repo + "/x/common/asset") {
			for _, d := range fl.F.Decls {
				fd, ok := d.(*ast.FuncDecl)
				if !ok || fd.Body == nil || fd.Recv == nil || !strings.Contains(Nospace(fd.Recv.List[0].Type), "Pair") {
					continue
				}
				switch fd.Name.Name {
				case "UnmarshalJSON":
					un = Nospace(fd.Body)
				case "MarshalJSON":
					ma = Nospace(fd.Body)
				case "String":
					st = Nospace(fd.Body)
				}
			}
		}
		pairID = un == "{varpairStringstringiferr:=json.Unmarshal(data,&pairString);err!=nil{returnerr}*pair=Pair(pairString)returnnil}" &&
			ma == "{returnjson.Marshal(pair.String())}" && st == "{returnstring(pair)}"
	}
	dgUpd, dgWrites := devgasWithdrawerRule(repo)
	epVal, epConds, epSwallow := epochsValidateRule(repo)
	epStart, epStartCond := epochsStartTimeRule(repo)
	fmt.Printf("Definition current_cfg : cfg := {| c_rid := %s; c_tf_keeps_bank_md := %s; c_pair_json_id := %s; c_dg_upd := %s; c_ep_val := %s; c_ep_swallow := %s; c_ep_start := %s |}.\n",
		rid, CoqBool(keeps), CoqBool(pairID), dgUpd, epVal, CoqBool(epSwallow), epStart)
	fmt.Printf("(* AddEpochInfo rewrites StartTime when: %s *)\n", strings.ReplaceAll(epStartCond, "*)", "* )"))
	fmt.Printf("(* EpochInfo.Validate rejects when: %s *)\n", strings.ReplaceAll(strings.Join(epConds, " | "), "*)", "* )"))
	fmt.Printf("(* writes to FeeShare.WithdrawerAddress in x/devgas/v1/{keeper,types}: %s *)\n", strings.ReplaceAll(strings.Join(dgWrites, " | "), "*)", "* )"))
	fmt.Printf("(* unsafeGenesisInsertDenom: %s *)\n", strings.ReplaceAll(src, "*)", "* )"))
}

// epochsValidateRule: the SET of conditions under which EpochInfo.Validate returns an error (if statements and
// tagless switch cases, receiver renamed to e, order irrelevant), and whether x/epochs' AppModule.InitGenesis
// discards the error of InitGenesis (blank assignment / expression statement).
func epochsValidateRule(repo string) (string, []string, bool) {
	var conds []string
	for _, fl := range ParseDir(repo + "/x/epochs/types") {
		for _, d := range fl.F.Decls {
			fd, ok := d.(*ast.FuncDecl)
			if !ok || fd.Body == nil || fd.Recv == nil || fd.Name.Name != "Validate" || !strings.HasSuffix(Nospace(fd.Recv.List[0].Type), "EpochInfo") {
				continue
			}
			recv := "e"
			if len(fd.Recv.List[0].Names) > 0 {
				recv = fd.Recv.List[0].Names[0].Name
			}
			norm := func(e ast.Expr) string {
				t := regexp.MustCompile(`\b`+regexp.QuoteMeta(recv)+`\.`).ReplaceAllString(Src(e), "e.")
				t = strings.ReplaceAll(t, " ", "")
				t = strings.ReplaceAll(t, "len(e.Identifier)==0", `e.Identifier==""`)
				return t
			}
			returnsErr := func(b *ast.BlockStmt) bool {
				for _, st := range b.List {
					if r, ok := st.(*ast.ReturnStmt); ok && len(r.Results) == 1 && Nospace(r.Results[0]) != "nil" {
						return true
					}
				}
				return false
			}
			ast.Inspect(fd.Body, func(n ast.Node) bool {
				switch x := n.(type) {
				case *ast.IfStmt:
					if returnsErr(x.Body) {
						conds = append(conds, norm(x.Cond))
					}
				case *ast.SwitchStmt:
					if x.Tag == nil {
						for _, c := range x.Body.List {
							cc := c.(*ast.CaseClause)
							if returnsErr(&ast.BlockStmt{List: cc.Body}) {
								for _, e := range cc.List {
									conds = append(conds, norm(e))
								}
							}
						}
					}
				}
				return true
			})
		}
	}
	sort.Strings(conds)
	base := []string{`e.CurrentEpochStartHeight<0`, `e.Duration==0`, `e.Identifier==""`}
	pos := map[string]bool{"e.EpochCountingStarted&&e.CurrentEpochStartHeight==0": true, "e.CurrentEpochStartHeight==0&&e.EpochCountingStarted": true}
	rule := "EpValUnknown"
	switch {
	case strings.Join(conds, "|") == strings.Join(base, "|"):
		rule = "EpValNonneg"
	case len(conds) == 4:
		var rest []string
		extra := ""
		for _, c := range conds {
			if pos[c] {
				extra = c
			} else {
				rest = append(rest, c)
			}
		}
		if extra != "" && strings.Join(rest, "|") == strings.Join(base, "|") {
			rule = "EpValPositiveWhenStarted"
		}
	}
	swallow := false
	for _, fl := range ParseDir(repo + "/x/epochs") {
		for _, d := range fl.F.Decls {
			fd, ok := d.(*ast.FuncDecl)
			if !ok || fd.Body == nil || fd.Recv == nil || fd.Name.Name != "InitGenesis" {
				continue
			}
			isCall := func(e ast.Expr) bool {
				c, ok := e.(*ast.CallExpr)
				return ok && strings.HasSuffix(Nospace(c.Fun), "InitGenesis")
			}
			for _, st := range fd.Body.List {
				switch x := st.(type) {
				case *ast.ExprStmt:
					if isCall(x.X) {
						swallow = true
					}
				case *ast.AssignStmt:
					if len(x.Rhs) == 1 && isCall(x.Rhs[0]) {
						blank := true
						for _, l := range x.Lhs {
							if id, ok := l.(*ast.Ident); !ok || id.Name != "_" {
								blank = false
							}
						}
						swallow = blank
					}
				}
			}
		}
	}
	return rule, conds, swallow
}

// epochsStartTimeRule: the condition under which Keeper.AddEpochInfo (the import path) REWRITES the StartTime of an
// epoch with the block time (the if statement whose body assigns `<epoch>.StartTime = ctx.BlockTime()`; parameter
// renamed to e).  Only a zero time -> EpStZeroOnly; zero, or not counting and before the block time ->
// EpStZeroOrPastUnstarted; anything else -> EpStUnknown.
func epochsStartTimeRule(repo string) (string, string) {
	fd := Funcs(ParseDir(repo + "/x/epochs/keeper"))["AddEpochInfo"]
	if fd == nil || fd.Body == nil {
		return "EpStUnknown", "AddEpochInfo not found"
	}
	param := "epoch"
	for _, p := range fd.Type.Params.List {
		if strings.Contains(Nospace(p.Type), "EpochInfo") && len(p.Names) > 0 {
			param = p.Names[0].Name
		}
	}
	var conds []string
	writes := 0
	ast.Inspect(fd.Body, func(n ast.Node) bool {
		switch x := n.(type) {
		case *ast.AssignStmt:
			for _, l := range x.Lhs {
				if sel, ok := l.(*ast.SelectorExpr); ok && sel.Sel.Name == "StartTime" {
					writes++
				}
			}
		case *ast.IfStmt:
			for _, st := range x.Body.List {
				if as, ok := st.(*ast.AssignStmt); ok && len(as.Lhs) == 1 && len(as.Rhs) == 1 {
					if sel, ok := as.Lhs[0].(*ast.SelectorExpr); ok && sel.Sel.Name == "StartTime" && Nospace(as.Rhs[0]) == "ctx.BlockTime()" {
						c := regexp.MustCompile(`\b`+regexp.QuoteMeta(param)+`\.`).ReplaceAllString(Src(x.Cond), "e.")
						conds = append(conds, strings.ReplaceAll(c, " ", ""))
					}
				}
			}
		}
		return true
	})
	if len(conds) != 1 || writes != 1 {
		return "EpStUnknown", strings.Join(conds, " | ")
	}
	switch conds[0] {
	case "e.StartTime.Equal(time.Time{})", "e.StartTime.IsZero()", "(e.StartTime.Equal(time.Time{}))":
		return "EpStZeroOnly", conds[0]
	case "e.StartTime.Equal(time.Time{})||(!e.EpochCountingStarted&&e.StartTime.Before(ctx.BlockTime()))",
		"e.StartTime.Equal(time.Time{})||!e.EpochCountingStarted&&e.StartTime.Before(ctx.BlockTime())":
		return "EpStZeroOrPastUnstarted", conds[0]
	}
	return "EpStUnknown", conds[0]
}

// devgasWithdrawerRule: every place the x/devgas code writes the WithdrawerAddress of a FeeShare (assignments
// `x.WithdrawerAddress = e`, composite literals `FeeShare{…, WithdrawerAddress: e}`), classified by the SHAPE of e:
// `<expr>.String()` (a re-encoded address) or the literal "".  Only re-encoded addresses -> DgUpdKeep; re-encoded
// addresses plus an assignment of "" inside UpdateFeeShare -> DgUpdRemoveIfDeployer (what its doc comment describes);
// anything else -> DgUpdUnknown.  Local names, helper extraction and statement order do not matter.
func devgasWithdrawerRule(repo string) (string, []string) {
	var writes []string
	encoded, empty, emptyInUpdate, other := 0, 0, 0, 0
	classify := func(fn string, e ast.Expr) {
		txt := Nospace(e)
		writes = append(writes, fn+":"+txt)
		if c, ok := e.(*ast.CallExpr); ok && len(c.Args) == 0 {
			if sel, ok := c.Fun.(*ast.SelectorExpr); ok && sel.Sel.Name == "String" {
				encoded++
				return
			}
		}
		if lit, ok := e.(*ast.BasicLit); ok && lit.Kind == token.STRING && (lit.Value == `""` || lit.Value == "``") {
			empty++
			if fn == "UpdateFeeShare" {
				emptyInUpdate++
			}
			return
		}
		other++
	}
	for _, dir := range []string{"x/devgas/v1/keeper", "x/devgas/v1/types", "x/devgas/v1"} {
		for _, fl := range ParseDir(repo + "/" + dir) {
			if strings.HasSuffix(fl.Path, ".pb.go") || strings.HasSuffix(fl.Path, ".pb.gw.go") {
				continue
			}
			for _, d := range fl.F.Decls {
				fd, ok := d.(*ast.FuncDecl)
				if !ok || fd.Body == nil {
					continue
				}
				ast.Inspect(fd.Body, func(n ast.Node) bool {
					switch x := n.(type) {
					case *ast.AssignStmt:
						for i, l := range x.Lhs {
							if sel, ok := l.(*ast.SelectorExpr); ok && sel.Sel.Name == "WithdrawerAddress" && i < len(x.Rhs) {
								// assignments to a MESSAGE field (msg.WithdrawerAddress = …) are not registry writes
								if id, ok := sel.X.(*ast.Ident); ok && (id.Name == "msg" || id.Name == "req") {
									continue
								}
								classify(fd.Name.Name, x.Rhs[i])
							}
						}
					case *ast.CompositeLit:
						tn := Nospace(x.Type)
						if i := strings.LastIndex(tn, "."); i >= 0 {
							tn = tn[i+1:]
						}
						if tn != "FeeShare" { // not the Msg…FeeShare messages
							return true
						}
						for _, el := range x.Elts {
							if kv, ok := el.(*ast.KeyValueExpr); ok {
								if id, ok := kv.Key.(*ast.Ident); ok && id.Name == "WithdrawerAddress" {
									classify(fd.Name.Name, kv.Value)
								}
							}
						}
					}
					return true
				})
			}
		}
	}
	sort.Strings(writes)
	switch {
	case other > 0 || encoded == 0:
		return "DgUpdUnknown", writes
	case empty == 0:
		return "DgUpdKeep", writes
	case empty == emptyInUpdate:
		return "DgUpdRemoveIfDeployer", writes
	}
	return "DgUpdUnknown", writes
}

// stripComments: whitespace-free source of a node without comments (go/printer keeps comments only when it is
// given the file's comment list, which Src does not pass — so this is Nospace; kept as a name for the intent)
func stripComments(n ast.Node) string { return Nospace(n) }

// plainFunc: the package-level function (no receiver) of that name
func plainFunc(files []File, name string) *ast.FuncDecl {
	for _, fl := range files {
		for _, d := range fl.F.Decls {
			if fd, ok := d.(*ast.FuncDecl); ok && fd.Recv == nil && fd.Name.Name == name {
				return fd
			}
		}
	}
	return nil
}
