package c20

// C20 — projections of a NibiruApp onto the shapes of the Coq model (coq/C20/Model.v):
// per custom module the persistent collections (maps as key-sorted association lists),
// the parsed ExportGenesis sections, raw KV digests per (store, namespace), auth accounts
// as the evm genesis code sees them, and sampled queries.
//
// Canonicalisation: every key (address bytes, string, hash) becomes its RANK among all keys of
// the same kind seen in the case (byte order = store iteration order); every opaque value
// (params, vote payloads, bytecode, …) becomes a small id in first-appearance order.

import (
	"bytes"
	"crypto/sha256"
	"encoding/hex"
	"encoding/json"
	"fmt"
	"math/big"
	"sort"
	"strconv"
	"strings"
	"time"

	"github.com/NibiruChain/collections"
	"github.com/cosmos/cosmos-sdk/codec"
	sdk "github.com/cosmos/cosmos-sdk/types"
	authtypes "github.com/cosmos/cosmos-sdk/x/auth/types"
	"github.com/cosmos/gogoproto/proto"
	gethcommon "github.com/ethereum/go-ethereum/common"
	"github.com/ethereum/go-ethereum/crypto"

	. "verifharness/hx"

	"github.com/NibiruChain/nibiru/v2/app"
	"github.com/NibiruChain/nibiru/v2/eth"
	"github.com/NibiruChain/nibiru/v2/x/common/asset"
	devgastypes "github.com/NibiruChain/nibiru/v2/x/devgas/v1/types"
	epochstypes "github.com/NibiruChain/nibiru/v2/x/epochs/types"
	"github.com/NibiruChain/nibiru/v2/x/evm"
	"github.com/NibiruChain/nibiru/v2/x/evm/embeds"
	inflationtypes "github.com/NibiruChain/nibiru/v2/x/inflation/types"
	oracletypes "github.com/NibiruChain/nibiru/v2/x/oracle/types"
	sudotypes "github.com/NibiruChain/nibiru/v2/x/sudo/types"
	tftypes "github.com/NibiruChain/nibiru/v2/x/tokenfactory/types"
)

// ---------------------------------------------------------------- canonical ids

type kref struct {
	raw  []byte
	rank int
}

func (k *kref) MarshalJSON() ([]byte, error) { return []byte(strconv.Itoa(k.rank)), nil }

type reg struct {
	keys map[string]map[string]*kref // kind -> raw -> ref
	vals map[string]int
	cdc  codec.Codec
	dgp  map[int]devgastypes.ModuleParams // every x/devgas params value seen (by id)
}

func newReg(cdc codec.Codec) *reg {
	return &reg{keys: map[string]map[string]*kref{}, vals: map[string]int{}, cdc: cdc, dgp: map[int]devgastypes.ModuleParams{}}
}

// DGP: id of an x/devgas params value (remembered for the validity / sanitising tables)
func (r *reg) DGP(p devgastypes.ModuleParams) int {
	id := r.P(&p)
	r.dgp[id] = p
	return id
}

// K: key of a kind ("a" address bytes, "s" string, "h" 32-byte hash / id bytes)
func (r *reg) K(kind string, raw []byte) *kref {
	m := r.keys[kind]
	if m == nil {
		m = map[string]*kref{}
		r.keys[kind] = m
	}
	if k, ok := m[string(raw)]; ok {
		return k
	}
	k := &kref{raw: append([]byte{}, raw...)}
	m[string(raw)] = k
	return k
}
func (r *reg) A(b []byte) *kref { return r.K("a", b) }
func (r *reg) S(s string) *kref { return r.K("s", []byte(s)) }
func (r *reg) H(b []byte) *kref { return r.K("h", b) }

// Val: validator-keyed collections use ValAddressKeyEncoder = the bech32 STRING, so that is the order
func (r *reg) Val(v sdk.ValAddress) *kref { return r.K("v", []byte(v.String())) }

// V: opaque value id
func (r *reg) V(s string) int {
	if v, ok := r.vals[s]; ok {
		return v
	}
	r.vals[s] = len(r.vals) + 1
	return r.vals[s]
}
func (r *reg) P(m proto.Message) int { return r.V(string(r.cdc.MustMarshalJSON(m))) }

func (r *reg) finish() {
	for _, m := range r.keys {
		var ks []*kref
		for _, k := range m {
			ks = append(ks, k)
		}
		sort.Slice(ks, func(i, j int) bool { return bytes.Compare(ks[i].raw, ks[j].raw) < 0 })
		for i, k := range ks {
			k.rank = i
		}
	}
}

type J = []interface{}

func valBytes(bech string) []byte {
	v, err := sdk.ValAddressFromBech32(bech)
	if err != nil {
		return []byte("bad:" + bech)
	}
	return v
}

func accBytes(bech string) []byte {
	v, err := sdk.AccAddressFromBech32(bech)
	if err != nil {
		return []byte("bad:" + bech)
	}
	return v
}

// ---------------------------------------------------------------- state dump

type rawKV struct{ k, v []byte }

func rawStore(ctx sdk.Context, a *app.NibiruApp, name string) []rawKV {
	it := ctx.KVStore(a.UnsafeFindStoreKey(name)).Iterator(nil, nil)
	defer it.Close()
	var out []rawKV
	for ; it.Valid(); it.Next() {
		out = append(out, rawKV{append([]byte{}, it.Key()...), append([]byte{}, it.Value()...)})
	}
	return out
}

func nsOf(kvs []rawKV, ns byte) []rawKV {
	var out []rawKV
	for _, kv := range kvs {
		if len(kv.k) > 0 && kv.k[0] == ns {
			out = append(out, rawKV{kv.k[1:], kv.v})
		}
	}
	return out
}

// split a null-terminated string off the front of b
func cstr(b []byte) (string, []byte) {
	for i, c := range b {
		if c == 0 {
			return string(b[:i]), b[i+1:]
		}
	}
	return string(b), nil
}

var c20Stores = []string{"evm", "oracle", "inflation", "epochs", "sudo", "tokenfactory", "devgas"}

// digests of every (store, namespace byte): count and hash of the raw pairs
func kvDigests(ctx sdk.Context, a *app.NibiruApp, r *reg) []J {
	var out []J
	for si, name := range c20Stores {
		kvs := rawStore(ctx, a, name)
		byNs := map[byte][]rawKV{}
		var order []int
		for _, kv := range kvs {
			ns := byte(255)
			if len(kv.k) > 0 {
				ns = kv.k[0]
			}
			if _, ok := byNs[ns]; !ok {
				order = append(order, int(ns))
			}
			byNs[ns] = append(byNs[ns], kv)
		}
		sort.Ints(order)
		for _, ns := range order {
			h := sha256.New()
			for _, kv := range byNs[byte(ns)] {
				fmt.Fprintf(h, "%d:%x=%d:%x;", len(kv.k), kv.k, len(kv.v), kv.v)
			}
			out = append(out, J{si, ns, len(byNs[byte(ns)]), r.V("kv:" + hex.EncodeToString(h.Sum(nil)))})
		}
	}
	return out
}

func optU64(kvs []rawKV) J {
	if len(kvs) == 0 {
		return J{}
	}
	return J{sdk.BigEndianToUint64(kvs[0].v)}
}

func epochInfo(e epochstypes.EpochInfo) J {
	started := 0
	if e.EpochCountingStarted {
		started = 1
	}
	return J{e.StartTime.UnixMilli(), e.Duration.Milliseconds(), e.CurrentEpoch, e.CurrentEpochStartTime.UnixMilli(), started, e.CurrentEpochStartHeight}
}

func (r *reg) pairs(ps []asset.Pair) J {
	out := J{}
	for _, p := range ps {
		out = append(out, r.S(p.String()))
	}
	return out
}

func dumpState(ctx sdk.Context, a *app.NibiruApp, r *reg) map[string]interface{} {
	st := map[string]interface{}{}
	// ---- sudo
	{
		s, err := a.SudoKeeper.Sudoers.Get(ctx)
		cs := J{}
		for _, c := range s.Contracts {
			cs = append(cs, r.V("str:"+c))
		}
		set := 1
		if err != nil {
			set = 0
		}
		st["sudo"] = map[string]interface{}{"set": set, "root": r.V("str:" + s.Root), "contracts": cs}
	}
	// ---- inflation
	{
		raw := rawStore(ctx, a, "inflation")
		p, _ := a.InflationKeeper.Params.Get(ctx)
		st["infl"] = map[string]interface{}{"params": r.P(&p), "period": optU64(nsOf(raw, 0)), "skipped": optU64(nsOf(raw, 1))}
	}
	// ---- epochs
	{
		out := J{}
		for _, kv := range a.EpochsKeeper.Epochs.Iterate(ctx, collections.Range[string]{}).KeyValues() {
			out = append(out, J{r.S(kv.Key), r.S(kv.Value.Identifier), epochInfo(kv.Value)})
		}
		st["epochs"] = out
	}
	// ---- oracle
	{
		k := a.OracleKeeper
		raw := rawStore(ctx, a, "oracle")
		p, _ := k.Params.Get(ctx)
		o := map[string]interface{}{"params": r.P(&p), "whitelist": r.pairs(p.Whitelist)}
		rates := J{}
		for _, kv := range k.ExchangeRates.Iterate(ctx, collections.Range[asset.Pair]{}).KeyValues() {
			rates = append(rates, J{r.S(kv.Key.String()), r.V("dec:" + kv.Value.ExchangeRate.String()), kv.Value.CreatedBlock, kv.Value.BlockTimestampMs})
		}
		o["rates"] = rates
		fd := J{}
		for _, kv := range k.FeederDelegations.Iterate(ctx, collections.Range[sdk.ValAddress]{}).KeyValues() {
			fd = append(fd, J{r.Val(kv.Key), r.A(kv.Value)})
		}
		o["feeders"] = fd
		mc := J{}
		for _, kv := range k.MissCounters.Iterate(ctx, collections.Range[sdk.ValAddress]{}).KeyValues() {
			mc = append(mc, J{r.Val(kv.Key), kv.Value})
		}
		o["miss"] = mc
		pv := J{}
		for _, kv := range k.Prevotes.Iterate(ctx, collections.Range[sdk.ValAddress]{}).KeyValues() {
			v := kv.Value
			pv = append(pv, J{r.Val(kv.Key), r.Val(valBytes(v.Voter)), r.P(&v)})
		}
		o["prevotes"] = pv
		vs := J{}
		for _, kv := range k.Votes.Iterate(ctx, collections.Range[sdk.ValAddress]{}).KeyValues() {
			v := kv.Value
			vs = append(vs, J{r.Val(kv.Key), r.Val(valBytes(v.Voter)), r.P(&v)})
		}
		o["votes"] = vs
		o["pairs"] = r.pairs(k.WhitelistedPairs.Iterate(ctx, collections.Range[asset.Pair]{}).Keys())
		rw := J{}
		for _, kv := range k.Rewards.Iterate(ctx, collections.Range[uint64]{}).KeyValues() {
			v := kv.Value
			rw = append(rw, J{kv.Key, v.Id, r.P(&v)})
		}
		o["rewards"] = rw
		o["rewards_id"] = optU64(nsOf(raw, 9))
		sn := J{}
		for _, kv := range k.PriceSnapshots.Iterate(ctx, collections.PairRange[asset.Pair, time.Time]{}).KeyValues() {
			sn = append(sn, J{r.S(kv.Key.K1().String()), kv.Key.K2().UnixMilli(), r.S(kv.Value.Pair.String()), r.V("dec:" + kv.Value.Price.String()), kv.Value.TimestampMs})
		}
		o["snaps"] = sn
		st["oracle"] = o
	}
	// ---- tokenfactory
	{
		raw := rawStore(ctx, a, "tokenfactory")
		p, _ := a.TokenFactoryKeeper.Store.ModuleParams.Get(ctx)
		tf := map[string]interface{}{"params": r.P(&p)}
		ds := J{}
		it := a.TokenFactoryKeeper.Store.Denoms.Iterate(ctx, collections.Range[string]{})
		for ; it.Valid(); it.Next() {
			v := it.Value()
			ds = append(ds, J{r.S(it.Key()), r.S(v.Creator), r.V("str:" + v.Subdenom)})
		}
		it.Close()
		tf["denoms"] = ds
		cr := J{}
		for _, kv := range nsOf(raw, byte(tftypes.KeyPrefixCreator)) {
			s, _ := cstr(kv.k)
			cr = append(cr, r.S(s))
		}
		tf["creators"] = cr
		ad := J{}
		for _, kv := range nsOf(raw, byte(tftypes.KeyPrefixDenomAdmin)) {
			s, _ := cstr(kv.k)
			var m tftypes.DenomAuthorityMetadata
			r.cdc.MustUnmarshal(kv.v, &m)
			ad = append(ad, J{r.S(s), r.V("str:" + m.Admin)})
		}
		tf["admins"] = ad
		ix := J{}
		for _, kv := range nsOf(raw, byte(tftypes.KeyPrefixCreatorIndexer)) {
			c, rest := cstr(kv.k)
			d, _ := cstr(rest)
			ix = append(ix, J{r.S(c), r.S(d)})
		}
		tf["idx"] = ix
		st["tf"] = tf
	}
	// ---- devgas
	{
		raw := rawStore(ctx, a, "devgas")
		p, _ := a.DevGasKeeper.ModuleParams.Get(ctx)
		dg := map[string]interface{}{"params": r.DGP(p)}
		sh := J{}
		it := a.DevGasKeeper.DevGasStore.Iterate(ctx, collections.Range[string]{})
		for ; it.Valid(); it.Next() {
			v := it.Value()
			sh = append(sh, J{r.S(it.Key()), r.S(v.DeployerAddress), r.S(v.WithdrawerAddress), r.P(&v)})
		}
		it.Close()
		dg["shares"] = sh
		for name, ns := range map[string]byte{"idx_dep": byte(devgastypes.KeyPrefixDeployer), "idx_wd": byte(devgastypes.KeyPrefixWithdrawer)} {
			ix := J{}
			for _, kv := range nsOf(raw, ns) {
				i, rest := cstr(kv.k)
				pk, _ := cstr(rest)
				ix = append(ix, J{r.S(i), r.S(pk)})
			}
			dg[name] = ix
		}
		st["devgas"] = dg
	}
	// ---- evm
	{
		raw := rawStore(ctx, a, "evm")
		p := a.EvmKeeper.GetParams(ctx)
		ev := map[string]interface{}{"params": r.P(&p)}
		code := J{}
		for _, kv := range nsOf(raw, byte(evm.KeyPrefixAccCodes)) {
			code = append(code, J{r.H(kv.k), r.V("code:" + hex.EncodeToString(kv.v))})
		}
		ev["code"] = code
		var stor J = J{}
		var cur []byte
		var slots J
		flush := func() {
			if cur != nil {
				stor = append(stor, J{r.A(cur), slots})
			}
		}
		for _, kv := range nsOf(raw, byte(evm.KeyPrefixAccState)) {
			if len(kv.k) != 52 {
				stor = append(stor, J{r.A(kv.k), J{}})
				continue
			}
			if cur == nil || !bytes.Equal(cur, kv.k[:20]) {
				flush()
				cur, slots = append([]byte{}, kv.k[:20]...), J{}
			}
			slots = append(slots, J{r.H(kv.k[20:]), r.V("word:" + gethcommon.BytesToHash(kv.v).Hex())})
		}
		flush()
		ev["storage"] = stor
		ft := J{}
		it := a.EvmKeeper.FunTokens.Iterate(ctx, collections.Range[[]byte]{})
		for ; it.Valid(); it.Next() {
			v := it.Value()
			ft = append(ft, J{r.H(it.Key()), r.A(v.Erc20Addr.Address.Bytes()), r.S(v.BankDenom), r.P(&v)})
		}
		it.Close()
		ev["funtokens"] = ft
		ix := J{}
		for _, kv := range nsOf(raw, byte(evm.KeyPrefixFunTokenIdxErc20)) {
			if len(kv.k) >= 20 {
				ix = append(ix, J{r.A(kv.k[:20]), r.H(kv.k[20:])})
			}
		}
		ev["idx_erc20"] = ix
		ix2 := J{}
		for _, kv := range nsOf(raw, byte(evm.KeyPrefixFunTokenIdxBankDenom)) {
			d, rest := cstr(kv.k)
			ix2 = append(ix2, J{r.S(d), r.H(rest)})
		}
		ev["idx_denom"] = ix2
		st["evm"] = ev
	}
	return st
}

// auth accounts as evm genesis sees them, in GetAllAccounts order: (address, is EthAccountI, code hash)
func dumpEnv(ctx sdk.Context, a *app.NibiruApp, r *reg) J {
	out := J{}
	for _, acc := range a.AccountKeeper.GetAllAccounts(ctx) {
		isEth := 0
		var ch *kref = r.H(evm.EmptyCodeHash)
		if e, ok := acc.(eth.EthAccountI); ok {
			isEth = 1
			ch = r.H(e.GetCodeHash().Bytes())
		}
		out = append(out, J{r.A(acc.GetAddress()), isEth, ch})
	}
	return out
}

// bank metadata of token-factory denoms
func dumpTfBankMd(ctx sdk.Context, a *app.NibiruApp, r *reg) J {
	out := J{}
	it := a.TokenFactoryKeeper.Store.Denoms.Iterate(ctx, collections.Range[string]{})
	defer it.Close()
	for ; it.Valid(); it.Next() {
		md, ok := a.BankKeeper.GetDenomMetaData(ctx, it.Key())
		id := 0
		if ok {
			id = r.P(&md)
		}
		out = append(out, J{r.S(it.Key()), id})
	}
	return out
}

// ---------------------------------------------------------------- export sections

func parseExport(appState []byte, cdc codec.Codec, r *reg) (map[string]interface{}, map[string]string) {
	var g map[string]json.RawMessage
	if err := json.Unmarshal(appState, &g); err != nil {
		panic(err)
	}
	out := map[string]interface{}{}
	canon := map[string]string{}
	for _, m := range []string{"sudo", "inflation", "epochs", "oracle", "tokenfactory", "devgas", "evm"} {
		var v interface{}
		_ = json.Unmarshal(g[m], &v)
		bz, _ := json.Marshal(v)
		canon[m] = string(bz)
	}
	{
		var s sudotypes.GenesisState
		cdc.MustUnmarshalJSON(g["sudo"], &s)
		cs := J{}
		for _, c := range s.Sudoers.Contracts {
			cs = append(cs, r.V("str:"+c))
		}
		out["sudo"] = map[string]interface{}{"root": r.V("str:" + s.Sudoers.Root), "contracts": cs}
	}
	{
		var s inflationtypes.GenesisState
		cdc.MustUnmarshalJSON(g["inflation"], &s)
		out["infl"] = map[string]interface{}{"params": r.P(&s.Params), "period": s.Period, "skipped": s.SkippedEpochs}
	}
	{
		var s epochstypes.GenesisState
		cdc.MustUnmarshalJSON(g["epochs"], &s)
		es := J{}
		for _, e := range s.Epochs {
			es = append(es, J{r.S(e.Identifier), epochInfo(e)})
		}
		out["epochs"] = es
	}
	{
		var s oracletypes.GenesisState
		cdc.MustUnmarshalJSON(g["oracle"], &s)
		o := map[string]interface{}{"params": r.P(&s.Params), "whitelist": r.pairs(s.Params.Whitelist), "pairs": r.pairs(s.Pairs)}
		rates := J{}
		for _, e := range s.ExchangeRates {
			rates = append(rates, J{r.S(e.Pair.String()), r.V("dec:" + e.ExchangeRate.String())})
		}
		o["rates"] = rates
		fd := J{}
		for _, d := range s.FeederDelegations {
			fd = append(fd, J{r.Val(valBytes(d.ValidatorAddress)), r.A(accBytes(d.FeederAddress))})
		}
		o["feeders"] = fd
		mc := J{}
		for _, m := range s.MissCounters {
			mc = append(mc, J{r.Val(valBytes(m.ValidatorAddress)), m.MissCounter})
		}
		o["miss"] = mc
		pv := J{}
		for _, v := range s.AggregateExchangeRatePrevotes {
			v := v
			pv = append(pv, J{r.Val(valBytes(v.Voter)), r.P(&v)})
		}
		o["prevotes"] = pv
		vs := J{}
		for _, v := range s.AggregateExchangeRateVotes {
			v := v
			vs = append(vs, J{r.Val(valBytes(v.Voter)), r.P(&v)})
		}
		o["votes"] = vs
		rw := J{}
		for _, v := range s.Rewards {
			v := v
			rw = append(rw, J{v.Id, r.P(&v)})
		}
		o["rewards"] = rw
		out["oracle"] = o
	}
	{
		var s tftypes.GenesisState
		cdc.MustUnmarshalJSON(g["tokenfactory"], &s)
		ds := J{}
		for _, d := range s.FactoryDenoms {
			ds = append(ds, J{r.S(d.Denom), r.V("str:" + d.AuthorityMetadata.Admin)})
		}
		out["tf"] = map[string]interface{}{"params": r.P(&s.Params), "denoms": ds}
	}
	{
		var s devgastypes.GenesisState
		cdc.MustUnmarshalJSON(g["devgas"], &s)
		sh := J{}
		for _, v := range s.FeeShare {
			v := v
			sh = append(sh, J{r.S(v.ContractAddress), r.S(v.DeployerAddress), r.S(v.WithdrawerAddress), r.P(&v)})
		}
		out["devgas"] = map[string]interface{}{"params": r.DGP(s.Params), "shares": sh}
	}
	{
		var s evm.GenesisState
		cdc.MustUnmarshalJSON(g["evm"], &s)
		accs := J{}
		for _, acc := range s.Accounts {
			code := gethcommon.Hex2Bytes(acc.Code)
			slots := J{}
			for _, st := range acc.Storage {
				slots = append(slots, J{r.H(gethcommon.HexToHash(st.Key).Bytes()), r.V("word:" + gethcommon.HexToHash(st.Value).Hex())})
			}
			accs = append(accs, J{r.A(gethcommon.HexToAddress(acc.Address).Bytes()), r.V("code:" + hex.EncodeToString(code)), r.H(crypto.Keccak256(code)), slots})
		}
		ft := J{}
		for _, f := range s.FuntokenMappings {
			f := f
			ft = append(ft, J{r.H(f.ID()), r.A(f.Erc20Addr.Address.Bytes()), r.S(f.BankDenom), r.P(&f)})
		}
		out["evm"] = map[string]interface{}{"params": r.P(&s.Params), "accounts": accs, "funtokens": ft}
	}
	return out, canon
}

// tables of the pure functions the genesis code applies to exported values
func tables(e1, e2 map[string]interface{}, s1, s2 map[string]interface{}, r *reg) map[string]interface{} {
	// token-factory: denom string -> (creator, subdenom, default bank metadata)
	tfp := J{}
	seen := map[string]bool{}
	for _, m := range r.keys["s"] {
		_ = m
	}
	var denoms []string
	for raw := range r.keys["s"] {
		denoms = append(denoms, raw)
	}
	sort.Strings(denoms)
	for _, d := range denoms {
		if seen[d] {
			continue
		}
		seen[d] = true
		tfd, err := tftypes.DenomStr(d).ToStruct()
		if err != nil {
			continue
		}
		md := tfd.DefaultBankMetadata()
		tfp = append(tfp, J{r.S(d), r.S(tfd.Creator), r.V("str:" + tfd.Subdenom), r.P(&md)})
	}
	// asset.Pair JSON codec applied to every string that is a valid pair (what a genesis file decodes it to)
	pj := J{}
	for _, d := range denoms {
		pr := asset.Pair(d)
		if pr.Validate() != nil {
			continue
		}
		bz, err := json.Marshal(pr)
		var back asset.Pair
		if err == nil {
			err = json.Unmarshal(bz, &back)
		}
		if err != nil {
			back = "<json error>"
		}
		pj = append(pj, J{r.S(d), r.S(back.String())})
	}
	// bech32 account addresses among the strings: which parse (sdk.AccAddressFromBech32; "" does not), and the
	// canonical string their bytes are re-encoded to (what the devgas handlers store)
	okSet := map[string]bool{}
	canon := J{}
	for _, d := range denoms {
		a, err := sdk.AccAddressFromBech32(d)
		if err != nil {
			continue
		}
		okSet[d] = true
		okSet[a.String()] = true
		canon = append(canon, J{r.S(d), r.S(a.String())})
	}
	var oks []string
	for d := range okSet {
		oks = append(oks, d)
	}
	sort.Strings(oks)
	addrOk := J{}
	for _, d := range oks {
		addrOk = append(addrOk, r.S(d))
	}
	// x/devgas params: Validate passes, EnableFeeShare, Sanitize
	var pids []int
	for id := range r.dgp {
		pids = append(pids, id)
	}
	sort.Ints(pids)
	dgp := J{}
	for _, id := range pids {
		p := r.dgp[id]
		san := p.Sanitize()
		dgp = append(dgp, J{id, b01(p.Validate() == nil), b01(p.EnableFeeShare), r.P(&san)})
	}
	return map[string]interface{}{"tfparse": tfp, "empty_code": r.V("code:"), "pairjson": pj, "addr_ok": addrOk, "canon": canon, "dgparams": dgp}
}

// ---------------------------------------------------------------- sampled queries

type queryPlan struct {
	addrs  []sdk.AccAddress
	stores []gethcommon.Address
	erc20s []gethcommon.Address
	holder gethcommon.Address
}

func runQueries(ctx sdk.Context, a *app.NibiruApp, r *reg, q queryPlan) J {
	out := J{}
	for _, ad := range q.addrs {
		out = append(out, r.V("bal:"+a.BankKeeper.GetAllBalances(ctx, ad).String()))
		seq := uint64(0)
		if acc := a.AccountKeeper.GetAccount(ctx, ad); acc != nil {
			seq = acc.GetSequence()
		}
		out = append(out, r.V(fmt.Sprintf("seq:%d", seq)))
	}
	call := func(to gethcommon.Address, input []byte) string {
		args, _ := json.Marshal(map[string]interface{}{"from": q.holder.Hex(), "to": to.Hex(), "data": "0x" + hex.EncodeToString(input)})
		var res string
		p := Recover(func() {
			resp, err := a.EvmKeeper.EthCall(ctx, &evm.EthCallRequest{Args: args, GasCap: 2_000_000})
			if err != nil {
				res = "err"
				return
			}
			res = "ret:" + hex.EncodeToString(resp.Ret) + "/" + resp.VmError
		})
		if p != "" {
			res = "panic"
		}
		return res
	}
	for _, s := range q.stores {
		for slot := int64(0); slot < 4; slot++ {
			out = append(out, r.V(call(s, append(word(3), word(slot)...))))
		}
		cq := "err"
		if p := Recover(func() {
			if resp, err := a.EvmKeeper.Code(ctx, &evm.QueryCodeRequest{Address: s.Hex()}); err == nil {
				cq = hex.EncodeToString(resp.Code)
			}
		}); p != "" {
			cq = "panic" // e.g. an imported account whose code hash has no bytecode
		}
		out = append(out, r.V("codeq:"+cq))
		sq := "codeless" // eth_getStorageAt of an account without bytecode: on the exception list
		if cq == "" || cq == "err" || cq == "panic" {
			out = append(out, r.V("storq:"+sq))
			continue
		}
		if p := Recover(func() {
			if resp, err := a.EvmKeeper.Storage(ctx, &evm.QueryStorageRequest{Address: s.Hex(), Key: gethcommon.BigToHash(big.NewInt(1)).Hex()}); err == nil {
				sq = resp.Value
			}
		}); p != "" {
			sq = "panic"
		}
		out = append(out, r.V("storq:"+sq))
	}
	for _, e := range q.erc20s {
		in, _ := erc20ABI.Pack("balanceOf", q.holder)
		out = append(out, r.V(call(e, in)))
		in, _ = erc20ABI.Pack("name")
		out = append(out, r.V(call(e, in)))
		in, _ = erc20ABI.Pack("totalSupply")
		out = append(out, r.V(call(e, in)))
	}
	return out
}

var erc20ABI = embeds.SmartContract_ERC20MinterWithMetadataUpdates.ABI
var _ = authtypes.ModuleName

func rangeU64() collections.Range[uint64] { return collections.Range[uint64]{} }

// stringClasses: which collections hold a string that is not all lower-case (for the input histogram only)
func stringClasses(ctx sdk.Context, a *app.NibiruApp) []string {
	mixed := func(s string) bool { return s != strings.ToLower(s) }
	out := []string{}
	add := func(name string, hit bool) {
		if hit {
			out = append(out, name)
		}
	}
	hit := false
	for _, p := range a.OracleKeeper.WhitelistedPairs.Iterate(ctx, collections.Range[asset.Pair]{}).Keys() {
		hit = hit || mixed(p.String())
	}
	add("oracle-pair-whitelisted", hit)
	hit = false
	for _, p := range a.OracleKeeper.ExchangeRates.Iterate(ctx, collections.Range[asset.Pair]{}).Keys() {
		hit = hit || mixed(p.String())
	}
	add("oracle-pair-priced", hit)
	hit = false
	for _, v := range a.OracleKeeper.Votes.Iterate(ctx, collections.Range[sdk.ValAddress]{}).Values() {
		for _, t := range v.ExchangeRateTuples {
			hit = hit || mixed(t.Pair.String())
		}
	}
	add("oracle-pair-in-pending-vote", hit)
	hit = false
	it := a.TokenFactoryKeeper.Store.Denoms.Iterate(ctx, collections.Range[string]{})
	for ; it.Valid(); it.Next() {
		hit = hit || mixed(it.Value().Subdenom)
	}
	it.Close()
	add("tf-subdenom", hit)
	hit = false
	it2 := a.EvmKeeper.FunTokens.Iterate(ctx, collections.Range[[]byte]{})
	for ; it2.Valid(); it2.Next() {
		hit = hit || mixed(it2.Value().BankDenom)
	}
	it2.Close()
	add("funtoken-bank-denom", hit)
	return out
}
