package c20

// C20 — exported state re-imports to the same state for every Nibiru module.
//
// A case = a state-building history (list of ops, c20_world_test.go).  The driver runs it on a
// real app, dumps the persistent collections of the seven custom modules (s1), exports
// (ExportAppStateAndValidators, e1), starts a FRESH app from that export through InitChain at
// the exported height and a later time, dumps again (s2) and exports again (e2).  Observables
// are the model-shaped records of c20_dump_test.go.

import (
	"encoding/json"
	"os"
	"testing"
	"time"

	tmdb "github.com/cometbft/cometbft-db"
	abci "github.com/cometbft/cometbft/abci/types"
	"github.com/cometbft/cometbft/libs/log"
	tmproto "github.com/cometbft/cometbft/proto/tendermint/types"
	"github.com/cosmos/cosmos-sdk/testutil/sims"
	sdk "github.com/cosmos/cosmos-sdk/types"
	authtypes "github.com/cosmos/cosmos-sdk/x/auth/types"

	. "verifharness/hx"

	"github.com/NibiruChain/nibiru/v2/app"
	inflationtypes "github.com/NibiruChain/nibiru/v2/x/inflation/types"
)

// one generation: the current chain is exported and a FRESH chain is started from the export
type c20Gen struct {
	IH     int `json:"ih"`     // initial height of the new genesis: 0 none (InitChain context height 0), 1 one (height 0 too), 2 the exported height, 3 exported height + 1000
	Dt     int `json:"dt"`     // seconds between the last block of the exported chain and the new genesis time
	Blocks int `json:"blocks"` // blocks run on the new chain before IT is exported (next generation); 0 = exported right away
	Long   int `json:"long"`   // 0: 5 s blocks; 1: the first block is 31 minutes later (30-min epoch rolls over); 2: a day later
	// Rel: genesis time of the new chain relative to the start_time of the scheduled epoch, while that epoch has not
	// started: 0 = Dt as is, 1 = one second BEFORE the scheduled start, 2 = exactly AT it, 3 = Dt seconds AFTER it
	Rel int `json:"rel,omitempty"`
}

type c20Input struct {
	Ops []c20Op `json:"ops"`
	Dt  int     `json:"dt"` // seconds between the last block and the import time (first generation when Gens is empty)
	// EmptyWl: the chain's own genesis has an empty oracle whitelist (boundary of the theorem's
	// hypothesis [wo'_pairs_nonempty]; not generated, replay only)
	EmptyWl bool `json:"empty_wl,omitempty"`
	// Gens: ITERATED round trips. Empty = one generation at the exported height (what every input meant before round 7).
	Gens []c20Gen `json:"gens,omitempty"`
	// Sched: the chain's own genesis defines an epoch scheduled for genesis time + c20SchedOffsets[Sched] (0 = none)
	Sched int `json:"sched,omitempty"`
}

// c20Run: the history on chain A, then generation after generation: dump + export the current chain, InitChain a fresh
// app from the export, dump + export that one (one trace record per generation: the full single-round-trip observation),
// run the generation's blocks on the new chain and go on with it.
func c20Run(t *testing.T, in c20Input, emit func(obs, extra map[string]interface{})) {
	w := newC20World(t, in.EmptyWl, in.Sched)
	for _, op := range in.Ops {
		w.apply(op)
	}
	gens := in.Gens
	if len(gens) == 0 {
		gens = []c20Gen{{IH: 2, Dt: in.Dt}}
	}
	cur := w.c // the chain being exported
	for gi, g := range gens {
		next, ok := c20Generation(t, w, cur, gi, g, emit)
		if !ok {
			return
		}
		// blocks on the imported chain before it is exported in turn
		for b := 0; b < abs(g.Blocks)%6; b++ {
			dt := 5 * time.Second
			if b == 0 {
				switch abs(g.Long) % 3 {
				case 1:
					dt = 31 * time.Minute
				case 2:
					dt = 24*time.Hour + time.Minute
				}
			}
			next.BeginBlock(dt)
			next.EndBlock()
		}
		cur = next
	}
}

func c20Generation(t *testing.T, w *c20World, c *Chain, gi int, g c20Gen, emit func(obs, extra map[string]interface{})) (*Chain, bool) {
	a1 := c.App
	hdr1 := tmproto.Header{Height: a1.LastBlockHeight(), Time: c.Time}
	ctx1 := a1.NewContext(true, hdr1)
	r := newReg(a1.AppCodec())
	r.S("") // the empty string is always a key (epoch identifiers / addresses are compared with it)

	q := queryPlan{holder: w.eth[0].EthAddr, stores: w.stores, erc20s: w.erc20s}
	for _, e := range w.eth {
		q.addrs = append(q.addrs, e.NibiruAddr)
	}
	q.addrs = append(q.addrs, w.caddr)
	q.addrs = append(q.addrs, w.users...)
	for _, s := range w.stores {
		q.addrs = append(q.addrs, sdk.AccAddress(s.Bytes()))
	}
	for _, m := range []string{"oracle", "evm", authtypes.FeeCollectorName, inflationtypes.ModuleName, "tokenfactory"} {
		q.addrs = append(q.addrs, authtypes.NewModuleAddress(m))
	}

	s1 := dumpState(ctx1, a1, r)
	env1 := dumpEnv(ctx1, a1, r)
	md1 := dumpTfBankMd(ctx1, a1, r)
	kv1 := kvDigests(ctx1, a1, r)
	q1 := runQueries(ctx1, a1, r, q)

	exp1, err := a1.ExportAppStateAndValidators(false, nil, nil)
	if err != nil {
		t.Fatalf("export (generation %d): %v", gi, err)
	}
	importTime := c.Time.Add(time.Duration(1+abs(g.Dt)%100000) * time.Second)
	schedClass := ""
	if se, err := a1.EpochsKeeper.GetEpochInfo(ctx1, c20SchedEpoch); err == nil && !se.EpochCountingStarted {
		switch abs(g.Rel) % 4 {
		case 1:
			if se.StartTime.Add(-time.Second).After(c.Time) {
				importTime = se.StartTime.Add(-time.Second)
			}
		case 2:
			if se.StartTime.After(c.Time) {
				importTime = se.StartTime
			}
		case 3:
			if se.StartTime.After(c.Time) {
				importTime = se.StartTime.Add(time.Duration(1+abs(g.Dt)%100000) * time.Second)
			}
		}
		switch {
		case importTime.Before(se.StartTime):
			schedClass = "before"
		case importTime.Equal(se.StartTime):
			schedClass = "at"
		default:
			schedClass = "after"
		}
	}
	var ih int64
	switch abs(g.IH) % 4 {
	case 1:
		ih = 1
	case 2:
		ih = exp1.Height
	case 3:
		ih = exp1.Height + 1000
	}
	// the height of the InitChain context (what AddEpochInfo / SetPrice stamp): the initial height when it is > 1, else 0
	ctxHeight := int64(0)
	if ih > 1 {
		ctxHeight = ih
	}
	a2 := app.NewNibiruApp(log.NewNopLogger(), tmdb.NewMemDB(), nil, true, sims.EmptyAppOptions{})
	importPanic := Recover(func() {
		a2.InitChain(abci.RequestInitChain{ConsensusParams: sims.DefaultConsensusParams, AppStateBytes: exp1.AppState,
			InitialHeight: ih, Time: importTime})
		a2.Commit()
	})
	obs := map[string]interface{}{"h": ctxHeight, "t": importTime.UnixMilli(), "gen": gi}
	extra := map[string]interface{}{"failed_ops": w.failed, "blocks": a1.LastBlockHeight(), "strings": stringClasses(ctx1, a1), "devgas": w.dg.classes(),
		"gen": gi, "ih": abs(g.IH) % 4, "sched": schedClass}
	e1, canon1 := parseExport(exp1.AppState, a1.AppCodec(), r)
	obs["dg"] = w.dg.emit(r, gi)
	if importPanic != "" {
		// the export cannot be imported at all: reported as a violation by the checker
		obs["import_ok"] = 0
		extra["import_panic"] = importPanic
		obs["s1"], obs["e1"], obs["s2"], obs["e2"] = s1, e1, s1, e1
		obs["env1"], obs["env2"], obs["md1"], obs["md2"], obs["kv1"], obs["kv2"], obs["q1"], obs["q2"] = env1, env1, md1, md1, kv1, kv1, q1, q1
		obs["jeq"] = map[string]int{}
		obs["tables"] = tables(e1, e1, s1, s1, r)
		obs["probe"] = J{}
		r.finish()
		emit(obs, extra)
		return nil, false
	}
	obs["import_ok"] = 1
	hdr2 := tmproto.Header{Height: a2.LastBlockHeight(), Time: importTime}
	ctx2 := a2.NewContext(true, hdr2)
	s2 := dumpState(ctx2, a2, r)
	env2 := dumpEnv(ctx2, a2, r)
	md2 := dumpTfBankMd(ctx2, a2, r)
	kv2 := kvDigests(ctx2, a2, r)
	q2 := runQueries(ctx2, a2, r, q)
	exp2, err := a2.ExportAppStateAndValidators(false, nil, nil)
	if err != nil {
		t.Fatalf("export 2 (generation %d): %v", gi, err)
	}
	e2, canon2 := parseExport(exp2.AppState, a2.AppCodec(), r)
	jeq := map[string]int{}
	for m, c1 := range canon1 {
		if c1 == canon2[m] {
			jeq[m] = 1
		} else {
			jeq[m] = 0
		}
	}
	// behavioural probe on the imported chain (cache context, never committed): one more reward
	// allocation must not disturb the pending ones: ids of pending rewards before / after + the new id
	probe := J{}
	{
		cctx, _ := ctx2.CacheContext()
		before := J{}
		for _, kv := range a2.OracleKeeper.Rewards.Iterate(cctx, rangeU64()).KeyValues() {
			v := kv.Value
			before = append(before, J{kv.Key, r.P(&v)})
		}
		coins := Unibi(5000)
		if err := a2.BankKeeper.MintCoins(cctx, inflationtypes.ModuleName, coins); err == nil {
			_ = a2.OracleKeeper.AllocateRewards(cctx, inflationtypes.ModuleName, coins, 2)
		}
		after := J{}
		for _, kv := range a2.OracleKeeper.Rewards.Iterate(cctx, rangeU64()).KeyValues() {
			v := kv.Value
			after = append(after, J{kv.Key, r.P(&v)})
		}
		probe = J{before, after}
	}
	obs["s1"], obs["e1"], obs["s2"], obs["e2"] = s1, e1, s2, e2
	obs["env1"], obs["env2"], obs["md1"], obs["md2"], obs["kv1"], obs["kv2"], obs["q1"], obs["q2"] = env1, env2, md1, md2, kv1, kv2, q1, q2
	obs["jeq"] = jeq
	obs["tables"] = tables(e1, e2, s1, s2, r)
	obs["probe"] = probe
	r.finish()
	if os.Getenv("C20_DEBUG") != "" {
		for m, c1 := range canon1 {
			if c1 != canon2[m] && m != "epochs" {
				t.Logf("DIFF gen %d %s\n 1: %.1500s\n 2: %.1500s", gi, m, c1, canon2[m])
			}
		}
	}
	emit(obs, extra)
	return &Chain{App: a2, TxCfg: c.TxCfg, Time: importTime, ChainID: c.ChainID}, true
}

// ---------------------------------------------------------------- generation

// A history is a sequence of SEGMENTS; a segment is a short run of related ops (so that the states the
// property talks about — storage behind a contract, a handed-over denom, votes pending at export
// time, … — are actually reached), interleaved with single random ops (≈ 20 %, incl. ops that the
// implementation rejects: strangers changing admins, votes without prevote, removing absent entries).
func genC20Case(r *Rng) c20Input {
	var ops []c20Op
	add := func(k string, a, b, c int) { ops = append(ops, c20Op{K: k, A: a, B: b, C: c}) }
	// many-to-one relations: wherever a VALUE is chosen (feeder, admin, deployer, withdrawer, sudo contract,
	// mint target, storage word, rate) a per-case "hub" is picked half of the time, so that several keys of a
	// collection share one value (several validators -> one feeder, several denoms -> one admin, …)
	hub := r.Intn(5)
	usr := func() int {
		if r.Chance(1, 2) {
			return hub
		}
		return r.Intn(5)
	}
	// x/devgas registry messages: D = path (signed tx / message router)
	dgop := func(k string, a, b, c int) { ops = append(ops, c20Op{K: k, A: a, B: b, C: c, D: r.Pick(3, 2)}) }
	// withdrawer choice (see dgWithdrawer): users (mostly the hub), the deployer, the contract, the stored one, bad strings
	dgWd := func(reg bool) int {
		switch r.Pick(4, 4, 2, 1, 1, 1, 1, 1) {
		case 0:
			return usr()
		case 1:
			return 5 // the deployer: registered with itself / updated BACK to the deployer
		case 2:
			return 6 // the contract (what a factory contract must use)
		case 3:
			return 7 // empty
		case 4:
			return 8 // malformed
		case 5:
			return 9 // upper-case bech32
		case 6:
			if reg {
				return usr()
			}
			return 10 // the value already stored
		default:
			return 11 // the deployer, upper-case
		}
	}
	nWasm := 0 // wasm contracts instantiated so far in this history
	hubWord := r.Intn(5)
	wordv := func() int {
		if r.Chance(1, 2) {
			return hubWord
		}
		return r.Intn(5)
	}
	single := func() {
		switch r.Pick(3, 2, 2, 2, 2, 2, 2, 2, 2, 2, 2, 2, 2, 2, 2, 2, 2, 3) {
		case 0:
			add("sstore", r.Intn(4), r.Intn(4), wordv())
		case 1:
			add("destroy", r.Intn(4), 0, 0)
		case 2:
			add("convert", r.Intn(3), r.Intn(50), r.Intn(3))
		case 3:
			add("tf_admin", r.Intn(5), r.Intn(5), 1)
		case 4:
			add("tf_mint", r.Intn(5), r.Intn(1000), usr())
		case 5:
			add("sudo_rm", r.Intn(5), r.Intn(3), 0)
		case 6:
			add("sudo_root", usr(), 0, 0)
		case 7:
			add("infl_toggle", r.Intn(2), 0, 0)
		case 8:
			add("epoch", r.Intn(3), 0, 0)
		case 9:
			add("block", r.Intn(6), 0, 0)
		case 10:
			switch r.Intn(4) {
			case 0:
				dgop("fs_cancel", r.Intn(4), r.Pick(5, 1, 1, 1), 0)
			case 1:
				dgop("fs_upd", r.Intn(4), 0, dgWd(false))
			case 2:
				dgop("fs_reg", r.Intn(4), 0, dgWd(true))
			default:
				dgop("dg_params", r.Intn(7), boolInt(r.Chance(1, 4)), r.Intn(5))
			}
		case 11:
			add("or_vote", 1+r.Intn(7), 0, 0)
		case 12:
			add("or_tally", 0, 0, 0)
		case 13:
			add("or_delegate", r.Intn(3), usr(), 0)
		case 14:
			add("tf_md", r.Intn(5), r.Intn(5), 0)
		case 15:
			add("ftcoin", r.Intn(2), r.Intn(4), 0)
		case 16:
			add("or_alloc", r.Intn(50), r.Intn(4), 0)
		case 17:
			add("or_params", r.Intn(63), 0, 0)
		}
	}
	nseg := r.Range(4, 10)
	for i := 0; i < nseg; i++ {
		if r.Chance(1, 5) {
			single()
			continue
		}
		switch r.Pick(5, 3, 4, 3, 3, 3, 4, 3, 2, 2, 6) {
		case 0: // contracts: constructor storage, later writes / clears, maybe a self-destruct, maybe empty code
			var slots [][2]int
			for j := r.Intn(4); j > 0; j-- {
				slots = append(slots, [2]int{r.Intn(4), wordv()})
			}
			ops = append(ops, c20Op{K: "deploy", A: r.Intn(3), B: r.Intn(3), C: boolInt(r.Chance(1, 7)), Slots: slots})
			for j := r.Intn(3); j > 0; j-- {
				add("sstore", r.Intn(4), r.Intn(4), wordv())
			}
			if r.Chance(1, 4) {
				add("destroy", r.Intn(4), 0, 0)
			}
		case 1: // FunToken from an ERC20
			add("erc20", r.Intn(3), r.Intn(20), 0)
		case 2: // FunToken from a coin (+ conversion into the ERC20)
			add("ftcoin", r.Intn(2), r.Intn(4), 0)
			if r.Chance(2, 3) {
				add("convert", r.Intn(3), r.Intn(50), r.Intn(3))
			}
		case 3: // token factory: create, hand over, custom metadata, mint
			add("tf_create", usr(), r.Intn(4), 0)
			if r.Chance(2, 3) {
				add("tf_create", usr(), r.Intn(4), 0) // a second denom, often of the same (hub) creator
			}
			if r.Chance(2, 3) {
				to := usr()
				add("tf_admin", r.Intn(5), to, 0)
				if r.Chance(2, 3) {
					add("tf_admin", r.Intn(5), to, 0) // another denom to the same new admin
				}
			}
			if r.Chance(1, 2) {
				add("tf_md", r.Intn(5), r.Intn(5), 0)
			}
			if r.Chance(1, 2) {
				add("tf_mint", r.Intn(5), r.Intn(1000), usr())
			}
		case 4: // sudoers
			add("sudo_add", r.Intn(5), r.Intn(3), 0)
			if r.Chance(1, 2) {
				add("sudo_rm", r.Intn(5), r.Intn(3), 0)
			}
			if r.Chance(1, 4) {
				add("sudo_root", usr(), 0, 0)
			}
		case 5: // inflation: params, on/off in every order around a few epochs (skipped epochs before, between, after)
			if r.Chance(1, 2) {
				add("infl_params", r.Intn(5), r.Intn(40), 0)
			}
			switch r.Intn(3) {
			case 0: // on, epochs, maybe off and more epochs (skipped epochs at export time, inflation off)
				add("infl_toggle", 1, 0, 0)
				add("epoch", r.Intn(3), 0, 0)
				if r.Chance(1, 2) {
					add("infl_toggle", 0, 0, 0)
					add("epoch", r.Intn(3), 0, 0)
				}
			case 1: // epochs skipped while inflation is off / was never started, then switched ON before the export
				add("epoch", r.Intn(3), 0, 0)
				add("infl_toggle", 1, 0, 0)
				if r.Chance(1, 2) {
					add("epoch", r.Intn(3), 0, 0)
				}
			case 2: // paused and resumed
				add("infl_toggle", 1, 0, 0)
				add("epoch", r.Intn(2), 0, 0)
				add("infl_toggle", 0, 0, 0)
				add("epoch", r.Intn(3), 0, 0)
				add("infl_toggle", 1, 0, 0)
			}
		case 6: // a full oracle round: some validators vote, the rest collect a miss counter; rates are set
			if r.Chance(1, 2) { // first change the whitelist (mixed-case / IBC pairs) and let it come into force
				add("or_params", r.Intn(63), 0, 0)
				add("or_tally", 0, 0, 0)
			}
			m := 1 + r.Intn(7)
			add("or_prevote", m, r.Intn(9), 0)
			add("or_vote", m&(1+r.Intn(7)), 0, 0)
			add("or_tally", 0, 0, 0)
		case 7: // votes / prevotes left pending (sometimes with a whitelist edit that is not yet in force)
			switch r.Intn(3) {
			case 0:
				add("or_params", r.Intn(63), 0, 0) // edit not yet in force at export time
			case 1:
				add("or_params", r.Intn(63), 0, 0)
				add("or_tally", 0, 0, 0) // in force: the pending votes are about the edited (mixed-case / IBC) pairs
			}
			m := 1 + r.Intn(7)
			add("or_prevote", m, r.Intn(9), 0)
			if r.Chance(2, 3) {
				add("or_vote", 1+r.Intn(7), 0, 0)
				if r.Chance(1, 2) {
					add("or_prevote", 1+r.Intn(7), r.Intn(9), 0)
				}
			}
		case 8: // rewards pending (possibly partly paid out by a later tally)
			add("or_alloc", r.Intn(50), r.Intn(4), 0)
			if r.Chance(1, 2) {
				add("or_alloc", r.Intn(50), r.Intn(4), 0)
			}
		case 10: // x/devgas: wasm contracts and a history of registry messages on them
			nc := r.Range(1, 3)
			base := nWasm
			factory := map[int]bool{}
			for j := 0; j < nc; j++ {
				mode := r.Pick(4, 2, 1, 1, 1) // admin: none / creator / other user / gov / previous contract
				add("wasm_new", usr(), mode, 0)
				factory[base+j] = mode == 3 || (mode == 4 && nWasm > 0)
				nWasm++
			}
			who := func() int { return r.Pick(12, 1, 1, 1, 0, 0, 1, 0) } // mostly the authorised account; strangers; upper case
			cix := func() int {
				if r.Chance(1, 12) {
					return 100 + r.Intn(5) // an address that is no contract
				}
				return r.Intn(nWasm) // any contract of the history so far
			}
			regWd := func(c int) int {
				if factory[c] && r.Chance(5, 6) {
					return 6 // a factory contract can only be registered with itself as withdrawer
				}
				return dgWd(true)
			}
			for j := 0; j < nc; j++ {
				if r.Chance(7, 8) {
					dgop("fs_reg", base+j, who(), regWd(base+j))
				}
			}
			for j := r.Range(1, 5); j > 0; j-- {
				switch r.Pick(2, 4, 3, 2, 1, 1) {
				case 0:
					c := cix()
					dgop("fs_reg", c, who(), regWd(c))
				case 1:
					dgop("fs_upd", cix(), who(), dgWd(false))
				case 2: // the withdrawer is pointed away and later BACK to the deployer
					c := base + r.Intn(nc)
					dgop("fs_upd", c, 0, usr())
					if r.Chance(1, 3) {
						add("block", r.Intn(3), 0, 0)
					}
					dgop("fs_upd", c, 0, r.Pick(0, 0, 0, 0, 0, 3, 0, 0, 0, 0, 0, 1)) // 5: the deployer / 11: in upper case
				case 3:
					c := cix()
					dgop("fs_cancel", c, who(), 0)
					if r.Chance(1, 2) {
						dgop("fs_reg", c, who(), regWd(c)) // register again after a cancel
					}
				case 4:
					add("wasm_admin", cix(), r.Intn(5), 0)
				case 5:
					dgop("dg_params", r.Intn(7), boolInt(r.Chance(1, 5)), r.Intn(5))
					if r.Chance(2, 3) {
						dgop("dg_params", r.Pick(3, 0, 1, 1, 0, 0, 1), 0, 0) // a valid, enabled value again
					}
				}
			}
		case 9: // feeder delegations
			first := r.Intn(3)
			for v := 0; v < 3; v++ {
				if v == first || r.Chance(2, 3) {
					add("or_delegate", v, usr(), 0)
				}
			}
		}
	}
	// generations: the chain is exported and re-started 1..3 times, each import at its own kind of initial height
	// (none / 1: InitChain context height 0; the exported height; a later one), after 0..5 blocks on the previous import
	var gens []c20Gen
	for i := 1 + r.Pick(3, 4, 2); i > 0; i-- {
		gens = append(gens, c20Gen{IH: r.Pick(3, 1, 3, 1), Dt: r.Range(1, 90000), Blocks: r.Pick(3, 2, 2, 1, 1, 1), Long: r.Pick(4, 2, 1), Rel: r.Pick(3, 2, 1, 4)})
	}
	// a future-dated epoch definition in the chain's genesis: none / +1 h / +3 d / +30 d / +400 d
	return c20Input{Ops: ops, Dt: gens[0].Dt, Gens: gens, Sched: r.Pick(2, 1, 2, 2, 2)}
}

func boolInt(b bool) int {
	if b {
		return 1
	}
	return 0
}

// fixed openers: one history touching every mechanism named in the property, one around the x/devgas registry, and small ones
// around the historic suspects (pending rewards, custom metadata, self-destruct, empty code).
func c20Openers() []c20Input {
	full := []c20Op{
		{K: "deploy", A: 0, B: 0, Slots: [][2]int{{1, 7}, {2, 9}}},
		{K: "deploy", A: 1, B: 1, Slots: [][2]int{{0, 3}}},
		{K: "deploy", A: 0, B: 0},
		{K: "sstore", A: 0, B: 2, C: 0},
		{K: "sstore", A: 1, B: 3, C: 4},
		{K: "destroy", A: 2},
		{K: "erc20", A: 0, B: 1},
		{K: "ftcoin", A: 0},
		{K: "convert", A: 0, B: 10, C: 1},
		{K: "tf_create", A: 0, B: 0},
		{K: "tf_create", A: 1, B: 1},
		{K: "tf_admin", A: 0, B: 2},
		{K: "tf_mint", A: 1, B: 500, C: 3},
		{K: "ftcoin", A: 1, B: 1},
		{K: "sudo_add", A: 1, B: 2},
		{K: "sudo_rm", A: 2, B: 0},
		{K: "infl_params", A: 1, B: 10},
		{K: "infl_toggle", A: 1},
		{K: "epoch", A: 2},
		{K: "infl_toggle", A: 0},
		{K: "epoch", A: 0},
		{K: "wasm_new", A: 1, B: 0}, {K: "wasm_new", A: 1, B: 1}, {K: "wasm_new", A: 2, B: 3},
		{K: "fs_reg", A: 0, B: 0, C: 2}, {K: "fs_reg", A: 1, B: 0, C: 4, D: 1}, {K: "fs_reg", A: 2, B: 3, C: 6},
		{K: "fs_upd", A: 1, B: 0, C: 3},
		{K: "or_delegate", A: 1, B: 3},
		{K: "or_prevote", A: 3, B: 1},
		{K: "or_vote", A: 3},
		{K: "or_tally"},
		{K: "or_prevote", A: 7, B: 2},
		{K: "or_vote", A: 5},
		{K: "or_prevote", A: 1, B: 4},
	}
	shared := []c20Op{
		{K: "or_delegate", A: 0, B: 2}, {K: "or_delegate", A: 1, B: 2}, {K: "or_delegate", A: 2, B: 2}, // three validators, one feeder
		{K: "tf_create", A: 0, B: 0}, {K: "tf_create", A: 1, B: 0}, {K: "tf_create", A: 1, B: 1},
		{K: "tf_admin", A: 0, B: 3}, {K: "tf_admin", A: 1, B: 3}, {K: "tf_admin", A: 2, B: 3}, // three denoms, one admin
		{K: "tf_md", A: 0, B: 1}, {K: "tf_md", A: 1, B: 1},
		{K: "wasm_new", A: 4, B: 0}, {K: "wasm_new", A: 4, B: 1}, {K: "wasm_new", A: 4, B: 0},
		{K: "fs_reg", A: 0, B: 0, C: 4}, {K: "fs_reg", A: 1, B: 0, C: 4, D: 1}, {K: "fs_reg", A: 2, B: 0, C: 5}, // one deployer = withdrawer
		{K: "sudo_add", A: 2, B: 2},
		{K: "deploy", A: 0, B: 1, Slots: [][2]int{{0, 7}, {1, 7}, {2, 7}}}, {K: "deploy", A: 1, B: 1, Slots: [][2]int{{0, 7}, {1, 7}}}, // same code, same words
		{K: "ftcoin", A: 0}, {K: "ftcoin", A: 0}, {K: "ftcoin", A: 1, B: 0}, {K: "erc20", A: 0, B: 3}, {K: "erc20", A: 1, B: 3}, // same name/decimals
		{K: "or_alloc", A: 4, B: 2}, {K: "or_alloc", A: 4, B: 2}, // two rewards with the same coins and periods
		{K: "or_prevote", A: 7, B: 1}, {K: "or_vote", A: 7}, {K: "or_tally"}, // all vote the same (equal) rates through the one feeder
		{K: "or_prevote", A: 7, B: 3}, {K: "or_vote", A: 6}, // two votes and one prevote pending, same feeder
	}
	strs := []c20Op{
		{K: "or_params", A: 6}, {K: "or_tally"}, // whitelist := {ubtc, ibc/HEX…, uATOM}:uusd, in force after the period end
		{K: "or_prevote", A: 7, B: 2}, {K: "or_vote", A: 7}, {K: "or_tally"}, // prices for the first two (ibc/…, uATOM)
		{K: "or_prevote", A: 3, B: 4}, {K: "or_vote", A: 1}, // a vote and a prevote pending
		{K: "tf_create", A: 0, B: 1}, {K: "tf_create", A: 0, B: 2}, {K: "tf_create", A: 1, B: 3}, {K: "tf_md", A: 1, B: 3},
		{K: "ftcoin", A: 0}, {K: "ftcoin", A: 0}, {K: "ftcoin", A: 1, B: 1}, // FunTokens of ucoin0, ibc/HEX and a mixed-case tf denom
		{K: "convert", A: 1, B: 5, C: 0}, {K: "epoch", A: 0},
	}
	// x/devgas registry histories: every message, every order (register / update away / update back to the deployer /
	// cancel / register again / factory contract registering itself / params off and on), both delivery paths
	devgas := []c20Op{
		{K: "wasm_new", A: 0, B: 0}, {K: "wasm_new", A: 1, B: 1}, {K: "wasm_new", A: 2, B: 3}, {K: "wasm_new", A: 3, B: 2},
		{K: "fs_reg", A: 0, B: 0, C: 2},                                         // creator registers, separate withdrawer
		{K: "fs_upd", A: 0, B: 0, C: 5},                                         // … and takes the payouts back: withdrawer := deployer
		{K: "fs_reg", A: 1, B: 0, C: 5, D: 1},                                   // admin registers with itself as withdrawer (router path)
		{K: "fs_upd", A: 1, B: 0, C: 3}, {K: "fs_upd", A: 1, B: 0, C: 11, D: 1}, // away and back (upper-case string)
		{K: "fs_reg", A: 2, B: 2, C: 6},                                                                // gov-admin ("factory") contract: anyone registers it with itself
		{K: "fs_reg", A: 3, B: 0, C: 4}, {K: "fs_cancel", A: 3, B: 0}, {K: "fs_reg", A: 3, B: 0, C: 5}, // cancel, register again
		{K: "fs_upd", A: 0, B: 2, C: 1}, {K: "fs_reg", A: 0, B: 0, C: 1}, {K: "fs_upd", A: 3, B: 0, C: 10}, // rejected ones
		{K: "fs_reg", A: 100, B: 0, C: 1, D: 1}, {K: "fs_upd", A: 1, B: 0, C: 7, D: 1}, {K: "fs_upd", A: 1, B: 0, C: 8, D: 1},
		{K: "dg_params", A: 1}, {K: "fs_upd", A: 0, B: 0, C: 3}, {K: "dg_params", A: 2}, {K: "fs_upd", A: 0, B: 0, C: 3},
		{K: "dg_params", A: 4}, {K: "dg_params", A: 3, B: 1, C: 2},
		{K: "wasm_admin", A: 0, B: 2}, {K: "fs_upd", A: 0, B: 0, C: 5}, // new admin points the share back to the (old) deployer
	}
	return []c20Input{
		{Ops: full, Dt: 3600},
		// second and third generation: import without initial height (epoch start heights re-based to 0), a few blocks, export again
		{Ops: full, Dt: 3600, Gens: []c20Gen{{IH: 0, Dt: 3600, Blocks: 2}, {IH: 0, Dt: 60, Blocks: 1, Long: 1}, {IH: 2, Dt: 60}}},
		{Ops: []c20Op{{K: "epoch", A: 0}}, Dt: 10, Gens: []c20Gen{{IH: 0, Dt: 10, Blocks: 2}, {IH: 1, Dt: 10}, {IH: 3, Dt: 10}}},
		{Ops: []c20Op{}, Dt: 10, Gens: []c20Gen{{IH: 1, Dt: 10}, {IH: 0, Dt: 10, Blocks: 3, Long: 2}, {IH: 0, Dt: 10}}},
		// a scheduled (not yet started, future-dated) epoch: imported before, exactly at and after its start date
		{Ops: []c20Op{{K: "block", A: 1}}, Dt: 10, Sched: 2, Gens: []c20Gen{{IH: 2, Dt: 10, Rel: 1, Blocks: 1}, {IH: 0, Dt: 10, Rel: 2}}},
		{Ops: []c20Op{{K: "epoch", A: 0}}, Dt: 10, Sched: 3, Gens: []c20Gen{{IH: 2, Dt: 500, Rel: 3, Blocks: 2}, {IH: 2, Dt: 10}}},
		{Ops: full, Dt: 10, Sched: 4, Gens: []c20Gen{{IH: 0, Dt: 10, Rel: 0, Blocks: 1}, {IH: 2, Dt: 77, Rel: 3}}},
		{Ops: devgas, Dt: 900},
		{Ops: strs, Dt: 4242},
		{Ops: shared, Dt: 777},
		{Ops: []c20Op{{K: "or_alloc", A: 3, B: 2}, {K: "or_alloc", A: 5, B: 3}}, Dt: 10},
		{Ops: []c20Op{{K: "tf_create", A: 0, B: 0}, {K: "tf_md", A: 0, B: 2}}, Dt: 10},
		{Ops: []c20Op{{K: "deploy", A: 0, B: 0, C: 1, Slots: [][2]int{{1, 5}}}, {K: "deploy", A: 0, B: 2, Slots: [][2]int{{1, 6}}}, {K: "destroy", A: 1}}, Dt: 10},
		{Ops: []c20Op{{K: "epoch", A: 1}, {K: "infl_toggle", A: 1}}, Dt: 10}, // epochs skipped before inflation is switched on
		{Ops: []c20Op{}, Dt: 1},
	}
}

func TestC20(t *testing.T) {
	cfg := LoadCfg(t, 80, 800)
	em := NewEmitter(t, cfg.Out)
	defer em.Close()
	run := func(in c20Input) {
		c20Run(t, in, func(obs, extra map[string]interface{}) { em.Emit(in, obs, extra) })
	}
	if cfg.Replay != "" {
		for _, raw := range cfg.ReplayInputs(t) {
			var in c20Input
			if err := json.Unmarshal(raw, &in); err != nil {
				t.Fatalf("replay input: %v", err)
			}
			run(in)
		}
		return
	}
	openers := c20Openers()
	rng := NewRng(cfg.Seed)
	for i := 0; i < cfg.N; i++ {
		if i < len(openers) {
			run(openers[i])
			continue
		}
		run(genC20Case(rng.Fork()))
	}
}
