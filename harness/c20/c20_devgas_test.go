package c20

// C20 — x/devgas state is built by HISTORIES of the registry message handlers on real wasm contracts.
//
// The fee-share registry (DevGasStore + its deployer / withdrawer indexes) and the module params are only
// ever written by MsgRegisterFeeShare / MsgUpdateFeeShare / MsgCancelFeeShare / MsgUpdateParams (and by
// InitGenesis).  The ops below send exactly those messages — as signed transactions (ante handlers,
// ValidateBasic, DeliverTx) when the sender is one of the keyed users, or through the message service router
// (the path of a message dispatched by a contract / authz; no ValidateBasic) — against reflect.wasm instances
// whose admin is nobody / the creator / another user / the gov module / another contract, so that every branch
// of the authorisation code (creator, admin, "factory" contracts) stores something.
//
// Every handler call is logged with the strings it carried and whether it succeeded; the log (canonicalised)
// is part of the observation and is replayed by the handler model of coq/C20/Model.v ([dg_run]): the model
// must predict every success / failure and the dumped registry.

import (
	"fmt"
	"os"
	"strings"
	"time"

	sdkmath "cosmossdk.io/math"
	wasmkeeper "github.com/CosmWasm/wasmd/x/wasm/keeper"
	wasmtypes "github.com/CosmWasm/wasmd/x/wasm/types"
	sdk "github.com/cosmos/cosmos-sdk/types"
	authtypes "github.com/cosmos/cosmos-sdk/x/auth/types"
	govtypes "github.com/cosmos/cosmos-sdk/x/gov/types"

	. "verifharness/hx"

	devgastypes "github.com/NibiruChain/nibiru/v2/x/devgas/v1/types"
)

type c20Wasm struct {
	addr    sdk.AccAddress
	creator string
	admin   string // "" = none
}

// one logged environment change / handler call (raw strings; canonicalised when emitted)
type dgRec struct {
	k        string // wasm | reg | upd | cancel | params
	c, d, w  string
	hasAdmin bool
	admin    string
	creator  string
	params   devgastypes.ModuleParams
	auth     bool
	ok       bool
}

type c20Devgas struct {
	codeID  uint64
	wasms   []c20Wasm
	hist    []dgRec
	params0 devgastypes.ModuleParams
	nTx     int // handler calls that went through DeliverTx
	nRouter int
}

func c20RepoRoot() string {
	if r := os.Getenv("VERIF_REPO"); r != "" {
		return r
	}
	return "/repo"
}

const c20Malformed = "nibi1thisisnotabech32address"

func c20GovAddr() sdk.AccAddress { return authtypes.NewModuleAddress(govtypes.ModuleName) }

// the account the registry messages accept as sender for this contract: its admin, else its creator
func (cw c20Wasm) authorised() string {
	if cw.admin != "" {
		return cw.admin
	}
	return cw.creator
}

func (w *c20World) wasmStore(ctx sdk.Context) {
	if w.dg.codeID != 0 {
		return
	}
	bz, err := os.ReadFile(c20RepoRoot() + "/x/devgas/v1/keeper/testdata/reflect.wasm")
	w.must(err)
	pk := wasmkeeper.NewDefaultPermissionKeeper(w.c.App.WasmKeeper)
	id, _, err := pk.Create(ctx, w.users[0], bz, &wasmtypes.AccessConfig{Permission: wasmtypes.AccessTypeEverybody})
	w.must(err)
	w.dg.codeID = id
}

// adminFor: admin mode 0 none, 1 the creator, 2 another user, 3 the gov module, 4 the previous contract
func (w *c20World) adminFor(creator int, mode int) sdk.AccAddress {
	switch mode % 5 {
	case 1:
		return w.user(creator)
	case 2:
		return w.user(creator + 1)
	case 3:
		return c20GovAddr()
	case 4:
		if n := len(w.dg.wasms); n > 0 {
			return w.dg.wasms[n-1].addr
		}
	}
	return nil
}

func (w *c20World) wasmNew(ctx sdk.Context, creator, mode int) {
	w.wasmStore(ctx)
	pk := wasmkeeper.NewDefaultPermissionKeeper(w.c.App.WasmKeeper)
	admin := w.adminFor(creator, mode)
	a, _, err := pk.Instantiate(ctx, w.dg.codeID, w.user(creator), admin, []byte(`{}`), fmt.Sprintf("c20-%d", len(w.dg.wasms)), nil)
	w.must(err)
	cw := c20Wasm{addr: a, creator: w.user(creator).String()}
	if admin != nil {
		cw.admin = admin.String()
	}
	w.dg.wasms = append(w.dg.wasms, cw)
	w.dg.hist = append(w.dg.hist, dgRec{k: "wasm", c: a.String(), hasAdmin: admin != nil, admin: cw.admin, creator: cw.creator, ok: true})
}

// contract address op.A refers to: an instantiated contract, or (A >= 100 / none instantiated) an address that is no contract
func (w *c20World) dgContract(a int) (string, *c20Wasm) {
	a = abs(a)
	if a >= 100 || len(w.dg.wasms) == 0 {
		return w.user(a).String(), nil
	}
	cw := &w.dg.wasms[a%len(w.dg.wasms)]
	return cw.addr.String(), cw
}

func (w *c20World) dgShare(contract string) (devgastypes.FeeShare, bool) {
	fs, err := w.c.App.DevGasKeeper.DevGasStore.Get(w.rctx(), contract)
	return fs, err == nil
}

// sender string: 0 the authorised account, 1..5 user B-1, 6 the authorised account in upper case, 7 malformed
func (w *c20World) dgSender(b int, cw *c20Wasm) string {
	auth := w.user(0).String()
	if cw != nil {
		auth = cw.authorised()
	}
	switch b = abs(b) % 8; b {
	case 0:
		return auth
	case 6:
		return strings.ToUpper(auth)
	case 7:
		return c20Malformed
	default:
		return w.user(b - 1).String()
	}
}

// withdrawer string: 0..4 user, 5 the deployer of the registered share (else the authorised account), 6 the contract,
// 7 empty, 8 malformed, 9 a user in upper case, 10 the withdrawer currently stored, 11 the deployer in upper case
func (w *c20World) dgWithdrawer(c int, contract string, cw *c20Wasm) string {
	fs, found := w.dgShare(contract)
	dep := w.user(0).String()
	if cw != nil {
		dep = cw.authorised()
	}
	if found {
		dep = fs.DeployerAddress
	}
	switch c = abs(c) % 12; c {
	case 5:
		return dep
	case 6:
		return contract
	case 7:
		return ""
	case 8:
		return c20Malformed
	case 9:
		return strings.ToUpper(w.user(c).String())
	case 10:
		if found {
			return fs.WithdrawerAddress
		}
		return dep
	case 11:
		return strings.ToUpper(dep)
	default:
		return w.user(c).String()
	}
}

// dgSend delivers one x/devgas message: signed tx when path 0 and the sender is a keyed user, else message router
func (w *c20World) dgSend(msg sdk.Msg, sender string, path int) bool {
	if path%2 == 0 {
		if addr, err := sdk.AccAddressFromBech32(sender); err == nil {
			for i, u := range w.users {
				if u.Equals(addr) {
					w.c.BeginBlock(5 * time.Second)
					r := w.c.DeliverCosmos(w.userKeys[i], 5_000_000, Unibi(1_000_000), msg)
					w.c.EndBlock()
					w.dg.nTx++
					if os.Getenv("C20_DEBUG") != "" && r.Code != 0 {
						w.t.Logf("devgas tx failed: code=%d log=%.200s", r.Code, r.Log)
					}
					return w.note(codeErr(r.Code, r.Log))
				}
			}
		}
	}
	ok := false
	w.c.BeginBlock(5 * time.Second)
	// the router runs the handler on a cache context and writes it back only on success, like runMsgs
	cctx, write := w.c.Ctx().CacheContext()
	p := Recover(func() {
		h := w.c.App.MsgServiceRouter().Handler(msg)
		if h == nil {
			return
		}
		if _, err := h(cctx, msg); err == nil {
			ok = true
		} else if os.Getenv("C20_DEBUG") != "" {
			w.t.Logf("devgas msg rejected: %v", err)
		}
	})
	if p != "" {
		ok = false
	}
	if ok {
		write()
	}
	w.c.EndBlock()
	w.dg.nRouter++
	if !ok {
		w.failed++
	}
	return ok
}

var c20DgParams = []devgastypes.ModuleParams{
	{EnableFeeShare: true, DeveloperShares: sdkmath.LegacyNewDecWithPrec(5, 1), AllowedDenoms: nil},
	{EnableFeeShare: false, DeveloperShares: sdkmath.LegacyNewDecWithPrec(5, 1), AllowedDenoms: nil},
	{EnableFeeShare: true, DeveloperShares: sdkmath.LegacyOneDec(), AllowedDenoms: []string{"unibi"}},
	{EnableFeeShare: true, DeveloperShares: sdkmath.LegacyZeroDec(), AllowedDenoms: []string{"unibi", "uusd"}},
	{EnableFeeShare: true, DeveloperShares: sdkmath.LegacyNewDecWithPrec(15, 1), AllowedDenoms: nil},          // > 1: rejected
	{EnableFeeShare: true, DeveloperShares: sdkmath.LegacyNewDecWithPrec(25, 2), AllowedDenoms: []string{""}}, // blank denom: rejected
	{EnableFeeShare: true, DeveloperShares: sdkmath.LegacyNewDecWithPrec(25, 2), AllowedDenoms: []string{}},
}

func (w *c20World) applyDevgas(op c20Op) {
	switch op.K {
	case "wasm_new": // user A instantiates reflect.wasm, admin mode B
		w.block(5*time.Second, func(ctx sdk.Context) { w.wasmNew(ctx, abs(op.A)%5, abs(op.B)) })
	case "wasm_admin": // contract A gets admin mode B (gov-permissioned keeper: an environment op)
		if len(w.dg.wasms) == 0 {
			w.failed++
			return
		}
		w.block(5*time.Second, func(ctx sdk.Context) {
			i := abs(op.A) % len(w.dg.wasms)
			cw := &w.dg.wasms[i]
			gk := wasmkeeper.NewGovPermissionKeeper(w.c.App.WasmKeeper)
			var creatorIdx int
			for j, u := range w.users {
				if u.String() == cw.creator {
					creatorIdx = j
				}
			}
			admin := w.adminFor(creatorIdx, abs(op.B))
			if admin != nil && admin.Equals(cw.addr) {
				admin = nil
			}
			var err error
			if admin != nil {
				err = gk.UpdateContractAdmin(ctx, cw.addr, c20GovAddr(), admin)
			} else {
				err = gk.ClearContractAdmin(ctx, cw.addr, c20GovAddr())
			}
			if !w.note(err) {
				return
			}
			cw.admin = ""
			if admin != nil {
				cw.admin = admin.String()
			}
			w.dg.hist = append(w.dg.hist, dgRec{k: "wasm", c: cw.addr.String(), hasAdmin: admin != nil, admin: cw.admin, creator: cw.creator, ok: true})
		})
	case "fs_reg": // contract A, sender B, withdrawer C
		contract, cw := w.dgContract(op.A)
		d := w.dgSender(op.B, cw)
		wd := w.dgWithdrawer(op.C, contract, cw)
		ok := w.dgSend(&devgastypes.MsgRegisterFeeShare{ContractAddress: contract, DeployerAddress: d, WithdrawerAddress: wd}, d, op.D)
		w.dg.hist = append(w.dg.hist, dgRec{k: "reg", c: contract, d: d, w: wd, ok: ok})
	case "fs_upd":
		contract, cw := w.dgContract(op.A)
		d := w.dgSender(op.B, cw)
		wd := w.dgWithdrawer(op.C, contract, cw)
		ok := w.dgSend(&devgastypes.MsgUpdateFeeShare{ContractAddress: contract, DeployerAddress: d, WithdrawerAddress: wd}, d, op.D)
		w.dg.hist = append(w.dg.hist, dgRec{k: "upd", c: contract, d: d, w: wd, ok: ok})
	case "fs_cancel":
		contract, cw := w.dgContract(op.A)
		d := w.dgSender(op.B, cw)
		ok := w.dgSend(&devgastypes.MsgCancelFeeShare{ContractAddress: contract, DeployerAddress: d}, d, op.D)
		w.dg.hist = append(w.dg.hist, dgRec{k: "cancel", c: contract, d: d, ok: ok})
	case "dg_params": // MsgUpdateParams variant A; B = 1: sent by an account that is not the authority
		p := c20DgParams[abs(op.A)%len(c20DgParams)]
		authority := c20GovAddr().String()
		if op.B == 1 {
			authority = w.user(op.C).String()
		}
		ok := w.dgSend(&devgastypes.MsgUpdateParams{Authority: authority, Params: p}, authority, op.D)
		w.dg.hist = append(w.dg.hist, dgRec{k: "params", params: p, auth: op.B != 1, ok: ok})
	case "fs_set": // (histories recorded before round 6) slot A: registered by its creator user B with withdrawer user C, or re-pointed to C
		slot := abs(op.A) % 5
		for len(w.dg.wasms) <= slot {
			w.block(5*time.Second, func(ctx sdk.Context) { w.wasmNew(ctx, abs(op.B)%5, 0) })
		}
		cw := &w.dg.wasms[slot]
		contract := cw.addr.String()
		k := "reg"
		var msg sdk.Msg = &devgastypes.MsgRegisterFeeShare{ContractAddress: contract, DeployerAddress: cw.authorised(), WithdrawerAddress: w.user(op.C).String()}
		if _, found := w.dgShare(contract); found {
			k = "upd"
			msg = &devgastypes.MsgUpdateFeeShare{ContractAddress: contract, DeployerAddress: cw.authorised(), WithdrawerAddress: w.user(op.C).String()}
		}
		ok := w.dgSend(msg, cw.authorised(), op.D)
		w.dg.hist = append(w.dg.hist, dgRec{k: k, c: contract, d: cw.authorised(), w: w.user(op.C).String(), ok: ok})
	case "fs_del":
		if len(w.dg.wasms) == 0 {
			w.failed++
			return
		}
		cw := &w.dg.wasms[abs(op.A)%5%len(w.dg.wasms)]
		ok := w.dgSend(&devgastypes.MsgCancelFeeShare{ContractAddress: cw.addr.String(), DeployerAddress: cw.authorised()}, cw.authorised(), op.D)
		w.dg.hist = append(w.dg.hist, dgRec{k: "cancel", c: cw.addr.String(), d: cw.authorised(), ok: ok})
	}
}

func b01(b bool) int {
	if b {
		return 1
	}
	return 0
}

// emit: the log in model shape (strings -> "s" keys, params -> ids)
// (generation > 0: the chain was started from an export and no registry message was sent on it — empty log, and the
// checker starts the replay from the registry of that generation)
func (d *c20Devgas) emit(r *reg, gen int) map[string]interface{} {
	hist := J{}
	for _, e := range d.hist {
		if gen > 0 {
			break
		}
		switch e.k {
		case "wasm":
			hist = append(hist, J{"wasm", r.S(e.c), b01(e.hasAdmin), r.S(e.admin), r.S(e.creator)})
		case "params":
			hist = append(hist, J{"params", b01(e.auth), r.DGP(e.params), 0, b01(e.ok)})
		default:
			hist = append(hist, J{e.k, r.S(e.c), r.S(e.d), r.S(e.w), b01(e.ok)})
		}
	}
	return map[string]interface{}{"gov": r.S(c20GovAddr().String()), "empty": r.S(""), "params0": r.DGP(d.params0), "hist": hist, "gen": gen}
}

// classes of registry histories, for the input histogram
func (d *c20Devgas) classes() []string {
	out := []string{}
	seen := map[string]bool{}
	add := func(s string) {
		if !seen[s] {
			seen[s] = true
			out = append(out, s)
		}
	}
	dep := map[string]string{} // contract -> deployer of the live share
	cancelled := map[string]bool{}
	for _, e := range d.hist {
		if !e.ok {
			if e.k != "wasm" {
				add(e.k + "-rejected")
			}
			continue
		}
		switch e.k {
		case "wasm":
			switch {
			case !e.hasAdmin:
				add("contract-no-admin")
			case e.admin == c20GovAddr().String():
				add("contract-gov-admin")
			case e.admin == e.creator:
				add("contract-self-admin")
			default:
				add("contract-other-admin")
			}
		case "reg":
			add("register")
			if cancelled[e.c] {
				add("register-after-cancel")
			}
			dd := e.d
			if a, err := sdk.AccAddressFromBech32(e.d); err == nil {
				dd = a.String()
			}
			if e.w == e.c {
				add("register-factory-or-self")
				dd = e.c
			}
			dep[e.c] = dd
			if strings.EqualFold(e.w, dd) {
				add("register-withdrawer-is-deployer")
			}
		case "upd":
			add("update")
			if strings.EqualFold(e.w, dep[e.c]) {
				add("update-back-to-deployer")
			}
		case "cancel":
			add("cancel")
			cancelled[e.c] = true
			delete(dep, e.c)
		case "params":
			add("params-updated")
		}
	}
	if d.nTx > 0 {
		add("via-signed-tx")
	}
	if d.nRouter > 0 {
		add("via-msg-router")
	}
	return out
}
