package c20

// C20 — state-building histories on a real NibiruApp (hx.Chain).
//
// Every op runs in its own block(s) (BeginBlock … EndBlock/Commit).  EVM state is built
// through signed Ethereum txs (DeliverTx), FunTokens through signed Cosmos txs, the other
// custom modules through their real message servers on the deliver-state context.  One thing
// has no message in the pinned tree and is driven at keeper level: oracle reward
// allocations (Keeper.AllocateRewards is the only producer of Rewards entries).
//
// x/devgas (round 6): the fee-share registry is only ever written by the three registry
// messages, so it is built by HISTORIES of those messages on real wasm contracts (reflect.wasm,
// instantiated by the users with no admin / themselves / another user / the gov module / another
// contract as admin): MsgRegisterFeeShare, MsgUpdateFeeShare (to a third account, back to the
// deployer, to the contract, to the current value, to malformed / empty / upper-case strings),
// MsgCancelFeeShare and MsgUpdateParams in every order, as signed transactions (ante + ValidateBasic)
// or through the message router (what a contract-dispatched message takes).  Every such op is
// logged (c20_devgas_test.go) and replayed by the handler model of coq/C20/Model.v.

import (
	"encoding/hex"
	"fmt"
	"math/big"
	"os"
	"strings"
	"testing"
	"time"

	sdkmath "cosmossdk.io/math"
	tmproto "github.com/cometbft/cometbft/proto/tendermint/types"
	"github.com/cosmos/cosmos-sdk/crypto/keys/ed25519"
	"github.com/cosmos/cosmos-sdk/crypto/keys/secp256k1"
	cryptotypes "github.com/cosmos/cosmos-sdk/crypto/types"
	sdk "github.com/cosmos/cosmos-sdk/types"
	bank "github.com/cosmos/cosmos-sdk/x/bank/types"
	stakingkeeper "github.com/cosmos/cosmos-sdk/x/staking/keeper"
	stakingtypes "github.com/cosmos/cosmos-sdk/x/staking/types"
	gethcommon "github.com/ethereum/go-ethereum/common"
	"github.com/ethereum/go-ethereum/crypto"

	. "verifharness/hx"

	"github.com/NibiruChain/nibiru/v2/app"
	"github.com/NibiruChain/nibiru/v2/eth"
	"github.com/NibiruChain/nibiru/v2/x/common/asset"
	"github.com/NibiruChain/nibiru/v2/x/common/testutil"
	epochstypes "github.com/NibiruChain/nibiru/v2/x/epochs/types"
	"github.com/NibiruChain/nibiru/v2/x/evm"
	"github.com/NibiruChain/nibiru/v2/x/evm/embeds"
	"github.com/NibiruChain/nibiru/v2/x/evm/evmtest"
	inflationkeeper "github.com/NibiruChain/nibiru/v2/x/inflation/keeper"
	inflationtypes "github.com/NibiruChain/nibiru/v2/x/inflation/types"
	oraclekeeper "github.com/NibiruChain/nibiru/v2/x/oracle/keeper"
	oracletypes "github.com/NibiruChain/nibiru/v2/x/oracle/types"
	sudokeeper "github.com/NibiruChain/nibiru/v2/x/sudo/keeper"
	sudotypes "github.com/NibiruChain/nibiru/v2/x/sudo/types"
	tftypes "github.com/NibiruChain/nibiru/v2/x/tokenfactory/types"
)

// one state-building step; the meaning of A,B,C depends on K (see apply)
type c20Op struct {
	K     string   `json:"k"`
	A     int      `json:"a"`
	B     int      `json:"b"`
	C     int      `json:"c"`
	D     int      `json:"d,omitempty"` // devgas ops: 0 = signed transaction (when the sender has a key), 1 = message router
	Slots [][2]int `json:"slots,omitempty"`
}

const c20VotePeriod = 4

// store contract runtime: calldata word0 = op (1: sstore(word1, word2); 2: selfdestruct(caller);
// 3: return sload(word1)); anything else: stop.
var c20Runtime = mustHex("600035806001146018578060021460225760031460265700" +
	"5b5060403560203555" + "00" + "5b5033ff" + "5b602035546000526020600" + "0f3")

func mustHex(s string) []byte {
	b, err := hex.DecodeString(s)
	if err != nil {
		panic(err)
	}
	return b
}

func word(n int64) []byte { return gethcommon.BigToHash(big.NewInt(n)).Bytes() }

// initcode: SSTORE every (k,v) then return the runtime (+ two data bytes making the code
// hash depend on `variant`), or return empty code when `empty`.
func c20InitCode(slots [][2]int, variant int, empty bool) []byte {
	var b []byte
	for _, s := range slots {
		b = append(b, 0x7f)
		b = append(b, word(int64(s[1]))...)
		b = append(b, 0x7f)
		b = append(b, word(int64(s[0]))...)
		b = append(b, 0x55)
	}
	if empty {
		return append(b, 0x60, 0x00, 0x60, 0x00, 0xf3)
	}
	rt := append(append([]byte{}, c20Runtime...), 0x00, byte(variant))
	off := len(b) + 13
	b = append(b, 0x60, byte(len(rt)), 0x61, byte(off>>8), byte(off), 0x60, 0x00, 0x39, 0x60, byte(len(rt)), 0x60, 0x00, 0xf3)
	return append(b, rt...)
}

type c20Prevote struct {
	salt, rates string
	period      uint64
}

type c20World struct {
	t        *testing.T
	c        *Chain
	eth      []evmtest.EthPrivKeyAcc
	cosmos   *secp256k1.PrivKey
	caddr    sdk.AccAddress
	users    []sdk.AccAddress
	vals     []sdk.ValAddress
	root     string
	stores   []gethcommon.Address // store contracts, in deployment order
	erc20s   []gethcommon.Address
	tfDenoms []string
	coins    []string // bank denoms with metadata that are not yet funtokens
	ftCoins  []string // coin-born funtoken denoms
	prevotes map[int]c20Prevote
	failed   int // ops the implementation rejected (harmless; reported for the histogram)
	nCoin    int
	dg       c20Devgas // wasm contracts + the log of x/devgas message-handler calls
	userKeys []*secp256k1.PrivKey
}

var c20Price = big.NewInt(1_000_000_000_000)

// candidate oracle pairs for whitelist edits
// (arbitrary VALID strings, not only the lower-case defaults: IBC vouchers with upper-case hex, mixed case,
// punctuation — everything sdk.ValidateDenom accepts can be whitelisted through MsgEditOracleParams)
var c20Pairs = []asset.Pair{"ubtc:uusd", "ibc/27394FB092D2ECCD56123C74F36E4C1F926001CEADA9CA97EA622B25F41E5EB2:uusd",
	"uATOM:uusd", "unibi:UUSD", "WBTC-1.e_x:uusd", "ueth:uusd"}

// sub-denominations, bank coin denoms and an extra epoch identifier in the same spirit
var c20Subdenoms = []string{"sub0", "Sub1", "SUB.2-x", "s_U:b3"}
var c20CoinDenoms = []string{"ucoin0", "ibc/C4CFF46FD6DE35CA4CF4CE031E643C8FDC9BA4B99AE598E9B0ED98FE3A2319F9", "Coin2X", "uCOIN.3-b", "ucoin4", "WETH_5"}

const c20ExtraEpoch = "Quarter Hour/15-Min" // identifiers are free-form strings

// a NOT-YET-STARTED, FUTURE-DATED epoch definition in the chain's own genesis (start_time = genesis time + offset):
// it is exported unchanged until its start date, and imports happen before / at / after that date
const c20SchedEpoch = "Scheduled/Launch-Week"

var c20SchedOffsets = []time.Duration{0, time.Hour, 3 * 24 * time.Hour, 30 * 24 * time.Hour, 400 * 24 * time.Hour}

func c20Genesis(emptyWhitelist bool, sched int) app.GenesisState {
	enc := app.MakeEncodingConfig()
	gen := app.GenesisState{}
	eg := epochstypes.DefaultGenesisFromTime(GenesisTime)
	eg.Epochs = append(eg.Epochs, epochstypes.EpochInfo{Identifier: c20ExtraEpoch, StartTime: GenesisTime, Duration: 15 * time.Minute,
		CurrentEpochStartTime: GenesisTime})
	if off := c20SchedOffsets[abs(sched)%len(c20SchedOffsets)]; off > 0 {
		eg.Epochs = append(eg.Epochs, epochstypes.EpochInfo{Identifier: c20SchedEpoch, StartTime: GenesisTime.Add(off), Duration: 7 * 24 * time.Hour})
	}
	gen[epochstypes.ModuleName] = enc.Codec.MustMarshalJSON(eg)
	og := oracletypes.DefaultGenesisState()
	og.Params.VotePeriod = c20VotePeriod
	og.Params.MinVoters = 1
	og.Params.SlashWindow = 1 << 40
	og.Params.ExpirationBlocks = 40
	if emptyWhitelist {
		og.Params.Whitelist = nil
	}
	gen[oracletypes.ModuleName] = enc.Codec.MustMarshalJSON(og)
	return gen
}

func newC20World(t *testing.T, emptyWhitelist bool, sched int) *c20World {
	w := &c20World{t: t, c: NewChain(c20Genesis(emptyWhitelist, sched)), prevotes: map[int]c20Prevote{}, root: testutil.ADDR_SUDO_ROOT}
	c := w.c
	c.BeginBlock(5 * time.Second)
	for i := 0; i < 3; i++ {
		a := evmtest.NewEthPrivAcc()
		w.eth = append(w.eth, a)
		w.must(c.Fund(a.NibiruAddr, Unibi(1e15)))
	}
	w.cosmos = secp256k1.GenPrivKey()
	w.caddr = sdk.AccAddress(w.cosmos.PubKey().Address())
	coins := Unibi(1e15)
	for i := 0; i < 6; i++ {
		d := c20CoinDenoms[i]
		coins = coins.Add(sdk.NewCoin(d, sdkmath.NewInt(1_000_000)))
		c.App.BankKeeper.SetDenomMetaData(c.Ctx(), bank.Metadata{
			DenomUnits: []*bank.DenomUnit{{Denom: d, Exponent: 0}}, Base: d, Display: d, Name: d, Symbol: strings.ToUpper(d),
		})
		w.coins = append(w.coins, d)
	}
	w.must(c.Fund(w.caddr, coins))
	for i := 0; i < 5; i++ {
		uk := secp256k1.GenPrivKeyFromSecret([]byte(fmt.Sprintf("c20-user-%d", i)))
		u := sdk.AccAddress(uk.PubKey().Address())
		w.userKeys = append(w.userKeys, uk)
		w.users = append(w.users, u)
		w.must(c.Fund(u, Unibi(1e12)))
	}
	// the genesis validator + two created through the staking message server
	c.App.StakingKeeper.IterateValidators(c.Ctx(), func(_ int64, v stakingtypes.ValidatorI) bool {
		w.vals = append(w.vals, v.GetOperator())
		return false
	})
	sh := stakingkeeper.NewMsgServerImpl(c.App.StakingKeeper)
	for i := 0; i < 2; i++ {
		op := sdk.AccAddress(secp256k1.GenPrivKeyFromSecret([]byte(fmt.Sprintf("c20-val-%d", i))).PubKey().Address())
		w.must(c.Fund(op, sdk.NewCoins(sdk.NewCoin("unibi", sdk.TokensFromConsensusPower(100, sdk.DefaultPowerReduction)))))
		cons := cryptotypes.PubKey(ed25519.GenPrivKeyFromSecret([]byte(fmt.Sprintf("c20-cons-%d", i))).PubKey())
		_, err := sh.CreateValidator(c.Ctx(), oraclekeeper.NewTestMsgCreateValidator(sdk.ValAddress(op), cons,
			sdk.TokensFromConsensusPower(int64(10+i), sdk.DefaultPowerReduction)))
		w.must(err)
		w.vals = append(w.vals, sdk.ValAddress(op))
	}
	w.dg.params0 = c.App.DevGasKeeper.GetParams(c.Ctx())
	c.EndBlock()
	return w
}

func (w *c20World) must(err error) {
	if err != nil {
		w.t.Fatalf("c20 world: %v", err)
	}
}

func (w *c20World) note(err error) bool {
	if err != nil {
		w.failed++
		return false
	}
	return true
}

// rctx: a context for reading (deliver state inside a block, committed state otherwise)
func (w *c20World) rctx() sdk.Context {
	if w.c.InBlock {
		return w.c.Ctx()
	}
	return w.c.App.NewContext(true, tmproto.Header{Height: w.c.App.LastBlockHeight(), Time: w.c.Time})
}

func (w *c20World) nonce(a sdk.AccAddress) uint64 {
	acc := w.c.App.AccountKeeper.GetAccount(w.rctx(), a)
	if acc == nil {
		return 0
	}
	return acc.GetSequence()
}

func (w *c20World) block(dt time.Duration, f func(ctx sdk.Context)) {
	w.c.BeginBlock(dt)
	if f != nil {
		f(w.c.Ctx())
	}
	w.c.EndBlock()
}

func (w *c20World) height() uint64 { return uint64(w.c.App.LastBlockHeight()) }

func (w *c20World) ethTx(who int, to *gethcommon.Address, input []byte, gas uint64) bool {
	a := w.eth[who%len(w.eth)]
	ok := false
	w.c.BeginBlock(5 * time.Second)
	msg, err := w.c.SignEth(a, &evm.EvmTxArgs{Nonce: w.nonce(a.NibiruAddr), GasLimit: gas, GasPrice: c20Price, To: to, Input: input})
	w.must(err)
	r := w.c.DeliverEth(msg)
	if r.Code == 0 {
		if resp, err := evm.DecodeTxResponse(r.Data); err == nil && resp.VmError == "" {
			ok = true
		}
	}
	w.c.EndBlock()
	if !ok {
		w.failed++
		if os.Getenv("C20_DEBUG") != "" {
			resp, _ := evm.DecodeTxResponse(r.Data)
			w.t.Logf("eth tx failed: code=%d log=%.300s resp=%v", r.Code, r.Log, resp)
		}
	}
	return ok
}

func (w *c20World) cosmosTx(msgs ...sdk.Msg) bool {
	w.c.BeginBlock(5 * time.Second)
	r := w.c.DeliverCosmos(w.cosmos, 5_000_000, Unibi(1_000_000), msgs...)
	w.c.EndBlock()
	return w.note(codeErr(r.Code, r.Log))
}

func codeErr(code uint32, log string) error {
	if code != 0 {
		return fmt.Errorf("code %d: %s", code, log)
	}
	return nil
}

func (w *c20World) user(i int) sdk.AccAddress { return w.users[abs(i)%len(w.users)] }

func abs(i int) int {
	if i < 0 {
		return -i
	}
	return i
}

func (w *c20World) apply(op c20Op) {
	c := w.c
	switch op.K {
	case "block": // A short blocks
		for i := 0; i < 1+abs(op.A)%6; i++ {
			w.block(5*time.Second, nil)
		}
	case "epoch": // A day-long blocks: epochs tick, inflation hook runs
		for i := 0; i < 1+abs(op.A)%3; i++ {
			w.block(24*time.Hour+time.Second, nil)
		}
	case "deploy": // store contract with constructor slots; B = code variant; C=1: empty runtime code
		who := abs(op.A)
		a := w.eth[who%len(w.eth)]
		n := w.nonce(a.NibiruAddr)
		if w.ethTx(who, nil, c20InitCode(op.Slots, abs(op.B)%3, op.C == 1), 200_000+uint64(len(op.Slots))*30_000) {
			w.stores = append(w.stores, crypto.CreateAddress(a.EthAddr, n))
		}
	case "sstore": // contract A: slot B := C
		if len(w.stores) == 0 {
			w.failed++
			return
		}
		to := w.stores[abs(op.A)%len(w.stores)]
		in := append(append(word(1), word(int64(op.B))...), word(int64(op.C))...)
		w.ethTx(op.A, &to, in, 100_000)
	case "destroy": // contract A self-destructs
		if len(w.stores) == 0 {
			w.failed++
			return
		}
		to := w.stores[abs(op.A)%len(w.stores)]
		w.ethTx(op.A, &to, word(2), 100_000)
	case "erc20": // deploy an ERC20 (A = name variant) and map it to a bank coin
		who := abs(op.A)
		a := w.eth[who%len(w.eth)]
		n := w.nonce(a.NibiruAddr)
		args, err := embeds.SmartContract_ERC20MinterWithMetadataUpdates.ABI.Pack("", fmt.Sprintf("Token%d", op.B), fmt.Sprintf("TK%d", op.B), uint8(6+abs(op.B)%13))
		w.must(err)
		if !w.ethTx(who, nil, append(append([]byte{}, embeds.SmartContract_ERC20MinterWithMetadataUpdates.Bytecode...), args...), 3_000_000) {
			return
		}
		addr := crypto.CreateAddress(a.EthAddr, n)
		if w.cosmosTx(&evm.MsgCreateFunToken{FromErc20: &eth.EIP55Addr{Address: addr}, Sender: w.caddr.String()}) {
			w.erc20s = append(w.erc20s, addr)
		}
	case "ftcoin": // FunToken from a bank coin: A even -> a plain coin with metadata, odd -> a token-factory denom
		var d string
		if op.A%2 == 0 || len(w.tfDenoms) == 0 {
			if len(w.coins) == 0 {
				w.failed++
				return
			}
			d = w.coins[0]
		} else {
			d = w.tfDenoms[abs(op.B)%len(w.tfDenoms)]
		}
		if w.cosmosTx(&evm.MsgCreateFunToken{FromBankDenom: d, Sender: w.caddr.String()}) {
			if len(w.coins) > 0 && d == w.coins[0] {
				w.coins = w.coins[1:]
				w.ftCoins = append(w.ftCoins, d)
			}
		}
	case "convert": // move B+1 units of coin-born funtoken A into its ERC20
		if len(w.ftCoins) == 0 {
			w.failed++
			return
		}
		d := w.ftCoins[abs(op.A)%len(w.ftCoins)]
		w.cosmosTx(&evm.MsgConvertCoinToEvm{Sender: w.caddr.String(), BankCoin: sdk.NewCoin(d, sdkmath.NewInt(int64(1+abs(op.B)%50))),
			ToEthAddr: eth.EIP55Addr{Address: w.eth[abs(op.C)%len(w.eth)].EthAddr}})
	case "tf_create": // user A creates subdenom B
		w.block(5*time.Second, func(ctx sdk.Context) {
			u := w.user(op.A)
			resp, err := c.App.TokenFactoryKeeper.CreateDenom(ctx, &tftypes.MsgCreateDenom{Sender: u.String(), Subdenom: c20Subdenoms[abs(op.B)%4]})
			if w.note(err) {
				w.tfDenoms = append(w.tfDenoms, resp.NewTokenDenom)
			}
		})
	case "tf_admin": // current admin of denom A hands it to user B (C=1: a stranger tries)
		if len(w.tfDenoms) == 0 {
			w.failed++
			return
		}
		w.block(5*time.Second, func(ctx sdk.Context) {
			d := w.tfDenoms[abs(op.A)%len(w.tfDenoms)]
			admin, _ := c.App.TokenFactoryKeeper.Store.GetAdmin(ctx, d)
			if op.C == 1 {
				admin = w.user(op.B + 1).String()
			}
			_, err := c.App.TokenFactoryKeeper.ChangeAdmin(ctx, &tftypes.MsgChangeAdmin{Sender: admin, Denom: d, NewAdmin: w.user(op.B).String()})
			w.note(err)
		})
	case "tf_md": // admin of denom A sets custom bank metadata (variant B)
		if len(w.tfDenoms) == 0 {
			w.failed++
			return
		}
		w.block(5*time.Second, func(ctx sdk.Context) {
			d := w.tfDenoms[abs(op.A)%len(w.tfDenoms)]
			admin, _ := c.App.TokenFactoryKeeper.Store.GetAdmin(ctx, d)
			disp := fmt.Sprintf("DISP%d", abs(op.B)%5)
			md := bank.Metadata{Base: d, Display: disp, Name: "Custom " + disp, Symbol: disp,
				DenomUnits: []*bank.DenomUnit{{Denom: d, Exponent: 0}, {Denom: disp, Exponent: uint32(3 + abs(op.B)%6)}}}
			_, err := c.App.TokenFactoryKeeper.SetDenomMetadata(ctx, &tftypes.MsgSetDenomMetadata{Sender: admin, Metadata: md})
			w.note(err)
		})
	case "tf_mint": // admin of denom A mints B+1 to user C
		if len(w.tfDenoms) == 0 {
			w.failed++
			return
		}
		w.block(5*time.Second, func(ctx sdk.Context) {
			d := w.tfDenoms[abs(op.A)%len(w.tfDenoms)]
			admin, _ := c.App.TokenFactoryKeeper.Store.GetAdmin(ctx, d)
			_, err := c.App.TokenFactoryKeeper.Mint(ctx, &tftypes.MsgMint{Sender: admin, Coin: sdk.NewCoin(d, sdkmath.NewInt(int64(1+abs(op.B)%1000))), MintTo: w.user(op.C).String()})
			w.note(err)
		})
	case "sudo_add", "sudo_rm": // root adds / removes users A..A+B as sudo contracts
		w.block(5*time.Second, func(ctx sdk.Context) {
			var cs []string
			for i := 0; i <= abs(op.B)%3; i++ {
				cs = append(cs, w.user(op.A+i).String())
			}
			act := "add_contracts"
			if op.K == "sudo_rm" {
				act = "remove_contracts"
			}
			_, err := sudokeeper.NewMsgServer(c.App.SudoKeeper).EditSudoers(ctx, &sudotypes.MsgEditSudoers{Action: act, Contracts: cs, Sender: w.root})
			w.note(err)
		})
	case "sudo_root": // root hands over to user A
		w.block(5*time.Second, func(ctx sdk.Context) {
			nr := w.user(op.A).String()
			_, err := sudokeeper.NewMsgServer(c.App.SudoKeeper).ChangeRoot(ctx, &sudotypes.MsgChangeRoot{Sender: w.root, NewRoot: nr})
			if w.note(err) {
				w.root = nr
			}
		})
	case "infl_toggle":
		w.block(5*time.Second, func(ctx sdk.Context) {
			_, err := inflationkeeper.NewMsgServerImpl(c.App.InflationKeeper).ToggleInflation(ctx, &inflationtypes.MsgToggleInflation{Sender: w.root, Enable: op.A%2 == 1})
			w.note(err)
		})
	case "infl_params": // epochs per period := 1 + A%5, max period B
		w.block(5*time.Second, func(ctx sdk.Context) {
			epp := sdkmath.NewInt(int64(1 + abs(op.A)%5))
			mp := sdkmath.NewInt(int64(2 + abs(op.B)%40))
			_, err := inflationkeeper.NewMsgServerImpl(c.App.InflationKeeper).EditInflationParams(ctx, &inflationtypes.MsgEditInflationParams{Sender: w.root, EpochsPerPeriod: &epp, MaxPeriod: &mp})
			w.note(err)
		})
	case "wasm_new", "wasm_admin", "fs_reg", "fs_upd", "fs_cancel", "dg_params", "fs_set", "fs_del":
		w.applyDevgas(op)
	case "or_delegate": // validator A delegates its feeder rights to user B
		w.block(5*time.Second, func(ctx sdk.Context) {
			v := w.vals[abs(op.A)%len(w.vals)]
			_, err := oraclekeeper.NewMsgServerImpl(c.App.OracleKeeper, c.App.SudoKeeper).DelegateFeedConsent(ctx, &oracletypes.MsgDelegateFeedConsent{Operator: v.String(), Delegate: w.user(op.B).String()})
			w.note(err)
		})
	case "or_prevote": // validators in bitmask A commit to rates (variant B)
		w.block(5*time.Second, func(ctx sdk.Context) {
			ms := oraclekeeper.NewMsgServerImpl(c.App.OracleKeeper, c.App.SudoKeeper)
			for i, v := range w.vals {
				if op.A&(1<<i) == 0 {
					continue
				}
				pv := c20Prevote{salt: fmt.Sprintf("salt%d", op.B+i), rates: c20Rates(ctx, c.App.OracleKeeper, op.B+(1-abs(op.B)%2)*i), period: uint64(ctx.BlockHeight()) / c20VotePeriod}
				feeder := c.App.OracleKeeper.FeederDelegations.GetOr(ctx, v, sdk.AccAddress(v))
				_, err := ms.AggregateExchangeRatePrevote(ctx, &oracletypes.MsgAggregateExchangeRatePrevote{
					Hash: oracletypes.GetAggregateVoteHash(pv.salt, pv.rates, v).String(), Feeder: feeder.String(), Validator: v.String()})
				if w.note(err) {
					w.prevotes[i] = pv
				}
			}
		})
	case "or_vote": // validators in bitmask A reveal (in the period after their prevote)
		want := uint64(0)
		for i := range w.vals {
			if op.A&(1<<i) != 0 {
				if pv, ok := w.prevotes[i]; ok && pv.period+1 > want {
					want = pv.period + 1
				}
			}
		}
		for (w.height()+1)/c20VotePeriod < want {
			w.block(5*time.Second, nil)
		}
		w.block(5*time.Second, func(ctx sdk.Context) {
			ms := oraclekeeper.NewMsgServerImpl(c.App.OracleKeeper, c.App.SudoKeeper)
			for i, v := range w.vals {
				pv, ok := w.prevotes[i]
				if op.A&(1<<i) == 0 || !ok {
					continue
				}
				feeder := c.App.OracleKeeper.FeederDelegations.GetOr(ctx, v, sdk.AccAddress(v))
				_, err := ms.AggregateExchangeRateVote(ctx, &oracletypes.MsgAggregateExchangeRateVote{Salt: pv.salt, ExchangeRates: pv.rates, Feeder: feeder.String(), Validator: v.String()})
				w.note(err)
				delete(w.prevotes, i)
			}
		})
	case "or_tally": // run to the end of the current vote period
		for {
			last := (w.height()+2)%c20VotePeriod == 0
			w.block(5*time.Second, nil)
			if last {
				break
			}
		}
	case "or_params": // sudo root edits the oracle whitelist (bitmask A over the candidate pairs); takes effect at the period end
		w.block(5*time.Second, func(ctx sdk.Context) {
			var wl []asset.Pair
			for i, p := range c20Pairs {
				if (1+abs(op.A))&(1<<i) != 0 {
					wl = append(wl, p)
				}
			}
			_, err := oraclekeeper.NewMsgServerImpl(c.App.OracleKeeper, c.App.SudoKeeper).EditOracleParams(ctx, &oracletypes.MsgEditOracleParams{Sender: w.root, Params: &oracletypes.OracleParamsMsg{Whitelist: wl}})
			w.note(err)
		})
	case "or_alloc": // oracle reward allocation of A+1 unibi over 1+B%4 periods (keeper API; no message exists)
		w.block(5*time.Second, func(ctx sdk.Context) {
			coins := Unibi(int64(1000 * (1 + abs(op.A)%50)))
			w.must(c.App.BankKeeper.MintCoins(ctx, inflationtypes.ModuleName, coins))
			w.note(c.App.OracleKeeper.AllocateRewards(ctx, inflationtypes.ModuleName, coins, uint64(1+abs(op.B)%4)))
		})
	default:
		w.failed++
	}
}

// rates string over the currently whitelisted pairs (first two), variant-dependent
func c20Rates(ctx sdk.Context, k oraclekeeper.Keeper, variant int) string {
	pairs := k.GetWhitelistedPairs(ctx)
	var ts oracletypes.ExchangeRateTuples
	for i, p := range pairs {
		if i >= 2 {
			break
		}
		rate := int64(10*(i+1) + abs(variant)%3)
		if abs(variant)%2 == 1 {
			rate = int64(10 + abs(variant)%3) // odd variants: every pair gets the SAME rate
		}
		ts = append(ts, oracletypes.ExchangeRateTuple{Pair: p, ExchangeRate: sdkmath.LegacyNewDec(rate)})
	}
	s, _ := ts.ToString()
	return s
}
