// Package harness drives the real NibiruChain/nibiru code (replace => /repo) on
// generated histories and prints, one JSON line per case, the inputs and the
// projected observables that the Coq models are compared with.
//
// Every driver is a Go test `TestCxx` that reads:
//
//	VERIF_SEED   integer seed (all randomness derives from it through splitmix64)
//	VERIF_TIER   quick | thorough
//	VERIF_N      number of cases to generate (optional, driver default otherwise)
//	VERIF_OUT    path of the JSONL trace to write (required)
//	VERIF_REPLAY path of a JSON file holding {"inputs":[...]}: run exactly these
//	             inputs instead of generating
package hx

import (
	"bufio"
	"encoding/json"
	"fmt"
	"os"
	"strconv"
	"testing"
)

// ---------------------------------------------------------------- PRNG

// Rng is splitmix64; the single source of randomness of every driver.
type Rng struct{ s uint64 }

func NewRng(seed uint64) *Rng { return &Rng{s: seed} }

func (r *Rng) Next() uint64 {
	r.s += 0x9e3779b97f4a7c15
	z := r.s
	z = (z ^ (z >> 30)) * 0xbf58476d1ce4e5b9
	z = (z ^ (z >> 27)) * 0x94d049bb133111eb
	return z ^ (z >> 31)
}

// Intn returns a value in [0,n).
func (r *Rng) Intn(n int) int {
	if n <= 0 {
		return 0
	}
	return int(r.Next() % uint64(n))
}

// Range returns a value in [lo,hi].
func (r *Rng) Range(lo, hi int) int { return lo + r.Intn(hi-lo+1) }

// Chance is true with probability num/den.
func (r *Rng) Chance(num, den int) bool { return r.Intn(den) < num }

// Fork derives an independent stream (used per case so that a case replays alone).
func (r *Rng) Fork() *Rng { return NewRng(r.Next()) }

// Pick returns one of the weights' indices with probability proportional to it.
func (r *Rng) Pick(weights ...int) int {
	tot := 0
	for _, w := range weights {
		tot += w
	}
	x := r.Intn(tot)
	for i, w := range weights {
		if x < w {
			return i
		}
		x -= w
	}
	return len(weights) - 1
}

// ---------------------------------------------------------------- run config

type RunCfg struct {
	Seed   uint64
	Tier   string
	N      int
	Out    string
	Replay string
}

func LoadCfg(t *testing.T, defQuick, defThorough int) RunCfg {
	c := RunCfg{Seed: 1, Tier: "quick"}
	if v := os.Getenv("VERIF_SEED"); v != "" {
		if s, err := strconv.ParseUint(v, 10, 64); err == nil {
			c.Seed = s
		} else if s, err := strconv.ParseInt(v, 10, 64); err == nil {
			c.Seed = uint64(s)
		}
	}
	if v := os.Getenv("VERIF_TIER"); v == "thorough" {
		c.Tier = v
	}
	c.N = defQuick
	if c.Tier == "thorough" {
		c.N = defThorough
	}
	if v := os.Getenv("VERIF_N"); v != "" {
		if n, err := strconv.Atoi(v); err == nil && n > 0 {
			c.N = n
		}
	}
	c.Out = os.Getenv("VERIF_OUT")
	if c.Out == "" {
		t.Skip("VERIF_OUT not set: harness drivers are run by /verif/tools/check.py")
	}
	c.Replay = os.Getenv("VERIF_REPLAY")
	return c
}

// ReplayInputs reads {"inputs":[...]} from the replay file.
func (c RunCfg) ReplayInputs(t *testing.T) []json.RawMessage {
	bz, err := os.ReadFile(c.Replay)
	if err != nil {
		t.Fatalf("replay file: %v", err)
	}
	var f struct {
		Inputs []json.RawMessage `json:"inputs"`
	}
	if err := json.Unmarshal(bz, &f); err != nil {
		t.Fatalf("replay file: %v", err)
	}
	return f.Inputs
}

// ---------------------------------------------------------------- emitter

type Emitter struct {
	f *os.File
	w *bufio.Writer
	n int
}

func NewEmitter(t *testing.T, path string) *Emitter {
	// append: several drivers of one property may write to the same trace (check.py removes it first)
	f, err := os.OpenFile(path, os.O_CREATE|os.O_WRONLY|os.O_APPEND, 0o644)
	if err != nil {
		t.Fatalf("VERIF_OUT: %v", err)
	}
	return &Emitter{f: f, w: bufio.NewWriterSize(f, 1<<20)}
}

// Emit writes one record {"id":n,"input":…,"obs":…} (+ extra keys).
func (e *Emitter) Emit(input, obs interface{}, extra map[string]interface{}) {
	rec := map[string]interface{}{"id": e.n, "input": input, "obs": obs}
	for k, v := range extra {
		rec[k] = v
	}
	bz, err := json.Marshal(rec)
	if err != nil {
		panic(fmt.Sprintf("emit: %v", err))
	}
	e.w.Write(bz)
	e.w.WriteByte('\n')
	e.n++
}

func (e *Emitter) Close() {
	e.w.Flush()
	e.f.Close()
}

// Recover runs f and reports a Go panic as a string ("" when none).
func Recover(f func()) (panicked string) {
	defer func() {
		if r := recover(); r != nil {
			panicked = fmt.Sprint(r)
		}
	}()
	f()
	return ""
}
