package hx

import (
	"math/big"
	"math/rand"
	"time"

	sdkmath "cosmossdk.io/math"
	abci "github.com/cometbft/cometbft/abci/types"
	tmproto "github.com/cometbft/cometbft/proto/tendermint/types"
	"github.com/cosmos/cosmos-sdk/client"
	codectypes "github.com/cosmos/cosmos-sdk/codec/types"
	cryptotypes "github.com/cosmos/cosmos-sdk/crypto/types"
	"github.com/cosmos/cosmos-sdk/testutil/sims"
	sdk "github.com/cosmos/cosmos-sdk/types"
	authtx "github.com/cosmos/cosmos-sdk/x/auth/tx"
	gethcore "github.com/ethereum/go-ethereum/core/types"

	"github.com/NibiruChain/nibiru/v2/app"
	"github.com/NibiruChain/nibiru/v2/app/appconst"
	"github.com/NibiruChain/nibiru/v2/x/common/testutil/testapp"
	"github.com/NibiruChain/nibiru/v2/x/evm"
	"github.com/NibiruChain/nibiru/v2/x/evm/evmtest"
)

// Chain drives a real NibiruApp through the ABCI: BeginBlock / DeliverTx /
// EndBlock / Commit with a deterministic clock.
type Chain struct {
	App     *app.NibiruApp
	TxCfg   client.TxConfig
	Header  tmproto.Header
	InBlock bool
	Time    time.Time
	ChainID *big.Int // eth chain id
}

// GenesisTime is the fixed clock origin of every harness chain.
var GenesisTime = time.Unix(1_700_000_000, 0).UTC()

func NewChain(genesis app.GenesisState) *Chain {
	if genesis == nil {
		genesis = app.GenesisState{}
	}
	napp, _ := testapp.NewNibiruTestApp(genesis)
	napp.Commit()
	c := &Chain{App: napp, TxCfg: app.MakeEncodingConfig().TxConfig, Time: GenesisTime}
	return c
}

// BeginBlock opens the next block, dt after the previous one.
func (c *Chain) BeginBlock(dt time.Duration) abci.ResponseBeginBlock {
	c.Time = c.Time.Add(dt)
	c.Header = tmproto.Header{Height: c.App.LastBlockHeight() + 1, Time: c.Time}
	r := c.App.BeginBlock(abci.RequestBeginBlock{Header: c.Header})
	c.InBlock = true
	if c.ChainID == nil {
		c.ChainID = appconst.GetEthChainID(c.Ctx().ChainID())
	}
	return r
}

// Ctx is the deliver-state context of the open block (writes land in block state).
func (c *Chain) Ctx() sdk.Context { return c.App.NewContext(false, c.Header) }

// EndBlock closes the block and commits it; returns EndBlock response and app hash.
func (c *Chain) EndBlock() (abci.ResponseEndBlock, []byte) {
	r := c.App.EndBlock(abci.RequestEndBlock{Height: c.Header.Height})
	cm := c.App.Commit()
	c.InBlock = false
	return r, cm.Data
}

func (c *Chain) Fund(addr sdk.AccAddress, coins sdk.Coins) error {
	return testapp.FundAccount(c.App.BankKeeper, c.Ctx(), addr, coins)
}

func Unibi(n int64) sdk.Coins { return sdk.NewCoins(sdk.NewCoin("unibi", sdkmath.NewInt(n))) }

// SignEth signs an EVM tx for the harness chain with the given account.
func (c *Chain) SignEth(acc evmtest.EthPrivKeyAcc, args *evm.EvmTxArgs) (*evm.MsgEthereumTx, error) {
	if args.ChainID == nil {
		args.ChainID = c.ChainID
	}
	tx := evm.NewTx(args)
	tx.From = acc.EthAddr.Hex()
	if err := tx.Sign(gethcore.LatestSignerForChainID(args.ChainID), acc.KeyringSigner); err != nil {
		return nil, err
	}
	return tx, nil
}

// EncodeEth wraps signed MsgEthereumTx messages in one Cosmos tx with the EVM
// extension option, as the JSON-RPC layer does.
func (c *Chain) EncodeEth(msgs ...*evm.MsgEthereumTx) ([]byte, error) {
	b := c.TxCfg.NewTxBuilder().(authtx.ExtensionOptionsTxBuilder)
	opt, err := codectypes.NewAnyWithValue(&evm.ExtensionOptionsEthereumTx{})
	if err != nil {
		return nil, err
	}
	b.SetExtensionOptions(opt)
	var sm []sdk.Msg
	fee := sdkmath.ZeroInt()
	gas := uint64(0)
	for _, m := range msgs {
		m.From = ""
		sm = append(sm, m)
		fee = fee.Add(sdkmath.NewIntFromBigInt(evm.WeiToNative(m.GetFee())))
		gas += m.GetGas()
	}
	if err := b.SetMsgs(sm...); err != nil {
		return nil, err
	}
	b.SetFeeAmount(sdk.NewCoins(sdk.NewCoin("unibi", fee)))
	b.SetGasLimit(gas)
	return c.TxCfg.TxEncoder()(b.GetTx())
}

func (c *Chain) DeliverEth(msgs ...*evm.MsgEthereumTx) abci.ResponseDeliverTx {
	bz, err := c.EncodeEth(msgs...)
	if err != nil {
		return abci.ResponseDeliverTx{Code: 9999, Log: "encode: " + err.Error()}
	}
	return c.App.DeliverTx(abci.RequestDeliverTx{Tx: bz})
}

// DeliverCosmos signs msgs with priv (account number / sequence read from
// state) and delivers the tx.
func (c *Chain) DeliverCosmos(priv cryptotypes.PrivKey, gas uint64, fee sdk.Coins, msgs ...sdk.Msg) abci.ResponseDeliverTx {
	ctx := c.Ctx()
	addr := sdk.AccAddress(priv.PubKey().Address())
	acc := c.App.AccountKeeper.GetAccount(ctx, addr)
	var accNum, seq uint64
	if acc != nil {
		accNum, seq = acc.GetAccountNumber(), acc.GetSequence()
	}
	tx, err := sims.GenSignedMockTx(rand.New(rand.NewSource(1)), c.TxCfg, msgs, fee, gas, ctx.ChainID(),
		[]uint64{accNum}, []uint64{seq}, priv)
	if err != nil {
		return abci.ResponseDeliverTx{Code: 9999, Log: "build: " + err.Error()}
	}
	bz, err := c.TxCfg.TxEncoder()(tx)
	if err != nil {
		return abci.ResponseDeliverTx{Code: 9999, Log: "encode: " + err.Error()}
	}
	return c.App.DeliverTx(abci.RequestDeliverTx{Tx: bz})
}

// EventAttrs returns the attributes of all events of the given type.
func EventAttrs(events []abci.Event, typ string) []map[string]string {
	var out []map[string]string
	for _, ev := range events {
		if ev.Type != typ {
			continue
		}
		m := map[string]string{}
		for _, a := range ev.Attributes {
			m[a.Key] = a.Value
		}
		out = append(out, m)
	}
	return out
}
