package c13

// C13 — inflation mints exactly the scheduled amount and distributes all of it.
//
// A case fixes the inflation module's state (params, CurrentPeriod, NumSkippedEpochs; null
// counters = the sequences were never written) and runs a history of ops on the real keepers:
//
//	end     an epoch ends: EpochsKeeper.AfterEpochEnd(ctx, id, e) (mode "direct"), or — mode
//	        "clock", day epochs only — epochs.BeginBlocker one day later, so that the epochs module
//	        itself delivers AfterEpochEnd("day", e) through the application's MultiEpochHooks
//	toggle  InflationKeeper.Sudo().ToggleInflation(ctx, b, sender)      (sender: sudo root or a stranger)
//	edit    InflationKeeper.Sudo().EditInflationParams(ctx, msg, sender)
//	fund    stray unibi minted into the inflation module account
//	chroot  sudo MsgServer.ChangeRoot(sender, new root): the strategic-reserve recipient changes in mid-history
//
// The sudo root is part of the case: an ordinary account ("a0" = the root of the test genesis, "a1", "a2") or a module
// account of the application ("m:gov", "m:distribution", "m:fee_collector", …).  Everything runs on the keepers of the
// real application (app wiring of the tree under test: its bank keeper with its blocked-recipient table); the table is
// probed once per run (BankKeeper.BlockedAddr for every module account) and travels with every trace.
//
// Observables around each op: change of the unibi supply, of the fee collector balance, of the
// community pool and of the sudo root balance; inflation module balance, CurrentPeriod and
// NumSkippedEpochs afterwards.  Decimals travel as raw integers scaled by 10^18.

import (
	"encoding/json"
	"math/big"
	"sort"
	"strconv"
	"strings"
	"testing"
	"time"

	sdkmath "cosmossdk.io/math"
	tmproto "github.com/cometbft/cometbft/proto/tendermint/types"
	storetypes "github.com/cosmos/cosmos-sdk/store/types"
	sdk "github.com/cosmos/cosmos-sdk/types"
	authtypes "github.com/cosmos/cosmos-sdk/x/auth/types"
	distrtypes "github.com/cosmos/cosmos-sdk/x/distribution/types"

	. "verifharness/hx"

	"github.com/NibiruChain/nibiru/v2/app"
	"github.com/NibiruChain/nibiru/v2/x/common/testutil"
	"github.com/NibiruChain/nibiru/v2/x/common/testutil/testapp"
	"github.com/NibiruChain/nibiru/v2/x/epochs"
	epochstypes "github.com/NibiruChain/nibiru/v2/x/epochs/types"
	inflationtypes "github.com/NibiruChain/nibiru/v2/x/inflation/types"
	sudokeeper "github.com/NibiruChain/nibiru/v2/x/sudo/keeper"
	sudotypes "github.com/NibiruChain/nibiru/v2/x/sudo/types"
)

const unibi = "unibi"

type c13Params struct {
	Enabled bool     `json:"enabled"`
	Started bool     `json:"started"`
	Factors []string `json:"factors"` // raw 10^18-scaled integers
	Dist    []string `json:"dist"`    // staking, community, strategic
	EPP     uint64   `json:"epp"`
	PPY     uint64   `json:"ppy"`
	Max     uint64   `json:"max"`
}

type c13Op struct {
	Op string `json:"op"` // end | toggle | edit | fund
	// end
	Day bool   `json:"day,omitempty"`
	E   uint64 `json:"e,omitempty"`
	// toggle / edit
	Auth bool `json:"auth,omitempty"`
	B    bool `json:"b,omitempty"`
	// edit (nil = field absent)
	Factors *[]string `json:"factors"`
	Dist    *[]string `json:"dist"`
	EPP     *uint64   `json:"epp"`
	PPY     *uint64   `json:"ppy"`
	Max     *uint64   `json:"max"`
	// fund
	Amt int64 `json:"amt,omitempty"`
	// chroot (with auth): the new sudo root, "a<k>" or "m:<module account>"
	Root string `json:"root,omitempty"`
}

type c13Input struct {
	Mode    string    `json:"mode"` // direct | clock
	Params  c13Params `json:"params"`
	Period  *uint64   `json:"period"`  // nil (together with skipped) = sequences never written
	Skipped *uint64   `json:"skipped"` //
	Module  int64     `json:"module"`  // stray unibi in the module account at the start
	Root    string    `json:"root,omitempty"` // sudo root at the start ("" = "a0")
	Ops     []c13Op   `json:"ops"`
}

type c13Out struct {
	OK        bool     `json:"ok"`
	Panic     bool     `json:"panic"`
	Minted    *big.Int `json:"minted"`
	Staking   *big.Int `json:"staking"`
	Community *big.Int `json:"community"`
	Strategic *big.Int `json:"strategic"`
	Module    *big.Int `json:"module"`
	Period    uint64   `json:"period"`
	Skipped   uint64   `json:"skipped"`
}

type c13Obs struct {
	// probe, once per run: does AfterEpochEnd panic when the provision is positive but below one unibi?
	ZeroMintPanics bool `json:"zero_mint_panics"`
	// probe, once per run: module accounts the application's bank keeper refuses as recipients
	Blocked []string  `json:"blocked"`
	Root    string    `json:"root"` // sudo root as read back from the sudo keeper before the first op
	Params         c13Params `json:"params"` // as read back from the keeper before the first op
	Period         uint64    `json:"period"`
	Skip           uint64    `json:"skipped"`
	Module         *big.Int  `json:"module"`
	Ops            []c13Out  `json:"ops"`
}

func decOf(raw string) sdk.Dec {
	b, ok := new(big.Int).SetString(raw, 10)
	if !ok {
		panic("bad raw decimal " + raw)
	}
	return sdkmath.LegacyNewDecFromBigIntWithPrec(b, 18)
}

func rawOf(d sdk.Dec) string { return d.BigInt().String() }

func toParams(p c13Params) inflationtypes.Params {
	out := inflationtypes.Params{
		InflationEnabled: p.Enabled, HasInflationStarted: p.Started,
		EpochsPerPeriod: p.EPP, PeriodsPerYear: p.PPY, MaxPeriod: p.Max,
	}
	for _, f := range p.Factors {
		out.PolynomialFactors = append(out.PolynomialFactors, decOf(f))
	}
	out.InflationDistribution = inflationtypes.InflationDistribution{
		StakingRewards: decOf(p.Dist[0]), CommunityPool: decOf(p.Dist[1]), StrategicReserves: decOf(p.Dist[2]),
	}
	return out
}

func fromParams(p inflationtypes.Params) c13Params {
	out := c13Params{Enabled: p.InflationEnabled, Started: p.HasInflationStarted, EPP: p.EpochsPerPeriod,
		PPY: p.PeriodsPerYear, Max: p.MaxPeriod, Factors: []string{}}
	for _, f := range p.PolynomialFactors {
		out.Factors = append(out.Factors, rawOf(f))
	}
	d := p.InflationDistribution
	out.Dist = []string{rawOf(d.StakingRewards), rawOf(d.CommunityPool), rawOf(d.StrategicReserves)}
	return out
}

type c13World struct {
	app      *app.NibiruApp
	ctx      sdk.Context
	accts    []sdk.AccAddress // ordinary accounts a0 (root of the test genesis), a1, a2
	stranger sdk.AccAddress
	feeColl  sdk.AccAddress
	distr    sdk.AccAddress
	module   sdk.AccAddress
	modNames []string // module accounts of the application, sorted
	blocked  []string // those the bank keeper refuses as recipients
}

// rootAddr: the address behind a root id ("a<k>" | "m:<module account>")
func (w *c13World) rootAddr(t *testing.T, id string) sdk.AccAddress {
	if id == "" {
		id = "a0"
	}
	if strings.HasPrefix(id, "m:") {
		for _, n := range w.modNames {
			if n == id[2:] {
				return authtypes.NewModuleAddress(n)
			}
		}
		t.Fatalf("unknown module account %q", id)
	}
	k, err := strconv.Atoi(strings.TrimPrefix(id, "a"))
	if err != nil || k < 0 || k >= len(w.accts) {
		t.Fatalf("bad root id %q", id)
	}
	return w.accts[k]
}

func (w *c13World) rootID(addr sdk.AccAddress) string {
	for k, a := range w.accts {
		if a.Equals(addr) {
			return "a" + strconv.Itoa(k)
		}
	}
	for _, n := range w.modNames {
		if authtypes.NewModuleAddress(n).Equals(addr) {
			return "m:" + n
		}
	}
	return "?" + addr.String()
}

var world *c13World
var zeroMintPanics bool

type snap struct{ supply, fee, pool, root, module sdkmath.Int }

func (w *c13World) snap(ctx sdk.Context, root sdk.AccAddress) snap {
	bk := w.app.BankKeeper
	return snap{
		supply: bk.GetSupply(ctx, unibi).Amount,
		fee:    bk.GetBalance(ctx, w.feeColl, unibi).Amount,
		pool:   w.app.DistrKeeper.GetFeePool(ctx).CommunityPool.AmountOf(unibi).TruncateInt(),
		root:   bk.GetBalance(ctx, root, unibi).Amount,
		module: bk.GetBalance(ctx, w.module, unibi).Amount,
	}
}

func ensureWorld() *c13World {
	if world == nil {
		a, ctx := testapp.NewNibiruTestAppAndContext()
		world = &c13World{app: a, ctx: ctx,
			accts: []sdk.AccAddress{sdk.MustAccAddressFromBech32(testutil.ADDR_SUDO_ROOT),
				sdk.AccAddress([]byte("c13-ordinary-root-a1")), sdk.AccAddress([]byte("c13-ordinary-root-a2"))},
			stranger: sdk.AccAddress([]byte("c13-stranger-address")),
			feeColl:  a.AccountKeeper.GetModuleAddress(authtypes.FeeCollectorName),
			distr:    a.AccountKeeper.GetModuleAddress(distrtypes.ModuleName),
			module:   a.AccountKeeper.GetModuleAddress(inflationtypes.ModuleName),
		}
		for name := range a.AccountKeeper.GetModulePermissions() {
			world.modNames = append(world.modNames, name)
		}
		sort.Strings(world.modNames)
		world.blocked = []string{}
		for _, n := range world.modNames {
			if a.BankKeeper.BlockedAddr(authtypes.NewModuleAddress(n)) {
				world.blocked = append(world.blocked, n)
			}
		}
		pctx, _ := ctx.CacheContext()
		a.InflationKeeper.Params.Set(pctx, toParams(c13Params{Enabled: true, Started: true, Factors: []string{"400000000000"},
			Dist: c13Dists[0], EPP: 30, PPY: 12, Max: 96}))
		a.InflationKeeper.CurrentPeriod.Set(pctx, 0)
		a.InflationKeeper.NumSkippedEpochs.Set(pctx, 0)
		zeroMintPanics = Recover(func() { a.EpochsKeeper.AfterEpochEnd(pctx, epochstypes.DayEpochID, 1) }) != ""
	}
	return world
}

func runC13(t *testing.T, in c13Input) c13Obs {
	w := ensureWorld()
	ctx, _ := w.ctx.CacheContext()
	ik := w.app.InflationKeeper
	if in.Period == nil || in.Skipped == nil {
		// a module store in which the sequences were never written: empty the whole store
		var key storetypes.StoreKey
		for _, k := range w.app.GetStoreKeys() {
			if k.Name() == inflationtypes.StoreKey {
				key = k
			}
		}
		store := ctx.KVStore(key)
		var keys [][]byte
		it := store.Iterator(nil, nil)
		for ; it.Valid(); it.Next() {
			keys = append(keys, append([]byte{}, it.Key()...))
		}
		it.Close()
		for _, k := range keys {
			store.Delete(k)
		}
	} else {
		ik.CurrentPeriod.Set(ctx, *in.Period)
		ik.NumSkippedEpochs.Set(ctx, *in.Skipped)
	}
	ik.Params.Set(ctx, toParams(in.Params))
	sudoSrv := sudokeeper.NewMsgServer(w.app.SudoKeeper)
	cur := w.accts[0]
	if want := w.rootAddr(t, in.Root); !want.Equals(cur) {
		// the genesis root hands the sudo root over
		if _, err := sudoSrv.ChangeRoot(sdk.WrapSDKContext(ctx), &sudotypes.MsgChangeRoot{Sender: cur.String(), NewRoot: want.String()}); err != nil {
			t.Fatal(err)
		}
	}
	cur, err := w.app.SudoKeeper.GetRootAddr(ctx)
	if err != nil {
		t.Fatal(err)
	}
	if in.Module > 0 {
		if err := w.app.BankKeeper.MintCoins(ctx, inflationtypes.ModuleName, Unibi(in.Module)); err != nil {
			t.Fatal(err)
		}
	}
	now := GenesisTime
	height := int64(10)
	if in.Mode == "clock" {
		// the day epoch is about to end its epoch number <first e>
		var first uint64 = 1
		for _, op := range in.Ops {
			if op.Op == "end" && op.Day {
				first = op.E
				break
			}
		}
		for _, e := range w.app.EpochsKeeper.AllEpochInfos(ctx) {
			_ = w.app.EpochsKeeper.DeleteEpochInfo(ctx, e.Identifier)
		}
		w.app.EpochsKeeper.Epochs.Insert(ctx, epochstypes.DayEpochID, epochstypes.EpochInfo{
			Identifier: epochstypes.DayEpochID, StartTime: now, Duration: 24 * time.Hour, CurrentEpoch: first,
			CurrentEpochStartTime: now, CurrentEpochStartHeight: height, EpochCountingStarted: true,
		})
	}
	obs := c13Obs{ZeroMintPanics: zeroMintPanics, Blocked: w.blocked, Root: w.rootID(cur), Params: fromParams(ik.GetParams(ctx)),
		Period: ik.CurrentPeriod.Peek(ctx), Skip: ik.NumSkippedEpochs.Peek(ctx), Module: w.snap(ctx, cur).module.BigInt(), Ops: []c13Out{}}
	for _, op := range in.Ops {
		root := cur // the strategic-reserve recipient while this op runs
		before := w.snap(ctx, root)
		ok := true
		panicked := Recover(func() {
			switch op.Op {
			case "end":
				if in.Mode == "clock" && op.Day {
					now = now.Add(24 * time.Hour)
					height++
					bctx := ctx.WithBlockHeader(tmproto.Header{Height: height, Time: now})
					epochs.BeginBlocker(bctx, *w.app.EpochsKeeper)
				} else {
					id := epochstypes.DayEpochID
					if !op.Day {
						id = epochstypes.WeekEpochID
					}
					w.app.EpochsKeeper.AfterEpochEnd(ctx, id, op.E)
				}
			case "toggle":
				sender := root
				if !op.Auth {
					sender = w.stranger
				}
				ok = ik.Sudo().ToggleInflation(ctx, op.B, sender) == nil
			case "edit":
				sender := root
				if !op.Auth {
					sender = w.stranger
				}
				msg := inflationtypes.MsgEditInflationParams{Sender: sender.String()}
				if op.Factors != nil {
					msg.PolynomialFactors = []sdk.Dec{}
					for _, f := range *op.Factors {
						msg.PolynomialFactors = append(msg.PolynomialFactors, decOf(f))
					}
				}
				if op.Dist != nil {
					d := *op.Dist
					msg.InflationDistribution = &inflationtypes.InflationDistribution{
						StakingRewards: decOf(d[0]), CommunityPool: decOf(d[1]), StrategicReserves: decOf(d[2])}
				}
				u := func(p *uint64) *sdkmath.Int {
					if p == nil {
						return nil
					}
					x := sdkmath.NewIntFromUint64(*p)
					return &x
				}
				msg.EpochsPerPeriod, msg.PeriodsPerYear, msg.MaxPeriod = u(op.EPP), u(op.PPY), u(op.Max)
				ok = ik.Sudo().EditInflationParams(ctx, msg, sender) == nil
			case "fund":
				if err := w.app.BankKeeper.MintCoins(ctx, inflationtypes.ModuleName, Unibi(op.Amt)); err != nil {
					t.Fatal(err)
				}
			case "chroot":
				sender := root
				if !op.Auth {
					sender = w.stranger
				}
				_, err := sudoSrv.ChangeRoot(sdk.WrapSDKContext(ctx),
					&sudotypes.MsgChangeRoot{Sender: sender.String(), NewRoot: w.rootAddr(t, op.Root).String()})
				ok = err == nil
				if r, err := w.app.SudoKeeper.GetRootAddr(ctx); err == nil {
					cur = r
				}
			}
		}) != ""
		if panicked && in.Mode == "clock" && op.Op == "end" && op.Day {
			// BeginBlocker did not get to store the advanced epoch; a chain would have halted here.  Keep the clock
			// in step with the history so that the next day end carries the next number.
			w.app.EpochsKeeper.Epochs.Insert(ctx, epochstypes.DayEpochID, epochstypes.EpochInfo{
				Identifier: epochstypes.DayEpochID, StartTime: GenesisTime, Duration: 24 * time.Hour, CurrentEpoch: op.E + 1,
				CurrentEpochStartTime: now, CurrentEpochStartHeight: height, EpochCountingStarted: true,
			})
		}
		after := w.snap(ctx, root)
		// what the sudo root received as strategic reserve: the change of its balance — net of the change already
		// published under another heading when the root IS that very account (fee collector: staking; distribution
		// module account: community-pool funding; inflation module account: module balance)
		strategic := after.root.Sub(before.root)
		switch {
		case root.Equals(w.feeColl):
			strategic = strategic.Sub(after.fee.Sub(before.fee))
		case root.Equals(w.distr):
			strategic = strategic.Sub(after.pool.Sub(before.pool))
		case root.Equals(w.module):
			strategic = strategic.Sub(after.module.Sub(before.module))
		}
		obs.Ops = append(obs.Ops, c13Out{
			OK: ok, Panic: panicked, Minted: after.supply.Sub(before.supply).BigInt(), Staking: after.fee.Sub(before.fee).BigInt(),
			Community: after.pool.Sub(before.pool).BigInt(), Strategic: strategic.BigInt(),
			Module: after.module.BigInt(), Period: ik.CurrentPeriod.Peek(ctx), Skipped: ik.NumSkippedEpochs.Peek(ctx),
		})
	}
	return obs
}

// ---------------------------------------------------------------- generation

const prec = "000000000000000000" // 18 zeros

var (
	defaultFactors = []string{"-147085524000000", "74291982762000000", "-18867415611180000000", "3128641926954698000000",
		"-334834740631598223000000", "17827464906540066004000000"}
	c13Polys = [][]string{
		defaultFactors,
		{"1000500000000000000000"},                           // 1000.5
		{"-10" + prec, "1000" + prec},                        // -10 x + 1000
		{"500000000000000000", "-3" + prec, "100" + prec},    // 0.5 x^2 - 3 x + 100
		{"400000000000"},                                     // 0.0000004: provision below one unibi
		{"123456789012345678", "7" + prec, "31415926535897"}, // awkward digits
		{"2" + prec, "0", "0", "1"},                          // 2 x^3 + 1e-18
	}
	c13BadPolys = [][]string{
		{"-100" + prec, "250" + prec}, // negative from period 3 on
		{"-1" + prec},
		{"0"},
	}
	c13Dists = [][]string{
		{"281250000000000000", "354825000000000000", "363925000000000000"}, // default
		{"333333333333333333", "333333333333333333", "333333333333333334"},
		{"1" + prec, "0", "0"},
		{"0", "0", "1" + prec},
		{"500000000000000000", "500000000000000000", "0"},
		{"999999999999999999", "1", "0"},
	}
)

func randDist(r *Rng) []string {
	one := new(big.Int).Exp(big.NewInt(10), big.NewInt(18), nil)
	a := new(big.Int).SetUint64(r.Next() % 1_000_000_000_000_000_000)
	rest := new(big.Int).Sub(one, a)
	b := new(big.Int).Mod(new(big.Int).SetUint64(r.Next()), new(big.Int).Add(rest, big.NewInt(1)))
	c := new(big.Int).Sub(rest, b)
	return []string{a.String(), b.String(), c.String()}
}

func pickDist(r *Rng) []string {
	if r.Chance(1, 2) {
		return randDist(r)
	}
	return c13Dists[r.Intn(len(c13Dists))]
}

func u64(x uint64) *uint64 { return &x }

// pickPoly: the polynomial whose provision stays below one unibi only in cases that opted in
func pickPoly(r *Rng, tiny bool) []string {
	for {
		f := c13Polys[r.Intn(len(c13Polys))]
		if tiny || len(f) != 1 || f[0] != "400000000000" {
			return f
		}
	}
}

// pickRoot: a sudo root.  operable = an account that can sign as root: an ordinary account or governance; otherwise
// also any other module account of the application (most of them blocked recipients).
func pickRoot(r *Rng, operable bool) string {
	if operable {
		return []string{"a0", "a1", "a2", "m:gov"}[r.Pick(2, 1, 1, 5)]
	}
	switch r.Pick(1, 1, 3, 6) {
	case 0:
		return "a0"
	case 1:
		return "a1"
	case 2:
		return "m:gov"
	}
	names := ensureWorld().modNames
	return "m:" + names[r.Intn(len(names))]
}

func genC13Case(r *Rng) c13Input {
	wild := r.Chance(1, 4)
	epps := []uint64{1, 2, 3, 5, 7, 30}
	maxs := []uint64{0, 1, 2, 3, 4, 6, 96}
	epp, max := epps[r.Pick(1, 3, 3, 3, 2, 1)], maxs[r.Pick(1, 2, 3, 3, 2, 2, 1)]
	tiny := r.Chance(1, 10)
	in := c13Input{Mode: "direct", Params: c13Params{
		Factors: pickPoly(r, tiny), Dist: pickDist(r), EPP: epp, PPY: uint64(r.Range(1, 12)), Max: max,
	}}
	var e uint64
	switch r.Pick(3, 3, 2) {
	case 0: // a fresh chain
		in.Period, in.Skipped, e = u64(0), u64(0), 1
	case 1: // never started on a chain whose day epoch is already far ahead (module added by an upgrade)
		sk := uint64(r.Intn(400))
		in.Period, in.Skipped, e = u64(0), u64(sk), sk+1
		if r.Chance(1, 2) {
			in.Skipped = u64(uint64(r.Intn(5))) // stale skipped counter: repaired by the first disabled epoch
			if !wild {
				in.Params.Enabled, in.Params.Started = false, false
			}
		}
	case 2: // an exported running chain: c enabled epochs so far
		c := uint64(r.Intn(int(epp*(max+1)) + 3))
		sk := uint64(r.Intn(50))
		per := c / epp
		if per > max {
			per = max
		}
		in.Params.Started = true
		in.Params.Enabled = r.Chance(2, 3)
		in.Period, in.Skipped, e = u64(per), u64(sk), sk+c+1
	}
	if r.Chance(1, 7) && max > 0 {
		// genesis counters AHEAD of the epoch number (epp*period + skipped > e): the period has to wait
		per := uint64(r.Range(1, int(max)))
		sk := uint64(r.Intn(12))
		lead := uint64(r.Range(1, int(epp*per)+3))
		if lead >= epp*per+sk {
			lead = epp*per + sk - 1
		}
		in.Params.Started, in.Params.Enabled = true, true
		in.Period, in.Skipped, e = u64(per), u64(sk), epp*per+sk-lead
		if e == 0 {
			e = 1
		}
	}
	if r.Chance(1, 4) {
		in.Mode = "clock"
	}
	if wild {
		switch r.Pick(3, 2, 2, 2, 1) {
		case 0: // counters that do not fit the epoch number
			in.Period, in.Skipped = u64(uint64(r.Intn(5))), u64(uint64(r.Intn(30)))
			in.Params.Started, in.Params.Enabled = true, true
			e = uint64(r.Range(1, 60))
		case 1:
			in.Period, in.Skipped = nil, nil
		case 2:
			in.Params.Factors = c13BadPolys[r.Intn(len(c13BadPolys))]
		case 3:
			in.Module = int64(r.Range(1, 1000))
		case 4: // enabled but "never started" (the toggle message cannot produce it)
			in.Params.Enabled, in.Params.Started = true, false
		}
	}
	// the sudo root: 0 = the genesis root throughout; 1 = operable roots (ordinary accounts, governance), handed over in
	// mid-history; 2 = any account incl. module accounts the bank refuses as recipients (outside the precondition)
	rootMode := r.Pick(5, 4, 2)
	if rootMode > 0 {
		in.Root = pickRoot(r, rootMode == 1)
	}
	chrootW := 0
	if rootMode > 0 {
		chrootW = 1
	}
	horizon := int(epp*(max+2)) + r.Intn(6)
	if horizon > 70 {
		horizon = 40 + r.Intn(30)
	}
	days := 0
	kick := r.Intn(4) // a disabled start is switched on after a few epochs
	for days < horizon {
		if !wild && days == kick && !in.Params.Enabled {
			in.Ops = append(in.Ops, c13Op{Op: "toggle", Auth: true, B: true})
			kick = -1
		}
		switch r.Pick(14, 1, 1, 1, chrootW) {
		case 4:
			if r.Chance(1, 6) { // a stranger tries: nothing changes, whatever the target
				in.Ops = append(in.Ops, c13Op{Op: "chroot", Auth: false, Root: pickRoot(r, false)})
			} else {
				in.Ops = append(in.Ops, c13Op{Op: "chroot", Auth: true, Root: pickRoot(r, rootMode == 1)})
			}
		case 0:
			in.Ops = append(in.Ops, c13Op{Op: "end", Day: true, E: e})
			e++
			days++
			if wild && in.Mode == "direct" && r.Chance(1, 12) {
				e += uint64(r.Range(1, 3)) // a gap in the epoch numbers
			}
		case 1:
			b := r.Chance(1, 2)
			in.Ops = append(in.Ops, c13Op{Op: "toggle", Auth: !r.Chance(1, 8), B: b})
		case 2:
			op := c13Op{Op: "edit", Auth: !r.Chance(1, 10)}
			switch r.Pick(3, 3, 1, 1) {
			case 0:
				f := pickPoly(r, tiny)
				op.Factors = &f
			case 1:
				d := pickDist(r)
				op.Dist = &d
			case 2:
				op.PPY = u64(uint64(r.Range(1, 24)))
			case 3:
				f := pickPoly(r, tiny)
				d := pickDist(r)
				op.Factors, op.Dist = &f, &d
			}
			if wild {
				switch r.Pick(2, 2, 2, 1, 1, 1) {
				case 0:
					op.EPP = u64(epps[r.Intn(len(epps))])
				case 1:
					op.Max = u64(maxs[r.Intn(len(maxs))])
				case 2:
					d := []string{"500000000000000000", "500000000000000000", "1"}
					op.Dist = &d
				case 3:
					f := []string{}
					op.Factors = &f
				case 4:
					op.EPP = u64(0)
				case 5:
					f := c13BadPolys[r.Intn(len(c13BadPolys))]
					op.Factors = &f
				}
			}
			in.Ops = append(in.Ops, op)
		case 3:
			if wild && r.Chance(1, 3) {
				in.Ops = append(in.Ops, c13Op{Op: "fund", Amt: int64(r.Range(1, 5000))})
			} else {
				in.Ops = append(in.Ops, c13Op{Op: "end", Day: false, E: uint64(r.Range(1, 50))})
			}
		}
	}
	return in
}

func TestC13(t *testing.T) {
	cfg := LoadCfg(t, 160, 1200)
	em := NewEmitter(t, cfg.Out)
	defer em.Close()
	run := func(in c13Input) { em.Emit(in, runC13(t, in), nil) }
	if cfg.Replay != "" {
		for _, raw := range cfg.ReplayInputs(t) {
			var in c13Input
			if err := json.Unmarshal(raw, &in); err != nil {
				t.Fatal(err)
			}
			run(in)
		}
		return
	}
	// fixed openers: the default parameters across a period boundary with a disable/enable gap, and the whole
	// 96-period default schedule sampled at its end
	def := c13Params{Factors: defaultFactors, Dist: c13Dists[0], EPP: 30, PPY: 12, Max: 96}
	var ops []c13Op
	ops = append(ops, c13Op{Op: "end", Day: true, E: 1}, c13Op{Op: "end", Day: true, E: 2}, c13Op{Op: "toggle", Auth: true, B: true})
	for e := uint64(3); e < 3+28; e++ {
		ops = append(ops, c13Op{Op: "end", Day: true, E: e})
	}
	ops = append(ops, c13Op{Op: "toggle", Auth: true, B: false}, c13Op{Op: "end", Day: true, E: 31}, c13Op{Op: "end", Day: true, E: 32},
		c13Op{Op: "toggle", Auth: true, B: true})
	for e := uint64(33); e < 33+34; e++ {
		ops = append(ops, c13Op{Op: "end", Day: true, E: e})
	}
	run(c13Input{Mode: "direct", Params: def, Period: u64(0), Skipped: u64(0), Ops: ops})
	ops = nil
	for e := uint64(2870); e < 2870+20; e++ {
		ops = append(ops, c13Op{Op: "end", Day: true, E: e})
	}
	run(c13Input{Mode: "clock", Params: c13Params{Enabled: true, Started: true, Factors: defaultFactors, Dist: c13Dists[0], EPP: 30, PPY: 12, Max: 96},
		Period: u64(95), Skipped: u64(0), Ops: ops})
	// counters ahead of the epoch number: epp 3, period 2, skipped 5, day epochs 4..19 — the period waits until epoch 14
	ops = nil
	for e := uint64(4); e < 20; e++ {
		ops = append(ops, c13Op{Op: "end", Day: true, E: e})
	}
	run(c13Input{Mode: "direct", Params: c13Params{Enabled: true, Started: true, Factors: c13Polys[2], Dist: c13Dists[0], EPP: 3, PPY: 12, Max: 4},
		Period: u64(2), Skipped: u64(5), Ops: ops})
	// the sudo root is handed to governance (MsgChangeRoot), governance switches inflation on, seven enabled days across
	// two period boundaries, the root goes to another ordinary account, a stranger tries, back to governance
	ops = []c13Op{{Op: "end", Day: true, E: 1}, {Op: "end", Day: true, E: 2}, {Op: "chroot", Auth: true, Root: "m:gov"},
		{Op: "toggle", Auth: true, B: true}}
	e := uint64(3)
	days := func(n int) {
		for i := 0; i < n; i++ {
			ops = append(ops, c13Op{Op: "end", Day: true, E: e})
			e++
		}
	}
	days(7)
	ops = append(ops, c13Op{Op: "chroot", Auth: true, Root: "a1"})
	days(3)
	ops = append(ops, c13Op{Op: "chroot", Auth: false, Root: "m:distribution"}, c13Op{Op: "chroot", Auth: true, Root: "m:gov"})
	days(4)
	run(c13Input{Mode: "direct", Params: c13Params{Factors: defaultFactors, Dist: c13Dists[0], EPP: 3, PPY: 12, Max: 96},
		Period: u64(0), Skipped: u64(0), Ops: ops})
	// governance is the root from the start, day ends delivered by the epochs module's BeginBlocker
	ops, e = nil, 11
	days(9)
	run(c13Input{Mode: "clock", Root: "m:gov", Params: c13Params{Enabled: true, Started: true, Factors: c13Polys[2], Dist: c13Dists[1], EPP: 2, PPY: 12, Max: 3},
		Period: u64(0), Skipped: u64(10), Ops: ops})
	// the root is a module account the bank refuses as a recipient (MsgChangeRoot accepts any address): the strategic
	// shares pile up in the inflation module account and the period waits, until the root is an ordinary account again
	ops, e = nil, 1
	days(5)
	ops = append(ops, c13Op{Op: "chroot", Auth: true, Root: "a2"})
	days(4)
	run(c13Input{Mode: "direct", Root: "m:distribution", Params: c13Params{Enabled: true, Started: true, Factors: c13Polys[2], Dist: c13Dists[0], EPP: 2, PPY: 12, Max: 4},
		Period: u64(0), Skipped: u64(0), Ops: ops})
	rng := NewRng(cfg.Seed)
	for i := 0; i < cfg.N; i++ {
		run(genC13Case(rng.Fork()))
	}
}
