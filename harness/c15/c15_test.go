package c15

// C15 — only a token-factory denom's current admin can change its supply or control.
//
// A case = optional genesis denoms (incl. renounced ones) + a history of token-factory messages
// (MsgCreateDenom, MsgMint, MsgBurn, MsgChangeAdmin, MsgSetDenomMetadata, MsgBurnNative), each signed
// by its sender and delivered through the real DeliverTx (fee 0), with look-alike / malformed denom
// strings, other creators' denoms, module-account targets, hand-overs followed by retries of the
// old admin.
//
// MESSAGE CARRIERS: any of these messages may ride inside authz MsgExec wrappers (any depth, grantee =
// the signer of the inner message or somebody else, with or without an authz grant made earlier in
// the history), be dispatched by a CosmWasm contract (reflect.wasm, owner = user 0, re-dispatches
// Stargate messages through app/wasmext's message handler), or both (contract-dispatched MsgExec,
// MsgExecuteContract inside MsgExec).  MsgGrant / MsgRevoke (generic authorizations) are messages of
// the history too.  The contract is account 8: it can be a denom's creator / admin / successor.
//
// Observables: per message accepted?; before the first and after every message a snapshot of
// bank supply per tracked denom, balances per (tracked account, tracked denom), admin per tracked
// denom.  Every bech32 address is rewritten to "@i" (all-upper-case spelling: "@Ui").

import (
	"encoding/base64"
	"encoding/json"
	"fmt"
	"math/rand"
	"os"
	"sort"
	"strings"
	"testing"
	"time"

	sdkmath "cosmossdk.io/math"
	wasmtypes "github.com/CosmWasm/wasmd/x/wasm/types"
	abci "github.com/cometbft/cometbft/abci/types"
	"github.com/cosmos/cosmos-sdk/crypto/keys/secp256k1"
	cryptotypes "github.com/cosmos/cosmos-sdk/crypto/types"
	storetypes "github.com/cosmos/cosmos-sdk/store/types"
	"github.com/cosmos/cosmos-sdk/testutil/sims"
	sdk "github.com/cosmos/cosmos-sdk/types"
	authtypes "github.com/cosmos/cosmos-sdk/x/auth/types"
	"github.com/cosmos/cosmos-sdk/x/authz"
	authzkeeper "github.com/cosmos/cosmos-sdk/x/authz/keeper"
	"github.com/cosmos/gogoproto/proto"
	banktypes "github.com/cosmos/cosmos-sdk/x/bank/types"
	govtypes "github.com/cosmos/cosmos-sdk/x/gov/types"

	. "verifharness/hx"

	"github.com/NibiruChain/nibiru/v2/x/common/testutil/testapp"

	tftypes "github.com/NibiruChain/nibiru/v2/x/tokenfactory/types"
)

const nUsers = 4

// accounts 0..3 users, 4 tokenfactory module, 5 fee collector, 6 gov module (not blocked),
// 7 an address that is never funded: it has no x/auth account (accounts are created lazily) unless
// somebody mints to it; it never signs; 8 the reflect contract of the case (owner = user 0)
const nAccts = 9
const ghost = 7
const idContract = 8

// accounts that can stand behind a message: the users and the contract
var principals = []int{0, 1, 2, 3, idContract}

type c15Op struct {
	T        string `json:"t"` // create | mint | burn | admin | meta | burnnative | reimport | exec | wasm | grant | revoke
	Sender   int    `json:"sender"` // leaf: sender; grant / revoke: granter
	Sub      string `json:"sub,omitempty"`
	Denom    string `json:"denom,omitempty"`     // canonical ("tf/@1/gold")
	Amt      int64  `json:"amt,omitempty"`
	Target   string `json:"target,omitempty"`    // mint_to / burn_from: "" | "@i" | "@Ui" | anything else = unparsable
	NewAdmin string `json:"new_admin,omitempty"` // "@i" | "@Ui" | anything else = unparsable
	BadMeta  bool   `json:"bad_meta,omitempty"`
	Join     bool   `json:"join,omitempty"` // this message rides in the same tx as the previous one
	G        int     `json:"g,omitempty"`   // exec: grantee; wasm: sender of MsgExecuteContract; grant / revoke: grantee
	K        string  `json:"k,omitempty"`   // grant / revoke: message kind (create|mint|burn|admin|meta|burnnative|exec|wasm|grant|revoke)
	C        []c15Op `json:"c,omitempty"`   // exec / wasm: the messages carried
}

type c15Gen struct {
	Denom string `json:"denom"`
	Admin string `json:"admin"` // "" = renounced
	Fund  []int64 `json:"fund"` // initial balance of each account (users, then the three module accounts)
}

type c15Case struct {
	Genesis []c15Gen `json:"genesis"`
	Ops     []c15Op  `json:"ops"`
}

type c15Snap struct {
	Supply [][2]string  `json:"supply"` // denom, amount
	Bal    [][3]string  `json:"bal"`    // account, denom, amount
	Admin  [][2]*string `json:"admin"`  // denom, admin or null
	Grants []c15Grant   `json:"grants"` // authz grants among the principals, sorted
}

type c15Grant struct {
	From int    `json:"from"`
	To   int    `json:"to"`
	K    string `json:"k"`
}

type c15OpObs struct {
	OK      bool    `json:"ok"`
	Code    uint32  `json:"code"`
	DV      bool    `json:"dv"`       // sdk.ValidateDenom(denom) == nil
	NAValid bool    `json:"na_valid"` // new admin parses
	MDValid bool    `json:"md_valid"` // bank metadata validates
	Target  string  `json:"target"`   // "" default | canonical account | "!" unparsable
	Signer  int        `json:"signer"`      // account id of GetSigners()[0] (99: none of the case's accounts)
	C       []c15OpObs `json:"c,omitempty"` // flags of the carried messages
	Snap    *c15Snap   `json:"snap,omitempty"` // top-level messages only: after the tx
}

type c15Obs struct {
	Blocked []string   `json:"blocked"`
	Init    c15Snap    `json:"init"`
	Ops     []c15OpObs `json:"ops"`
}

var moduleNames = []string{tftypes.ModuleName, authtypes.FeeCollectorName, govtypes.ModuleName}

type c15World struct {
	c      *Chain
	privs  []cryptotypes.PrivKey
	addrs  []sdk.AccAddress // nAccts
	caseNo int
	codeID uint64
	authz  authzkeeper.Keeper // a reader over the app's authz store
}

var reflectCode []byte
var dbg = os.Getenv("C15_DEBUG") != ""

func repoDir() string {
	if d := os.Getenv("VERIF_REPO"); d != "" {
		return d
	}
	return "/repo"
}

// newC15World starts a chain and stores the reflect contract code once; every case instantiates its own contract.
func newC15World(t *testing.T, caseNo int) *c15World {
	w := &c15World{c: NewChain(nil), caseNo: caseNo}
	c := w.c
	for _, sk := range c.App.GetStoreKeys() {
		if sk.Name() == authzkeeper.StoreKey {
			w.authz = authzkeeper.NewKeeper(sk, c.App.AppCodec(), c.App.MsgServiceRouter(), c.App.AccountKeeper)
		}
	}
	c.BeginBlock(5 * time.Second)
	if reflectCode == nil {
		bz, err := os.ReadFile(repoDir() + "/x/devgas/v1/keeper/testdata/reflect.wasm")
		if err != nil {
			t.Fatal(err)
		}
		reflectCode = bz
	}
	uploader := sdk.AccAddress([]byte("c15-uploader________"))
	store := &wasmtypes.MsgStoreCode{Sender: uploader.String(), WASMByteCode: reflectCode}
	rsp, err := c.App.MsgServiceRouter().Handler(store)(c.Ctx(), store)
	if err != nil {
		t.Fatal(err)
	}
	var sr wasmtypes.MsgStoreCodeResponse
	_ = c.App.AppCodec().Unmarshal(rsp.Data, &sr)
	w.codeID = sr.CodeID
	c.EndBlock()
	return w
}

func (w *c15World) freshActors(t *testing.T) {
	w.caseNo++
	w.privs, w.addrs = nil, nil
	for i := 0; i < nUsers; i++ {
		p := secp256k1.GenPrivKeyFromSecret([]byte(fmt.Sprintf("c15-actor-%d-%d", w.caseNo, i)))
		a := sdk.AccAddress(p.PubKey().Address())
		w.privs = append(w.privs, p)
		w.addrs = append(w.addrs, a)
		if err := w.c.Fund(a, sdk.NewCoins(sdk.NewInt64Coin("unibi", 1000), sdk.NewInt64Coin("ibc/C15X", 500))); err != nil {
			t.Fatal(err)
		}
	}
	w.addrs = append(w.addrs, authtypes.NewModuleAddress(tftypes.ModuleName),
		authtypes.NewModuleAddress(authtypes.FeeCollectorName), authtypes.NewModuleAddress(govtypes.ModuleName),
		sdk.AccAddress(secp256k1.GenPrivKeyFromSecret([]byte(fmt.Sprintf("c15-ghost-%d", w.caseNo))).PubKey().Address()))
	// the case's own reflect contract, owner = user 0
	c := w.c
	inst := &wasmtypes.MsgInstantiateContract{Sender: w.addrs[0].String(), CodeID: w.codeID, Label: fmt.Sprintf("reflect-%d", w.caseNo), Msg: []byte(`{}`)}
	rsp, err := c.App.MsgServiceRouter().Handler(inst)(c.Ctx(), inst)
	if err != nil {
		t.Fatal(err)
	}
	var ir wasmtypes.MsgInstantiateContractResponse
	_ = c.App.AppCodec().Unmarshal(rsp.Data, &ir)
	contract := sdk.MustAccAddressFromBech32(ir.Address)
	w.addrs = append(w.addrs, contract)
	if err := c.Fund(contract, sdk.NewCoins(sdk.NewInt64Coin("unibi", 1000))); err != nil {
		t.Fatal(err)
	}
}

func (w *c15World) idOf(a sdk.AccAddress) int {
	for i, x := range w.addrs {
		if x.Equals(a) {
			return i
		}
	}
	return 99
}

func kindURL(k string) string {
	switch k {
	case "create":
		return sdk.MsgTypeURL(&tftypes.MsgCreateDenom{})
	case "mint":
		return sdk.MsgTypeURL(&tftypes.MsgMint{})
	case "burn":
		return sdk.MsgTypeURL(&tftypes.MsgBurn{})
	case "admin":
		return sdk.MsgTypeURL(&tftypes.MsgChangeAdmin{})
	case "meta":
		return sdk.MsgTypeURL(&tftypes.MsgSetDenomMetadata{})
	case "burnnative":
		return sdk.MsgTypeURL(&tftypes.MsgBurnNative{})
	case "exec":
		return sdk.MsgTypeURL(&authz.MsgExec{})
	case "wasm":
		return sdk.MsgTypeURL(&wasmtypes.MsgExecuteContract{})
	case "grant":
		return sdk.MsgTypeURL(&authz.MsgGrant{})
	case "revoke":
		return sdk.MsgTypeURL(&authz.MsgRevoke{})
	}
	return ""
}

var allKinds = []string{"create", "mint", "burn", "admin", "meta", "burnnative", "exec", "wasm", "grant", "revoke"}

func isCarrier(t string) bool { return t == "exec" || t == "wasm" }

// buildTree builds a message with everything it carries.
func (w *c15World) buildTree(op c15Op) (sdk.Msg, c15OpObs, error) {
	var msg sdk.Msg
	var o c15OpObs
	switch op.T {
	case "exec", "wasm":
		var ms []sdk.Msg
		for _, ch := range op.C {
			m, co, err := w.buildTree(ch)
			if err != nil {
				return nil, o, err
			}
			ms = append(ms, m)
			o.C = append(o.C, co)
		}
		if op.T == "exec" {
			e := authz.NewMsgExec(w.addrs[op.G], ms)
			msg = &e
		} else {
			parts := []string{}
			for _, m := range ms {
				bz, err := proto.Marshal(m)
				if err != nil {
					return nil, o, err
				}
				parts = append(parts, fmt.Sprintf(`{"stargate":{"type_url":"%s","value":"%s"}}`, sdk.MsgTypeURL(m), base64.StdEncoding.EncodeToString(bz)))
			}
			payload := `{"reflect_msg":{"msgs":[` + strings.Join(parts, ",") + `]}}`
			msg = &wasmtypes.MsgExecuteContract{Sender: w.addrs[op.G].String(), Contract: w.addrs[idContract].String(), Msg: []byte(payload)}
		}
	case "grant":
		g, err := authz.NewMsgGrant(w.addrs[op.Sender], w.addrs[op.G], authz.NewGenericAuthorization(kindURL(op.K)), nil)
		if err != nil {
			return nil, o, err
		}
		msg = g
	case "revoke":
		r := authz.NewMsgRevoke(w.addrs[op.Sender], w.addrs[op.G], kindURL(op.K))
		msg = &r
	default:
		msg, o = w.build(op)
	}
	o.Signer = 99
	Recover(func() {
		if sg := msg.GetSigners(); len(sg) > 0 {
			o.Signer = w.idOf(sg[0])
		}
	})
	return msg, o, nil
}

// reimport: the module's genesis is exported, the module store emptied, and the exported genesis
// imported again (what a restart from an exported state / an upgrade by export does to the module).
func (w *c15World) reimport() {
	c := w.c
	k := c.App.TokenFactoryKeeper
	gs := k.ExportGenesis(c.Ctx())
	var key storetypes.StoreKey
	for _, sk := range c.App.GetStoreKeys() {
		if sk.Name() == tftypes.StoreKey {
			key = sk
		}
	}
	st := c.Ctx().KVStore(key)
	var keys [][]byte
	it := st.Iterator(nil, nil)
	for ; it.Valid(); it.Next() {
		keys = append(keys, append([]byte{}, it.Key()...))
	}
	it.Close()
	for _, kk := range keys {
		st.Delete(kk)
	}
	k.InitGenesis(c.Ctx(), *gs)
}

// expand turns a canonical string into the real one.
func (w *c15World) expand(s string) string {
	for i := nAccts - 1; i >= 0; i-- {
		s = strings.ReplaceAll(s, fmt.Sprintf("@U%d", i), strings.ToUpper(w.addrs[i].String()))
	}
	for i := nAccts - 1; i >= 0; i-- {
		s = strings.ReplaceAll(s, fmt.Sprintf("@%d", i), w.addrs[i].String())
	}
	return s
}

// canon is the inverse renaming.
func (w *c15World) canon(s string) string {
	for i := 0; i < nAccts; i++ {
		s = strings.ReplaceAll(s, w.addrs[i].String(), fmt.Sprintf("@%d", i))
		s = strings.ReplaceAll(s, strings.ToUpper(w.addrs[i].String()), fmt.Sprintf("@U%d", i))
	}
	return s
}

func (w *c15World) build(op c15Op) (sdk.Msg, c15OpObs) {
	o := c15OpObs{}
	sender := w.addrs[op.Sender].String()
	denom := w.expand(op.Denom)
	o.DV = sdk.ValidateDenom(denom) == nil
	coin := sdk.Coin{Denom: denom, Amount: sdkmath.NewInt(op.Amt)}
	target := ""
	if op.Target != "" {
		target = w.expand(op.Target)
		if a, err := sdk.AccAddressFromBech32(target); err == nil {
			o.Target = w.canon(a.String())
		} else {
			o.Target = "!"
		}
	}
	switch op.T {
	case "create":
		return &tftypes.MsgCreateDenom{Sender: sender, Subdenom: op.Sub}, o
	case "mint":
		return &tftypes.MsgMint{Sender: sender, Coin: coin, MintTo: target}, o
	case "burn":
		return &tftypes.MsgBurn{Sender: sender, Coin: coin, BurnFrom: target}, o
	case "admin":
		na := w.expand(op.NewAdmin)
		_, err := sdk.AccAddressFromBech32(na)
		o.NAValid = err == nil
		return &tftypes.MsgChangeAdmin{Sender: sender, Denom: denom, NewAdmin: na}, o
	case "meta":
		md := banktypes.Metadata{
			Description: "c15", DenomUnits: []*banktypes.DenomUnit{{Denom: denom, Exponent: 0}},
			Base: denom, Display: denom, Name: denom, Symbol: "C15",
		}
		if op.BadMeta {
			md.Display = ""
		}
		o.MDValid = md.Validate() == nil
		return &tftypes.MsgSetDenomMetadata{Sender: sender, Metadata: md}, o
	default:
		return &tftypes.MsgBurnNative{Sender: sender, Coin: coin}, o
	}
}

// deliver puts the messages into ONE tx signed by every distinct sender (in order of appearance).
func (w *c15World) deliver(msgs []sdk.Msg, senders []int) abci.ResponseDeliverTx {
	c := w.c
	ctx := c.Ctx()
	var privs []cryptotypes.PrivKey
	var nums, seqs []uint64
	seen := map[int]bool{}
	for _, s := range senders {
		if seen[s] {
			continue
		}
		seen[s] = true
		acc := c.App.AccountKeeper.GetAccount(ctx, w.addrs[s])
		privs = append(privs, w.privs[s])
		nums = append(nums, acc.GetAccountNumber())
		seqs = append(seqs, acc.GetSequence())
	}
	tx, err := sims.GenSignedMockTx(rand.New(rand.NewSource(1)), c.TxCfg, msgs, sdk.NewCoins(), 30_000_000, ctx.ChainID(),
		nums, seqs, privs...)
	if err != nil {
		return abci.ResponseDeliverTx{Code: 9999, Log: "build: " + err.Error()}
	}
	bz, err := c.TxCfg.TxEncoder()(tx)
	if err != nil {
		return abci.ResponseDeliverTx{Code: 9999, Log: "encode: " + err.Error()}
	}
	return c.App.DeliverTx(abci.RequestDeliverTx{Tx: bz})
}

// snapshot of the tracked denoms (canonical) over all accounts; balKeys restricts the balance
// entries (nil = all)
func (w *c15World) snapshot(denoms []string) c15Snap {
	ctx := w.c.Ctx()
	sn := c15Snap{Supply: [][2]string{}, Bal: [][3]string{}, Admin: [][2]*string{}, Grants: []c15Grant{}}
	for _, from := range principals {
		for _, to := range principals {
			if from == to {
				continue
			}
			for _, k := range allKinds {
				if a, _ := w.authz.GetAuthorization(ctx, w.addrs[to], w.addrs[from], kindURL(k)); a != nil {
					sn.Grants = append(sn.Grants, c15Grant{From: from, To: to, K: k})
				}
			}
		}
	}
	sort.Slice(sn.Grants, func(i, j int) bool {
		a, b := sn.Grants[i], sn.Grants[j]
		if a.From != b.From {
			return a.From < b.From
		}
		if a.To != b.To {
			return a.To < b.To
		}
		return a.K < b.K
	})
	for _, cd := range denoms {
		d := w.expand(cd)
		sup := "0"
		Recover(func() { sup = w.c.App.BankKeeper.GetSupply(ctx, d).Amount.String() })
		sn.Supply = append(sn.Supply, [2]string{cd, sup})
		for i := 0; i < nAccts; i++ {
			b := "0"
			Recover(func() { b = w.c.App.BankKeeper.GetBalance(ctx, w.addrs[i], d).Amount.String() })
			sn.Bal = append(sn.Bal, [3]string{fmt.Sprintf("@%d", i), cd, b})
		}
		dd := cd
		md, err := w.c.App.TokenFactoryKeeper.Store.GetDenomAuthorityMetadata(ctx, d)
		if err != nil {
			sn.Admin = append(sn.Admin, [2]*string{&dd, nil})
		} else {
			a := w.canon(md.Admin)
			sn.Admin = append(sn.Admin, [2]*string{&dd, &a})
		}
	}
	return sn
}

// principal: a user, or (below the top level, where nobody has to hold its key) the contract
func principal(id int, top bool) int {
	if id == idContract && !top {
		return id
	}
	return ((id % nUsers) + nUsers) % nUsers
}

const maxDepth = 6

func normaliseOp(op *c15Op, top bool, depth int) {
	if !top {
		op.Join = false
	}
	switch op.T {
	case "create", "mint", "burn", "admin", "meta", "burnnative":
	case "reimport":
		if top {
			op.Join, op.Denom, op.C = false, "", nil
			return
		}
		op.T = "burnnative"
	case "exec", "wasm":
		if depth >= maxDepth {
			op.T, op.C = "burnnative", nil
			break
		}
		op.G = principal(op.G, top)
		if len(op.C) > 4 {
			op.C = op.C[:4]
		}
		for i := range op.C {
			normaliseOp(&op.C[i], false, depth+1)
		}
		op.Sender, op.Denom = 0, ""
		return
	case "grant", "revoke":
		op.Sender, op.G = principal(op.Sender, top), principal(op.G, false)
		if kindURL(op.K) == "" {
			op.K = "mint"
		}
		op.Denom, op.C = "", nil
		return
	default:
		op.T = "burnnative"
	}
	op.C = nil
	op.Sender = principal(op.Sender, top)
	if op.T == "create" {
		op.Denom = fmt.Sprintf("tf/@%d/%s", op.Sender, op.Sub)
	}
}

// leafDenoms: the denoms named by the token-factory messages of a tree
func leafDenoms(op *c15Op, add func(string)) {
	switch op.T {
	case "exec", "wasm":
		for i := range op.C {
			leafDenoms(&op.C[i], add)
		}
	case "grant", "revoke", "reimport":
	default:
		add(op.Denom)
	}
}

func (w *c15World) runCase(t *testing.T, cs *c15Case) c15Obs {
	c := w.c
	c.BeginBlock(5 * time.Second)
	defer c.EndBlock()
	w.freshActors(t)
	obs := c15Obs{Blocked: []string{}, Ops: []c15OpObs{}}
	for i := 0; i < nAccts; i++ {
		if c.App.BankKeeper.BlockedAddr(w.addrs[i]) {
			obs.Blocked = append(obs.Blocked, fmt.Sprintf("@%d", i))
		}
	}
	// tracked denoms
	seen := map[string]bool{}
	denoms := []string{}
	add := func(d string) {
		if !seen[d] {
			seen[d] = true
			denoms = append(denoms, d)
		}
	}
	add("unibi")
	add("ibc/C15X")
	// genesis denoms through the module's own InitGenesis
	if len(cs.Genesis) > 0 {
		params, _ := c.App.TokenFactoryKeeper.Store.ModuleParams.Get(c.Ctx())
		gs := tftypes.GenesisState{Params: params}
		for i := range cs.Genesis {
			g := &cs.Genesis[i]
			if tftypes.DenomStr(w.expand(g.Denom)).Validate() != nil || seen[g.Denom] || sdk.ValidateDenom(w.expand(g.Denom)) != nil {
				g.Denom = fmt.Sprintf("tf/@%d/gen%d", i%nUsers, i)
			}
			admin := w.expand(g.Admin)
			if admin != "" {
				if _, err := sdk.AccAddressFromBech32(admin); err != nil {
					g.Admin, admin = "", ""
				}
			}
			add(g.Denom)
			gs.FactoryDenoms = append(gs.FactoryDenoms, tftypes.GenesisDenom{Denom: w.expand(g.Denom),
				AuthorityMetadata: tftypes.DenomAuthorityMetadata{Admin: admin}})
		}
		c.App.TokenFactoryKeeper.InitGenesis(c.Ctx(), gs)
		for _, g := range cs.Genesis {
			for u := 0; u < ghost && u < len(g.Fund); u++ {
				if g.Fund[u] <= 0 {
					continue
				}
				coins := sdk.NewCoins(sdk.NewInt64Coin(w.expand(g.Denom), g.Fund[u]))
				var err error
				if u == ghost {
					continue
				} else if u < nUsers {
					err = c.Fund(w.addrs[u], coins)
				} else {
					// module accounts (e.g. the fee collector after fees were paid in this denom)
					err = testapp.FundModuleAccount(c.App.BankKeeper, c.Ctx(), moduleNames[u-nUsers], coins)
				}
				if err != nil {
					t.Fatal(err)
				}
			}
		}
	}
	for i := range cs.Ops {
		normaliseOp(&cs.Ops[i], true, 0)
		leafDenoms(&cs.Ops[i], add)
	}
	obs.Init = w.snapshot(denoms)
	if len(cs.Ops) > 0 {
		cs.Ops[0].Join = false
	}
	for i := 0; i < len(cs.Ops); {
		j := i + 1
		for j < len(cs.Ops) && cs.Ops[j].Join {
			j++
		}
		if cs.Ops[i].T == "reimport" {
			if j < len(cs.Ops) && j == i+1 {
				// nothing joins a round trip
			}
			for k := i + 1; k < j; k++ {
				cs.Ops[k].Join = false
			}
			w.reimport()
			sn := w.snapshot(denoms)
			obs.Ops = append(obs.Ops, c15OpObs{OK: true, Snap: &sn})
			i++
			continue
		}
		var msgs []sdk.Msg
		var senders []int
		var os []c15OpObs
		unsignable := false
		for _, op := range cs.Ops[i:j] {
			msg, o, err := w.buildTree(op)
			if err != nil {
				t.Fatalf("c15: cannot build a message: %v", err)
			}
			msgs, os = append(msgs, msg), append(os, o)
			if o.Signer >= 0 && o.Signer < nUsers {
				senders = append(senders, o.Signer)
			} else {
				// GetSigners names an account nobody holds a key of (never so on the unchanged tree: normaliseOp keeps
				// top-level signers among the users): the tx cannot be signed
				unsignable = true
			}
		}
		var r abci.ResponseDeliverTx
		if unsignable {
			r = abci.ResponseDeliverTx{Code: 9997, Log: "a top-level signer holds no key"}
		} else if p := Recover(func() { r = w.deliver(msgs, senders) }); p != "" {
			r = abci.ResponseDeliverTx{Code: 9998, Log: "panic: " + p}
		}
		if dbg {
			fmt.Printf("tx %d..%d code=%d log=%.300s\n", i, j, r.Code, r.Log)
		}
		sn := w.snapshot(denoms)
		for _, o := range os { // every message of a tx carries the tx's outcome and the snapshot after the tx
			snc := sn
			o.OK, o.Code, o.Snap = r.Code == 0, r.Code, &snc
			obs.Ops = append(obs.Ops, o)
		}
		i = j
	}
	// keep only balance entries that are non-zero somewhere in the case
	nz := map[[2]string]bool{}
	mark := func(s c15Snap) {
		for _, b := range s.Bal {
			if b[2] != "0" {
				nz[[2]string{b[0], b[1]}] = true
			}
		}
	}
	mark(obs.Init)
	for _, o := range obs.Ops {
		mark(*o.Snap)
	}
	filter := func(s *c15Snap) {
		out := [][3]string{}
		for _, b := range s.Bal {
			if nz[[2]string{b[0], b[1]}] {
				out = append(out, b)
			}
		}
		s.Bal = out
	}
	filter(&obs.Init)
	for i := range obs.Ops {
		filter(obs.Ops[i].Snap)
	}
	return obs
}

// ---------------------------------------------------------------- generation

type shadowDenom struct {
	denom   string
	admin   int // -1 unknown / renounced
	former  []int
	holders []string // targets the admin minted to ("" = the admin itself)
}

type c15Gen2 struct {
	r      *Rng
	denoms []*shadowDenom
}

var subs = []string{"gold", "silver", "a", "Gold", "g-1", "x/y", "", "gold", "utf", "b.c"}

func (g *c15Gen2) anyUser() int { return g.r.Intn(nUsers) }

func (g *c15Gen2) pickDenom() (string, *shadowDenom) {
	r := g.r
	if len(g.denoms) > 0 && r.Chance(78, 100) {
		d := g.denoms[r.Intn(len(g.denoms))]
		return d.denom, d
	}
	base := fmt.Sprintf("tf/@%d/%s", r.Intn(nUsers), subs[r.Intn(4)])
	var sd *shadowDenom
	if len(g.denoms) > 0 {
		sd = g.denoms[r.Intn(len(g.denoms))]
		base = sd.denom
	}
	parts := strings.SplitN(base, "/", 3)
	for len(parts) < 3 {
		parts = append(parts, "x")
	}
	switch r.Intn(16) {
	case 0:
		return "tf/@U" + parts[1][1:] + "/" + parts[2], nil // upper-case creator
	case 1:
		return base + "/", nil
	case 2:
		return base + "/x", nil
	case 3:
		return "TF/" + parts[1] + "/" + parts[2], nil
	case 4:
		return "factory/" + parts[1] + "/" + parts[2], nil
	case 5:
		return fmt.Sprintf("tf/@%d/%s", r.Intn(nUsers), parts[2]), nil // another creator, same subdenom
	case 6:
		return "tf/" + parts[1], nil
	case 7:
		return parts[1] + "/" + parts[2], nil
	case 8:
		return "tf//" + parts[2], nil
	case 9:
		return " " + base, nil
	case 10:
		return base + " ", nil
	case 11:
		return "unibi", nil
	case 12:
		return "ibc/C15X", nil
	case 13:
		return "erc20/0x7D4B7B8CA7E1a24928Bb96D59249c7a5bd1DfBe6", nil
	case 14:
		return "tf/" + parts[1] + "/" + strings.ToUpper(parts[2]), nil
	default:
		return "tf/" + parts[1] + "/" + parts[2] + "2", nil
	}
}

func (g *c15Gen2) pickSender(sd *shadowDenom) int {
	r := g.r
	if sd != nil {
		switch r.Pick(64, 16, 20) {
		case 0:
			if sd.admin >= 0 {
				return sd.admin
			}
		case 1:
			if len(sd.former) > 0 {
				return sd.former[r.Intn(len(sd.former))]
			}
		}
	}
	return g.anyUser()
}

func (g *c15Gen2) amount() int64 {
	switch g.r.Pick(80, 6, 4, 10) {
	case 1:
		return 0
	case 2:
		return -int64(g.r.Range(1, 50))
	case 3:
		return int64(g.r.Range(400, 2000))
	}
	return int64(g.r.Range(1, 120))
}

func (g *c15Gen2) target() string {
	r := g.r
	switch r.Pick(50, 28, 12, 5, 5, 3) {
	case 5:
		return fmt.Sprintf("@%d", ghost) // gives the never-funded address an account
	case 1:
		return fmt.Sprintf("@%d", r.Intn(nUsers))
	case 2:
		return fmt.Sprintf("@%d", nUsers+r.Intn(3))
	case 3:
		return fmt.Sprintf("@U%d", r.Intn(nUsers))
	case 4:
		return "nibi1notanaddress"
	}
	return ""
}

func (g *c15Gen2) op() c15Op {
	r := g.r
	switch r.Pick(10, 28, 22, 15, 8, 15) {
	case 0:
		op := c15Op{T: "create", Sender: g.anyUser(), Sub: subs[r.Intn(len(subs))]}
		d := fmt.Sprintf("tf/@%d/%s", op.Sender, op.Sub)
		known := false
		for _, x := range g.denoms {
			if x.denom == d {
				known = true
			}
		}
		if !known && op.Sub != "" && !strings.Contains(op.Sub, "/") {
			g.denoms = append(g.denoms, &shadowDenom{denom: d, admin: op.Sender})
		}
		return op
	case 1:
		d, sd := g.pickDenom()
		op := c15Op{T: "mint", Sender: g.pickSender(sd), Denom: d, Amt: g.amount(), Target: g.target()}
		if sd != nil && op.Sender == sd.admin && op.Amt > 0 {
			h := op.Target
			if h == "" {
				h = fmt.Sprintf("@%d", op.Sender)
			}
			sd.holders = append(sd.holders, h)
		}
		return op
	case 2:
		d, sd := g.pickDenom()
		op := c15Op{T: "burn", Sender: g.pickSender(sd), Denom: d, Amt: g.amount(), Target: g.target()}
		if sd != nil && len(sd.holders) > 0 && r.Chance(3, 4) {
			op.Target = sd.holders[r.Intn(len(sd.holders))] // burn from somebody who holds the coin
			if op.Target == fmt.Sprintf("@%d", op.Sender) && r.Chance(1, 2) {
				op.Target = ""
			}
		}
		if r.Chance(3, 4) && op.Amt > 15 {
			op.Amt = int64(r.Range(1, 15))
		}
		return op
	case 3:
		d, sd := g.pickDenom()
		op := c15Op{T: "admin", Sender: g.pickSender(sd), Denom: d}
		switch r.Pick(62, 8, 8, 8, 6, 8) {
		case 5:
			op.NewAdmin = fmt.Sprintf("@%d", ghost) // a successor that has no account (yet)
		case 0:
			op.NewAdmin = fmt.Sprintf("@%d", r.Intn(nUsers))
		case 1:
			op.NewAdmin = fmt.Sprintf("@U%d", r.Intn(nUsers))
		case 2:
			op.NewAdmin = fmt.Sprintf("@%d", nUsers+r.Intn(3))
		case 3:
			op.NewAdmin = ""
		default:
			op.NewAdmin = "nibi1notanaddress"
		}
		if sd != nil && op.Sender == sd.admin && strings.HasPrefix(op.NewAdmin, "@") {
			sd.former = append(sd.former, sd.admin)
			sd.admin = -1
			if len(op.NewAdmin) == 2 && int(op.NewAdmin[1]-'0') < nUsers {
				sd.admin = int(op.NewAdmin[1] - '0')
			}
		}
		return op
	case 4:
		d, sd := g.pickDenom()
		return c15Op{T: "meta", Sender: g.pickSender(sd), Denom: d, BadMeta: r.Chance(1, 6)}
	default:
		d, sd := g.pickDenom()
		op := c15Op{T: "burnnative", Sender: g.anyUser(), Denom: d, Amt: g.amount()}
		if r.Chance(1, 2) {
			op.Denom = []string{"unibi", "ibc/C15X"}[r.Intn(2)]
		} else if sd != nil && len(sd.holders) > 0 && r.Chance(1, 2) {
			h := sd.holders[r.Intn(len(sd.holders))]
			if len(h) == 2 && int(h[1]-'0') < nUsers {
				op.Sender = int(h[1] - '0') // a holder burns its own tf coins
			}
		}
		return op
	}
}

func genC15Case(r *Rng) c15Case {
	g := &c15Gen2{r: r}
	cs := c15Case{Genesis: []c15Gen{}}
	if r.Chance(30, 100) {
		n := r.Range(1, 2)
		for i := 0; i < n; i++ {
			creator := r.Intn(nUsers)
			gd := c15Gen{Denom: fmt.Sprintf("tf/@%d/gen%d", creator, i), Fund: []int64{0, 0, 0, 0, 0, 0, 0}}
			sd := &shadowDenom{denom: gd.Denom, admin: -1}
			switch r.Pick(4, 3, 3, 2) {
			case 3: // an admin that has no account at import time
				gd.Admin = fmt.Sprintf("@%d", ghost)
				sd.former = []int{creator}
			case 0: // renounced
			case 1:
				gd.Admin = fmt.Sprintf("@%d", creator)
				sd.admin = creator
			default:
				a := r.Intn(nUsers)
				gd.Admin = fmt.Sprintf("@%d", a)
				sd.admin = a
				sd.former = []int{creator}
			}
			for u := 0; u < ghost; u++ {
				if r.Chance(1, 2) {
					gd.Fund[u] = int64(r.Range(1, 200))
					sd.holders = append(sd.holders, fmt.Sprintf("@%d", u))
				}
			}
			cs.Genesis = append(cs.Genesis, gd)
			g.denoms = append(g.denoms, sd)
		}
	}
	n := r.Range(5, 13)
	// most histories open with a creation so that there is an authority relation to talk about
	if r.Chance(85, 100) {
		s := g.anyUser()
		cs.Ops = append(cs.Ops, c15Op{T: "create", Sender: s, Sub: subs[r.Intn(4)]})
		sd := &shadowDenom{denom: fmt.Sprintf("tf/@%d/%s", s, cs.Ops[0].Sub), admin: s}
		g.denoms = append(g.denoms, sd)
		// … and usually puts coins into circulation (own account and somebody else's)
		if r.Chance(85, 100) {
			cs.Ops = append(cs.Ops, c15Op{T: "mint", Sender: s, Denom: sd.denom, Amt: int64(r.Range(40, 200))})
			sd.holders = append(sd.holders, fmt.Sprintf("@%d", s))
			if r.Chance(2, 3) {
				h := fmt.Sprintf("@%d", r.Intn(nUsers))
				cs.Ops = append(cs.Ops, c15Op{T: "mint", Sender: s, Denom: sd.denom, Amt: int64(r.Range(40, 200)), Target: h})
				sd.holders = append(sd.holders, h)
			}
		}
	}
	// hand-over chains that come back to an earlier admin (A->B->A, A->B->C->A), then every party tries
	// to mint, burn and hand over
	if len(g.denoms) > 0 && r.Chance(30, 100) {
		sd := g.denoms[r.Intn(len(g.denoms))]
		if sd.admin >= 0 {
			a := sd.admin
			parties := []int{a}
			for _, p := range perm(r, nUsers) {
				if p != a && len(parties) < r.Range(2, 3) {
					parties = append(parties, p)
				}
			}
			chain := append(append([]int{}, parties...), a)
			for i := 0; i+1 < len(chain); i++ {
				cs.Ops = append(cs.Ops, c15Op{T: "admin", Sender: chain[i], Denom: sd.denom, NewAdmin: fmt.Sprintf("@%d", chain[i+1])})
			}
			sd.former = append(sd.former, parties[1:]...)
			for _, p := range perm(r, len(parties)) {
				who := parties[p]
				cs.Ops = append(cs.Ops, c15Op{T: "mint", Sender: who, Denom: sd.denom, Amt: int64(r.Range(1, 50))})
				if r.Chance(1, 2) {
					cs.Ops = append(cs.Ops, c15Op{T: "burn", Sender: who, Denom: sd.denom, Amt: int64(r.Range(1, 10)), Target: fmt.Sprintf("@%d", parties[r.Intn(len(parties))])})
				}
				if r.Chance(1, 2) {
					cs.Ops = append(cs.Ops, c15Op{T: "admin", Sender: who, Denom: sd.denom, NewAdmin: fmt.Sprintf("@%d", r.Intn(nUsers))})
				}
			}
		}
	}
	// genesis export / import round trips: after a hand-over to a funded successor, to the never-funded
	// address, or on renounced / foreign-admin genesis denoms; afterwards every party tries everything
	if len(g.denoms) > 0 && r.Chance(35, 100) {
		sd := g.denoms[r.Intn(len(g.denoms))]
		parties := []int{r.Intn(nUsers)}
		if sd.admin >= 0 {
			a := sd.admin
			parties = []int{a}
			switch r.Intn(3) {
			case 0: // successor without an account
				cs.Ops = append(cs.Ops, c15Op{T: "admin", Sender: a, Denom: sd.denom, NewAdmin: fmt.Sprintf("@%d", ghost)})
				sd.former, sd.admin = append(sd.former, a), -1
			case 1: // funded successor
				b := (a + 1 + r.Intn(nUsers-1)) % nUsers
				cs.Ops = append(cs.Ops, c15Op{T: "admin", Sender: a, Denom: sd.denom, NewAdmin: fmt.Sprintf("@%d", b)})
				sd.former, sd.admin = append(sd.former, a), b
				parties = append(parties, b)
			}
		}
		parties = append(parties, sd.former...)
		cs.Ops = append(cs.Ops, c15Op{T: "reimport"})
		seen := map[int]bool{}
		for _, who := range parties {
			if seen[who] || who < 0 || who >= nUsers {
				continue
			}
			seen[who] = true
			cs.Ops = append(cs.Ops, c15Op{T: "mint", Sender: who, Denom: sd.denom, Amt: int64(r.Range(1, 30))})
			cs.Ops = append(cs.Ops, c15Op{T: "burn", Sender: who, Denom: sd.denom, Amt: int64(r.Range(1, 5)), Target: fmt.Sprintf("@%d", r.Intn(nUsers))})
			if r.Chance(1, 2) {
				cs.Ops = append(cs.Ops, c15Op{T: "admin", Sender: who, Denom: sd.denom, NewAdmin: fmt.Sprintf("@%d", who)})
			}
		}
		if r.Chance(1, 3) {
			cs.Ops = append(cs.Ops, c15Op{T: "reimport"})
		}
	}
	// multi-message txs: a hand-over (or mint / creation) followed IN THE SAME TX by a message that
	// fails, so that everything is rolled back; then every party tries to mint, burn and hand over
	if len(g.denoms) > 0 && r.Chance(35, 100) {
		sd := g.denoms[r.Intn(len(g.denoms))]
		if sd.admin >= 0 {
			a := sd.admin
			b := (a + 1 + r.Intn(nUsers-1)) % nUsers
			first := c15Op{T: "admin", Sender: a, Denom: sd.denom, NewAdmin: fmt.Sprintf("@%d", b)}
			if r.Chance(1, 4) {
				first = c15Op{T: "mint", Sender: a, Denom: sd.denom, Amt: int64(r.Range(1, 50)), Target: fmt.Sprintf("@%d", b)}
			}
			tx := []c15Op{first}
			for k := r.Range(0, 2); k > 0; k-- { // messages that succeed in between
				tx = append(tx, c15Op{T: "burnnative", Sender: a, Denom: "unibi", Amt: int64(r.Range(1, 5)), Join: true})
			}
			signer := a
			if r.Chance(1, 2) {
				signer = b // a second signer in the same tx
			}
			var last c15Op
			switch r.Intn(5) {
			case 0: // blocked mint target
				last = c15Op{T: "mint", Sender: signer, Denom: sd.denom, Amt: 5, Target: fmt.Sprintf("@%d", nUsers+r.Intn(2))}
			case 1: // unknown denom
				last = c15Op{T: "mint", Sender: signer, Denom: sd.denom + "x", Amt: 5}
			case 2: // insufficient funds
				last = c15Op{T: "burn", Sender: signer, Denom: sd.denom, Amt: 1_000_000}
			case 3: // not (or no longer) the admin
				last = c15Op{T: "mint", Sender: a, Denom: sd.denom, Amt: 5}
				if first.T != "admin" {
					last.Sender = b
				}
			default: // native burn above the balance
				last = c15Op{T: "burnnative", Sender: signer, Denom: "unibi", Amt: 1_000_000}
			}
			last.Join = true
			tx = append(tx, last)
			cs.Ops = append(cs.Ops, tx...)
			for _, who := range []int{b, a, (b + 1) % nUsers} {
				cs.Ops = append(cs.Ops, c15Op{T: "mint", Sender: who, Denom: sd.denom, Amt: int64(r.Range(1, 30))})
				cs.Ops = append(cs.Ops, c15Op{T: "burn", Sender: who, Denom: sd.denom, Amt: int64(r.Range(1, 5)), Target: fmt.Sprintf("@%d", a)})
				if r.Chance(1, 2) {
					cs.Ops = append(cs.Ops, c15Op{T: "admin", Sender: who, Denom: sd.denom, NewAdmin: fmt.Sprintf("@%d", who)})
				}
			}
		}
	}
	// MESSAGE CARRIERS.  (a) somebody who is not the admin tries to act as the admin through a carrier: a
	// contract-dispatched MsgExec that names the admin as grantee, a plain contract dispatch, a MsgExec by a
	// third party without a grant, deeper nestings of these — and the legitimate variants (grant first)
	if len(g.denoms) > 0 && r.Chance(34, 100) {
		sd := g.denoms[r.Intn(len(g.denoms))]
		if sd.admin >= 0 && sd.admin < nUsers {
			a := sd.admin
			holder := fmt.Sprintf("@%d", a)
			if len(sd.holders) > 0 {
				holder = sd.holders[r.Intn(len(sd.holders))]
			}
			leaf := func() c15Op {
				switch r.Pick(5, 3, 2, 1) {
				case 1:
					return c15Op{T: "burn", Sender: a, Denom: sd.denom, Amt: int64(r.Range(1, 20)), Target: holder}
				case 2:
					return c15Op{T: "admin", Sender: a, Denom: sd.denom, NewAdmin: []string{"@8", fmt.Sprintf("@%d", r.Intn(nUsers))}[r.Intn(2)]}
				case 3:
					return c15Op{T: "meta", Sender: a, Denom: sd.denom}
				}
				return c15Op{T: "mint", Sender: a, Denom: sd.denom, Amt: int64(r.Range(1, 1000)), Target: []string{"@8", "", fmt.Sprintf("@%d", r.Intn(nUsers))}[r.Intn(3)]}
			}
			third := (a + 1 + r.Intn(nUsers-1)) % nUsers
			for k := r.Range(2, 5); k > 0; k-- {
				l := leaf()
				switch r.Pick(30, 12, 10, 10, 8, 10, 10, 10) {
				case 0: // the contract dispatches a MsgExec that names the admin as grantee
					cs.Ops = append(cs.Ops, wa(0, ex(a, l)))
				case 1: // … nested once more
					cs.Ops = append(cs.Ops, wa(0, ex(a, ex(a, l))))
				case 2: // the contract dispatches the admin's message as it is
					cs.Ops = append(cs.Ops, wa(0, l))
				case 3: // a third party's MsgExec without a grant
					cs.Ops = append(cs.Ops, ex(third, l))
				case 4: // the contract call itself rides in a MsgExec
					cs.Ops = append(cs.Ops, ex(0, wa(0, ex(a, l))))
				case 5: // legitimate: the admin grants the contract that message type, the contract execs as itself
					cs.Ops = append(cs.Ops, grantOp(a, idContract, l.T), wa(0, ex(idContract, l)), wa(0, ex(a, l)))
					if r.Chance(1, 2) {
						cs.Ops = append(cs.Ops, revokeOp(a, idContract, l.T), wa(0, ex(idContract, l)))
					}
				case 6: // legitimate: the admin grants a third party, which execs (also nested in its own MsgExec)
					cs.Ops = append(cs.Ops, grantOp(a, third, l.T), ex(third, l), ex(third, ex(third, leaf())))
				default: // a MsgExec signed by the admin itself, with a second message of somebody else inside
					other := c15Op{T: "burnnative", Sender: third, Denom: "unibi", Amt: 1}
					if r.Chance(1, 2) {
						other = c15Op{T: "burnnative", Sender: a, Denom: "unibi", Amt: 1}
					}
					cs.Ops = append(cs.Ops, ex(a, l, other))
				}
			}
			// afterwards whoever is the admin on record still is the admin
			cs.Ops = append(cs.Ops, c15Op{T: "mint", Sender: a, Denom: sd.denom, Amt: int64(r.Range(1, 9))})
		}
	}
	// (b) the contract as creator / admin / successor / granter of a denom
	if r.Chance(22, 100) {
		sub := subs[r.Intn(4)]
		d := fmt.Sprintf("tf/@%d/%s", idContract, sub)
		sd := &shadowDenom{denom: d, admin: idContract}
		u := r.Intn(nUsers)
		cs.Ops = append(cs.Ops, wa(0, c15Op{T: "create", Sender: idContract, Sub: sub}),
			wa(0, c15Op{T: "mint", Sender: idContract, Denom: d, Amt: int64(r.Range(20, 200)), Target: fmt.Sprintf("@%d", u)}))
		sd.holders = append(sd.holders, fmt.Sprintf("@%d", u))
		g.denoms = append(g.denoms, sd)
		for k := r.Range(2, 5); k > 0; k-- {
			l := c15Op{T: "mint", Sender: idContract, Denom: d, Amt: int64(r.Range(1, 30))}
			if r.Chance(1, 3) {
				l = c15Op{T: "burn", Sender: idContract, Denom: d, Amt: int64(r.Range(1, 10)), Target: fmt.Sprintf("@%d", u)}
			}
			switch r.Pick(10, 10, 10, 10, 10, 8, 8) {
			case 0:
				cs.Ops = append(cs.Ops, wa(0, ex(idContract, l)))
			case 1:
				cs.Ops = append(cs.Ops, ex(u, l)) // a user's MsgExec of the contract's message, no grant
			case 2:
				cs.Ops = append(cs.Ops, wa(0, grantOp(idContract, u, l.T)), ex(u, l))
			case 3:
				l.Sender = u // a user names itself on the contract's denom
				cs.Ops = append(cs.Ops, l)
			case 4:
				cs.Ops = append(cs.Ops, wa(r.Range(1, nUsers-1), l)) // not the contract's owner
			case 5: // hand-over to a user, then back
				cs.Ops = append(cs.Ops, wa(0, c15Op{T: "admin", Sender: idContract, Denom: d, NewAdmin: fmt.Sprintf("@%d", u)}), wa(0, l),
					c15Op{T: "mint", Sender: u, Denom: d, Amt: 3}, c15Op{T: "admin", Sender: u, Denom: d, NewAdmin: "@8"}, wa(0, l))
			default:
				cs.Ops = append(cs.Ops, wa(0, l, c15Op{T: "burnnative", Sender: idContract, Denom: "unibi", Amt: 1}))
			}
		}
	}
	for len(cs.Ops) < n {
		op := g.op()
		if r.Chance(4, 100) {
			op = c15Op{T: "reimport"} // a round trip at an arbitrary point
		} else if len(cs.Ops) > 0 && r.Chance(14, 100) {
			op.Join = true // ordinary multi-message txs, succeeding or not
		}
		cs.Ops = append(cs.Ops, op)
	}
	// (c) any message of the history may ride in a carrier
	var out []c15Op
	for _, op := range cs.Ops {
		if op.T == "reimport" || isCarrier(op.T) || op.T == "grant" || op.T == "revoke" {
			out = append(out, op)
			continue
		}
		if op.Sender == idContract {
			j := op.Join
			op.Join = false
			w := wa(0, op)
			w.Join = j
			out = append(out, w)
			continue
		}
		if !r.Chance(16, 100) {
			out = append(out, op)
			continue
		}
		out = append(out, g.wrap(op)...)
	}
	cs.Ops = out
	return cs
}

// wrap puts a user's message into a random chain of carriers (grants, when made, go first as txs of their own)
func (g *c15Gen2) wrap(op c15Op) []c15Op {
	r := g.r
	s := op.Sender
	join := op.Join
	op.Join = false
	other := (s + 1 + r.Intn(nUsers-1)) % nUsers
	var pre []c15Op
	var t c15Op
	switch r.Pick(24, 14, 14, 14, 8, 10, 6, 10) {
	case 0: // the sender's own MsgExec, depth 1-3
		t = ex(s, op)
		for k := r.Intn(3); k > 0; k-- {
			t = ex(s, t)
		}
	case 1: // somebody else's MsgExec, no grant
		t = ex(other, op)
	case 2: // somebody else's MsgExec after a grant (sometimes for another message type)
		k := op.T
		if r.Chance(1, 4) {
			k = allKinds[r.Intn(len(allKinds))]
		}
		pre = append(pre, grantOp(s, other, k))
		t = ex(other, op)
	case 3: // two levels with different grantees: the inner MsgExec needs a grant of its own
		third := (other + 1 + r.Intn(nUsers-1)) % nUsers
		if r.Chance(1, 2) {
			pre = append(pre, grantOp(s, other, op.T))
		}
		if r.Chance(1, 2) {
			pre = append(pre, grantOp(other, third, "exec"))
		}
		t = ex(third, ex(other, op))
	case 4: // dispatched by the contract as it is
		t = wa(0, op)
	case 5: // dispatched by the contract inside a MsgExec naming the sender
		t = wa(0, ex(s, op))
	case 6: // the contract is called by somebody who is not its owner
		t = wa(r.Range(1, nUsers-1), ex(s, op))
	default: // several messages in one MsgExec
		t = ex(s, op, c15Op{T: "burnnative", Sender: []int{s, other}[r.Intn(2)], Denom: "unibi", Amt: 1})
	}
	t.Join = join && len(pre) == 0
	return append(pre, t)
}

func perm(r *Rng, n int) []int {
	p := make([]int, n)
	for i := range p {
		p[i] = i
	}
	for i := n - 1; i > 0; i-- {
		j := r.Intn(i + 1)
		p[i], p[j] = p[j], p[i]
	}
	return p
}

func ex(g int, c ...c15Op) c15Op { return c15Op{T: "exec", G: g, C: c} }
func wa(g int, c ...c15Op) c15Op { return c15Op{T: "wasm", G: g, C: c} }
func grantOp(from, to int, k string) c15Op  { return c15Op{T: "grant", Sender: from, G: to, K: k} }
func revokeOp(from, to int, k string) c15Op { return c15Op{T: "revoke", Sender: from, G: to, K: k} }

func openers() []c15Case {
	D := "tf/@0/gold"
	S := "tf/@1/silver"
	C := "tf/@8/gold"
	return []c15Case{
		// carriers: MsgExec by the admin itself, by somebody else without / with / after a revoked grant, nested;
		// a contract that dispatches the admin's messages (directly, or wrapped in a MsgExec naming the admin)
		{Genesis: []c15Gen{}, Ops: []c15Op{
			{T: "create", Sender: 1, Sub: "silver"}, {T: "mint", Sender: 1, Denom: S, Amt: 100}, {T: "mint", Sender: 1, Denom: S, Amt: 60, Target: "@3"},
			ex(1, c15Op{T: "mint", Sender: 1, Denom: S, Amt: 5}),
			ex(2, c15Op{T: "mint", Sender: 1, Denom: S, Amt: 5}),
			grantOp(1, 2, "mint"),
			ex(2, c15Op{T: "mint", Sender: 1, Denom: S, Amt: 5}),
			ex(2, c15Op{T: "burn", Sender: 1, Denom: S, Amt: 5}),
			ex(2, ex(2, c15Op{T: "mint", Sender: 1, Denom: S, Amt: 7})),
			ex(3, ex(2, c15Op{T: "mint", Sender: 1, Denom: S, Amt: 7})),
			revokeOp(1, 2, "mint"),
			ex(2, c15Op{T: "mint", Sender: 1, Denom: S, Amt: 5}),
			wa(0, c15Op{T: "mint", Sender: 1, Denom: S, Amt: 5}),
			wa(0, ex(1, c15Op{T: "mint", Sender: 1, Denom: S, Amt: 1000, Target: "@8"})),
			wa(0, ex(1, c15Op{T: "burn", Sender: 1, Denom: S, Amt: 60, Target: "@3"})),
			wa(0, ex(1, c15Op{T: "admin", Sender: 1, Denom: S, NewAdmin: "@8"})),
			wa(0, ex(1, ex(1, c15Op{T: "mint", Sender: 1, Denom: S, Amt: 9}))),
			ex(0, wa(0, ex(1, c15Op{T: "mint", Sender: 1, Denom: S, Amt: 9}))),
			wa(1, c15Op{T: "burnnative", Sender: 8, Denom: "unibi", Amt: 1}),
			{T: "mint", Sender: 1, Denom: S, Amt: 1}}},
		// the contract as creator / admin / granter / successor
		{Genesis: []c15Gen{}, Ops: []c15Op{
			wa(0, c15Op{T: "create", Sender: 8, Sub: "gold"}), wa(0, c15Op{T: "mint", Sender: 8, Denom: C, Amt: 50, Target: "@1"}),
			{T: "mint", Sender: 1, Denom: C, Amt: 5}, {T: "mint", Sender: 0, Denom: C, Amt: 5},
			wa(0, ex(8, c15Op{T: "mint", Sender: 8, Denom: C, Amt: 5})),
			wa(0, ex(8, ex(8, c15Op{T: "burn", Sender: 8, Denom: C, Amt: 5, Target: "@1"}))),
			ex(2, c15Op{T: "mint", Sender: 8, Denom: C, Amt: 5}),
			wa(0, grantOp(8, 2, "mint")),
			ex(2, c15Op{T: "mint", Sender: 8, Denom: C, Amt: 5}),
			ex(2, c15Op{T: "admin", Sender: 8, Denom: C, NewAdmin: "@2"}),
			wa(0, c15Op{T: "admin", Sender: 8, Denom: C, NewAdmin: "@1"}),
			wa(0, c15Op{T: "mint", Sender: 8, Denom: C, Amt: 5}), ex(2, c15Op{T: "mint", Sender: 8, Denom: C, Amt: 5}),
			{T: "mint", Sender: 1, Denom: C, Amt: 5},
			{T: "admin", Sender: 1, Denom: C, NewAdmin: "@8"},
			wa(0, c15Op{T: "mint", Sender: 8, Denom: C, Amt: 5}, c15Op{T: "burnnative", Sender: 8, Denom: C, Amt: 2}),
			grantOp(1, 8, "burn"),
			{T: "create", Sender: 1, Sub: "silver"}, {T: "mint", Sender: 1, Denom: S, Amt: 60, Target: "@3"},
			wa(0, ex(8, c15Op{T: "burn", Sender: 1, Denom: S, Amt: 10, Target: "@3"})),
			wa(0, ex(8, c15Op{T: "mint", Sender: 1, Denom: S, Amt: 10})),
			wa(0, ex(1, c15Op{T: "burn", Sender: 1, Denom: S, Amt: 10, Target: "@3"}))}},
		// hand-over, then the old admin retries everything
		{Genesis: []c15Gen{}, Ops: []c15Op{
			{T: "create", Sender: 0, Sub: "gold"}, {T: "mint", Sender: 0, Denom: D, Amt: 100},
			{T: "mint", Sender: 0, Denom: D, Amt: 40, Target: "@2"},
			{T: "admin", Sender: 1, Denom: D, NewAdmin: "@1"}, {T: "admin", Sender: 0, Denom: D, NewAdmin: "@1"},
			{T: "mint", Sender: 0, Denom: D, Amt: 5}, {T: "burn", Sender: 0, Denom: D, Amt: 5},
			{T: "admin", Sender: 0, Denom: D, NewAdmin: "@0"}, {T: "meta", Sender: 0, Denom: D},
			{T: "mint", Sender: 1, Denom: D, Amt: 7}, {T: "burn", Sender: 1, Denom: D, Amt: 30, Target: "@2"},
			{T: "burn", Sender: 1, Denom: D, Amt: 30, Target: "@2"}, {T: "meta", Sender: 1, Denom: D}}},
		// hand-over chains back to the creator: the creator is the admin again, the intermediate ones are not
		{Genesis: []c15Gen{}, Ops: []c15Op{
			{T: "create", Sender: 0, Sub: "gold"}, {T: "mint", Sender: 0, Denom: D, Amt: 100, Target: "@2"},
			{T: "admin", Sender: 0, Denom: D, NewAdmin: "@1"}, {T: "admin", Sender: 1, Denom: D, NewAdmin: "@0"},
			{T: "mint", Sender: 1, Denom: D, Amt: 5}, {T: "burn", Sender: 1, Denom: D, Amt: 5, Target: "@2"},
			{T: "admin", Sender: 1, Denom: D, NewAdmin: "@3"}, {T: "mint", Sender: 0, Denom: D, Amt: 5},
			{T: "admin", Sender: 0, Denom: D, NewAdmin: "@1"}, {T: "admin", Sender: 1, Denom: D, NewAdmin: "@2"},
			{T: "admin", Sender: 2, Denom: D, NewAdmin: "@0"}, {T: "mint", Sender: 2, Denom: D, Amt: 5},
			{T: "mint", Sender: 1, Denom: D, Amt: 5}, {T: "burn", Sender: 0, Denom: D, Amt: 5, Target: "@2"}}},
		// control survives a genesis export / import round trip: an admin without an account stays the
		// admin, a renounced denom stays renounced, the creator does not come back
		{Genesis: []c15Gen{{Denom: "tf/@1/old", Admin: "", Fund: []int64{0, 40, 0, 0}}, {Denom: "tf/@2/lent", Admin: "@7", Fund: []int64{0, 0, 30, 0}}},
			Ops: []c15Op{
				{T: "create", Sender: 0, Sub: "gold"}, {T: "mint", Sender: 0, Denom: D, Amt: 50},
				{T: "admin", Sender: 0, Denom: D, NewAdmin: "@7"}, {T: "reimport"},
				{T: "mint", Sender: 0, Denom: D, Amt: 5}, {T: "burn", Sender: 0, Denom: D, Amt: 5}, {T: "admin", Sender: 0, Denom: D, NewAdmin: "@0"},
				{T: "mint", Sender: 1, Denom: "tf/@1/old", Amt: 5}, {T: "mint", Sender: 2, Denom: "tf/@2/lent", Amt: 5},
				{T: "create", Sender: 3, Sub: "s"}, {T: "admin", Sender: 3, Denom: "tf/@3/s", NewAdmin: "@2"}, {T: "reimport"},
				{T: "mint", Sender: 3, Denom: "tf/@3/s", Amt: 5}, {T: "mint", Sender: 2, Denom: "tf/@3/s", Amt: 5}, {T: "create", Sender: 3, Sub: "s"}}},
		// a tx whose later message fails is rolled back as a whole: the hand-over inside it never happened
		{Genesis: []c15Gen{}, Ops: []c15Op{
			{T: "create", Sender: 0, Sub: "gold"}, {T: "mint", Sender: 0, Denom: D, Amt: 100},
			{T: "admin", Sender: 0, Denom: D, NewAdmin: "@1"}, {T: "mint", Sender: 1, Denom: D, Amt: 5, Target: "@4", Join: true},
			{T: "mint", Sender: 1, Denom: D, Amt: 7}, {T: "burn", Sender: 1, Denom: D, Amt: 7, Target: "@0"},
			{T: "admin", Sender: 1, Denom: D, NewAdmin: "@1"}, {T: "mint", Sender: 0, Denom: D, Amt: 3},
			{T: "admin", Sender: 0, Denom: D, NewAdmin: "@2"}, {T: "mint", Sender: 0, Denom: D, Amt: 5, Join: true},
			{T: "mint", Sender: 2, Denom: D, Amt: 7}, {T: "mint", Sender: 0, Denom: D, Amt: 3},
			{T: "admin", Sender: 0, Denom: D, NewAdmin: "@2"}, {T: "mint", Sender: 2, Denom: D, Amt: 9, Join: true},
			{T: "mint", Sender: 2, Denom: D, Amt: 1}, {T: "mint", Sender: 0, Denom: D, Amt: 1}}},
		// same subdenom under another creator; duplicate creation; malformed subdenoms
		{Genesis: []c15Gen{}, Ops: []c15Op{
			{T: "create", Sender: 0, Sub: "gold"}, {T: "create", Sender: 1, Sub: "gold"}, {T: "create", Sender: 0, Sub: "gold"},
			{T: "mint", Sender: 0, Denom: "tf/@1/gold", Amt: 9}, {T: "mint", Sender: 1, Denom: "tf/@1/gold", Amt: 9},
			{T: "burn", Sender: 0, Denom: "tf/@1/gold", Amt: 1, Target: "@1"}, {T: "create", Sender: 2, Sub: "x/y"},
			{T: "create", Sender: 2, Sub: ""}, {T: "mint", Sender: 0, Denom: "tf/@U0/gold", Amt: 3},
			{T: "mint", Sender: 0, Denom: "tf/@0/gold/x", Amt: 3}, {T: "admin", Sender: 0, Denom: "tf/@1/gold", NewAdmin: "@0"}}},
		// module-account targets: blocked ones refuse (and the MintCoins done before the check is rolled back)
		{Genesis: []c15Gen{}, Ops: []c15Op{
			{T: "create", Sender: 0, Sub: "gold"}, {T: "mint", Sender: 0, Denom: D, Amt: 50, Target: "@4"},
			{T: "mint", Sender: 0, Denom: D, Amt: 50, Target: "@5"}, {T: "mint", Sender: 0, Denom: D, Amt: 50, Target: "@6"},
			{T: "burn", Sender: 0, Denom: D, Amt: 20, Target: "@6"}, {T: "burn", Sender: 0, Denom: D, Amt: 20, Target: "@4"},
			{T: "mint", Sender: 0, Denom: D, Amt: 11, Target: "@U3"}, {T: "burn", Sender: 0, Denom: D, Amt: 999, Target: "@3"},
			{T: "admin", Sender: 0, Denom: D, NewAdmin: "@U0"}, {T: "mint", Sender: 0, Denom: D, Amt: 1}}},
		// native burns: own coins only; a holder who is not the admin burns tf coins with MsgBurnNative
		{Genesis: []c15Gen{}, Ops: []c15Op{
			{T: "burnnative", Sender: 1, Denom: "unibi", Amt: 10}, {T: "burnnative", Sender: 1, Denom: "unibi", Amt: 5000},
			{T: "burn", Sender: 1, Denom: "unibi", Amt: 10}, {T: "mint", Sender: 1, Denom: "unibi", Amt: 10},
			{T: "mint", Sender: 1, Denom: "ibc/C15X", Amt: 10}, {T: "burn", Sender: 1, Denom: "ibc/C15X", Amt: 10, Target: "@2"},
			{T: "create", Sender: 0, Sub: "gold"}, {T: "mint", Sender: 0, Denom: D, Amt: 60, Target: "@3"},
			{T: "burnnative", Sender: 3, Denom: D, Amt: 25}, {T: "burnnative", Sender: 2, Denom: D, Amt: 1}}},
		// renounced and foreign-admin genesis denoms
		{Genesis: []c15Gen{{Denom: "tf/@0/old", Admin: "", Fund: []int64{50, 50, 0, 0}}, {Denom: "tf/@1/lent", Admin: "@2", Fund: []int64{0, 10, 0, 0, 30, 70, 40}}},
			Ops: []c15Op{
				{T: "mint", Sender: 0, Denom: "tf/@0/old", Amt: 5}, {T: "burn", Sender: 0, Denom: "tf/@0/old", Amt: 5},
				{T: "admin", Sender: 0, Denom: "tf/@0/old", NewAdmin: "@0"}, {T: "create", Sender: 0, Sub: "old"},
				{T: "mint", Sender: 1, Denom: "tf/@1/lent", Amt: 5}, {T: "mint", Sender: 2, Denom: "tf/@1/lent", Amt: 5},
				{T: "burn", Sender: 2, Denom: "tf/@1/lent", Amt: 10, Target: "@1"}, {T: "admin", Sender: 2, Denom: "tf/@1/lent", NewAdmin: "@1"},
				{T: "mint", Sender: 2, Denom: "tf/@1/lent", Amt: 5}, {T: "mint", Sender: 1, Denom: "tf/@1/lent", Amt: 5},
				// module accounts that hold the coin: blocked ones cannot be burnt from, the gov account can
				{T: "burn", Sender: 1, Denom: "tf/@1/lent", Amt: 7, Target: "@5"}, {T: "burn", Sender: 1, Denom: "tf/@1/lent", Amt: 7, Target: "@4"},
				{T: "burn", Sender: 1, Denom: "tf/@1/lent", Amt: 7, Target: "@6"}}},
	}
}

func TestC15(t *testing.T) {
	cfg := LoadCfg(t, 160, 3000)
	em := NewEmitter(t, cfg.Out)
	defer em.Close()
	w := newC15World(t, 0)
	run := func(cs c15Case) {
		if w.caseNo > 0 && w.caseNo%200 == 0 {
			w = newC15World(t, w.caseNo)
		}
		obs := w.runCase(t, &cs)
		em.Emit(cs, obs, nil)
	}
	if cfg.Replay != "" {
		for _, raw := range cfg.ReplayInputs(t) {
			var cs c15Case
			if err := json.Unmarshal(raw, &cs); err != nil {
				t.Fatal(err)
			}
			run(cs)
		}
		return
	}
	for _, cs := range openers() {
		run(cs)
	}
	rng := NewRng(cfg.Seed)
	for i := 0; i < cfg.N; i++ {
		run(genC15Case(rng.Fork()))
	}
	_ = sort.Strings
}
