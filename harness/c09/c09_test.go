package c09

// C09 — queries and simulations never influence block execution.
//
// A case = (deliver script, list of queries, injection point).  The deliver script is the init code
// of a contract-creation MsgEthereumTx (so the contract K is funded by the tx value and every
// case is self-contained); its steps are
//
//	yield   CALL of a test precompile (0x…0999) registered through the public Keeper.AddPrecompiles;
//	        the harness runs the queries of the case INSIDE that call, i.e. while the EVM tx is in
//	        flight (its StateDB created and published in Keeper.Bank.StateDB, not yet committed)
//	send    native value transfer K -> account (StateDB only)
//	bank    FunToken.bankMsgSend(account, "unibi", amt) from K (bank keeper op on the tx's cache ctx,
//	        mirrored into the StateDB that Keeper.Bank.StateDB designates)
//
// Queries go through the REAL read-only entry points of baseapp: app.Query(path=/eth.evm.v1.Query/…)
// (handleQueryGRPC: cached multistore of the last committed version) and app.Simulate (runTx in
// simulate mode on a branch of the check state).  Injection points: at the k-th yield, between
// BeginBlock and the tx ("pre"), after the tx ("post"), after Commit ("interblock").
//
// Injection point "parked": the (single) request runs in its OWN goroutine and is parked INSIDE a FunToken precompile
// method — the application logger blocks the goroutine that first logs the bank keeper's "minted coins from module
// account" (inside sendToBank) or "burned tokens from module account" (inside sendToEvm) — while both transactions of
// the block are delivered; then it is released.  This is the schedule sequential injection cannot produce: state that
// lives on a process-wide singleton (the precompile objects, keeper fields) and is mutated for the duration of a
// request is visible to DeliverTx only while the request is inside.
//
// The block holds a second, plain EVM transfer (S -> Z) after the scenario tx, so "post" is an injection
// between two transactions.  The same block is executed on a second replica built from the same genesis bytes WITHOUT the
// queries.  Observables: app hashes of the scenario block and of the following empty block equal?,
// DeliverTx response equal?, committed unibi balances of the scenario accounts K, X, Y, Z on both
// replicas, outcome class of every query.

import (
	"bytes"
	"encoding/hex"
	"encoding/json"
	"fmt"
	"math/big"
	"math/rand"
	"os"
	"strings"
	"sync"
	"testing"
	"time"

	sdkmath "cosmossdk.io/math"
	tmdb "github.com/cometbft/cometbft-db"
	abci "github.com/cometbft/cometbft/abci/types"
	tmproto "github.com/cometbft/cometbft/proto/tendermint/types"
	"github.com/cometbft/cometbft/libs/log"
	"github.com/cosmos/cosmos-sdk/crypto/keys/secp256k1"
	"github.com/cosmos/cosmos-sdk/testutil/sims"
	"github.com/cosmos/cosmos-sdk/store/rootmulti"
	sdk "github.com/cosmos/cosmos-sdk/types"
	authtx "github.com/cosmos/cosmos-sdk/x/auth/tx"
	codectypes "github.com/cosmos/cosmos-sdk/codec/types"
	banktypes "github.com/cosmos/cosmos-sdk/x/bank/types"
	gethcommon "github.com/ethereum/go-ethereum/common"
	"github.com/ethereum/go-ethereum/common/hexutil"
	gethcore "github.com/ethereum/go-ethereum/core/types"
	"github.com/ethereum/go-ethereum/core/vm"
	"github.com/ethereum/go-ethereum/crypto"
	"github.com/gogo/protobuf/proto"

	. "verifharness/hx"

	"github.com/NibiruChain/nibiru/v2/app"
	"github.com/NibiruChain/nibiru/v2/eth"
	"github.com/NibiruChain/nibiru/v2/eth/crypto/ethsecp256k1"
	"github.com/NibiruChain/nibiru/v2/x/common/testutil/testapp"
	"github.com/NibiruChain/nibiru/v2/x/evm"
	"github.com/NibiruChain/nibiru/v2/x/evm/embeds"
	"github.com/NibiruChain/nibiru/v2/x/evm/evmtest"
	"github.com/NibiruChain/nibiru/v2/x/evm/precompile"
	oracletypes "github.com/NibiruChain/nibiru/v2/x/oracle/types"
)

// ---------------------------------------------------------------- case shape

// account ids: 0 = K (contract created by the tx), 1 = X, 2 = Y, 3 = Z
type c09Step struct {
	Op  string `json:"op"`  // yield | send | bank
	To  int    `json:"to"`  // send/bank: recipient account id (1..3)
	Amt int64  `json:"amt"` // unibi
}

type c09Query struct {
	Kind string `json:"kind"` // see doQuery
	To   int    `json:"to"`   // recipient account id (0..3) for transferring kinds; sender is always X
	Amt  int64  `json:"amt"`  // unibi
	Bn   int    `json:"bn"`   // trace kinds: requested block number = last committed height + bn (1 = the block in progress)
	Args string `json:"args"` // eth_call / estimateGas kinds: "" | 1559 (maxFeePerGas + maxPriorityFeePerGas > 0, no gasPrice) | legacy (gasPrice) | access (access list) | biggas
}

type c09Input struct {
	Value   int64      `json:"value"`  // unibi sent to K with the creation tx
	Bal     [3]int64   `json:"bal"`    // unibi of X, Y, Z committed before the scenario block
	Steps   []c09Step  `json:"steps"`  // deliver script
	Revert  bool       `json:"revert"` // init code ends with REVERT (tx fails inside the VM)
	Point   string     `json:"point"`  // yield | pre | post | interblock | parked
	Park    string     `json:"park"`   // point=parked: mint | burn (log line of the bank keeper the request is parked at)
	K       int        `json:"k"`      // for point=yield: index among the yield steps
	Queries []c09Query `json:"queries"`
}

type c09Obs struct {
	HashEq   bool     `json:"hash_eq"`  // app hash of the scenario block equal on both replicas
	NextEq   bool     `json:"next_eq"`  // app hash of the following (empty) block equal AND the base fee the node reports afterwards equal
	TxEq     bool     `json:"tx_eq"`    // DeliverTx responses of both txs (code, data, gas, events) equal
	TxOK     bool     `json:"tx_ok"`    // both tx codes 0 on the replica WITH queries
	BaseOK   bool     `json:"base_ok"`  // … on the replica without
	Base     []string `json:"base"`     // unibi of K, X, Y, Z, S (signer), F (fee collector), C without queries
	With     []string `json:"with"`     // … with queries
	Gas      [2]int64 `json:"gas"`      // gas used by the scenario tx: without, with queries
	Gas2     [2]int64 `json:"gas2"`     // gas used by the tail tx (S sends 1000000 unibi to Z): without, with queries
	QRes     []string `json:"qres"`     // per query: ok | vmerr | err | panic
	QGas     []int64  `json:"qgas"`     // per query: gas used by a simulated tx (0 for other kinds)
	Injected bool     `json:"injected"` // the injection point was reached
	Parked   bool     `json:"parked"`   // point=parked: the request was really inside the precompile while the txs were delivered
	Panic    string   `json:"panic"`    // Go panic escaping DeliverTx ("" if none)
}

// ---------------------------------------------------------------- world

var (
	genOnce  sync.Once
	genBytes []byte
)

func genesisBytes() []byte {
	genOnce.Do(func() {
		_, gen := testapp.NewNibiruTestApp(app.GenesisState{})
		bz, err := json.Marshal(gen)
		if err != nil {
			panic(err)
		}
		genBytes = bz
	})
	return genBytes
}

func detAcc(tag byte) evmtest.EthPrivKeyAcc {
	key := bytes.Repeat([]byte{tag}, 32)
	priv := &ethsecp256k1.PrivKey{Key: key}
	ecdsa, err := priv.ToECDSA()
	if err != nil {
		panic(err)
	}
	addr := crypto.PubkeyToAddress(ecdsa.PublicKey)
	return evmtest.EthPrivKeyAcc{EthAddr: addr, NibiruAddr: eth.EthAddrToNibiruAddr(addr), PrivKey: priv, KeyringSigner: evmtest.NewSigner(priv)}
}

// parkLogger is the application logger of a replica. When armed, the first goroutine that logs the chosen Info
// message is parked until release() — what a slow log sink or the Go scheduler can do at any time.
type parkLogger struct {
	mu      sync.Mutex
	parkOn  string
	reached chan struct{}
	resume  chan struct{}
}

func (l *parkLogger) Debug(string, ...interface{})     {}
func (l *parkLogger) Error(string, ...interface{})     {}
func (l *parkLogger) With(...interface{}) log.Logger   { return l }
func (l *parkLogger) Info(msg string, _ ...interface{}) {
	l.mu.Lock()
	if l.parkOn == "" || msg != l.parkOn {
		l.mu.Unlock()
		return
	}
	l.parkOn = "" // one shot
	reached, resume := l.reached, l.resume
	l.mu.Unlock()
	close(reached)
	<-resume
}

func (l *parkLogger) arm(msg string) (reached chan struct{}) {
	l.mu.Lock()
	defer l.mu.Unlock()
	l.parkOn, l.reached, l.resume = msg, make(chan struct{}), make(chan struct{})
	return l.reached
}

func (l *parkLogger) release() {
	l.mu.Lock()
	defer l.mu.Unlock()
	l.parkOn = ""
	if l.resume != nil {
		close(l.resume)
		l.resume = nil
	}
}

var parkLines = map[string]string{"mint": "minted coins from module account", "burn": "burned tokens from module account"}

var yieldAddr = gethcommon.HexToAddress("0x0000000000000000000000000000000000000999")

type yieldPC struct{ hook func() }

func (p *yieldPC) Address() gethcommon.Address     { return yieldAddr }
func (p *yieldPC) RequiredGas(input []byte) uint64 { return 1 }
func (p *yieldPC) Run(e *vm.EVM, c *vm.Contract, ro bool) ([]byte, error) {
	if p.hook != nil {
		p.hook()
	}
	return nil, nil
}

type world struct {
	c       *Chain
	pc      *yieldPC
	S, X    evmtest.EthPrivKeyAcc
	Y, Z    gethcommon.Address
	K       gethcommon.Address
	cosmos  *secp256k1.PrivKey
	otherDn string
	proposer []byte
	plog     *parkLogger
	setupErr string // a setup transaction of the funding block was rejected (state left behind by an EARLIER case of this process)
	bankDn   string // bank denom mapped to the ERC20 (funtoken cases)
	O       evmtest.EthPrivKeyAcc // owner of a TestERC20 mapped to a bank denom (only for call_s2b cases)
	erc20   gethcommon.Address
}

const gasPriceWei = 1_000_000_000_000 // 1 unibi per gas
const tailGasLimit = 100_000
const tailAmount = 1_000_000

func newWorld(t *testing.T, in *c09Input) *world {
	plog := &parkLogger{}
	a := app.NewNibiruApp(plog, tmdb.NewMemDB(), nil, true, sims.EmptyAppOptions{})
	a.InitChain(abci.RequestInitChain{ConsensusParams: sims.DefaultConsensusParams, AppStateBytes: genesisBytes(), Time: GenesisTime})
	a.Commit()
	w := &world{c: &Chain{App: a, TxCfg: app.MakeEncodingConfig().TxConfig, Time: GenesisTime}, pc: &yieldPC{}, plog: plog}
	w.S, w.X = detAcc(0x11), detAcc(0x22)
	w.Y, w.Z = detAcc(0x33).EthAddr, detAcc(0x44).EthAddr
	w.K = crypto.CreateAddress(w.S.EthAddr, 0)
	w.cosmos = secp256k1.GenPrivKeyFromSecret([]byte("c09-cosmos"))
	w.otherDn = "utest"
	a.EvmKeeper.AddPrecompiles(map[gethcommon.Address]vm.PrecompiledContract{yieldAddr: w.pc})
	c := w.c
	c.BeginBlock(5 * time.Second)
	must := func(err error) {
		if err != nil {
			t.Fatal(err)
		}
	}
	if vals := a.StakingKeeper.GetAllValidators(c.Ctx()); len(vals) > 0 {
		if ca, err := vals[0].GetConsAddr(); err == nil {
			w.proposer = ca
		}
	}
	must(c.Fund(w.S.NibiruAddr, Unibi(1e15)))
	for i, addr := range []gethcommon.Address{w.X.EthAddr, w.Y, w.Z} {
		if in.Bal[i] > 0 {
			must(c.Fund(eth.EthAddrToNibiruAddr(addr), Unibi(in.Bal[i])))
		}
	}
	must(c.Fund(w.X.NibiruAddr, sdk.NewCoins(sdk.NewCoin(w.otherDn, sdkmath.NewInt(1_000_000_000)))))
	must(c.Fund(sdk.AccAddress(w.cosmos.PubKey().Address()), Unibi(1e12)))
	if needsFunToken(in) {
		w.setupFunToken(t)
	}
	c.EndBlock()
	return w
}

func needsFunToken(in *c09Input) bool {
	for _, q := range in.Queries {
		switch q.Kind {
		case "call_s2b", "est_s2b", "trace_s2b", "call_s2e":
			return true
		}
	}
	return false
}

// setupFunToken deploys TestERC20 (owner O) and maps it to a bank denom, in the funding block.
func (w *world) setupFunToken(t *testing.T) {
	c := w.c
	w.O = detAcc(0x55)
	setup := secp256k1.GenPrivKeyFromSecret([]byte("c09-setup"))
	saddr := sdk.AccAddress(setup.PubKey().Address())
	if err := c.Fund(w.O.NibiruAddr, Unibi(1e13)); err != nil {
		t.Fatal(err)
	}
	if err := c.Fund(saddr, Unibi(1e15)); err != nil {
		t.Fatal(err)
	}
	msg, err := c.SignEth(w.O, &evm.EvmTxArgs{Nonce: 0, GasLimit: 3_000_000, GasPrice: big.NewInt(gasPriceWei), Input: embeds.SmartContract_TestERC20.Bytecode})
	if err != nil {
		t.Fatal(err)
	}
	if r := c.DeliverEth(msg); r.Code != 0 {
		w.setupErr = "deploy TestERC20: " + r.Log
		return
	}
	w.erc20 = crypto.CreateAddress(w.O.EthAddr, 0)
	erc := eth.EIP55Addr{Address: w.erc20}
	if r := c.DeliverCosmos(setup, 5_000_000, Unibi(1_000_000), &evm.MsgCreateFunToken{FromErc20: &erc, Sender: saddr.String()}); r.Code != 0 {
		w.setupErr = "create funtoken: " + r.Log
		return
	}
	w.bankDn = "erc20/" + w.erc20.Hex()
	// O converts some ERC20 into the bank denom, so that a request can send it back to the EVM (sendToEvm burns it)
	ft := precompile.PrecompileAddr_FunToken
	in, _ := embeds.SmartContract_FunToken.ABI.Pack("sendToBank", w.erc20, big.NewInt(1_000_000), w.O.EthAddr.Hex())
	msg, err = c.SignEth(w.O, &evm.EvmTxArgs{Nonce: 1, GasLimit: 3_000_000, GasPrice: big.NewInt(gasPriceWei), To: &ft, Input: in})
	if err != nil {
		t.Fatal(err)
	}
	if r := c.DeliverEth(msg); r.Code != 0 {
		w.setupErr = "setup sendToBank: " + r.Log
		return
	}
}

func (w *world) addr(id int) gethcommon.Address {
	switch id {
	case 0:
		return w.K
	case 1:
		return w.X.EthAddr
	case 2:
		return w.Y
	default:
		return w.Z
	}
}

// ---------------------------------------------------------------- init-code assembler

func unibiWei(n int64) *big.Int { return new(big.Int).Mul(big.NewInt(n), big.NewInt(1_000_000_000_000)) }

type asmCall struct {
	to    gethcommon.Address
	value *big.Int
	data  []byte
}

// assemble builds init code that performs the calls in order (results ignored) and then
// STOPs (empty runtime code) or REVERTs.
func assemble(calls []asmCall, revert bool) []byte {
	push2 := func(b *[]byte, v int) { *b = append(*b, 0x61, byte(v>>8), byte(v)) }
	// first pass with dummy offsets to learn the code length (all pushes are fixed width)
	build := func(offs []int) []byte {
		var b []byte
		// prologue: store what the tx sees of the block context (COINBASE, TIMESTAMP, NUMBER, PREVRANDAO, GASLIMIT,
		// CHAINID, BASEFEE) in slots 0..6, so that it is part of the committed state
		for slot, op := range []byte{0x41, 0x42, 0x43, 0x44, 0x45, 0x46, 0x48} {
			b = append(b, op, 0x60, byte(slot), 0x55)
		}
		for i, cl := range calls {
			if len(cl.data) > 0 {
				push2(&b, len(cl.data)) // size
				push2(&b, offs[i])      // code offset
				b = append(b, 0x60, 0x00, 0x39)
			}
			b = append(b, 0x60, 0x00, 0x60, 0x00) // retSize retOffset
			push2(&b, len(cl.data))               // argsSize
			b = append(b, 0x60, 0x00)             // argsOffset
			b = append(b, 0x7f)                   // PUSH32 value
			v := make([]byte, 32)
			if cl.value != nil {
				cl.value.FillBytes(v)
			}
			b = append(b, v...)
			b = append(b, 0x73) // PUSH20 addr
			b = append(b, cl.to.Bytes()...)
			b = append(b, 0x62, 0x03, 0x0d, 0x40, 0xf1, 0x50) // PUSH3 200000; CALL; POP (a failing call burns its own allowance only)
		}
		if revert {
			b = append(b, 0x60, 0x00, 0x60, 0x00, 0xfd)
		} else {
			b = append(b, 0x00)
		}
		return b
	}
	offs := make([]int, len(calls))
	n := len(build(offs))
	off := n
	for i, cl := range calls {
		offs[i] = off
		off += len(cl.data)
	}
	code := build(offs)
	for _, cl := range calls {
		code = append(code, cl.data...)
	}
	return code
}

func packBankMsgSend(to gethcommon.Address, denom string, amt int64) []byte {
	bz, err := embeds.SmartContract_FunToken.ABI.Pack("bankMsgSend", to.Hex(), denom, big.NewInt(amt))
	if err != nil {
		panic(err)
	}
	return bz
}

func (w *world) initCode(in *c09Input) []byte {
	var calls []asmCall
	for _, s := range in.Steps {
		switch s.Op {
		case "yield":
			calls = append(calls, asmCall{to: yieldAddr})
		case "send":
			calls = append(calls, asmCall{to: w.addr(s.To), value: unibiWei(s.Amt)})
		case "bank":
			calls = append(calls, asmCall{to: precompile.PrecompileAddr_FunToken, data: packBankMsgSend(w.addr(s.To), "unibi", s.Amt)})
		}
	}
	return assemble(calls, in.Revert)
}

// ---------------------------------------------------------------- queries

func (w *world) grpc(path string, req proto.Message) (abci.ResponseQuery, error) {
	bz, err := proto.Marshal(req)
	if err != nil {
		return abci.ResponseQuery{}, err
	}
	r := w.c.App.Query(abci.RequestQuery{Path: path, Data: bz})
	if r.Code != 0 {
		return r, fmt.Errorf("query %s: code %d: %s", path, r.Code, r.Log)
	}
	return r, nil
}

// argVariant decorates the JSON args of an eth_call / eth_estimateGas the way different clients do.
func (w *world) argVariant(a *evm.JsonTxArgs, variant string) {
	switch variant {
	case "1559": // what EIP-1559 wallets send: fee cap and a non-zero tip, no gasPrice
		a.MaxFeePerGas = (*hexutil.Big)(big.NewInt(5 * gasPriceWei))
		a.MaxPriorityFeePerGas = (*hexutil.Big)(big.NewInt(2 * gasPriceWei))
	case "legacy":
		a.GasPrice = (*hexutil.Big)(big.NewInt(3 * gasPriceWei))
	case "access":
		a.AccessList = &gethcore.AccessList{{Address: w.Y, StorageKeys: []gethcommon.Hash{gethcommon.BigToHash(big.NewInt(1))}}}
	case "biggas":
		g := hexutil.Uint64(9_000_000)
		a.Gas = &g
	}
}

func (w *world) argsFrom(from gethcommon.Address, to gethcommon.Address, value *big.Int, data []byte, variant string) []byte {
	d := hexutil.Bytes(data)
	a := evm.JsonTxArgs{From: &from, To: &to, Input: &d}
	if value != nil {
		a.Value = (*hexutil.Big)(value)
	}
	w.argVariant(&a, variant)
	bz, _ := json.Marshal(a)
	return bz
}

func (w *world) callArgs(to gethcommon.Address, value *big.Int, data []byte, variant string) []byte {
	return w.argsFrom(w.X.EthAddr, to, value, data, variant)
}

func (w *world) ethCall(path string, args []byte) string {
	r, err := w.grpc(path, &evm.EthCallRequest{Args: args, GasCap: 10_000_000})
	if err != nil {
		return "err"
	}
	if strings.HasSuffix(path, "EthCall") {
		var resp evm.MsgEthereumTxResponse
		if err := proto.Unmarshal(r.Value, &resp); err != nil {
			return "err"
		}
		if resp.VmError != "" {
			return "vmerr"
		}
	}
	return "ok"
}

func (w *world) signedFromX(to *gethcommon.Address, value *big.Int, data []byte) *evm.MsgEthereumTx {
	msg, err := w.c.SignEth(w.X, &evm.EvmTxArgs{Nonce: 0, GasLimit: 2_000_000, GasPrice: big.NewInt(gasPriceWei), To: to, Amount: value, Input: data})
	if err != nil {
		panic(err)
	}
	return msg
}

// doQuery issues one read-only request through the real baseapp entry points.
func (w *world) doQuery(q c09Query) (res string, gas int64) {
	defer func() {
		if r := recover(); r != nil {
			if os.Getenv("VERIF_C09_DEBUG") != "" {
				fmt.Println("   query panic:", r)
			}
			res, gas = "panic", 0
		}
	}()
	ft := precompile.PrecompileAddr_FunToken
	to := w.addr(q.To)
	switch q.Kind {
	case "call_read": // eth_call of a view method of the FunToken precompile
		in, _ := embeds.SmartContract_FunToken.ABI.Pack("bankBalance", to, "unibi")
		return w.ethCall("/eth.evm.v1.Query/EthCall", w.callArgs(ft, nil, in, q.Args)), 0
	case "call_xfer": // eth_call: plain value transfer X -> to (EVM only)
		return w.ethCall("/eth.evm.v1.Query/EthCall", w.callArgs(to, unibiWei(q.Amt), nil, q.Args)), 0
	case "call_bank": // eth_call of FunToken.bankMsgSend(to, unibi, amt) from X
		return w.ethCall("/eth.evm.v1.Query/EthCall", w.callArgs(ft, nil, packBankMsgSend(to, "unibi", q.Amt), q.Args)), 0
	case "call_bank_other": // the same with a denom that is not the EVM denom
		return w.ethCall("/eth.evm.v1.Query/EthCall", w.callArgs(ft, nil, packBankMsgSend(to, w.otherDn, q.Amt), q.Args)), 0
	case "call_s2b": // eth_call of FunToken.sendToBank(erc20, amt, to) from the ERC20 owner: ERC20 transfer + mint and send of the mapped bank denom
		in, _ := embeds.SmartContract_FunToken.ABI.Pack("sendToBank", w.erc20, big.NewInt(q.Amt), to.Hex())
		return w.ethCall("/eth.evm.v1.Query/EthCall", w.argsFrom(w.O.EthAddr, ft, nil, in, q.Args)), 0
	case "est_s2b": // eth_estimateGas of the same sendToBank
		in, _ := embeds.SmartContract_FunToken.ABI.Pack("sendToBank", w.erc20, big.NewInt(q.Amt), to.Hex())
		return w.ethCall("/eth.evm.v1.Query/EstimateGas", w.argsFrom(w.O.EthAddr, ft, nil, in, q.Args)), 0
	case "trace_s2b": // debug_traceTransaction of a signed sendToBank from the ERC20 owner
		in, _ := embeds.SmartContract_FunToken.ABI.Pack("sendToBank", w.erc20, big.NewInt(q.Amt), to.Hex())
		msg, err := w.c.SignEth(w.O, &evm.EvmTxArgs{Nonce: 2, GasLimit: 2_000_000, GasPrice: big.NewInt(gasPriceWei), To: &ft, Input: in})
		if err != nil {
			return "err", 0
		}
		_, err = w.grpc("/eth.evm.v1.Query/TraceTx", &evm.QueryTraceTxRequest{Msg: msg, BlockNumber: w.c.App.LastBlockHeight() + int64(q.Bn),
			BlockTime: w.c.Time, BlockMaxGas: -1, ChainId: w.c.ChainID.Int64()})
		return errClass(err), 0
	case "call_s2e": // eth_call of FunToken.sendToEvm(bankDenom, amt, to) from the ERC20 owner: bank coins burned, ERC20 released
		in, _ := embeds.SmartContract_FunToken.ABI.Pack("sendToEvm", w.bankDn, big.NewInt(q.Amt), to.Hex())
		return w.ethCall("/eth.evm.v1.Query/EthCall", w.argsFrom(w.O.EthAddr, ft, nil, in, q.Args)), 0
	case "est_xfer":
		return w.ethCall("/eth.evm.v1.Query/EstimateGas", w.callArgs(to, unibiWei(q.Amt), nil, q.Args)), 0
	case "est_bank":
		return w.ethCall("/eth.evm.v1.Query/EstimateGas", w.callArgs(ft, nil, packBankMsgSend(to, "unibi", q.Amt), q.Args)), 0
	case "trace_bank": // debug_traceTransaction of a signed bankMsgSend from X
		msg := w.signedFromX(&ft, nil, packBankMsgSend(to, "unibi", q.Amt))
		_, err := w.grpc("/eth.evm.v1.Query/TraceTx", &evm.QueryTraceTxRequest{Msg: msg, BlockNumber: w.c.App.LastBlockHeight() + int64(q.Bn),
			BlockTime: w.c.Time, BlockMaxGas: -1, ChainId: w.c.ChainID.Int64()})
		if err != nil {
			return "err", 0
		}
		return "ok", 0
	case "trace_call": // debug_traceCall of a plain value transfer X -> to, at a caller-chosen block number
		msg := w.signedFromX(&to, unibiWei(q.Amt), nil)
		_, err := w.grpc("/eth.evm.v1.Query/TraceCall", &evm.QueryTraceTxRequest{Msg: msg, BlockNumber: w.c.App.LastBlockHeight() + int64(q.Bn),
			BlockTime: w.c.Time, BlockMaxGas: -1, ChainId: w.c.ChainID.Int64()})
		return errClass(err), 0
	case "trace_block": // debug_traceBlockByNumber replaying one plain value transfer X -> to
		msg := w.signedFromX(&to, unibiWei(q.Amt), nil)
		_, err := w.grpc("/eth.evm.v1.Query/TraceBlock", &evm.QueryTraceBlockRequest{Txs: []*evm.MsgEthereumTx{msg}, BlockNumber: w.c.App.LastBlockHeight() + int64(q.Bn),
			BlockTime: w.c.Time, BlockMaxGas: -1, ChainId: w.c.ChainID.Int64()})
		return errClass(err), 0
	case "sim_evm": // tx simulation of an EVM value transfer X -> to
		bz, err := w.c.EncodeEth(w.signedFromX(&to, unibiWei(q.Amt), nil))
		if err != nil {
			return "err", 0
		}
		gi, _, err := w.c.App.Simulate(bz)
		if err != nil {
			return "err", 0
		}
		return "ok", int64(gi.GasUsed)
	case "sim_evm_bank": // tx simulation of an EVM tx calling FunToken.bankMsgSend from X
		bz, err := w.c.EncodeEth(w.signedFromX(&ft, nil, packBankMsgSend(to, "unibi", q.Amt)))
		if err != nil {
			return "err", 0
		}
		gi, _, err := w.c.App.Simulate(bz)
		if err != nil {
			return "err", 0
		}
		return "ok", int64(gi.GasUsed)
	case "sim_bank": // tx simulation of a Cosmos bank MsgSend (unibi) cosmos-account -> to
		from := sdk.AccAddress(w.cosmos.PubKey().Address())
		qctx := w.c.App.NewContext(true, w.c.Header)
		acc := w.c.App.AccountKeeper.GetAccount(qctx, from)
		if acc == nil {
			return "err", 0
		}
		msg := banktypes.NewMsgSend(from, eth.EthAddrToNibiruAddr(to), Unibi(q.Amt))
		tx, err := sims.GenSignedMockTx(rand.New(rand.NewSource(1)), w.c.TxCfg, []sdk.Msg{msg}, Unibi(1_000_000), 2_000_000,
			qctx.ChainID(), []uint64{acc.GetAccountNumber()}, []uint64{acc.GetSequence()}, w.cosmos)
		if err != nil {
			return "err", 0
		}
		bz, err := w.c.TxCfg.TxEncoder()(tx)
		if err != nil {
			return "err", 0
		}
		gi, _, err := w.c.App.Simulate(bz)
		if err != nil {
			return "err", 0
		}
		return "ok", int64(gi.GasUsed)
	case "grpc_bank":
		_, err := w.grpc("/cosmos.bank.v1beta1.Query/Balance", &banktypes.QueryBalanceRequest{Address: eth.EthAddrToNibiruAddr(to).String(), Denom: "unibi"})
		return errClass(err), 0
	case "grpc_evm_balance":
		_, err := w.grpc("/eth.evm.v1.Query/Balance", &evm.QueryBalanceRequest{Address: to.Hex()})
		return errClass(err), 0
	case "grpc_funtoken":
		_, err := w.grpc("/eth.evm.v1.Query/FunTokenMapping", &evm.QueryFunTokenMappingRequest{Token: "unibi"})
		return errClass(err), 0
	case "grpc_oracle":
		_, err := w.grpc("/nibiru.oracle.v1.Query/ExchangeRates", &oracletypes.QueryExchangeRatesRequest{})
		return errClass(err), 0
	}
	return "err", 0
}

func errClass(err error) string {
	if err != nil {
		return "err"
	}
	return "ok"
}

// ---------------------------------------------------------------- one replica run

type runOut struct {
	hash, next string
	baseFee    string
	tx         []byte
	txOK       bool
	bal        []string
	gas, gas2  int64
	qres       []string
	qgas       []int64
	injected   bool
	parked     bool
	panicked   string
}

func runReplica(t *testing.T, in *c09Input, withQueries bool) runOut {
	w := newWorld(t, in)
	c := w.c
	out := runOut{qres: []string{}, qgas: []int64{}}
	if w.setupErr != "" {
		// not a verdict about this case's requests, but something a previous request of this process left behind:
		// reported as an observable difference (the first violating case of the trace is the culprit)
		out.panicked = "setup: " + w.setupErr
	}
	inject := func() {
		if !withQueries || out.injected {
			return
		}
		out.injected = true
		for _, q := range in.Queries {
			r, g := w.doQuery(q)
			out.qres = append(out.qres, r)
			out.qgas = append(out.qgas, g)
		}
	}
	yields := 0
	w.pc.hook = func() {
		if in.Point == "yield" && yields == in.K {
			inject()
		}
		yields++
	}
	// the scenario block has a proposer (the genesis validator), its neighbours have none: block-context values
	// derived from the header differ between the block in progress and the last committed one
	c.Time = c.Time.Add(5 * time.Second)
	c.Header = tmproto.Header{Height: c.App.LastBlockHeight() + 1, Time: c.Time, ProposerAddress: w.proposer}
	c.App.BeginBlock(abci.RequestBeginBlock{Header: c.Header})
	c.InBlock = true
	if in.Point == "pre" {
		inject()
	}
	var parkedDone chan struct{}
	if in.Point == "parked" && withQueries && len(in.Queries) > 0 {
		out.injected = true
		reached := w.plog.arm(parkLines[in.Park])
		parkedDone = make(chan struct{})
		go func() {
			defer close(parkedDone)
			r, g := w.doQuery(in.Queries[0])
			out.qres = append(out.qres, r)
			out.qgas = append(out.qgas, g)
		}()
		select {
		case <-reached:
			out.parked = true // the request is now inside the precompile method
		case <-parkedDone: // it finished without logging the line: an ordinary request before the tx
		case <-time.After(30 * time.Second):
		}
	}
	releaseParked := func() {
		if parkedDone != nil {
			w.plog.release()
			select {
			case <-parkedDone:
			case <-time.After(30 * time.Second):
				out.panicked += "parked request did not finish"
			}
			parkedDone = nil
		}
	}
	defer releaseParked()
	msg, err := c.SignEth(w.S, &evm.EvmTxArgs{Nonce: 0, GasLimit: 3_000_000, GasPrice: big.NewInt(gasPriceWei), Amount: unibiWei(in.Value), Input: w.initCode(in)})
	if err != nil {
		t.Fatal(err)
	}
	var r abci.ResponseDeliverTx
	out.panicked = Recover(func() { r = c.DeliverEth(msg) })
	if os.Getenv("VERIF_C09_DEBUG") != "" && r.Code != 0 {
		fmt.Println("   deliver log:", r.Log)
	}
	r.Log = "" // carries gas/stack text only
	out.tx, _ = proto.Marshal(&r)
	if os.Getenv("VERIF_C09_DEBUG") == "2" {
		fmt.Printf("   resp code=%d data=%x gw=%d gu=%d\n", r.Code, r.Data, r.GasWanted, r.GasUsed)
		for _, ev := range r.Events {
			fmt.Printf("     ev %s", ev.Type)
			for _, a := range ev.Attributes {
				v := a.Value
				if len(v) > 90 {
					v = v[:90]
				}
				fmt.Printf(" %s=%s", a.Key, v)
			}
			fmt.Println()
		}
	}
	out.txOK = r.Code == 0
	out.gas = r.GasUsed
	if os.Getenv("VERIF_C09_DEBUG") != "" {
		fmt.Printf("   deliver(with=%v): code=%d gas=%d ok=%v panic=%q\n", withQueries, r.Code, r.GasUsed, out.txOK, out.panicked)
	}
	if in.Point == "post" {
		inject()
	}
	// a second, plain transaction in the same block: "post" is an injection BETWEEN two transactions
	// dynamic-fee tx: fee cap 3x, tip 1x the base fee => effective price = base fee + tip = 2 unibi per gas, so a
	// changed base fee shows in its fee / refund (the scenario tx above is priced EXACTLY at the base fee)
	msg2, err := c.SignEth(w.S, &evm.EvmTxArgs{Nonce: 1, GasLimit: tailGasLimit, GasFeeCap: big.NewInt(3 * gasPriceWei), GasTipCap: big.NewInt(gasPriceWei),
		To: &w.Z, Amount: unibiWei(tailAmount), Accesses: &gethcore.AccessList{}})
	if err != nil {
		t.Fatal(err)
	}
	var r2 abci.ResponseDeliverTx
	if p := Recover(func() { r2 = deliverEthEffective(c, msg2) }); p != "" {
		out.panicked += "tx2:" + p
	}
	if os.Getenv("VERIF_C09_DEBUG") != "" && r2.Code != 0 {
		fmt.Println("   deliver tx2 log:", r2.Log)
	}
	r2.Log = ""
	bz2, _ := proto.Marshal(&r2)
	out.tx = append(out.tx, bz2...)
	out.txOK = out.txOK && r2.Code == 0
	out.gas2 = r2.GasUsed
	releaseParked()
	ctx := c.Ctx()
	fc := c.App.AccountKeeper.GetModuleAddress("fee_collector")
	for _, a := range []sdk.AccAddress{eth.EthAddrToNibiruAddr(w.K), w.X.NibiruAddr, eth.EthAddrToNibiruAddr(w.Y), eth.EthAddrToNibiruAddr(w.Z),
		w.S.NibiruAddr, fc, sdk.AccAddress(w.cosmos.PubKey().Address())} {
		out.bal = append(out.bal, c.App.BankKeeper.GetBalance(ctx, a, "unibi").Amount.String())
	}
	_, h := c.EndBlock()
	out.hash = hex.EncodeToString(h)
	if os.Getenv("VERIF_C09_DEBUG") == "3" {
		fmt.Printf("   cms type %T\n", c.App.CommitMultiStore())
		if rs, ok := c.App.CommitMultiStore().(*rootmulti.Store); ok {
			if ci, err := rs.GetCommitInfo(rs.LatestVersion()); err == nil {
				for _, si := range ci.StoreInfos {
					fmt.Printf("   store(with=%v) %s %x\n", withQueries, si.Name, si.CommitId.Hash)
				}
			}
		}
	}
	if in.Point == "interblock" {
		inject()
	}
	c.BeginBlock(5 * time.Second)
	_, h = c.EndBlock()
	out.next = hex.EncodeToString(h)
	// node-level read-back that is not part of any store: the base fee the node quotes and charges
	if r, err := w.grpc("/eth.evm.v1.Query/BaseFee", &evm.QueryBaseFeeRequest{}); err == nil {
		out.baseFee = hex.EncodeToString(r.Value)
	} else {
		out.baseFee = "err"
	}
	return out
}

// deliverEthEffective wraps a dynamic-fee MsgEthereumTx like the JSON-RPC layer does (BuildTx): the Cosmos fee is the
// EFFECTIVE fee at the (constant) base fee, not gas * fee cap.
func deliverEthEffective(c *Chain, m *evm.MsgEthereumTx) abci.ResponseDeliverTx {
	b := c.TxCfg.NewTxBuilder().(authtx.ExtensionOptionsTxBuilder)
	opt, err := codectypes.NewAnyWithValue(&evm.ExtensionOptionsEthereumTx{})
	if err != nil {
		return abci.ResponseDeliverTx{Code: 9999, Log: err.Error()}
	}
	b.SetExtensionOptions(opt)
	txData, err := evm.UnpackTxData(m.Data)
	if err != nil {
		return abci.ResponseDeliverTx{Code: 9999, Log: err.Error()}
	}
	fee := sdkmath.NewIntFromBigInt(evm.WeiToNative(txData.EffectiveFeeWei(evm.BASE_FEE_WEI)))
	m.From = ""
	if err := b.SetMsgs(m); err != nil {
		return abci.ResponseDeliverTx{Code: 9999, Log: err.Error()}
	}
	b.SetFeeAmount(sdk.NewCoins(sdk.NewCoin("unibi", fee)))
	b.SetGasLimit(m.GetGas())
	bz, err := c.TxCfg.TxEncoder()(b.GetTx())
	if err != nil {
		return abci.ResponseDeliverTx{Code: 9999, Log: err.Error()}
	}
	return c.App.DeliverTx(abci.RequestDeliverTx{Tx: bz})
}

var baseCache = map[string]runOut{}

func runCase(t *testing.T, in *c09Input) c09Obs {
	noq := *in
	noq.Queries, noq.Point, noq.K = nil, "", 0
	keyBz, _ := json.Marshal(noq)
	key := string(keyBz)
	if needsFunToken(in) {
		key += "+funtoken-setup" // the funding block of such cases also deploys and maps an ERC20
	}
	base, ok := baseCache[key]
	if !ok {
		base = runReplica(t, in, false)
		baseCache[key] = base
	}
	with := runReplica(t, in, true)
	return c09Obs{
		HashEq: base.hash == with.hash && !strings.HasPrefix(with.panicked, "setup:") && !strings.HasPrefix(base.panicked, "setup:"),
		NextEq: base.next == with.next && base.baseFee == with.baseFee, TxEq: bytes.Equal(base.tx, with.tx),
		TxOK: with.txOK, BaseOK: base.txOK, Base: base.bal, With: with.bal, Gas: [2]int64{base.gas, with.gas},
		Gas2: [2]int64{base.gas2, with.gas2},
		QRes: with.qres, QGas: with.qgas, Injected: with.injected, Parked: with.parked,
		Panic: with.panicked,
	}
}

// ---------------------------------------------------------------- generator

// kinds that perform a unibi bank operation (the only requests that reach Keeper.Bank.StateDB on the unchanged tree)
var bankingKinds = []string{"call_bank", "est_bank", "trace_bank", "sim_evm", "sim_evm_bank", "sim_bank"}
var plainKinds = []string{"call_xfer", "est_xfer", "call_bank_other", "call_s2b", "trace_call", "trace_block", "est_s2b", "trace_s2b", "call_s2e"}

// requests that can be parked inside a FunToken method, with the bank keeper log line they reach there
var parkable = []struct{ kind, park string }{{"call_s2b", "mint"}, {"est_s2b", "mint"}, {"trace_s2b", "mint"}, {"call_s2e", "burn"}}
var readKinds = []string{"call_read", "grpc_bank", "grpc_evm_balance", "grpc_funtoken", "grpc_oracle"}

func genQuery(r *Rng, kinds []string) c09Query {
	q := c09Query{Kind: kinds[r.Intn(len(kinds))], To: r.Range(2, 3), Amt: int64(r.Range(1, 9)) * 1_000_000}
	if r.Chance(1, 5) {
		q.To = 0 // the contract being created by the in-flight tx
	}
	if strings.HasPrefix(q.Kind, "trace_") {
		q.Bn = r.Pick(2, 3, 1) // last committed height, the height in progress, the one after
	}
	if strings.HasPrefix(q.Kind, "call_") || strings.HasPrefix(q.Kind, "est_") {
		q.Args = []string{"", "1559", "legacy", "access", "biggas"}[r.Pick(3, 3, 1, 1, 1)]
	}
	return q
}

func genCase(r *Rng) c09Input {
	in := c09Input{Value: int64(r.Range(0, 50)) * 1_000_000,
		Bal: [3]int64{int64(r.Range(20, 99)) * 1_000_000, int64(r.Range(0, 30)) * 1_000_000, int64(r.Range(0, 30)) * 1_000_000}}
	n := r.Range(0, 4)
	for i := 0; i < n; i++ {
		op := []string{"send", "bank"}[r.Intn(2)]
		in.Steps = append(in.Steps, c09Step{Op: op, To: r.Range(1, 3), Amt: int64(r.Range(1, 20)) * 1_000_000})
	}
	// yields: one to three, at random positions
	ny := r.Range(1, 3)
	for i := 0; i < ny; i++ {
		pos := r.Intn(len(in.Steps) + 1)
		in.Steps = append(in.Steps[:pos], append([]c09Step{{Op: "yield"}}, in.Steps[pos:]...)...)
	}
	in.Revert = r.Chance(1, 8)
	if r.Chance(1, 7) {
		// parked request: the delivered tx must ENTER FunToken methods while the request is inside one
		pk := parkable[r.Intn(len(parkable))]
		in.Point, in.Park = "parked", pk.park
		if in.Value < 10_000_000 {
			in.Value = 30_000_000
		}
		in.Steps = append([]c09Step{{Op: "bank", To: r.Range(1, 3), Amt: int64(r.Range(1, 5)) * 1_000_000}}, in.Steps...)
		in.Queries = []c09Query{{Kind: pk.kind, To: r.Range(2, 3), Amt: int64(r.Range(1, 9)) * 100}}
		return in
	}
	switch r.Pick(12, 2, 2, 2) {
	case 0:
		in.Point, in.K = "yield", r.Intn(ny)
	case 1:
		in.Point = "pre"
	case 2:
		in.Point = "post"
	default:
		in.Point = "interblock"
	}
	// at most ONE request that performs a unibi bank operation (so that a finding names one request kind),
	// surrounded by any number of others
	nq := r.Pick(0, 6, 3, 1)
	bankAt := -1
	if r.Chance(3, 5) {
		bankAt = r.Intn(nq)
	}
	for i := 0; i < nq; i++ {
		switch {
		case i == bankAt:
			in.Queries = append(in.Queries, genQuery(r, bankingKinds))
		case r.Chance(1, 2):
			in.Queries = append(in.Queries, genQuery(r, plainKinds))
		default:
			in.Queries = append(in.Queries, genQuery(r, readKinds))
		}
	}
	return in
}

// openers: the known historic failure shape first, then its nearest neighbours.
func openers() []c09Input {
	y := []c09Step{{Op: "yield"}}
	mk := func(kind, point string, to int) c09Input {
		return c09Input{Value: 0, Bal: [3]int64{50_000_000, 0, 0}, Steps: y, Point: point, Queries: []c09Query{{Kind: kind, To: to, Amt: 5_000_000}}}
	}
	out := []c09Input{mk("call_bank", "yield", 2)}
	for _, k := range append(append(append([]string{}, bankingKinds[1:]...), plainKinds...), readKinds...) {
		out = append(out, mk(k, "yield", 2))
	}
	for _, p := range []string{"pre", "post", "interblock"} {
		out = append(out, mk("call_bank", p, 2), mk("sim_evm", p, 2))
	}
	// eth_call / estimateGas the way EIP-1559 wallets send them (fee cap + non-zero tip, no gasPrice), and the other argument styles
	for _, k := range []string{"call_xfer", "est_xfer", "call_read"} {
		for _, p := range []string{"pre", "post", "interblock"} {
			in := mk(k, p, 2)
			in.Queries[0].Args = "1559"
			out = append(out, in)
		}
	}
	for _, a := range []string{"legacy", "access", "biggas"} {
		in := mk("call_xfer", "pre", 2)
		in.Queries[0].Args = a
		out = append(out, in)
	}
	// trace requests naming the height of the block in progress (their context keeps the header of the last committed one)
	for _, k := range []string{"trace_call", "trace_block", "trace_bank"} {
		for _, p := range []string{"pre", "post"} {
			in := mk(k, p, 2)
			in.Queries[0].Bn = 1
			out = append(out, in)
		}
	}
	// requests parked inside FunToken.sendToBank / sendToEvm while the block's txs (which enter FunToken.bankMsgSend) are delivered
	for _, pk := range parkable {
		out = append(out, c09Input{Value: 30_000_000, Bal: [3]int64{50_000_000, 1_000_000, 0},
			Steps: []c09Step{{Op: "bank", To: 3, Amt: 2_000_000}, {Op: "yield"}, {Op: "bank", To: 2, Amt: 1_000_000}}, Point: "parked", Park: pk.park,
			Queries: []c09Query{{Kind: pk.kind, To: 2, Amt: 500}}})
	}
	// a transfer made by the tx before the yield is overwritten by the query's view
	out = append(out, c09Input{Value: 30_000_000, Bal: [3]int64{50_000_000, 1_000_000, 0},
		Steps: []c09Step{{Op: "send", To: 2, Amt: 7_000_000}, {Op: "yield"}, {Op: "bank", To: 3, Amt: 2_000_000}}, Point: "yield",
		Queries: []c09Query{{Kind: "call_bank", To: 2, Amt: 5_000_000}}})
	return out
}

func TestC09(t *testing.T) {
	cfg := LoadCfg(t, 350, 3500)
	em := NewEmitter(t, cfg.Out)
	defer em.Close()
	var inputs []c09Input
	if cfg.Replay != "" {
		for _, raw := range cfg.ReplayInputs(t) {
			var probe struct {
				Driver string `json:"driver"`
			}
			if json.Unmarshal(raw, &probe) == nil && probe.Driver != "" {
				continue // input of another C09 driver (TestC09Routes)
			}
			var in c09Input
			if err := json.Unmarshal(raw, &in); err != nil {
				t.Fatalf("replay input: %v", err)
			}
			inputs = append(inputs, in)
		}
	} else {
		inputs = openers()
		rng := NewRng(cfg.Seed)
		for len(inputs) < cfg.N {
			inputs = append(inputs, genCase(rng.Fork()))
		}
	}
	for i := range inputs {
		in := inputs[i]
		if in.Steps == nil {
			in.Steps = []c09Step{}
		}
		if in.Queries == nil {
			in.Queries = []c09Query{}
		}
		obs := runCase(t, &in)
		if os.Getenv("VERIF_C09_DEBUG") != "" {
			bz, _ := json.Marshal(in)
			oz, _ := json.Marshal(obs)
			fmt.Printf("%s\n   -> %s\n", bz, oz)
		}
		em.Emit(in, obs, nil)
	}
}

// TestRaceC09 (evidence only, not part of the check's verdict): the same scenario with REAL goroutines.
// One goroutine delivers an EVM tx whose yield points sleep briefly; another one issues eth_call requests
// (FunToken.bankMsgSend of unibi) through app.Query for the whole time.  Build with the race detector:
//
//	cd /verif/harness && GOFLAGS=-mod=mod GOPROXY=off go test -race -c -o /tmp/c09race.test ./c09
//	cd /tmp/somewhere && VERIF_C09_RACE=1 /tmp/c09race.test -test.run '^TestRaceC09$' -test.v 2>&1 | grep -A12 'DATA RACE'
//
// Reports whose stacks include github.com/NibiruChain/nibiru (NibiruBankKeeper.SyncStateDBWithAccount reading the
// field that Keeper.NewStateDB / EthereumTx write) are the unsynchronised sharing the property forbids.
func TestRaceC09(t *testing.T) {
	if os.Getenv("VERIF_C09_RACE") == "" {
		t.Skip("evidence run; set VERIF_C09_RACE=1 (binary built with -race)")
	}
	in := &c09Input{Value: 30_000_000, Bal: [3]int64{50_000_000, 1_000_000, 0}}
	for i := 0; i < 6; i++ {
		in.Steps = append(in.Steps, c09Step{Op: "yield"}, c09Step{Op: "bank", To: 3, Amt: 1_000_000})
	}
	w := newWorld(t, in)
	c := w.c
	w.pc.hook = func() { time.Sleep(3 * time.Millisecond) }
	c.BeginBlock(5 * time.Second)
	stop := make(chan struct{})
	var wg sync.WaitGroup
	var n int
	wg.Add(1)
	go func() {
		defer wg.Done()
		for {
			select {
			case <-stop:
				return
			default:
			}
			func() {
				defer func() { _ = recover() }()
				w.doQuery(c09Query{Kind: "call_bank", To: 2, Amt: 5_000_000})
			}()
			n++
		}
	}()
	time.Sleep(5 * time.Millisecond)
	msg, err := c.SignEth(w.S, &evm.EvmTxArgs{Nonce: 0, GasLimit: 3_000_000, GasPrice: big.NewInt(gasPriceWei), Amount: unibiWei(in.Value), Input: w.initCode(in)})
	if err != nil {
		t.Fatal(err)
	}
	var r abci.ResponseDeliverTx
	p := Recover(func() { r = c.DeliverEth(msg) })
	close(stop)
	wg.Wait()
	ctx := c.Ctx()
	fmt.Printf("race scenario: tx code=%d panic=%q, %d concurrent eth_calls; X=%s Y=%s (X signed nothing; without requests X=50000000 Y=1000000)\n", r.Code, p, n,
		c.App.BankKeeper.GetBalance(ctx, w.X.NibiruAddr, "unibi").Amount, c.App.BankKeeper.GetBalance(ctx, eth.EthAddrToNibiruAddr(w.Y), "unibi").Amount)
}
