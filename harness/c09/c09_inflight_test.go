package c09

// C09 — fourth driver: requests of the SAME KIND as the transaction being delivered, served INSIDE its DeliverTx.
//
// The yield points are real and need no hook in the node: the application is built with a store tracer (the `--trace-store`
// writer that app.NewNibiruApp hands to baseapp.SetCommitMultiStoreTracer); every KV read of block execution that reaches
// a traced store layer calls the writer, and the writer serves a transaction SIMULATION (baseapp.Simulate: runTx in
// simulate mode on a branch of the check state — what `tx simulate` / a wallet's gas estimation does) from there,
// which is exactly the interleaving a concurrent gRPC goroutine produces on a node.
//
// A case delivers, in block B, transactions of one signer made of evm.MsgCreateFunToken(from bank coin, 3 bank denoms with
// distinct name / symbol / decimals, and the signer's token-factory denom), evm.MsgConvertCoinToEvm, bank / tokenfactory
// messages, or an EVM contract-creation tx (ERC20Minter with constructor arguments); a second signer's transactions of
// the same kinds over OTHER denoms / constructor arguments are simulated at every `every`-th traced read from read
// number `offset` on (at most `max` served).  The same history runs on a replica that serves nothing.  Observables: every
// DeliverTx response (code, gas, data, events), every app hash, and the name/symbol/decimals of every ERC20 the block
// created for a bank coin.
//
// The first record of every run is the `slices` case: spare capacity (cap - len) of every package-level byte slice that
// block execution and requests both reach (the embedded contract byte codes) — the run-time side of the generated fact
// "embedded byte code is materialised by an allocator that returns exactly len bytes".

import (
	"bytes"
	"encoding/hex"
	"encoding/json"
	"fmt"
	"math/big"
	"math/rand"
	"os"
	"sort"
	"testing"
	"time"

	sdkmath "cosmossdk.io/math"
	"github.com/NibiruChain/collections"
	tmdb "github.com/cometbft/cometbft-db"
	abci "github.com/cometbft/cometbft/abci/types"
	"github.com/cosmos/cosmos-sdk/crypto/keys/secp256k1"
	"github.com/cosmos/cosmos-sdk/testutil/sims"
	sdk "github.com/cosmos/cosmos-sdk/types"
	banktypes "github.com/cosmos/cosmos-sdk/x/bank/types"
	gethcommon "github.com/ethereum/go-ethereum/common"
	"github.com/gogo/protobuf/proto"

	. "verifharness/hx"

	"github.com/NibiruChain/nibiru/v2/app"
	"github.com/NibiruChain/nibiru/v2/eth"
	"github.com/NibiruChain/nibiru/v2/x/evm"
	"github.com/NibiruChain/nibiru/v2/x/evm/embeds"
	"github.com/NibiruChain/nibiru/v2/x/evm/evmtest"
	"github.com/NibiruChain/nibiru/v2/x/evm/statedb"
	tftypes "github.com/NibiruChain/nibiru/v2/x/tokenfactory/types"
)

type inflMsg struct {
	Kind string `json:"kind"` // ft_create | ft_convert | send | tf_create | tf_mint | evm_deploy
	Key  int    `json:"key"`  // denom: 0..2 bank denoms (metadata set), 3 = the signer's token-factory denom; evm_deploy: constructor argument set
	Amt  int64  `json:"amt"`
	To   int    `json:"to"`
}

type inflInput struct {
	Driver  string      `json:"driver"`  // "inflight" | "slices"
	Pre     [][]inflMsg `json:"pre"`     // txs of signer 0 delivered in block A
	Deliver [][]inflMsg `json:"deliver"` // txs of signer 0 delivered in block B, requests served inside each DeliverTx
	Sims    [][]inflMsg `json:"sims"`    // txs of signer 1, simulated round-robin at the yield points, never committed
	Every   int         `json:"every"`   // a request at every n-th traced read …
	Offset  int         `json:"offset"`  // … from this read on (numbered per block B)
	Max     int         `json:"max"`     // at most this many requests
}

type inflObs struct {
	HashEq    bool     `json:"hash_eq"`
	ResultsEq bool     `json:"results_eq"`
	EventsEq  bool     `json:"events_eq"`
	MetaEq    bool     `json:"meta_eq"` // name/symbol/decimals of the ERC20s created for bank coins
	Codes     []uint32 `json:"codes"`   // DeliverTx codes without requests (pre then deliver)
	CodesW    []uint32 `json:"codes_w"`
	Meta      []string `json:"meta"`   // without requests
	MetaW     []string `json:"meta_w"` // with requests
	Reads     int      `json:"reads"`  // traced reads of the DeliverTx calls of block B (replica with requests)
	Served    int      `json:"served"` // simulations served inside DeliverTx
	SimOK     int      `json:"sim_ok"`
	SimErr    int      `json:"sim_err"`
	Blocked   int      `json:"blocked"` // requests that blocked on a store mutex held by block execution (DeliverTx then aborted)
	Dense     bool     `json:"dense"`   // a request was served at EVERY traced read of every DeliverTx of block B
	Panic     string   `json:"panic"`
	// slices case
	Slices []sliceObs `json:"slices,omitempty"`
}

type sliceObs struct {
	Name  string `json:"name"`
	Len   int    `json:"len"`
	Spare int    `json:"spare"` // cap - len
}

// yieldWriter is the store tracer: every traced read of the block being executed is a point at which a request is served.
type yieldWriter struct {
	armed, busy          bool
	every, offset, max   int
	seen, served, missed int
	onYield              func()
}

var traceRead = []byte(`"operation":"read"`)

func (w *yieldWriter) Write(p []byte) (int, error) {
	if !w.armed || w.busy || !bytes.Contains(p, traceRead) {
		return len(p), nil
	}
	n := w.seen
	w.seen++
	if n < w.offset || (n-w.offset)%w.every != 0 {
		w.missed++
		return len(p), nil
	}
	if w.served >= w.max {
		w.missed++
		return len(p), nil
	}
	w.busy = true
	w.served++
	w.onYield()
	w.busy = false
	return len(p), nil
}

type inflDenom struct {
	base, name, symbol string
	decimals           uint32
}

var inflDenoms = []inflDenom{
	{"ucoina", "Alpha Coin", "ALPHA", 6},
	{"ucoinb", "Bravo Coin", "BRAVO", 18},
	{"ucoinc", "Charlie Coin", "CHRLY", 9},
}

type inflWorld struct {
	c    *Chain
	yw   *yieldWriter
	keys []*secp256k1.PrivKey
	eths []evmtest.EthPrivKeyAcc
	rcpt []sdk.AccAddress
}

func newInflWorld() (*inflWorld, string) {
	yw := &yieldWriter{every: 1, max: 1 << 30}
	a := app.NewNibiruApp(&parkLogger{}, tmdb.NewMemDB(), yw, true, sims.EmptyAppOptions{})
	a.InitChain(abci.RequestInitChain{ConsensusParams: sims.DefaultConsensusParams, AppStateBytes: simsGenesis(), Time: GenesisTime})
	a.Commit()
	w := &inflWorld{c: &Chain{App: a, TxCfg: app.MakeEncodingConfig().TxConfig, Time: GenesisTime}, yw: yw}
	w.keys = []*secp256k1.PrivKey{secp256k1.GenPrivKeyFromSecret([]byte("c09-infl-0")), secp256k1.GenPrivKeyFromSecret([]byte("c09-infl-1"))}
	w.eths = []evmtest.EthPrivKeyAcc{detAcc(0x71), detAcc(0x72)}
	w.rcpt = []sdk.AccAddress{sdk.AccAddress([]byte("c09-infl-recipient-0")), sdk.AccAddress([]byte("c09-infl-recipient-1"))}
	c := w.c
	c.BeginBlock(5 * time.Second)
	for _, d := range inflDenoms {
		c.App.BankKeeper.SetDenomMetaData(c.Ctx(), banktypes.Metadata{
			DenomUnits: []*banktypes.DenomUnit{{Denom: d.base, Exponent: 0}, {Denom: "big" + d.base, Exponent: d.decimals}},
			Base:       d.base, Display: "big" + d.base, Name: d.name, Symbol: d.symbol})
	}
	for i, k := range w.keys {
		coins := Unibi(1e15)
		for _, d := range inflDenoms {
			coins = coins.Add(sdk.NewCoin(d.base, sdkmath.NewInt(1e9)))
		}
		if err := c.Fund(sdk.AccAddress(k.PubKey().Address()), coins); err != nil {
			return nil, "fund: " + err.Error()
		}
		if err := c.Fund(w.eths[i].NibiruAddr, Unibi(1e15)); err != nil {
			return nil, "fund: " + err.Error()
		}
	}
	c.EndBlock()
	return w, ""
}

func (w *inflWorld) denom(signer, key int) string {
	if key >= 0 && key < len(inflDenoms) {
		return inflDenoms[key].base
	}
	return "tf/" + sdk.AccAddress(w.keys[signer].PubKey().Address()).String() + "/sub"
}

func (w *inflWorld) msg(signer int, m inflMsg) sdk.Msg {
	from := sdk.AccAddress(w.keys[signer].PubKey().Address())
	d := w.denom(signer, m.Key)
	coin := sdk.NewCoin(d, sdkmath.NewInt(m.Amt))
	to := w.rcpt[((m.To%2)+2)%2]
	switch m.Kind {
	case "ft_create":
		return &evm.MsgCreateFunToken{FromBankDenom: d, Sender: from.String()}
	case "ft_convert":
		return &evm.MsgConvertCoinToEvm{Sender: from.String(), BankCoin: coin, ToEthAddr: eth.EIP55Addr{Address: detAcc(byte(0x60 + ((m.To%2)+2)%2)).EthAddr}}
	case "tf_create":
		return &tftypes.MsgCreateDenom{Sender: from.String(), Subdenom: "sub"}
	case "tf_mint":
		return &tftypes.MsgMint{Sender: from.String(), Coin: sdk.NewCoin(w.denom(signer, 3), sdkmath.NewInt(m.Amt)), MintTo: from.String()}
	case "send":
		return banktypes.NewMsgSend(from, to, sdk.NewCoins(coin))
	}
	return banktypes.NewMsgSend(from, to, sdk.NewCoins(sdk.NewCoin("unibi", sdkmath.NewInt(1))))
}

// deployTx: EVM contract creation of ERC20MinterWithMetadataUpdates(name, symbol, decimals); the init code is built on a COPY of the embedded
// byte code (the harness itself must not write into a package-level slice)
func (w *inflWorld) deployTx(signer int, m inflMsg, nonce uint64) (*evm.MsgEthereumTx, error) {
	d := inflDenoms[((m.Key%len(inflDenoms))+len(inflDenoms))%len(inflDenoms)]
	args, err := embeds.SmartContract_ERC20MinterWithMetadataUpdates.ABI.Pack("", "Deployed "+d.name, "D"+d.symbol, uint8(d.decimals))
	if err != nil {
		return nil, err
	}
	bc := embeds.SmartContract_ERC20MinterWithMetadataUpdates.Bytecode
	input := make([]byte, 0, len(bc)+len(args))
	input = append(append(input, bc...), args...)
	return w.c.SignEth(w.eths[signer], &evm.EvmTxArgs{Nonce: nonce, GasLimit: 3_000_000, GasPrice: big.NewInt(gasPriceWei), Input: input})
}

func isDeploy(tx []inflMsg) bool { return len(tx) == 1 && tx[0].Kind == "evm_deploy" }

// txBytes builds the signed tx of `signer` against the given context (account number / sequence / nonce read there)
func (w *inflWorld) txBytes(ctx sdk.Context, signer int, tx []inflMsg) ([]byte, error) {
	if isDeploy(tx) {
		m, err := w.deployTx(signer, tx[0], w.c.App.EvmKeeper.GetAccNonce(ctx, w.eths[signer].EthAddr))
		if err != nil {
			return nil, err
		}
		return w.c.EncodeEth(m)
	}
	var msgs []sdk.Msg
	for _, m := range tx {
		if m.Kind != "evm_deploy" {
			msgs = append(msgs, w.msg(signer, m))
		}
	}
	if len(msgs) == 0 {
		return nil, fmt.Errorf("empty tx")
	}
	priv := w.keys[signer]
	acc := w.c.App.AccountKeeper.GetAccount(ctx, sdk.AccAddress(priv.PubKey().Address()))
	if acc == nil {
		return nil, fmt.Errorf("no account")
	}
	t, err := sims.GenSignedMockTx(rand.New(rand.NewSource(1)), w.c.TxCfg, msgs, Unibi(1_000_000), 20_000_000, ctx.ChainID(),
		[]uint64{acc.GetAccountNumber()}, []uint64{acc.GetSequence()}, priv)
	if err != nil {
		return nil, err
	}
	return w.c.TxCfg.TxEncoder()(t)
}

type inflRun struct {
	hashes, results, events, meta []string
	codes                         []uint32
	reads, served, simOK, simErr  int
	blocked                       int
	dense                         bool
	panicked                      string
}

// runInflReplica never panics: whatever a request served inside block execution breaks (a later BeginBlock / EndBlock /
// Commit included) is an observable difference of the case, not a failure of the harness
func runInflReplica(in *inflInput, serve bool) (out inflRun) {
	if p := Recover(func() { out = runInflReplicaUnsafe(in, serve) }); p != "" {
		out.panicked += "replica: " + p + ";"
		if out.meta == nil {
			out.meta = []string{}
		}
	}
	return out
}

func runInflReplicaUnsafe(in *inflInput, serve bool) (out inflRun) {
	w, serr := newInflWorld()
	if serr != "" {
		out.panicked = "setup: " + serr
		return
	}
	c := w.c
	var pending chan struct{}
	deliver := func(txs [][]inflMsg, yield bool) {
		for _, tx := range txs {
			bz, err := w.txBytes(c.Ctx(), 0, tx)
			if err != nil {
				continue
			}
			var r abci.ResponseDeliverTx
			w.yw.armed = yield
			if p := Recover(func() { r = c.App.DeliverTx(abci.RequestDeliverTx{Tx: bz}) }); p != "" {
				out.panicked += "deliver: " + p + ";"
			}
			w.yw.armed, w.yw.busy = false, false
			if pending != nil { // join the request that was blocked
				select {
				case <-pending:
				case <-time.After(20 * time.Second):
					out.panicked += "blocked request never finished;"
				}
				pending = nil
			}
			out.codes = append(out.codes, r.Code)
			out.results = append(out.results, fmt.Sprintf("%d/%d/%d/%x", r.Code, r.GasWanted, r.GasUsed, r.Data))
			r.Log = ""
			ez, _ := proto.Marshal(&r)
			out.events = append(out.events, hex.EncodeToString(ez))
		}
	}
	c.BeginBlock(5 * time.Second)
	deliver(in.Pre, false)
	_, h := c.EndBlock()
	out.hashes = append(out.hashes, hex.EncodeToString(h))

	c.BeginBlock(5 * time.Second)
	// the simulated txs are signed against the check state (= last committed state) once; that state does not move
	// while block B executes
	var simTxs [][]byte
	if serve {
		qctx := c.App.NewContext(true, c.Header)
		for _, tx := range in.Sims {
			if bz, err := w.txBytes(qctx, 1, tx); err == nil {
				simTxs = append(simTxs, bz)
			}
		}
	}
	w.yw.every, w.yw.offset, w.yw.max = in.Every, in.Offset, in.Max
	if w.yw.every < 1 {
		w.yw.every = 1
	}
	if !serve || len(simTxs) == 0 {
		w.yw.max = 0
	}
	next := 0
	simulate := func() {
		bz := simTxs[next%len(simTxs)]
		next++
		if p := Recover(func() {
			if _, _, err := c.App.Simulate(bz); err != nil {
				out.simErr++
				if os.Getenv("VERIF_C09_DEBUG") == "2" {
					fmt.Println("   sim err:", err)
				}
			} else {
				out.simOK++
			}
		}); p != "" {
			out.simErr++
		}
	}
	// The request runs on its own goroutine while the delivering goroutine waits inside the tracer.  The store read that
	// gave the yield point is performed under the mutex of a cache store of BLOCK EXECUTION: a request that reaches into
	// the stores of the block being executed (possible only through state shared with it) blocks on that mutex.  That is
	// recorded (`blocked`), the DeliverTx is aborted by panicking out of the tracer (baseapp recovers it into an error
	// response; the mutex is released while unwinding), and the request is joined before the block goes on.
	w.yw.onYield = func() {
		done := make(chan struct{})
		go func() { defer close(done); simulate() }()
		select {
		case <-done:
		case <-time.After(inflBlockTimeout()):
			inflBlockedCases++
			out.blocked++
			w.yw.max = 0
			pending = done
			panic("c09: a request blocks on a store mutex held by block execution")
		}
	}
	deliver(in.Deliver, true)
	out.reads, out.served = w.yw.seen, w.yw.served
	out.dense = w.yw.seen > 0 && w.yw.missed == 0
	_, h = c.EndBlock()
	out.hashes = append(out.hashes, hex.EncodeToString(h))
	c.BeginBlock(5 * time.Second)
	_, h = c.EndBlock()
	out.hashes = append(out.hashes, hex.EncodeToString(h))

	// projected observable: metadata of every ERC20 that block execution created for a bank coin
	out.meta = []string{}
	if p := Recover(func() {
		qctx := c.App.NewContext(true, c.Header)
		var lines []string
		iter := c.App.EvmKeeper.FunTokens.Iterate(qctx, collections.Range[[]byte]{})
		for _, ft := range iter.Values() {
			if !ft.IsMadeFromCoin {
				continue
			}
			sdb := statedb.New(qctx, c.App.EvmKeeper, statedb.NewEmptyTxConfig(gethcommon.BytesToHash(qctx.HeaderHash())))
			evmObj := c.App.EvmKeeper.NewEVM(qctx, evmtest.MOCK_GETH_MESSAGE, c.App.EvmKeeper.GetEVMConfig(qctx), evm.NewNoOpTracer(), sdb)
			info, err := c.App.EvmKeeper.FindERC20Metadata(qctx, evmObj, ft.Erc20Addr.Address, nil)
			d := ft.BankDenom
			if len(d) > 3 && d[:3] == "tf/" {
				d = "tf/<signer>/sub"
			}
			if err != nil {
				lines = append(lines, d+": unreadable")
				continue
			}
			lines = append(lines, fmt.Sprintf("%s: name=%q symbol=%q decimals=%d", d, info.Name, info.Symbol, info.Decimals))
		}
		sort.Strings(lines)
		out.meta = append(out.meta, lines...)
	}); p != "" {
		out.panicked += "meta: " + p + ";"
	}
	return out
}

// ---------------------------------------------------------------- generation

func genInflCase(r *Rng) inflInput {
	in := inflInput{Driver: "inflight", Pre: [][]inflMsg{}, Deliver: [][]inflMsg{}, Sims: [][]inflMsg{}}
	amt := func() int64 { return int64(r.Range(1, 900)) }
	ka := r.Intn(3)
	kb := (ka + 1 + r.Intn(2)) % 3 // the other signer works on ANOTHER denom
	switch r.Pick(5, 2, 2, 2) {
	case 0: // map a bank coin to an ERC20 while the mapping of another coin is simulated
		in.Deliver = [][]inflMsg{{{Kind: "ft_create", Key: ka}}}
		in.Sims = [][]inflMsg{{{Kind: "ft_create", Key: kb}}}
		if r.Chance(1, 3) {
			in.Deliver[0] = append(in.Deliver[0], inflMsg{Kind: "ft_convert", Key: ka, Amt: amt(), To: r.Intn(2)})
		}
		if r.Chance(1, 3) {
			in.Sims[0] = append(in.Sims[0], inflMsg{Kind: "ft_convert", Key: kb, Amt: amt(), To: r.Intn(2)})
		}
		if r.Chance(1, 4) {
			in.Deliver = append(in.Deliver, []inflMsg{{Kind: "ft_create", Key: 3 - ka - kb}})
		}
	case 1: // token-factory denom on both sides
		in.Pre = [][]inflMsg{{{Kind: "tf_create", Key: 3}, {Kind: "tf_mint", Key: 3, Amt: 1000 + amt()}}}
		in.Deliver = [][]inflMsg{{{Kind: "ft_create", Key: 3}, {Kind: "ft_convert", Key: 3, Amt: amt(), To: r.Intn(2)}}}
		in.Sims = [][]inflMsg{{{Kind: "ft_create", Key: kb}}, {{Kind: "tf_create", Key: 3}, {Kind: "tf_mint", Key: 3, Amt: amt()}, {Kind: "ft_create", Key: 3}}}
	case 2: // conversion of an already mapped coin while mappings / conversions are simulated
		in.Pre = [][]inflMsg{{{Kind: "ft_create", Key: ka}}}
		in.Deliver = [][]inflMsg{{{Kind: "ft_convert", Key: ka, Amt: amt(), To: r.Intn(2)}}}
		in.Sims = [][]inflMsg{{{Kind: "ft_convert", Key: ka, Amt: amt(), To: r.Intn(2)}}, {{Kind: "ft_create", Key: kb}}}
	default: // EVM contract creation with constructor arguments on both sides, plus a mapping
		in.Deliver = [][]inflMsg{{{Kind: "evm_deploy", Key: ka}}}
		in.Sims = [][]inflMsg{{{Kind: "evm_deploy", Key: kb}}}
		if r.Chance(1, 2) {
			in.Deliver = append(in.Deliver, []inflMsg{{Kind: "ft_create", Key: ka}})
			in.Sims = append(in.Sims, []inflMsg{{Kind: "ft_create", Key: kb}})
		}
	}
	switch r.Pick(3, 3, 2) {
	case 0: // dense: a request at every traced read of a window of the DeliverTx
		in.Every, in.Offset, in.Max = 1, 0, 1<<20
	case 1: // sparse, over the whole DeliverTx
		in.Every, in.Offset, in.Max = r.Range(2, 9), r.Intn(9), 1<<20
	default: // a single request somewhere inside
		in.Every, in.Offset, in.Max = 1, r.Intn(60), 1
	}
	return in
}

func inflOpeners() []inflInput {
	dense := func(d, s [][]inflMsg) inflInput {
		return inflInput{Driver: "inflight", Pre: [][]inflMsg{}, Deliver: d, Sims: s, Every: 1, Offset: 0, Max: 1 << 20}
	}
	return []inflInput{
		dense([][]inflMsg{{{Kind: "ft_create", Key: 0}}}, [][]inflMsg{{{Kind: "ft_create", Key: 1}}}),
		dense([][]inflMsg{{{Kind: "evm_deploy", Key: 0}}}, [][]inflMsg{{{Kind: "evm_deploy", Key: 1}}}),
	}
}

// sharedSlices: every package-level byte slice reachable from both block execution and requests (x/evm/embeds byte codes,
// the evm store-key prefix); names are the base expressions of the generated inventory buffer_sites
func sharedSlices() []sliceObs {
	cs := []struct {
		n string
		c *embeds.CompiledEvmContract
	}{
		{"SmartContract_ERC20Minter", &embeds.SmartContract_ERC20Minter},
		{"SmartContract_ERC20MinterWithMetadataUpdates", &embeds.SmartContract_ERC20MinterWithMetadataUpdates},
		{"SmartContract_FunToken", &embeds.SmartContract_FunToken},
		{"SmartContract_Wasm", &embeds.SmartContract_Wasm},
		{"SmartContract_Oracle", &embeds.SmartContract_Oracle},
		{"SmartContract_TestERC20", &embeds.SmartContract_TestERC20},
		{"SmartContract_TestERC20MaliciousName", &embeds.SmartContract_TestERC20MaliciousName},
		{"SmartContract_TestERC20MaliciousTransfer", &embeds.SmartContract_TestERC20MaliciousTransfer},
		{"SmartContract_TestFunTokenPrecompileLocalGas", &embeds.SmartContract_TestFunTokenPrecompileLocalGas},
		{"SmartContract_TestNativeSendThenPrecompileSendJson", &embeds.SmartContract_TestNativeSendThenPrecompileSendJson},
		{"SmartContract_TestERC20TransferThenPrecompileSend", &embeds.SmartContract_TestERC20TransferThenPrecompileSend},
		{"SmartContract_TestPrecompileSelfCallRevert", &embeds.SmartContract_TestPrecompileSelfCallRevert},
		{"SmartContract_TestInfiniteRecursionERC20", &embeds.SmartContract_TestInfiniteRecursionERC20},
		{"SmartContract_TestERC20TransferWithFee", &embeds.SmartContract_TestERC20TransferWithFee},
		{"SmartContract_TestRandom", &embeds.SmartContract_TestRandom},
		{"SmartContract_TestBytes32Metadata", &embeds.SmartContract_TestBytes32Metadata},
		{"SmartContract_TestPrecompileSendToBankThenERC20Transfer", &embeds.SmartContract_TestPrecompileSendToBankThenERC20Transfer},
		{"SmartContract_TestDirtyStateAttack4", &embeds.SmartContract_TestDirtyStateAttack4},
		{"SmartContract_TestDirtyStateAttack5", &embeds.SmartContract_TestDirtyStateAttack5},
	}
	var out []sliceObs
	for _, x := range cs {
		out = append(out, sliceObs{Name: "embeds." + x.n + ".Bytecode", Len: len(x.c.Bytecode), Spare: cap(x.c.Bytecode) - len(x.c.Bytecode)})
	}
	out = append(out, sliceObs{Name: "KeyPrefixBzAccState", Len: len(evm.KeyPrefixBzAccState), Spare: cap(evm.KeyPrefixBzAccState) - len(evm.KeyPrefixBzAccState)})
	return out
}

var inflBaseCache = map[string]inflRun{}

// how long the delivering goroutine waits for a request before it calls it blocked (a simulation takes milliseconds);
// once two cases of the run have blocked, the following ones most likely block for the same reason
var inflBlockedCases int

func inflBlockTimeout() time.Duration {
	if inflBlockedCases >= 2 {
		return time.Second
	}
	return 8 * time.Second
}

func TestC09Inflight(t *testing.T) {
	cfg := LoadCfg(t, 60, 600)
	em := NewEmitter(t, cfg.Out)
	defer em.Close()
	var inputs []inflInput
	if cfg.Replay != "" {
		for _, raw := range cfg.ReplayInputs(t) {
			var in inflInput
			if err := json.Unmarshal(raw, &in); err == nil && (in.Driver == "inflight" || in.Driver == "slices") {
				inputs = append(inputs, in)
			}
		}
	} else {
		inputs = append([]inflInput{{Driver: "slices"}}, inflOpeners()...)
		rng := NewRng(cfg.Seed ^ 0x1f1e)
		for len(inputs) < cfg.N {
			inputs = append(inputs, genInflCase(rng.Fork()))
		}
	}
	for i := range inputs {
		in := inputs[i]
		if in.Pre == nil {
			in.Pre = [][]inflMsg{}
		}
		if in.Deliver == nil {
			in.Deliver = [][]inflMsg{}
		}
		if in.Sims == nil {
			in.Sims = [][]inflMsg{}
		}
		if in.Driver == "slices" {
			em.Emit(in, inflObs{HashEq: true, ResultsEq: true, EventsEq: true, MetaEq: true, Codes: []uint32{}, CodesW: []uint32{},
				Meta: []string{}, MetaW: []string{}, Slices: sharedSlices()}, nil)
			continue
		}
		noReq := in
		noReq.Sims, noReq.Every, noReq.Offset, noReq.Max = nil, 0, 0, 0
		kb, _ := json.Marshal(noReq)
		base, ok := inflBaseCache[string(kb)]
		if !ok {
			base = runInflReplica(&in, false)
			inflBaseCache[string(kb)] = base
		}
		with := runInflReplica(&in, true)
		obs := inflObs{HashEq: eqStrings(base.hashes, with.hashes), ResultsEq: eqStrings(base.results, with.results),
			EventsEq: eqStrings(base.events, with.events), MetaEq: eqStrings(base.meta, with.meta), Codes: base.codes, CodesW: with.codes,
			Meta: base.meta, MetaW: with.meta, Reads: with.reads, Served: with.served, SimOK: with.simOK, SimErr: with.simErr, Blocked: with.blocked,
			Dense: with.dense, Panic: base.panicked + with.panicked}
		if obs.Codes == nil {
			obs.Codes = []uint32{}
		}
		if obs.CodesW == nil {
			obs.CodesW = []uint32{}
		}
		if os.Getenv("VERIF_C09_DEBUG") != "" {
			bz, _ := json.Marshal(in)
			oz, _ := json.Marshal(obs)
			fmt.Printf("%s\n   -> %s\n", bz, oz)
		}
		em.Emit(in, obs, nil)
	}
}
