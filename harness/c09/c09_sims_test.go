package c09

// C09 — third driver: SIMULATIONS of arbitrary Cosmos transactions, never committed, between the blocks that later
// touch the same keys.
//
// A case is a dependency CHAIN of messages of one signer over a small key space (bank denoms with metadata, a
// token-factory sub-denom, two recipients): bank.MsgSend, tokenfactory.MsgCreateDenom / MsgMint / MsgBurn /
// MsgChangeAdmin, evm.MsgCreateFunToken(from bank denom) / MsgConvertCoinToEvm — e.g. create a tf denom, mint it, map
// it to an ERC20, convert some of it.  From the chain the case takes
//
//	pre    transactions (each a list of chain messages) DELIVERED in block A
//	sims   transactions SIMULATED through baseapp.Simulate (runTx in simulate mode on a branch of the check state: what
//	       `tx simulate` / gas estimation of a wallet does), single- and multi-message, possibly failing, never broadcast;
//	       issued after Commit of block A, or inside block B before its transactions
//	post   transactions DELIVERED in block B
//
// so that what is delivered later is typically a sub-sequence of what was simulated (simulate one thing, broadcast
// another, or nothing).  The same history is executed on a second replica without the simulations.  Observables: every
// DeliverTx response (code, gas wanted/used, data, events), app hash of every block.

import (
	"bytes"
	"encoding/hex"
	"encoding/json"
	"fmt"
	"math/rand"
	"os"
	"sync"
	"testing"
	"time"

	sdkmath "cosmossdk.io/math"
	tmdb "github.com/cometbft/cometbft-db"
	abci "github.com/cometbft/cometbft/abci/types"
	"github.com/cosmos/cosmos-sdk/crypto/keys/secp256k1"
	"github.com/cosmos/cosmos-sdk/testutil/sims"
	sdk "github.com/cosmos/cosmos-sdk/types"
	banktypes "github.com/cosmos/cosmos-sdk/x/bank/types"
	"github.com/gogo/protobuf/proto"

	. "verifharness/hx"

	"github.com/NibiruChain/nibiru/v2/app"
	"github.com/NibiruChain/nibiru/v2/eth"
	"github.com/NibiruChain/nibiru/v2/x/common/testutil/testapp"
	"github.com/NibiruChain/nibiru/v2/x/evm"
	tftypes "github.com/NibiruChain/nibiru/v2/x/tokenfactory/types"
)

type simMsg struct {
	Kind string `json:"kind"` // send | tf_create | tf_mint | tf_burn | tf_admin | ft_create | ft_convert
	Key  int    `json:"key"`  // denom: 0,1 = bank denoms ucoin0/ucoin1 (metadata set), 2 = the signer's token-factory denom "sub"
	Amt  int64  `json:"amt"`
	To   int    `json:"to"` // recipient 0/1
}

type simsInput struct {
	Driver string   `json:"driver"` // "sims"
	Signer int      `json:"signer"` // 0 | 1
	Chain  []simMsg `json:"chain"`
	Pre    [][]int  `json:"pre"`   // txs delivered in block A (indices into chain)
	Sims   [][]int  `json:"sims"`  // txs simulated, never committed
	SimIn  bool     `json:"sim_in"` // simulations inside block B (after BeginBlock) instead of after Commit of block A
	Post   [][]int  `json:"post"`  // txs delivered in block B
}

type simsObs struct {
	HashEq    bool     `json:"hash_eq"`
	ResultsEq bool     `json:"results_eq"` // code, gas, data of every DeliverTx equal
	EventsEq  bool     `json:"events_eq"`
	Codes     []uint32 `json:"codes"`   // DeliverTx codes WITHOUT simulations (pre then post)
	CodesW    []uint32 `json:"codes_w"` // … with simulations
	SimRes    []string `json:"sim_res"` // per simulation: ok | err | panic
	Panic     string   `json:"panic"`
}

var (
	simsGenOnce  sync.Once
	simsGenBytes []byte
)

func simsGenesis() []byte {
	simsGenOnce.Do(func() {
		_, gen := testapp.NewNibiruTestApp(app.GenesisState{})
		bz, err := json.Marshal(gen)
		if err != nil {
			panic(err)
		}
		simsGenBytes = bz
	})
	return simsGenBytes
}

type simsWorld struct {
	c    *Chain
	keys []*secp256k1.PrivKey
	rcpt []sdk.AccAddress
}

func newSimsWorld() (*simsWorld, string) {
	a := app.NewNibiruApp(&parkLogger{}, tmdb.NewMemDB(), nil, true, sims.EmptyAppOptions{})
	a.InitChain(abci.RequestInitChain{ConsensusParams: sims.DefaultConsensusParams, AppStateBytes: simsGenesis(), Time: GenesisTime})
	a.Commit()
	w := &simsWorld{c: &Chain{App: a, TxCfg: app.MakeEncodingConfig().TxConfig, Time: GenesisTime}}
	w.keys = []*secp256k1.PrivKey{secp256k1.GenPrivKeyFromSecret([]byte("c09-sims-0")), secp256k1.GenPrivKeyFromSecret([]byte("c09-sims-1"))}
	w.rcpt = []sdk.AccAddress{sdk.AccAddress([]byte("c09-sims-recipient-0")), sdk.AccAddress([]byte("c09-sims-recipient-1"))}
	c := w.c
	c.BeginBlock(5 * time.Second)
	for i := 0; i < 2; i++ {
		d := fmt.Sprintf("ucoin%d", i)
		c.App.BankKeeper.SetDenomMetaData(c.Ctx(), banktypes.Metadata{
			DenomUnits: []*banktypes.DenomUnit{{Denom: d, Exponent: 0}}, Base: d, Display: d, Name: d, Symbol: "UC" + fmt.Sprint(i)})
	}
	for _, k := range w.keys {
		coins := Unibi(1e15).Add(sdk.NewCoin("ucoin0", sdkmath.NewInt(1e9)), sdk.NewCoin("ucoin1", sdkmath.NewInt(1e9)))
		if err := c.Fund(sdk.AccAddress(k.PubKey().Address()), coins); err != nil {
			return nil, "fund: " + err.Error()
		}
	}
	c.EndBlock()
	return w, ""
}

func (w *simsWorld) denom(signer, key int) string {
	if key < 2 {
		return fmt.Sprintf("ucoin%d", key)
	}
	return "tf/" + sdk.AccAddress(w.keys[signer].PubKey().Address()).String() + "/sub"
}

func (w *simsWorld) msg(signer int, m simMsg) sdk.Msg {
	from := sdk.AccAddress(w.keys[signer].PubKey().Address())
	d := w.denom(signer, m.Key)
	coin := sdk.NewCoin(d, sdkmath.NewInt(m.Amt))
	to := w.rcpt[m.To%2]
	switch m.Kind {
	case "send":
		return banktypes.NewMsgSend(from, to, sdk.NewCoins(coin))
	case "tf_create":
		return &tftypes.MsgCreateDenom{Sender: from.String(), Subdenom: "sub"}
	case "tf_mint":
		return &tftypes.MsgMint{Sender: from.String(), Coin: sdk.NewCoin(w.denom(signer, 2), sdkmath.NewInt(m.Amt)), MintTo: from.String()}
	case "tf_burn":
		return &tftypes.MsgBurn{Sender: from.String(), Coin: sdk.NewCoin(w.denom(signer, 2), sdkmath.NewInt(m.Amt)), BurnFrom: from.String()}
	case "tf_admin":
		return &tftypes.MsgChangeAdmin{Sender: from.String(), Denom: w.denom(signer, 2), NewAdmin: to.String()}
	case "ft_create":
		return &evm.MsgCreateFunToken{FromBankDenom: d, Sender: from.String()}
	case "ft_convert":
		return &evm.MsgConvertCoinToEvm{Sender: from.String(), BankCoin: coin, ToEthAddr: eth.EIP55Addr{Address: detAcc(byte(0x60 + m.To%2)).EthAddr}}
	}
	return banktypes.NewMsgSend(from, to, sdk.NewCoins(sdk.NewCoin("unibi", sdkmath.NewInt(1))))
}

func (w *simsWorld) msgs(in *simsInput, idx []int) []sdk.Msg {
	var out []sdk.Msg
	for _, i := range idx {
		if i >= 0 && i < len(in.Chain) {
			out = append(out, w.msg(in.Signer, in.Chain[i]))
		}
	}
	return out
}

func (w *simsWorld) simulate(in *simsInput, idx []int) (res string) {
	defer func() {
		if r := recover(); r != nil {
			res = "panic"
		}
	}()
	msgs := w.msgs(in, idx)
	if len(msgs) == 0 {
		return "err"
	}
	priv := w.keys[in.Signer]
	qctx := w.c.App.NewContext(true, w.c.Header)
	acc := w.c.App.AccountKeeper.GetAccount(qctx, sdk.AccAddress(priv.PubKey().Address()))
	if acc == nil {
		return "err"
	}
	tx, err := sims.GenSignedMockTx(rand.New(rand.NewSource(1)), w.c.TxCfg, msgs, Unibi(1_000_000), 20_000_000, qctx.ChainID(),
		[]uint64{acc.GetAccountNumber()}, []uint64{acc.GetSequence()}, priv)
	if err != nil {
		return "err"
	}
	bz, err := w.c.TxCfg.TxEncoder()(tx)
	if err != nil {
		return "err"
	}
	if _, _, err := w.c.App.Simulate(bz); err != nil {
		if os.Getenv("VERIF_C09_DEBUG") == "2" {
			fmt.Println("   sim err:", idx, err)
		}
		return "err"
	}
	return "ok"
}

type simsRun struct {
	hashes, results, events []string
	codes                   []uint32
	simRes                  []string
	panicked                string
}

func runSimsReplica(in *simsInput, withSims bool) (out simsRun) {
	out.simRes = []string{}
	w, serr := newSimsWorld()
	if serr != "" {
		out.panicked = "setup: " + serr
		return
	}
	c := w.c
	deliver := func(txs [][]int) {
		for _, idx := range txs {
			msgs := w.msgs(in, idx)
			if len(msgs) == 0 {
				continue
			}
			var r abci.ResponseDeliverTx
			if p := Recover(func() { r = c.DeliverCosmos(w.keys[in.Signer], 20_000_000, Unibi(1_000_000), msgs...) }); p != "" {
				out.panicked += "deliver: " + p + ";"
			}
			out.codes = append(out.codes, r.Code)
			out.results = append(out.results, fmt.Sprintf("%d/%d/%d/%x", r.Code, r.GasWanted, r.GasUsed, r.Data))
			r.Log = ""
			bz, _ := proto.Marshal(&r)
			out.events = append(out.events, hex.EncodeToString(bz))
		}
	}
	simulate := func() {
		if withSims {
			for _, idx := range in.Sims {
				out.simRes = append(out.simRes, w.simulate(in, idx))
			}
		}
	}
	c.BeginBlock(5 * time.Second)
	deliver(in.Pre)
	_, h := c.EndBlock()
	out.hashes = append(out.hashes, hex.EncodeToString(h))
	if !in.SimIn {
		simulate()
	}
	c.BeginBlock(5 * time.Second)
	if in.SimIn {
		simulate()
	}
	deliver(in.Post)
	_, h = c.EndBlock()
	out.hashes = append(out.hashes, hex.EncodeToString(h))
	c.BeginBlock(5 * time.Second)
	_, h = c.EndBlock()
	out.hashes = append(out.hashes, hex.EncodeToString(h))
	return out
}

// chains: templates of dependent messages; the generator perturbs amounts / keys and cuts sub-sequences
func genSimsCase(r *Rng) simsInput {
	in := simsInput{Driver: "sims", Signer: r.Intn(2)}
	amt := func() int64 { return int64(r.Range(1, 900)) }
	bankKey := r.Intn(2)
	switch r.Pick(3, 3, 2, 2) {
	case 0: // map a bank denom to an ERC20, then convert
		in.Chain = []simMsg{{Kind: "ft_create", Key: bankKey}, {Kind: "ft_convert", Key: bankKey, Amt: amt(), To: r.Intn(2)}, {Kind: "send", Key: bankKey, Amt: amt(), To: r.Intn(2)}}
	case 1: // token factory life cycle, then map the new denom and convert
		in.Chain = []simMsg{{Kind: "tf_create", Key: 2}, {Kind: "tf_mint", Key: 2, Amt: 1000 + amt()}, {Kind: "ft_create", Key: 2}, {Kind: "ft_convert", Key: 2, Amt: amt(), To: r.Intn(2)}, {Kind: "tf_burn", Key: 2, Amt: amt()}}
	case 2: // token factory admin hand-over
		in.Chain = []simMsg{{Kind: "tf_create", Key: 2}, {Kind: "tf_mint", Key: 2, Amt: 1000 + amt()}, {Kind: "tf_admin", Key: 2, To: r.Intn(2)}, {Kind: "tf_mint", Key: 2, Amt: amt()}, {Kind: "send", Key: 2, Amt: amt(), To: r.Intn(2)}}
	default: // plain sends, one exceeding the balance
		in.Chain = []simMsg{{Kind: "send", Key: bankKey, Amt: amt(), To: 0}, {Kind: "send", Key: bankKey, Amt: 2_000_000_000, To: 1}, {Kind: "send", Key: 1 - bankKey, Amt: amt(), To: 1}}
	}
	n := len(in.Chain)
	prefix := func(k int) []int {
		var l []int
		for i := 0; i < k; i++ {
			l = append(l, i)
		}
		return l
	}
	sub := func() []int { // random non-empty sub-sequence
		var l []int
		for i := 0; i < n; i++ {
			if r.Chance(1, 2) {
				l = append(l, i)
			}
		}
		if len(l) == 0 {
			l = []int{r.Intn(n)}
		}
		return l
	}
	// block A: sometimes the first messages are really committed (the ordinary flow)
	k0 := 0
	if k := r.Pick(3, 1, 1); k > 0 && k < n {
		in.Pre = [][]int{prefix(k)}
		k0 = k
	}
	// simulations: ONE multi-message tx continuing where the committed part stops (or, less often, the whole chain again,
	// which then fails half-way), plus sometimes single messages and arbitrary sub-sequences
	if hi := r.Range(k0+1, n); k0 > 0 && r.Chance(2, 3) {
		in.Sims = [][]int{prefix(hi)[k0:]}
	} else {
		in.Sims = [][]int{prefix(r.Range(2, n))}
	}
	if r.Chance(1, 3) {
		in.Sims = append(in.Sims, []int{r.Intn(n)})
	}
	if r.Chance(1, 4) {
		in.Sims = append(in.Sims, sub())
	}
	in.SimIn = r.Chance(1, 3)
	// block B: sub-sequences of the chain, as one tx or one tx per message
	if r.Chance(1, 2) {
		in.Post = [][]int{sub()}
	} else {
		for _, i := range sub() {
			in.Post = append(in.Post, []int{i})
		}
	}
	return in
}

var simsBaseCache = map[string]simsRun{}

func TestC09Sims(t *testing.T) {
	cfg := LoadCfg(t, 70, 700)
	em := NewEmitter(t, cfg.Out)
	defer em.Close()
	var inputs []simsInput
	if cfg.Replay != "" {
		for _, raw := range cfg.ReplayInputs(t) {
			var in simsInput
			if err := json.Unmarshal(raw, &in); err == nil && in.Driver == "sims" {
				inputs = append(inputs, in)
			}
		}
	} else {
		rng := NewRng(cfg.Seed ^ 0x51b5)
		for len(inputs) < cfg.N {
			inputs = append(inputs, genSimsCase(rng.Fork()))
		}
	}
	for i := range inputs {
		in := inputs[i]
		noSim := in
		noSim.Sims, noSim.SimIn = nil, false
		kb, _ := json.Marshal(noSim)
		base, ok := simsBaseCache[string(kb)]
		if !ok {
			base = runSimsReplica(&in, false)
			simsBaseCache[string(kb)] = base
		}
		with := runSimsReplica(&in, true)
		obs := simsObs{HashEq: eqStrings(base.hashes, with.hashes), ResultsEq: eqStrings(base.results, with.results),
			EventsEq: eqStrings(base.events, with.events), Codes: base.codes, CodesW: with.codes, SimRes: with.simRes, Panic: base.panicked + with.panicked}
		if obs.Codes == nil {
			obs.Codes = []uint32{}
		}
		if obs.CodesW == nil {
			obs.CodesW = []uint32{}
		}
		if os.Getenv("VERIF_C09_DEBUG") != "" {
			bz, _ := json.Marshal(in)
			oz, _ := json.Marshal(obs)
			fmt.Printf("%s\n   -> %s\n", bz, oz)
		}
		em.Emit(in, obs, nil)
	}
	_ = bytes.Equal
}
