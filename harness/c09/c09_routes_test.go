package c09

// C09 — second driver: EVERY registered gRPC query route of the custom modules, around blocks that do module work.
//
// The first driver knows the requests of x/evm.  This one is generic: for each custom module (inflation, oracle,
// epochs, sudo, tokenfactory, devgas, evm) the methods of its generated QueryServer interface are enumerated by
// reflection, and every method is called through app.Query (the real baseapp gRPC path on the last committed version)
// with an empty request and with a request whose string fields are filled with plausible values (denoms, addresses,
// pairs, epoch identifiers).  A method added to a module later is picked up without touching this file.
//
// The block sequence crosses what the modules do at block boundaries: the start and the END of a "day" epoch (the
// inflation hook mints and distributes), two oracle vote-period ends and a slash-window end.  The requests are issued at
// one injection point (after Commit of block b, or inside block b after BeginBlock); the same blocks are executed on a
// second replica without requests.  Observables: app hash of every block equal?, unibi supply after every block equal?,
// BeginBlock/EndBlock events of every block equal?

import (
	"bytes"
	"encoding/hex"
	"encoding/json"
	"fmt"
	"os"
	"reflect"
	"sort"
	"strings"
	"sync"
	"testing"
	"time"

	tmdb "github.com/cometbft/cometbft-db"
	abci "github.com/cometbft/cometbft/abci/types"
	tmproto "github.com/cometbft/cometbft/proto/tendermint/types"
	"github.com/cosmos/cosmos-sdk/testutil/sims"
	sdk "github.com/cosmos/cosmos-sdk/types"
	"github.com/gogo/protobuf/proto"

	. "verifharness/hx"

	"github.com/NibiruChain/nibiru/v2/app"
	"github.com/NibiruChain/nibiru/v2/x/common/testutil/testapp"
	devgastypes "github.com/NibiruChain/nibiru/v2/x/devgas/v1/types"
	epochstypes "github.com/NibiruChain/nibiru/v2/x/epochs/types"
	"github.com/NibiruChain/nibiru/v2/x/evm"
	inflationtypes "github.com/NibiruChain/nibiru/v2/x/inflation/types"
	oracletypes "github.com/NibiruChain/nibiru/v2/x/oracle/types"
	sudotypes "github.com/NibiruChain/nibiru/v2/x/sudo/types"
	tftypes "github.com/NibiruChain/nibiru/v2/x/tokenfactory/types"
)

type routesInput struct {
	Driver string `json:"driver"` // "routes"
	Svc    string `json:"svc"`    // inflation | oracle | epochs | sudo | tokenfactory | devgas | evm | all
	At     string `json:"at"`     // after (after Commit of block b) | in (inside block b, after BeginBlock)
	Block  int    `json:"block"`  // 0-based index into the block sequence; at=after with block=-1: before the first block
}

type routesObs struct {
	HashEq   bool   `json:"hash_eq"`
	SupplyEq bool   `json:"supply_eq"`
	EventsEq bool   `json:"events_eq"`
	Queries  int    `json:"queries"`   // requests issued
	QOK      int    `json:"q_ok"`      // … answered with code 0
	Minted   string `json:"minted"`    // unibi supply growth over the block sequence WITHOUT requests (> 0: inflation minted)
	MintedW  string `json:"minted_w"`  // … with requests
	Routes   int    `json:"routes"`    // query methods enumerated for the service(s)
	Panic    string `json:"panic"`
}

// services: full gRPC service name and the generated server interface whose methods are the routes
var querySvcs = []struct {
	name, svc string
	iface     reflect.Type
}{
	{"inflation", "nibiru.inflation.v1.Query", reflect.TypeOf((*inflationtypes.QueryServer)(nil)).Elem()},
	{"oracle", "nibiru.oracle.v1.Query", reflect.TypeOf((*oracletypes.QueryServer)(nil)).Elem()},
	{"epochs", "nibiru.epochs.v1.Query", reflect.TypeOf((*epochstypes.QueryServer)(nil)).Elem()},
	{"sudo", "nibiru.sudo.v1.Query", reflect.TypeOf((*sudotypes.QueryServer)(nil)).Elem()},
	{"tokenfactory", "nibiru.tokenfactory.v1.Query", reflect.TypeOf((*tftypes.QueryServer)(nil)).Elem()},
	{"devgas", "nibiru.devgas.v1.Query", reflect.TypeOf((*devgastypes.QueryServer)(nil)).Elem()},
	{"evm", "eth.evm.v1.Query", reflect.TypeOf((*evm.QueryServer)(nil)).Elem()},
}

// block sequence: time steps.  Block 0 starts the epochs, block 2 (+25h) ends day epoch 1 (inflation mints), block 5
// ends day epoch 2; with VotePeriod 3 / SlashWindow 6 vote periods end at heights 2, 5, 8 and the slash window at 5.
var routeBlocks = []time.Duration{5 * time.Second, 5 * time.Second, 25 * time.Hour, 5 * time.Second, 5 * time.Second, 25 * time.Hour, 5 * time.Second, 5 * time.Second}

var (
	routesGenOnce  sync.Once
	routesGenBytes []byte
)

func routesGenesis() []byte {
	routesGenOnce.Do(func() {
		_, gen := testapp.NewNibiruTestApp(app.GenesisState{})
		cdc := app.MakeEncodingConfig().Codec
		gen[epochstypes.ModuleName] = cdc.MustMarshalJSON(epochstypes.DefaultGenesisFromTime(GenesisTime))
		ig := inflationtypes.DefaultGenesisState()
		ig.Params.InflationEnabled, ig.Params.HasInflationStarted = true, true
		gen[inflationtypes.ModuleName] = cdc.MustMarshalJSON(ig)
		var og oracletypes.GenesisState
		cdc.MustUnmarshalJSON(gen[oracletypes.ModuleName], &og)
		og.Params.VotePeriod, og.Params.SlashWindow = 3, 6
		og.Params.MinValidPerWindow = sdk.ZeroDec() // the single validator never votes: do not jail it
		gen[oracletypes.ModuleName] = cdc.MustMarshalJSON(&og)
		bz, err := json.Marshal(gen)
		if err != nil {
			panic(err)
		}
		routesGenBytes = bz
	})
	return routesGenBytes
}

// fill sets plausible values into the string fields of a request (by field name)
func fillRequest(v reflect.Value, addr string) {
	for i := 0; i < v.NumField(); i++ {
		f := v.Field(i)
		if !f.CanSet() || f.Kind() != reflect.String {
			continue
		}
		n := strings.ToLower(v.Type().Field(i).Name)
		switch {
		case strings.Contains(n, "denom"):
			f.SetString("unibi")
		case strings.Contains(n, "pair"):
			f.SetString("ubtc:uusd")
		case strings.Contains(n, "identifier"):
			f.SetString("day")
		case strings.Contains(n, "valid"):
			f.SetString(sdk.ValAddress([]byte("c09-routes-validator")).String())
		case strings.Contains(n, "addr") || strings.Contains(n, "creator") || strings.Contains(n, "sender") || strings.Contains(n, "deployer") ||
			strings.Contains(n, "withdraw") || strings.Contains(n, "feeder") || strings.Contains(n, "contract"):
			f.SetString(addr)
		case strings.Contains(n, "token"):
			f.SetString("unibi")
		default:
			f.SetString("1")
		}
	}
}

// issueRoutes calls every method of the chosen service(s): empty request, then populated request
func issueRoutes(a *app.NibiruApp, svc string) (routes, n, ok int) {
	addr := sdk.AccAddress([]byte("c09-routes-account__")).String()
	for _, s := range querySvcs {
		if svc != "all" && svc != s.name {
			continue
		}
		var names []string
		for i := 0; i < s.iface.NumMethod(); i++ {
			names = append(names, s.iface.Method(i).Name)
		}
		sort.Strings(names)
		for _, mn := range names {
			m, _ := s.iface.MethodByName(mn)
			if m.Type.NumIn() != 2 || m.Type.In(1).Kind() != reflect.Ptr {
				continue
			}
			routes++
			for variant := 0; variant < 2; variant++ {
				req := reflect.New(m.Type.In(1).Elem())
				if variant == 1 {
					fillRequest(req.Elem(), addr)
				}
				pm, isMsg := req.Interface().(proto.Message)
				if !isMsg {
					continue
				}
				bz, err := proto.Marshal(pm)
				if err != nil {
					continue
				}
				n++
				func() {
					defer func() { _ = recover() }()
					if r := a.Query(abci.RequestQuery{Path: "/" + s.svc + "/" + mn, Data: bz}); r.Code == 0 {
						ok++
					}
				}()
			}
		}
	}
	return
}

type routesRun struct {
	hashes, supplies, events []string
	routes, n, ok            int
	panicked                 string
}

func runRoutesReplica(in *routesInput, withQueries bool) (out routesRun) {
	a := app.NewNibiruApp(&parkLogger{}, tmdb.NewMemDB(), nil, true, sims.EmptyAppOptions{})
	a.InitChain(abci.RequestInitChain{ConsensusParams: sims.DefaultConsensusParams, AppStateBytes: routesGenesis(), Time: GenesisTime})
	a.Commit()
	inject := func() {
		if withQueries {
			r, n, ok := issueRoutes(a, in.Svc)
			out.routes, out.n, out.ok = out.routes+r, out.n+n, out.ok+ok
		}
	}
	if in.At == "after" && in.Block < 0 {
		inject()
	}
	now := GenesisTime
	for b, dt := range routeBlocks {
		now = now.Add(dt)
		header := tmproto.Header{Height: a.LastBlockHeight() + 1, Time: now}
		var bb abci.ResponseBeginBlock
		var eb abci.ResponseEndBlock
		if p := Recover(func() { bb = a.BeginBlock(abci.RequestBeginBlock{Header: header}) }); p != "" {
			out.panicked += fmt.Sprintf("BeginBlock %d: %s;", b, p)
		}
		if in.At == "in" && in.Block == b {
			inject()
		}
		if p := Recover(func() { eb = a.EndBlock(abci.RequestEndBlock{Height: header.Height}) }); p != "" {
			out.panicked += fmt.Sprintf("EndBlock %d: %s;", b, p)
		}
		ctx := a.NewContext(false, header)
		out.supplies = append(out.supplies, a.BankKeeper.GetSupply(ctx, "unibi").Amount.String())
		bbz, _ := proto.Marshal(&bb)
		ebz, _ := proto.Marshal(&eb)
		out.events = append(out.events, hex.EncodeToString(bbz)+"|"+hex.EncodeToString(ebz))
		out.hashes = append(out.hashes, hex.EncodeToString(a.Commit().Data))
		if in.At == "after" && in.Block == b {
			inject()
		}
	}
	return out
}

var routesBase *routesRun

func eqStrings(a, b []string) bool {
	if len(a) != len(b) {
		return false
	}
	for i := range a {
		if a[i] != b[i] {
			return false
		}
	}
	return true
}

func supplyGrowth(r routesRun) string {
	if len(r.supplies) == 0 {
		return "0"
	}
	first, _ := sdk.NewIntFromString(r.supplies[0])
	last, _ := sdk.NewIntFromString(r.supplies[len(r.supplies)-1])
	return last.Sub(first).String()
}

func TestC09Routes(t *testing.T) {
	cfg := LoadCfg(t, 40, 200)
	em := NewEmitter(t, cfg.Out)
	defer em.Close()
	var inputs []routesInput
	if cfg.Replay != "" {
		for _, raw := range cfg.ReplayInputs(t) {
			var in routesInput
			if err := json.Unmarshal(raw, &in); err == nil && in.Driver == "routes" {
				inputs = append(inputs, in)
			}
		}
	} else {
		// openers: every service right before the epoch-ending block, then everything everywhere
		for _, s := range querySvcs {
			inputs = append(inputs, routesInput{Driver: "routes", Svc: s.name, At: "after", Block: 1})
		}
		for b := -1; b < len(routeBlocks); b++ {
			inputs = append(inputs, routesInput{Driver: "routes", Svc: "all", At: "after", Block: b})
		}
		for _, b := range []int{2, 5} {
			inputs = append(inputs, routesInput{Driver: "routes", Svc: "all", At: "in", Block: b})
		}
		rng := NewRng(cfg.Seed ^ 0xc09)
		for len(inputs) < cfg.N {
			r := rng.Fork()
			in := routesInput{Driver: "routes", Svc: querySvcs[r.Intn(len(querySvcs))].name, At: []string{"after", "in"}[r.Intn(2)], Block: r.Intn(len(routeBlocks))}
			inputs = append(inputs, in)
		}
	}
	if len(inputs) == 0 {
		return
	}
	if routesBase == nil {
		b := runRoutesReplica(&routesInput{}, false)
		routesBase = &b
	}
	for _, in := range inputs {
		with := runRoutesReplica(&in, true)
		obs := routesObs{
			HashEq: eqStrings(routesBase.hashes, with.hashes), SupplyEq: eqStrings(routesBase.supplies, with.supplies),
			EventsEq: eqStrings(routesBase.events, with.events), Queries: with.n, QOK: with.ok, Routes: with.routes,
			Minted: supplyGrowth(*routesBase), MintedW: supplyGrowth(with), Panic: routesBase.panicked + with.panicked,
		}
		if os.Getenv("VERIF_C09_DEBUG") != "" {
			bz, _ := json.Marshal(in)
			oz, _ := json.Marshal(obs)
			fmt.Printf("%s\n   -> %s\n", bz, oz)
		}
		em.Emit(in, obs, nil)
	}
	_ = bytes.Equal
}
