package c17

// C17 — no transaction can set a validator commission above the 25 % cap.
//
// A case is a history of transactions on a fresh chain; every transaction is delivered in a
// block of its own through the real BeginBlock / DeliverTx / EndBlock / Commit (the block time
// advances by `dt` seconds first).  A transaction is a signer and a list of message TREES:
//
//	create  MsgCreateValidator{operator, rate, max_rate, max_change_rate}    (raw Dec ×10^18)
//	edit    MsgEditValidator{operator, rate | null}
//	grant   authz MsgGrant{granter, grantee, GenericAuthorization(type)}
//	send    bank MsgSend{from}
//	exec    authz MsgExec{grantee, children}
//	wasm    wasm MsgExecuteContract{sender, reflect contract, reflect_msg{children as stargate}}
//	gov     gov MsgSubmitProposal{proposer, children}  (stored; executed only if the proposal passes)
//	group   x/group MsgSubmitProposal{group policy, proposers = [proposer], children, exec = TRY | unspecified}
//	carrier any OTHER routed message type that carries sdk.Msgs (found at run time in the linked app by
//	        carriers.Probe), built by reflection: children packed into its Any fields, sender into its strings
//
// Which carrier types exist is read off the LINKED application (interface registry + msg service router), not
// assumed: group nodes are generated on every tree (where x/group is not routed they must be rejected), carrier
// nodes whenever the probe reports a routed carrier the driver has no constructor for.
//
// Actors: 0..3 user accounts (secp256k1), 10 the reflect contract (owner = user 0), 11 the gov
// module account, 12 the policy account of a group (members: user 1 and the contract, one yes vote passes;
// the group exists only where x/group is routed).  Observables per transaction: accepted?, and the commission (rate, max rate,
// max change rate) of every actor that is a validator, plus the maximum commission rate over ALL
// validators in staking state.

import (
	"encoding/base64"
	"encoding/json"
	"fmt"
	"math/big"
	"os"
	"sort"
	"strings"
	"testing"
	"time"

	sdkmath "cosmossdk.io/math"
	wasmtypes "github.com/CosmWasm/wasmd/x/wasm/types"
	tmdb "github.com/cometbft/cometbft-db"
	abci "github.com/cometbft/cometbft/abci/types"
	"github.com/cometbft/cometbft/libs/log"
	codectypes "github.com/cosmos/cosmos-sdk/codec/types"
	"github.com/cosmos/cosmos-sdk/crypto/keys/ed25519"
	"github.com/cosmos/cosmos-sdk/crypto/keys/secp256k1"
	"github.com/cosmos/cosmos-sdk/testutil/sims"
	sdk "github.com/cosmos/cosmos-sdk/types"
	authtypes "github.com/cosmos/cosmos-sdk/x/auth/types"
	"github.com/cosmos/cosmos-sdk/x/authz"
	banktypes "github.com/cosmos/cosmos-sdk/x/bank/types"
	genutiltypes "github.com/cosmos/cosmos-sdk/x/genutil/types"
	govtypes "github.com/cosmos/cosmos-sdk/x/gov/types"
	govv1 "github.com/cosmos/cosmos-sdk/x/gov/types/v1"
	"github.com/cosmos/cosmos-sdk/x/group"
	stakingtypes "github.com/cosmos/cosmos-sdk/x/staking/types"
	"github.com/cosmos/gogoproto/proto"

	"verifharness/c17/carriers"
	"verifharness/c17/txutil"
	. "verifharness/hx"

	"github.com/NibiruChain/nibiru/v2/app"
	"github.com/NibiruChain/nibiru/v2/app/ante"
	"github.com/NibiruChain/nibiru/v2/x/common/testutil"
	epochstypes "github.com/NibiruChain/nibiru/v2/x/epochs/types"
	"github.com/NibiruChain/nibiru/v2/x/evm"
	sudotypes "github.com/NibiruChain/nibiru/v2/x/sudo/types"
)

const (
	nUsers     = 4
	idContract = 10
	idGov      = 11
	idPolicy   = 12
)

type node struct {
	K    string  `json:"k"`
	Op   int     `json:"op,omitempty"`   // create / edit: operator actor
	Rate *string `json:"rate,omitempty"` // create (required) / edit (optional): raw Dec
	Max  string  `json:"max,omitempty"`  // create
	Chg  string  `json:"chg,omitempty"`  // create
	From int     `json:"from,omitempty"` // grant: granter; send: sender
	To   int     `json:"to,omitempty"`   // grant: grantee
	T    string  `json:"t,omitempty"`    // grant: message type (create|edit|exec|wasm|send|grant|gov)
	G    int     `json:"g,omitempty"`    // exec: grantee; wasm: sender; gov: proposer; group: proposer; carrier: sender
	Pol  int     `json:"pol,omitempty"`  // group: actor whose address is the group policy account
	Try  bool    `json:"try,omitempty"`  // group: Exec = EXEC_TRY
	U    int     `json:"u,omitempty"`    // carrier: number of the carrier type (index into the probe's list of unknown carriers)
	URL  string  `json:"url,omitempty"`  // carrier: its type URL
	C    []node  `json:"c,omitempty"`    // children
}

type txIn struct {
	Dt     int    `json:"dt"`            // seconds since the previous block
	Ext    string `json:"ext,omitempty"` // "" | evm (ExtensionOptionsEthereumTx) | other (an unknown extension option)
	Signer int    `json:"signer"`
	Msgs   []node `json:"msgs"`
}

type caseIn struct {
	MinRate string `json:"min_rate"` // staking param MinCommissionRate (raw Dec)
	// genutil gen_txs: transactions x/genutil delivers through DeliverTx during InitChain (block height 0).  A case
	// with gentxs runs on a chain of its own whose genesis has NO pre-set validator; only actors 0..3 exist then
	GenTxs []txIn `json:"gentxs,omitempty"`
	Txs    []txIn `json:"txs"`
}

type genObs struct {
	Started bool     `json:"started"` // InitChain succeeded (a failing gentx makes it panic)
	Vals    []valObs `json:"vals"`
	AllMax  string   `json:"allmax"`
	SetupDt int      `json:"setup_dt"` // seconds from genesis time to the end of the setup blocks
	Log     string   `json:"-"`
}

type valObs struct {
	Id   int    `json:"id"`
	Rate string `json:"rate"`
	Max  string `json:"max"`
	Chg  string `json:"chg"`
}

type txObs struct {
	Ok     bool     `json:"ok"`
	Class  string   `json:"class"` // ok | ante | msg  (informative; ante = signer sequence unchanged)
	Vals   []valObs `json:"vals"`
	AllMax string   `json:"allmax"` // max commission rate over all validators in state
	Log    string   `json:"-"`
}

type world struct {
	c        *Chain
	users    []*secp256k1.PrivKey
	contract sdk.AccAddress
	gov      sdk.AccAddress
	policy   sdk.AccAddress
	sink     sdk.AccAddress
	nPk      int
	tag      uint64
	codeID   uint64
	cases    int
}

var worldCounter uint64

func repoDir() string {
	if d := os.Getenv("VERIF_REPO"); d != "" {
		return d
	}
	return "/repo"
}

var reflectCode []byte

// ---------------------------------------------------------------- carriers of the linked application
const (
	urlExec        = "/cosmos.authz.v1beta1.MsgExec"
	urlGovSubmit   = "/cosmos.gov.v1.MsgSubmitProposal"
	urlGroupSubmit = "/cosmos.group.v1.MsgSubmitProposal"
	urlEthTx       = "/eth.evm.v1.MsgEthereumTx"
)

var (
	probed          bool
	groupRouted     bool     // the msg service router executes group MsgSubmitProposal
	unknownCarriers []string // routed carrier types the driver has no constructor for (wrapped by reflection)
)

func probeCarriers(a *app.NibiruApp) {
	if probed {
		return
	}
	probed = true
	for _, i := range carriers.Probe(a.InterfaceRegistry(), a.MsgServiceRouter()) {
		if !i.Routed || !i.Carries() {
			continue
		}
		switch i.URL {
		case urlExec, urlGovSubmit, urlEthTx:
		case urlGroupSubmit:
			groupRouted = true
		default:
			unknownCarriers = append(unknownCarriers, i.URL)
		}
	}
	sort.Strings(unknownCarriers)
}

// setupGroup gives the case its group: members user 1 and the reflect contract (weight 1 each), threshold 1, no
// minimum execution period; w.policy is the group policy account.  Where x/group is not routed no group can exist:
// w.policy is then a plain funded address.
func (w *world) setupGroup(t *testing.T) {
	c := w.c
	ctx := c.Ctx()
	w.policy = sdk.AccAddress([]byte(fmt.Sprintf("c17-policy-%09d", w.tag)))
	if groupRouted {
		m := &group.MsgCreateGroupWithPolicy{Admin: w.addr(1).String(), Members: []group.MemberRequest{
			{Address: w.addr(1).String(), Weight: "1"}, {Address: w.contract.String(), Weight: "1"}}}
		if err := m.SetDecisionPolicy(group.NewThresholdDecisionPolicy("1", time.Hour, 0)); err != nil {
			t.Fatal(err)
		}
		h := c.App.MsgServiceRouter().Handler(m)
		if h == nil {
			t.Fatal("x/group routed but MsgCreateGroupWithPolicy has no handler")
		}
		rsp, err := h(ctx, m)
		if err != nil {
			t.Fatal("create group: ", err)
		}
		var gr group.MsgCreateGroupWithPolicyResponse
		if err := c.App.AppCodec().Unmarshal(rsp.Data, &gr); err != nil {
			t.Fatal(err)
		}
		w.policy = sdk.MustAccAddressFromBech32(gr.GroupPolicyAddress)
	}
	if err := c.Fund(w.policy, Unibi(1e13)); err != nil {
		t.Fatal(err)
	}
}

// newWorld starts a fresh chain and stores the reflect contract code once; beginCase then gives every case
// its own key accounts and its own contract instance (the wasm VM of a chain is never released, so chains are
// shared by a batch of cases; nothing a case observes depends on the other cases of the batch).
func newWorld(t *testing.T) *world {
	w := &world{c: NewChain(nil)}
	c := w.c
	probeCarriers(c.App)
	c.BeginBlock(5 * time.Second)
	ctx := c.Ctx()
	w.sink = sdk.AccAddress([]byte("c17-sink____________"))
	w.gov = authtypes.NewModuleAddress(govtypes.ModuleName)
	if err := c.Fund(w.gov, Unibi(1e13)); err != nil {
		t.Fatal(err)
	}
	if reflectCode == nil {
		bz, err := os.ReadFile(repoDir() + "/x/devgas/v1/keeper/testdata/reflect.wasm")
		if err != nil {
			t.Fatal(err)
		}
		reflectCode = bz
	}
	uploader := sdk.AccAddress([]byte("c17-uploader________"))
	store := &wasmtypes.MsgStoreCode{Sender: uploader.String(), WASMByteCode: reflectCode}
	rsp, err := c.App.MsgServiceRouter().Handler(store)(ctx, store)
	if err != nil {
		t.Fatal(err)
	}
	var sr wasmtypes.MsgStoreCodeResponse
	_ = c.App.AppCodec().Unmarshal(rsp.Data, &sr)
	w.codeID = sr.CodeID
	c.EndBlock()
	return w
}

// newGenesisWorld builds a chain whose genesis carries the case's gentxs (and no pre-set validator): key accounts
// 0..3 are genesis accounts, x/genutil delivers the gentxs from InitChain.
func newGenesisWorld(t *testing.T, ci caseIn) (*world, genObs) {
	worldCounter++
	w := &world{tag: worldCounter}
	for i := 0; i < nUsers; i++ {
		w.users = append(w.users, secp256k1.GenPrivKeyFromSecret([]byte(fmt.Sprintf("c17-user-%d-%d", worldCounter, i))))
	}
	w.sink = sdk.AccAddress([]byte("c17-sink____________"))
	w.gov = authtypes.NewModuleAddress(govtypes.ModuleName)
	w.contract = sdk.AccAddress([]byte("c17-no-contract-yet_"))
	napp := app.NewNibiruApp(log.NewNopLogger(), tmdb.NewMemDB(), nil, true, sims.EmptyAppOptions{})
	probeCarriers(napp)
	w.policy = sdk.AccAddress([]byte("c17-no-policy-yet___"))
	cdc := napp.AppCodec()
	txCfg := app.MakeEncodingConfig().TxConfig
	gen := napp.DefaultGenesis()
	gen[epochstypes.ModuleName] = cdc.MustMarshalJSON(epochstypes.DefaultGenesisFromTime(GenesisTime))
	gen[sudotypes.ModuleName] = cdc.MustMarshalJSON(&sudotypes.GenesisState{Sudoers: sudotypes.Sudoers{Root: testutil.ADDR_SUDO_ROOT, Contracts: []string{testutil.ADDR_SUDO_ROOT}}})
	var accs []authtypes.GenesisAccount
	var bals []banktypes.Balance
	for _, k := range w.users {
		a := sdk.AccAddress(k.PubKey().Address())
		accs = append(accs, authtypes.NewBaseAccount(a, nil, 0, 0))
		bals = append(bals, banktypes.Balance{Address: a.String(), Coins: Unibi(1e15)})
	}
	gen[authtypes.ModuleName] = cdc.MustMarshalJSON(authtypes.NewGenesisState(authtypes.DefaultParams(), accs))
	gen[banktypes.ModuleName] = cdc.MustMarshalJSON(banktypes.NewGenesisState(banktypes.DefaultParams(), bals, nil, []banktypes.Metadata{}, []banktypes.SendEnabled{}))
	sp := stakingtypes.DefaultParams()
	sp.MinCommissionRate = decOf(ci.MinRate)
	gen[stakingtypes.ModuleName] = cdc.MustMarshalJSON(stakingtypes.NewGenesisState(sp, nil, nil))
	seqs := map[int]uint64{}
	var raws []json.RawMessage
	for _, gtx := range ci.GenTxs {
		msgs, err := w.buildAll(gtx.Msgs)
		if err != nil || gtx.Signer < 0 || gtx.Signer >= nUsers {
			return w, genObs{Started: false, Vals: []valObs{}, AllMax: "0", Log: fmt.Sprint("build: ", err)}
		}
		tx, err := txutil.SignTxWith(txCfg, w.users[gtx.Signer], "", 0, seqs[gtx.Signer], 40_000_000, Unibi(1_000_000), nil, msgs...)
		if err != nil {
			return w, genObs{Started: false, Vals: []valObs{}, AllMax: "0", Log: "sign: " + err.Error()}
		}
		seqs[gtx.Signer]++
		bz, err := txCfg.TxJSONEncoder()(tx)
		if err != nil {
			return w, genObs{Started: false, Vals: []valObs{}, AllMax: "0", Log: "encode: " + err.Error()}
		}
		raws = append(raws, bz)
	}
	gen[genutiltypes.ModuleName] = cdc.MustMarshalJSON(&genutiltypes.GenesisState{GenTxs: raws})
	stateBytes, err := json.Marshal(gen)
	if err != nil {
		t.Fatal(err)
	}
	if p := Recover(func() {
		napp.InitChain(abci.RequestInitChain{ConsensusParams: sims.DefaultConsensusParams, AppStateBytes: stateBytes, Time: GenesisTime})
	}); p != "" {
		return w, genObs{Started: false, Vals: []valObs{}, AllMax: "0", Log: "InitChain panic: " + p}
	}
	napp.Commit()
	w.c = &Chain{App: napp, TxCfg: txCfg, Time: GenesisTime}
	c := w.c
	// setup block: the reflect contract (owner = user 0), funds for the contract and the gov account
	c.BeginBlock(5 * time.Second)
	ctx := c.Ctx()
	g := genObs{Started: true, SetupDt: 5}
	o := w.observe(abci.ResponseDeliverTx{}, 0, -1)
	g.Vals, g.AllMax = o.Vals, o.AllMax
	if reflectCode == nil {
		bz, err := os.ReadFile(repoDir() + "/x/devgas/v1/keeper/testdata/reflect.wasm")
		if err != nil {
			t.Fatal(err)
		}
		reflectCode = bz
	}
	owner := w.addr(0)
	store := &wasmtypes.MsgStoreCode{Sender: owner.String(), WASMByteCode: reflectCode}
	rsp, err := c.App.MsgServiceRouter().Handler(store)(ctx, store)
	if err != nil {
		t.Fatal(err)
	}
	var sr wasmtypes.MsgStoreCodeResponse
	_ = cdc.Unmarshal(rsp.Data, &sr)
	inst := &wasmtypes.MsgInstantiateContract{Sender: owner.String(), CodeID: sr.CodeID, Label: "reflect", Msg: []byte(`{}`)}
	rsp, err = c.App.MsgServiceRouter().Handler(inst)(ctx, inst)
	if err != nil {
		t.Fatal(err)
	}
	var ir wasmtypes.MsgInstantiateContractResponse
	_ = cdc.Unmarshal(rsp.Data, &ir)
	w.contract = sdk.MustAccAddressFromBech32(ir.Address)
	for _, a := range []sdk.AccAddress{w.contract, w.gov} {
		if err := c.Fund(a, Unibi(1e13)); err != nil {
			t.Fatal(err)
		}
	}
	w.setupGroup(t)
	c.EndBlock()
	return w, g
}

func (w *world) beginCase(t *testing.T, minRate string) {
	worldCounter++
	w.tag = worldCounter
	w.nPk = 0
	w.cases++
	c := w.c
	c.BeginBlock(5 * time.Second)
	ctx := c.Ctx()
	w.users = nil
	for i := 0; i < nUsers; i++ {
		k := secp256k1.GenPrivKeyFromSecret([]byte(fmt.Sprintf("c17-user-%d-%d", worldCounter, i)))
		w.users = append(w.users, k)
		if err := c.Fund(sdk.AccAddress(k.PubKey().Address()), Unibi(1e15)); err != nil {
			t.Fatal(err)
		}
	}
	p := c.App.StakingKeeper.GetParams(ctx)
	p.MinCommissionRate = decOf(minRate)
	if err := c.App.StakingKeeper.SetParams(ctx, p); err != nil {
		t.Fatal(err)
	}
	// a reflect contract instance of its own, owner = user 0
	owner := w.addr(0)
	inst := &wasmtypes.MsgInstantiateContract{Sender: owner.String(), CodeID: w.codeID, Label: fmt.Sprintf("reflect-%d", worldCounter), Msg: []byte(`{}`)}
	rsp, err := c.App.MsgServiceRouter().Handler(inst)(ctx, inst)
	if err != nil {
		t.Fatal(err)
	}
	var ir wasmtypes.MsgInstantiateContractResponse
	_ = c.App.AppCodec().Unmarshal(rsp.Data, &ir)
	w.contract = sdk.MustAccAddressFromBech32(ir.Address)
	if err := c.Fund(w.contract, Unibi(1e13)); err != nil {
		t.Fatal(err)
	}
	w.setupGroup(t)
	c.EndBlock()
}

func (w *world) addr(id int) sdk.AccAddress {
	switch {
	case id >= 0 && id < nUsers:
		return sdk.AccAddress(w.users[id].PubKey().Address())
	case id == idContract:
		return w.contract
	case id == idGov:
		return w.gov
	case id == idPolicy:
		return w.policy
	}
	return sdk.AccAddress([]byte(fmt.Sprintf("c17-unknown-%08d", id)))
}

func decOf(raw string) sdk.Dec {
	b, ok := new(big.Int).SetString(raw, 10)
	if !ok {
		panic("bad dec " + raw)
	}
	return sdkmath.LegacyNewDecFromBigIntWithPrec(b, 18)
}

func rawOf(d sdk.Dec) string { return d.BigInt().String() }

var typeURL = map[string]string{
	"create": "/cosmos.staking.v1beta1.MsgCreateValidator",
	"edit":   "/cosmos.staking.v1beta1.MsgEditValidator",
	"exec":   "/cosmos.authz.v1beta1.MsgExec",
	"wasm":   "/cosmwasm.wasm.v1.MsgExecuteContract",
	"send":   "/cosmos.bank.v1beta1.MsgSend",
	"grant":  "/cosmos.authz.v1beta1.MsgGrant",
	"gov":    "/cosmos.gov.v1.MsgSubmitProposal",
	"group":  urlGroupSubmit,
}

func (w *world) build(n node) (sdk.Msg, error) {
	switch n.K {
	case "create":
		w.nPk++
		pk := ed25519.GenPrivKeyFromSecret([]byte(fmt.Sprintf("c17-val-%d-%d", w.tag, w.nPk))).PubKey()
		if n.Rate == nil {
			return nil, fmt.Errorf("create without rate")
		}
		return stakingtypes.NewMsgCreateValidator(sdk.ValAddress(w.addr(n.Op)), pk, sdk.NewCoin("unibi", sdkmath.NewInt(1e9)),
			stakingtypes.NewDescription("v", "", "", "", ""),
			stakingtypes.NewCommissionRates(decOf(*n.Rate), decOf(n.Max), decOf(n.Chg)), sdkmath.OneInt())
	case "edit":
		var r *sdk.Dec
		if n.Rate != nil {
			d := decOf(*n.Rate)
			r = &d
		}
		return stakingtypes.NewMsgEditValidator(sdk.ValAddress(w.addr(n.Op)), stakingtypes.NewDescription("e", "", "", "", ""), r, nil), nil
	case "grant":
		u, ok := typeURL[n.T]
		if !ok {
			return nil, fmt.Errorf("grant type %q", n.T)
		}
		return authz.NewMsgGrant(w.addr(n.From), w.addr(n.To), authz.NewGenericAuthorization(u), nil)
	case "send":
		return banktypes.NewMsgSend(w.addr(n.From), w.sink, Unibi(1)), nil
	case "exec":
		ms, err := w.buildAll(n.C)
		if err != nil {
			return nil, err
		}
		e := authz.NewMsgExec(w.addr(n.G), ms)
		return &e, nil
	case "wasm":
		ms, err := w.buildAll(n.C)
		if err != nil {
			return nil, err
		}
		var parts []string
		for _, m := range ms {
			bz, err := proto.Marshal(m)
			if err != nil {
				return nil, err
			}
			parts = append(parts, fmt.Sprintf(`{"stargate":{"type_url":"%s","value":"%s"}}`, sdk.MsgTypeURL(m), base64.StdEncoding.EncodeToString(bz)))
		}
		payload := `{"reflect_msg":{"msgs":[` + strings.Join(parts, ",") + `]}}`
		return &wasmtypes.MsgExecuteContract{Sender: w.addr(n.G).String(), Contract: w.contract.String(), Msg: []byte(payload)}, nil
	case "gov":
		ms, err := w.buildAll(n.C)
		if err != nil {
			return nil, err
		}
		return govv1.NewMsgSubmitProposal(ms, Unibi(10_000_000), w.addr(n.G).String(), "m", "t", "s")
	case "group":
		ms, err := w.buildAll(n.C)
		if err != nil {
			return nil, err
		}
		ex := group.Exec_EXEC_UNSPECIFIED
		if n.Try {
			ex = group.Exec_EXEC_TRY
		}
		return group.NewMsgSubmitProposal(w.addr(n.Pol).String(), []string{w.addr(n.G).String()}, ms, "", ex, "t", "s")
	case "carrier":
		ms, err := w.buildAll(n.C)
		if err != nil {
			return nil, err
		}
		return carriers.Wrap(w.c.App.InterfaceRegistry(), n.URL, w.addr(n.G), ms)
	}
	return nil, fmt.Errorf("unknown node kind %q", n.K)
}

func (w *world) buildAll(ns []node) ([]sdk.Msg, error) {
	var out []sdk.Msg
	for _, n := range ns {
		m, err := w.build(n)
		if err != nil {
			return nil, err
		}
		out = append(out, m)
	}
	return out, nil
}

func (w *world) observe(r abci.ResponseDeliverTx, seqBefore uint64, signer int) txObs {
	ctx := w.c.Ctx()
	o := txObs{Ok: r.Code == 0, Class: "ok", Vals: []valObs{}, Log: r.Log}
	if r.Code != 0 {
		o.Class = "msg"
		if signer >= 0 && signer < nUsers {
			acc := w.c.App.AccountKeeper.GetAccount(ctx, w.addr(signer))
			if acc != nil && acc.GetSequence() == seqBefore {
				o.Class = "ante"
			}
		}
	}
	ids := []int{}
	for i := 0; i < nUsers; i++ {
		ids = append(ids, i)
	}
	ids = append(ids, idContract, idGov, idPolicy)
	for _, id := range ids {
		v, found := w.c.App.StakingKeeper.GetValidator(ctx, sdk.ValAddress(w.addr(id)))
		if found {
			o.Vals = append(o.Vals, valObs{Id: id, Rate: rawOf(v.Commission.Rate), Max: rawOf(v.Commission.MaxRate), Chg: rawOf(v.Commission.MaxChangeRate)})
		}
	}
	sort.Slice(o.Vals, func(i, j int) bool { return o.Vals[i].Id < o.Vals[j].Id })
	mx := sdkmath.LegacyZeroDec()
	for _, v := range w.c.App.StakingKeeper.GetAllValidators(ctx) {
		if v.Commission.Rate.GT(mx) {
			mx = v.Commission.Rate
		}
	}
	o.AllMax = rawOf(mx)
	return o
}

func (w *world) runTx(tx txIn) txObs {
	c := w.c
	dt := tx.Dt
	if dt < 1 {
		dt = 1
	}
	c.BeginBlock(time.Duration(dt) * time.Second)
	defer c.EndBlock()
	var o txObs
	msgs, err := w.buildAll(tx.Msgs)
	if err != nil || tx.Signer < 0 || tx.Signer >= nUsers {
		// not encodable as a transaction: nothing is delivered
		o = w.observe(abci.ResponseDeliverTx{Code: 9999, Log: fmt.Sprint("build: ", err)}, 0, -1)
		o.Class = "ante"
		return o
	}
	var seq uint64
	if acc := c.App.AccountKeeper.GetAccount(c.Ctx(), w.addr(tx.Signer)); acc != nil {
		seq = acc.GetSequence()
	}
	var r abci.ResponseDeliverTx
	var ext *codectypes.Any
	switch tx.Ext {
	case "evm":
		ext, _ = codectypes.NewAnyWithValue(&evm.ExtensionOptionsEthereumTx{})
	case "other":
		// a registered message type that is not a known extension option
		ext, _ = codectypes.NewAnyWithValue(&banktypes.MsgSend{})
	}
	if p := Recover(func() { r = txutil.Deliver(c, w.users[tx.Signer], 40_000_000, Unibi(1_000_000), ext, msgs...) }); p != "" {
		r = abci.ResponseDeliverTx{Code: 9998, Log: "panic: " + p}
	}
	return w.observe(r, seq, tx.Signer)
}

var shared *world

func runCase(t *testing.T, ci caseIn, fresh bool) ([]txObs, *genObs) {
	if ci.MinRate == "" {
		ci.MinRate = "0"
	}
	if len(ci.GenTxs) > 0 {
		w, g := newGenesisWorld(t, ci)
		var obs []txObs
		if g.Started {
			for _, tx := range ci.Txs {
				obs = append(obs, w.runTx(tx))
			}
		}
		if os.Getenv("C17_DEBUG") != "" {
			fmt.Printf("genesis %d gentxs -> started=%v vals=%v log=%.200s\n", len(ci.GenTxs), g.Started, g.Vals, g.Log)
		}
		return obs, &g
	}
	if shared == nil || fresh || shared.cases >= 40 {
		shared = newWorld(t)
	}
	w := shared
	w.beginCase(t, ci.MinRate)
	var obs []txObs
	capRaw := sdkmath.LegacyNewDecWithPrec(25, 2)
	for _, tx := range ci.Txs {
		o := w.runTx(tx)
		obs = append(obs, o)
		if decOf(o.AllMax).GT(capRaw) {
			shared = nil // a validator above the cap stays in this chain's state: do not let it leak into later cases
		}
	}
	return obs, nil
}

// ---------------------------------------------------------------- generator

func sp(s string) *string { return &s }

const one = "1000000000000000000"

var rateChoices = []string{
	"250000000000000000", "250000000000000001", "900000000000000000", "249999999999999999",
	"100000000000000000", "50000000000000000", "0", "500000000000000000", one, "260000000000000000",
	"200000000000000000", "40000000000000000",
}

func genRate(r *Rng) string {
	if r.Chance(1, 25) {
		return []string{"-1", "1000000000000000001", "-250000000000000000"}[r.Intn(3)]
	}
	return rateChoices[r.Pick(6, 6, 5, 3, 3, 2, 2, 2, 1, 2, 2, 1)]
}

func genCreate(r *Rng, op int) node {
	maxs := []string{one, one, "900000000000000000", "250000000000000000", "500000000000000000", "300000000000000000"}
	chgs := []string{one, "10000000000000000", "250000000000000000", "100000000000000000", "900000000000000000", "0"}
	return node{K: "create", Op: op, Rate: sp(genRate(r)), Max: maxs[r.Intn(len(maxs))], Chg: chgs[r.Intn(len(chgs))]}
}

func genActor(r *Rng) int {
	switch r.Pick(12, 3, 1, 4) {
	case 0:
		return r.Intn(nUsers)
	case 1:
		return idContract
	case 2:
		return idGov
	}
	return idPolicy
}

// genLeaf makes a staking leaf for operator op (a create when it is believed not to be a validator yet).
func genStakingLeaf(r *Rng, op int, isVal map[int]bool) node {
	mk := !isVal[op]
	if r.Chance(1, 8) {
		mk = !mk
	}
	if mk {
		return genCreate(r, op)
	}
	n := node{K: "edit", Op: op}
	if !r.Chance(1, 8) {
		n.Rate = sp(genRate(r))
	}
	return n
}

// wrap puts `inner` (whose signer is `who`) under `depth` wrappers that are (mostly) correctly
// authorised for tx signer `signer`; returns the top node and the grants (granter, grantee, type) it needs.
func kindOf(n node) string { return n.K }

func signerOf(n node) int {
	switch n.K {
	case "create", "edit":
		return n.Op
	case "grant", "send":
		return n.From
	}
	return n.G
}

type grantNeed struct {
	from, to int
	t        string
}

// withDecoys puts harmless messages of the same signer (a send, or an exec of a send) before and/or after
// cur in one message list: the order matters to a scan that returns early.
func withDecoys(r *Rng, cur node, who int) []node {
	decoy := func() node {
		if r.Chance(1, 2) {
			return node{K: "exec", G: who, C: []node{{K: "send", From: who}}}
		}
		return node{K: "send", From: who}
	}
	switch r.Pick(6, 3, 2, 1) {
	case 1:
		return []node{decoy(), cur}
	case 2:
		return []node{cur, decoy()}
	case 3:
		return []node{decoy(), cur, decoy()}
	}
	return []node{cur}
}

func genTree(r *Rng, signer int, isVal map[int]bool, depth int, needs *[]grantNeed) node {
	// choose the innermost leaf
	var leaf node
	switch r.Pick(14, 2, 1) {
	case 0:
		op := signer
		if r.Chance(1, 3) {
			op = genActor(r)
		} else if depth > 0 && r.Chance(1, 7) {
			op = idPolicy // a validator operated by the group policy account: only a group proposal can sign for it
		}
		leaf = genStakingLeaf(r, op, isVal)
	case 1:
		leaf = node{K: "send", From: signer}
	default:
		leaf = node{K: "grant", From: signer, To: (signer + 1 + r.Intn(nUsers-1)) % nUsers, T: []string{"create", "edit", "exec", "wasm", "send", "group"}[r.Intn(6)]}
	}
	cur := leaf
	for d := 0; d < depth; d++ {
		inner := signerOf(cur)
		var w node
		kind := r.Pick(20, 8, 2, 1)
		if inner == idContract && r.Chance(3, 4) {
			kind = 1
		}
		if inner == idPolicy && r.Chance(6, 7) {
			kind = 3
		}
		if len(unknownCarriers) > 0 && r.Chance(1, 4) {
			kind = 4
		}
		sibs := withDecoys(r, cur, inner)
		switch kind {
		case 3:
			// a group proposal: its messages must be signed by the policy account; the proposer should be a member
			// (user 1 or the contract)
			p := []int{1, 1, 1, 1, idContract, idContract, 2, signer}[r.Intn(8)]
			w = node{K: "group", G: p, Pol: idPolicy, Try: !r.Chance(1, 7), C: sibs}
		case 4:
			u := r.Intn(len(unknownCarriers))
			w = node{K: "carrier", U: u, URL: unknownCarriers[u], G: inner, C: sibs}
		case 0:
			g := inner
			if inner >= nUsers || r.Chance(1, 3) {
				g = r.Intn(nUsers)
				if d == depth-1 && !r.Chance(1, 6) {
					g = signer
				}
			}
			if g != inner && !r.Chance(1, 7) && kindOf(cur) != "carrier" {
				*needs = append(*needs, grantNeed{inner, g, kindOf(cur)})
			}
			w = node{K: "exec", G: g, C: sibs}
		case 1:
			s := 0
			if r.Chance(1, 10) {
				s = r.Intn(nUsers)
			}
			w = node{K: "wasm", G: s, C: sibs}
		case 2:
			w = node{K: "gov", G: signer, C: sibs}
		default:
			w = node{K: "exec", G: inner, C: sibs}
		}
		cur = w
	}
	return cur
}

func genCase(r *Rng) caseIn {
	ci := caseIn{MinRate: "0"}
	if r.Chance(1, 6) {
		ci.MinRate = "50000000000000000"
	}
	isVal := map[int]bool{}
	if r.Chance(1, 7) {
		// a genesis with gentxs: one validator within the cap (mostly), then more staking messages — bare, nested in
		// exec, behind harmless messages — around and above the cap
		first := r.Intn(nUsers)
		rate := []string{"100000000000000000", "250000000000000000", "200000000000000000"}[r.Intn(3)]
		if r.Chance(1, 6) {
			rate = genRate(r)
		}
		ci.GenTxs = append(ci.GenTxs, txIn{Signer: first, Msgs: []node{{K: "create", Op: first, Rate: sp(rate), Max: one, Chg: one}}})
		isVal[first] = true
		for k := r.Intn(3); k > 0; k-- {
			who := r.Intn(nUsers)
			leaf := genStakingLeaf(r, who, isVal)
			if leaf.K == "create" && r.Chance(2, 3) {
				leaf.Rate = sp(rateChoices[r.Pick(6, 3, 2, 3, 3, 2, 2, 1, 0, 1, 2, 1)])
			}
			var t node = leaf
			for d := r.Pick(3, 3, 2, 1); d > 0; d-- {
				t = node{K: "exec", G: who, C: withDecoys(r, t, who)}
			}
			ms := []node{t}
			if r.Chance(1, 3) {
				ms = withDecoys(r, t, who)
			}
			ci.GenTxs = append(ci.GenTxs, txIn{Signer: who, Msgs: ms})
			if leaf.K == "create" {
				isVal[who] = true
			}
		}
	}
	// often start from existing validators with a high max rate, so that edits are live
	if r.Chance(3, 5) {
		for _, op := range []int{0, 1, 2, 3, idContract} {
			if !r.Chance(2, 5) {
				continue
			}
			rate := []string{"100000000000000000", "200000000000000000", "250000000000000000", "50000000000000000"}[r.Intn(4)]
			cv := node{K: "create", Op: op, Rate: sp(rate), Max: one, Chg: []string{one, one, "100000000000000000"}[r.Intn(3)]}
			if op == idContract {
				ci.Txs = append(ci.Txs, txIn{Dt: 5, Signer: 0, Msgs: []node{{K: "wasm", G: 0, C: []node{cv}}}})
			} else {
				ci.Txs = append(ci.Txs, txIn{Dt: 5, Signer: op, Msgs: []node{cv}})
			}
			isVal[op] = true
		}
	}
	ntx := r.Range(2, 7)
	for i := 0; i < ntx; i++ {
		signer := r.Intn(nUsers)
		if r.Chance(1, 2) {
			signer = 0 // the contract owner: wasm paths need it
		}
		dts := []int{5, 5, 3600, 86399, 86400, 90000, 43200, 86400, 172800}
		tx := txIn{Dt: dts[r.Intn(len(dts))], Signer: signer}
		if r.Chance(1, 20) {
			tx.Ext = []string{"evm", "other"}[r.Intn(2)]
		}
		var needs []grantNeed
		nm := r.Pick(8, 2, 1) + 1
		for j := 0; j < nm; j++ {
			depth := r.Pick(5, 6, 4, 3, 2)
			t := genTree(r, signer, isVal, depth, &needs)
			if signerOf(t) != signer && depth > 0 && !r.Chance(1, 8) {
				// top-level wrapper must be signed by the tx signer: re-wrap in an exec of the signer
				if !r.Chance(1, 7) && kindOf(t) != "carrier" {
					needs = append(needs, grantNeed{signerOf(t), signer, kindOf(t)})
				}
				t = node{K: "exec", G: signer, C: []node{t}}
			}
			if signerOf(t) == signer && r.Chance(1, 3) {
				tx.Msgs = append(tx.Msgs, withDecoys(r, t, signer)...)
			} else {
				tx.Msgs = append(tx.Msgs, t)
			}
		}
		// grants needed by this tx are established by earlier single-message txs of the granters
		for _, g := range needs {
			if g.from >= 0 && g.from < nUsers && g.from != g.to {
				ci.Txs = append(ci.Txs, txIn{Dt: 5, Signer: g.from, Msgs: []node{{K: "grant", From: g.from, To: g.to, T: g.t}}})
			} else if g.from == idContract && g.from != g.to {
				// the contract grants through a reflected MsgGrant
				ci.Txs = append(ci.Txs, txIn{Dt: 5, Signer: 0, Msgs: []node{{K: "wasm", G: 0, C: []node{{K: "grant", From: idContract, To: g.to, T: g.t}}}}})
			}
		}
		ci.Txs = append(ci.Txs, tx)
		// bookkeeping guess (only steers generation; the model decides)
		var mark func(n node)
		mark = func(n node) {
			if n.K == "create" {
				isVal[n.Op] = true
			}
			for _, c := range n.C {
				mark(c)
			}
		}
		for _, m := range tx.Msgs {
			mark(m)
		}
	}
	return ci
}

func openers() []caseIn {
	cv := func(op int, rate string) node {
		return node{K: "create", Op: op, Rate: sp(rate), Max: one, Chg: one}
	}
	ex := func(g int, c ...node) node { return node{K: "exec", G: g, C: c} }
	wa := func(c ...node) node { return node{K: "wasm", G: 0, C: c} }
	gp := func(p int, try bool, c ...node) node { return node{K: "group", G: p, Pol: idPolicy, Try: try, C: c} }
	chain := func(n, g int, inner node) node {
		for i := 0; i < n; i++ {
			inner = ex(g, inner)
		}
		return inner
	}
	r90, r25, r25p := "900000000000000000", "250000000000000000", "250000000000000001"
	return []caseIn{
		// the historic authz bypass and deeper nestings of it
		{Txs: []txIn{{Dt: 5, Signer: 1, Msgs: []node{cv(1, r90)}}, {Dt: 5, Signer: 1, Msgs: []node{ex(1, cv(1, r90))}},
			{Dt: 5, Signer: 1, Msgs: []node{ex(1, ex(1, ex(1, ex(1, cv(1, r25p)))))}}, {Dt: 5, Signer: 1, Msgs: []node{ex(1, ex(1, cv(1, r25)))}}}},
		// the wasm path: the reflect contract creates a validator for itself
		{Txs: []txIn{{Dt: 5, Signer: 0, Msgs: []node{wa(cv(idContract, r90))}}}},
		// exec inside wasm, wasm inside exec
		{Txs: []txIn{{Dt: 5, Signer: 0, Msgs: []node{wa(ex(idContract, cv(idContract, r25p)))}}}},
		{Txs: []txIn{{Dt: 5, Signer: 0, Msgs: []node{ex(0, wa(cv(idContract, r90)))}}}},
		// edit after 24 h through exec
		{Txs: []txIn{{Dt: 5, Signer: 2, Msgs: []node{cv(2, "100000000000000000")}},
			{Dt: 86400, Signer: 2, Msgs: []node{ex(2, node{K: "edit", Op: 2, Rate: sp(r90)})}},
			{Dt: 5, Signer: 2, Msgs: []node{node{K: "edit", Op: 2, Rate: sp(r25)}}},
			{Dt: 86400, Signer: 2, Msgs: []node{node{K: "edit", Op: 2, Rate: sp(r25)}}}}},
		// wasm edit
		{Txs: []txIn{{Dt: 5, Signer: 0, Msgs: []node{wa(cv(idContract, "100000000000000000"))}},
			{Dt: 90000, Signer: 0, Msgs: []node{wa(node{K: "edit", Op: idContract, Rate: sp("500000000000000000")})}}}},
		// order inside one message list: harmless messages BEFORE the over-cap one (a scan that returns early misses it)
		{Txs: []txIn{{Dt: 5, Signer: 1, Msgs: []node{ex(1, node{K: "send", From: 1}), cv(1, r90)}},
			{Dt: 5, Signer: 1, Msgs: []node{node{K: "send", From: 1}, cv(1, r90)}},
			{Dt: 5, Signer: 1, Msgs: []node{ex(1, ex(1, node{K: "send", From: 1}), cv(1, r25p))}},
			{Dt: 5, Signer: 0, Msgs: []node{wa(ex(idContract, node{K: "send", From: idContract}), cv(idContract, r90))}},
			{Dt: 5, Signer: 1, Msgs: []node{cv(1, "100000000000000000"), ex(1, node{K: "send", From: 1})}},
			{Dt: 86400, Signer: 1, Msgs: []node{ex(1, node{K: "send", From: 1}), node{K: "edit", Op: 1, Rate: sp(r90)}}},
			{Dt: 5, Signer: 2, Msgs: []node{cv(2, r25), cv(3, r90)}}}},
		// deep chains: exec^8 and exec^12 around an over-cap create (rejected), exec^8 around a create at the cap
		// (accepted), wasm∘exec^6 around an over-cap create
		{Txs: []txIn{{Dt: 5, Signer: 1, Msgs: []node{chain(8, 1, cv(1, r25p))}}, {Dt: 5, Signer: 1, Msgs: []node{chain(12, 1, cv(1, r90))}},
			{Dt: 5, Signer: 1, Msgs: []node{chain(8, 1, cv(1, r25))}}, {Dt: 5, Signer: 0, Msgs: []node{wa(chain(6, idContract, cv(idContract, r25p)))}},
			{Dt: 86400, Signer: 1, Msgs: []node{chain(10, 1, node{K: "edit", Op: 1, Rate: sp(r25p)})}}}},
		// gentxs (delivered from InitChain at block height 0): within the cap the chain starts and the validators can be
		// edited later; above the cap — bare, nested in exec, or after harmless messages — InitChain must fail
		{GenTxs: []txIn{{Signer: 1, Msgs: []node{cv(1, "100000000000000000")}}, {Signer: 2, Msgs: []node{ex(2, cv(2, r25))}}},
			Txs: []txIn{{Dt: 86000, Signer: 1, Msgs: []node{node{K: "edit", Op: 1, Rate: sp(r25)}}}, {Dt: 400, Signer: 1, Msgs: []node{ex(1, node{K: "edit", Op: 1, Rate: sp(r25)})}},
				{Dt: 5, Signer: 0, Msgs: []node{wa(cv(idContract, r90))}}, {Dt: 5, Signer: 0, Msgs: []node{wa(cv(idContract, "200000000000000000"))}}}},
		{GenTxs: []txIn{{Signer: 1, Msgs: []node{cv(1, "300000000000000000")}}}, Txs: []txIn{{Dt: 5, Signer: 1, Msgs: []node{node{K: "send", From: 1}}}}},
		{GenTxs: []txIn{{Signer: 1, Msgs: []node{cv(1, r25)}}, {Signer: 2, Msgs: []node{ex(2, cv(2, r25p))}}}, Txs: []txIn{}},
		{GenTxs: []txIn{{Signer: 3, Msgs: []node{node{K: "send", From: 3}, ex(3, node{K: "send", From: 3}), cv(3, r90)}}}, Txs: []txIn{}},
		{GenTxs: []txIn{{Signer: 1, Msgs: []node{cv(1, "50000000000000000")}}, {Signer: 1, Msgs: []node{node{K: "edit", Op: 1, Rate: sp("60000000000000000")}}}}, Txs: []txIn{}},
		// x/group proposals (where the module is not routed every one of these transactions must be rejected): a member
		// submits with Exec = TRY a create-validator for the policy account above the cap / at the cap; stored only
		// (no TRY); a non-member; a message not signed by the policy account; harmless messages in front
		{Txs: []txIn{{Dt: 5, Signer: 1, Msgs: []node{gp(1, true, cv(idPolicy, r90))}}, {Dt: 5, Signer: 1, Msgs: []node{gp(1, false, cv(idPolicy, r90))}},
			{Dt: 5, Signer: 2, Msgs: []node{gp(2, true, cv(idPolicy, r25p))}}, {Dt: 5, Signer: 1, Msgs: []node{gp(1, true, cv(1, r25p))}},
			{Dt: 5, Signer: 1, Msgs: []node{gp(1, true, node{K: "send", From: idPolicy}, ex(idPolicy, node{K: "send", From: idPolicy}), cv(idPolicy, r25))}}}},
		// the same carried by authz exec (twice), dispatched by the contract (a member), and proposed for exec by grant
		{Txs: []txIn{{Dt: 5, Signer: 1, Msgs: []node{ex(1, ex(1, gp(1, true, cv(idPolicy, r25p))))}},
			{Dt: 5, Signer: 0, Msgs: []node{wa(gp(idContract, true, cv(idPolicy, r90)))}},
			{Dt: 5, Signer: 1, Msgs: []node{{K: "grant", From: 1, To: 2, T: "group"}}},
			{Dt: 5, Signer: 2, Msgs: []node{ex(2, gp(1, true, cv(idPolicy, "500000000000000000")))}}}},
		// an edit through a group proposal, 24 h after a create within the cap; exec inside the proposal
		{Txs: []txIn{{Dt: 5, Signer: 1, Msgs: []node{gp(1, true, cv(idPolicy, "100000000000000000"))}},
			{Dt: 86400, Signer: 1, Msgs: []node{gp(1, true, ex(idPolicy, node{K: "edit", Op: idPolicy, Rate: sp(r90)}))}},
			{Dt: 86400, Signer: 1, Msgs: []node{gp(1, true, node{K: "edit", Op: idPolicy, Rate: sp(r25)})}}}},
		// extension options: the EVM chain admits MsgEthereumTx only, unknown options are rejected
		{Txs: []txIn{{Dt: 5, Ext: "evm", Signer: 1, Msgs: []node{cv(1, r90)}}, {Dt: 5, Ext: "evm", Signer: 1, Msgs: []node{ex(1, cv(1, r25))}},
			{Dt: 5, Ext: "other", Signer: 1, Msgs: []node{cv(1, r25)}}, {Dt: 5, Signer: 1, Msgs: []node{cv(1, r25)}}}},
		// grant-based exec by another account
		{Txs: []txIn{{Dt: 5, Signer: 1, Msgs: []node{{K: "grant", From: 1, To: 2, T: "create"}}},
			{Dt: 5, Signer: 2, Msgs: []node{ex(2, cv(1, r90))}}, {Dt: 5, Signer: 2, Msgs: []node{ex(2, cv(1, r25))}}}},
	}
}

func TestC17(t *testing.T) {
	cfg := LoadCfg(t, 240, 4000)
	em := NewEmitter(t, cfg.Out)
	defer em.Close()
	run := func(ci caseIn) {
		obs, g := runCase(t, ci, cfg.Replay != "")
		extra := map[string]interface{}{"cap": rawOf(ante.MAX_COMMISSION()), "group_routed": groupRouted, "unknown_carriers": unknownCarriers}
		if g != nil {
			extra["genesis"] = g
		}
		em.Emit(ci, obs, extra)
		if os.Getenv("C17_DEBUG") != "" {
			for i, o := range obs {
				bz, _ := json.Marshal(ci.Txs[i])
				fmt.Printf("tx %s -> ok=%v class=%s vals=%v log=%.160s\n", bz, o.Ok, o.Class, o.Vals, o.Log)
			}
		}
	}
	if cfg.Replay != "" {
		for _, raw := range cfg.ReplayInputs(t) {
			var ci caseIn
			if err := json.Unmarshal(raw, &ci); err != nil {
				t.Fatal(err)
			}
			run(ci)
		}
		return
	}
	for _, ci := range openers() {
		run(ci)
	}
	rng := NewRng(cfg.Seed)
	for i := 0; i < cfg.N; i++ {
		run(genCase(rng.Fork()))
	}
}
