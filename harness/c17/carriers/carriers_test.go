package carriers

// Hand-run sanity tests of the probe and of the reflective wrapper (not part of ./check C17):
//
//	cd /verif/harness && GOFLAGS=-mod=mod GOPROXY=off go test ./c17/carriers

import (
	"testing"

	sdk "github.com/cosmos/cosmos-sdk/types"
	"github.com/cosmos/cosmos-sdk/x/authz"
	banktypes "github.com/cosmos/cosmos-sdk/x/bank/types"

	"github.com/NibiruChain/nibiru/v2/app"
)

func TestProbeFindsAuthzAndGov(t *testing.T) {
	ir := app.MakeEncodingConfig().InterfaceRegistry
	got := map[string]Info{}
	for _, i := range Probe(ir, nil) {
		got[i.URL] = i
	}
	for _, u := range []string{"/cosmos.authz.v1beta1.MsgExec", "/cosmos.gov.v1.MsgSubmitProposal"} {
		if i, ok := got[u]; !ok || !i.Carries() || len(i.MsgFields) == 0 {
			t.Errorf("%s: expected a message carrier with an Any field accepting sdk.Msg, got %+v", u, i)
		}
	}
	// Any fields declared for other interfaces refuse an sdk.Msg
	for _, u := range []string{"/cosmos.staking.v1beta1.MsgCreateValidator", "/cosmos.authz.v1beta1.MsgGrant", "/cosmos.gov.v1beta1.MsgSubmitProposal"} {
		if i, ok := got[u]; !ok || len(i.AnyFields) == 0 || len(i.MsgFields) != 0 || len(i.OpaqueFields) != 0 {
			t.Errorf("%s: expected Any fields that accept no sdk.Msg, got %+v", u, i)
		}
	}
	if i := got["/cosmos.bank.v1beta1.MsgSend"]; len(i.AnyFields) != 0 || i.Carries() {
		t.Errorf("MsgSend: %+v", i)
	}
}

func TestWrapBuildsMsgExec(t *testing.T) {
	ir := app.MakeEncodingConfig().InterfaceRegistry
	a := sdk.AccAddress([]byte("carriers-test-addr__"))
	inner := banktypes.NewMsgSend(a, a, sdk.NewCoins(sdk.NewInt64Coin("unibi", 1)))
	m, err := Wrap(ir, "/cosmos.authz.v1beta1.MsgExec", a, []sdk.Msg{inner})
	if err != nil {
		t.Fatal(err)
	}
	ex, ok := m.(*authz.MsgExec)
	if !ok || ex.Grantee != a.String() || len(ex.Msgs) != 1 {
		t.Fatalf("got %T %+v", m, m)
	}
	ms, err := ex.GetMessages()
	if err != nil || len(ms) != 1 || sdk.MsgTypeURL(ms[0]) != "/cosmos.bank.v1beta1.MsgSend" {
		t.Fatalf("inner messages: %v %v", ms, err)
	}
	if err := ex.ValidateBasic(); err != nil {
		t.Fatal(err)
	}
}
