// Package carriers finds, in the LINKED application (run time — depinject wiring is invisible to go/ast),
// every sdk.Msg type that can carry other sdk.Msgs: the set of message carriers is a fact about the
// current tree, not a constant of the C17 model.
//
// For every message type registered with the interface registry (implementations of
// cosmos.base.v1beta1.Msg) it reports
//
//   - Routed: the msg service router has a handler for it (a transaction / a dispatcher can execute it);
//   - AnyFields: the paths of all google.protobuf.Any fields reachable through its Go struct (nested
//     messages, repeated fields, oneof wrappers);
//   - MsgFields: those Any fields that ACCEPT an sdk.Msg — decided by behaviour, not by name: a packed
//     bank MsgSend is put into the field and the type's own UnpackInterfaces is run against the app's
//     interface registry; a field declared to hold a PubKey / Authorization / Content / ClientState …
//     refuses it;
//   - OpaqueFields: Any fields the type's UnpackInterfaces does not touch at all (whatever is in them is
//     unpacked, if ever, by keeper code the probe cannot see);
//   - Accessors: methods returning []sdk.Msg (GetMsgs, GetMessages, …).
//
// Used by harness/gen/c17 (facts msg_carriers_* of coq/Gen/C17Facts.v) and by the C17 driver (which
// carriers to generate, generic wrapping by reflection).
package carriers

import (
	"fmt"
	"reflect"
	"sort"
	"strings"

	"github.com/cosmos/cosmos-sdk/baseapp"
	codectypes "github.com/cosmos/cosmos-sdk/codec/types"
	sdk "github.com/cosmos/cosmos-sdk/types"
	banktypes "github.com/cosmos/cosmos-sdk/x/bank/types"
)

type Info struct {
	URL          string
	Routed       bool
	AnyFields    []string
	MsgFields    []string
	OpaqueFields []string
	Accessors    []string
}

// Carries: the type can hold sdk.Msgs that it (or its keeper) may execute.
func (i Info) Carries() bool { return len(i.MsgFields) > 0 || len(i.Accessors) > 0 }

var (
	anyPtr   = reflect.TypeOf((*codectypes.Any)(nil))
	msgSlice = reflect.TypeOf([]sdk.Msg(nil))
	msgIface = reflect.TypeOf((*sdk.Msg)(nil)).Elem()
)

type step struct {
	field int  // struct field index
	elem  bool // the field is a slice: use element 0
	wrap  reflect.Type
}

type anyPath struct {
	name  string
	steps []step
}

// walk collects the paths to every *Any / []*Any under struct type t.
func walk(t reflect.Type, prefix string, steps []step, seen map[reflect.Type]int, out *[]anyPath) {
	if t.Kind() == reflect.Ptr {
		t = t.Elem()
	}
	if t.Kind() != reflect.Struct || seen[t] >= 2 || len(steps) > 6 {
		return
	}
	seen[t]++
	defer func() { seen[t]-- }()
	for i := 0; i < t.NumField(); i++ {
		f := t.Field(i)
		if f.PkgPath != "" || strings.HasPrefix(f.Name, "XXX_") {
			continue
		}
		ft := f.Type
		name := prefix + f.Name
		st := append(append([]step{}, steps...), step{field: i})
		switch {
		case ft == anyPtr:
			*out = append(*out, anyPath{name, st})
		case ft.Kind() == reflect.Slice && ft.Elem() == anyPtr:
			st[len(st)-1].elem = true
			*out = append(*out, anyPath{name + "[]", st})
		case ft.Kind() == reflect.Slice && (ft.Elem().Kind() == reflect.Struct || (ft.Elem().Kind() == reflect.Ptr && ft.Elem().Elem().Kind() == reflect.Struct)):
			st[len(st)-1].elem = true
			walk(ft.Elem(), name+"[].", st, seen, out)
		case ft.Kind() == reflect.Struct || (ft.Kind() == reflect.Ptr && ft.Elem().Kind() == reflect.Struct):
			walk(ft, name+".", st, seen, out)
		case ft.Kind() == reflect.Interface:
			// gogoproto oneof: the wrappers are listed by XXX_OneofWrappers on the enclosing message
			if m, ok := reflect.PtrTo(t).MethodByName("XXX_OneofWrappers"); ok {
				for _, w := range m.Func.Call([]reflect.Value{reflect.New(t)})[0].Interface().([]interface{}) {
					wt := reflect.TypeOf(w)
					if wt.Implements(ft) {
						ws := append([]step{}, st...)
						ws[len(ws)-1].wrap = wt
						walk(wt, name+"<"+wt.Elem().Name()+">.", ws, seen, out)
					}
				}
			}
		}
	}
}

// build makes a fresh value of type t (a struct) in which the Any at path p holds `a`.
func build(t reflect.Type, p anyPath, a *codectypes.Any) reflect.Value {
	root := reflect.New(t)
	cur := root.Elem()
	for k, s := range p.steps {
		f := cur.Field(s.field)
		last := k == len(p.steps)-1
		if s.wrap != nil {
			w := reflect.New(s.wrap.Elem())
			f.Set(w)
			cur = w.Elem()
			continue
		}
		ft := f.Type()
		if last {
			if s.elem {
				f.Set(reflect.ValueOf([]*codectypes.Any{a}))
			} else {
				f.Set(reflect.ValueOf(a))
			}
			break
		}
		if s.elem {
			sl := reflect.MakeSlice(ft, 1, 1)
			f.Set(sl)
			e := sl.Index(0)
			if e.Kind() == reflect.Ptr {
				e.Set(reflect.New(e.Type().Elem()))
				e = e.Elem()
			}
			cur = e
			continue
		}
		if ft.Kind() == reflect.Ptr {
			f.Set(reflect.New(ft.Elem()))
			cur = f.Elem()
		} else {
			cur = f
		}
	}
	return root
}

func recoverErr(f func() error) (err error, panicked bool) {
	defer func() {
		if r := recover(); r != nil {
			panicked = true
		}
	}()
	return f(), false
}

// Probe inspects every registered sdk.Msg implementation.
func Probe(ir codectypes.InterfaceRegistry, router *baseapp.MsgServiceRouter) []Info {
	urls := ir.ListImplementations(sdk.MsgInterfaceProtoName)
	sort.Strings(urls)
	probeMsg := &banktypes.MsgSend{FromAddress: "x", ToAddress: "y"}
	var out []Info
	for _, u := range urls {
		m, err := ir.Resolve(u)
		if err != nil || m == nil {
			continue
		}
		if _, ok := m.(sdk.Msg); !ok {
			continue
		}
		info := Info{URL: u, Routed: router != nil && router.HandlerByTypeURL(u) != nil}
		pt := reflect.TypeOf(m)
		if pt.Kind() != reflect.Ptr || pt.Elem().Kind() != reflect.Struct {
			out = append(out, info)
			continue
		}
		for i := 0; i < pt.NumMethod(); i++ {
			mt := pt.Method(i).Type
			if mt.NumIn() == 1 && mt.NumOut() >= 1 && mt.Out(0) == msgSlice {
				info.Accessors = append(info.Accessors, pt.Method(i).Name)
			}
		}
		var paths []anyPath
		walk(pt.Elem(), "", nil, map[reflect.Type]int{}, &paths)
		for _, p := range paths {
			info.AnyFields = append(info.AnyFields, p.name)
			a, err := codectypes.NewAnyWithValue(probeMsg)
			if err != nil {
				continue
			}
			// what went over the wire: the packed bytes only, no cached Go value
			wire := &codectypes.Any{TypeUrl: a.TypeUrl, Value: a.Value}
			v := build(pt.Elem(), p, wire)
			up, isUnpacker := v.Interface().(codectypes.UnpackInterfacesMessage)
			if !isUnpacker {
				info.OpaqueFields = append(info.OpaqueFields, p.name)
				continue
			}
			uerr, panicked := recoverErr(func() error { return up.UnpackInterfaces(ir) })
			switch {
			case panicked:
				info.OpaqueFields = append(info.OpaqueFields, p.name)
			case uerr != nil:
				// the field is declared for another interface: it refuses an sdk.Msg
			case wire.GetCachedValue() == nil:
				info.OpaqueFields = append(info.OpaqueFields, p.name)
			default:
				if reflect.TypeOf(wire.GetCachedValue()).Implements(msgIface) {
					info.MsgFields = append(info.MsgFields, p.name)
				}
			}
		}
		out = append(out, info)
	}
	return out
}

// Wrap builds, by reflection, a message of the registered type `url` that carries `msgs` for `sender`: the messages
// are packed into every top-level Any / repeated Any field, every string (and string list) field gets the sender's
// address (signer / authority / sender fields), every enum field its first non-zero value (execute-now style
// switches).  Best effort for carrier types the driver has no constructor for: whether the result is accepted is for
// the chain to say.
func Wrap(ir codectypes.InterfaceRegistry, url string, sender sdk.AccAddress, msgs []sdk.Msg) (sdk.Msg, error) {
	m, err := ir.Resolve(url)
	if err != nil {
		return nil, err
	}
	sm, ok := m.(sdk.Msg)
	if !ok {
		return nil, fmt.Errorf("%s is not an sdk.Msg", url)
	}
	var anys []*codectypes.Any
	for _, x := range msgs {
		a, err := codectypes.NewAnyWithValue(x)
		if err != nil {
			return nil, err
		}
		anys = append(anys, a)
	}
	v := reflect.ValueOf(m)
	if v.Kind() != reflect.Ptr || v.Elem().Kind() != reflect.Struct {
		return nil, fmt.Errorf("%s: not a struct", url)
	}
	v = v.Elem()
	for i := 0; i < v.NumField(); i++ {
		f := v.Field(i)
		if !f.CanSet() || strings.HasPrefix(v.Type().Field(i).Name, "XXX_") {
			continue
		}
		switch {
		case f.Type() == reflect.SliceOf(anyPtr):
			f.Set(reflect.ValueOf(anys))
		case f.Type() == anyPtr:
			if len(anys) > 0 {
				f.Set(reflect.ValueOf(anys[0]))
			}
		case f.Kind() == reflect.String:
			f.SetString(sender.String())
		case f.Kind() == reflect.Slice && f.Type().Elem().Kind() == reflect.String:
			f.Set(reflect.ValueOf([]string{sender.String()}))
		case f.Kind() == reflect.Int32:
			f.SetInt(1)
		}
	}
	return sm, nil
}
