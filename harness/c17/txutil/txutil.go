// Package txutil builds signed Cosmos transactions with an optional extension option and an
// arbitrary key type (shared by the C17 and C02 drivers).
package txutil

import (
	abci "github.com/cometbft/cometbft/abci/types"
	"github.com/cosmos/cosmos-sdk/client"
	codectypes "github.com/cosmos/cosmos-sdk/codec/types"
	cryptotypes "github.com/cosmos/cosmos-sdk/crypto/types"
	sdk "github.com/cosmos/cosmos-sdk/types"
	"github.com/cosmos/cosmos-sdk/types/tx/signing"
	authsign "github.com/cosmos/cosmos-sdk/x/auth/signing"
	authtx "github.com/cosmos/cosmos-sdk/x/auth/tx"

	. "verifharness/hx"
)

// SignTxWith signs msgs with priv for explicit signer data (used for gentxs: no chain state exists yet).
func SignTxWith(txCfg client.TxConfig, priv cryptotypes.PrivKey, chainID string, accNum, seq uint64, gas uint64, fee sdk.Coins, ext *codectypes.Any, msgs ...sdk.Msg) (sdk.Tx, error) {
	b := txCfg.NewTxBuilder()
	if ext != nil {
		if eb, ok := b.(authtx.ExtensionOptionsTxBuilder); ok {
			eb.SetExtensionOptions(ext)
		}
	}
	if err := b.SetMsgs(msgs...); err != nil {
		return nil, err
	}
	signMode := txCfg.SignModeHandler().DefaultMode()
	sig := signing.SignatureV2{PubKey: priv.PubKey(), Data: &signing.SingleSignatureData{SignMode: signMode}, Sequence: seq}
	if err := b.SetSignatures(sig); err != nil {
		return nil, err
	}
	b.SetFeeAmount(fee)
	b.SetGasLimit(gas)
	sd := authsign.SignerData{Address: sdk.AccAddress(priv.PubKey().Address()).String(), ChainID: chainID, AccountNumber: accNum, Sequence: seq, PubKey: priv.PubKey()}
	signBytes, err := txCfg.SignModeHandler().GetSignBytes(signMode, sd, b.GetTx())
	if err != nil {
		return nil, err
	}
	sbz, err := priv.Sign(signBytes)
	if err != nil {
		return nil, err
	}
	sig.Data.(*signing.SingleSignatureData).Signature = sbz
	if err := b.SetSignatures(sig); err != nil {
		return nil, err
	}
	return b.GetTx(), nil
}

// SignTx signs msgs with priv (account number / sequence of `as` read from block state; `as` is the
// address whose account is used, normally the key's own address).
func SignTx(c *Chain, priv cryptotypes.PrivKey, as sdk.AccAddress, gas uint64, fee sdk.Coins, ext *codectypes.Any, msgs ...sdk.Msg) ([]byte, error) {
	ctx := c.Ctx()
	var accNum, seq uint64
	if acc := c.App.AccountKeeper.GetAccount(ctx, as); acc != nil {
		accNum, seq = acc.GetAccountNumber(), acc.GetSequence()
	}
	txCfg := c.TxCfg
	b := txCfg.NewTxBuilder()
	if ext != nil {
		if eb, ok := b.(authtx.ExtensionOptionsTxBuilder); ok {
			eb.SetExtensionOptions(ext)
		}
	}
	if err := b.SetMsgs(msgs...); err != nil {
		return nil, err
	}
	signMode := txCfg.SignModeHandler().DefaultMode()
	sig := signing.SignatureV2{PubKey: priv.PubKey(), Data: &signing.SingleSignatureData{SignMode: signMode}, Sequence: seq}
	if err := b.SetSignatures(sig); err != nil {
		return nil, err
	}
	b.SetFeeAmount(fee)
	b.SetGasLimit(gas)
	sd := authsign.SignerData{Address: as.String(), ChainID: ctx.ChainID(), AccountNumber: accNum, Sequence: seq, PubKey: priv.PubKey()}
	signBytes, err := txCfg.SignModeHandler().GetSignBytes(signMode, sd, b.GetTx())
	if err != nil {
		return nil, err
	}
	sbz, err := priv.Sign(signBytes)
	if err != nil {
		return nil, err
	}
	sig.Data.(*signing.SingleSignatureData).Signature = sbz
	if err := b.SetSignatures(sig); err != nil {
		return nil, err
	}
	return txCfg.TxEncoder()(b.GetTx())
}

// Deliver signs and delivers; build errors are reported as code 9999.
func Deliver(c *Chain, priv cryptotypes.PrivKey, gas uint64, fee sdk.Coins, ext *codectypes.Any, msgs ...sdk.Msg) abci.ResponseDeliverTx {
	bz, err := SignTx(c, priv, sdk.AccAddress(priv.PubKey().Address()), gas, fee, ext, msgs...)
	if err != nil {
		return abci.ResponseDeliverTx{Code: 9999, Log: "build: " + err.Error()}
	}
	return c.App.DeliverTx(abci.RequestDeliverTx{Tx: bz})
}
