package c18

// C18 — dev-gas payouts are bounded by the paying tx's fee and go to registered owners.
//
// One long-lived chain; every case instantiates its own fresh wasm contracts (hello_world_counter:
// anyone may execute; reflect: only its owner may, and it dispatches a nested execute) and then
// runs a list of steps:
//
//	params  x/devgas MsgUpdateParams through the msg router with the gov authority (any value: every valid corner —
//	        disabled with share 0 and no denom list, enabled with share 0 / 1, empty vs explicit vs repeated
//	        AllowedDenoms — and invalid ones: share < 0, > 1, nil)
//	genesis the x/devgas module's InitGenesis (AppModule.InitGenesis on the JSON genesis state) with these params
//	admin   wasm admin change of a contract (gov-permissioned keeper: environment op)
//	block   EndBlock/Commit + BeginBlock (distribution sweeps the fee collector)
//	tx      a signed Cosmos tx through the real DeliverTx: fee coins + messages
//	          exec    top-level MsgExecuteContract (good/bad payload; reflect: nested execute)
//	          wrap    authz MsgExec{grantee = signer} around one message (NOT top level)
//	          reg/upd/cancel   x/devgas registry messages with deployer = signer
//	          other   bank MsgSend signer -> signer (good) / of an unaffordable amount (bad)
//
// All addresses are small ids in the input: 0 fee collector, 1 gov module, 2 distribution module
// (blocked), 3-5 keyed accounts, 6-7 plain accounts, 8+i the i-th contract of the case, 99 a valid
// address that is no contract.  Denoms are ids in alphabetical order.
//
// Observables: per case the balances (sparse) at the start and after every block step; per tx the
// class (0 delivered, 1 rejected by the ante handler, 2 messages failed), an error enum, the
// balance delta of every tracked (address, denom), and the fee-share registry entry of every
// contract of the case afterwards.

import (
	"encoding/base64"
	"encoding/json"
	"fmt"
	"math/big"
	"os"
	"sort"
	"strings"
	"testing"
	"time"

	sdkmath "cosmossdk.io/math"
	wasmkeeper "github.com/CosmWasm/wasmd/x/wasm/keeper"
	wasmtypes "github.com/CosmWasm/wasmd/x/wasm/types"
	abci "github.com/cometbft/cometbft/abci/types"
	"github.com/cosmos/cosmos-sdk/crypto/keys/secp256k1"
	sdk "github.com/cosmos/cosmos-sdk/types"
	"github.com/cosmos/cosmos-sdk/types/module"
	authtypes "github.com/cosmos/cosmos-sdk/x/auth/types"
	"github.com/cosmos/cosmos-sdk/x/authz"
	banktypes "github.com/cosmos/cosmos-sdk/x/bank/types"
	distrtypes "github.com/cosmos/cosmos-sdk/x/distribution/types"
	govtypes "github.com/cosmos/cosmos-sdk/x/gov/types"

	. "verifharness/hx"

	devgas "github.com/NibiruChain/nibiru/v2/x/devgas/v1"
	devgastypes "github.com/NibiruChain/nibiru/v2/x/devgas/v1/types"
)

var c18Denoms = []string{"uatom", "ufoo", "unibi"}

const (
	idCollector = 0
	idGov       = 1
	idDistr     = 2
	idSigner0   = 3
	nSigners    = 3
	idPlain0    = 6
	nPlain      = 2
	idContract0 = 8
	idNoContr   = 99
	idUnknown   = 98
)

// ---------------------------------------------------------------- input

type c18Contract struct {
	Kind    string `json:"kind"`    // hello | reflect
	Creator int    `json:"creator"` // id (keyed account or an earlier contract)
	Admin   int    `json:"admin"`   // id or -1
}

type c18Msg struct {
	K      string  `json:"k"` // exec | wrap | reg | upd | cancel | other
	C      int     `json:"c,omitempty"`
	W      int     `json:"w,omitempty"`
	Good   bool    `json:"good,omitempty"`
	Nested int     `json:"nested,omitempty"` // exec on a reflect contract: 1 + target id of the dispatched execute (0: none)
	M      *c18Msg `json:"m,omitempty"`
}

type c18Step struct {
	Op      string      `json:"op"` // params | genesis | admin | block | tx
	Enabled bool        `json:"enabled,omitempty"`
	Share   string      `json:"share,omitempty"`   // raw LegacyDec integer (value * 10^18); "nil": the nil Dec
	Allowed []int       `json:"allowed,omitempty"` // denom ids (may repeat)
	C       int         `json:"c,omitempty"`
	Admin   int         `json:"admin,omitempty"`
	Signer  int         `json:"signer,omitempty"`
	Fee     [][2]string `json:"fee,omitempty"` // (denom id, amount)
	Msgs    []c18Msg    `json:"msgs,omitempty"`
}

type c18Case struct {
	Contracts []c18Contract `json:"contracts"`
	Steps     []c18Step     `json:"steps"`
}

// ---------------------------------------------------------------- observations

type c18StepObs struct {
	Ok    bool        `json:"ok"`              // environment op succeeded
	Bal   [][3]string `json:"bal,omitempty"`   // block / first step: balances (id, denom, amount), non-zero only
	Class int         `json:"class"`           // tx: 0 delivered, 1 ante-rejected, 2 messages failed
	Err   int         `json:"err"`             // tx: error enum
	Delta [][3]string `json:"delta,omitempty"` // tx: (id, denom, delta), non-zero only
	Reg   [][3]int    `json:"reg,omitempty"`   // tx: (contract id, deployer id, withdrawer id) or (c,-1,-1)
}

type c18Obs struct {
	Bal0  [][3]string  `json:"bal0"`
	Reg0  [][3]int     `json:"reg0"`
	Steps []c18StepObs `json:"steps"`
}

// ---------------------------------------------------------------- world

type c18World struct {
	c       *Chain
	keys    []*secp256k1.PrivKey
	fixed   map[int]sdk.AccAddress
	codeH   uint64
	codeR   uint64
	cases   int
	t       *testing.T
	govAddr sdk.AccAddress
}

func repoRoot() string {
	if r := os.Getenv("VERIF_REPO"); r != "" {
		return r
	}
	return "/repo"
}

func newC18World(t *testing.T) *c18World {
	w := &c18World{c: NewChain(nil), t: t, fixed: map[int]sdk.AccAddress{}}
	c := w.c
	c.BeginBlock(5 * time.Second)
	w.fixed[idCollector] = authtypes.NewModuleAddress(authtypes.FeeCollectorName)
	w.govAddr = authtypes.NewModuleAddress(govtypes.ModuleName)
	w.fixed[idGov] = w.govAddr
	w.fixed[idDistr] = authtypes.NewModuleAddress(distrtypes.ModuleName)
	rich := sdk.Coins{}
	for _, d := range c18Denoms {
		amt, _ := sdkmath.NewIntFromString("1000000000000000000000000000000000000") // 1e36
		rich = rich.Add(sdk.NewCoin(d, amt))
	}
	for i := 0; i < nSigners; i++ {
		k := secp256k1.GenPrivKeyFromSecret([]byte(fmt.Sprintf("c18-signer-%d", i)))
		w.keys = append(w.keys, k)
		a := sdk.AccAddress(k.PubKey().Address())
		w.fixed[idSigner0+i] = a
		if err := c.Fund(a, rich); err != nil {
			t.Fatal(err)
		}
	}
	for i := 0; i < nPlain; i++ {
		w.fixed[idPlain0+i] = sdk.AccAddress([]byte(fmt.Sprintf("c18-plain-account-%02d", i)))
	}
	w.fixed[idNoContr] = sdk.AccAddress([]byte("c18-no-contract-here-at-all-0001"))
	pk := wasmkeeper.NewDefaultPermissionKeeper(c.App.WasmKeeper)
	store := func(rel string) uint64 {
		bz, err := os.ReadFile(repoRoot() + "/" + rel)
		if err != nil {
			t.Fatal(err)
		}
		id, _, err := pk.Create(c.Ctx(), w.fixed[idSigner0], bz, &wasmtypes.AccessConfig{Permission: wasmtypes.AccessTypeEverybody})
		if err != nil {
			t.Fatal(err)
		}
		return id
	}
	w.codeH = store("x/evm/precompile/test/hello_world_counter.wasm")
	w.codeR = store("x/devgas/v1/keeper/testdata/reflect.wasm")
	c.EndBlock()
	c.BeginBlock(5 * time.Second)
	return w
}

type c18Run struct {
	w     *c18World
	addrs map[int]sdk.AccAddress
	ids   map[string]int
	order []int // tracked ids, ascending
	cids  []int // contract ids of the case (+ idNoContr)
}

func (r *c18Run) addr(id int) sdk.AccAddress {
	if a, ok := r.addrs[id]; ok {
		return a
	}
	return r.addrs[idNoContr]
}

func (r *c18Run) idOf(a string) int {
	if a == "" {
		return -1
	}
	if id, ok := r.ids[a]; ok {
		return id
	}
	return idUnknown
}

func (r *c18Run) balances() map[[2]int]sdkmath.Int {
	out := map[[2]int]sdkmath.Int{}
	ctx := r.w.c.Ctx()
	for _, id := range r.order {
		for di, d := range c18Denoms {
			out[[2]int{id, di}] = r.w.c.App.BankKeeper.GetBalance(ctx, r.addrs[id], d).Amount
		}
	}
	return out
}

func (r *c18Run) sparse(b map[[2]int]sdkmath.Int) [][3]string {
	out := [][3]string{}
	for _, id := range r.order {
		for di := range c18Denoms {
			v := b[[2]int{id, di}]
			if !v.IsZero() {
				out = append(out, [3]string{fmt.Sprint(id), fmt.Sprint(di), v.String()})
			}
		}
	}
	return out
}

func (r *c18Run) registry() [][3]int {
	out := [][3]int{}
	ctx := r.w.c.Ctx()
	for _, cid := range r.cids {
		fs, found := r.w.c.App.DevGasKeeper.GetFeeShare(ctx, r.addrs[cid])
		if !found {
			out = append(out, [3]int{cid, -1, -1})
		} else {
			out = append(out, [3]int{cid, r.idOf(fs.DeployerAddress), r.idOf(fs.WithdrawerAddress)})
		}
	}
	return out
}

func errEnum(r abci.ResponseDeliverTx) int {
	if r.Code == 0 {
		return 0
	}
	switch r.Codespace {
	case devgastypes.ModuleName:
		switch r.Code {
		case 1, 2, 4, 6:
			return int(r.Code)
		case 5:
			return 5
		}
	case "sdk":
		switch r.Code {
		case 4:
			return 10
		case 5:
			return 11
		case 7:
			return 12
		case 111222:
			return 14
		}
	case "wasm":
		return 13
	case "undefined":
		if r.Code == 111222 {
			return 14
		}
	}
	if strings.Contains(r.Log, "panic") {
		return 14
	}
	return 15
}

func (r *c18Run) buildMsg(m c18Msg, signer sdk.AccAddress) sdk.Msg {
	switch m.K {
	case "exec":
		payload := []byte(`{"bogus_c18":{}}`)
		if m.Good {
			payload = []byte(`{"increment":{}}`)
			if m.Nested > 0 {
				inner := base64.StdEncoding.EncodeToString([]byte(`{"increment":{}}`))
				payload = []byte(fmt.Sprintf(`{"reflect_msg":{"msgs":[{"wasm":{"execute":{"contract_addr":"%s","msg":"%s","funds":[]}}}]}}`,
					r.addr(m.Nested-1).String(), inner))
			}
		}
		return &wasmtypes.MsgExecuteContract{Sender: signer.String(), Contract: r.addr(m.C).String(), Msg: payload}
	case "wrap":
		inner := c18Msg{K: "other", Good: true}
		if m.M != nil {
			inner = *m.M
		}
		x := authz.NewMsgExec(signer, []sdk.Msg{r.buildMsg(inner, signer)})
		return &x
	case "reg":
		return &devgastypes.MsgRegisterFeeShare{ContractAddress: r.addr(m.C).String(), DeployerAddress: signer.String(), WithdrawerAddress: r.addr(m.W).String()}
	case "upd":
		return &devgastypes.MsgUpdateFeeShare{ContractAddress: r.addr(m.C).String(), DeployerAddress: signer.String(), WithdrawerAddress: r.addr(m.W).String()}
	case "cancel":
		return &devgastypes.MsgCancelFeeShare{ContractAddress: r.addr(m.C).String(), DeployerAddress: signer.String()}
	default:
		amt := sdkmath.NewInt(1)
		if !m.Good {
			amt, _ = sdkmath.NewIntFromString("1000000000000000000000000000000000000000000") // 1e42: unaffordable
		}
		return &banktypes.MsgSend{FromAddress: signer.String(), ToAddress: signer.String(), Amount: sdk.NewCoins(sdk.NewCoin("unibi", amt))}
	}
}

func (w *c18World) runCase(cs c18Case) c18Obs {
	c := w.c
	w.cases++
	r := &c18Run{w: w, addrs: map[int]sdk.AccAddress{}, ids: map[string]int{}}
	for id, a := range w.fixed {
		r.addrs[id] = a
	}
	pk := wasmkeeper.NewDefaultPermissionKeeper(c.App.WasmKeeper)
	gk := wasmkeeper.NewGovPermissionKeeper(c.App.WasmKeeper)
	for i, ct := range cs.Contracts {
		code, init := w.codeH, []byte(`{"count": 0}`)
		if ct.Kind == "reflect" {
			code, init = w.codeR, []byte(`{}`)
		}
		var admin sdk.AccAddress
		if ct.Admin >= 0 {
			admin = r.addr(ct.Admin)
		}
		creator := r.addr(ct.Creator)
		a, _, err := pk.Instantiate(c.Ctx(), code, creator, admin, init, fmt.Sprintf("c18-%d-%d", w.cases, i), nil)
		if err != nil {
			w.t.Fatalf("instantiate: %v", err)
		}
		r.addrs[idContract0+i] = a
	}
	for id, a := range r.addrs {
		r.ids[a.String()] = id
		r.order = append(r.order, id)
	}
	sort.Ints(r.order)
	for i := range cs.Contracts {
		r.cids = append(r.cids, idContract0+i)
	}
	r.cids = append(r.cids, idNoContr)

	// every case starts from the same x/devgas params (the model's default_params)
	{
		msg := &devgastypes.MsgUpdateParams{Authority: w.govAddr.String(),
			Params: devgastypes.ModuleParams{EnableFeeShare: true, DeveloperShares: sdkmath.LegacyNewDecWithPrec(5, 1), AllowedDenoms: nil}}
		if _, err := c.App.MsgServiceRouter().Handler(msg)(c.Ctx(), msg); err != nil {
			w.t.Fatalf("reset params: %v", err)
		}
	}
	obs := c18Obs{Bal0: r.sparse(r.balances()), Reg0: r.registry(), Steps: []c18StepObs{}}
	for _, st := range cs.Steps {
		so := c18StepObs{}
		switch st.Op {
		case "params", "genesis":
			share := sdkmath.LegacyNewDecFromBigIntWithPrec(mustBig(st.Share), 18)
			if st.Share == "nil" {
				share = sdkmath.LegacyDec{}
			}
			var allowed []string
			for _, d := range st.Allowed {
				allowed = append(allowed, c18Denoms[((d%len(c18Denoms))+len(c18Denoms))%len(c18Denoms)])
			}
			params := devgastypes.ModuleParams{EnableFeeShare: st.Enabled, DeveloperShares: share, AllowedDenoms: allowed}
			if st.Op == "params" {
				msg := &devgastypes.MsgUpdateParams{Authority: w.govAddr.String(), Params: params}
				_, err := c.App.MsgServiceRouter().Handler(msg)(c.Ctx(), msg)
				so.Ok = err == nil
			} else {
				// the module's own InitGenesis on the JSON genesis state (params only: the registry is left alone);
				// an invalid genesis panics before anything is written
				gs := devgastypes.GenesisState{Params: params}
				so.Ok = Recover(func() {
					if st.Share == "nil" {
						devgas.InitGenesis(c.Ctx(), c.App.DevGasKeeper, gs)
						return
					}
					bz := c.App.AppCodec().MustMarshalJSON(&gs)
					mod := c.App.ModuleManager.Modules[devgastypes.ModuleName].(module.HasGenesis)
					mod.InitGenesis(c.Ctx(), c.App.AppCodec(), bz)
				}) == ""
			}
		case "admin":
			var err error
			if st.Admin >= 0 {
				err = gk.UpdateContractAdmin(c.Ctx(), r.addr(st.C), w.govAddr, r.addr(st.Admin))
			} else {
				err = gk.ClearContractAdmin(c.Ctx(), r.addr(st.C), w.govAddr)
			}
			so.Ok = err == nil
		case "block":
			c.EndBlock()
			c.BeginBlock(5 * time.Second)
			so.Ok = true
			so.Bal = r.sparse(r.balances())
		case "tx":
			sIdx := ((st.Signer-idSigner0)%nSigners + nSigners) % nSigners
			priv := w.keys[sIdx]
			signer := sdk.AccAddress(priv.PubKey().Address())
			fee := sdk.Coins{}
			for _, f := range st.Fee {
				var di int
				fmt.Sscan(f[0], &di)
				amt, ok := sdkmath.NewIntFromString(f[1])
				if !ok || !amt.IsPositive() {
					continue
				}
				fee = fee.Add(sdk.NewCoin(c18Denoms[((di%3)+3)%3], amt))
			}
			var msgs []sdk.Msg
			for _, m := range st.Msgs {
				msgs = append(msgs, r.buildMsg(m, signer))
			}
			before := r.balances()
			seq0 := uint64(0)
			if acc := c.App.AccountKeeper.GetAccount(c.Ctx(), signer); acc != nil {
				seq0 = acc.GetSequence()
			}
			res := c.DeliverCosmos(priv, 30_000_000, fee, msgs...)
			seq1 := uint64(0)
			if acc := c.App.AccountKeeper.GetAccount(c.Ctx(), signer); acc != nil {
				seq1 = acc.GetSequence()
			}
			switch {
			case res.Code == 0:
				so.Class = 0
			case seq1 == seq0:
				so.Class = 1
			default:
				so.Class = 2
			}
			so.Ok = true
			so.Err = errEnum(res)
			if os.Getenv("VERIF_C18_DEBUG") != "" && res.Code != 0 {
				fmt.Printf("tx code=%d cs=%s log=%.300s\n", res.Code, res.Codespace, res.Log)
			}
			after := r.balances()
			so.Delta = [][3]string{}
			for _, id := range r.order {
				for di := range c18Denoms {
					k := [2]int{id, di}
					d := after[k].Sub(before[k])
					if !d.IsZero() {
						so.Delta = append(so.Delta, [3]string{fmt.Sprint(id), fmt.Sprint(di), d.String()})
					}
				}
			}
			so.Reg = r.registry()
		}
		obs.Steps = append(obs.Steps, so)
	}
	// leave the chain in a clean default state for the next case
	return obs
}

func mustBig(s string) *big.Int {
	b, ok := new(big.Int).SetString(s, 10)
	if !ok {
		return big.NewInt(0)
	}
	return b
}

func TestC18(t *testing.T) {
	cfg := LoadCfg(t, 300, 4000)
	em := NewEmitter(t, cfg.Out)
	defer em.Close()
	var w *c18World
	run := func(cs c18Case) {
		if w == nil || w.cases > 400 {
			w = newC18World(t)
		}
		obs := w.runCase(cs)
		em.Emit(cs, obs, nil)
	}
	if cfg.Replay != "" {
		for _, raw := range cfg.ReplayInputs(t) {
			var cs c18Case
			if err := json.Unmarshal(raw, &cs); err != nil {
				t.Fatal(err)
			}
			run(cs)
		}
		return
	}
	for _, cs := range c18Openers() {
		run(cs)
	}
	rng := NewRng(cfg.Seed)
	for i := 0; i < cfg.N; i++ {
		run(genC18Case(rng.Fork()))
	}
}
