package c18

// Generator of C18 cases: structured, mostly-valid histories (the generator keeps a light plan of
// who is the authority of which contract and what is probably registered) plus a malformed stream.

import (
	"fmt"
	"math/big"

	. "verifharness/hx"
)

var c18Shares = []string{
	"0", "1000000000000000000", "500000000000000000", "333333333333333333", "100000000000000000",
	"999999999999999999", "1", "666666666666666667", "250000000000000000", "10000000000000000",
}

var c18Amounts = []string{
	"1", "2", "3", "4", "5", "7", "9", "10", "11", "99", "100", "101", "1000", "12345", "1000001",
	"1000000000000", "1000000000000000003", "1000000000000000000000007", "999999999999999999999999999999",
}

type c18Plan struct {
	r          *Rng
	cs         c18Case
	admin      []int // current admin per contract (-1 none)
	registered map[int]bool
	regBy      map[int]int // contract id -> signer that (probably) registered it
}

func (p *c18Plan) nC() int { return len(p.cs.Contracts) }

func (p *c18Plan) isContract(id int) bool { return id >= idContract0 && id < idContract0+p.nC() }

func (p *c18Plan) authority(ci int) int {
	if p.admin[ci] >= 0 {
		return p.admin[ci]
	}
	return p.cs.Contracts[ci].Creator
}

func (p *c18Plan) factory(ci, signer int) bool {
	a := p.admin[ci]
	switch {
	case a == idGov:
		return true
	case a < 0:
		return p.isContract(p.cs.Contracts[ci].Creator)
	case a != signer:
		return p.isContract(a)
	}
	return false
}

func isSigner(id int) bool { return id >= idSigner0 && id < idSigner0+nSigners }

func (p *c18Plan) anySigner() int { return idSigner0 + p.r.Intn(nSigners) }

func (p *c18Plan) anyContract() int { return idContract0 + p.r.Intn(p.nC()) }

func (p *c18Plan) anyWithdrawer(ci int) int {
	switch p.r.Pick(8, 4, 3, 2, 1, 2) {
	case 0:
		return idPlain0 + p.r.Intn(nPlain)
	case 1:
		return p.anySigner()
	case 2:
		return idContract0 + ci
	case 3:
		return p.anyContract()
	case 4:
		return idNoContr
	default:
		return []int{idDistr, idCollector, idGov}[p.r.Intn(3)]
	}
}

func (p *c18Plan) fee() [][2]string {
	var out [][2]string
	switch p.r.Pick(1, 6, 3, 2) {
	case 0:
		return [][2]string{}
	case 1:
		out = append(out, [2]string{fmt.Sprint(p.r.Intn(3)), p.amount()})
	case 2:
		a := p.r.Intn(3)
		b := (a + 1 + p.r.Intn(2)) % 3
		out = append(out, [2]string{fmt.Sprint(a), p.amount()}, [2]string{fmt.Sprint(b), p.amount()})
	default:
		for d := 0; d < 3; d++ {
			out = append(out, [2]string{fmt.Sprint(d), p.amount()})
		}
	}
	return out
}

func (p *c18Plan) amount() string {
	switch p.r.Pick(5, 4, 2) {
	case 0:
		return fmt.Sprint(p.r.Range(1, 12))
	case 1:
		return c18Amounts[p.r.Intn(len(c18Amounts))]
	default:
		// random magnitude
		v := new(big.Int).SetUint64(p.r.Next()>>uint(p.r.Intn(60)) + 1)
		if p.r.Chance(1, 3) {
			v.Mul(v, new(big.Int).SetUint64(p.r.Next()>>uint(20+p.r.Intn(40))+1))
		}
		return v.String()
	}
}

// corners of the parameter space (all valid): the switch, share 0 / 1 / one raw unit, empty vs explicit vs repeated denoms
var c18Corners = []c18Step{
	{Enabled: false, Share: "0"}, // everything off
	{Enabled: false, Share: "0", Allowed: []int{2}},
	{Enabled: false, Share: "500000000000000000"},
	{Enabled: false, Share: "1000000000000000000", Allowed: []int{0, 1, 2}},
	{Enabled: false, Share: "1"},
	{Enabled: true, Share: "0"},
	{Enabled: true, Share: "0", Allowed: []int{2}},
	{Enabled: true, Share: "1000000000000000000"},
	{Enabled: true, Share: "1000000000000000000", Allowed: []int{2, 2}},
	{Enabled: true, Share: "1"},
	{Enabled: true, Share: "500000000000000000", Allowed: []int{0, 1, 2}},
}

// paramsStep: a parameter change by MsgUpdateParams (3/4) or by genesis (1/4).  mode 0: any value; 1: enabled unless a
// rare exception (start of a history: registrations need it); 2: disabled (switched off in the middle of a history)
func (p *c18Plan) paramsStep(mode int) c18Step {
	st := c18Step{Op: "params", Enabled: !p.r.Chance(1, 4), Allowed: []int{}}
	if p.r.Chance(1, 4) {
		st.Op = "genesis"
	}
	switch mode {
	case 1:
		st.Enabled = !p.r.Chance(1, 12)
	case 2:
		st.Enabled = false
	}
	if p.r.Chance(1, 12) {
		// refused by Params.Validate: nothing changes
		st.Share = []string{"1000000000000000001", "-1", "2000000000000000000", "nil"}[p.r.Intn(4)]
		return st
	}
	if p.r.Chance(1, 3) {
		// a corner; "everything off" as often as all the others together
		for try := 0; try < 20; try++ {
			c := c18Corners[p.r.Intn(len(c18Corners))]
			if p.r.Chance(1, 2) {
				c = c18Corners[0]
			}
			if (mode == 1 && !c.Enabled) || (mode == 2 && c.Enabled) {
				continue
			}
			st.Enabled, st.Share = c.Enabled, c.Share
			st.Allowed = append([]int{}, c.Allowed...)
			return st
		}
	}
	if p.r.Chance(3, 4) {
		st.Share = c18Shares[p.r.Intn(len(c18Shares))]
	} else {
		v := new(big.Int).SetUint64(p.r.Next() % 1_000_000_000_000_000_001)
		st.Share = v.String()
	}
	switch p.r.Pick(8, 6, 4, 2, 3) {
	case 4:
		// repeated entries (accepted by Params.Validate)
		a := p.r.Intn(3)
		st.Allowed = [][]int{{a, a}, {a, (a + 1) % 3, a}, {a, a, a}, {(a + 2) % 3, a, a}}[p.r.Intn(4)]
	case 1:
		st.Allowed = []int{p.r.Intn(3)}
	case 2:
		a := p.r.Intn(3)
		st.Allowed = []int{a, (a + 1 + p.r.Intn(2)) % 3}
	case 3:
		st.Allowed = []int{2, 0, 1}
	}
	return st
}

func (p *c18Plan) paidFee() [][2]string {
	for {
		if f := p.fee(); len(f) > 0 {
			return f
		}
	}
}

// switchOff: in the middle of a history (after registrations, between payouts) fee sharing is switched off — by
// MsgUpdateParams or by genesis, at any disabled value incl. the all-zero corner — then a registered contract is executed
// with a non-empty fee, a registry message is tried, and (mostly) fee sharing is switched on again and the contract
// executed once more.
func (p *c18Plan) switchOff() []c18Step {
	target := p.anyContract()
	for cid := idContract0; cid < idContract0+p.nC(); cid++ {
		if p.registered[cid] && (p.cs.Contracts[cid-idContract0].Kind == "hello" || p.r.Chance(1, 4)) {
			target = cid
			if p.r.Chance(1, 2) {
				break
			}
		}
	}
	signer := p.anySigner()
	if p.cs.Contracts[target-idContract0].Kind == "reflect" && isSigner(p.cs.Contracts[target-idContract0].Creator) {
		signer = p.cs.Contracts[target-idContract0].Creator
	}
	execs := func() c18Step {
		msgs := []c18Msg{p.execMsg(target, signer)}
		for p.r.Chance(1, 3) && len(msgs) < 4 {
			msgs = append(msgs, p.execMsg(p.anyContract(), signer))
		}
		return c18Step{Op: "tx", Signer: signer, Fee: p.paidFee(), Msgs: msgs}
	}
	out := []c18Step{p.paramsStep(2), execs()}
	if p.r.Chance(1, 2) {
		out = append(out, p.manageTx())
	}
	if p.r.Chance(1, 4) {
		out = append(out, c18Step{Op: "block"}, execs())
	}
	if p.r.Chance(3, 4) {
		out = append(out, p.paramsStep(1), execs())
	}
	return out
}

// execMsg builds a top-level execute on contract id c by signer.
func (p *c18Plan) execMsg(c, signer int) c18Msg {
	m := c18Msg{K: "exec", C: c, Good: !p.r.Chance(1, 30)}
	if p.isContract(c) && p.cs.Contracts[c-idContract0].Kind == "reflect" {
		m.Nested = 1 + p.anyContract()
		for try := 0; try < 4 && p.cs.Contracts[m.Nested-1-idContract0].Kind == "reflect"; try++ {
			m.Nested = 1 + p.anyContract() // the dispatched increment only works on a hello contract
		}
		if p.r.Chance(1, 20) {
			m.Nested = 1 + idNoContr
		}
	}
	return m
}

func (p *c18Plan) regTx(ci int, valid bool) c18Step {
	c := idContract0 + ci
	signer := p.anySigner()
	w := p.anyWithdrawer(ci)
	if valid {
		if a := p.authority(ci); isSigner(a) {
			signer = a
		}
		if p.factory(ci, signer) {
			w = c
		}
	} else if p.r.Chance(1, 4) {
		// somebody without authority trying the factory route: the contract itself as withdrawer
		w = c
		if a := p.authority(ci); signer == a {
			signer = idSigner0 + (signer-idSigner0+1)%nSigners
		}
	}
	p.registered[c] = true
	if _, seen := p.regBy[c]; !seen {
		p.regBy[c] = signer
	}
	return c18Step{Op: "tx", Signer: signer, Fee: p.fee(), Msgs: []c18Msg{{K: "reg", C: c, W: w}}}
}

func (p *c18Plan) execTx() c18Step {
	signer := p.anySigner()
	n := 1 + p.r.Pick(5, 4, 3, 2, 2)
	var msgs []c18Msg
	for i := 0; i < n; i++ {
		c := p.anyContract()
		// favour registered targets and repetitions
		if len(msgs) > 0 && p.r.Chance(1, 4) {
			c = msgs[p.r.Intn(len(msgs))].C
		} else if len(p.registered) > 0 && p.r.Chance(1, 2) {
			k := p.r.Intn(len(p.registered))
			for cid := idContract0; cid < idContract0+p.nC(); cid++ {
				if p.registered[cid] {
					if k == 0 {
						c = cid
						break
					}
					k--
				}
			}
		}
		if p.r.Chance(1, 25) {
			c = idNoContr
		}
		m := p.execMsg(c, signer)
		if m.Nested > 0 && p.cs.Contracts[c-idContract0].Creator != signer && p.r.Chance(3, 4) {
			signer = p.cs.Contracts[c-idContract0].Creator // the owner, so that the dispatch succeeds
			if !isSigner(signer) {
				signer = p.anySigner()
			}
		}
		switch p.r.Pick(12, 2) {
		case 1:
			inner := m
			m = c18Msg{K: "wrap", M: &inner}
			if p.r.Chance(1, 4) {
				in2 := m
				m = c18Msg{K: "wrap", M: &in2}
			}
		}
		msgs = append(msgs, m)
	}
	if p.r.Chance(1, 5) {
		msgs = append(msgs, c18Msg{K: "other", Good: !p.r.Chance(1, 4)})
	}
	if msgs == nil {
		msgs = []c18Msg{}
	}
	return c18Step{Op: "tx", Signer: signer, Fee: p.fee(), Msgs: msgs}
}

func (p *c18Plan) manageTx() c18Step {
	ci := p.r.Intn(p.nC())
	c := idContract0 + ci
	if p.r.Chance(1, 15) {
		// registry message about an address that is no contract
		k := []string{"reg", "upd", "cancel"}[p.r.Intn(3)]
		return c18Step{Op: "tx", Signer: p.anySigner(), Fee: p.fee(), Msgs: []c18Msg{{K: k, C: idNoContr, W: p.anyWithdrawer(ci)}}}
	}
	signer := p.anySigner()
	if a := p.authority(ci); isSigner(a) && p.r.Chance(2, 3) {
		signer = a
	}
	var msgs []c18Msg
	switch p.r.Pick(4, 3, 2, 2) {
	case 0:
		msgs = []c18Msg{{K: "upd", C: c, W: p.anyWithdrawer(ci)}}
	case 1:
		msgs = []c18Msg{{K: "cancel", C: c}}
		if signer == p.authority(ci) {
			delete(p.registered, c)
		}
	case 2:
		// registry message and an execute of the same contract in one tx (payout uses the registry before the tx)
		msgs = []c18Msg{{K: "reg", C: c, W: p.anyWithdrawer(ci)}, p.execMsg(c, signer), p.execMsg(p.anyContract(), signer)}
		if p.r.Chance(1, 2) {
			msgs[0], msgs[1] = msgs[1], msgs[0]
		}
		p.registered[c] = true
	default:
		// registry message hidden in an authz exec, or several registry messages
		in := c18Msg{K: []string{"reg", "upd", "cancel"}[p.r.Intn(3)], C: c, W: p.anyWithdrawer(ci)}
		msgs = []c18Msg{{K: "wrap", M: &in}}
		if p.r.Chance(1, 2) {
			msgs = append(msgs, c18Msg{K: []string{"reg", "upd", "cancel"}[p.r.Intn(3)], C: p.anyContract(), W: p.anyWithdrawer(ci)})
		}
	}
	return c18Step{Op: "tx", Signer: signer, Fee: p.fee(), Msgs: msgs}
}

// formerAdmin: the account that registered a fee share loses control of the contract (admin moved or cleared) and
// then tries to redirect or cancel the fee share; afterwards the contract is executed.
func (p *c18Plan) formerAdmin() []c18Step {
	for try := 0; try < 6; try++ {
		ci := p.r.Intn(p.nC())
		c := idContract0 + ci
		old, ok := p.regBy[c]
		if !ok || !p.registered[c] || p.authority(ci) != old {
			continue
		}
		na := -1
		if p.admin[ci] >= 0 || p.r.Chance(2, 3) {
			na = idSigner0 + (old-idSigner0+1+p.r.Intn(nSigners-1))%nSigners
			if p.admin[ci] >= 0 && p.r.Chance(1, 4) {
				na = -1 // cleared: control falls to the creator
			}
		}
		if na == -1 && p.cs.Contracts[ci].Creator == old {
			na = idSigner0 + (old-idSigner0+1)%nSigners
		}
		p.admin[ci] = na
		m := c18Msg{K: "upd", C: c, W: p.anyWithdrawer(ci)}
		if p.r.Chance(1, 3) {
			m = c18Msg{K: "cancel", C: c}
		}
		return []c18Step{{Op: "admin", C: c, Admin: na}, {Op: "tx", Signer: old, Fee: p.fee(), Msgs: []c18Msg{m}},
			{Op: "tx", Signer: p.anySigner(), Fee: p.fee(), Msgs: []c18Msg{p.execMsg(c, old), p.execMsg(p.anyContract(), old)}}}
	}
	return []c18Step{p.adminStep()}
}

func (p *c18Plan) adminStep() c18Step {
	ci := p.r.Intn(p.nC())
	na := -1
	switch p.r.Pick(3, 4, 1, 1, 1) {
	case 1:
		na = p.anySigner()
	case 2:
		na = idGov
	case 3:
		na = p.anyContract()
	case 4:
		na = idPlain0
	}
	p.admin[ci] = na
	return c18Step{Op: "admin", C: idContract0 + ci, Admin: na}
}

func genC18Case(r *Rng) c18Case {
	p := &c18Plan{r: r, registered: map[int]bool{}, regBy: map[int]int{}}
	n := r.Range(2, 5)
	reflectAt := -1
	if r.Chance(1, 2) {
		reflectAt = r.Intn(n)
	}
	for i := 0; i < n; i++ {
		ct := c18Contract{Kind: "hello", Creator: idSigner0 + r.Intn(nSigners), Admin: -1}
		if i == reflectAt {
			ct.Kind = "reflect"
		} else if i > 0 && r.Chance(1, 6) {
			ct.Creator = idContract0 + r.Intn(i)
		}
		switch r.Pick(7, 5, 3, 2, 2, 1) {
		case 1:
			ct.Admin = ct.Creator
		case 2:
			ct.Admin = idSigner0 + r.Intn(nSigners)
		case 3:
			ct.Admin = idGov
		case 4:
			if i > 0 {
				ct.Admin = idContract0 + r.Intn(i)
			}
		case 5:
			ct.Admin = idPlain0 + r.Intn(nPlain)
		}
		p.cs.Contracts = append(p.cs.Contracts, ct)
		p.admin = append(p.admin, ct.Admin)
	}
	malformed := r.Chance(1, 5)
	if malformed {
		p.cs.Steps = append(p.cs.Steps, p.paramsStep(0))
	} else {
		p.cs.Steps = append(p.cs.Steps, p.paramsStep(1))
	}
	if !malformed {
		// registrations by the proper authorities first
		k := r.Range(1, p.nC())
		for i := 0; i < k; i++ {
			p.cs.Steps = append(p.cs.Steps, p.regTx(r.Intn(p.nC()), !r.Chance(1, 6)))
		}
	}
	m := r.Range(3, 9)
	for i := 0; i < m; i++ {
		var w []int
		if malformed {
			w = []int{4, 4, 2, 1, 2, 2, 1}
		} else {
			w = []int{10, 3, 2, 1, 2, 1, 3}
		}
		switch r.Pick(w...) {
		case 0:
			p.cs.Steps = append(p.cs.Steps, p.execTx())
		case 1:
			p.cs.Steps = append(p.cs.Steps, p.manageTx())
		case 2:
			if p.r.Chance(2, 3) {
				p.cs.Steps = append(p.cs.Steps, p.formerAdmin()...)
			} else {
				p.cs.Steps = append(p.cs.Steps, p.adminStep())
			}
		case 3:
			p.cs.Steps = append(p.cs.Steps, c18Step{Op: "block"})
		case 4:
			p.cs.Steps = append(p.cs.Steps, p.paramsStep(0), p.execTx())
		case 5:
			p.cs.Steps = append(p.cs.Steps, p.regTx(r.Intn(p.nC()), !malformed && r.Chance(1, 2)))
		case 6:
			p.cs.Steps = append(p.cs.Steps, p.switchOff()...)
		}
	}
	return norm(p.cs)
}

// norm fills the unused fields with canonical values so that inputs are stable JSON.
func norm(cs c18Case) c18Case {
	for i := range cs.Steps {
		st := &cs.Steps[i]
		if (st.Op == "params" || st.Op == "genesis") && st.Share == "" {
			st.Share = "0"
		}
	}
	return cs
}

func tx(signer int, fee [][2]string, msgs ...c18Msg) c18Step {
	return c18Step{Op: "tx", Signer: signer, Fee: fee, Msgs: msgs}
}

func ex(c int) c18Msg { return c18Msg{K: "exec", C: c, Good: true} }

func c18Openers() []c18Case {
	f := func(kv ...string) [][2]string {
		var out [][2]string
		for i := 0; i+1 < len(kv); i += 2 {
			out = append(out, [2]string{kv[i], kv[i+1]})
		}
		return out
	}
	reg := func(c, w int) c18Msg { return c18Msg{K: "reg", C: c, W: w} }
	two := []c18Contract{{Kind: "hello", Creator: 3, Admin: -1}, {Kind: "hello", Creator: 3, Admin: 4}}
	return []c18Case{
		// the module parameters inside the history: "everything off" (disabled, share 0, no denom list — a valid
		// setting) by MsgUpdateParams and by genesis after registrations: nothing may be paid, the registry is frozen;
		// enabled with share 0; disabled with an explicit denom list; refused values leave the last setting in force
		norm(c18Case{Contracts: two, Steps: []c18Step{
			{Op: "params", Enabled: true, Share: "500000000000000000"},
			tx(3, f("2", "1000"), reg(8, 6)), tx(4, f("2", "1000"), reg(9, 7)),
			tx(5, f("2", "1000"), ex(8)),
			{Op: "params", Enabled: false, Share: "0"},
			tx(5, f("2", "1000"), ex(8)),
			tx(4, f("2", "10"), c18Msg{K: "upd", C: 9, W: 6}),
			tx(3, f("2", "10"), c18Msg{K: "cancel", C: 8}),
			{Op: "genesis", Enabled: true, Share: "1000000000000000000", Allowed: []int{2}},
			tx(5, f("0", "7", "2", "1000"), ex(8), ex(9)),
			{Op: "genesis", Enabled: false, Share: "0"},
			tx(5, f("2", "1000"), ex(8), ex(9)),
			{Op: "block"},
			tx(5, f("0", "3", "2", "1000"), ex(9)),
			{Op: "genesis", Enabled: true, Share: "0"},
			tx(5, f("2", "1000"), ex(8)),
			{Op: "params", Enabled: false, Share: "0", Allowed: []int{2}},
			tx(5, f("2", "1000"), ex(8)),
			{Op: "genesis", Enabled: true, Share: "nil"},
			{Op: "params", Enabled: true, Share: "2000000000000000000"},
			tx(5, f("2", "1000"), ex(8)),
			{Op: "params", Enabled: true, Share: "1"},
			tx(5, f("2", "1000000000000000000"), ex(8)),
		}}),
		// AllowedDenoms naming a denom twice (accepted by Params.Validate): the fee coin must count once
		norm(c18Case{Contracts: two[:1], Steps: []c18Step{
			{Op: "params", Enabled: true, Share: "1000000000000000000", Allowed: []int{2, 2}},
			tx(3, f("2", "1000"), reg(8, 6)),
			tx(4, f("2", "100"), ex(8)),
			{Op: "params", Enabled: true, Share: "500000000000000000", Allowed: []int{0, 2, 0, 0}},
			tx(4, f("0", "7", "1", "9", "2", "11"), ex(8), ex(8)),
		}}),
		// share 1, fee 3, two recipients: 1.5 rounds (half-even) to 2 each = 4 > fee; first tx of a block has
		// only its own 3 in the collector -> rejected; with a cushion of earlier fees it pays 4
		norm(c18Case{Contracts: two, Steps: []c18Step{
			{Op: "params", Enabled: true, Share: "1000000000000000000"},
			tx(3, f("2", "1000"), reg(8, 6)), tx(4, f("2", "1000"), reg(9, 7)),
			{Op: "block"},
			tx(5, f("2", "3"), ex(8), ex(9)),
			tx(5, f("2", "100"), c18Msg{K: "other", Good: true}),
			tx(5, f("2", "3"), ex(8), ex(9)),
			tx(5, f("2", "1"), ex(8), ex(9)),
			tx(5, f("2", "2"), ex(8), ex(9), ex(8)),
		}}),
		// strangers and former admins; factory (gov-admin) contract may only name itself
		norm(c18Case{Contracts: []c18Contract{{Kind: "hello", Creator: 3, Admin: 4}, {Kind: "hello", Creator: 3, Admin: 1}, {Kind: "hello", Creator: 8, Admin: -1}}, Steps: []c18Step{
			{Op: "params", Enabled: true, Share: "500000000000000000"},
			tx(3, f("2", "10"), reg(8, 6)),   // creator but not admin: rejected
			tx(4, f("2", "10"), reg(8, 6)),   // admin
			tx(5, f("2", "10"), reg(9, 6)),   // factory: must name itself
			tx(5, f("2", "10"), reg(9, 9)),   // ok, anyone
			tx(5, f("2", "10"), reg(10, 10)), // creator is a contract, no admin: factory
			{Op: "admin", C: 8, Admin: 5},
			tx(4, f("2", "10"), c18Msg{K: "upd", C: 8, W: 7}), // former admin
			tx(5, f("2", "10"), c18Msg{K: "upd", C: 8, W: 7}),
			tx(3, f("2", "10"), c18Msg{K: "cancel", C: 8}),
			tx(5, f("0", "7", "2", "10"), ex(8), ex(9), ex(10)),
			tx(5, f("2", "10"), c18Msg{K: "cancel", C: 8}),
			tx(5, f("0", "7", "2", "10"), ex(8), c18Msg{K: "wrap", M: &c18Msg{K: "exec", C: 9, Good: true}}),
		}}),
		// disabled, allowed-denom filter, nested dispatch through a reflect contract, blocked withdrawer
		norm(c18Case{Contracts: []c18Contract{{Kind: "hello", Creator: 3, Admin: -1}, {Kind: "reflect", Creator: 3, Admin: -1}, {Kind: "hello", Creator: 4, Admin: 4}}, Steps: []c18Step{
			{Op: "params", Enabled: true, Share: "333333333333333333", Allowed: []int{0, 2}},
			tx(3, f("2", "100"), reg(8, 6), reg(9, 7)),
			tx(4, f("2", "100"), reg(10, 2)),
			tx(3, f("0", "5", "1", "1000", "2", "7"), c18Msg{K: "exec", C: 9, Good: true, Nested: 9}),
			tx(3, f("0", "5", "1", "1000", "2", "7"), ex(8), c18Msg{K: "exec", C: 9, Good: true, Nested: 9}, ex(8)),
			tx(3, f("2", "100"), ex(10)), // blocked withdrawer: whole tx rejected
			tx(4, f("2", "100"), c18Msg{K: "upd", C: 10, W: 0}),
			tx(3, f("2", "100"), ex(10)),                                // the fee collector itself as withdrawer: blocked as well
			{Op: "params", Enabled: true, Share: "2000000000000000000"}, // refused: share stays 1/3
			tx(3, f("0", "50", "2", "70"), ex(8), ex(8)),
			{Op: "params", Enabled: false, Share: "333333333333333333"},
			tx(3, f("2", "100"), ex(8)),
			tx(3, f("2", "100"), reg(10, 6)),
			{Op: "params", Enabled: true, Share: "0"},
			tx(3, f("2", "100"), ex(8)),
			tx(3, nil, ex(8)),
		}}),
	}
}
