package c11

// C11, transaction level: the same oracle messages as signed transactions through the real
// BeginBlock / DeliverTx / EndBlock / Commit of a NibiruApp (ante chain incl. signature
// verification and the oracle fixed-gas decorator, real block heights, the real EndBlocker
// cadence).  Every tx names the key that SIGNS it separately from the feeder / operator field of
// the message: a tx whose signer is not that field must be refused before the handler runs, so
// "msg.Feeder is the authenticated sender" — the assumption of the message-level driver — is
// exercised on the real path.  The emitted record has the same shape as TestC11's (the
// flattened ops carry the real heights; an "end" op after every block).

import (
	"encoding/json"
	"fmt"
	"time"
	"unicode/utf8"

	"github.com/cosmos/cosmos-sdk/crypto/keys/ed25519"
	"github.com/cosmos/cosmos-sdk/crypto/keys/secp256k1"
	cryptotypes "github.com/cosmos/cosmos-sdk/crypto/types"
	sdk "github.com/cosmos/cosmos-sdk/types"
	stakingkeeper "github.com/cosmos/cosmos-sdk/x/staking/keeper"
	"testing"

	. "verifharness/hx"

	okeeper "github.com/NibiruChain/nibiru/v2/x/oracle/keeper"
)

type c11TxOp struct {
	Signer int   `json:"signer"`
	Op     c11Op `json:"op"` // prevote | vote | delegate ("h" is ignored: the chain decides)
}

type c11TxInput struct {
	Mode   string      `json:"mode"` // "tx"
	VP0    uint64      `json:"vp0"`
	NVals  int         `json:"nvals"`
	Blocks [][]c11TxOp `json:"blocks"`
}

func c11Keys() ([]cryptotypes.PrivKey, []sdk.AccAddress, []cryptotypes.PubKey) {
	var privs []cryptotypes.PrivKey
	var accs []sdk.AccAddress
	var cons []cryptotypes.PubKey
	for i := 0; i < c11NAddr; i++ {
		priv := secp256k1.GenPrivKeyFromSecret([]byte(fmt.Sprintf("c11-account-%d", i)))
		privs = append(privs, priv)
		accs = append(accs, sdk.AccAddress(priv.PubKey().Address()))
		cons = append(cons, ed25519.GenPrivKeyFromSecret([]byte(fmt.Sprintf("c11-cons-%d", i))).PubKey())
	}
	return privs, accs, cons
}

func runC11Tx(t *testing.T, em *Emitter, in c11TxInput) {
	if in.VP0 == 0 {
		in.VP0 = 1
	}
	if in.NVals < 1 {
		in.NVals = 1
	}
	c := NewChain(nil)
	privs, accs, cons := c11Keys()
	w := &c11World{c11Base: &c11Base{app: c.App, acc: accs, cons: cons}, ids: map[string]int{}, salts: map[string]int{}, rates: map[string]int{}, tuples: map[string]int{}}
	w.sh = stakingkeeper.NewMsgServerImpl(c.App.StakingKeeper)
	w.ms = okeeper.NewMsgServerImpl(c.App.OracleKeeper, c.App.SudoKeeper)
	fee := Unibi(0)

	// block 1: fund, set the vote period, create the validators by signed transactions
	c.BeginBlock(5 * time.Second)
	for _, a := range accs {
		if err := c.Fund(a, sdk.NewCoins(sdk.NewCoin("unibi", sdk.TokensFromConsensusPower(1000, sdk.DefaultPowerReduction)))); err != nil {
			t.Fatal(err)
		}
	}
	k := c.App.OracleKeeper
	params, _ := k.Params.Get(c.Ctx())
	params.VotePeriod = in.VP0
	params.SlashWindow = 1 << 40
	params.MinVoters = 1
	k.Params.Set(c.Ctx(), params)
	for i := 0; i < in.NVals && i < 5; i++ {
		if err := w.createValidator(c.Ctx(), i); err != nil {
			t.Fatalf("create validator %d: %v", i, err)
		}
	}
	c.EndBlock()

	c.BeginBlock(5 * time.Second)
	init := c11Obs{}
	w.snapshot(c.Ctx(), &init)
	var ops []map[string]interface{}
	var obs []c11Obs
	for _, blk := range in.Blocks {
		h := c.Header.Height // the open block
		for _, top := range blk {
			op := top.Op
			op.H = h
			o := c11Obs{SignerOK: true}
			msg := w.oracleMsg(c.Ctx(), op, &o)
			if msg == nil {
				continue
			}
			signer := ((top.Signer % c11NAddr) + c11NAddr) % c11NAddr
			r := c.DeliverCosmos(privs[signer], 200_000, fee, msg)
			o.Acc = r.Code == 0
			o.Reason = "ok"
			if !o.Acc {
				o.Reason = "other"
			}
			w.snapshot(c.Ctx(), &o)
			bz, _ := json.Marshal(op)
			m := map[string]interface{}{}
			_ = json.Unmarshal(bz, &m)
			m["signer"] = signer
			ops = append(ops, m)
			obs = append(obs, o)
		}
		// EndBlock (the real oracle EndBlocker at height h) + Commit; the stores are read in the next block
		c.EndBlock()
		c.BeginBlock(5 * time.Second)
		o := c11Obs{SignerOK: true, Acc: true, Reason: "ok"}
		w.snapshot(c.Ctx(), &o)
		ops = append(ops, map[string]interface{}{"kind": "end", "h": h})
		obs = append(obs, o)
	}
	c.EndBlock()
	em.Emit(in, map[string]interface{}{"init": init, "steps": obs, "ops": ops}, nil)
}

func genC11TxCase(r *Rng) c11TxInput {
	in := c11TxInput{Mode: "tx", VP0: []uint64{1, 2, 3, 4}[r.Intn(4)], NVals: r.Range(2, 3)}
	nb := r.Range(3, 6)
	type sh struct {
		salt, rates string
		has         bool
	}
	shadow := make([]sh, c11NAddr)
	del := make([]int, c11NAddr)
	for i := range del {
		del[i] = -1
	}
	for b := 0; b < nb; b++ {
		var blk []c11TxOp
		for v := 0; v < in.NVals; v++ {
			f := v
			if del[v] >= 0 && r.Chance(1, 2) {
				f = del[v]
			}
			signer := f
			if r.Chance(1, 5) {
				signer = r.Intn(c11NAddr) // somebody else signs a message naming f as feeder
			}
			if shadow[v].has && r.Chance(4, 5) {
				op := c11Op{Kind: "vote", Val: v, Feeder: f, Salt: shadow[v].salt, Rates: shadow[v].rates}
				exact := op
				again := false
				switch r.Pick(6, 1, 2) {
				case 1:
					op.Salt = "x"
				case 2: // a non-identical byte variant of the committed salt (valid UTF-8, 1..4 bytes: passes ValidateBasic)
					if t := c11SaltVariant(r, op.Salt); t != "" && utf8.ValidString(t) {
						op.Salt = t
						again = true
					}
				}
				blk = append(blk, c11TxOp{Signer: signer, Op: op})
				if again {
					blk = append(blk, c11TxOp{Signer: signer, Op: exact})
				}
			}
			if r.Chance(4, 5) {
				op := c11Op{Kind: "prevote", Val: v, Feeder: f, HashFor: v, HashMode: "honest", Salt: c11Salts[r.Intn(3)], Rates: c11Rates[r.Intn(4)]}
				if r.Chance(1, 6) {
					op.Rates = c11RatesDup(r)
				}
				if r.Chance(2, 5) {
					if t := c11SaltBases[r.Intn(len(c11SaltBases))]; utf8.ValidString(t) {
						op.Salt = t
					}
				}
				blk = append(blk, c11TxOp{Signer: signer, Op: op})
				if signer == f {
					shadow[v] = sh{op.Salt, op.Rates, true}
				}
			}
			if r.Chance(1, 6) {
				d := r.Range(4, 7)
				s := v
				if r.Chance(1, 4) {
					s = r.Intn(c11NAddr)
				}
				blk = append(blk, c11TxOp{Signer: s, Op: c11Op{Kind: "delegate", Val: v, Delegate: d}})
				if s == v {
					del[v] = d
				}
			}
		}
		in.Blocks = append(in.Blocks, blk)
	}
	return in
}

func TestC11Tx(t *testing.T) {
	cfg := LoadCfg(t, 10, 120)
	em := NewEmitter(t, cfg.Out)
	defer em.Close()
	if cfg.Replay != "" {
		for _, raw := range cfg.ReplayInputs(t) {
			var in c11TxInput
			if err := json.Unmarshal(raw, &in); err != nil || in.Mode != "tx" {
				continue // a message-level input: TestC11 replays it
			}
			runC11Tx(t, em, in)
		}
		return
	}
	// opener: a stranger signs a vote that names the validator as feeder
	R := c11Rates[0]
	runC11Tx(t, em, c11TxInput{Mode: "tx", VP0: 2, NVals: 2, Blocks: [][]c11TxOp{
		{{Signer: 0, Op: c11Op{Kind: "prevote", Val: 0, Feeder: 0, HashFor: 0, HashMode: "honest", Salt: "1", Rates: R}},
			{Signer: 5, Op: c11Op{Kind: "prevote", Val: 1, Feeder: 1, HashFor: 1, HashMode: "honest", Salt: "1", Rates: R}}},
		{{Signer: 5, Op: c11Op{Kind: "vote", Val: 0, Feeder: 0, Salt: "1", Rates: R}},
			{Signer: 0, Op: c11Op{Kind: "vote", Val: 0, Feeder: 0, Salt: "1", Rates: R}},
			{Signer: 0, Op: c11Op{Kind: "vote", Val: 0, Feeder: 0, Salt: "1", Rates: R}},
			{Signer: 6, Op: c11Op{Kind: "delegate", Val: 0, Delegate: 6}}},
	}})
	// opener: byte-exact reveals through DeliverTx (ValidateBasic: salt of 1..4 bytes)
	runC11Tx(t, em, c11TxInput{Mode: "tx", VP0: 1, NVals: 2, Blocks: [][]c11TxOp{
		{{Signer: 0, Op: c11Op{Kind: "prevote", Val: 0, Feeder: 0, HashFor: 0, HashMode: "honest", Salt: "ab", Rates: R}},
			{Signer: 1, Op: c11Op{Kind: "prevote", Val: 1, Feeder: 1, HashFor: 1, HashMode: "honest", Salt: "ab ", Rates: R}}},
		{{Signer: 0, Op: c11Op{Kind: "vote", Val: 0, Feeder: 0, Salt: "ab ", Rates: R}},
			{Signer: 0, Op: c11Op{Kind: "vote", Val: 0, Feeder: 0, Salt: "\tab", Rates: R}},
			{Signer: 0, Op: c11Op{Kind: "vote", Val: 0, Feeder: 0, Salt: "ab", Rates: R}},
			{Signer: 1, Op: c11Op{Kind: "vote", Val: 1, Feeder: 1, Salt: "ab", Rates: R}},
			{Signer: 1, Op: c11Op{Kind: "vote", Val: 1, Feeder: 1, Salt: "ab ", Rates: R}}},
	}})
	rng := NewRng(cfg.Seed ^ 0xC11)
	n := cfg.N
	if cfg.Tier != "thorough" && n > 12 {
		n = 12 // VERIF_N is sized for the message-level driver
	}
	for i := 0; i < n; i++ {
		runC11Tx(t, em, genC11TxCase(rng.Fork()))
	}
}
