package c11

// C11 — oracle votes are commit-reveal bound, period-exact and feeder-authorised.
//
// A case is a history of oracle messages and environment events run against the REAL oracle
// message server / keeper / EndBlocker of a NibiruTestApp (five possible validators, three
// stranger accounts; every case on its own cache branch of the app state), each at an explicit block height:
//
//	prevote   MsgAggregateExchangeRatePrevote{feeder, validator, hash}; the hash is described
//	          symbolically (fixture addresses are random per process): computed for
//	          (salt, rates, validator hash_for) the honest way, upper-cased, without the validator
//	          address, or a literal string
//	vote      MsgAggregateExchangeRateVote{feeder, validator, salt, rates}
//	delegate  MsgDelegateFeedConsent{operator, delegate}
//	edit      MsgEditOracleParams{sender = sudo root | stranger, VotePeriod, Whitelist}
//	jail / unjail / create   staking: validator leaves / re-enters the bonded set, is created
//	end       oracle.EndBlocker at that height
//	bad       one of the three oracle messages with a broken bech32 address
//
// Observables per op: accept / error class, and afterwards the Prevotes, Votes and
// FeederDelegations stores and Params.VotePeriod, canonicalised (addresses -> fixed small ids,
// hash strings / salts / rate strings / parsed tuples -> ids in first-appearance order).
// Salts and rate strings are BYTE STRINGS: next to the plain ones the generator draws strings with
// leading / trailing / inner white space (blank, tab, newline, CR, VT, FF, NBSP, NEL), upper / lower case,
// NFC / NFD spellings, NUL and zero-width characters, invalid UTF-8 ("salt_hex"), and reveals a committed
// string by a NON-IDENTICAL variant that some normalisation (TrimSpace, case fold, NFC, …) would map to the
// same string — such a reveal must be refused, the byte-exact reveal accepted.  Two strings get the same
// id only if they are byte-identical.
// The reference hash of a reveal is computed HERE with crypto/sha256, not with the repo's
// GetAggregateVoteHash; "parses" / "all pairs whitelisted" are evaluated with the repo's parser and
// the WhitelistedPairs store before the message is delivered.

import (
	"crypto/sha256"
	"encoding/hex"
	"encoding/json"
	"errors"
	"fmt"
	"sort"
	"strings"
	"testing"
	"time"
	"unicode/utf8"

	sdkmath "cosmossdk.io/math"
	"github.com/NibiruChain/collections"
	"github.com/cosmos/cosmos-sdk/crypto/keys/ed25519"
	"github.com/cosmos/cosmos-sdk/crypto/keys/secp256k1"
	cryptotypes "github.com/cosmos/cosmos-sdk/crypto/types"
	sdkerrors "github.com/cosmos/cosmos-sdk/types/errors"
	"github.com/cosmos/cosmos-sdk/x/staking"
	stakingkeeper "github.com/cosmos/cosmos-sdk/x/staking/keeper"
	stakingtypes "github.com/cosmos/cosmos-sdk/x/staking/types"

	sdk "github.com/cosmos/cosmos-sdk/types"

	. "verifharness/hx"

	"github.com/NibiruChain/nibiru/v2/app"
	"github.com/NibiruChain/nibiru/v2/x/common/asset"
	"github.com/NibiruChain/nibiru/v2/x/common/testutil/testapp"
	"github.com/NibiruChain/nibiru/v2/x/oracle"
	okeeper "github.com/NibiruChain/nibiru/v2/x/oracle/keeper"
	otypes "github.com/NibiruChain/nibiru/v2/x/oracle/types"
	sudotypes "github.com/NibiruChain/nibiru/v2/x/sudo/types"
)

const c11NAddr = 8 // ids 0..4: fixture key pairs (possible validators), 5..7: strangers

const c11SlashWindow = uint64(1) << 40

const c11UnbondingTime = 100 * time.Second

type c11Op struct {
	Kind     string   `json:"kind"`
	H        int64    `json:"h"`
	Feeder   int      `json:"feeder,omitempty"`
	Val      int      `json:"val,omitempty"`
	HashMode string   `json:"hash_mode,omitempty"` // honest | upper | noval | lit
	HashFor  int      `json:"hash_for,omitempty"`
	Salt     string   `json:"salt,omitempty"`
	SaltHex  string   `json:"salt_hex,omitempty"` // hex of the salt bytes when they are not valid UTF-8 (overrides salt)
	Rates    string   `json:"rates,omitempty"`
	Lit      string   `json:"lit,omitempty"`
	Delegate int      `json:"delegate,omitempty"`
	Sudo     bool     `json:"sudo,omitempty"`
	VP       uint64   `json:"vp,omitempty"`
	WL       []string `json:"wl,omitempty"`
	Bad      string   `json:"bad,omitempty"` // prevote | vote | delegate
	N        uint32   `json:"n,omitempty"`   // maxvals: staking MaxValidators
}

type c11Input struct {
	Mode  string  `json:"mode,omitempty"` // "" (message level) | "tx" (handled by TestC11Tx)
	VP0   uint64  `json:"vp0"`
	NVals int     `json:"nvals"`
	Ops   []c11Op `json:"ops"`
}

type c11Obs struct {
	Acc    bool       `json:"acc"`
	Reason string     `json:"reason"`
	Prev   [][3]int64 `json:"prev"`  // validator id, hash id, submit block
	Votes  [][2]int   `json:"votes"` // validator id, tuples id
	Feed   [][2]int   `json:"feed"`  // validator id, delegate id
	VP     uint64     `json:"vp"`
	Status []int      `json:"status"`     // per address id: 0 no validator, 1 not bonded, 2 bonded (= Validator(v).IsBonded())
	VState []string   `json:"vstate"`     // finer, for the input distribution: none | bonded | unbonding | unbonding-jailed | unbonded | unbonded-jailed
	EditOK bool       `json:"edit_valid"` // edit: the merged params satisfy Params.Validate (VotePeriod <= SlashWindow)
	// reference values computed by the harness for this op (inputs of the model)
	HashID   int    `json:"hash_id"`
	HexOK    bool   `json:"hex_ok"`
	SaltID   int    `json:"salt_id"`
	RatesID  int    `json:"rates_id"`
	TuplesID int    `json:"tuples_id"`
	Parses   bool   `json:"parses"`
	WL       bool   `json:"wl"`
	RevealID int    `json:"reveal_id"` // id of the reference hash of (salt, rates, validator)
	SignerOK bool   `json:"signer_ok"` // msg.GetSigners() == the feeder / operator field
	// the DRIVER's own lexing of the revealed rate string (not the repo's parser): per tuple (pair id, rate > 0 ? 1 : 0);
	// lex_ok = every element is "(a,b)"
	Pairs [][2]int `json:"pairs"`
	LexOK bool     `json:"lex_ok"`
	Panic    string `json:"panic,omitempty"`
}

type c11Base struct {
	app  *app.NibiruApp
	ctx  sdk.Context
	acc  []sdk.AccAddress
	cons []cryptotypes.PubKey
	root sdk.AccAddress
}

var c11base *c11Base

// one application for the whole run; every case runs on its own cache branch of the base context
func c11Setup(t *testing.T) *c11Base {
	if c11base != nil {
		return c11base
	}
	a, ctx := testapp.NewNibiruTestAppAndContext()
	b := &c11Base{app: a, ctx: ctx}
	for i := 0; i < c11NAddr; i++ {
		priv := secp256k1.GenPrivKeyFromSecret([]byte(fmt.Sprintf("c11-account-%d", i)))
		addr := sdk.AccAddress(priv.PubKey().Address())
		b.acc = append(b.acc, addr)
		b.cons = append(b.cons, ed25519.GenPrivKeyFromSecret([]byte(fmt.Sprintf("c11-cons-%d", i))).PubKey())
		if err := testapp.FundAccount(a.BankKeeper, ctx, addr, sdk.NewCoins(sdk.NewCoin("unibi", sdk.TokensFromConsensusPower(1000, sdk.DefaultPowerReduction)))); err != nil {
			t.Fatal(err)
		}
	}
	b.root = sdk.AccAddress(secp256k1.GenPrivKeyFromSecret([]byte("c11-sudo-root")).PubKey().Address())
	a.SudoKeeper.Sudoers.Set(ctx, sudotypes.Sudoers{Root: b.root.String()})
	c11base = b
	return b
}

type c11World struct {
	*c11Base
	ctx    sdk.Context   // the case's branch
	off    time.Duration // block-time offset ("mature" advances it past the unbonding time)
	ms     otypes.MsgServer
	sh     stakingtypes.MsgServer
	ids    map[string]int // hash string -> id (from 1)
	salts  map[string]int
	rates  map[string]int
	tuples map[string]int
	pairs  map[string]int
}

// c11Lex splits a rate string the way the wire format is documented — "(pair,rate)|(pair,rate)…" — without any code
// of the repo: per element (pair text, rate > 0).  ok = every element has the form "(a,b)".
func c11Lex(rates string) (ok bool, out [][2]string) {
	ok = true
	for _, el := range strings.Split(rates, "|") {
		if len(el) < 3 || el[0] != '(' || el[len(el)-1] != ')' {
			ok = false
			continue
		}
		f := strings.Split(el[1:len(el)-1], ",")
		if len(f) != 2 {
			ok = false
			continue
		}
		pos := "0"
		if d, err := sdkmath.LegacyNewDecFromStr(f[1]); err == nil && d.IsPositive() {
			pos = "1"
		}
		out = append(out, [2]string{f[0], pos})
	}
	return ok, out
}

func (w *c11World) id(m map[string]int, s string) int {
	if v, ok := m[s]; ok {
		return v
	}
	m[s] = len(m) + 1
	return m[s]
}

func newC11World(t *testing.T, in c11Input) *c11World {
	b := c11Setup(t)
	w := &c11World{c11Base: b, ids: map[string]int{}, salts: map[string]int{}, rates: map[string]int{}, tuples: map[string]int{}}
	w.ctx, _ = b.ctx.CacheContext()
	k := b.app.OracleKeeper
	params, _ := k.Params.Get(w.ctx)
	params.VotePeriod = in.VP0
	params.SlashWindow = c11SlashWindow // never reached: slashing/jailing by the oracle is C12's subject
	params.MinVoters = 1
	k.Params.Set(w.ctx, params)
	w.ms = okeeper.NewMsgServerImpl(k, b.app.SudoKeeper)
	w.sh = stakingkeeper.NewMsgServerImpl(b.app.StakingKeeper)
	sp := b.app.StakingKeeper.GetParams(w.ctx)
	sp.UnbondingTime = c11UnbondingTime
	if err := b.app.StakingKeeper.SetParams(w.ctx, sp); err != nil {
		t.Fatal(err)
	}
	for i := 0; i < in.NVals && i < 5; i++ {
		if err := w.createValidator(w.ctx, i); err != nil {
			t.Fatalf("create validator %d: %v", i, err)
		}
	}
	staking.EndBlocker(w.ctx, b.app.StakingKeeper)
	return w
}

func (w *c11World) createValidator(ctx sdk.Context, i int) error {
	amt := sdk.TokensFromConsensusPower(int64(10+i), sdk.DefaultPowerReduction)
	zero := sdkmath.LegacyZeroDec()
	msg, err := stakingtypes.NewMsgCreateValidator(sdk.ValAddress(w.acc[i]), w.cons[i], sdk.NewCoin("unibi", amt),
		stakingtypes.Description{Moniker: fmt.Sprintf("c11-%d", i)}, stakingtypes.NewCommissionRates(zero, zero, zero), sdkmath.OneInt())
	if err != nil {
		return err
	}
	_, err = w.sh.CreateValidator(ctx, msg)
	return err
}

func (w *c11World) addrID(bz []byte) int {
	for i, a := range w.acc {
		if a.Equals(sdk.AccAddress(bz)) {
			return i
		}
	}
	return 99
}

// salt returns the exact salt bytes of an op.
func (op c11Op) salt() string {
	if op.SaltHex != "" {
		if bz, err := hex.DecodeString(op.SaltHex); err == nil {
			return string(bz)
		}
	}
	return op.Salt
}

// withSalt stores a byte string as the op's salt so that it survives the JSON round trip of a replay.
func (op c11Op) withSalt(s string) c11Op {
	op.Salt, op.SaltHex = s, ""
	if !utf8.ValidString(s) {
		op.Salt, op.SaltHex = "", hex.EncodeToString([]byte(s))
	}
	return op
}

func refHash(salt, rates string, val sdk.ValAddress) string {
	sum := sha256.Sum256([]byte(salt + ":" + rates + ":" + val.String()))
	return hex.EncodeToString(sum[:20])
}

func (w *c11World) status(ctx sdk.Context) ([]int, []string) {
	out := make([]int, c11NAddr)
	fine := make([]string, c11NAddr)
	for i, a := range w.acc {
		v := w.app.StakingKeeper.Validator(ctx, sdk.ValAddress(a))
		switch {
		case v == nil:
			out[i], fine[i] = 0, "none"
		case v.IsBonded():
			out[i], fine[i] = 2, "bonded"
		default:
			out[i] = 1
			fine[i] = strings.ToLower(strings.TrimPrefix(v.GetStatus().String(), "BOND_STATUS_"))
			if v.IsJailed() {
				fine[i] += "-jailed"
			}
		}
	}
	return out, fine
}

func classify(err error) string {
	switch {
	case err == nil:
		return "ok"
	case errors.Is(err, otypes.ErrNoVotingPermission):
		return "feeder"
	case errors.Is(err, stakingtypes.ErrNoValidatorFound):
		return "notactive"
	case errors.Is(err, otypes.ErrNoAggregatePrevote):
		return "noprevote"
	case errors.Is(err, otypes.ErrRevealPeriodMissMatch):
		return "period"
	case errors.Is(err, sdkerrors.ErrInvalidCoins):
		return "parse"
	case errors.Is(err, otypes.ErrUnknownPair):
		return "unknownpair"
	case errors.Is(err, otypes.ErrHashVerificationFailed):
		return "hash"
	case errors.Is(err, otypes.ErrInvalidHash):
		return "badhash"
	case errors.Is(err, sudotypes.ErrUnauthorized):
		return "unauthorized"
	}
	return "other"
}

func (w *c11World) snapshot(ctx sdk.Context, o *c11Obs) {
	k := w.app.OracleKeeper
	o.Prev = [][3]int64{}
	for _, kv := range k.Prevotes.Iterate(ctx, collections.Range[sdk.ValAddress]{}).KeyValues() {
		hid := int64(w.id(w.ids, kv.Value.Hash))
		vid := int64(w.addrID(kv.Key))
		if kv.Value.Voter != kv.Key.String() {
			vid = 98
		}
		o.Prev = append(o.Prev, [3]int64{vid, hid, int64(kv.Value.SubmitBlock)})
	}
	sort.Slice(o.Prev, func(i, j int) bool { return o.Prev[i][0] < o.Prev[j][0] })
	o.Votes = [][2]int{}
	for _, kv := range k.Votes.Iterate(ctx, collections.Range[sdk.ValAddress]{}).KeyValues() {
		s, err := otypes.ExchangeRateTuples(kv.Value.ExchangeRateTuples).ToString()
		if err != nil {
			s = "!" + err.Error()
		}
		vid := w.addrID(kv.Key)
		if kv.Value.Voter != kv.Key.String() {
			vid = 98
		}
		o.Votes = append(o.Votes, [2]int{vid, w.id(w.tuples, s)})
	}
	sort.Slice(o.Votes, func(i, j int) bool { return o.Votes[i][0] < o.Votes[j][0] })
	o.Feed = [][2]int{}
	for _, kv := range k.FeederDelegations.Iterate(ctx, collections.Range[sdk.ValAddress]{}).KeyValues() {
		o.Feed = append(o.Feed, [2]int{w.addrID(kv.Key), w.addrID(kv.Value)})
	}
	sort.Slice(o.Feed, func(i, j int) bool { return o.Feed[i][0] < o.Feed[j][0] })
	p, _ := k.Params.Get(ctx)
	o.VP = p.VotePeriod
	o.Status, o.VState = w.status(ctx)
}

func (w *c11World) bech(i int, val bool) string {
	a := w.acc[((i%c11NAddr)+c11NAddr)%c11NAddr]
	if val {
		return sdk.ValAddress(a).String()
	}
	return a.String()
}

// oracleMsg builds the oracle message of a prevote / vote / delegate op and fills in the reference
// values the model needs (hash ids, parse / whitelist flags), all computed before delivery.
func (w *c11World) oracleMsg(ctx sdk.Context, op c11Op, o *c11Obs) sdk.Msg {
	switch op.Kind {
	case "prevote":
		var h string
		val := sdk.ValAddress(w.acc[op.HashFor%c11NAddr])
		switch op.HashMode {
		case "honest":
			h = refHash(op.salt(), op.Rates, val)
		case "upper":
			h = strings.ToUpper(refHash(op.salt(), op.Rates, val))
		case "noval":
			sum := sha256.Sum256([]byte(op.salt() + ":" + op.Rates))
			h = hex.EncodeToString(sum[:20])
		default:
			h = op.Lit
		}
		if bz, e := hex.DecodeString(h); e == nil {
			o.HexOK = true
			o.HashID = w.id(w.ids, hex.EncodeToString(bz))
		}
		msg := &otypes.MsgAggregateExchangeRatePrevote{Hash: h, Feeder: w.bech(op.Feeder, false), Validator: w.bech(op.Val, true)}
		o.SignerOK = len(msg.GetSigners()) == 1 && msg.GetSigners()[0].Equals(w.acc[op.Feeder%c11NAddr])
		return msg
	case "vote":
		val := sdk.ValAddress(w.acc[op.Val%c11NAddr])
		o.SaltID = w.id(w.salts, op.salt())
		o.RatesID = w.id(w.rates, op.Rates)
		o.RevealID = w.id(w.ids, refHash(op.salt(), op.Rates, val))
		if w.pairs == nil {
			w.pairs = map[string]int{}
		}
		var lexed [][2]string
		o.LexOK, lexed = c11Lex(op.Rates)
		o.Pairs = [][2]int{}
		for _, e := range lexed {
			pos := 0
			if e[1] == "1" {
				pos = 1
			}
			o.Pairs = append(o.Pairs, [2]int{w.id(w.pairs, e[0]), pos})
		}
		if tuples, e := otypes.ParseExchangeRateTuples(op.Rates); e == nil {
			o.Parses = true
			s, e2 := tuples.ToString()
			if e2 != nil {
				s = "!" + e2.Error()
			}
			o.TuplesID = w.id(w.tuples, s)
			o.WL = true
			for _, tp := range tuples {
				if !w.app.OracleKeeper.WhitelistedPairs.Has(ctx, tp.Pair) {
					o.WL = false
				}
			}
		}
		msg := &otypes.MsgAggregateExchangeRateVote{Salt: op.salt(), ExchangeRates: op.Rates, Feeder: w.bech(op.Feeder, false), Validator: w.bech(op.Val, true)}
		o.SignerOK = len(msg.GetSigners()) == 1 && msg.GetSigners()[0].Equals(w.acc[op.Feeder%c11NAddr])
		return msg
	case "delegate":
		msg := &otypes.MsgDelegateFeedConsent{Operator: w.bech(op.Val, true), Delegate: w.bech(op.Delegate, false)}
		o.SignerOK = len(msg.GetSigners()) == 1 && msg.GetSigners()[0].Equals(w.acc[op.Val%c11NAddr])
		return msg
	}
	return nil
}

func (w *c11World) apply(op c11Op) c11Obs {
	ctx := w.ctx.WithBlockHeight(op.H).WithBlockTime(w.ctx.BlockTime().Add(w.off))
	o := c11Obs{SignerOK: true}
	var err error
	pan := Recover(func() {
		switch op.Kind {
		case "prevote":
			_, err = w.ms.AggregateExchangeRatePrevote(sdk.WrapSDKContext(ctx), w.oracleMsg(ctx, op, &o).(*otypes.MsgAggregateExchangeRatePrevote))
		case "vote":
			_, err = w.ms.AggregateExchangeRateVote(sdk.WrapSDKContext(ctx), w.oracleMsg(ctx, op, &o).(*otypes.MsgAggregateExchangeRateVote))
		case "delegate":
			_, err = w.ms.DelegateFeedConsent(sdk.WrapSDKContext(ctx), w.oracleMsg(ctx, op, &o).(*otypes.MsgDelegateFeedConsent))
		case "edit":
			sender := w.acc[7]
			if op.Sudo {
				sender = w.root
			}
			o.EditOK = op.VP <= c11SlashWindow
			pm := &otypes.OracleParamsMsg{VotePeriod: op.VP}
			for _, p := range op.WL {
				pm.Whitelist = append(pm.Whitelist, asset.Pair(p))
			}
			_, err = w.ms.EditOracleParams(sdk.WrapSDKContext(ctx), &otypes.MsgEditOracleParams{Sender: sender.String(), Params: pm})
		case "jail":
			if v, ok := w.app.StakingKeeper.GetValidator(ctx, sdk.ValAddress(w.acc[op.Val%c11NAddr])); ok && !v.IsJailed() {
				ca, _ := v.GetConsAddr()
				w.app.StakingKeeper.Jail(ctx, ca)
			}
			staking.EndBlocker(ctx, w.app.StakingKeeper)
		case "unjail":
			if v, ok := w.app.StakingKeeper.GetValidator(ctx, sdk.ValAddress(w.acc[op.Val%c11NAddr])); ok && v.IsJailed() && v.Tokens.IsPositive() {
				ca, _ := v.GetConsAddr()
				w.app.StakingKeeper.Unjail(ctx, ca)
			}
			staking.EndBlocker(ctx, w.app.StakingKeeper)
		case "maxvals": // a full active set displaces the weakest validators: Unbonding, NOT jailed
			sp := w.app.StakingKeeper.GetParams(ctx)
			sp.MaxValidators = op.N
			if sp.MaxValidators == 0 {
				sp.MaxValidators = 100
			}
			_ = w.app.StakingKeeper.SetParams(ctx, sp)
			staking.EndBlocker(ctx, w.app.StakingKeeper)
		case "undelegate": // the operator withdraws its whole self-delegation: jailed + Unbonding, removed once mature
			va := sdk.ValAddress(w.acc[op.Val%c11NAddr])
			if v, ok := w.app.StakingKeeper.GetValidator(ctx, va); ok && v.Tokens.IsPositive() {
				if d, found := w.app.StakingKeeper.GetDelegation(ctx, w.acc[op.Val%c11NAddr], va); found {
					amt := v.TokensFromShares(d.Shares).TruncateInt()
					if amt.IsPositive() {
						_, _ = w.sh.Undelegate(ctx, stakingtypes.NewMsgUndelegate(w.acc[op.Val%c11NAddr], va, sdk.NewCoin("unibi", amt)))
					}
				}
			}
			staking.EndBlocker(ctx, w.app.StakingKeeper)
		case "mature": // the unbonding time passes: Unbonding -> Unbonded; validators without delegations are removed
			w.off += c11UnbondingTime + time.Second
			ctx = ctx.WithBlockTime(w.ctx.BlockTime().Add(w.off))
			staking.EndBlocker(ctx, w.app.StakingKeeper)
		case "create":
			i := op.Val % c11NAddr
			if i < 5 {
				if _, ok := w.app.StakingKeeper.GetValidator(ctx, sdk.ValAddress(w.acc[i])); !ok {
					_ = w.createValidator(ctx, i)
				}
			}
			staking.EndBlocker(ctx, w.app.StakingKeeper)
		case "end":
			oracle.EndBlocker(ctx, w.app.OracleKeeper)
		case "bad":
			switch op.Bad {
			case "prevote":
				_, err = w.ms.AggregateExchangeRatePrevote(sdk.WrapSDKContext(ctx), &otypes.MsgAggregateExchangeRatePrevote{Hash: refHash("1", "x", sdk.ValAddress(w.acc[0])), Feeder: "nibi1notanaddress", Validator: w.bech(op.Val, true)})
			case "vote":
				_, err = w.ms.AggregateExchangeRateVote(sdk.WrapSDKContext(ctx), &otypes.MsgAggregateExchangeRateVote{Salt: "1", ExchangeRates: "(ubtc:uusd,1)", Feeder: w.bech(op.Feeder, false), Validator: w.bech(op.Val, false) /* account prefix, not valoper */})
			default:
				_, err = w.ms.DelegateFeedConsent(sdk.WrapSDKContext(ctx), &otypes.MsgDelegateFeedConsent{Operator: w.bech(op.Val, true), Delegate: ""})
			}
		default:
			err = fmt.Errorf("unknown op kind %q", op.Kind)
		}
	})
	if pan != "" {
		o.Panic = pan
		o.Acc = false
		o.Reason = "panic"
	} else {
		o.Acc = err == nil
		o.Reason = classify(err)
	}
	w.snapshot(ctx, &o)
	return o
}

// ------------------------------------------------------------------ generation

var c11Rates = []string{
	"(ubtc:uusd,20000.5)",
	"(ubtc:uusd,20000.5)|(ueth:uusd,1500)",
	"(ueth:uusd,1500)|(ubtc:uusd,20000.5)",
	"(uatom:uusd,9.25)",
	"(ubtc:uusd,0)",
	"(ubtc:uusd,-1)",
}

// textual variants that parse to the same tuples as the entry with the same index above
var c11RatesVariant = []string{
	"(ubtc:uusd,20000.500000000000000000)",
	"(ubtc:uusd,20000.500000000000000000)|(ueth:uusd,1500.000000000000000000)",
	"(ueth:uusd,1500.00)|(ubtc:uusd,20000.5)",
	"(uatom:uusd,9.250000000000000000)",
	"(ubtc:uusd,0.0)",
	"(ubtc:uusd,-1.000000000000000000)",
}

var c11RatesOdd = []string{
	"(ufoo:ubar,1.5)",               // parses, not whitelisted
	"(ubtc:uusd,1.5)|(ufoo:ubar,2)", // one pair not whitelisted
	"ubtc:uusd,1.5",                 // no parentheses
	"(ubtc:uusd,1.5)|",              // trailing separator
	"(ubtc:uusd,1)|(ubtc:uusd,2)",   // duplicate pair
	"",                              // empty
	"(ubtc:uusd,1.5,2)",             // three fields
	"(ubtc,1.5)",                    // not a pair
}

var c11Salts = []string{"1", "ab", "7f3", "1:2", "zzzz", ""}

// ---- byte-string families: strings that some normalisation maps to one string

// white space as strings.TrimSpace / unicode.IsSpace see it (NBSP and NEL take two bytes)
var c11WS = []string{" ", "\t", "\n", "\r", "\v", "\f", "\u00a0", "\u0085", " ", "\n"}

// salts the byte-level variants start from (all of 1..4 bytes, as ValidateBasic demands)
var c11SaltBases = []string{"ab", "a", "7f", "Ab", "zz", "\u00e9", "e\u0301", "a b", "Q", "ab ", " ab", "\tx", "x\n", " ", "  ", "\n", "a\x00", "\u00a0a"}

func c11Trim(s string) string { return strings.TrimSpace(s) }

// c11SaltVariant returns a salt of 1..4 bytes that is NOT byte-identical to s but equal to it under some
// normalisation a "hygiene" change could apply: white-space trimming, case folding, NFC/NFD, dropping NUL or
// zero-width characters, collapsing inner blanks.  ("" when it finds none.)
func c11SaltVariant(r *Rng, s string) string {
	ok := func(t string) bool { return t != s && len(t) >= 1 && len(t) <= 4 }
	for try := 0; try < 12; try++ {
		var t string
		switch r.Pick(6, 5, 2, 5, 3, 2, 2, 2, 1, 1) {
		case 0:
			t = s + c11WS[r.Intn(len(c11WS))]
		case 1:
			t = c11WS[r.Intn(len(c11WS))] + s
		case 2:
			t = c11WS[r.Intn(len(c11WS))] + s + c11WS[r.Intn(len(c11WS))]
		case 3: // the other direction: the committed salt carries white space, the reveal does not
			t = c11Trim(s)
			if t == s {
				t = strings.TrimRight(s, "\x00")
			}
		case 4:
			t = strings.ToUpper(s)
			if t == s {
				t = strings.ToLower(s)
			}
		case 5:
			t = strings.ReplaceAll(s, "\u00e9", "e\u0301")
			if t == s {
				t = strings.ReplaceAll(s, "e\u0301", "\u00e9")
			}
		case 6:
			t = s + "\x00"
		case 7:
			t = strings.ReplaceAll(s, " ", "  ")
			if t == s || len(t) > 4 {
				t = strings.ReplaceAll(s, " ", "")
			}
		case 8:
			t = s + "\u200b"
		case 9: // trimmed on one side only
			t = strings.TrimLeft(s, " \t\n")
			if t == s {
				t = strings.TrimRight(s, " \t\n")
			}
		}
		if ok(t) {
			return t
		}
	}
	if len(s) < 4 {
		return s + " "
	}
	return ""
}

// c11RatesBytes: a rate string that differs from s only in bytes a normalisation would remove or fold
// (most of them do not parse; the ones that do parse to the same tuples).
func c11RatesBytes(r *Rng, s string) string {
	for try := 0; try < 8; try++ {
		var t string
		switch r.Pick(4, 3, 2, 2, 2, 2, 2, 1, 1) {
		case 0:
			t = s + c11WS[r.Intn(len(c11WS))]
		case 1:
			t = c11WS[r.Intn(len(c11WS))] + s
		case 2:
			t = s + "\r\n"
		case 3:
			t = c11Trim(s)
		case 4:
			t = strings.ToUpper(s)
		case 5:
			t = strings.ReplaceAll(s, ",", ", ")
		case 6: // a leading zero / plus sign in the first rate
			if i := strings.Index(s, ","); i >= 0 && i+1 < len(s) && s[i+1] != '-' {
				t = s[:i+1] + []string{"0", "+", "00"}[r.Intn(3)] + s[i+1:]
			}
		case 7:
			t = strings.ReplaceAll(s, "|", " | ")
		case 8:
			t = strings.ReplaceAll(s, "(", "( ")
		}
		if t != "" && t != s {
			return t
		}
	}
	return s + " "
}

// c11PickSalt: a salt for a new commitment; about a third are not plain ASCII tokens.
func c11PickSalt(r *Rng) string {
	switch r.Pick(12, 4, 3, 1) {
	case 1:
		return c11SaltBases[r.Intn(len(c11SaltBases))]
	case 2:
		if t := c11SaltVariant(r, c11SaltBases[r.Intn(10)]); t != "" {
			return t
		}
	case 3: // arbitrary bytes, possibly not UTF-8
		n := r.Range(1, 4)
		bz := make([]byte, n)
		for i := range bz {
			bz[i] = []byte{0x20, 0x09, 0x0a, 0x61, 0x41, 0x00, 0xff, 0xc3, 0xa9, 0x7f, 0x3a, 0x25, 0xe2, 0x80}[r.Intn(14)]
		}
		return string(bz)
	}
	return c11Salts[r.Pick(5, 3, 2, 2, 1, 1)]
}

// c11RatesDup: a rate string in which every tuple is well formed and whitelisted but one pair is named twice —
// priced+priced, abstain+priced (either order), abstain+abstain, adjacent or with another pair in between.
func c11RatesDup(r *Rng) string {
	pairs := []string{"ubtc:uusd", "ueth:uusd", "uatom:uusd"}
	priced := []string{"20000.5", "1700", "1500", "9.25", "1"}
	abst := []string{"0", "-1", "0.0", "-0.5", "0.000000000000000000"}
	n := r.Range(2, 4)
	i := r.Intn(n - 1)
	j := r.Range(i+1, n-1)
	dup := pairs[r.Intn(3)]
	kind := r.Pick(2, 3, 3, 2) // priced+priced | abstain+priced | priced+abstain | abstain+abstain
	var el []string
	other := 0
	for k := 0; k < n; k++ {
		p, rate := dup, priced[r.Intn(len(priced))]
		switch {
		case k == i:
			if kind == 1 || kind == 3 {
				rate = abst[r.Intn(len(abst))]
			}
		case k == j:
			if kind == 2 || kind == 3 {
				rate = abst[r.Intn(len(abst))]
			}
		default:
			for pairs[other] == dup {
				other++
			}
			p = pairs[other]
			other++
			if r.Chance(1, 4) {
				rate = abst[r.Intn(len(abst))]
			}
		}
		el = append(el, "("+p+","+rate+")")
	}
	return strings.Join(el, "|")
}

// c11Respell returns the other spelling of a rate string from the two tables ("" if it has none).
func c11Respell(s string) string {
	for k := range c11Rates {
		if c11Rates[k] == s {
			return c11RatesVariant[k]
		}
		if c11RatesVariant[k] == s {
			return c11Rates[k]
		}
	}
	return ""
}

type c11Shadow struct {
	salt, rates string
	h           int64
	has         bool
}

func genC11Case(r *Rng) c11Input {
	vps := []uint64{1, 2, 3, 4, 5, 7}
	in := c11Input{VP0: vps[r.Intn(len(vps))], NVals: r.Range(2, 4)}
	vp := in.VP0
	h := int64(r.Intn(int(3*vp) + 1))
	nblocks := r.Range(int(2*vp)+2, int(4*vp)+8)
	if nblocks > 26 {
		nblocks = 26
	}
	shadow := make([]c11Shadow, c11NAddr)
	curDel := make([]int, c11NAddr)
	oldDel := make([]int, c11NAddr)
	for i := range curDel {
		curDel[i], oldDel[i] = -1, -1
	}
	pickVal := func() int {
		if r.Chance(1, 12) {
			return r.Intn(c11NAddr) // possibly not a validator
		}
		return r.Intn(in.NVals)
	}
	pickFeeder := func(v int) int {
		switch r.Pick(10, 7, 2, 1, 1) {
		case 0:
			return v
		case 1:
			if curDel[v] >= 0 {
				return curDel[v]
			}
			return v
		case 2:
			if oldDel[v] >= 0 {
				return oldDel[v]
			}
			return v
		case 3:
			return r.Range(5, 7)
		}
		return r.Intn(5)
	}
	if nblocks > 20 {
		nblocks = 20
	}
	for v := 0; v < in.NVals; v++ {
		if r.Chance(1, 2) {
			d := r.Range(5, 7)
			in.Ops = append(in.Ops, c11Op{Kind: "delegate", H: h, Val: v, Delegate: d})
			curDel[v] = d
		}
	}
	for b := 0; b < nblocks; b++ {
		// the feeder routine of a price feeder: reveal last period's commitment, commit the next one
		for v := 0; v < in.NVals; v++ {
			if !r.Chance(3, 5) {
				continue
			}
			f := pickFeeder(v)
			if sh := shadow[v]; sh.has && (uint64(sh.h)/vp < uint64(h)/vp || r.Chance(1, 8)) && r.Chance(9, 10) {
				op := c11Op{Kind: "vote", H: h, Val: v, Feeder: f, Rates: sh.rates}.withSalt(sh.salt)
				again := false
				switch r.Pick(30, 2, 2, 1, 1, 7, 2) {
				case 1:
					op = op.withSalt(c11Salts[r.Intn(len(c11Salts))])
				case 2:
					if t := c11Respell(sh.rates); t != "" {
						op.Rates = t
					}
				case 3:
					op.Rates = c11Rates[r.Intn(len(c11Rates))]
				case 4:
					op.Rates = c11RatesOdd[r.Intn(len(c11RatesOdd))]
				case 5: // a non-identical byte variant of the committed salt; often followed by the exact reveal
					if t := c11SaltVariant(r, sh.salt); t != "" {
						op = op.withSalt(t)
						again = r.Chance(2, 3)
					}
				case 6:
					op.Rates = c11RatesBytes(r, sh.rates)
					again = r.Chance(1, 2)
				}
				in.Ops = append(in.Ops, op)
				if again {
					in.Ops = append(in.Ops, c11Op{Kind: "vote", H: h, Val: v, Feeder: f, Rates: sh.rates}.withSalt(sh.salt))
				}
			}
			if r.Chance(4, 5) {
				op := c11Op{Kind: "prevote", H: h, Val: v, Feeder: f, HashFor: v, HashMode: "honest",
					Rates: c11Rates[r.Intn(len(c11Rates))]}.withSalt(c11PickSalt(r))
				if r.Chance(1, 6) { // commit to the long (normalised) spelling
					op.Rates = c11Respell(op.Rates)
				}
				if r.Chance(1, 7) { // commit to a string that names one pair twice: the hash-exact reveal must be refused
					op.Rates = c11RatesDup(r)
				}
				if r.Chance(1, 12) {
					op.HashMode = "upper"
				}
				in.Ops = append(in.Ops, op)
				shadow[v] = c11Shadow{salt: op.salt(), rates: op.Rates, h: h, has: true}
			}
		}
		nm := r.Pick(5, 4, 3, 1)
		for i := 0; i < nm; i++ {
			switch r.Pick(20, 24, 10, 6, 3, 5, 3) {
			case 0: // prevote
				v := pickVal()
				op := c11Op{Kind: "prevote", H: h, Val: v, Feeder: pickFeeder(v), HashFor: v, HashMode: "honest",
					Rates: c11Rates[r.Intn(len(c11Rates))]}.withSalt(c11PickSalt(r))
				if r.Chance(1, 10) {
					op.Rates = c11RatesOdd[r.Intn(len(c11RatesOdd))]
				} else if r.Chance(1, 8) {
					op.Rates = c11RatesDup(r)
				}
				switch r.Pick(20, 2, 2, 2, 1) {
				case 1:
					op.HashMode = "upper"
				case 2:
					op.HashMode = "noval"
				case 3: // copy-cat: commit to the hash another validator would use
					op.HashFor = r.Intn(in.NVals)
				case 4:
					op.HashMode = "lit"
					op.Lit = []string{"zz", "abc", "00", "deadbeef", ""}[r.Intn(5)]
				}
				in.Ops = append(in.Ops, op)
				shadow[v] = c11Shadow{salt: op.salt(), rates: op.Rates, h: h, has: true}
			case 1: // vote
				v := pickVal()
				if r.Chance(3, 4) { // prefer a validator with an outstanding prevote
					for k := 0; k < 4 && !shadow[v].has; k++ {
						v = r.Intn(in.NVals)
					}
				}
				op := c11Op{Kind: "vote", H: h, Val: v, Feeder: pickFeeder(v)}
				sh := shadow[v]
				if !sh.has {
					sh = c11Shadow{salt: "1", rates: c11Rates[0]}
				}
				op.Rates = sh.rates
				op = op.withSalt(sh.salt)
				switch r.Pick(16, 2, 2, 1, 1, 4, 1) {
				case 5:
					if t := c11SaltVariant(r, sh.salt); t != "" {
						op = op.withSalt(t)
					}
				case 6:
					op.Rates = c11RatesBytes(r, sh.rates)
				case 1:
					op = op.withSalt(c11Salts[r.Intn(len(c11Salts))])
				case 2: // textually different, same tuples
					if t := c11Respell(sh.rates); t != "" {
						op.Rates = t
					}
				case 3:
					op.Rates = c11Rates[r.Intn(len(c11Rates))]
				case 4:
					op.Rates = c11RatesOdd[r.Intn(len(c11RatesOdd))]
				}
				in.Ops = append(in.Ops, op)
			case 2: // delegate
				v := pickVal()
				d := r.Range(4, 7)
				if r.Chance(1, 6) {
					d = r.Intn(c11NAddr)
				}
				in.Ops = append(in.Ops, c11Op{Kind: "delegate", H: h, Val: v, Delegate: d})
				if v < 5 {
					oldDel[v], curDel[v] = curDel[v], d
				}
			case 3: // edit params
				op := c11Op{Kind: "edit", H: h, Sudo: !r.Chance(1, 5)}
				switch r.Pick(6, 2, 2, 1) {
				case 3: // VotePeriod > SlashWindow: refused by Params.Validate
					op.VP = c11SlashWindow << uint(r.Range(1, 3))
				case 0:
					op.VP = vps[r.Intn(len(vps))]
					if op.Sudo {
						vp = op.VP
					}
				case 1:
					op.VP = 0
					op.WL = [][]string{{"ubtc:uusd"}, {"ubtc:uusd", "ueth:uusd", "ufoo:ubar"}, {"uatom:uusd", "ubtc:uusd", "ueth:uusd", "uusdc:uusd", "uusdt:uusd"}}[r.Intn(3)]
				case 2:
					op.VP = uint64(r.Range(1, 9))
					if op.Sudo {
						vp = op.VP
					}
					op.WL = []string{"ubtc:uusd", "ueth:uusd", "uatom:uusd", "ufoo:ubar"}
				}
				in.Ops = append(in.Ops, op)
			case 4:
				switch r.Pick(3, 4, 2) {
				case 0:
					in.Ops = append(in.Ops, c11Op{Kind: "jail", H: h, Val: r.Intn(in.NVals)})
				case 1: // shrink the active set (the app's genesis validator occupies a slot too)
					in.Ops = append(in.Ops, c11Op{Kind: "maxvals", H: h, N: uint32(r.Range(1, in.NVals))})
				case 2:
					in.Ops = append(in.Ops, c11Op{Kind: "undelegate", H: h, Val: r.Intn(in.NVals)})
				}
			case 5:
				switch r.Pick(3, 3, 3) {
				case 0:
					in.Ops = append(in.Ops, c11Op{Kind: "unjail", H: h, Val: r.Intn(in.NVals)})
				case 1:
					in.Ops = append(in.Ops, c11Op{Kind: "maxvals", H: h, N: 100})
				case 2:
					in.Ops = append(in.Ops, c11Op{Kind: "mature", H: h})
				}
			case 6:
				if r.Chance(1, 2) {
					in.Ops = append(in.Ops, c11Op{Kind: "create", H: h, Val: r.Range(in.NVals, 4)})
				} else {
					in.Ops = append(in.Ops, c11Op{Kind: "bad", H: h, Val: r.Intn(in.NVals), Feeder: r.Intn(c11NAddr), Bad: []string{"prevote", "vote", "delegate"}[r.Intn(3)]})
				}
			}
		}
		if !r.Chance(1, 40) { // a skipped EndBlocker does not happen on a chain; the model must still agree
			in.Ops = append(in.Ops, c11Op{Kind: "end", H: h})
		}
		h++
		if r.Chance(1, 30) {
			h += int64(r.Range(1, 3)) // a gap (no blocks in between): same remark
		}
	}
	return in
}

func c11Openers() []c11Input {
	R := c11Rates[0]
	pv := func(h int64, f, v int, salt, rates string) c11Op {
		return c11Op{Kind: "prevote", H: h, Feeder: f, Val: v, HashFor: v, HashMode: "honest", Rates: rates}.withSalt(salt)
	}
	vt := func(h int64, f, v int, salt, rates string) c11Op {
		return c11Op{Kind: "vote", H: h, Feeder: f, Val: v, Rates: rates}.withSalt(salt)
	}
	end := func(h int64) c11Op { return c11Op{Kind: "end", H: h} }
	return []c11Input{
		// the valid flow; a reveal in the same period, a replayed reveal, a textual variant, a stale prevote,
		// a reveal two periods late
		{VP0: 5, NVals: 3, Ops: []c11Op{
			pv(7, 0, 0, "1", R), pv(7, 1, 1, "1", R), pv(7, 2, 2, "ab", R), vt(8, 0, 0, "1", R), end(9),
			vt(10, 0, 0, "1", R), vt(10, 0, 0, "1", R), vt(11, 2, 2, "ab", "(ubtc:uusd,20000.50)"), vt(11, 2, 2, "ab", R),
			end(14), vt(15, 1, 1, "1", R), pv(16, 1, 1, "1", R), vt(27, 1, 1, "1", R)}},
		// feeder delegation changes hands; the former delegate is refused
		{VP0: 2, NVals: 3, Ops: []c11Op{
			{Kind: "delegate", H: 1, Val: 0, Delegate: 5}, pv(2, 5, 0, "1", R), {Kind: "delegate", H: 2, Val: 0, Delegate: 6},
			end(3), vt(4, 5, 0, "1", R), vt(4, 6, 0, "1", R), pv(4, 5, 0, "1", R), pv(4, 0, 0, "1", R), pv(4, 7, 0, "1", R)}},
		// every validator state: bonded, displaced from a full active set (Unbonding, not jailed), jailed,
		// Unbonded after the unbonding time, removed after a full self-undelegation; prevote and vote by the
		// validator and by its feeder in each
		{VP0: 1, NVals: 3, Ops: []c11Op{
			{Kind: "delegate", H: 2, Val: 0, Delegate: 5}, {Kind: "delegate", H: 2, Val: 1, Delegate: 6}, {Kind: "delegate", H: 2, Val: 2, Delegate: 7},
			pv(2, 5, 0, "1", R), pv(2, 1, 1, "1", R), pv(2, 7, 2, "1", R), end(2),
			vt(3, 5, 0, "1", R), vt(3, 6, 1, "1", R), vt(3, 2, 2, "1", R), pv(3, 0, 0, "1", R), pv(3, 6, 1, "1", R), pv(3, 2, 2, "1", R), end(3),
			{Kind: "maxvals", H: 4, N: 2},
			vt(4, 0, 0, "1", R), vt(4, 5, 0, "1", R), vt(4, 6, 1, "1", R), vt(4, 1, 1, "1", R), vt(4, 2, 2, "1", R), vt(4, 7, 2, "1", R),
			pv(4, 0, 0, "1", R), pv(4, 5, 0, "1", R), pv(4, 1, 1, "1", R), pv(4, 6, 1, "1", R), pv(4, 2, 2, "1", R), pv(4, 7, 2, "1", R), end(4),
			{Kind: "jail", H: 5, Val: 1}, {Kind: "undelegate", H: 5, Val: 2},
			vt(5, 0, 0, "1", R), vt(5, 5, 0, "1", R), vt(5, 1, 1, "1", R), vt(5, 6, 1, "1", R), vt(5, 2, 2, "1", R), vt(5, 7, 2, "1", R),
			pv(5, 0, 0, "1", R), pv(5, 5, 0, "1", R), pv(5, 1, 1, "1", R), pv(5, 6, 1, "1", R), pv(5, 2, 2, "1", R), pv(5, 7, 2, "1", R), end(5),
			{Kind: "mature", H: 6},
			vt(6, 0, 0, "1", R), vt(6, 5, 0, "1", R), vt(6, 6, 1, "1", R), vt(6, 7, 2, "1", R),
			pv(6, 0, 0, "1", R), pv(6, 5, 0, "1", R), pv(6, 1, 1, "1", R), pv(6, 6, 1, "1", R), pv(6, 2, 2, "1", R), pv(6, 7, 2, "1", R), end(6),
			{Kind: "maxvals", H: 7, N: 100}, {Kind: "unjail", H: 7, Val: 1},
			vt(7, 5, 0, "1", R), pv(7, 5, 0, "1", R), pv(7, 6, 1, "1", R), pv(7, 7, 2, "1", R), end(7),
			vt(8, 5, 0, "1", R), vt(8, 6, 1, "1", R)}},
		// byte-exact reveals: commitments over salts with / without surrounding white space, in another case, in
		// another Unicode normal form, with a NUL, not UTF-8; every reveal by a non-identical variant is refused,
		// then the byte-exact reveal is accepted; rate strings with a trailing newline / blank
		{VP0: 2, NVals: 3, Ops: []c11Op{
			pv(2, 0, 0, "ab", R), pv(2, 1, 1, "ab ", R), pv(3, 2, 2, " ", R), end(3),
			vt(4, 0, 0, "ab ", R), vt(4, 0, 0, " ab", R), vt(4, 0, 0, "ab\n", R), vt(4, 0, 0, "AB", R), vt(4, 0, 0, "ab", R+"\n"), vt(4, 0, 0, "ab", R),
			vt(4, 1, 1, "ab", R), vt(4, 1, 1, "ab\t", R), vt(4, 1, 1, "ab ", " "+R), vt(4, 1, 1, "ab ", R),
			vt(4, 2, 2, "", R), vt(4, 2, 2, "  ", R), vt(4, 2, 2, "\u00a0", R), vt(4, 2, 2, " ", R),
			pv(4, 0, 0, "\u00e9", R), pv(4, 1, 1, "a\x00", R), pv(5, 2, 2, "\xff\xc3", R), end(5),
			vt(6, 0, 0, "e\u0301", R), vt(6, 0, 0, "\u00c9", R), vt(6, 0, 0, "\u00e9", R),
			vt(6, 1, 1, "a", R), vt(6, 1, 1, "a\x00", R),
			vt(7, 2, 2, "\xff", R), vt(7, 2, 2, "\xff\xc3 ", R), vt(7, 2, 2, "\xff\xc3", R)}},
		// hash-exact reveals of strings that are not a valid vote: one pair named twice (abstain+priced, priced+abstain,
		// abstain+abstain, priced+priced, with another pair in between), a malformed tuple; all refused, the prevote stays
		// pending (a later valid commitment replaces it)
		{VP0: 2, NVals: 3, Ops: []c11Op{
			pv(2, 0, 0, "1", "(ubtc:uusd,0)|(ubtc:uusd,1700)"), pv(2, 1, 1, "1", "(ubtc:uusd,1700)|(ubtc:uusd,-1)"),
			pv(3, 2, 2, "1", "(ueth:uusd,0)|(ubtc:uusd,20000.5)|(ueth:uusd,0.0)"), end(3),
			vt(4, 0, 0, "1", "(ubtc:uusd,0)|(ubtc:uusd,1700)"), vt(4, 1, 1, "1", "(ubtc:uusd,1700)|(ubtc:uusd,-1)"),
			vt(5, 2, 2, "1", "(ueth:uusd,0)|(ubtc:uusd,20000.5)|(ueth:uusd,0.0)"),
			pv(5, 0, 0, "1", "(ubtc:uusd,1)|(ueth:uusd,5)|(ubtc:uusd,2)"), pv(5, 1, 1, "1", "(ubtc:uusd,0)|(ubtc:uusd)"), pv(5, 2, 2, "1", "(ubtc:uusd,0)|(ueth:uusd,1500)"), end(5),
			vt(6, 0, 0, "1", "(ubtc:uusd,1)|(ueth:uusd,5)|(ubtc:uusd,2)"), vt(6, 1, 1, "1", "(ubtc:uusd,0)|(ubtc:uusd)"), vt(6, 2, 2, "1", "(ubtc:uusd,0)|(ueth:uusd,1500)")}},
		// copy-cat commitment, unbonded validator, VotePeriod edit between prevote and vote
		{VP0: 5, NVals: 3, Ops: []c11Op{
			pv(7, 0, 0, "1", R), {Kind: "prevote", H: 7, Feeder: 1, Val: 1, HashFor: 0, HashMode: "honest", Salt: "1", Rates: R},
			pv(7, 2, 2, "1", R), {Kind: "edit", H: 7, Sudo: true, VP: 2}, end(7),
			vt(8, 0, 0, "1", R), vt(8, 1, 1, "1", R), {Kind: "jail", H: 8, Val: 2}, vt(8, 2, 2, "1", R),
			{Kind: "unjail", H: 9, Val: 2}, vt(9, 2, 2, "1", R)}},
	}
}

func TestC11(t *testing.T) {
	cfg := LoadCfg(t, 260, 4000)
	em := NewEmitter(t, cfg.Out)
	defer em.Close()
	run := func(in c11Input) {
		if in.VP0 == 0 {
			in.VP0 = 1
		}
		if in.NVals < 1 {
			in.NVals = 1
		}
		w := newC11World(t, in)
		init := c11Obs{}
		w.snapshot(w.ctx, &init)
		obs := make([]c11Obs, 0, len(in.Ops))
		for _, op := range in.Ops {
			obs = append(obs, w.apply(op))
		}
		em.Emit(in, map[string]interface{}{"init": init, "steps": obs}, nil)
	}
	if cfg.Replay != "" {
		for _, raw := range cfg.ReplayInputs(t) {
			var in c11Input
			if err := json.Unmarshal(raw, &in); err != nil {
				t.Fatal(err)
			}
			if in.Mode == "tx" {
				continue // TestC11Tx replays it
			}
			run(in)
		}
		return
	}
	for _, in := range c11Openers() {
		run(in)
	}
	rng := NewRng(cfg.Seed)
	for i := 0; i < cfg.N; i++ {
		run(genC11Case(rng.Fork()))
	}
}
