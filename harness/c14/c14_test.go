package c14

// C14 — epochs tick once per elapsed duration with hooks in order.
//
// A case is a list of ops run against the real x/epochs code with two recording
// EpochHooks registered around the application's own hooks
// (MultiEpochHooks{rec0, inflation, oracle, rec1}):
//
//	block  epochs.BeginBlocker under a context with block time t / height h
//	       (mode "direct": any t, also equal and decreasing; mode "abci": the whole
//	       application BeginBlock/EndBlock/Commit with header time t)
//	add    keeper.AddEpochInfo under a context with time t / height h
//	init   module (re-)initialisation under a context with time t / height h, at ANY point of the case — on the empty
//	       store (chain start) or on a live store with running epochs:
//	       via "fn"      epochs.InitGenesis(ctx, keeper, genesis state)                    (its error is observed)
//	       via "module"  the registered AppModule's InitGenesis(ctx, cdc, JSON)            (discards the error)
//	       via "migrate" ModuleManager.RunMigrations with a version map WITHOUT x/epochs — what an upgrade handler
//	                     does; the SDK then calls AppModule.InitGenesis with the module's DefaultGenesis
//
// Observables after each op: success, every EpochInfo in store iteration order and
// the recorders' call log (recorder, kind, identifier, epoch number).
// Times are nanoseconds since the Unix epoch (null = Go's zero time.Time{}).

import (
	"encoding/json"
	"math/big"
	"testing"
	"time"

	"github.com/NibiruChain/collections"
	tmproto "github.com/cometbft/cometbft/proto/tendermint/types"
	sdk "github.com/cosmos/cosmos-sdk/types"
	"github.com/cosmos/cosmos-sdk/types/module"

	. "verifharness/hx"

	"github.com/NibiruChain/nibiru/v2/app"
	"github.com/NibiruChain/nibiru/v2/x/common/testutil/testapp"
	"github.com/NibiruChain/nibiru/v2/x/epochs"
	epochstypes "github.com/NibiruChain/nibiru/v2/x/epochs/types"
)

type c14Op struct {
	Op string `json:"op"` // block | add | init
	T  int64  `json:"t"`  // context block time, ns since Unix epoch
	H  int64  `json:"h"`  // context block height (mode abci: informative, the chain decides)
	// add only
	Ident    string `json:"ident,omitempty"`
	Start    *int64 `json:"start"` // nil = zero time
	Dur      int64  `json:"dur,omitempty"`
	Cur      uint64 `json:"cur,omitempty"`
	CurStart *int64 `json:"cur_start"` // nil = zero time
	Height   int64  `json:"height,omitempty"`
	Started  bool   `json:"started,omitempty"`
	// init only
	Via string  `json:"via,omitempty"` // fn | module | migrate
	Gen []c14Op `json:"gen,omitempty"` // the genesis state's epochs, in order (via migrate: the module's DefaultGenesis is used)
}

// c14Fail makes the failing receiver panic when it is handed this call, the first Times times.
type c14Fail struct {
	Ident string `json:"ident"`
	N     uint64 `json:"n"`
	Kind  string `json:"kind"` // end | start
	Times int    `json:"times"`
}

type c14Input struct {
	Fail    *c14Fail `json:"fail"`    // direct mode only
	Mode    string   `json:"mode"`    // direct | abci
	Genesis []c14Op  `json:"genesis"` // abci: epoch definitions placed in the genesis file
	Ops     []c14Op  `json:"ops"`
}

type c14Info struct {
	Key      string   `json:"key"` // the store key the info was found under
	Ident    string   `json:"ident"`
	Start    *big.Int `json:"start"`
	Dur      int64    `json:"dur"`
	Cur      uint64   `json:"cur"`
	CurStart *big.Int `json:"cur_start"`
	Height   int64    `json:"height"`
	Started  bool     `json:"started"`
}

type c14Call struct {
	Rec   int    `json:"rec"`
	Kind  string `json:"kind"` // end | start
	Ident string `json:"ident"`
	N     uint64 `json:"n"`
}

type c14OpObs struct {
	Skip  bool      `json:"skip,omitempty"` // op not executed (abci: add outside a block)
	OK    bool      `json:"ok"`
	T     *big.Int  `json:"t"` // context time / height actually used
	H     int64     `json:"h"`
	Infos []c14Info `json:"infos"`
	Log   []c14Call `json:"log"`
	Gen   []c14Op   `json:"gen,omitempty"` // init via migrate: the genesis state the module was initialised with
}

type c14Obs struct {
	K    int        `json:"k"`
	Init []c14Info  `json:"init"`
	Ops  []c14OpObs `json:"ops"`
}

func nsOf(t time.Time) *big.Int {
	x := new(big.Int).Mul(big.NewInt(t.Unix()), big.NewInt(1_000_000_000))
	return x.Add(x, big.NewInt(int64(t.Nanosecond())))
}

func timeOf(p *int64) time.Time {
	if p == nil {
		return time.Time{}
	}
	return time.Unix(0, *p).UTC()
}

type recorder struct {
	idx int
	log *[]c14Call
}

func (r recorder) AfterEpochEnd(_ sdk.Context, id string, n uint64) {
	*r.log = append(*r.log, c14Call{Rec: r.idx, Kind: "end", Ident: id, N: n})
}

func (r recorder) BeforeEpochStart(_ sdk.Context, id string, n uint64) {
	*r.log = append(*r.log, c14Call{Rec: r.idx, Kind: "start", Ident: id, N: n})
}

// failer is receiver 1: it records the call like the others and then panics if the call is the chosen one.
type failer struct {
	log  *[]c14Call
	fail **c14Fail
}

func (f failer) hit(kind, id string, n uint64) {
	*f.log = append(*f.log, c14Call{Rec: 1, Kind: kind, Ident: id, N: n})
	if p := *f.fail; p != nil && p.Times > 0 && p.Kind == kind && p.Ident == id && p.N == n {
		p.Times--
		panic("c14: failing epoch hook")
	}
}

func (f failer) AfterEpochEnd(_ sdk.Context, id string, n uint64)    { f.hit("end", id, n) }
func (f failer) BeforeEpochStart(_ sdk.Context, id string, n uint64) { f.hit("start", id, n) }

const c14Receivers = 3

// receivers: recorder 0, the failing receiver 1, the application's own hooks, recorder 2
func installRecorders(a *app.NibiruApp, log *[]c14Call, fail **c14Fail) {
	a.EpochsKeeper.SetHooks(epochstypes.NewMultiEpochHooks(
		recorder{0, log}, failer{log, fail}, a.InflationKeeper.Hooks(), a.OracleKeeper.Hooks(), recorder{2, log},
	))
}

func infosOf(a *app.NibiruApp, ctx sdk.Context) []c14Info {
	out := []c14Info{}
	for _, kv := range a.EpochsKeeper.Epochs.Iterate(ctx, collections.Range[string]{}).KeyValues() {
		e := kv.Value
		out = append(out, c14Info{
			Key: kv.Key, Ident: e.Identifier, Start: nsOf(e.StartTime), Dur: int64(e.Duration), Cur: e.CurrentEpoch,
			CurStart: nsOf(e.CurrentEpochStartTime), Height: e.CurrentEpochStartHeight, Started: e.EpochCountingStarted,
		})
	}
	return out
}

func infoOfOp(op c14Op) epochstypes.EpochInfo {
	return epochstypes.EpochInfo{
		Identifier: op.Ident, StartTime: timeOf(op.Start), Duration: time.Duration(op.Dur), CurrentEpoch: op.Cur,
		CurrentEpochStartTime: timeOf(op.CurStart), CurrentEpochStartHeight: op.Height, EpochCountingStarted: op.Started,
	}
}

func opOfInfo(e epochstypes.EpochInfo) c14Op {
	op := c14Op{Op: "add", Ident: e.Identifier, Dur: int64(e.Duration), Cur: e.CurrentEpoch, Height: e.CurrentEpochStartHeight,
		Started: e.EpochCountingStarted}
	if !e.StartTime.IsZero() {
		op.Start = p64(e.StartTime.UnixNano())
	}
	if !e.CurrentEpochStartTime.IsZero() {
		op.CurStart = p64(e.CurrentEpochStartTime.UnixNano())
	}
	return op
}

// runInit executes one init op; ok = what the caller of that entry point gets to see.
func runInit(a *app.NibiruApp, ctx sdk.Context, op c14Op, o *c14OpObs) {
	gs := epochstypes.GenesisState{}
	for _, g := range op.Gen {
		gs.Epochs = append(gs.Epochs, infoOfOp(g))
	}
	switch op.Via {
	case "fn":
		o.OK = epochs.InitGenesis(ctx, *a.EpochsKeeper, gs) == nil
	case "module":
		cdc := app.MakeEncodingConfig().Codec
		mod := a.ModuleManager.Modules[epochstypes.ModuleName].(module.HasGenesis)
		mod.InitGenesis(ctx, cdc, cdc.MustMarshalJSON(&gs))
		o.OK = true
	case "migrate":
		for _, e := range epochstypes.DefaultGenesis().Epochs {
			o.Gen = append(o.Gen, opOfInfo(e))
		}
		fromVM := a.ModuleManager.GetVersionMap()
		delete(fromVM, epochstypes.ModuleName)
		_, err := a.ModuleManager.RunMigrations(ctx, a.Configurator(), fromVM)
		o.OK = err == nil
	}
}

type c14World struct {
	app  *app.NibiruApp
	ctx  sdk.Context
	log  []c14Call
	fail *c14Fail
}

var direct *c14World

func runDirect(t *testing.T, in c14Input) c14Obs {
	if direct == nil {
		a, ctx := testapp.NewNibiruTestAppAndContext()
		direct = &c14World{app: a, ctx: ctx}
		installRecorders(a, &direct.log, &direct.fail)
	}
	w := direct
	w.fail = nil
	if in.Fail != nil {
		f := *in.Fail
		w.fail = &f
	}
	ctx, _ := w.ctx.CacheContext() // every case on its own branch of the store
	for _, e := range w.app.EpochsKeeper.AllEpochInfos(ctx) {
		if err := w.app.EpochsKeeper.DeleteEpochInfo(ctx, e.Identifier); err != nil {
			t.Fatal(err)
		}
	}
	obs := c14Obs{K: c14Receivers, Init: infosOf(w.app, ctx), Ops: []c14OpObs{}}
	for _, op := range in.Ops {
		w.log = w.log[:0]
		octx := ctx.WithBlockHeader(tmproto.Header{Height: op.H, Time: time.Unix(0, op.T).UTC()})
		o := c14OpObs{OK: true, T: big.NewInt(op.T), H: op.H}
		switch op.Op {
		case "block":
			// as the chain does: the block's writes (and what the hooks did) are committed only if BeginBlocker
			// returns; a panic that leaves it discards the branch
			bctx, write := octx.CacheContext()
			if p := Recover(func() { epochs.BeginBlocker(bctx, *w.app.EpochsKeeper) }); p != "" {
				o.OK = false
				w.log = w.log[:0]
			} else {
				write()
			}
		case "add":
			o.OK = w.app.EpochsKeeper.AddEpochInfo(octx, infoOfOp(op)) == nil
		case "init":
			runInit(w.app, octx, op, &o)
		}
		o.Infos = infosOf(w.app, ctx)
		o.Log = append([]c14Call{}, w.log...)
		obs.Ops = append(obs.Ops, o)
	}
	return obs
}

func runABCI(t *testing.T, in c14Input) c14Obs {
	enc := app.MakeEncodingConfig()
	gen := epochstypes.GenesisState{}
	for _, g := range in.Genesis {
		gen.Epochs = append(gen.Epochs, infoOfOp(g))
	}
	c := NewChain(app.GenesisState{epochstypes.ModuleName: enc.Codec.MustMarshalJSON(&gen)})
	var log []c14Call
	var nofail *c14Fail
	installRecorders(c.App, &log, &nofail)
	obs := c14Obs{K: c14Receivers, Ops: []c14OpObs{}}
	first := true
	for _, op := range in.Ops {
		log = log[:0]
		o := c14OpObs{OK: true}
		switch op.Op {
		case "block":
			if c.InBlock {
				c.EndBlock()
			}
			if first {
				// state before the first block, read from the committed store
				obs.Init = infosOf(c.App, c.App.NewContext(true, tmproto.Header{}))
				first = false
			}
			c.BeginBlock(time.Unix(0, op.T).UTC().Sub(c.Time))
			o.T, o.H = nsOf(c.Header.Time), c.Header.Height
		case "add":
			if !c.InBlock { // an add needs an open block (its context)
				obs.Ops = append(obs.Ops, c14OpObs{Skip: true})
				continue
			}
			o.T, o.H = nsOf(c.Header.Time), c.Header.Height
			o.OK = c.App.EpochsKeeper.AddEpochInfo(c.Ctx(), infoOfOp(op)) == nil
		case "init":
			if !c.InBlock {
				obs.Ops = append(obs.Ops, c14OpObs{Skip: true})
				continue
			}
			o.T, o.H = nsOf(c.Header.Time), c.Header.Height
			runInit(c.App, c.Ctx(), op, &o)
		}
		o.Infos = infosOf(c.App, c.Ctx())
		o.Log = append([]c14Call{}, log...)
		obs.Ops = append(obs.Ops, o)
	}
	if c.InBlock {
		c.EndBlock()
	}
	if first {
		obs.Init = infosOf(c.App, c.App.NewContext(true, tmproto.Header{}))
	}
	return obs
}

// ---------------------------------------------------------------- generation

// identifiers are arbitrary non-empty strings: plain ones, padded / differently cased / unicode variants of one another,
// whitespace-only ones, prefixes of one another
var c14Idents = []string{"day", "week", "month", "30 min", "15 min", "hour", "a", "b0", "zz", "E1", "~x",
	" day", "day ", " day ", "day\t", "Day", "DAY", "da", "dày", "日", " ", "  ", "a ", "a b", "week\n", "WEEK", "30  min", "\u00a0day"}

const (
	nsSec = int64(1_000_000_000)
	t0    = int64(1_700_000_000) * nsSec
)

var c14Durs = []int64{1, 7, 1000, nsSec, 7 * nsSec, 60 * nsSec, 1800 * nsSec, 86400 * nsSec, 7 * 86400 * nsSec}

func p64(x int64) *int64 { return &x }

// genAdd makes an epoch definition to be added at context time now.
func genAdd(r *Rng, now int64, malformed bool, used []string) c14Op {
	op := c14Op{Op: "add", Ident: c14Idents[r.Intn(len(c14Idents))]}
	op.Dur = c14Durs[r.Intn(len(c14Durs))]
	switch r.Pick(3, 3, 2, 3) {
	case 0: // zero start time => the context's block time
	case 1:
		op.Start = p64(now - int64(r.Intn(4))*op.Dur - int64(r.Intn(3)))
	case 2:
		op.Start = p64(now)
	case 3: // in the future
		op.Start = p64(now + int64(r.Range(1, 4))*op.Dur/2 + int64(r.Intn(2)))
	}
	if r.Chance(1, 2) {
		op.CurStart = p64(now - int64(r.Intn(3))*op.Dur) // ignored by the code while not started
	}
	if r.Chance(1, 6) { // re-import of an exported, running epoch (well formed)
		st := now - int64(r.Intn(3))*op.Dur - int64(r.Intn(5))
		op.Start = p64(st - int64(r.Intn(3))*op.Dur)
		op.CurStart = p64(st)
		op.Started = true
		op.Cur = uint64(r.Range(1, 40))
		if r.Chance(1, 3) { // counting has started but the identifier still sits in epoch 0 (Validate accepts it): its next
			op.Cur = 0 // advance 0 -> 1 is an ordinary one — AfterEpochEnd(id, 0), then BeforeEpochStart(id, 1)
		}
		op.Height = int64(r.Intn(50))
	}
	if malformed {
		switch r.Pick(2, 2, 1, 2, 2, 2, 1) {
		case 0:
			op.Dur = 0
		case 1:
			op.Dur = -op.Dur
		case 2:
			op.Ident = ""
		case 3:
			if len(used) > 0 {
				op.Ident = used[r.Intn(len(used))]
			}
		case 4: // not started but a non-zero epoch number
			op.Started, op.Cur = false, uint64(r.Range(1, 9))
		case 5: // started with a start time after the current epoch's start
			op.Started, op.Cur = true, uint64(r.Range(0, 9))
			op.Start = p64(now + op.Dur*int64(r.Range(1, 3)))
			op.CurStart = p64(now - int64(r.Intn(3))*op.Dur)
		case 6:
			op.Height = -int64(r.Range(1, 5))
		}
	}
	return op
}

// the module's DefaultGenesis, as the generator sees it (identifier, duration) — only used to choose block steps and
// failing calls; the driver reads the real one
var c14Default = []c14Op{{Ident: "30 min", Dur: 1800 * nsSec}, {Ident: "day", Dur: 86400 * nsSec},
	{Ident: "week", Dur: 7 * 86400 * nsSec}, {Ident: "month", Dur: 30 * 86400 * nsSec}}

// genInit makes a module (re-)initialisation at context time now: the genesis state is the default one (via migrate),
// a replay of the case's opening definitions, or an arbitrary one mixing stored identifiers, new ones, duplicates and
// invalid definitions, in any order.
func genInit(r *Rng, now int64, malformed bool, used []string, opening []c14Op) c14Op {
	op := c14Op{Op: "init", Via: []string{"fn", "module", "migrate"}[r.Pick(3, 4, 4)]}
	if op.Via == "migrate" {
		return op
	}
	switch {
	case len(opening) > 0 && r.Chance(1, 3): // the genesis state the chain was started with, again
		for _, g := range opening {
			g.Op, g.T, g.H = "add", 0, 0
			op.Gen = append(op.Gen, g)
		}
	default:
		n := r.Range(1, 4)
		for i := 0; i < n; i++ {
			g := genAdd(r, now, malformed && r.Chance(1, 4), used)
			if len(used) > 0 && r.Chance(1, 2) { // an identifier that is stored (and may be running)
				g.Ident = used[r.Intn(len(used))]
			}
			op.Gen = append(op.Gen, g)
		}
		if len(op.Gen) > 1 && r.Chance(1, 6) { // the same identifier twice: GenesisState.Validate refuses the whole state
			op.Gen[len(op.Gen)-1].Ident = op.Gen[0].Ident
		}
	}
	if r.Chance(1, 8) {
		op.Gen = nil // empty genesis state
	}
	return op
}

func genC14Case(r *Rng) c14Input {
	in := c14Input{Mode: "direct"}
	if r.Chance(1, 8) {
		in.Mode = "abci"
	}
	malformedCase := r.Chance(1, 5)
	now, h := t0+int64(r.Intn(3))*nsSec, int64(r.Range(1, 5))
	var used []string
	var durs []int64
	noteAdd := func(op c14Op) {
		if op.Ident != "" {
			used = append(used, op.Ident)
		}
		if op.Dur > 0 {
			durs = append(durs, op.Dur)
		}
	}
	noteInit := func(op c14Op) {
		gen := op.Gen
		if op.Via == "migrate" {
			gen = c14Default[:2] // week / month rarely matter for the block steps
			used = append(used, "week", "month")
		}
		for _, g := range gen {
			noteAdd(g)
		}
	}
	var opening []c14Op
	nAdd := r.Range(1, 5)
	// chain start through InitGenesis (direct mode): the opening definitions arrive as ONE genesis state, or as the
	// module's default genesis via RunMigrations
	openInit := in.Mode == "direct" && r.Chance(2, 5)
	if openInit && r.Chance(1, 2) {
		op := c14Op{Op: "init", Via: "migrate", T: now, H: h}
		noteInit(op)
		in.Ops = append(in.Ops, op)
		nAdd = r.Intn(2)
	}
	for i := 0; i < nAdd; i++ {
		op := genAdd(r, now, malformedCase && r.Chance(1, 3), used)
		op.T, op.H = now, h
		noteAdd(op)
		if openInit {
			opening = append(opening, op)
			continue
		}
		if in.Mode == "abci" {
			if op.Ident == "" || op.Dur == 0 || op.Height < 0 { // genesis validation would abort InitChain
				op.Ident, op.Dur, op.Height = "g"+string(rune('0'+i)), 60*nsSec, 0
			}
			dup := false
			for _, g := range in.Genesis {
				dup = dup || g.Ident == op.Ident
			}
			if !dup {
				in.Genesis = append(in.Genesis, op)
			}
		} else {
			in.Ops = append(in.Ops, op)
		}
	}
	if len(opening) > 0 {
		in.Ops = append(in.Ops, c14Op{Op: "init", Via: []string{"fn", "module"}[r.Intn(2)], T: now, H: h, Gen: opening})
	}
	if in.Mode == "abci" {
		h = 0
	}
	reinit := r.Chance(2, 5) // this case re-initialises the module in the middle of the chain
	n := r.Range(6, 22)
	decreasing := in.Mode == "direct" && r.Chance(1, 10)
	for i := 0; i < n; i++ {
		if i > 0 && r.Chance(1, 9) {
			op := genAdd(r, now, malformedCase && r.Chance(1, 2), used)
			op.T, op.H = now, h
			noteAdd(op)
			in.Ops = append(in.Ops, op)
			continue
		}
		if i > 1 && reinit && r.Chance(1, 5) {
			// as an upgrade does: in the block that comes next, before its BeginBlocker (direct mode: same time and
			// height as the following block op when the step drawn below is 0)
			op := genInit(r, now, malformedCase && r.Chance(1, 2), used, opening)
			op.T, op.H = now, h
			noteInit(op)
			in.Ops = append(in.Ops, op)
			continue
		}
		d := nsSec
		if len(durs) > 0 {
			d = durs[r.Intn(len(durs))]
		}
		var step int64
		switch r.Pick(2, 1, 3, 2, 5, 2, 3, 2, 2) {
		case 0:
			step = 0 // equal consecutive times
		case 1:
			step = 1
		case 2:
			step = d / 2
		case 3:
			step = d - 1
		case 4:
			step = d // lands exactly on start + duration when the previous block ticked
		case 5:
			step = d + 1
		case 6:
			step = 2 * d
		case 7:
			step = int64(r.Range(3, 9))*d + d/3
		case 8:
			step = d / 3
		}
		if decreasing && r.Chance(1, 4) {
			step = -step - int64(r.Intn(2))
		}
		now += step
		if in.Mode == "direct" && r.Chance(1, 10) {
			h += int64(r.Range(2, 30))
		} else {
			h++
		}
		in.Ops = append(in.Ops, c14Op{Op: "block", T: now, H: h})
	}
	if in.Mode == "direct" && len(used) > 0 && r.Chance(1, 3) {
		kind := "end"
		if r.Chance(1, 3) {
			kind = "start"
		}
		in.Fail = &c14Fail{Ident: used[r.Intn(len(used))], N: uint64(r.Range(1, 4)), Kind: kind, Times: r.Range(1, 2)}
	}
	return in
}

func TestC14(t *testing.T) {
	cfg := LoadCfg(t, 260, 3000)
	em := NewEmitter(t, cfg.Out)
	defer em.Close()
	run := func(in c14Input) {
		var obs c14Obs
		if in.Mode == "abci" {
			obs = runABCI(t, in)
		} else {
			obs = runDirect(t, in)
		}
		em.Emit(in, obs, nil)
	}
	if cfg.Replay != "" {
		for _, raw := range cfg.ReplayInputs(t) {
			var in c14Input
			if err := json.Unmarshal(raw, &in); err != nil {
				t.Fatal(err)
			}
			run(in)
		}
		return
	}
	// fixed openers: boundary (time == start + duration), equal times, long stall, future start
	day := 86400 * nsSec
	run(c14Input{Mode: "direct", Ops: []c14Op{
		{Op: "add", T: t0, H: 1, Ident: "day", Dur: day},
		{Op: "block", T: t0, H: 2}, {Op: "block", T: t0, H: 3}, {Op: "block", T: t0 + day - 1, H: 4},
		{Op: "block", T: t0 + day, H: 5}, {Op: "block", T: t0 + day, H: 6}, {Op: "block", T: t0 + 9*day + 5, H: 7},
		{Op: "block", T: t0 + 10*day + 4, H: 8}, {Op: "block", T: t0 + 10*day + 5, H: 9},
	}})
	run(c14Input{Mode: "direct", Ops: []c14Op{
		{Op: "add", T: t0, H: 1, Ident: "week", Dur: 7 * day, Start: p64(t0 + 3*day)},
		{Op: "add", T: t0, H: 1, Ident: "15 min", Dur: 900 * nsSec, Start: p64(t0 - day)},
		{Op: "block", T: t0 + day, H: 2}, {Op: "block", T: t0 + 3*day - 1, H: 3}, {Op: "block", T: t0 + 3*day, H: 4},
		{Op: "add", T: t0 + 3*day, H: 4, Ident: "a", Dur: 5},
		{Op: "block", T: t0 + 3*day + 5, H: 5}, {Op: "block", T: t0 + 3*day + 10, H: 6}, {Op: "block", T: t0 + 10*day, H: 7},
	}})
	run(c14Input{Mode: "abci", Genesis: []c14Op{
		{Op: "add", Ident: "day", Dur: day, Start: p64(t0)}, {Op: "add", Ident: "hour", Dur: 3600 * nsSec},
	}, Ops: []c14Op{
		{Op: "block", T: t0 - 5}, {Op: "block", T: t0}, {Op: "block", T: t0 + 3600*nsSec}, {Op: "block", T: t0 + day},
		{Op: "add", Ident: "zz", Dur: 10 * nsSec}, {Op: "block", T: t0 + day + 10*nsSec}, {Op: "block", T: t0 + 2*day},
	}})
	// a receiver panics on AfterEpochEnd("day", 2), twice: those blocks must commit nothing
	run(c14Input{Mode: "direct", Fail: &c14Fail{Ident: "day", N: 2, Kind: "end", Times: 2}, Ops: []c14Op{
		{Op: "add", T: t0, H: 1, Ident: "day", Dur: day}, {Op: "add", T: t0, H: 1, Ident: "hour", Dur: 3600 * nsSec},
		{Op: "block", T: t0, H: 2}, {Op: "block", T: t0 + day, H: 3}, {Op: "block", T: t0 + 2*day, H: 4},
		{Op: "block", T: t0 + 2*day + 1, H: 5}, {Op: "block", T: t0 + 2*day + 2, H: 6}, {Op: "block", T: t0 + 3*day + 2, H: 7},
	}})
	// module re-initialisation in the middle of the chain.  (1) the chain starts with the module's default genesis, runs
	// for a few days, then an upgrade's RunMigrations (version map without x/epochs) re-runs InitGenesis with the default
	// genesis in the block whose BeginBlocker follows; (2) InitGenesis with a genesis state that brings a new identifier
	// first and stored ones after it, then one that repeats an identifier, through the function and through the module
	hour := 3600 * nsSec
	run(c14Input{Mode: "direct", Ops: []c14Op{
		{Op: "init", Via: "migrate", T: t0, H: 1},
		{Op: "block", T: t0, H: 1}, {Op: "block", T: t0 + day, H: 2}, {Op: "block", T: t0 + 2*day, H: 3}, {Op: "block", T: t0 + 3*day, H: 4},
		{Op: "init", Via: "migrate", T: t0 + 3*day + hour, H: 5}, {Op: "block", T: t0 + 3*day + hour, H: 5},
		{Op: "block", T: t0 + 4*day, H: 6}, {Op: "block", T: t0 + 7*day, H: 7},
	}})
	run(c14Input{Mode: "direct", Ops: []c14Op{
		{Op: "init", Via: "module", T: t0, H: 1, Gen: []c14Op{{Op: "add", Ident: "day", Dur: day}, {Op: "add", Ident: "hour", Dur: hour, Start: p64(t0 + hour)}}},
		{Op: "block", T: t0, H: 2}, {Op: "block", T: t0 + hour, H: 3}, {Op: "block", T: t0 + 2*hour, H: 4},
		{Op: "init", Via: "fn", T: t0 + 2*hour, H: 5, Gen: []c14Op{{Op: "add", Ident: "a", Dur: 5}, {Op: "add", Ident: "hour", Dur: 7}, {Op: "add", Ident: "zz", Dur: 9}}},
		{Op: "block", T: t0 + 2*hour + 5, H: 5}, {Op: "block", T: t0 + 3*hour, H: 6},
		{Op: "init", Via: "module", T: t0 + 3*hour, H: 7, Gen: []c14Op{{Op: "add", Ident: "b0", Dur: 5}, {Op: "add", Ident: "day", Dur: hour}, {Op: "add", Ident: "b0", Dur: 6}}},
		{Op: "init", Via: "module", T: t0 + 3*hour, H: 7, Gen: []c14Op{{Op: "add", Ident: "day", Dur: hour}, {Op: "add", Ident: "hour", Dur: 1, Started: true, Cur: 1, Start: p64(t0), CurStart: p64(t0)}}},
		{Op: "block", T: t0 + day, H: 8}, {Op: "block", T: t0 + day + hour, H: 9},
	}})
	run(c14Input{Mode: "abci", Genesis: []c14Op{
		{Op: "add", Ident: "day", Dur: day, Start: p64(t0)}, {Op: "add", Ident: "30 min", Dur: 1800 * nsSec},
	}, Ops: []c14Op{
		{Op: "block", T: t0}, {Op: "block", T: t0 + hour}, {Op: "block", T: t0 + day}, {Op: "init", Via: "migrate"},
		{Op: "block", T: t0 + day + hour}, {Op: "block", T: t0 + 2*day}, {Op: "block", T: t0 + 9*day},
	}})
	// definitions whose counting has started at epoch 0 (added directly and through a genesis state): the advance 0 -> 1
	// must deliver AfterEpochEnd(id, 0) to every receiver behind the MultiEpochHooks, then BeforeEpochStart(id, 1)
	run(c14Input{Mode: "direct", Ops: []c14Op{
		{Op: "add", T: t0, H: 1, Ident: "day", Dur: day, Started: true, Cur: 0, Start: p64(t0 - hour), CurStart: p64(t0 - hour), Height: 0},
		{Op: "init", Via: "module", T: t0, H: 1, Gen: []c14Op{{Op: "add", Ident: "hour", Dur: hour, Started: true, Cur: 0, Start: p64(t0), CurStart: p64(t0)}}},
		{Op: "block", T: t0, H: 2}, {Op: "block", T: t0 + hour - 1, H: 3}, {Op: "block", T: t0 + hour, H: 4},
		{Op: "block", T: t0 + 2*hour, H: 5}, {Op: "block", T: t0 + day - hour, H: 6}, {Op: "block", T: t0 + 2*day, H: 7},
	}})
	run(c14Input{Mode: "abci", Genesis: []c14Op{
		{Op: "add", Ident: "week", Dur: hour, Started: true, Cur: 0, Start: p64(t0 - day), CurStart: p64(t0 - day)},
		{Op: "add", Ident: "day", Dur: day, Start: p64(t0)},
	}, Ops: []c14Op{{Op: "block", T: t0}, {Op: "block", T: t0 + hour}, {Op: "block", T: t0 + day}}})
	rng := NewRng(cfg.Seed)
	for i := 0; i < cfg.N; i++ {
		run(genC14Case(rng.Fork()))
	}
}
