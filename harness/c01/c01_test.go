package c01

// C01 — replicated execution is deterministic across all modules.
//
// Drivers (all append to one trace; every record's input carries its type in "t"):
//
//	diff   replica differential: N=3 NibiruApp instances are initialised from ONE genesis (fixed time,
//	       keys derived from fixed secrets) and fed the same generated block history through the real
//	       BeginBlock / DeliverTx / EndBlock / Commit.  After every block the app hash, every
//	       ResponseDeliverTx{Code,Data,GasWanted,GasUsed} and the EndBlock validator updates are reduced to
//	       one digest per replica; digests get small ids in first-appearance order (equal ids iff equal
//	       bytes) — the absolute values never leave the harness.  On a difference the module stores whose
//	       raw key/value content differs are named.
//	sudo   sub-model: EditSudoers histories on the real msg server; stored Sudoers.Contracts read back as
//	       order-preserving ids.
//	omap   sub-model: BuildFrom/Set/Delete/Union on the real omap.SortedMap; Keys() after every op.
//	skeys  sub-model: statedb.Storage.SortedKeys.
//	abi    the method selectors of the three precompile ABIs (+ lookups by id).
//	tw     ValidatorPerformances.TotalRewardWeight.
//	range  sub-model: `for k := range om.Range()` on the real omap.SortedMap consumed under several WALL CLOCKS (no delay,
//	       short delays, one long stall between two receives); the keys each consumer received.
//
// Since round 6 part of the diff histories additionally run on a SLOW replica (field "lag"): same genesis, same blocks, but
// wall-clock delays are injected at its store operations — short ones everywhere (store tracer of the whole multistore as
// yield points), long stalls at store operations of BeginBlock / EndBlock that happen while a goroutine started by the
// application is alive (a stall can only change an outcome if something else runs, or a timer is pending, meanwhile).

import (
	"bytes"
	"crypto/sha256"
	"encoding/binary"
	"encoding/hex"
	"encoding/json"
	"fmt"
	"math/big"
	"math/rand"
	"os"
	"os/exec"
	"runtime"
	"sort"
	"testing"
	"time"

	sdkmath "cosmossdk.io/math"
	wasmkeeper "github.com/CosmWasm/wasmd/x/wasm/keeper"
	wasmtypes "github.com/CosmWasm/wasmd/x/wasm/types"
	tmdb "github.com/cometbft/cometbft-db"
	abci "github.com/cometbft/cometbft/abci/types"
	"github.com/cometbft/cometbft/libs/log"
	codectypes "github.com/cosmos/cosmos-sdk/codec/types"
	"github.com/cosmos/cosmos-sdk/crypto/keys/ed25519"
	"github.com/cosmos/cosmos-sdk/crypto/keys/secp256k1"
	cryptotypes "github.com/cosmos/cosmos-sdk/crypto/types"
	storetypes "github.com/cosmos/cosmos-sdk/store/types"
	"github.com/cosmos/cosmos-sdk/testutil/sims"
	sdk "github.com/cosmos/cosmos-sdk/types"
	authtypes "github.com/cosmos/cosmos-sdk/x/auth/types"
	"github.com/cosmos/cosmos-sdk/x/authz"
	banktypes "github.com/cosmos/cosmos-sdk/x/bank/types"
	govtypes "github.com/cosmos/cosmos-sdk/x/gov/types"
	govv1 "github.com/cosmos/cosmos-sdk/x/gov/types/v1"
	stakingtypes "github.com/cosmos/cosmos-sdk/x/staking/types"
	"github.com/cosmos/gogoproto/proto"
	gethabi "github.com/ethereum/go-ethereum/accounts/abi"
	gethcommon "github.com/ethereum/go-ethereum/common"
	"github.com/ethereum/go-ethereum/common/hexutil"
	gethcore "github.com/ethereum/go-ethereum/core/types"
	"github.com/ethereum/go-ethereum/crypto"

	. "verifharness/hx"

	"github.com/NibiruChain/collections"

	"github.com/NibiruChain/nibiru/v2/app"
	"github.com/NibiruChain/nibiru/v2/eth"
	"github.com/NibiruChain/nibiru/v2/eth/crypto/ethsecp256k1"
	"github.com/NibiruChain/nibiru/v2/x/common/asset"
	"github.com/NibiruChain/nibiru/v2/x/common/omap"
	"github.com/NibiruChain/nibiru/v2/x/common/testutil/testapp"
	devgastypes "github.com/NibiruChain/nibiru/v2/x/devgas/v1/types"
	epochstypes "github.com/NibiruChain/nibiru/v2/x/epochs/types"
	"github.com/NibiruChain/nibiru/v2/x/evm"
	"github.com/NibiruChain/nibiru/v2/x/evm/embeds"
	"github.com/NibiruChain/nibiru/v2/x/evm/evmtest"
	"github.com/NibiruChain/nibiru/v2/x/evm/precompile"
	"github.com/NibiruChain/nibiru/v2/x/evm/statedb"
	inflationtypes "github.com/NibiruChain/nibiru/v2/x/inflation/types"
	oracletypes "github.com/NibiruChain/nibiru/v2/x/oracle/types"
	sudokeeper "github.com/NibiruChain/nibiru/v2/x/sudo/keeper"
	sudotypes "github.com/NibiruChain/nibiru/v2/x/sudo/types"
	sudotypesq "github.com/NibiruChain/nibiru/v2/x/sudo/types"
	tftypes "github.com/NibiruChain/nibiru/v2/x/tokenfactory/types"
)

// ------------------------------------------------------------------ inputs

type c01Op struct {
	Kind string `json:"kind"`
	A    int    `json:"a"`
	B    int    `json:"b"`
	C    int    `json:"c"`
	L    []int  `json:"l,omitempty"`
	E    int    `json:"e,omitempty"` // error path: 0 = well-formed; >0 selects a way in which the message FAILS while executing
}

type c01Block struct {
	Dt  int     `json:"dt"`          // seconds since the previous block
	R   int     `json:"r,omitempty"` // 1 = the restart-perturbed replica is restarted from its database before this block
	Ops []c01Op `json:"ops"`
}

type c01Input struct {
	T      string     `json:"t"`
	Blocks []c01Block `json:"blocks,omitempty"` // diff
	Init   []string   `json:"init,omitempty"`   // sudo: contracts in genesis (besides nothing)
	Steps  []sudoStep `json:"steps,omitempty"`  // sudo
	Ops    []omapOp   `json:"ops,omitempty"`    // omap
	Keys   []int      `json:"keys,omitempty"`   // skeys
	Which  int        `json:"which,omitempty"`  // abi
	Ws     [][2]int   `json:"ws,omitempty"`     // tw: (validator id, reward weight)
	Plain  bool       `json:"plain,omitempty"`  // diff: no replica perturbations (queries / CheckTx / restart)
	Child  bool       `json:"child,omitempty"`  // diff: additionally run the history in a separate process
	Lag    *lagPlan   `json:"lag,omitempty"`    // diff: additionally run the history on a replica with injected wall-clock delays
	Delays [][]int    `json:"delays,omitempty"` // range: per consumer, milliseconds before its 1st, 2nd, … receive (keys in Keys)
}

// lagPlan: the wall clock of the slow replica
type lagPlan struct {
	BaseUs  int `json:"base_us"`  // short delay (microseconds) at every Every-th store operation
	Every   int `json:"every"`    //
	StallMs int `json:"stall_ms"` // long stall (a disk stall, a GC / VM pause, SIGSTOP)
	Stalls  int `json:"stalls"`   // at most this many long stalls in the history
}

type sudoStep struct {
	Add    bool  `json:"add"`
	Cs     []int `json:"cs"`     // contract ids; id < 0 = syntactically invalid address
	Sender int   `json:"sender"` // 0 = root, 1 = somebody else
}

type omapOp struct {
	Op string `json:"op"` // build | set | del | union
	Ks []int  `json:"ks"`
}

// ------------------------------------------------------------------ fixed world (keys from fixed secrets)

const nVals = 3
const nUsers = 4
const nEth = 3
const nCoins = 3

var oraclePairs = []asset.Pair{"ubtc:uusd", "ueth:uusd", "uatom:uusd"}

// pool for whitelist edits (the first three are the pairs the validators vote on)
var pairPool = []asset.Pair{"ubtc:uusd", "ueth:uusd", "uatom:uusd", "usol:uusd", "uada:uusd", "ubnb:uusd", "uavax:uusd",
	"uosmo:uusd", "udot:uusd", "ulink:uusd", "uusdc:uusd", "uusdt:uusd", "unibi:uusd", "uxrp:uusd"}

type world struct {
	root    *secp256k1.PrivKey
	users   []*secp256k1.PrivKey
	valOps  []*secp256k1.PrivKey
	valCons []*ed25519.PrivKey
	eths    []evmtest.EthPrivKeyAcc
	gen     []byte
	wasmBz  []byte // hello_world_counter.wasm of the tree under test
}

func repoRoot() string {
	if r := os.Getenv("VERIF_REPO"); r != "" {
		return r
	}
	return "/repo"
}

func accAddr(k *secp256k1.PrivKey) sdk.AccAddress { return sdk.AccAddress(k.PubKey().Address()) }

func ethAcc(secret string) evmtest.EthPrivKeyAcc {
	h := sha256.Sum256([]byte(secret))
	pk := &ethsecp256k1.PrivKey{Key: h[:]}
	ecdsa, err := pk.ToECDSA()
	if err != nil {
		panic(err)
	}
	a := crypto.PubkeyToAddress(ecdsa.PublicKey)
	return evmtest.EthPrivKeyAcc{EthAddr: a, NibiruAddr: eth.EthAddrToNibiruAddr(a), PrivKey: pk, KeyringSigner: evmtest.NewSigner(pk)}
}

func contractAddrStr(id int) string {
	if id < 0 {
		return fmt.Sprintf("nibi1notanaddress%d", -id)
	}
	var b [20]byte
	b[0] = 0xC0
	binary.BigEndian.PutUint32(b[16:], uint32(id*2654435761))
	b[1] = byte(id)
	return sdk.AccAddress(b[:]).String()
}

func newWorld() *world {
	w := &world{root: secp256k1.GenPrivKeyFromSecret([]byte("verif-c01-root"))}
	for i := 0; i < nUsers; i++ {
		w.users = append(w.users, secp256k1.GenPrivKeyFromSecret([]byte(fmt.Sprintf("verif-c01-user-%d", i))))
	}
	for i := 0; i < nVals; i++ {
		w.valOps = append(w.valOps, secp256k1.GenPrivKeyFromSecret([]byte(fmt.Sprintf("verif-c01-valop-%d", i))))
		w.valCons = append(w.valCons, ed25519.GenPrivKeyFromSecret([]byte(fmt.Sprintf("verif-c01-valcons-%d", i))))
	}
	for i := 0; i < nEth; i++ {
		w.eths = append(w.eths, ethAcc(fmt.Sprintf("verif-c01-eth-%d", i)))
	}
	w.gen = w.buildGenesis()
	if bz, err := os.ReadFile(repoRoot() + "/x/evm/precompile/test/hello_world_counter.wasm"); err == nil {
		w.wasmBz = bz
	}
	return w
}

func (w *world) buildGenesis() []byte {
	a := app.NewNibiruApp(log.NewNopLogger(), tmdb.NewMemDB(), nil, true, sims.EmptyAppOptions{})
	cdc := a.AppCodec()
	gen := a.DefaultGenesis()

	gen[epochstypes.ModuleName] = cdc.MustMarshalJSON(epochstypes.DefaultGenesisFromTime(GenesisTime))
	gen[sudotypes.ModuleName] = cdc.MustMarshalJSON(&sudotypes.GenesisState{
		Sudoers: sudotypes.Sudoers{Root: accAddr(w.root).String(), Contracts: []string{}}})

	var govGen govv1.GenesisState
	cdc.MustUnmarshalJSON(gen[govtypes.ModuleName], &govGen)
	vp := 20 * time.Second
	govGen.Params.VotingPeriod = &vp
	govGen.Params.MinDeposit = sdk.NewCoins(sdk.NewInt64Coin("unibi", 1_000_000))
	gen[govtypes.ModuleName] = cdc.MustMarshalJSON(&govGen)

	ig := inflationtypes.DefaultGenesisState()
	ig.Params.InflationEnabled = true
	ig.Params.HasInflationStarted = true
	gen[inflationtypes.ModuleName] = cdc.MustMarshalJSON(ig)

	// accounts and balances
	var accs []authtypes.GenesisAccount
	var balances []banktypes.Balance
	rich := func(addr sdk.AccAddress, extra ...sdk.Coin) {
		coins := sdk.NewCoins(sdk.NewCoin("unibi", sdkmath.NewInt(1_000_000_000_000_000)))
		coins = coins.Add(extra...)
		balances = append(balances, banktypes.Balance{Address: addr.String(), Coins: coins})
	}
	addAcc := func(addr sdk.AccAddress) {
		accs = append(accs, authtypes.NewBaseAccount(addr, nil, 0, 0))
	}
	addAcc(accAddr(w.root))
	rich(accAddr(w.root))
	for i, u := range w.users {
		addAcc(accAddr(u))
		var extra []sdk.Coin
		if i == 0 {
			for d := 0; d < nCoins; d++ {
				extra = append(extra, sdk.NewCoin(fmt.Sprintf("ucoin%d", d), sdkmath.NewInt(1_000_000_000)))
			}
		}
		rich(accAddr(u), extra...)
	}
	for _, v := range w.valOps {
		addAcc(accAddr(v))
		rich(accAddr(v))
	}
	for _, e := range w.eths {
		addAcc(e.NibiruAddr)
		rich(e.NibiruAddr)
	}
	gen[authtypes.ModuleName] = cdc.MustMarshalJSON(authtypes.NewGenesisState(authtypes.DefaultParams(), accs))

	// validators
	var validators []stakingtypes.Validator
	var delegations []stakingtypes.Delegation
	bonded := sdkmath.ZeroInt()
	for i := range w.valOps {
		pkAny, err := codectypes.NewAnyWithValue(w.valCons[i].PubKey())
		if err != nil {
			panic(err)
		}
		tokens := sdk.DefaultPowerReduction.MulRaw(int64(3 + 2*i))
		valAddr := sdk.ValAddress(accAddr(w.valOps[i]))
		validators = append(validators, stakingtypes.Validator{
			OperatorAddress: valAddr.String(), ConsensusPubkey: pkAny, Status: stakingtypes.Bonded,
			Tokens: tokens, DelegatorShares: sdkmath.LegacyNewDecFromInt(tokens),
			Description: stakingtypes.Description{Moniker: fmt.Sprintf("v%d", i)}, UnbondingTime: time.Unix(0, 0).UTC(),
			Commission:        stakingtypes.NewCommission(sdkmath.LegacyNewDecWithPrec(5, 2), sdkmath.LegacyNewDecWithPrec(20, 2), sdkmath.LegacyNewDecWithPrec(1, 2)),
			MinSelfDelegation: sdkmath.OneInt(),
		})
		delegations = append(delegations, stakingtypes.NewDelegation(accAddr(w.valOps[i]), valAddr, sdkmath.LegacyNewDecFromInt(tokens)))
		bonded = bonded.Add(tokens)
	}
	sg := stakingtypes.NewGenesisState(stakingtypes.DefaultParams(), validators, delegations)
	sg.Params.BondDenom = "unibi"
	gen[stakingtypes.ModuleName] = cdc.MustMarshalJSON(sg)
	balances = append(balances, banktypes.Balance{
		Address: authtypes.NewModuleAddress(stakingtypes.BondedPoolName).String(),
		Coins:   sdk.NewCoins(sdk.NewCoin("unibi", bonded))})

	// oracle: short vote period, three pairs, a reward pool
	og := oracletypes.DefaultGenesisState()
	og.Params.VotePeriod = 4
	og.Params.MinVoters = 1
	og.Params.Whitelist = oraclePairs
	og.Params.SlashWindow = 12
	og.Params.MinValidPerWindow = sdkmath.LegacyNewDecWithPrec(40, 2)
	og.Pairs = oraclePairs
	poolCoins := sdk.NewCoins(sdk.NewCoin("unibi", sdkmath.NewInt(97_000_003)))
	og.Rewards = []oracletypes.Rewards{{Id: 1, VotePeriods: 1000, Coins: sdk.NewCoins(sdk.NewCoin("unibi", sdkmath.NewInt(97_003)))}}
	gen[oracletypes.ModuleName] = cdc.MustMarshalJSON(og)
	balances = append(balances, banktypes.Balance{Address: authtypes.NewModuleAddress(oracletypes.ModuleName).String(), Coins: poolCoins})

	supply := sdk.NewCoins()
	for _, b := range balances {
		supply = supply.Add(b.Coins...)
	}
	var metas []banktypes.Metadata
	for d := 0; d < nCoins; d++ {
		n := fmt.Sprintf("ucoin%d", d)
		metas = append(metas, banktypes.Metadata{DenomUnits: []*banktypes.DenomUnit{{Denom: n, Exponent: 0}}, Base: n, Display: n, Name: n, Symbol: fmt.Sprintf("UC%d", d)})
	}
	gen[banktypes.ModuleName] = cdc.MustMarshalJSON(banktypes.NewGenesisState(banktypes.DefaultParams(), balances, supply, metas, []banktypes.SendEnabled{}))

	bz, err := json.Marshal(gen)
	if err != nil {
		panic(err)
	}
	return bz
}

// ------------------------------------------------------------------ injected wall-clock delays (slow replica)

// lagger decides, at every yield point (= store operation) of the slow replica, whether time passes.
type lagger struct {
	plan      lagPlan
	armed     bool // inside BeginBlock … EndBlock of a block
	base      int  // goroutines alive when the current ABCI phase started
	inEpisode bool // already stalled while the goroutine(s) seen now were alive
	nYield    int
	nStalls   int
	nShort    int
}

func (l *lagger) phaseStart() {
	l.armed = true
	l.base = runtime.NumGoroutine()
	l.inEpisode = false
}

func (l *lagger) yield() {
	l.nYield++
	if l.plan.Every > 0 && l.plan.BaseUs > 0 && l.nYield%l.plan.Every == 0 {
		time.Sleep(time.Duration(l.plan.BaseUs) * time.Microsecond)
		l.nShort++
	}
	if !l.armed || l.nStalls >= l.plan.Stalls {
		return
	}
	if runtime.NumGoroutine() <= l.base {
		l.inEpisode = false
		return
	}
	if l.inEpisode {
		return
	}
	time.Sleep(300 * time.Microsecond) // a goroutine that has nothing left to do is gone by now
	if runtime.NumGoroutine() <= l.base {
		return
	}
	// something started by the application is still running (or waiting on a timer): this replica now stalls
	l.inEpisode = true
	l.nStalls++
	if os.Getenv("C01_DEBUG") != "" {
		fmt.Printf("STALL %dms at yield %d (goroutines %d > %d)\n", l.plan.StallMs, l.nYield, runtime.NumGoroutine(), l.base)
	}
	time.Sleep(time.Duration(l.plan.StallMs) * time.Millisecond)
}

// the multistore tracer as a slow sink: one Write per traced store operation, anywhere (DeliverTx and Commit included)
type lagWriter struct{ l *lagger }

func (w lagWriter) Write(p []byte) (int, error) {
	if len(p) > 1 { // the operation line, not the newline that follows it
		w.l.yield()
	}
	return len(p), nil
}

// the context multistore of BeginBlock / EndBlock wrapped so that every Get / Has / Set / Delete / iterator step is a yield point
type lagMS struct {
	storetypes.MultiStore
	l *lagger
}

func (m lagMS) GetKVStore(k storetypes.StoreKey) storetypes.KVStore {
	return lagKV{m.MultiStore.GetKVStore(k), m.l}
}

func (m lagMS) CacheMultiStore() storetypes.CacheMultiStore {
	return lagCMS{m.MultiStore.CacheMultiStore(), m.l}
}

type cacheMS = storetypes.CacheMultiStore

type lagCMS struct {
	cacheMS
	l *lagger
}

func (m lagCMS) GetKVStore(k storetypes.StoreKey) storetypes.KVStore {
	return lagKV{m.cacheMS.GetKVStore(k), m.l}
}

func (m lagCMS) CacheMultiStore() storetypes.CacheMultiStore {
	return lagCMS{m.cacheMS.CacheMultiStore(), m.l}
}

type lagKV struct {
	storetypes.KVStore
	l *lagger
}

func (s lagKV) Get(k []byte) []byte { s.l.yield(); return s.KVStore.Get(k) }
func (s lagKV) Has(k []byte) bool   { s.l.yield(); return s.KVStore.Has(k) }
func (s lagKV) Set(k, v []byte)     { s.l.yield(); s.KVStore.Set(k, v) }
func (s lagKV) Delete(k []byte)     { s.l.yield(); s.KVStore.Delete(k) }
func (s lagKV) Iterator(a, b []byte) storetypes.Iterator {
	s.l.yield()
	return lagIter{s.KVStore.Iterator(a, b), s.l}
}
func (s lagKV) ReverseIterator(a, b []byte) storetypes.Iterator {
	s.l.yield()
	return lagIter{s.KVStore.ReverseIterator(a, b), s.l}
}

type lagIter struct {
	storetypes.Iterator
	l *lagger
}

func (i lagIter) Next() { i.l.yield(); i.Iterator.Next() }

// newSlowReplica: the same application, genesis and database type; the only differences are the clock: a store tracer that
// is slow to write to, and BeginBlocker / EndBlocker run on a context whose store operations take time.
func (w *world) newSlowReplica(plan lagPlan) *replica {
	db := tmdb.NewMemDB()
	lg := &lagger{plan: plan}
	a := app.NewNibiruApp(log.NewNopLogger(), db, lagWriter{lg}, false, sims.EmptyAppOptions{})
	a.SetBeginBlocker(func(ctx sdk.Context, req abci.RequestBeginBlock) abci.ResponseBeginBlock {
		lg.phaseStart()
		return a.BeginBlocker(ctx.WithMultiStore(lagMS{ctx.MultiStore(), lg}), req)
	})
	a.SetEndBlocker(func(ctx sdk.Context, req abci.RequestEndBlock) abci.ResponseEndBlock {
		lg.phaseStart()
		defer func() { lg.armed = false }()
		return a.EndBlocker(ctx.WithMultiStore(lagMS{ctx.MultiStore(), lg}), req)
	})
	if err := a.LoadLatestVersion(); err != nil {
		panic(err)
	}
	a.InitChain(abci.RequestInitChain{ConsensusParams: sims.DefaultConsensusParams, AppStateBytes: w.gen, Time: GenesisTime, ChainId: ""})
	a.Commit()
	return &replica{w: w, db: db, lag: lg, c: &Chain{App: a, TxCfg: app.MakeEncodingConfig().TxConfig, Time: GenesisTime},
		pending: map[int]*prevote{}, funtokens: map[int]gethcommon.Address{}, granted: map[[2]int]bool{}}
}

// ------------------------------------------------------------------ one replica

type prevote struct {
	period uint64
	salt   string
	rates  string
}

// perturbations of ONE replica that must never change committed results:
//
//	queries  — after every block the replica answers a batch of read-only ABCI queries (every custom-module gRPC route,
//	           EthCall / EstimateGas, Simulate) that the other replicas do not see
//	checkTx  — every tx goes through CheckTx (and sometimes ReCheckTx) before DeliverTx
//	restart  — the application object is thrown away and re-created on the same database between two blocks
type perturb struct {
	queries bool
	checkTx bool
	restart int // restart before every block whose index % restart == restart-1 (0 = never)
}

type replica struct {
	db          tmdb.DB
	lag         *lagger // non-nil: the slow replica
	pt          perturb
	blockIdx    int
	nQueries    int
	nQueryOK    int
	nRestarts   int
	nCheckTx    int
	w           *world
	c           *Chain
	pending     map[int]*prevote
	contracts   []gethcommon.Address
	nProposals  int
	pcContracts []int    // indices of contracts whose runtime ends with a precompile call
	shapes      [][2]int // (slots, targets) of contracts
	funtokens   map[int]gethcommon.Address
	tfDenoms    []string
	tfOwner     []int
	granted     map[[2]int]bool
	wasmCode    uint64           // code id of hello_world_counter.wasm on this replica (0 = not stored yet)
	wasmAddrs   []sdk.AccAddress // instantiated counter contracts
	wasmOwner   []int            // their creator = admin (user index)
	dgReg       map[int]bool     // contract index -> registered for dev-gas fee share
}

func (w *world) newReplica() *replica {
	db := tmdb.NewMemDB()
	a := app.NewNibiruApp(log.NewNopLogger(), db, nil, true, sims.EmptyAppOptions{})
	a.InitChain(abci.RequestInitChain{ConsensusParams: sims.DefaultConsensusParams, AppStateBytes: w.gen, Time: GenesisTime, ChainId: ""})
	a.Commit()
	return &replica{w: w, db: db, c: &Chain{App: a, TxCfg: app.MakeEncodingConfig().TxConfig, Time: GenesisTime},
		pending: map[int]*prevote{}, funtokens: map[int]gethcommon.Address{}, granted: map[[2]int]bool{}}
}

var gasPrice = big.NewInt(1_000_000_000_000)
var fee = Unibi(5_000_000)

// restartApp throws the application object away and opens a new one on the same database (a node restart)
func (r *replica) restartApp() {
	a := app.NewNibiruApp(log.NewNopLogger(), r.db, nil, true, sims.EmptyAppOptions{})
	r.c.App = a
	r.nRestarts++
}

func (r *replica) deliverBytes(bz []byte) abci.ResponseDeliverTx {
	if r.pt.checkTx {
		r.c.App.CheckTx(abci.RequestCheckTx{Tx: bz, Type: abci.CheckTxType_New})
		r.nCheckTx++
		if r.nCheckTx%3 == 0 {
			r.c.App.CheckTx(abci.RequestCheckTx{Tx: bz, Type: abci.CheckTxType_Recheck})
		}
	}
	return r.c.App.DeliverTx(abci.RequestDeliverTx{Tx: bz})
}

func (r *replica) cosmosBytes(priv cryptotypes.PrivKey, gas uint64, fee sdk.Coins, msgs ...sdk.Msg) ([]byte, error) {
	ctx := r.c.Ctx()
	addr := sdk.AccAddress(priv.PubKey().Address())
	acc := r.c.App.AccountKeeper.GetAccount(ctx, addr)
	var accNum, seq uint64
	if acc != nil {
		accNum, seq = acc.GetAccountNumber(), acc.GetSequence()
	}
	tx, err := sims.GenSignedMockTx(rand.New(rand.NewSource(1)), r.c.TxCfg, msgs, fee, gas, ctx.ChainID(), []uint64{accNum}, []uint64{seq}, priv)
	if err != nil {
		return nil, err
	}
	return r.c.TxCfg.TxEncoder()(tx)
}

func (r *replica) deliverCosmos(priv cryptotypes.PrivKey, gas uint64, fee sdk.Coins, msgs ...sdk.Msg) abci.ResponseDeliverTx {
	bz, err := r.cosmosBytes(priv, gas, fee, msgs...)
	if err != nil {
		return abci.ResponseDeliverTx{Code: 9999, Log: "build: " + err.Error()}
	}
	return r.deliverBytes(bz)
}

func (r *replica) deliverEth(msgs ...*evm.MsgEthereumTx) abci.ResponseDeliverTx {
	bz, err := r.c.EncodeEth(msgs...)
	if err != nil {
		return abci.ResponseDeliverTx{Code: 9999, Log: "encode: " + err.Error()}
	}
	return r.deliverBytes(bz)
}

func (r *replica) query(path string, req proto.Message) {
	bz, err := proto.Marshal(req)
	if err != nil {
		return
	}
	res := r.c.App.Query(abci.RequestQuery{Path: path, Data: bz})
	r.nQueries++
	if res.Code == 0 {
		r.nQueryOK++
	} else if os.Getenv("C01_DEBUG") == "2" {
		fmt.Printf("QUERYFAIL %s %.200s\n", path, res.Log)
	}
}

// queryBatch: read-only traffic of a node that also serves clients.  Nothing here may influence block execution.
func (r *replica) queryBatch(blockIdx int) {
	w := r.w
	e := w.eths[blockIdx%nEth]
	// x/evm
	for d := 0; d < nCoins; d++ {
		r.query("/eth.evm.v1.Query/FunTokenMapping", &evm.QueryFunTokenMappingRequest{Token: fmt.Sprintf("ucoin%d", d)})
		if a, ok := r.funtokens[d]; ok {
			r.query("/eth.evm.v1.Query/FunTokenMapping", &evm.QueryFunTokenMappingRequest{Token: a.Hex()})
			r.query("/eth.evm.v1.Query/FunTokenMapping", &evm.QueryFunTokenMappingRequest{Token: a.String()})
			r.query("/eth.evm.v1.Query/Code", &evm.QueryCodeRequest{Address: a.Hex()})
		}
	}
	r.query("/eth.evm.v1.Query/EthAccount", &evm.QueryEthAccountRequest{Address: e.EthAddr.Hex()})
	r.query("/eth.evm.v1.Query/Balance", &evm.QueryBalanceRequest{Address: e.EthAddr.Hex()})
	r.query("/eth.evm.v1.Query/Params", &evm.QueryParamsRequest{})
	r.query("/eth.evm.v1.Query/BaseFee", &evm.QueryBaseFeeRequest{})
	for k, c := range r.contracts {
		if k < 3 {
			r.query("/eth.evm.v1.Query/Code", &evm.QueryCodeRequest{Address: c.Hex()})
			r.query("/eth.evm.v1.Query/Storage", &evm.QueryStorageRequest{Address: c.Hex(), Key: gethcommon.BigToHash(big.NewInt(1)).Hex()})
		}
	}
	ethCall := func(to gethcommon.Address, input []byte) {
		data := hexutil.Bytes(input)
		args, err := json.Marshal(evm.JsonTxArgs{From: &e.EthAddr, To: &to, Data: &data})
		if err != nil {
			return
		}
		req := &evm.EthCallRequest{Args: args, GasCap: 10_000_000, ChainId: r.c.ChainID.Int64()}
		r.query("/eth.evm.v1.Query/EthCall", req)
		r.query("/eth.evm.v1.Query/EstimateGas", req)
	}
	if r.c.ChainID != nil {
		if in, err := embeds.SmartContract_FunToken.ABI.Pack("whoAmI", e.EthAddr.Hex()); err == nil {
			ethCall(precompile.PrecompileAddr_FunToken, in)
		}
		for d := 0; d < nCoins; d++ {
			if a, ok := r.funtokens[d]; ok {
				if in, err := embeds.SmartContract_FunToken.ABI.Pack("balance", e.EthAddr, a); err == nil {
					ethCall(precompile.PrecompileAddr_FunToken, in)
				}
			}
		}
		if in, err := embeds.SmartContract_FunToken.ABI.Pack("bankBalance", e.EthAddr, "unibi"); err == nil {
			ethCall(precompile.PrecompileAddr_FunToken, in)
		}
		if in, err := embeds.SmartContract_Oracle.ABI.Pack("queryExchangeRate", string(oraclePairs[blockIdx%len(oraclePairs)])); err == nil {
			ethCall(precompile.PrecompileAddr_Oracle, in)
		}
		if len(r.pcContracts) > 0 {
			k := r.pcContracts[blockIdx%len(r.pcContracts)]
			if pcIn, err := embeds.SmartContract_FunToken.ABI.Pack("whoAmI", e.EthAddr.Hex()); err == nil {
				base := gethcommon.LeftPadBytes(gethcommon.BytesToAddress(freshAddr(990000+blockIdx).Bytes()).Bytes(), 32)
				ethCall(r.contracts[k], append(append(base, word(1)...), pcIn...))
			}
		}
	}
	// x/oracle
	r.query("/nibiru.oracle.v1.Query/ExchangeRates", &oracletypes.QueryExchangeRatesRequest{})
	r.query("/nibiru.oracle.v1.Query/Actives", &oracletypes.QueryActivesRequest{})
	r.query("/nibiru.oracle.v1.Query/VoteTargets", &oracletypes.QueryVoteTargetsRequest{})
	r.query("/nibiru.oracle.v1.Query/Params", &oracletypes.QueryParamsRequest{})
	r.query("/nibiru.oracle.v1.Query/AggregatePrevotes", &oracletypes.QueryAggregatePrevotesRequest{})
	r.query("/nibiru.oracle.v1.Query/AggregateVotes", &oracletypes.QueryAggregateVotesRequest{})
	for _, p := range oraclePairs {
		r.query("/nibiru.oracle.v1.Query/ExchangeRate", &oracletypes.QueryExchangeRateRequest{Pair: p})
		r.query("/nibiru.oracle.v1.Query/ExchangeRateTwap", &oracletypes.QueryExchangeRateRequest{Pair: p})
	}
	for _, v := range w.valOps {
		va := sdk.ValAddress(accAddr(v)).String()
		r.query("/nibiru.oracle.v1.Query/MissCounter", &oracletypes.QueryMissCounterRequest{ValidatorAddr: va})
		r.query("/nibiru.oracle.v1.Query/FeederDelegation", &oracletypes.QueryFeederDelegationRequest{ValidatorAddr: va})
		r.query("/nibiru.oracle.v1.Query/AggregatePrevote", &oracletypes.QueryAggregatePrevoteRequest{ValidatorAddr: va})
		r.query("/nibiru.oracle.v1.Query/AggregateVote", &oracletypes.QueryAggregateVoteRequest{ValidatorAddr: va})
	}
	// sudo, inflation, epochs, tokenfactory, devgas
	r.query("/nibiru.sudo.v1.Query/QuerySudoers", &sudotypesq.QuerySudoersRequest{})
	r.query("/nibiru.inflation.v1.Query/Period", &inflationtypes.QueryPeriodRequest{})
	r.query("/nibiru.inflation.v1.Query/EpochMintProvision", &inflationtypes.QueryEpochMintProvisionRequest{})
	r.query("/nibiru.inflation.v1.Query/SkippedEpochs", &inflationtypes.QuerySkippedEpochsRequest{})
	r.query("/nibiru.inflation.v1.Query/CirculatingSupply", &inflationtypes.QueryCirculatingSupplyRequest{})
	r.query("/nibiru.inflation.v1.Query/InflationRate", &inflationtypes.QueryInflationRateRequest{})
	r.query("/nibiru.inflation.v1.Query/Params", &inflationtypes.QueryParamsRequest{})
	r.query("/nibiru.epochs.v1.Query/EpochInfos", &epochstypes.QueryEpochInfosRequest{})
	r.query("/nibiru.epochs.v1.Query/CurrentEpoch", &epochstypes.QueryCurrentEpochRequest{Identifier: "day"})
	r.query("/nibiru.tokenfactory.v1.Query/Params", &tftypes.QueryParamsRequest{})
	for _, u := range w.users {
		r.query("/nibiru.tokenfactory.v1.Query/Denoms", &tftypes.QueryDenomsRequest{Creator: accAddr(u).String()})
	}
	for _, d := range r.tfDenoms {
		r.query("/nibiru.tokenfactory.v1.Query/DenomInfo", &tftypes.QueryDenomInfoRequest{Denom: d})
	}
	r.query("/nibiru.devgas.v1.Query/FeeShares", &devgastypes.QueryFeeSharesRequest{Deployer: accAddr(w.users[0]).String()})
	r.query("/nibiru.devgas.v1.Query/Params", &devgastypes.QueryParamsRequest{})
	// Simulate a bank send of a user (runs the whole ante chain + message in simulation mode)
	u := w.users[blockIdx%nUsers]
	cctx := r.c.App.NewContext(true, r.c.Header) // check state: committed state between blocks
	if acc := r.c.App.AccountKeeper.GetAccount(cctx, accAddr(u)); acc != nil {
		msg := banktypes.NewMsgSend(accAddr(u), freshAddr(980000+blockIdx), Unibi(3))
		tx, err := sims.GenSignedMockTx(rand.New(rand.NewSource(1)), r.c.TxCfg, []sdk.Msg{msg}, fee, 400_000, "",
			[]uint64{acc.GetAccountNumber()}, []uint64{acc.GetSequence()}, u)
		if err == nil {
			if bz, err := r.c.TxCfg.TxEncoder()(tx); err == nil {
				_, _, serr := r.c.App.Simulate(bz)
				r.nQueries++
				if serr == nil {
					r.nQueryOK++
				} else if os.Getenv("C01_DEBUG") == "2" {
					fmt.Printf("QUERYFAIL simulate %.200s\n", serr)
				}
			}
		}
	}
}

func (r *replica) ethNonce(i int) uint64 {
	acc := r.c.App.AccountKeeper.GetAccount(r.c.Ctx(), r.w.eths[i].NibiruAddr)
	if acc == nil {
		return 0
	}
	return acc.GetSequence()
}

func (r *replica) ethTx(i int, to *gethcommon.Address, value *big.Int, input []byte, gas uint64) abci.ResponseDeliverTx {
	msg, err := r.c.SignEth(r.w.eths[i], &evm.EvmTxArgs{Nonce: r.ethNonce(i), GasLimit: gas, GasPrice: gasPrice, To: to, Amount: value, Input: input})
	if err != nil {
		return abci.ResponseDeliverTx{Code: 9998, Log: err.Error()}
	}
	return r.deliverEth(msg)
}

// straight-line runtime: s SSTOREs of (calldata word 1 + j) into slots 1..s, then m CALLs sending 1 unibi
// (10^12 wei) to the addresses (calldata word 0 + i): every call creates m fresh accounts in ONE commit.
func multiRuntime(s, m int, pc bool) []byte {
	var b []byte
	for j := 0; j < s; j++ {
		b = append(b, 0x60, byte(j), 0x60, 0x20, 0x35, 0x01, 0x60, byte(j+1), 0x55)
	}
	for i := 0; i < m; i++ {
		b = append(b, 0x60, 0, 0x60, 0, 0x60, 0, 0x60, 0, 0x64, 0xE8, 0xD4, 0xA5, 0x10, 0x00)
		b = append(b, 0x60, byte(i), 0x60, 0x00, 0x35, 0x01, 0x5a, 0xf1, 0x50)
	}
	if pc {
		// copy calldata[64:] to memory and CALL the FunToken precompile (0x…0800) with it; the result flag goes to slot 99.
		// The precompile call makes the StateDB flush everything dirtied so far (the m fresh accounts) in an
		// INTERMEDIATE commit before the final one.
		b = append(b, 0x36, 0x60, 0x40, 0x90, 0x03)                                                       // size = CALLDATASIZE - 64
		b = append(b, 0x80, 0x60, 0x40, 0x60, 0x00, 0x37)                                                 // CALLDATACOPY(0, 64, size)
		b = append(b, 0x60, 0x00, 0x60, 0x00, 0x82, 0x60, 0x00, 0x60, 0x00, 0x61, 0x08, 0x00, 0x5a, 0xf1) // CALL(gas, 0x800, 0, 0, size, 0, 0)
		b = append(b, 0x60, 0x63, 0x55, 0x50)                                                             // SSTORE(99, ok); POP size
		// RETURN(returndata of the precompile call): it becomes the tx's return data inside ResponseDeliverTx.Data
		b = append(b, 0x3d, 0x60, 0x00, 0x60, 0x00, 0x3e, 0x3d, 0x60, 0x00, 0xf3)
	}
	return append(b, 0x00)
}

func multiInit(s, m int, pc bool) []byte {
	rt := multiRuntime(s, m, pc)
	n := len(rt)
	init := []byte{0x61, byte(n >> 8), byte(n), 0x80, 0x61, 0x00, 0x0d, 0x60, 0x00, 0x39, 0x60, 0x00, 0xf3}
	return append(init, rt...)
}

func word(n uint64) []byte {
	b := make([]byte, 32)
	binary.BigEndian.PutUint64(b[24:], n)
	return b
}

func freshAddr(id int) sdk.AccAddress {
	var b [20]byte
	b[0] = 0xF0
	binary.BigEndian.PutUint32(b[16:], uint32(id))
	return sdk.AccAddress(b[:])
}

// rawPrecompileInput builds hostile calldata for precompile `which` (0 FunToken, 1 Oracle, 2 Wasm):
//
//	variant 0 unknown 4-byte selector + a word      1 unknown selector alone     2 truncated (0..3 bytes)
//	variant 3 valid selector, no arguments          4 valid selector, arguments cut short
//	variant 5 valid selector, garbage arguments     6 valid selector, huge offsets      7 as 0, with value attached
func (w *world) rawPrecompileInput(which, variant int, l []int) (gethcommon.Address, []byte) {
	addrs := []gethcommon.Address{precompile.PrecompileAddr_FunToken, precompile.PrecompileAddr_Oracle, precompile.PrecompileAddr_Wasm}
	abis := []*gethabi.ABI{embeds.SmartContract_FunToken.ABI, embeds.SmartContract_Oracle.ABI, embeds.SmartContract_Wasm.ABI}
	which = ((which % 3) + 3) % 3
	a := abis[which]
	x := 0
	if len(l) > 0 {
		x = l[0]
	}
	var names []string
	for n := range a.Methods {
		names = append(names, n)
	}
	sort.Strings(names)
	m := a.Methods[names[x%len(names)]]
	unknown := []byte{0xde, 0xad, byte(x), byte(x >> 8)}
	var in []byte
	switch ((variant % 8) + 8) % 8 {
	case 0, 7:
		in = append(unknown, word(uint64(x))...)
	case 1:
		in = unknown
	case 2:
		in = unknown[:x%4]
	case 3:
		in = append([]byte{}, m.ID...)
	case 4:
		in = append(append([]byte{}, m.ID...), word(uint64(x))[:20]...)
	case 5:
		in = append([]byte{}, m.ID...)
		for j := 0; j < 4+x%5; j++ {
			h := sha256.Sum256([]byte(fmt.Sprintf("garbage-%d-%d", x, j)))
			in = append(in, h[:]...)
		}
	case 6:
		in = append([]byte{}, m.ID...)
		for j := 0; j < 3; j++ {
			in = append(in, bytes.Repeat([]byte{0xff}, 32)...)
		}
	}
	return addrs[which], in
}

func (r *replica) apply(op c01Op) []abci.ResponseDeliverTx {
	w, c := r.w, r.c
	one := func(x abci.ResponseDeliverTx) []abci.ResponseDeliverTx { return []abci.ResponseDeliverTx{x} }
	none := []abci.ResponseDeliverTx{}
	switch op.Kind {
	case "wasmdeploy": // keeper-level (as a genesis-like setup inside the block): store the counter code once, instantiate C contracts
		if w.wasmBz == nil {
			return none
		}
		u := op.A % nUsers
		creator := accAddr(w.users[u])
		pk := wasmkeeper.NewDefaultPermissionKeeper(c.App.WasmKeeper)
		if r.wasmCode == 0 {
			id, _, err := pk.Create(c.Ctx(), creator, w.wasmBz, &wasmtypes.AccessConfig{Permission: wasmtypes.AccessTypeEverybody})
			if err != nil {
				panic(err)
			}
			r.wasmCode = id
		}
		for i := 0; i < op.C && len(r.wasmAddrs) < 12; i++ {
			a, _, err := pk.Instantiate(c.Ctx(), r.wasmCode, creator, creator, []byte(`{"count": 0}`), fmt.Sprintf("c01-%d", len(r.wasmAddrs)), nil)
			if err != nil {
				panic(err)
			}
			r.wasmAddrs = append(r.wasmAddrs, a)
			r.wasmOwner = append(r.wasmOwner, u)
		}
		return none
	case "dgreg": // x/devgas: register contract A for fee share with the FRESH withdrawer B (or move an existing registration to it)
		if len(r.wasmAddrs) == 0 {
			return none
		}
		i := op.A % len(r.wasmAddrs)
		owner := w.users[r.wasmOwner[i]]
		if r.dgReg == nil {
			r.dgReg = map[int]bool{}
		}
		var msg sdk.Msg = &devgastypes.MsgRegisterFeeShare{ContractAddress: r.wasmAddrs[i].String(), DeployerAddress: accAddr(owner).String(), WithdrawerAddress: freshAddr(op.B).String()}
		if r.dgReg[i] {
			msg = &devgastypes.MsgUpdateFeeShare{ContractAddress: r.wasmAddrs[i].String(), DeployerAddress: accAddr(owner).String(), WithdrawerAddress: freshAddr(op.B).String()}
		}
		res := r.deliverCosmos(owner, 800_000, fee, msg)
		if res.Code == 0 {
			r.dgReg[i] = true
		}
		return one(res)
	case "wasmexec": // ONE tx with one MsgExecuteContract per entry of L (the dev-gas ante pays every registered withdrawer)
		if len(r.wasmAddrs) == 0 || len(op.L) == 0 {
			return none
		}
		u := w.users[op.A%nUsers]
		var msgs []sdk.Msg
		for _, ci := range op.L {
			msgs = append(msgs, &wasmtypes.MsgExecuteContract{Sender: accAddr(u).String(), Contract: r.wasmAddrs[ci%len(r.wasmAddrs)].String(), Msg: []byte(`{"increment":{}}`)})
		}
		return one(r.deliverCosmos(u, uint64(1_000_000+600_000*len(msgs)), fee, msgs...))
	case "bank":
		from := w.users[op.A%nUsers]
		var to sdk.AccAddress
		if op.B < nUsers {
			to = accAddr(w.users[op.B])
		} else {
			to = freshAddr(op.B)
		}
		amt := int64(op.C)
		if op.E > 0 {
			amt = 4_000_000_000_000_000_000 // more than anybody owns: fails inside the bank keeper
		}
		return one(r.deliverCosmos(from, 400_000, fee, banktypes.NewMsgSend(accAddr(from), to, Unibi(amt))))
	case "multisend": // one bank tx creating several fresh accounts
		from := w.users[op.A%nUsers]
		var outs []banktypes.Output
		tot := int64(0)
		for _, id := range op.L {
			outs = append(outs, banktypes.NewOutput(freshAddr(id), Unibi(int64(op.C))))
			tot += int64(op.C)
		}
		return one(r.deliverCosmos(from, 800_000, fee, banktypes.NewMsgMultiSend([]banktypes.Input{banktypes.NewInput(accAddr(from), Unibi(tot))}, outs)))
	case "ethsend":
		to := gethcommon.BytesToAddress(freshAddr(op.B).Bytes())
		val := new(big.Int).Mul(big.NewInt(int64(op.C)), big.NewInt(1_000_000_000_000))
		egas := uint64(100_000)
		switch op.E {
		case 1: // more than the sender owns: rejected by the EVM ante handler
			val = new(big.Int).Mul(big.NewInt(9_000_000_000_000_000), big.NewInt(1_000_000_000_000))
		case 2: // gas limit below the intrinsic gas: fails inside the msg server
			egas = 20_000
		case 3: // a nonce from the future
			msg, err := r.c.SignEth(r.w.eths[op.A%nEth], &evm.EvmTxArgs{Nonce: r.ethNonce(op.A%nEth) + 5, GasLimit: egas, GasPrice: gasPrice, To: &to, Amount: val})
			if err != nil {
				return one(abci.ResponseDeliverTx{Code: 9998, Log: err.Error()})
			}
			return one(r.deliverEth(msg))
		}
		return one(r.ethTx(op.A%nEth, &to, val, nil, egas))
	case "deploy":
		s, m := op.B, op.C
		i := op.A % nEth
		nonce := r.ethNonce(i)
		pc := len(op.L) > 0 && op.L[0] == 1
		res := r.ethTx(i, nil, nil, multiInit(s, m, pc), 3_000_000)
		if res.Code == 0 {
			r.contracts = append(r.contracts, crypto.CreateAddress(w.eths[i].EthAddr, nonce))
			r.shapes = append(r.shapes, [2]int{s, m})
			if pc {
				r.pcContracts = append(r.pcContracts, len(r.contracts)-1)
			}
		}
		return one(res)
	case "pcraw": // EOA -> precompile DIRECTLY with unknown selector / truncated / malformed calldata
		i := op.A % nEth
		to, input := r.w.rawPrecompileInput(op.B, op.C, op.L)
		var val *big.Int
		if op.C%8 == 7 {
			val = big.NewInt(1_000_000_000_000)
		}
		return one(r.ethTx(i, &to, val, input, 1_500_000))
	case "callpc": // ONE tx: pay m fresh accounts, THEN a successful Nibiru precompile call
		if len(r.pcContracts) == 0 {
			return none
		}
		k := r.pcContracts[op.B%len(r.pcContracts)]
		to := r.contracts[k]
		m := r.shapes[k][1]
		i := op.A % nEth
		base := new(big.Int).SetBytes(gethcommon.BytesToAddress(freshAddr(op.C).Bytes()).Bytes())
		input := append(gethcommon.LeftPadBytes(base.Bytes(), 32), word(uint64(op.A))...)
		var pcIn []byte
		var err error
		sel := 0
		if len(op.L) > 0 {
			sel = op.L[0]
		}
		if sel >= 3 { // the inner precompile call FAILS (unknown selector, truncated, bad args): contract goes on
			_, pcIn = w.rawPrecompileInput(0, sel-3, op.L)
		}
		switch sel % 3 {
		case 0:
			if sel >= 3 {
				break
			}
			pcIn, err = embeds.SmartContract_FunToken.ABI.Pack("whoAmI", w.eths[i].EthAddr.Hex())
		case 1:
			if sel >= 3 {
				break
			}
			pcIn, err = embeds.SmartContract_FunToken.ABI.Pack("bankBalance", w.eths[i].EthAddr, "unibi")
		default:
			if sel >= 3 {
				break
			}
			pcIn, err = embeds.SmartContract_FunToken.ABI.Pack("whoAmI", accAddr(w.users[0]).String())
		}
		if err != nil {
			panic(err)
		}
		input = append(input, pcIn...)
		val := new(big.Int).Mul(big.NewInt(int64(m)), big.NewInt(1_000_000_000_000))
		res := r.ethTx(i, &to, val, input, 4_000_000)
		if os.Getenv("C01_DEBUG") != "" {
			ok := r.c.App.EvmKeeper.GetState(r.c.Ctx(), to, gethcommon.BigToHash(big.NewInt(99)))
			fmt.Printf("DEBUG callpc code=%d precompile_ok=%s m=%d\n", res.Code, ok.Big().String(), m)
		}
		return one(res)
	case "call":
		if len(r.contracts) == 0 {
			return none
		}
		k := op.B % len(r.contracts)
		to := r.contracts[k]
		m := r.shapes[k][1]
		base := new(big.Int).SetBytes(gethcommon.BytesToAddress(freshAddr(op.C).Bytes()).Bytes())
		input := append(gethcommon.LeftPadBytes(base.Bytes(), 32), word(uint64(op.A))...)
		val := new(big.Int).Mul(big.NewInt(int64(m)), big.NewInt(1_000_000_000_000))
		return one(r.ethTx(op.A%nEth, &to, val, input, 3_000_000))
	case "ftcreate":
		u := w.users[0]
		d := op.A % nCoins
		cmsg := &evm.MsgCreateFunToken{FromBankDenom: fmt.Sprintf("ucoin%d", d), Sender: accAddr(u).String()}
		switch op.E {
		case 1: // a denom without bank metadata
			cmsg.FromBankDenom = fmt.Sprintf("unometa%d", op.A)
		case 2: // an "ERC20" that is not a contract: fails inside the EVM calls that read its metadata
			cmsg.FromBankDenom = ""
			cmsg.FromErc20 = &eth.EIP55Addr{Address: gethcommon.BytesToAddress(freshAddr(770000 + op.A).Bytes())}
		case 3: // one of the harness contracts (no ERC20 interface)
			if len(r.contracts) > 0 {
				cmsg.FromBankDenom = ""
				cmsg.FromErc20 = &eth.EIP55Addr{Address: r.contracts[op.A%len(r.contracts)]}
			}
		}
		res := r.deliverCosmos(u, 8_000_000, Unibi(10_000_000), cmsg)
		if res.Code == 0 {
			for _, a := range EventAttrs(res.Events, "eth.evm.v1.EventFunTokenCreated") {
				var s string
				if json.Unmarshal([]byte(a["erc20_contract_address"]), &s) == nil {
					r.funtokens[d] = gethcommon.HexToAddress(s)
				}
			}
		}
		return one(res)
	case "ftconvert":
		u := w.users[0]
		camt := sdkmath.NewInt(int64(op.C))
		cidx := op.A % nCoins
		if _, ok := r.funtokens[cidx]; !ok && len(r.funtokens) > 0 {
			var ks []int // prefer a FunToken that exists (deterministic choice), so that the message gets past the lookup
			for k := range r.funtokens {
				ks = append(ks, k)
			}
			sort.Ints(ks)
			cidx = ks[op.A%len(ks)]
		}
		cdenom := fmt.Sprintf("ucoin%d", cidx)
		switch op.E {
		case 1: // more than the sender owns: fails in the bank send INSIDE the conversion
			camt = sdkmath.NewInt(3_000_000_000_000)
		case 2: // a sender who owns none of the coin
			u = w.users[1+op.B%(nUsers-1)]
		case 3: // the ERC20 representation of a coin-born FunToken sent the wrong way round
			if a, ok := r.funtokens[cidx]; ok {
				cdenom = "erc20/" + a.Hex()
			}
		}
		return one(r.deliverCosmos(u, 8_000_000, Unibi(10_000_000), &evm.MsgConvertCoinToEvm{
			Sender: accAddr(u).String(), BankCoin: sdk.NewCoin(cdenom, camt),
			ToEthAddr: eth.EIP55Addr{Address: w.eths[op.B%nEth].EthAddr}}))
	case "precompile":
		i := op.A % nEth
		var to gethcommon.Address
		var input []byte
		var err error
		erc20 := r.funtokens[op.C%nCoins]
		if _, ok := r.funtokens[op.C%nCoins]; !ok && len(r.funtokens) > 0 {
			// prefer a FunToken that exists (deterministic choice)
			var ks []int
			for k := range r.funtokens {
				ks = append(ks, k)
			}
			sort.Ints(ks)
			erc20 = r.funtokens[ks[op.C%len(ks)]]
		}
		switch op.B % 6 {
		case 0:
			to = precompile.PrecompileAddr_FunToken
			input, err = embeds.SmartContract_FunToken.ABI.Pack("whoAmI", w.eths[i].EthAddr.Hex())
		case 1:
			to = precompile.PrecompileAddr_FunToken
			input, err = embeds.SmartContract_FunToken.ABI.Pack("balance", w.eths[i].EthAddr, erc20)
		case 2:
			to = precompile.PrecompileAddr_FunToken
			input, err = embeds.SmartContract_FunToken.ABI.Pack("bankBalance", w.eths[i].EthAddr, "unibi")
		case 3:
			to = precompile.PrecompileAddr_FunToken
			samt := big.NewInt(int64(1 + op.C))
			if op.E > 0 {
				samt = new(big.Int).Lsh(big.NewInt(1), 100) // far more than the ERC20 balance: the precompile call fails after OnRunStart
			}
			input, err = embeds.SmartContract_FunToken.ABI.Pack("sendToBank", erc20, samt, accAddr(w.users[1]).String())
		case 4:
			to = precompile.PrecompileAddr_Oracle
			input, err = embeds.SmartContract_Oracle.ABI.Pack("queryExchangeRate", string(oraclePairs[op.C%len(oraclePairs)]))
		case 5:
			to = precompile.PrecompileAddr_FunToken
			input, err = embeds.SmartContract_FunToken.ABI.Pack("bankMsgSend", freshAddr(900000+op.C).String(), "unibi", big.NewInt(int64(1+op.C)))
		}
		if err != nil {
			panic(err)
		}
		return one(r.ethTx(i, &to, nil, input, 2_000_000))
	case "oracle":
		v := op.A % nVals
		key := w.valOps[v]
		valAddr := sdk.ValAddress(accAddr(key))
		period := uint64(c.Header.Height) / 4
		var out []abci.ResponseDeliverTx
		if p := r.pending[v]; p != nil && period == p.period+1 {
			out = append(out, r.deliverCosmos(key, 600_000, fee, oracletypes.NewMsgAggregateExchangeRateVote(p.salt, p.rates, accAddr(key), valAddr)))
			delete(r.pending, v)
		}
		var tuples oracletypes.ExchangeRateTuples
		for j, rate := range op.L {
			if j >= len(oraclePairs) || rate < 0 {
				continue
			}
			tuples = append(tuples, oracletypes.NewExchangeRateTuple(oraclePairs[j], sdkmath.LegacyNewDecWithPrec(int64(rate), 2)))
		}
		if len(tuples) > 0 {
			str, err := tuples.ToString()
			if err != nil {
				panic(err)
			}
			salt := fmt.Sprintf("%d", (int64(v)*977+c.Header.Height*13)%10000)
			hash := oracletypes.GetAggregateVoteHash(salt, str, valAddr)
			out = append(out, r.deliverCosmos(key, 600_000, fee, oracletypes.NewMsgAggregateExchangeRatePrevote(hash, accAddr(key), valAddr)))
			r.pending[v] = &prevote{period: period, salt: salt, rates: str}
		}
		return out
	case "sudo":
		sender := w.root
		if op.B == 1 {
			sender = w.users[1]
		}
		action := "remove_contracts"
		if op.A == 1 {
			action = "add_contracts"
		}
		var cs []string
		for _, id := range op.L {
			cs = append(cs, contractAddrStr(id))
		}
		return one(r.deliverCosmos(sender, 600_000, fee, &sudotypes.MsgEditSudoers{Action: action, Contracts: cs, Sender: accAddr(sender).String()}))
	case "tfcreate":
		u := op.A % nUsers
		sub := fmt.Sprintf("sub%d", op.B)
		res := r.deliverCosmos(w.users[u], 6_000_000, Unibi(10_000_000), &tftypes.MsgCreateDenom{Sender: accAddr(w.users[u]).String(), Subdenom: sub})
		if res.Code == 0 {
			r.tfDenoms = append(r.tfDenoms, tftypes.TFDenom{Creator: accAddr(w.users[u]).String(), Subdenom: sub}.Denom().String())
			r.tfOwner = append(r.tfOwner, u)
		}
		return one(res)
	case "tfmint", "tfburn":
		if len(r.tfDenoms) == 0 {
			return none
		}
		k := op.B % len(r.tfDenoms)
		u := r.tfOwner[k]
		if op.A >= 100 { // somebody who is not the admin
			u = (u + 1) % nUsers
		}
		coin := sdk.NewCoin(r.tfDenoms[k], sdkmath.NewInt(int64(op.C)))
		if op.Kind == "tfmint" {
			return one(r.deliverCosmos(w.users[u], 600_000, fee, &tftypes.MsgMint{Sender: accAddr(w.users[u]).String(), Coin: coin}))
		}
		return one(r.deliverCosmos(w.users[u], 600_000, fee, &tftypes.MsgBurn{Sender: accAddr(w.users[u]).String(), Coin: coin}))
	case "grant":
		g, e := op.A%nUsers, op.B%nUsers
		exp := GenesisTime.Add(1000 * 24 * time.Hour)
		msg, err := authz.NewMsgGrant(accAddr(w.users[g]), accAddr(w.users[e]), authz.NewGenericAuthorization(sdk.MsgTypeURL(&banktypes.MsgSend{})), &exp)
		if err != nil {
			panic(err)
		}
		res := r.deliverCosmos(w.users[g], 600_000, fee, msg)
		if res.Code == 0 {
			r.granted[[2]int{g, e}] = true
		}
		return one(res)
	case "exec":
		g, e := op.A%nUsers, op.B%nUsers
		inner := banktypes.NewMsgSend(accAddr(w.users[g]), freshAddr(op.C), Unibi(7))
		msg := authz.NewMsgExec(accAddr(w.users[e]), []sdk.Msg{inner})
		return one(r.deliverCosmos(w.users[e], 600_000, fee, &msg))
	case "oparams": // sudo-gated oracle params edit: whitelist with many entries, in random order, with duplicates
		sender := w.root
		if op.B == 1 {
			sender = w.users[2]
		}
		var wl []asset.Pair
		for _, id := range op.L {
			wl = append(wl, pairPool[id%len(pairPool)])
		}
		return one(r.deliverCosmos(sender, 900_000, fee, &oracletypes.MsgEditOracleParams{Sender: accAddr(sender).String(),
			Params: &oracletypes.OracleParamsMsg{Whitelist: wl}}))
	case "iparams": // sudo-gated inflation params edit: polynomial factors (repeated Dec) incl. repeated values
		sender := w.root
		if op.B == 1 {
			sender = w.users[2]
		}
		var fs []sdk.Dec
		for _, id := range op.L {
			fs = append(fs, sdkmath.LegacyNewDecWithPrec(int64(id%9)*1_000_000-3_000_000, 6))
		}
		return one(r.deliverCosmos(sender, 900_000, fee, &inflationtypes.MsgEditInflationParams{Sender: accAddr(sender).String(),
			InflationEnabled: true, PolynomialFactors: fs}))
	case "tfmeta": // bank metadata of a tokenfactory denom with many denom units / aliases (A: 0 admin, 1 sudo, 2 stranger)
		if len(r.tfDenoms) == 0 {
			return none
		}
		k := op.B % len(r.tfDenoms)
		base := r.tfDenoms[k]
		md := banktypes.Metadata{Base: base, Display: base, Name: fmt.Sprintf("tf%d", k), Symbol: fmt.Sprintf("TF%d", k),
			DenomUnits: []*banktypes.DenomUnit{{Denom: base, Exponent: 0}}}
		for j, id := range op.L {
			var al []string
			for a := 0; a <= id%4; a++ {
				al = append(al, fmt.Sprintf("al%dx%d", id, a))
			}
			md.DenomUnits = append(md.DenomUnits, &banktypes.DenomUnit{Denom: fmt.Sprintf("unit%d", id), Exponent: uint32(j + 1), Aliases: al})
		}
		switch op.A % 3 {
		case 1:
			return one(r.deliverCosmos(w.root, 1_500_000, fee, &tftypes.MsgSudoSetDenomMetadata{Sender: accAddr(w.root).String(), Metadata: md}))
		case 2:
			u := w.users[(r.tfOwner[k]+1)%nUsers]
			return one(r.deliverCosmos(u, 1_500_000, fee, &tftypes.MsgSetDenomMetadata{Sender: accAddr(u).String(), Metadata: md}))
		default:
			u := w.users[r.tfOwner[k]]
			return one(r.deliverCosmos(u, 1_500_000, fee, &tftypes.MsgSetDenomMetadata{Sender: accAddr(u).String(), Metadata: md}))
		}
	case "ethacl": // EVM transfer carrying an access list with many (repeated) addresses and storage keys
		var al gethcore.AccessList
		for _, id := range op.L {
			t := gethcore.AccessTuple{Address: gethcommon.BytesToAddress(freshAddr(500000 + id%7).Bytes())}
			for kx := 0; kx <= id%3; kx++ {
				t.StorageKeys = append(t.StorageKeys, gethcommon.BigToHash(big.NewInt(int64(id%5+kx))))
			}
			al = append(al, t)
		}
		i := op.A % nEth
		to := gethcommon.BytesToAddress(freshAddr(op.B).Bytes())
		msg, err := c.SignEth(w.eths[i], &evm.EvmTxArgs{Nonce: r.ethNonce(i), GasLimit: 400_000, GasPrice: gasPrice, To: &to,
			Amount: big.NewInt(int64(op.C) * 1_000_000_000_000), Accesses: &al})
		if err != nil {
			return one(abci.ResponseDeliverTx{Code: 9998, Log: err.Error()})
		}
		return one(r.deliverEth(msg))
	case "govparams": // gov proposal carrying a module params update with list-valued fields; the validators vote yes
		auth := authtypes.NewModuleAddress(govtypes.ModuleName).String()
		var inner sdk.Msg
		if op.A%2 == 0 {
			p := evm.DefaultParams()
			for _, id := range op.L {
				p.EVMChannels = append(p.EVMChannels, fmt.Sprintf("channel-%d", id))
			}
			inner = &evm.MsgUpdateParams{Authority: auth, Params: p}
		} else {
			p := devgastypes.DefaultParams()
			p.AllowedDenoms = nil
			for _, id := range op.L {
				p.AllowedDenoms = append(p.AllowedDenoms, fmt.Sprintf("ucoin%d", id))
			}
			inner = &devgastypes.MsgUpdateParams{Authority: auth, Params: p}
		}
		u := w.users[op.B%nUsers]
		sp, err := govv1.NewMsgSubmitProposal([]sdk.Msg{inner}, Unibi(2_000_000), accAddr(u).String(), "", "params", "list-valued params")
		if err != nil {
			panic(err)
		}
		out := []abci.ResponseDeliverTx{r.deliverCosmos(u, 2_000_000, fee, sp)}
		if out[0].Code == 0 {
			r.nProposals++
			for _, v := range w.valOps {
				out = append(out, r.deliverCosmos(v, 600_000, fee, govv1.NewMsgVote(accAddr(v), uint64(r.nProposals), govv1.OptionYes, "")))
			}
		}
		return out
	case "delegate":
		u := w.users[op.A%nUsers]
		val := sdk.ValAddress(accAddr(w.valOps[op.B%nVals]))
		damt := sdkmath.NewInt(int64(op.C) * 1_000_000)
		if op.E > 0 {
			damt = sdkmath.NewInt(4_000_000_000_000_000_000)
		}
		return one(r.deliverCosmos(u, 800_000, fee, stakingtypes.NewMsgDelegate(accAddr(u), val, sdk.NewCoin("unibi", damt))))
	}
	return none
}

// ------------------------------------------------------------------ differential

type blockDigest struct {
	all      string   // digest of everything the property speaks about in this block
	parts    []string // app hash, tx results, validator updates separately (for localisation)
	codes    []uint32
	nvu      int
	preAnte  string // digest of the GasUsed values of txs rejected before the ante handler
	nPreAnte int
	preGas   []int64
	txs      []string // per delivered tx: kind + projected result (localisation only)
	kinds    []string // per delivered tx: "<op kind>/ok" or "<op kind>/fail"
	stores   map[string]string
}

func (r *replica) runBlock(b c01Block, wantStores bool) blockDigest {
	c := r.c
	dt := b.Dt
	if dt <= 0 {
		dt = 5
	}
	if r.pt.restart > 0 && (b.R == 1 || r.blockIdx%r.pt.restart == r.pt.restart-1) {
		r.restartApp()
	}
	c.BeginBlock(time.Duration(dt) * time.Second)
	h := sha256.New()
	txh := sha256.New()
	pah := sha256.New()
	npre := 0
	var preGas []int64
	var codes []uint32
	var kinds []string
	var txs []string
	for _, op := range b.Ops {
		for _, res := range r.apply(op) {
			if res.Code != 0 && res.GasWanted == 0 {
				// rejected before the ante handler installed the tx gas meter: GasUsed is whatever the block's
				// context meter has accumulated; compared on its own channel (see README, finding "pre-ante gas")
				fmt.Fprintf(txh, "%d|%x|%d|pre-ante;", res.Code, res.Data, res.GasWanted)
				fmt.Fprintf(pah, "%d;", res.GasUsed)
				preGas = append(preGas, res.GasUsed)
				npre++
			} else {
				fmt.Fprintf(txh, "%d|%x|%d|%d;", res.Code, res.Data, res.GasWanted, res.GasUsed)
			}
			codes = append(codes, res.Code)
			dh := sha256.Sum256(res.Data)
			txs = append(txs, fmt.Sprintf("%s code=%d gasWanted=%d gasUsed=%d data=%x", op.Kind, res.Code, res.GasWanted, res.GasUsed, dh[:6]))
			if res.Code == 0 {
				kinds = append(kinds, op.Kind+"/ok")
			} else {
				kinds = append(kinds, op.Kind+"/fail")
				if os.Getenv("C01_DEBUG") != "" {
					fmt.Printf("FAIL %s %+v code=%d %.300s\n", op.Kind, op, res.Code, res.Log)
				}
			}
		}
	}
	eb, appHash := c.EndBlock()
	if r.pt.queries {
		r.queryBatch(r.blockIdx)
	}
	r.blockIdx++
	vu := sha256.New()
	for _, u := range eb.ValidatorUpdates {
		bz, _ := u.Marshal()
		fmt.Fprintf(vu, "%x;", bz)
	}
	parts := []string{hex.EncodeToString(appHash), hex.EncodeToString(txh.Sum(nil)), hex.EncodeToString(vu.Sum(nil))}
	for _, p := range parts {
		h.Write([]byte(p))
	}
	d := blockDigest{all: hex.EncodeToString(h.Sum(nil)), parts: parts, codes: codes, kinds: kinds, nvu: len(eb.ValidatorUpdates), txs: txs,
		preAnte: hex.EncodeToString(pah.Sum(nil)), nPreAnte: npre, preGas: preGas}
	if wantStores {
		d.stores = r.storeDigests()
	}
	return d
}

func (r *replica) storeDigests() map[string]string {
	out := map[string]string{}
	for _, k := range r.c.App.GetStoreKeys() {
		kv, ok := k.(*storetypes.KVStoreKey) // IAVL stores only: memory / transient stores are not part of the app hash
		if !ok {
			continue
		}
		func() {
			defer func() { _ = recover() }()
			st := r.c.App.CommitMultiStore().GetKVStore(k)
			it := st.Iterator(nil, nil)
			defer it.Close()
			h := sha256.New()
			for ; it.Valid(); it.Next() {
				fmt.Fprintf(h, "%x=%x;", it.Key(), it.Value())
			}
			out[kv.Name()] = hex.EncodeToString(h.Sum(nil))
		}()
	}
	return out
}

const nReplicas = 3

type diffObs struct {
	Replicas        [][]int        `json:"replicas"` // per replica: id of the block digest, per block
	Differs         []string       `json:"differs"`  // which observable / module stores differ at the first differing block
	Kinds           map[string]int `json:"kinds"`    // replica 0: delivered txs per op kind and outcome (input distribution only)
	NTx             int            `json:"ntx"`
	NValUpd         int            `json:"nvalupd"`     // blocks with a non-empty validator update (replica 0)
	PreAnteGas      [][]int        `json:"preante_gas"` // per in-process replica: ids of the GasUsed of txs rejected before the ante handler
	NPreAnte        int            `json:"npreante"`
	PreAnteMaxDelta int64          `json:"preante_max_delta"` // largest |GasUsed difference| of such a tx between replica 0 and another replica
	Queries         [2]int         `json:"queries"`           // replica 1: read-only requests answered between blocks (sent, succeeded)
	Restarts        int            `json:"restarts"`          // replica 2: restarts from its database
	CheckTxs        int            `json:"checktxs"`          // replica 2: CheckTx / ReCheckTx calls
	Child           bool           `json:"child"`             // the last row of Replicas comes from a separate process
	Slow            bool           `json:"slow"`              // row nReplicas of Replicas comes from the replica with injected delays
	SlowYields      int            `json:"slow_yields"`       // slow replica: store operations that were yield points
	SlowStalls      int            `json:"slow_stalls"`       // slow replica: long stalls taken (while an application goroutine was alive)
	SlowShort       int            `json:"slow_short"`        // slow replica: short delays taken
}

// childDigests runs the history in a SEPARATE PROCESS (own heap layout, own map hash seeds, own
// goroutine scheduling) and returns its per-block digests.
func childDigests(in c01Input) ([]string, error) {
	f, err := os.CreateTemp("", "c01-child-*.json")
	if err != nil {
		return nil, err
	}
	defer os.Remove(f.Name())
	bz, _ := json.Marshal(in)
	f.Write(bz)
	f.Close()
	out := f.Name() + ".out"
	defer os.Remove(out)
	cmd := exec.Command(os.Args[0], "-test.run", "^TestC01$", "-test.count=1")
	cmd.Env = append(os.Environ(), "C01_CHILD_IN="+f.Name(), "C01_CHILD_OUT="+out)
	if o, err := cmd.CombinedOutput(); err != nil {
		return nil, fmt.Errorf("child: %v: %.500s", err, o)
	}
	res, err := os.ReadFile(out)
	if err != nil {
		return nil, err
	}
	var ds []string
	if err := json.Unmarshal(res, &ds); err != nil {
		return nil, err
	}
	return ds, nil
}

func runChild(inPath, outPath string) error {
	bz, err := os.ReadFile(inPath)
	if err != nil {
		return err
	}
	var in c01Input
	if err := json.Unmarshal(bz, &in); err != nil {
		return err
	}
	r := newWorld().newReplica()
	ds := []string{}
	for _, b := range in.Blocks {
		ds = append(ds, r.runBlock(b, false).all)
	}
	out, _ := json.Marshal(ds)
	return os.WriteFile(outPath, out, 0o644)
}

func runDiff(w *world, in c01Input, withChild bool) diffObs {
	reps := make([]*replica, nReplicas)
	for i := range reps {
		reps[i] = w.newReplica()
	}
	// replica 0 only executes blocks; replica 1 also serves queries; replica 2 sees every tx in CheckTx first and is restarted
	// from its database every third block.  None of this may change what is committed.
	if !in.Plain {
		reps[1].pt = perturb{queries: true}
		reps[2].pt = perturb{checkTx: true, restart: 3}
	}
	if in.Lag != nil {
		reps = append(reps, w.newSlowReplica(*in.Lag))
	}
	nReps := len(reps)
	obs := diffObs{Replicas: [][]int{}, PreAnteGas: [][]int{}, Differs: []string{}, Kinds: map[string]int{}}
	digests := make([][]string, nReps)
	preAnte := make([][]string, nReps)
	located := false
	for _, b := range in.Blocks {
		ds := make([]blockDigest, nReps)
		for i, r := range reps {
			ds[i] = r.runBlock(b, false)
			digests[i] = append(digests[i], ds[i].all)
			preAnte[i] = append(preAnte[i], ds[i].preAnte)
		}
		for _, k := range ds[0].kinds {
			obs.Kinds[k]++
		}
		if ds[0].nvu > 0 {
			obs.NValUpd++
		}
		obs.NTx += len(ds[0].codes)
		obs.NPreAnte += ds[0].nPreAnte
		for i := 1; i < nReps; i++ {
			for t := range ds[0].preGas {
				if t < len(ds[i].preGas) {
					d := ds[i].preGas[t] - ds[0].preGas[t]
					if d < 0 {
						d = -d
					}
					if d > obs.PreAnteMaxDelta {
						obs.PreAnteMaxDelta = d
					}
				}
			}
		}
		if !located {
			for i := 1; i < nReps; i++ {
				if ds[i].all == ds[0].all && ds[i].preAnte != ds[0].preAnte {
					located = true
					obs.Differs = append(obs.Differs, "preante-gas")
					for t := range ds[0].txs {
						if t < len(ds[i].txs) && ds[i].txs[t] != ds[0].txs[t] {
							obs.Differs = append(obs.Differs, fmt.Sprintf("tx#%d replica0{%s} replica%d{%s}", t, ds[0].txs[t], i, ds[i].txs[t]))
							break
						}
					}
					break
				}
				if ds[i].all != ds[0].all {
					located = true
					if reps[i].lag != nil {
						obs.Differs = append(obs.Differs, "slow-replica")
					}
					names := []string{"apphash", "txresults", "valupdates"}
					for p := range ds[0].parts {
						if ds[i].parts[p] != ds[0].parts[p] {
							obs.Differs = append(obs.Differs, names[p])
						}
					}
					for t := range ds[0].txs {
						if t < len(ds[i].txs) && ds[i].txs[t] != ds[0].txs[t] {
							// which tx, which field: op kind and projected result on both replicas
							obs.Differs = append(obs.Differs, fmt.Sprintf("tx#%d replica0{%s} replica%d{%s}", t, ds[0].txs[t], i, ds[i].txs[t]))
							break
						}
					}
					s0, si := reps[0].storeDigests(), reps[i].storeDigests()
					var mods []string
					for k, v := range s0 {
						if si[k] != v {
							mods = append(mods, "store:"+k)
						}
					}
					sort.Strings(mods)
					obs.Differs = append(obs.Differs, mods...)
					break
				}
			}
		}
	}
	obs.Queries = [2]int{reps[1].nQueries, reps[1].nQueryOK}
	obs.Restarts = reps[2].nRestarts
	obs.CheckTxs = reps[2].nCheckTx
	if in.Lag != nil {
		lg := reps[nReps-1].lag
		obs.Slow, obs.SlowYields, obs.SlowStalls, obs.SlowShort = true, lg.nYield, lg.nStalls, lg.nShort
	}
	if withChild {
		ds, err := childDigests(in)
		if err != nil {
			panic(err)
		}
		digests = append(digests, ds)
		obs.Child = true
		if !located && fmt.Sprint(ds) != fmt.Sprint(digests[0]) {
			obs.Differs = append(obs.Differs, "separate-process")
		}
	}
	pids := map[string]int{}
	for _, dl := range preAnte {
		row := []int{}
		for _, d := range dl {
			id, ok := pids[d]
			if !ok {
				id = len(pids)
				pids[d] = id
			}
			row = append(row, id)
		}
		obs.PreAnteGas = append(obs.PreAnteGas, row)
	}
	// small ids in first-appearance order: equal ids iff equal bytes
	ids := map[string]int{}
	for _, dl := range digests {
		row := []int{}
		for _, d := range dl {
			id, ok := ids[d]
			if !ok {
				id = len(ids)
				ids[d] = id
			}
			row = append(row, id)
		}
		obs.Replicas = append(obs.Replicas, row)
	}
	if os.Getenv("C01_DEBUG") != "" {
		r := reps[0]
		r.c.BeginBlock(5 * time.Second)
		ctx := r.c.Ctx()
		n := 0
		r.c.App.AccountKeeper.IterateAccounts(ctx, func(authtypes.AccountI) bool { n++; return false })
		rates := r.c.App.OracleKeeper.ExchangeRates.Iterate(ctx, collections.Range[asset.Pair]{}).KeyValues()
		miss := r.c.App.OracleKeeper.MissCounters.Iterate(ctx, collections.Range[sdk.ValAddress]{}).KeyValues()
		su, _ := r.c.App.SudoKeeper.Sudoers.Get(ctx)
		op, _ := r.c.App.OracleKeeper.Params.Get(ctx)
		fmt.Printf("DEBUG whitelist=%v evmchannels=%v devgas=%v infl=%v\n", op.Whitelist, r.c.App.EvmKeeper.GetParams(ctx).EVMChannels,
			r.c.App.DevGasKeeper.GetParams(ctx).AllowedDenoms, r.c.App.InflationKeeper.GetPolynomialFactors(ctx))
		fmt.Printf("DEBUG accounts=%d rates=%v miss=%v sudo=%d\n", n, rates, miss, len(su.Contracts))
		for _, v := range r.c.App.StakingKeeper.GetAllValidators(ctx) {
			fmt.Printf("DEBUG val %s status=%v jailed=%v tokens=%s rewards=%v\n", v.OperatorAddress[:20], v.Status, v.Jailed, v.Tokens, r.c.App.DistrKeeper.GetValidatorOutstandingRewardsCoins(ctx, v.GetOperator()))
		}
	}
	return obs
}

// ------------------------------------------------------------------ generators

func genDiff(r *Rng, opener int) c01Input {
	in := c01Input{T: "diff"}
	nb := r.Range(9, 13)
	fresh := 1000 + r.Intn(1000)*50
	next := func() int { fresh++; return fresh }
	prevFailed := false
	// wasm + x/devgas: contracts registered for fee share with withdrawers that have no account yet, executed several per tx
	wasmH, nWasm := opener == 9 || r.Chance(1, 3), 0
	for b := 0; b < nb; b++ {
		blk := c01Block{Dt: 5}
		if wasmH && b == 0 {
			nWasm = r.Range(3, 6)
			blk.Ops = append(blk.Ops, c01Op{Kind: "wasmdeploy", A: r.Intn(nUsers), C: nWasm})
			for i := 0; i < nWasm; i++ {
				blk.Ops = append(blk.Ops, c01Op{Kind: "dgreg", A: i, B: next()})
			}
		}
		if wasmH && b > 0 && (opener == 9 || r.Chance(1, 2)) {
			for i, k := 0, r.Intn(3); i < k && b > 1; i++ { // move some registrations to new fresh withdrawers
				blk.Ops = append(blk.Ops, c01Op{Kind: "dgreg", A: r.Intn(nWasm), B: next()})
			}
			var l []int
			for i, k, st := 0, r.Range(2, nWasm), r.Intn(nWasm); i < k; i++ {
				l = append(l, (st+i)%nWasm)
			}
			blk.Ops = append(blk.Ops, c01Op{Kind: "wasmexec", A: r.Intn(nUsers), L: l})
		}
		if r.Chance(1, 6) {
			blk.Dt = 90_000 // cross a day: epochs + inflation
		}
		// every validator feeds the oracle in most blocks (so that reveals and tallies happen)
		for v := 0; v < nVals; v++ {
			if opener == 8 {
				// dense oracle rounds: every validator prices every pair in every block, so that every vote-period end
				// tallies several pairs (the loops that consume omap.Range do real work)
				blk.Ops = append(blk.Ops, c01Op{Kind: "oracle", A: v, L: []int{100 + r.Intn(20), 100 + r.Intn(20), 100 + r.Intn(20)}})
				continue
			}
			if r.Chance(5, 6) {
				var rates []int
				for range oraclePairs {
					switch r.Pick(6, 1, 1) {
					case 0:
						rates = append(rates, 100+r.Intn(20))
					case 1:
						rates = append(rates, 0)
					default:
						rates = append(rates, -1)
					}
				}
				blk.Ops = append(blk.Ops, c01Op{Kind: "oracle", A: v, L: rates})
			}
		}
		n := r.Range(2, 6)
		if b == 0 {
			blk.Ops = append(blk.Ops, c01Op{Kind: "ftcreate", A: r.Intn(nCoins)}, c01Op{Kind: "grant", A: 0, B: 1}, c01Op{Kind: "tfcreate", A: r.Intn(nUsers), B: 0})
		}
		if opener == 1 && b < 3 {
			// historic failure shape: several sudo contracts in one edit
			blk.Ops = append(blk.Ops, c01Op{Kind: "sudo", A: 1, L: []int{4 * b, 4*b + 1, 4*b + 2, 4*b + 3}})
		}
		if opener == 4 && b < 4 {
			// a sudo-signed whitelist edit listing one pair twice among many
			l := []int{5, 0, 9, 3, 1, 11, 7, 2, 4, 9, 13, 6}
			l[b], l[11-b] = l[11-b], l[b]
			blk.Ops = append(blk.Ops, c01Op{Kind: "oparams", L: l}, c01Op{Kind: "iparams", L: []int{1, 4, 4, 2, 7, 1}})
		}
		if opener == 4 && b == 4 {
			blk.Ops = append(blk.Ops, c01Op{Kind: "govparams", A: 0, B: 1, L: []int{3, 1, 4, 1, 5, 2, 6, 5, 3}}, c01Op{Kind: "govparams", A: 1, B: 2, L: []int{2, 0, 1, 2, 0, 1, 2, 0}})
		}
		if opener == 7 {
			// failing Cosmos-side FunToken messages, then a restart of the perturbed replica, then EVM messages
			switch {
			case b == 0:
				blk.Ops = append(blk.Ops, c01Op{Kind: "ftcreate", A: 0}, c01Op{Kind: "ftcreate", A: 1}, c01Op{Kind: "deploy", A: 0, B: 2, C: 3})
			case b%2 == 1:
				blk.Ops = append(blk.Ops, c01Op{Kind: "ftconvert", A: b % 2, B: b, C: 10 + b, E: 1 + (b/2)%3},
					c01Op{Kind: "ftcreate", A: b, E: 1 + (b/2)%3})
			default:
				blk.R = 1
				blk.Ops = append(blk.Ops, c01Op{Kind: "ethsend", A: b, B: next(), C: 3}, c01Op{Kind: "ftconvert", A: 0, B: b, C: 25},
					c01Op{Kind: "precompile", A: b, B: b % 6, C: b}, c01Op{Kind: "call", A: b, B: 0, C: next() * 16})
			}
		}
		if opener == 6 {
			// precompile QUERY methods from txs (balance / bankBalance / whoAmI / oracle query) on FunTokens created earlier
			if b == 0 {
				blk.Ops = append(blk.Ops, c01Op{Kind: "ftcreate", A: 0}, c01Op{Kind: "ftcreate", A: 1}, c01Op{Kind: "ftconvert", A: 0, B: 0, C: 50})
			} else if b < 7 {
				blk.Ops = append(blk.Ops, c01Op{Kind: "precompile", A: b, B: 1, C: b % 2}, c01Op{Kind: "precompile", A: b + 1, B: b % 6, C: b})
			}
		}
		if opener == 5 && b < 6 {
			// unknown selectors / truncated / malformed calldata straight at each precompile
			for which := 0; which < 3; which++ {
				blk.Ops = append(blk.Ops, c01Op{Kind: "pcraw", A: which, B: which, C: (b + which) % 8, L: []int{17*b + which}})
			}
			blk.Ops = append(blk.Ops, c01Op{Kind: "pcraw", A: b, B: b, C: 0, L: []int{b}})
		}
		if opener == 3 && b == 0 {
			blk.Ops = append(blk.Ops, c01Op{Kind: "deploy", A: 0, B: 2, C: 10, L: []int{1}})
		}
		if opener == 3 && b > 0 && b < 6 {
			blk.Ops = append(blk.Ops, c01Op{Kind: "callpc", A: b, B: 0, C: next() * 16, L: []int{b}})
		}
		if opener == 0 && b == 0 && r.Chance(2, 3) {
			blk.Ops = append(blk.Ops, c01Op{Kind: "deploy", A: r.Intn(nEth), B: r.Range(1, 3), C: r.Range(8, 12), L: []int{1}})
		}
		if opener == 2 && b == 0 {
			blk.Ops = append(blk.Ops, c01Op{Kind: "deploy", A: 0, B: 4, C: 4})
		}
		if opener == 2 && b > 0 && b < 4 {
			blk.Ops = append(blk.Ops, c01Op{Kind: "call", A: b, B: 0, C: next() * 16})
		}
		for i := 0; i < n; i++ {
			// list-valued fields: many entries, random order, duplicates
			manyDup := func(lo, hi, mod int) []int {
				n := r.Range(lo, hi)
				var l []int
				for j := 0; j < n; j++ {
					l = append(l, r.Intn(mod))
				}
				if n >= 2 && r.Chance(4, 5) { // force at least one repeat
					l[r.Intn(n)] = l[r.Intn(n)]
					l = append(l, l[r.Intn(len(l))])
				}
				return l
			}
			if r.Chance(1, 7) {
				// hostile calldata sent straight to a precompile (the VM error travels in ResponseDeliverTx.Data)
				blk.Ops = append(blk.Ops, c01Op{Kind: "pcraw", A: r.Intn(nEth), B: r.Intn(3), C: r.Intn(8), L: []int{r.Intn(200)}})
				continue
			}
			if r.Chance(1, 25) {
				blk.Ops = append(blk.Ops, c01Op{Kind: "callpc", A: r.Intn(200), B: r.Intn(4), C: next() * 16, L: []int{3 + r.Intn(8), r.Intn(200)}})
				continue
			}
			switch r.Pick(30, 3, 1, 2, 2, 1, 2) {
			case 1:
				l := append([]int{0, 1, 2}, manyDup(5, 10, len(pairPool))...)
				for j := len(l) - 1; j > 0; j-- { // shuffle
					k := r.Intn(j + 1)
					l[j], l[k] = l[k], l[j]
				}
				sender := 0
				if r.Chance(1, 10) {
					sender = 1
				}
				blk.Ops = append(blk.Ops, c01Op{Kind: "oparams", B: sender, L: l})
				continue
			case 2:
				fl := manyDup(6, 6, 9)
				if r.Chance(9, 10) {
					fl = fl[:6]
				}
				blk.Ops = append(blk.Ops, c01Op{Kind: "iparams", B: r.Pick(8, 1), L: fl})
				continue
			case 3:
				l := manyDup(6, 10, 40)
				if r.Chance(2, 3) { // bank metadata rejects repeated units: mostly distinct
					l = nil
					for j, n := 0, r.Range(8, 11); j < n; j++ {
						l = append(l, 3*j+r.Intn(3))
					}
				}
				blk.Ops = append(blk.Ops, c01Op{Kind: "tfmeta", A: r.Intn(3), B: r.Intn(8), L: l})
				continue
			case 4:
				blk.Ops = append(blk.Ops, c01Op{Kind: "ethacl", A: r.Intn(nEth), B: next(), C: 1 + r.Intn(9), L: manyDup(8, 12, 30)})
				continue
			case 5:
				blk.Ops = append(blk.Ops, c01Op{Kind: "govparams", A: r.Intn(2), B: r.Intn(nUsers), L: manyDup(8, 12, 9)})
				continue
			case 6:
				blk.Ops = append(blk.Ops, c01Op{Kind: "sudo", A: r.Pick(3, 1), L: manyDup(8, 12, 24)})
				continue
			}
			switch r.Pick(3, 2, 3, 4, 2, 2, 3, 5, 2, 2, 1, 2, 2, 2, 4, 1) {
			case 14:
				blk.Ops = append(blk.Ops, c01Op{Kind: "callpc", A: r.Intn(200), B: r.Intn(4), C: next() * 16, L: []int{r.Intn(3)}})
				continue
			case 15:
				blk.Ops = append(blk.Ops, c01Op{Kind: "deploy", A: r.Intn(nEth), B: r.Range(1, 3), C: r.Range(2, 12), L: []int{1}})
				continue
			}
			switch r.Pick(3, 2, 3, 4, 2, 2, 3, 5, 2, 2, 1, 2, 2, 2) {
			case 0:
				blk.Ops = append(blk.Ops, c01Op{Kind: "bank", A: r.Intn(nUsers), B: r.Pick(1, 1)*next() + r.Intn(nUsers)*0, C: 1 + r.Intn(1000)})
			case 1:
				blk.Ops = append(blk.Ops, c01Op{Kind: "ethsend", A: r.Intn(nEth), B: next(), C: 1 + r.Intn(50)})
			case 2:
				blk.Ops = append(blk.Ops, c01Op{Kind: "deploy", A: r.Intn(nEth), B: r.Range(1, 5), C: r.Range(0, 4)})
			case 3:
				blk.Ops = append(blk.Ops, c01Op{Kind: "call", A: r.Intn(200), B: r.Intn(8), C: next() * 16})
			case 4:
				blk.Ops = append(blk.Ops, c01Op{Kind: "ftcreate", A: r.Intn(nCoins)})
			case 5:
				blk.Ops = append(blk.Ops, c01Op{Kind: "ftconvert", A: r.Intn(nCoins), B: r.Intn(nEth), C: 1 + r.Intn(500)})
			case 6:
				blk.Ops = append(blk.Ops, c01Op{Kind: "precompile", A: r.Intn(nEth), B: r.Intn(6), C: r.Intn(40)})
			case 7:
				k := r.Range(3, 6)
				var l []int
				for j := 0; j < k; j++ {
					l = append(l, r.Intn(24))
				}
				sender := 0
				if r.Chance(1, 8) {
					sender = 1
				}
				blk.Ops = append(blk.Ops, c01Op{Kind: "sudo", A: r.Pick(3, 1), B: sender, L: l})
			case 8:
				blk.Ops = append(blk.Ops, c01Op{Kind: "tfcreate", A: r.Intn(nUsers), B: r.Intn(6)})
			case 9:
				a := 0
				if r.Chance(1, 6) {
					a = 100
				}
				blk.Ops = append(blk.Ops, c01Op{Kind: []string{"tfmint", "tfmint", "tfburn"}[r.Intn(3)], A: a, B: r.Intn(8), C: 1 + r.Intn(900)})
			case 10:
				blk.Ops = append(blk.Ops, c01Op{Kind: "grant", A: r.Intn(nUsers), B: r.Intn(nUsers)})
			case 11:
				blk.Ops = append(blk.Ops, c01Op{Kind: "exec", A: r.Intn(nUsers), B: r.Intn(nUsers), C: next()})
			case 12:
				blk.Ops = append(blk.Ops, c01Op{Kind: "delegate", A: r.Intn(nUsers), B: r.Intn(nVals), C: 1 + r.Intn(3)})
			case 13:
				k := r.Range(2, 4)
				var l []int
				for j := 0; j < k; j++ {
					l = append(l, next())
				}
				blk.Ops = append(blk.Ops, c01Op{Kind: "multisend", A: r.Intn(nUsers), C: 1 + r.Intn(9), L: l})
			}
		}
		// error paths: roughly one op in five fails WHILE EXECUTING (not in ValidateBasic): insufficient funds, missing
		// metadata, non-contract ERC20, intrinsic gas, future nonce, over-large precompile amounts
		failedFunToken := false
		for j := range blk.Ops {
			switch blk.Ops[j].Kind {
			case "bank", "delegate", "ethsend", "ftconvert", "ftcreate", "precompile":
				if r.Chance(1, 5) {
					blk.Ops[j].E = 1 + r.Intn(3)
				}
			}
			if blk.Ops[j].E > 0 && (blk.Ops[j].Kind == "ftconvert" || blk.Ops[j].Kind == "ftcreate" || blk.Ops[j].Kind == "precompile") {
				failedFunToken = true
			}
		}
		// restarts of the perturbed replica: at random, and preferably right after a block in which a FunToken / EVM
		// message failed, with EVM traffic first thing after the restart
		if b > 0 && (r.Chance(1, 6) || (prevFailed && r.Chance(2, 3))) {
			blk.R = 1
			if prevFailed {
				pre := []c01Op{{Kind: "ethsend", A: r.Intn(nEth), B: next(), C: 1 + r.Intn(20)},
					{Kind: "ftconvert", A: r.Intn(nCoins), B: r.Intn(nEth), C: 1 + r.Intn(300)}}
				blk.Ops = append(pre, blk.Ops...)
			}
		}
		prevFailed = failedFunToken
		in.Blocks = append(in.Blocks, blk)
	}
	return in
}

func genSudo(r *Rng) c01Input {
	in := c01Input{T: "sudo"}
	n := r.Range(3, 8)
	for i := 0; i < n; i++ {
		k := r.Range(1, 7)
		var cs []int
		for j := 0; j < k; j++ {
			id := r.Intn(16)
			if r.Chance(1, 25) {
				id = -1 - r.Intn(3)
			}
			cs = append(cs, id)
		}
		st := sudoStep{Add: r.Chance(2, 3), Cs: cs}
		if r.Chance(1, 10) {
			st.Sender = 1
		}
		in.Steps = append(in.Steps, st)
	}
	return in
}

func genOmap(r *Rng) c01Input {
	in := c01Input{T: "omap"}
	ks := func(lo, hi int) []int {
		n := r.Range(lo, hi)
		var out []int
		for i := 0; i < n; i++ {
			out = append(out, r.Intn(30))
		}
		return out
	}
	in.Ops = append(in.Ops, omapOp{Op: "build", Ks: ks(0, 8)})
	n := r.Range(3, 10)
	for i := 0; i < n; i++ {
		switch r.Pick(4, 3, 2) {
		case 0:
			in.Ops = append(in.Ops, omapOp{Op: "set", Ks: []int{r.Intn(30)}})
		case 1:
			in.Ops = append(in.Ops, omapOp{Op: "del", Ks: []int{r.Intn(30)}})
		default:
			in.Ops = append(in.Ops, omapOp{Op: "union", Ks: ks(0, 6)})
		}
	}
	return in
}

// ------------------------------------------------------------------ sub-model drivers

type sudoObs struct {
	Init  []int     `json:"init"`
	Steps []sudoRes `json:"steps"`
}
type sudoRes struct {
	Cs    []int `json:"cs"` // contracts of the message as order-preserving ids (invalid address = -1)
	OK    bool  `json:"ok"`
	After []int `json:"after"`
}

func runSudo(in c01Input) sudoObs {
	napp, ctx := testapp.NewNibiruTestAppAndContext()
	ms := sudokeeper.NewMsgServer(napp.SudoKeeper)
	cur, err := napp.SudoKeeper.Sudoers.Get(ctx)
	if err != nil {
		panic(err)
	}
	root := cur.Root
	other := freshAddr(77).String()
	// order-preserving ids: rank of the bech32 string among all strings of the case
	all := map[string]bool{}
	for _, c := range cur.Contracts {
		all[c] = true
	}
	for _, st := range in.Steps {
		for _, id := range st.Cs {
			if id >= 0 {
				all[contractAddrStr(id)] = true
			}
		}
	}
	var sorted []string
	for s := range all {
		sorted = append(sorted, s)
	}
	sort.Strings(sorted)
	rank := map[string]int{}
	for i, s := range sorted {
		rank[s] = i
	}
	ranks := func(ss []string) []int {
		out := []int{}
		for _, s := range ss {
			out = append(out, rank[s])
		}
		return out
	}
	obs := sudoObs{Init: ranks(cur.Contracts), Steps: []sudoRes{}}
	for _, st := range in.Steps {
		action := "remove_contracts"
		if st.Add {
			action = "add_contracts"
		}
		var cs []string
		rcs := []int{}
		for _, id := range st.Cs {
			s := contractAddrStr(id)
			cs = append(cs, s)
			if id >= 0 {
				rcs = append(rcs, rank[s])
			} else {
				rcs = append(rcs, -1)
			}
		}
		sender := root
		if st.Sender == 1 {
			sender = other
		}
		msg := &sudotypes.MsgEditSudoers{Action: action, Contracts: cs, Sender: sender}
		var e error
		if e = msg.ValidateBasic(); e == nil {
			_, e = ms.EditSudoers(sdk.WrapSDKContext(ctx), msg)
		}
		now, err := napp.SudoKeeper.Sudoers.Get(ctx)
		if err != nil {
			panic(err)
		}
		obs.Steps = append(obs.Steps, sudoRes{Cs: rcs, OK: e == nil, After: ranks(now.Contracts)})
	}
	return obs
}

func keyStr(k int) string { return fmt.Sprintf("k%04d", k) }

func runOmap(in c01Input) [][]int {
	var om omap.SortedMap[string, int]
	out := [][]int{}
	for _, op := range in.Ops {
		switch op.Op {
		case "build":
			m := map[string]int{}
			for _, k := range op.Ks {
				m[keyStr(k)] = k
			}
			om = omap.SortedMap_String(m)
		case "set":
			om.Set(keyStr(op.Ks[0]), op.Ks[0])
		case "del":
			om.Delete(keyStr(op.Ks[0]))
		case "union":
			m := map[string]int{}
			for _, k := range op.Ks {
				m[keyStr(k)] = k
			}
			om.Union(m)
		}
		ks := []int{}
		for _, s := range om.Keys() {
			var n int
			fmt.Sscanf(s, "k%d", &n)
			ks = append(ks, n)
		}
		out = append(out, ks)
	}
	return out
}

// runRange consumes `for k := range om.Range()` of the real SortedMap once per clock: clock[i] = milliseconds the consumer
// spends before its (i+1)-th receive.
func runRange(in c01Input) [][]int {
	m := map[string]int{}
	for _, k := range in.Keys {
		m[keyStr(k)] = k
	}
	out := [][]int{}
	for _, clock := range in.Delays {
		om := omap.SortedMap_String(m)
		i := 0
		wait := func() {
			if i < len(clock) && clock[i] > 0 {
				time.Sleep(time.Duration(clock[i]) * time.Millisecond)
			}
			i++
		}
		got := []int{}
		ch := om.Range()
		wait()
		for k := range ch {
			got = append(got, m[k])
			wait()
		}
		out = append(out, got)
	}
	return out
}

// genRange: 0-8 keys; a fast consumer, a consumer with short delays, and (long = true) one that stalls once for 1.1-2.4 s
func genRange(r *Rng, long bool) c01Input {
	in := c01Input{T: "range", Keys: []int{}}
	for j, n := 0, r.Range(0, 8); j < n; j++ {
		in.Keys = append(in.Keys, r.Intn(40))
	}
	if long && len(in.Keys) < 2 {
		in.Keys = append(in.Keys, 41, 42)
	}
	distinct := map[int]bool{}
	for _, k := range in.Keys {
		distinct[k] = true
	}
	n := len(distinct) + 1
	fast, short := make([]int, n), make([]int, n)
	for j := range short {
		short[j] = r.Pick(3, 2, 1) * r.Range(1, 4)
	}
	in.Delays = [][]int{fast, short}
	if long {
		stall := make([]int, n)
		stall[r.Intn(len(distinct))] = r.Range(1100, 2400)
		in.Delays = append(in.Delays, stall)
	}
	return in
}

func runSKeys(in c01Input) []int {
	st := statedb.Storage{}
	for _, k := range in.Keys {
		st[gethcommon.BigToHash(big.NewInt(int64(k)))] = gethcommon.BigToHash(big.NewInt(1))
	}
	out := []int{}
	for _, h := range st.SortedKeys() {
		out = append(out, int(h.Big().Int64()))
	}
	return out
}

type abiObs struct {
	Methods [][2]int64 `json:"methods"` // (name rank, selector)
	Lookups [][2]int64 `json:"lookups"` // (selector, found name rank or -1)
}

func runAbi(in c01Input) abiObs {
	abis := []*gethabi.ABI{embeds.SmartContract_FunToken.ABI, embeds.SmartContract_Wasm.ABI, embeds.SmartContract_Oracle.ABI}
	a := abis[in.Which%len(abis)]
	var names []string
	for n := range a.Methods {
		names = append(names, n)
	}
	sort.Strings(names)
	o := abiObs{Methods: [][2]int64{}, Lookups: [][2]int64{}}
	for i, n := range names {
		sel := int64(binary.BigEndian.Uint32(a.Methods[n].ID))
		o.Methods = append(o.Methods, [2]int64{int64(i), sel})
	}
	for i, n := range names {
		id := a.Methods[n].ID
		m, err := a.MethodById(id)
		found := int64(-1)
		if err == nil {
			found = int64(sort.SearchStrings(names, m.Name))
		}
		_ = i
		o.Lookups = append(o.Lookups, [2]int64{int64(binary.BigEndian.Uint32(id)), found})
	}
	// a selector no method has
	if _, err := a.MethodById([]byte{0xde, 0xad, 0xbe, 0xef}); err != nil {
		o.Lookups = append(o.Lookups, [2]int64{int64(0xdeadbeef), -1})
	}
	return o
}

func runTW(in c01Input) int64 {
	vp := oracletypes.ValidatorPerformances{}
	for _, w := range in.Ws {
		addr := sdk.ValAddress(freshAddr(w[0]))
		vp[addr.String()] = oracletypes.ValidatorPerformance{RewardWeight: int64(w[1]), ValAddress: addr}
	}
	return vp.TotalRewardWeight()
}

// ------------------------------------------------------------------ entry point

func runOne(w *world, em *Emitter, in c01Input) {
	switch in.T {
	case "diff":
		em.Emit(in, runDiff(w, in, in.Child), nil)
	case "sudo":
		em.Emit(in, runSudo(in), nil)
	case "omap":
		em.Emit(in, runOmap(in), nil)
	case "skeys":
		em.Emit(in, runSKeys(in), nil)
	case "abi":
		em.Emit(in, runAbi(in), nil)
	case "tw":
		em.Emit(in, runTW(in), nil)
	case "range":
		em.Emit(in, runRange(in), nil)
	}
}

func TestC01(t *testing.T) {
	if p := os.Getenv("C01_CHILD_IN"); p != "" {
		if err := runChild(p, os.Getenv("C01_CHILD_OUT")); err != nil {
			t.Fatal(err)
		}
		return
	}
	cfg := LoadCfg(t, 32, 300)
	em := NewEmitter(t, cfg.Out)
	defer em.Close()
	w := newWorld()
	if cfg.Replay != "" {
		for _, raw := range cfg.ReplayInputs(t) {
			var in c01Input
			if err := json.Unmarshal(raw, &in); err != nil {
				t.Fatalf("replay input: %v", err)
			}
			runOne(w, em, in)
		}
		return
	}
	rng := NewRng(cfg.Seed)
	for i := 0; i < cfg.N; i++ {
		opener := 0
		if i < 9 {
			opener = i + 1
		}
		in := genDiff(rng.Fork(), opener)
		in.Child = i < 3 || (cfg.Tier == "thorough" && i%2 == 0)
		if opener == 8 || (i > 9 && i%4 == 1) {
			// a fourth in-process replica with injected wall-clock delays
			lr := rng.Fork()
			in.Lag = &lagPlan{BaseUs: 50 + lr.Intn(400), Every: 20 + lr.Intn(80), StallMs: lr.Range(1100, 2000), Stalls: 2}
			if cfg.Tier == "thorough" {
				in.Lag.StallMs, in.Lag.Stalls = lr.Range(1100, 3500), 4
			}
		}
		runOne(w, em, in)
	}
	// the producer goroutine of omap.Range against a consumer that stalls once between two receives
	runOne(w, em, c01Input{T: "range", Keys: []int{7, 3, 5}, Delays: [][]int{{0, 0, 0, 0}, {0, 1500, 0, 0}}})
	for i := 0; i < 3; i++ {
		runOne(w, em, c01Input{T: "abi", Which: i})
	}
	nSub := 3 * cfg.N
	for i := 0; i < nSub; i++ {
		r := rng.Fork()
		runOne(w, em, genSudo(r))
		runOne(w, em, genOmap(r))
		var ks []int
		for j, n := 0, r.Range(0, 9); j < n; j++ {
			ks = append(ks, r.Intn(40))
		}
		runOne(w, em, c01Input{T: "skeys", Keys: ks})
		var ws [][2]int
		seen := map[int]bool{}
		for j, n := 0, r.Range(0, 6); j < n; j++ {
			v := r.Intn(12)
			if seen[v] {
				continue
			}
			seen[v] = true
			ws = append(ws, [2]int{v, r.Intn(50)})
		}
		runOne(w, em, c01Input{T: "tw", Ws: ws})
		runOne(w, em, genRange(r, i%16 == 5))
	}
	_ = bytes.Compare
}

// TestC01Bisect (diagnostic, only with C01_BISECT=1): gas consumed by every module's BeginBlock on a restarted vs a
// never-restarted application at the same height.
func TestC01Bisect(t *testing.T) {
	if os.Getenv("C01_BISECT") == "" {
		t.Skip("diagnostic")
	}
	w := newWorld()
	a, b := w.newReplica(), w.newReplica()
	for i := 0; i < 2; i++ {
		a.runBlock(c01Block{Dt: 5}, false)
		b.runBlock(c01Block{Dt: 5}, false)
	}
	b.restartApp()
	for _, r := range []*replica{a, b} {
		hdr := r.c.Header
		hdr.Height++
		hdr.Time = hdr.Time.Add(5 * time.Second)
		for _, name := range r.c.App.ModuleManager.OrderBeginBlockers {
			m, ok := r.c.App.ModuleManager.Modules[name].(interface {
				BeginBlock(sdk.Context, abci.RequestBeginBlock)
			})
			if !ok {
				continue
			}
			ctx := r.c.App.NewUncachedContext(false, hdr)
			cctx, _ := ctx.CacheContext()
			cctx = cctx.WithGasMeter(sdk.NewInfiniteGasMeter())
			func() {
				defer func() {
					if rec := recover(); rec != nil {
						fmt.Printf("BISECT restarts=%d %s PANIC %v\n", r.nRestarts, name, rec)
					}
				}()
				m.BeginBlock(cctx, abci.RequestBeginBlock{Header: hdr})
			}()
			fmt.Printf("BISECT restarts=%d %-14s gas=%d\n", r.nRestarts, name, cctx.GasMeter().GasConsumed())
		}
	}
}
