package c07

// C07 — signed EVM transactions execute at most once, in nonce order, on this chain.
//
// A case is a block history run on fresh accounts of a shared chain through the real
// BeginBlock / DeliverTx / EndBlock / Commit.  A tx is either
//
//	eth     one Cosmos tx (EVM extension option) carrying 0..3 MsgEthereumTx; every message is a
//	        new signed tx (sender, absolute nonce, tx type, chain-id mode, signature tampering,
//	        action) or the byte-identical resubmission of an earlier message ("dup")
//	wrap    a Cosmos tx WITHOUT the EVM extension option, signed by the secp256k1 form of key i with an explicit
//	        sequence, that carries one MsgEthereumTx (new, or the byte-identical copy of an earlier one) bare or nested
//	        in 1..3 authz.MsgExec{grantee = submitter}, with the unsigned From field empty / forged to the submitter /
//	        set to the real signer
//	cosmos  a bank MsgSend signed on the Cosmos path with an explicit sequence, either with the
//	        secp256k1 form of key i (a different account than the EVM one) or with the
//	        eth_secp256k1 key itself for the EVM account
//
//	acct    not a tx: before the first block the auth account behind key i (its EVM address, or with "cosmos" the
//	        address of its secp256k1 form) is replaced by an account of another TYPE with the same number and
//	        sequence: "base" = a plain BaseAccount as written by add-genesis-account (round 6; vesting account
//	        types are not registered in this app's interface registry, so they cannot exist on this chain)
//
// Since round 6 a message may name one of the eight scenario accounts as its counterparty ("to"): the plain
// transfer / drain pays it, call_pay calls it with value and calldata, fwd pays it from inside a contract call
// (fwd_revert: then reverts), sd makes it the beneficiary of a selfdestruct — so accounts are touched by
// OTHER signers' transactions between their own.
//
// Derived inputs handed to the model (computed here without the app): uid of a message (index of
// the first message with the same tx hash), the chain id the tx carries, the address a
// chain-agnostic ECDSA recovery yields (canonical id), whether that address is funded.
//
// Observables per tx: passed the ante handler?, uids of EventEthereumTx hashes, the nonce k such
// that the deployed address == CreateAddress(sender, k), sequences of all scenario accounts.

import (
	"encoding/hex"
	"encoding/json"
	"math/big"
	"math/rand"
	"strings"
	"testing"
	"time"

	abci "github.com/cometbft/cometbft/abci/types"
	"github.com/cosmos/cosmos-sdk/crypto/keys/secp256k1"
	cryptotypes "github.com/cosmos/cosmos-sdk/crypto/types"
	"github.com/cosmos/cosmos-sdk/testutil/sims"
	"github.com/cosmos/cosmos-sdk/x/authz"
	sdk "github.com/cosmos/cosmos-sdk/types"
	authtypes "github.com/cosmos/cosmos-sdk/x/auth/types"
	bank "github.com/cosmos/cosmos-sdk/x/bank/types"
	gethcommon "github.com/ethereum/go-ethereum/common"
	gethcore "github.com/ethereum/go-ethereum/core/types"
	"github.com/ethereum/go-ethereum/crypto"

	. "verifharness/hx"

	"github.com/NibiruChain/nibiru/v2/eth"
	"github.com/NibiruChain/nibiru/v2/x/evm"
	"github.com/NibiruChain/nibiru/v2/x/evm/embeds"
	"github.com/NibiruChain/nibiru/v2/x/evm/evmtest"
)

const (
	nFunded = 3 // eth accounts 0..2 funded, 3 never funded
	nKeys   = 4
)

type c07Msg struct {
	Dup   int    `json:"dup"`   // >=0: resubmit message #dup of this case byte for byte; -1: new message
	S     int    `json:"s"`     // key index 0..3
	N     uint64 `json:"n"`     // nonce (absolute; accounts are fresh per case)
	Ty    int    `json:"ty"`    // 0 legacy, 1 access list, 2 dynamic fee
	Cid   string `json:"cid"`   // ok | wrong | none (unprotected; legacy only)
	Sig   string `json:"sig"`   // ok | zero_r | zero_s | high_s | flip_v | v29
	Act   string `json:"act"`   // transfer | call_ok | call_revert | create_ok | create_revert | create_oog | lowgas
	Salt  int    `json:"salt"`  // makes otherwise identical messages distinct (value in unibi)
	To    int    `json:"to,omitempty"` // counterparty: 0 = a fixed outside address, 1..4 = EVM account of key to-1, 11..14 = Cosmos (secp256k1) account of key to-11
}

type c07Tx struct {
	Kind   string   `json:"kind"` // eth | cosmos | wrap | fund | acct
	Msgs   []c07Msg `json:"msgs"`
	Key    int      `json:"key"`    // cosmos: key index
	Q      uint64   `json:"q"`      // cosmos: sequence signed
	EthKey bool     `json:"ethkey"` // cosmos: sign with the eth_secp256k1 key for the EVM account
	Bad    bool     `json:"bad"`    // cosmos: inner message fails (sends more than the balance)
	Depth  int      `json:"depth"`  // wrap: 0 = the MsgEthereumTx itself inside an ordinary Cosmos tx, n = nested in n authz.MsgExec
	Forge  string   `json:"forge"`  // wrap: unsigned From field of the wrapped message: "" | self (the submitter) | victim (the real signer)
	Acc    string   `json:"acc,omitempty"`    // acct: account type ("base")
	Cosmos bool     `json:"cosmos,omitempty"` // acct: the Cosmos (secp256k1) account of the key instead of the EVM one
}

type c07Der struct {
	UID    int    `json:"uid"`
	Cid    string `json:"cid"`    // decimal chain id carried by the tx, "none" if unprotected
	Signer int    `json:"signer"` // canonical id of the raw-recovered address, -1 none
	Funded bool   `json:"funded"`
	Nonce  uint64 `json:"nonce"`
	Exec   string `json:"exec"`   // ok | vmerr | msgerr  (what the action does once executed)
	Create bool   `json:"create"` // contract creation (To == nil): deploys a contract when executed successfully
	VBOk   bool   `json:"vbok"`   // the message passes its stateless ValidateBasic (pure function of the message)
	Touch  []int  `json:"touch"`  // scenario accounts (canonical ids) the execution pays when it runs to completion
}

type c07TxObs struct {
	Code     uint32  `json:"code"`
	Accepted bool    `json:"accepted"` // ante handler passed
	Exec     []int   `json:"exec"`     // uids of EventEthereumTx
	Created  [][2]int `json:"created"` // (uid, k) deployed address == CreateAddress(sender,k); k=-1 no match
	Seqs     []uint64 `json:"seqs"`    // eth accounts 0..3 then cosmos accounts 0..3
}

type c07World struct {
	c      *Chain
	target gethcommon.Address
	z      gethcommon.Address
	fwd    gethcommon.Address
	sdf    gethcommon.Address
	blocks int
}

// FWD: pays its call value to the address in calldata word 0 with an inner CALL; reverts afterwards when word 1 is non-zero
var c07FwdRuntime = mustHex("600060006000600034600035" + "5af150" + "602035" + "601657" + "00" + "5b60006000fd")

// SDF: creates a child endowed with the call value whose init code is PUSH20 <calldata word 0> SELFDESTRUCT
var c07SdfRuntime = mustHex("6073600053" + "600035" + "60601b" + "600152" + "60ff601553" + "6016600034f0" + "00")

// deployer: init code that returns runtime
func c07Deployer(runtime []byte) []byte {
	l := byte(len(runtime))
	return append([]byte{0x60, l, 0x60, 0x0c, 0x60, 0x00, 0x39, 0x60, l, 0x60, 0x00, 0xf3}, runtime...)
}

var c07Runtime = mustHex("60003560085700005b60006000fd")
var c07Init = append(mustHex("600e600c600039600e6000f3"), c07Runtime...)
var c07InitRevert = mustHex("60006000fd")

// Z: calls the FunToken precompile with its calldata (succeeds, survives), then calls itself; the inner frame
// calls the precompile again and reverts; the failure is swallowed and the tx succeeds
var c07ZInit = mustHex("610045600e6000396100456000f333301461002a573660006000376000600036600060006108005af150600060003660006000305af150005b3660006000376000600036600060006108005af15060006000fd")

func mustHex(s string) []byte {
	b, err := hex.DecodeString(s)
	if err != nil {
		panic(err)
	}
	return b
}

var unibiWei = big.NewInt(1_000_000_000_000)

func newC07World(t *testing.T) *c07World {
	w := &c07World{c: NewChain(nil)}
	c := w.c
	c.BeginBlock(5 * time.Second)
	d := evmtest.NewEthPrivAcc()
	if err := c.Fund(d.NibiruAddr, Unibi(1e15)); err != nil {
		t.Fatal(err)
	}
	msg, err := c.SignEth(d, &evm.EvmTxArgs{Nonce: 0, GasLimit: 500_000, GasPrice: unibiWei, Input: c07Init})
	if err != nil {
		t.Fatal(err)
	}
	if r := c.DeliverEth(msg); r.Code != 0 {
		t.Fatalf("deploy target: %s", r.Log)
	}
	w.target = crypto.CreateAddress(d.EthAddr, 0)
	msg, err = c.SignEth(d, &evm.EvmTxArgs{Nonce: 1, GasLimit: 500_000, GasPrice: unibiWei, Input: c07ZInit})
	if err != nil {
		t.Fatal(err)
	}
	if r := c.DeliverEth(msg); r.Code != 0 {
		t.Fatalf("deploy Z: %s", r.Log)
	}
	w.z = crypto.CreateAddress(d.EthAddr, 1)
	for i, code := range [][]byte{c07FwdRuntime, c07SdfRuntime} {
		msg, err = c.SignEth(d, &evm.EvmTxArgs{Nonce: uint64(2 + i), GasLimit: 500_000, GasPrice: unibiWei, Input: c07Deployer(code)})
		if err != nil {
			t.Fatal(err)
		}
		if r := c.DeliverEth(msg); r.Code != 0 {
			t.Fatalf("deploy helper %d: %s", i, r.Log)
		}
	}
	w.fwd = crypto.CreateAddress(d.EthAddr, 2)
	w.sdf = crypto.CreateAddress(d.EthAddr, 3)
	c.EndBlock()
	return w
}

type c07Keys struct {
	eth    []evmtest.EthPrivKeyAcc
	cosmos []*secp256k1.PrivKey
}

// counterparty resolves the "to" field of a message
func (k c07Keys) counterparty(to int) (gethcommon.Address, int, bool) {
	switch {
	case to >= 1 && to <= nKeys:
		return k.eth[to-1].EthAddr, to - 1, true
	case to >= 11 && to <= 10+nKeys:
		return gethcommon.BytesToAddress(k.cosmos[to-11].PubKey().Address()), to - 1, true
	}
	return gethcommon.HexToAddress("0x00000000000000000000000000000000000C07EE"), -1, false
}

// setKinds replaces the auth accounts named by the acct pseudo-txs of the history by accounts of the requested
// type (same address, account number and sequence); returns the kinds of the eight observed accounts.
func (w *c07World) setKinds(t *testing.T, k c07Keys, blocks [][]c07Tx) []string {
	kinds := []string{"eth", "eth", "eth", "eth", "eth", "eth", "eth", "eth"}
	c := w.c
	any := false
	for _, blk := range blocks {
		for _, tx := range blk {
			if tx.Kind != "acct" || tx.Acc != "base" {
				continue
			}
			if !any {
				c.BeginBlock(5 * time.Second)
				any = true
			}
			i := tx.Key % nKeys
			addr, slot := k.eth[i].NibiruAddr, i
			if tx.Cosmos {
				addr, slot = sdk.AccAddress(k.cosmos[i].PubKey().Address()), nKeys+i
			}
			ctx := c.Ctx()
			ak := c.App.AccountKeeper
			var num, seq uint64
			if old := ak.GetAccount(ctx, addr); old != nil {
				num, seq = old.GetAccountNumber(), old.GetSequence()
			} else {
				num = ak.NextAccountNumber(ctx)
			}
			ak.SetAccount(ctx, authtypes.NewBaseAccount(addr, nil, num, seq))
			if _, isBase := ak.GetAccount(ctx, addr).(*authtypes.BaseAccount); !isBase {
				t.Fatalf("account %s is not a BaseAccount", addr)
			}
			kinds[slot] = "base"
		}
	}
	if any {
		c.EndBlock()
		w.blocks++
	}
	return kinds
}

func (w *c07World) freshKeys(t *testing.T) c07Keys {
	c := w.c
	var k c07Keys
	c.BeginBlock(5 * time.Second)
	for i := 0; i < nKeys; i++ {
		a := evmtest.NewEthPrivAcc()
		k.eth = append(k.eth, a)
		ck := &secp256k1.PrivKey{Key: append([]byte{}, a.PrivKey.Key...)}
		k.cosmos = append(k.cosmos, ck)
		if i < nFunded {
			if err := c.Fund(a.NibiruAddr, Unibi(1e13)); err != nil {
				t.Fatal(err)
			}
			if err := c.Fund(sdk.AccAddress(ck.PubKey().Address()), Unibi(1e9)); err != nil {
				t.Fatal(err)
			}
		}
	}
	c.EndBlock()
	w.blocks++
	return k
}

// build signs one new message as the JSON-RPC layer would receive it.
func (w *c07World) build(k c07Keys, m c07Msg) *evm.MsgEthereumTx {
	acc := k.eth[m.S%nKeys]
	chain := new(big.Int).Set(w.c.ChainID)
	cid := chain
	if m.Cid == "wrong" {
		cid = new(big.Int).Add(chain, big.NewInt(1))
	}
	var to *gethcommon.Address
	var data []byte
	gas := uint64(100_000)
	value := new(big.Int).Mul(big.NewInt(int64(m.Salt)), unibiWei)
	cp, _, _ := k.counterparty(m.To)
	word := func(a gethcommon.Address, flag byte) []byte {
		b := make([]byte, 64)
		copy(b[12:32], a.Bytes())
		b[63] = flag
		return b
	}
	switch m.Act {
	case "transfer":
		a := cp
		to = &a
	case "call_pay": // a call with calldata that carries value, straight to the counterparty
		a := cp
		to = &a
		data = []byte{0xc0, 0x7e, 0xe0, byte(m.Salt)}
	case "fwd", "fwd_revert": // the counterparty is paid by an inner CALL of a contract (then the outer frame may revert)
		a := w.fwd
		to = &a
		data = word(cp, 0)
		if m.Act == "fwd_revert" {
			data = word(cp, 1)
		}
		gas = 300_000
	case "sd": // the counterparty is the beneficiary of a SELFDESTRUCT
		a := w.sdf
		to = &a
		data = word(cp, 0)[:32]
		gas = 300_000
	case "lowgas":
		a := cp
		to = &a
		gas = 20_000
	case "call_ok":
		a := w.target
		to = &a
		data = make([]byte, 32)
		value = big.NewInt(0)
		gas += uint64(m.Salt)
	case "call_revert":
		a := w.target
		to = &a
		data = make([]byte, 32)
		data[31] = 1
		value = big.NewInt(0)
		gas += uint64(m.Salt)
	case "create_ok":
		data = c07Init
		gas = 200_000
	case "create_revert":
		data = c07InitRevert
		gas = 200_000
	case "create_oog":
		data = c07Init
		gas = 53_000 + 16*uint64(len(c07Init)) // >= intrinsic, not enough to run + deposit
	case "pre_revert": // precompile call that survives, then one inside a frame that reverts and is swallowed
		a := w.z
		to = &a
		in, err := embeds.SmartContract_FunToken.ABI.Pack("whoAmI", acc.NibiruAddr.String())
		if err != nil {
			panic(err)
		}
		data = in
		value = big.NewInt(0)
		gas = 1_000_000 + uint64(m.Salt)
	case "drain": // sends 90% of the current balance away
		a := cp
		to = &a
		value = w.fraction(acc.EthAddr, 9, 10)
	case "create_val": // creation endowed with half of the current balance
		data = c07Init
		gas = 200_000
		value = w.fraction(acc.EthAddr, 1, 2)
	case "call_val": // call carrying half of the current balance
		a := w.target
		to = &a
		data = make([]byte, 32)
		value = w.fraction(acc.EthAddr, 1, 2)
	}
	var inner gethcore.TxData
	switch m.Ty {
	case 1:
		inner = &gethcore.AccessListTx{ChainID: cid, Nonce: m.N, GasPrice: unibiWei, Gas: gas, To: to, Value: value, Data: data}
	case 2:
		inner = &gethcore.DynamicFeeTx{ChainID: cid, Nonce: m.N, GasTipCap: unibiWei, GasFeeCap: unibiWei, Gas: gas, To: to, Value: value, Data: data}
	default:
		inner = &gethcore.LegacyTx{Nonce: m.N, GasPrice: unibiWei, Gas: gas, To: to, Value: value, Data: data}
	}
	tx := gethcore.NewTx(inner)
	var signer gethcore.Signer = gethcore.LatestSignerForChainID(cid)
	if m.Ty == 0 && m.Cid == "none" {
		signer = gethcore.HomesteadSigner{}
	}
	key, err := acc.PrivKey.ToECDSA()
	if err != nil {
		panic(err)
	}
	sig, err := crypto.Sign(signer.Hash(tx).Bytes(), key)
	if err != nil {
		panic(err)
	}
	switch m.Sig {
	case "zero_r":
		for i := 0; i < 32; i++ {
			sig[i] = 0
		}
	case "zero_s":
		for i := 32; i < 64; i++ {
			sig[i] = 0
		}
	case "high_s":
		s := new(big.Int).SetBytes(sig[32:64])
		s.Sub(crypto.S256().Params().N, s)
		s.FillBytes(sig[32:64])
		sig[64] ^= 1
	case "flip_v":
		sig[64] ^= 1
	}
	stx, err := tx.WithSignature(signer, sig)
	if err != nil {
		panic(err)
	}
	if m.Sig == "v29" && m.Ty == 0 {
		_, r, s := stx.RawSignatureValues()
		stx = gethcore.NewTx(&gethcore.LegacyTx{Nonce: m.N, GasPrice: unibiWei, Gas: gas, To: to, Value: value, Data: data,
			V: big.NewInt(29), R: r, S: s})
	}
	msg := &evm.MsgEthereumTx{}
	if err := msg.FromEthereumTx(stx); err != nil {
		panic(err)
	}
	return msg
}

// fraction returns num/den of the account's current balance, in wei, truncated to whole unibi.
func (w *c07World) fraction(a gethcommon.Address, num, den int64) *big.Int {
	b := w.c.App.BankKeeper.GetBalance(w.c.Ctx(), eth.EthAddrToNibiruAddr(a), "unibi").Amount.BigInt()
	b.Mul(b, big.NewInt(num))
	b.Quo(b, big.NewInt(den))
	return b.Mul(b, unibiWei)
}

// rawSigner is a chain-agnostic ECDSA recovery: the signer the tx's own chain id implies.
func rawSigner(tx *gethcore.Transaction) (gethcommon.Address, bool) {
	var s gethcore.Signer
	if tx.Type() == gethcore.LegacyTxType && !tx.Protected() {
		s = gethcore.HomesteadSigner{}
	} else {
		if tx.ChainId().Sign() <= 0 {
			return gethcommon.Address{}, false
		}
		s = gethcore.LatestSignerForChainID(tx.ChainId())
	}
	a, err := s.Sender(tx)
	return a, err == nil
}

func execClass(act string) (string, bool) {
	switch act {
	case "lowgas":
		return "msgerr", false
	case "create_revert", "create_oog":
		return "vmerr", true
	case "call_revert", "fwd_revert":
		return "vmerr", false
	case "create_ok", "create_val":
		return "ok", true
	}
	return "ok", false
}

type c07Sim struct {
	addr  gethcommon.Address
	ok    bool
	fee   *big.Int
	value *big.Int
	pays  bool               // the value ends up with the scenario account cp when the message runs to completion
	cp    gethcommon.Address
}

type c07Run struct {
	w      *c07World
	k      c07Keys
	built  []*evm.MsgEthereumTx // by global message index
	specs  []c07Msg             // resolved spec (dup -> original spec)
	byHash map[string]int
	ids    map[gethcommon.Address]int
	nextID int
}

func (r *c07Run) idOf(a gethcommon.Address) int {
	if id, ok := r.ids[a]; ok {
		return id
	}
	id := 100 + r.nextID
	r.nextID++
	r.ids[a] = id
	return id
}

func (r *c07Run) seqs() []uint64 {
	ctx := r.w.c.Ctx()
	var out []uint64
	get := func(a sdk.AccAddress) uint64 {
		acc := r.w.c.App.AccountKeeper.GetAccount(ctx, a)
		if acc == nil {
			return 0
		}
		return acc.GetSequence()
	}
	for _, a := range r.k.eth {
		out = append(out, get(a.NibiruAddr))
	}
	for _, ck := range r.k.cosmos {
		out = append(out, get(sdk.AccAddress(ck.PubKey().Address())))
	}
	return out
}

func (r *c07Run) deliverCosmos(tx c07Tx) abci.ResponseDeliverTx {
	c := r.w.c
	ctx := c.Ctx()
	i := tx.Key % nKeys
	var priv cryptotypes.PrivKey = r.k.cosmos[i]
	if tx.EthKey {
		priv = r.k.eth[i].PrivKey
	}
	addr := sdk.AccAddress(priv.PubKey().Address())
	var accNum uint64
	if acc := c.App.AccountKeeper.GetAccount(ctx, addr); acc != nil {
		accNum = acc.GetAccountNumber()
	}
	amt := int64(1)
	if tx.Bad {
		amt = 4e18
	}
	msg := &bank.MsgSend{FromAddress: addr.String(), ToAddress: r.k.eth[0].NibiruAddr.String(), Amount: Unibi(amt)}
	stx, err := sims.GenSignedMockTx(rand.New(rand.NewSource(1)), c.TxCfg, []sdk.Msg{msg}, Unibi(1_000_000), 2_000_000, ctx.ChainID(),
		[]uint64{accNum}, []uint64{tx.Q}, priv)
	if err != nil {
		return abci.ResponseDeliverTx{Code: 9999, Log: "build: " + err.Error()}
	}
	bz, err := c.TxCfg.TxEncoder()(stx)
	if err != nil {
		return abci.ResponseDeliverTx{Code: 9999, Log: "encode: " + err.Error()}
	}
	return c.App.DeliverTx(abci.RequestDeliverTx{Tx: bz})
}

// deliverWrapped submits inner inside an ordinary Cosmos tx of the submitter (no EVM extension option).
func (r *c07Run) deliverWrapped(tx c07Tx, inner *evm.MsgEthereumTx) (res abci.ResponseDeliverTx) {
	c := r.w.c
	ctx := c.Ctx()
	priv := r.k.cosmos[tx.Key%nKeys]
	addr := sdk.AccAddress(priv.PubKey().Address())
	var accNum uint64
	if acc := c.App.AccountKeeper.GetAccount(ctx, addr); acc != nil {
		accNum = acc.GetAccountNumber()
	}
	m := *inner
	switch tx.Forge {
	case "self":
		m.From = gethcommon.BytesToAddress(addr.Bytes()).Hex()
	case "victim":
		if a, ok := rawSigner(m.AsTransaction()); ok {
			m.From = a.Hex()
		}
	default:
		m.From = ""
	}
	var msg sdk.Msg = &m
	for i := 0; i < tx.Depth; i++ {
		e := authz.NewMsgExec(addr, []sdk.Msg{msg})
		msg = &e
	}
	if p := Recover(func() {
		stx, err := sims.GenSignedMockTx(rand.New(rand.NewSource(1)), c.TxCfg, []sdk.Msg{msg}, Unibi(3_000_000), 3_000_000, ctx.ChainID(),
			[]uint64{accNum}, []uint64{tx.Q}, priv)
		if err != nil {
			res = abci.ResponseDeliverTx{Code: 9999, Log: "build: " + err.Error()}
			return
		}
		bz, err := c.TxCfg.TxEncoder()(stx)
		if err != nil {
			res = abci.ResponseDeliverTx{Code: 9999, Log: "encode: " + err.Error()}
			return
		}
		res = c.App.DeliverTx(abci.RequestDeliverTx{Tx: bz})
	}); p != "" {
		res = abci.ResponseDeliverTx{Code: 9998, Log: "panic: " + p}
	}
	return res
}

func (w *c07World) runCase(t *testing.T, blocks [][]c07Tx) ([][][]c07Der, [][]c07TxObs, string, []string) {
	r := &c07Run{w: w, k: w.freshKeys(t), byHash: map[string]int{}, ids: map[gethcommon.Address]int{}}
	for i, a := range r.k.eth {
		r.ids[a.EthAddr] = i
	}
	kinds := w.setKinds(t, r.k, blocks)
	c := w.c
	var ders [][][]c07Der
	var obs [][]c07TxObs
	for _, blk := range blocks {
		c.BeginBlock(5 * time.Second)
		w.blocks++
		var bd [][]c07Der
		var bo []c07TxObs
		for _, tx := range blk {
			var res abci.ResponseDeliverTx
			var td []c07Der
			var txMsgs []*evm.MsgEthereumTx
			var sims []c07Sim
			if tx.Kind == "acct" { // applied before the first block (setKinds)
				bd = append(bd, td)
				bo = append(bo, c07TxObs{Exec: []int{}, Created: [][2]int{}, Seqs: r.seqs()})
				continue
			}
			if tx.Kind == "fund" {
				// not a tx: the driver tops the EVM account of key i up again (bank level)
				if err := c.Fund(r.k.eth[tx.Key%nKeys].NibiruAddr, Unibi(1e13)); err != nil {
					t.Fatal(err)
				}
				bd = append(bd, td)
				bo = append(bo, c07TxObs{Exec: []int{}, Created: [][2]int{}, Seqs: r.seqs()})
				continue
			}
			if tx.Kind == "cosmos" {
				res = r.deliverCosmos(tx)
			} else {
				for _, m := range tx.Msgs {
					var msg *evm.MsgEthereumTx
					spec := m
					if m.Dup >= 0 && m.Dup < len(r.built) {
						orig := r.built[m.Dup]
						cp := *orig
						msg = &cp
						spec = r.specs[m.Dup]
					} else {
						msg = w.build(r.k, m)
					}
					r.built = append(r.built, msg)
					r.specs = append(r.specs, spec)
					etx := msg.AsTransaction()
					h := etx.Hash().Hex()
					uid, ok := r.byHash[h]
					if !ok {
						uid = len(r.built) - 1
						r.byHash[h] = uid
					}
					d := c07Der{UID: uid, Cid: "none", Signer: -1, Nonce: etx.Nonce()}
					if etx.Type() != gethcore.LegacyTxType || etx.Protected() {
						d.Cid = etx.ChainId().String()
					}
					var rawAddr gethcommon.Address
					hasSigner := false
					if a, ok := rawSigner(etx); ok {
						d.Signer = r.idOf(a)
						rawAddr, hasSigner = a, true
					}
					d.Exec, d.Create = execClass(spec.Act)
					d.Touch = []int{}
					if _, id, ok := r.k.counterparty(spec.To); ok && etx.Value().Sign() > 0 {
						switch spec.Act {
						case "transfer", "drain", "call_pay", "fwd", "fwd_revert", "sd":
							d.Touch = append(d.Touch, id)
						}
					}
					vb := *msg
					vb.From = ""
					d.VBOk = (&vb).ValidateBasic() == nil
					td = append(td, d)
					cp := *msg
					txMsgs = append(txMsgs, &cp)
					sm := c07Sim{addr: rawAddr, ok: hasSigner, fee: etx.Cost().Sub(etx.Cost(), etx.Value()), value: etx.Value()}
					if len(d.Touch) > 0 {
						sm.cp, _, sm.pays = r.k.counterparty(spec.To)
					}
					sims = append(sims, sm)
				}
				// balance bookkeeping (bank reads only): every message must afford its own cost against the
				// pre-tx balance (AnteDecVerifyEthAcc); at execution a value the earlier messages of the same tx
				// left uncovered makes the EVM refuse the transfer (vm error, no state change)
				remaining := map[gethcommon.Address]*big.Int{}
				for i, sm := range sims {
					if !sm.ok {
						continue
					}
					if _, seen := remaining[sm.addr]; !seen {
						remaining[sm.addr] = new(big.Int).Mul(w.c.App.BankKeeper.GetBalance(c.Ctx(), eth.EthAddrToNibiruAddr(sm.addr), "unibi").Amount.BigInt(), unibiWei)
					}
					td[i].Funded = remaining[sm.addr].Cmp(new(big.Int).Add(sm.fee, sm.value)) >= 0
				}
				for _, sm := range sims { // all prepayments are taken in the ante handler
					if sm.ok {
						remaining[sm.addr].Sub(remaining[sm.addr], sm.fee)
					}
				}
				for i, sm := range sims {
					if !sm.ok || sm.value.Sign() == 0 || td[i].Exec != "ok" {
						continue
					}
					if sm.value.Cmp(remaining[sm.addr]) > 0 {
						td[i].Exec = "vmerr"
					} else {
						remaining[sm.addr].Sub(remaining[sm.addr], sm.value)
						if rem, tracked := remaining[sm.cp]; sm.pays && tracked { // paid to a signer of this tx (or to itself)
							rem.Add(rem, sm.value)
						}
					}
				}
				if tx.Kind == "wrap" && len(txMsgs) == 1 {
					res = r.deliverWrapped(tx, txMsgs[0])
				} else {
					res = c.DeliverEth(txMsgs...)
				}
			}
			o := c07TxObs{Code: res.Code, Exec: []int{}, Created: [][2]int{}}
			o.Accepted = res.Code == 0
			if tx.Kind == "eth" {
				o.Accepted = len(EventAttrs(res.Events, evm.PendingEthereumTxEvent)) > 0
			} else if res.Code != 0 {
				// Cosmos path: the ante handler passed iff the fee was deducted ("tx" event with a fee attribute)
				for _, a := range EventAttrs(res.Events, "tx") {
					if _, ok := a["fee"]; ok {
						o.Accepted = true
					}
				}
			}
			var lastUID = -1
			for _, ev := range res.Events {
				switch ev.Type {
				case "eth.evm.v1.EventEthereumTx":
					for _, a := range ev.Attributes {
						if a.Key == "eth_hash" {
							h := strings.Trim(a.Value, `"`)
							uid, ok := r.byHash[gethcommon.HexToHash(h).Hex()]
							if !ok {
								uid = -1
							}
							o.Exec = append(o.Exec, uid)
							lastUID = uid
						}
					}
				case "eth.evm.v1.EventContractDeployed":
					var sender, caddr string
					for _, a := range ev.Attributes {
						if a.Key == "sender" {
							sender = strings.Trim(a.Value, `"`)
						}
						if a.Key == "contract_addr" {
							caddr = strings.Trim(a.Value, `"`)
						}
					}
					k := -1
					ca := gethcommon.HexToAddress(caddr)
					acct := c.App.EvmKeeper.GetAccount(c.Ctx(), ca)
					if acct != nil && acct.IsContract() {
						for j := 0; j < 64; j++ {
							if crypto.CreateAddress(gethcommon.HexToAddress(sender), uint64(j)) == ca {
								k = j
								break
							}
						}
					}
					o.Created = append(o.Created, [2]int{lastUID, k})
				}
			}
			o.Seqs = r.seqs()
			bd = append(bd, td)
			bo = append(bo, o)
		}
		c.EndBlock()
		ders = append(ders, bd)
		obs = append(obs, bo)
	}
	return ders, obs, w.c.ChainID.String(), kinds
}

// ---------------------------------------------------------------- generation

var c07Acts = []string{"transfer", "call_ok", "call_revert", "create_ok", "create_revert", "create_oog", "lowgas", "drain", "create_val", "call_val", "pre_revert",
	"call_pay", "fwd", "fwd_revert", "sd"}

// acts that have a counterparty
var c07Pays = map[string]bool{"transfer": true, "drain": true, "lowgas": true, "call_pay": true, "fwd": true, "fwd_revert": true, "sd": true}

func genC07Case(r *Rng) [][]c07Tx {
	exp := make([]uint64, nKeys)  // generator's own expectation of eth sequences (only steers generation)
	cexp := make([]uint64, nKeys) // cosmos sequences
	nmsg := 0
	type sent struct {
		idx int
		ok  bool
	}
	var history []int // global message indices that can be resubmitted
	nb := r.Range(1, 4)
	var blocks [][]c07Tx
	salt := 1
	// half of the histories run on accounts that are not all EthAccounts: the EVM account and / or the Cosmos
	// account of some keys is a plain BaseAccount (add-genesis-account)
	var accts []c07Tx
	legacy := r.Chance(1, 2)
	if legacy {
		for i := 0; i < nKeys; i++ {
			if r.Chance(1, 2) {
				accts = append(accts, c07Tx{Kind: "acct", Key: i, Acc: "base"})
			}
			if r.Chance(1, 3) {
				accts = append(accts, c07Tx{Kind: "acct", Key: i, Acc: "base", Cosmos: true})
			}
		}
		if len(accts) == 0 {
			accts = append(accts, c07Tx{Kind: "acct", Key: r.Intn(nFunded), Acc: "base"})
		}
	}
	var cosmosSent []c07Tx
	for b := 0; b < nb; b++ {
		nt := r.Range(1, 6)
		var blk []c07Tx
		if b == 0 {
			blk = append(blk, accts...)
		}
		for i := 0; i < nt; i++ {
			if r.Chance(1, 16) {
				blk = append(blk, c07Tx{Kind: "fund", Key: r.Intn(nFunded)})
				continue
			}
			if len(history) > 0 && r.Chance(1, 8) {
				// an earlier message (usually an executed one) submitted again by somebody else, wrapped in an ordinary Cosmos tx
				k := r.Intn(nFunded)
				tx := c07Tx{Kind: "wrap", Key: k, Q: cexp[k], Depth: r.Pick(1, 2, 4, 2), Forge: []string{"", "self", "self", "victim"}[r.Intn(4)],
					Msgs: []c07Msg{{Dup: history[r.Intn(len(history))]}}}
				if r.Chance(1, 8) {
					tx.Q++
				}
				if tx.Depth >= 2 && tx.Q == cexp[k] {
					cexp[k]++
				}
				history = append(history, nmsg)
				nmsg++
				blk = append(blk, tx)
				continue
			}
			if r.Chance(1, 7) {
				k := r.Intn(nFunded)
				tx := c07Tx{Kind: "cosmos", Key: k, Q: cexp[k]}
				switch r.Pick(6, 2, 1, 1) {
				case 1:
					tx.Q += uint64(r.Range(1, 2))
				case 2:
					if tx.Q > 0 {
						tx.Q--
					}
				case 3:
					tx.EthKey = true
					tx.Q = exp[k]
				}
				tx.Bad = r.Chance(1, 5)
				if !tx.EthKey && tx.Q == cexp[k] {
					cexp[k]++
				}
				blk = append(blk, tx)
				cosmosSent = append(cosmosSent, tx)
				continue
			}
			nm := 1 + r.Pick(10, 4, 2) // 1..3 messages
			if r.Chance(1, 40) {
				nm = 0
			}
			tx := c07Tx{Kind: "eth", Msgs: []c07Msg{}}
			tmp := append([]uint64{}, exp...)
			allOK := true
			for j := 0; j < nm; j++ {
				if len(history) > 0 && r.Chance(1, 5) {
					// byte-identical resubmission of an earlier message
					tx.Msgs = append(tx.Msgs, c07Msg{Dup: history[r.Intn(len(history))]})
					history = append(history, nmsg)
					nmsg++
					allOK = false // (nearly always stale; expectation only steers generation)
					continue
				}
				s := r.Intn(nFunded)
				if r.Chance(1, 12) {
					s = nFunded
				}
				if j > 0 && r.Chance(2, 3) {
					s = tx.Msgs[0].S // same sender n, n+1 in one tx
				}
				m := c07Msg{Dup: -1, S: s, N: tmp[s], Ty: r.Pick(5, 2, 3), Cid: "ok", Sig: "ok", Salt: salt}
				salt++
				m.Act = c07Acts[r.Pick(5, 3, 3, 3, 1, 1, 2, 1, 2, 1, 3, 2, 2, 1, 2)]
				if legacy && r.Chance(1, 4) {
					m.Act = []string{"transfer", "call_pay", "fwd", "sd", "drain"}[r.Pick(4, 2, 2, 2, 1)]
				}
				if j > 0 && r.Chance(1, 3) {
					// a later message of a multi-message tx whose value the earlier ones may have spent
					m.Act = []string{"create_val", "call_val", "drain"}[r.Pick(3, 1, 1)]
					if tx.Msgs[0].Dup < 0 && r.Chance(1, 2) {
						tx.Msgs[0].Act = []string{"drain", "create_val"}[r.Intn(2)]
					}
				}
				if c07Pays[m.Act] && (r.Chance(1, 2) || (legacy && r.Chance(1, 2))) {
					// the counterparty is another scenario account (sometimes the sender itself): an EVM account
					// or the Cosmos account of a key — in a history with BaseAccounts mostly one of those
					m.To = 1 + r.Intn(nKeys)
					if r.Chance(1, 3) {
						m.To += 10
					}
					if legacy && r.Chance(3, 4) {
						// prefer BaseAccounts that (as far as the generator can tell) have executed txs already
						var withHistory []c07Tx
						for _, a := range accts {
							if (a.Cosmos && cexp[a.Key] > 0) || (!a.Cosmos && exp[a.Key] > 0) {
								withHistory = append(withHistory, a)
							}
						}
						pool := accts
						if len(withHistory) > 0 && r.Chance(3, 4) {
							pool = withHistory
						}
						a := pool[r.Intn(len(pool))]
						m.To = 1 + a.Key
						if a.Cosmos {
							m.To += 10
						}
					}
				}
				switch r.Pick(12, 2, 2, 1, 1) { // nonce: exact, gap, stale, same-as-previous-in-tx, far
				case 1:
					m.N += uint64(r.Range(1, 3))
				case 2:
					if m.N > 0 {
						m.N -= uint64(r.Range(1, int(min64(m.N, 2))))
					}
				case 3:
					if j > 0 && m.N > 0 {
						m.N--
					}
				case 4:
					m.N += 1000
				}
				switch r.Pick(14, 2, 1) {
				case 1:
					m.Cid = "wrong"
				case 2:
					if m.Ty == 0 {
						m.Cid = "none"
					}
				}
				if r.Chance(1, 9) {
					m.Sig = []string{"zero_r", "zero_s", "high_s", "flip_v", "v29"}[r.Intn(5)]
				}
				ok := m.N == tmp[s] && m.Cid != "wrong" && m.Sig == "ok" && s < nFunded
				if ok {
					tmp[s]++
				} else {
					allOK = false
				}
				tx.Msgs = append(tx.Msgs, m)
				history = append(history, nmsg)
				nmsg++
			}
			if allOK && nm > 0 {
				exp = tmp
			}
			blk = append(blk, tx)
		}
		blocks = append(blocks, blk)
	}
	// histories with BaseAccounts: a block in which one key pays them (plain transfer, call with value, from inside a
	// contract call, as selfdestruct beneficiary) after they have sent their own txs
	if legacy && nmsg > 0 && r.Chance(2, 3) {
		var blk []c07Tx
		s := r.Intn(nFunded)
		for i, a := range accts {
			if i >= 3 {
				break
			}
			m := c07Msg{Dup: -1, S: s, N: exp[s], Ty: r.Pick(5, 2, 3), Cid: "ok", Sig: "ok", Salt: salt, To: 1 + a.Key,
				Act: []string{"transfer", "call_pay", "fwd", "sd"}[r.Intn(4)]}
			if a.Cosmos {
				m.To += 10
			}
			salt++
			exp[s]++
			blk = append(blk, c07Tx{Kind: "eth", Msgs: []c07Msg{m}})
			nmsg++
		}
		blocks = append(blocks, blk)
	}
	// a closing block resubmits every message delivered so far, byte for byte, one per tx
	if nmsg > 0 && r.Chance(2, 3) {
		var blk []c07Tx
		if r.Chance(1, 2) {
			for k := 0; k < nFunded; k++ {
				blk = append(blk, c07Tx{Kind: "fund", Key: k})
			}
		}
		for i := 0; i < nmsg && i < 14; i++ {
			blk = append(blk, c07Tx{Kind: "eth", Msgs: []c07Msg{{Dup: i}}})
		}
		for i := 0; i < len(cosmosSent) && i < 4; i++ { // the Cosmos-signed txs too (same key, same signed sequence: same bytes)
			blk = append(blk, cosmosSent[i])
		}
		if r.Chance(1, 2) { // … and once more through nested authz.MsgExec by a stranger who forges From
			k := r.Intn(nFunded)
			for i := 0; i < nmsg && i < 6; i++ {
				blk = append(blk, c07Tx{Kind: "wrap", Key: k, Q: cexp[k], Depth: 2 + r.Intn(2), Forge: "self", Msgs: []c07Msg{{Dup: i}}})
				cexp[k]++
			}
		}
		blocks = append(blocks, blk)
	}
	return blocks
}

func min64(a, b uint64) uint64 {
	if a < b {
		return a
	}
	return b
}

func TestC07(t *testing.T) {
	cfg := LoadCfg(t, 120, 1500)
	em := NewEmitter(t, cfg.Out)
	defer em.Close()
	var w *c07World
	run := func(blocks [][]c07Tx) {
		if w == nil || w.blocks > 400 {
			w = newC07World(t)
		}
		der, obs, chain, kinds := w.runCase(t, blocks)
		em.Emit(blocks, obs, map[string]interface{}{"der": der, "chain": chain, "kinds": kinds})
	}
	if cfg.Replay != "" {
		for _, raw := range cfg.ReplayInputs(t) {
			var blocks [][]c07Tx
			if err := json.Unmarshal(raw, &blocks); err != nil {
				t.Fatal(err)
			}
			run(blocks)
		}
		return
	}
	m := func(s int, n uint64, act string, salt int) c07Msg {
		return c07Msg{Dup: -1, S: s, N: n, Cid: "ok", Sig: "ok", Act: act, Salt: salt}
	}
	dup := func(i int) c07Msg { return c07Msg{Dup: i} }
	e := func(ms ...c07Msg) c07Tx { return c07Tx{Kind: "eth", Msgs: ms} }
	wrong := m(0, 1, "transfer", 3)
	wrong.Cid = "wrong"
	unprot := m(0, 1, "transfer", 4)
	unprot.Cid = "none"
	// openers: the design-phase probe history (replay, gap, wrong chain id, n/n+1, n/n) …
	run([][]c07Tx{{e(m(0, 0, "transfer", 1)), e(dup(0)), e(m(0, 5, "transfer", 2)), e(wrong),
		e(m(0, 1, "transfer", 5), m(0, 2, "transfer", 6)), e(m(0, 3, "transfer", 7), m(0, 3, "transfer", 8))}})
	// … resubmission in later blocks, unprotected legacy tx, creates inside a multi-message tx, failing executions
	run([][]c07Tx{{e(m(0, 0, "create_ok", 1)), e(unprot)}, {e(dup(0)), e(dup(1)), e(m(0, 2, "create_ok", 2), m(0, 3, "create_ok", 3))},
		{e(m(1, 0, "lowgas", 4)), e(dup(5)), e(m(1, 1, "call_revert", 5), m(1, 2, "lowgas", 6)), e(dup(7)), e(m(1, 3, "create_oog", 9))}})
	// … one key used on both paths
	run([][]c07Tx{{{Kind: "cosmos", Key: 0, Q: 0}, e(m(0, 0, "transfer", 1)), {Kind: "cosmos", Key: 0, Q: 0}, {Kind: "cosmos", Key: 0, Q: 1, Bad: true},
		{Kind: "cosmos", Key: 0, Q: 1, EthKey: true}, e(m(0, 1, "call_ok", 2))}})
	// … a later message of the same tx left underfunded by an earlier one (the EVM refuses the value
	// before it touches the nonce), for a creation, a call and a plain transfer; then everything resubmitted
	run([][]c07Tx{{e(m(0, 0, "drain", 0), m(0, 1, "create_val", 0))}, {e(dup(1)), {Kind: "fund", Key: 0}, e(dup(1)), e(dup(0)), e(m(0, 2, "create_ok", 1))},
		{e(m(1, 0, "create_val", 0), m(1, 1, "call_val", 0), m(1, 2, "drain", 0))}, {e(dup(6)), e(dup(7)), e(dup(8)), e(m(1, 3, "transfer", 2))}})
	// … an executed tx submitted again by a stranger inside ordinary Cosmos txs: bare, and nested in 1..3 authz.MsgExec,
	// with the unsigned From field empty, forged to the stranger, set to the victim; then the normal path again
	wr := func(key int, q uint64, depth int, forge string, dupOf int) c07Tx {
		return c07Tx{Kind: "wrap", Key: key, Q: q, Depth: depth, Forge: forge, Msgs: []c07Msg{{Dup: dupOf}}}
	}
	run([][]c07Tx{{e(m(0, 0, "transfer", 1)), e(m(0, 1, "call_ok", 2))}, {wr(1, 0, 0, "self", 0), wr(1, 0, 1, "self", 0), wr(1, 0, 2, "self", 0), wr(1, 1, 3, "self", 1),
		wr(1, 2, 2, "", 0), wr(1, 3, 2, "victim", 0)}, {e(dup(1)), e(dup(0)), e(m(0, 2, "transfer", 3))}})
	// … precompile calls around a reverted frame (StateDB flushes the sender with its temporarily reset nonce)
	run([][]c07Tx{{e(m(0, 0, "pre_revert", 1))}, {e(dup(0)), e(m(0, 1, "pre_revert", 2), m(0, 2, "transfer", 3))}, {e(dup(0)), e(dup(2)), e(dup(3)), e(m(0, 3, "call_ok", 4))}})
	// … accounts of another auth type (BaseAccount, as add-genesis-account writes them) that execute txs and are then
	// paid / called / named selfdestruct beneficiary by OTHER signers, on the EVM address and on the Cosmos address of
	// a key; then every signed tx (Ethereum and Cosmos) is delivered again
	to := func(x c07Msg, t int) c07Msg { x.To = t; return x }
	ac := func(key int, cosmos bool) c07Tx { return c07Tx{Kind: "acct", Key: key, Acc: "base", Cosmos: cosmos} }
	cq := func(key int, q uint64) c07Tx { return c07Tx{Kind: "cosmos", Key: key, Q: q} }
	run([][]c07Tx{{ac(0, false), ac(1, false), ac(1, true), ac(3, false), e(m(0, 0, "transfer", 1)), e(m(0, 1, "create_ok", 2)), e(m(1, 0, "call_ok", 3)), cq(1, 0), cq(1, 1)},
		{e(to(m(2, 0, "transfer", 4), 1)), e(dup(0)), e(dup(1))},
		{e(to(m(2, 1, "fwd", 5), 2), to(m(2, 2, "fwd_revert", 6), 2)), e(dup(2))},
		{e(to(m(2, 3, "sd", 7), 12)), cq(1, 0), cq(1, 1), e(to(m(2, 4, "call_pay", 8), 4)), e(to(m(0, 2, "transfer", 9), 1))},
		{e(dup(0)), e(dup(1)), e(dup(2)), e(dup(3)), e(dup(6)), cq(1, 0), cq(1, 2), e(m(0, 3, "transfer", 10)), e(m(1, 1, "transfer", 11))}})
	rng := NewRng(cfg.Seed)
	for i := 0; i < cfg.N; i++ {
		run(genC07Case(rng.Fork()))
	}
}

var _ = eth.EthAddrToNibiruAddr
