package c05

// C05 — EVM transactions conserve NIBI and charge exactly the gas used.
//
// A case is a short sequence of Ethereum txs of one fresh signer, each delivered in its own block
// through the real BeginBlock / DeliverTx / EndBlock / Commit.  Around every DeliverTx the driver
// measures the bank supply of unibi and the unibi balances of the scenario accounts
//
//	0 signer  1 fee collector  2 EOA recipient R  3 contract X  4 beneficiary B
//	5 N = CreateAddress(signer, nonce)  6 contract Y (frame-revert shape)  7 B2  8 C3  9 driver contract D
//	10, 11 second and third signer  12 factory F  13 XF = address of F's next CREATE / CREATE2
//	14 wasm contract W (a 32-byte bank address)  15 PH = the 20-byte account made of the last 20 bytes of W
//	16 the EVM module account (SetAccBalance mints to it / burns from it)  17 script contract Z
//	18 the x/distribution module account (the bank refuses to credit it, like 1 and 16)
//	19 RW = an instance of reflect.wasm owned by Z (a 32-byte bank address, no EVM account)
//
// plus tx code, VmError flag and MsgEthereumTxResponse.GasUsed (EventEthereumTx.gas_used).
//
// Contract X dispatches on calldata word 0: 0 keep value, 1 revert, 2 loop (out of gas), 3 forward
// w wei to B, 4 selfdestruct(B), 5 selfdestruct(self), 6 forward then revert, 7 call the FunToken
// precompile bankMsgSend(to, unibi, w), 8 the same then revert, 9 forward w wei to `to` by CALL and then
// bankMsgSend(to, unibi, pamt); `to` = B, the signer, X itself or R.  Contract Y sends 5 unibi to B2, then
// calls itself; the inner frame calls the precompile (whoAmI), sends 1 unibi to C3 and reverts.
// Contract Z interprets its calldata as a script: CALLs with value (plain transfers, also to module accounts the bank
// blocks), calls of the FunToken precompile (whoAmI / bankMsgSend) and calls of itself with a sub-script (a call frame
// that ends in STOP or REVERT); the results of all CALLs are ignored.  A transfer to a blocked module account followed
// by a precompile call in the same live frame makes the pre-precompile flush (CommitCacheCtx) fail half-way.
// Z also calls the Wasm precompile: execute(RW, reflect_msg{msgs}, funds) moves `funds` unibi Z -> RW and lets RW dispatch
// bank MsgSend of unibi and/or an evm MsgConvertCoinToEvm of unibi (a FunToken mapping for unibi exists) - the latter is
// REFUSED inside a running EVM state transition (fix 8031c94), i.e. the whole precompile call fails without effect.

import (
	"os"

	wasmkeeper "github.com/CosmWasm/wasmd/x/wasm/keeper"
	wasm "github.com/CosmWasm/wasmd/x/wasm/types"

	"encoding/base64"
	"encoding/hex"
	"encoding/json"
	"math/big"
	"strconv"
	"strings"
	"testing"
	"time"

	sdkmath "cosmossdk.io/math"
	abci "github.com/cometbft/cometbft/abci/types"
	"github.com/cosmos/cosmos-sdk/crypto/keys/secp256k1"
	authtypes "github.com/cosmos/cosmos-sdk/x/auth/types"
	banktypes "github.com/cosmos/cosmos-sdk/x/bank/types"
	"github.com/cosmos/gogoproto/proto"
	distrtypes "github.com/cosmos/cosmos-sdk/x/distribution/types"
	codectypes "github.com/cosmos/cosmos-sdk/codec/types"
	sdk "github.com/cosmos/cosmos-sdk/types"
	authtx "github.com/cosmos/cosmos-sdk/x/auth/tx"
	gethcommon "github.com/ethereum/go-ethereum/common"
	"github.com/ethereum/go-ethereum/core"
	gethcore "github.com/ethereum/go-ethereum/core/types"
	"github.com/ethereum/go-ethereum/crypto"

	. "verifharness/hx"

	"github.com/NibiruChain/nibiru/v2/eth"
	"github.com/NibiruChain/nibiru/v2/x/evm"
	"github.com/NibiruChain/nibiru/v2/x/evm/embeds"
	"github.com/NibiruChain/nibiru/v2/x/evm/evmtest"
	"github.com/NibiruChain/nibiru/v2/x/evm/precompile"
)

type c05Tx struct {
	Ty      int    `json:"ty"`      // 0 legacy, 1 access list, 2 dynamic fee
	GasMode string `json:"gasmode"` // below | exact | plus | ample | large | over
	GasAdd  int    `json:"gasadd"`  // plus: intrinsic + GasAdd ; below: intrinsic - 1 - GasAdd
	Gp      string `json:"gp"`      // gasPrice (wei), types 0/1
	Tip     string `json:"tip"`     // gasTipCap, type 2
	Cap     string `json:"cap"`     // gasFeeCap, type 2
	Value   string `json:"value"`   // wei; "bal-K": signer's balance in wei minus K
	Target  string `json:"target"`  // eoa | x | create | y
	Mode    int    `json:"mode"`    // x: 0..8 ; create: 0 ok, 1 reverting init code
	W       string `json:"w"`       // x modes 3,6: wei forwarded; modes 7,8: unibi sent by the precompile
	Signer  int       `json:"signer"` // inside a bundle: which of the three funded keys signs (0, 1, 2)
	Bundle  []c05Tx   `json:"bundle"` // non-empty: ONE Cosmos tx carrying these MsgEthereumTx; the outer fields are unused
	FV      string    `json:"fv"`     // target f: wei the factory first pays to the address its CREATE/CREATE2 will use
	FE      string    `json:"fe"`     // target f: endowment of the creation
	FInit   string    `json:"finit"`  // target f: init code outcome ok | revert | oog | invalid
	FC2     bool      `json:"fc2"`    // target f: CREATE2 instead of CREATE
	PTo     string    `json:"pto"`    // x modes 7,8,9: recipient of the precompile bank send: "" / B | S (the signer) | X (the caller) | R
	PAmt    string    `json:"pamt"`   // x mode 9: unibi sent by the precompile after forwarding w wei to the same recipient by CALL
	WAmt    string    `json:"wamt"`   // target w: unibi attached as funds to the wasm precompile `execute` of contract W
	WBad    bool      `json:"wbad"`   // target w: execute message the wasm contract does not know (fails)
	Steps   []c05Step `json:"steps"` // target d: calls the driver contract D makes to X inside this one tx
	ZSteps  []c05ZStep `json:"zsteps"` // target z: the script contract Z runs
	ZRev    bool       `json:"zrev"`   // target z: the top-level frame ends in REVERT
}

// one step of a script of contract Z
type c05ZStep struct {
	Op   string     `json:"op"`   // t: CALL `to` with `w` wei | p: call the FunToken precompile | f: call itself with `body` | w: Wasm.execute(RW, ...)
	Funds string    `json:"funds"` // w: unibi attached as funds (Z -> RW)
	Sends []c05ZStep `json:"sends"` // w: bank MsgSend{RW -> to, w unibi} dispatched by RW, in order
	Conv  string    `json:"conv"`  // w: non-empty: RW also dispatches MsgConvertCoinToEvm{conv unibi -> ERC20 for R}
	To   string     `json:"to"`   // t, p: B | R | S (signer) | X | DIST (x/distribution) | FC (fee collector)
	W    string     `json:"w"`    // t: wei ; p: unibi of bankMsgSend
	Q    bool       `json:"q"`    // p: whoAmI (a query) instead of bankMsgSend
	Body []c05ZStep `json:"body"` // f: the sub-script
	Rev  bool       `json:"rev"`  // f: the frame ends in REVERT
}

// one call D -> X: X runs `mode` (0 keep, 1 revert, 3 forward w wei to the beneficiary, 4 selfdestruct to the
// beneficiary, 5 selfdestruct to itself, 6 forward + revert) with `val` wei attached
type c05Step struct {
	Mode  int    `json:"mode"`
	Val   string `json:"val"`
	W     string `json:"w"`
	Benef string `json:"benef"` // B | R | D | X
}

type c05Case struct {
	Fund string  `json:"fund"` // unibi given to the signer
	RBal string  `json:"rbal"` // unibi given to R beforehand
	Txs  []c05Tx `json:"txs"`
}

type c05Der struct {
	Gas       uint64 `json:"gas"`
	Intrinsic uint64 `json:"intrinsic"`
	Value     string `json:"value"`
	To        int    `json:"to"`
	Expect    string `json:"expect"` // ok | fail : what the EVM run does given enough balance (scenario knowledge)
	BaseFee   string `json:"basefee"`
	BlockGas  uint64 `json:"blockgas"`
	Signer    int      `json:"signer"` // account id of the signer (bundle messages)
	Blocked   []int    `json:"blocked"` // ids of the scenario accounts for which BankKeeper.BlockedAddr holds
	Msgs      []c05Der `json:"msgs"`   // bundle: one entry per message
}

type c05Obs struct {
	Code     uint32   `json:"code"`
	AntePass bool     `json:"ante"`
	VmErr    bool     `json:"vmerr"`
	GasUsed  int64    `json:"gasused"` // -1: no response
	GasUsedL []int64  `json:"gasused_list"` // one entry per EventEthereumTx (bundles)
	VmErrL   []bool   `json:"vmerr_list"`
	Before   []string `json:"before"`
	After    []string `json:"after"`
	SupplyB  string   `json:"supply_before"`
	SupplyA  string   `json:"supply_after"`
	SeqB     uint64   `json:"seq_before"`
	SeqA     uint64   `json:"seq_after"`
}

var c05XInit = mustHex("6100f5600e6000396100f56000f36000358060011461004c57806002146100525780600314610057578060041461006a578060051461006f5780600614610072578060071461008957806008146100d457806009146100a657005b60006000fd5b610052565b60006000600060006020356040355af150005b604035ff5b30ff5b60006000600060006020356040355af15060006000fd5b6060360360606000376000600060603603600060006108005af150005b60006000600060006020356040355af1506060360360606000376000600060603603600060006108005af150005b6060360360606000376000600060603603600060006108005af15060006000fd")
var c05YRuntime = mustHex("33301461004257600060006000600065048c273950007300000000000000000000000000000000000000b25af150366000600037600060003660006000305af150005b3660006000376000600036600060006108005af150600060006000600064e8d4a510007300000000000000000000000000000000000000c35af15060006000fd")
var c05DInit = mustHex("610045600e6000396100456000f360005b80602035146100435780608002604001803560005280604001356020528060600135604052600060006060600084602001356000355af15050600101610002565b00")
var c05FInit = mustHex("61003a600e60003961003a6000f360006000600060006020356000355af15060a03560c060003760603561002b5760a0356000604035f050005b60803560a0356000604035f55000")
var c05ZInit = mustHex("604f80600b6000396000f360005b80358015610047578060031461004957508060800135808260c00160003760006000826000856040013586602001358760600135f150508060a001350160c001610002565b005b60006000fd")
var c05InitOOG = mustHex("5b600056")
var c05InitInvalid = mustHex("fe")
var c05CreateOK = mustHex("600160005360016000f3")     // returns 1 byte of runtime code
var c05CreateRevert = mustHex("60006000fd")

func mustHex(s string) []byte {
	b, err := hex.DecodeString(s)
	if err != nil {
		panic(err)
	}
	return b
}

var unibiWei = big.NewInt(1_000_000_000_000)

func bigOf(s string) *big.Int {
	if s == "" {
		return new(big.Int)
	}
	v, ok := new(big.Int).SetString(s, 10)
	if !ok {
		panic("bad number " + s)
	}
	return v
}

type c05World struct {
	c        *Chain
	deployer evmtest.EthPrivKeyAcc
	dnonce   uint64
	X, Y, D, F, Z gethcommon.Address
	W        sdk.AccAddress // wasm counter contract (32-byte address)
	RW       sdk.AccAddress // reflect.wasm owned by Z
	salt     int64
	xAlive   bool
	B2, C3   gethcommon.Address
	blocks   int
}

func (w *c05World) deploy(t *testing.T, code []byte, fund int64) gethcommon.Address {
	c := w.c
	msg, err := c.SignEth(w.deployer, &evm.EvmTxArgs{Nonce: w.dnonce, GasLimit: 1_000_000, GasPrice: unibiWei, Input: code})
	if err != nil {
		t.Fatal(err)
	}
	if r := c.DeliverEth(msg); r.Code != 0 {
		t.Fatalf("deploy: %s", r.Log)
	}
	a := crypto.CreateAddress(w.deployer.EthAddr, w.dnonce)
	w.dnonce++
	if err := c.Fund(eth.EthAddrToNibiruAddr(a), Unibi(fund)); err != nil {
		t.Fatal(err)
	}
	return a
}

func newC05World(t *testing.T) *c05World {
	w := &c05World{c: NewChain(nil), B2: gethcommon.HexToAddress("0xB2"), C3: gethcommon.HexToAddress("0xC3")}
	c := w.c
	c.BeginBlock(5 * time.Second)
	w.deployer = evmtest.NewEthPrivAcc()
	if err := c.Fund(w.deployer.NibiruAddr, Unibi(1e15)); err != nil {
		t.Fatal(err)
	}
	w.X = w.deploy(t, c05XInit, 50)
	w.xAlive = true
	yinit := append([]byte{0x60, byte(len(c05YRuntime)), 0x80, 0x60, 0x0B, 0x60, 0x00, 0x39, 0x60, 0x00, 0xF3}, c05YRuntime...)
	w.Y = w.deploy(t, yinit, 100_000)
	w.D = w.deploy(t, c05DInit, 1_000_000)
	w.F = w.deploy(t, c05FInit, 1_000_000)
	w.Z = w.deploy(t, c05ZInit, 1_000_000)
	repo := os.Getenv("VERIF_REPO")
	if repo == "" {
		repo = "/repo"
	}
	wasmCode, err := os.ReadFile(repo + "/x/evm/precompile/test/hello_world_counter.wasm")
	if err != nil {
		t.Fatal(err)
	}
	pk := wasmkeeper.NewDefaultPermissionKeeper(c.App.WasmKeeper)
	codeID, _, err := pk.Create(c.Ctx(), w.deployer.NibiruAddr, wasmCode, &wasm.AccessConfig{Permission: wasm.AccessTypeEverybody})
	if err != nil {
		t.Fatal(err)
	}
	w.W, _, err = pk.Instantiate(c.Ctx(), codeID, w.deployer.NibiruAddr, w.deployer.NibiruAddr, []byte(`{"count": 0}`), "counter", sdk.Coins{})
	if err != nil {
		t.Fatal(err)
	}
	// a FunToken mapping for unibi (so that a nested MsgConvertCoinToEvm of unibi would find one) ...
	c.App.BankKeeper.SetDenomMetaData(c.Ctx(), banktypes.Metadata{
		DenomUnits: []*banktypes.DenomUnit{{Denom: "unibi", Exponent: 0}, {Denom: "NIBI", Exponent: 6}}, Base: "unibi", Display: "NIBI", Name: "NIBI", Symbol: "NIBI"})
	creator := secp256k1.GenPrivKey()
	cAddr := sdk.AccAddress(creator.PubKey().Address())
	if err := c.Fund(cAddr, Unibi(1e12)); err != nil {
		t.Fatal(err)
	}
	if r := c.DeliverCosmos(creator, 8_000_000, Unibi(8_000_000), &evm.MsgCreateFunToken{FromBankDenom: "unibi", Sender: cAddr.String()}); r.Code != 0 {
		t.Fatalf("create funtoken unibi: %s", r.Log)
	}
	if r := c.DeliverCosmos(creator, 8_000_000, Unibi(8_000_000), &evm.MsgConvertCoinToEvm{Sender: cAddr.String(), BankCoin: sdk.NewInt64Coin("unibi", 1000),
		ToEthAddr: eth.EIP55Addr{Address: eth.NibiruAddrToEthAddr(cAddr)}}); r.Code != 0 {
		t.Fatalf("escrow unibi: %s", r.Log)
	}
	// ... and an instance of reflect.wasm whose owner is contract Z
	reflectCode, err := os.ReadFile(repo + "/x/devgas/v1/keeper/testdata/reflect.wasm")
	if err != nil {
		t.Fatal(err)
	}
	rid, _, err := pk.Create(c.Ctx(), w.deployer.NibiruAddr, reflectCode, &wasm.AccessConfig{Permission: wasm.AccessTypeEverybody})
	if err != nil {
		t.Fatal(err)
	}
	zOwner := eth.EthAddrToNibiruAddr(w.Z)
	w.RW, _, err = pk.Instantiate(c.Ctx(), rid, zOwner, zOwner, []byte(`{}`), "reflect", sdk.Coins{})
	if err != nil {
		t.Fatal(err)
	}
	if err := c.Fund(w.RW, Unibi(5000)); err != nil {
		t.Fatal(err)
	}
	c.EndBlock()
	return w
}

func c05ReflectPayload(msgs ...sdk.Msg) []byte {
	var parts []string
	for _, m := range msgs {
		bz, err := proto.Marshal(m)
		if err != nil {
			panic(err)
		}
		parts = append(parts, `{"stargate":{"type_url":"`+sdk.MsgTypeURL(m)+`","value":"`+base64.StdEncoding.EncodeToString(bz)+`"}}`)
	}
	return []byte(`{"reflect_msg":{"msgs":[` + strings.Join(parts, ",") + `]}}`)
}

func (w *c05World) bal(a gethcommon.Address) *big.Int {
	return w.balNibi(eth.EthAddrToNibiruAddr(a))
}

func (w *c05World) balNibi(a sdk.AccAddress) *big.Int {
	return w.c.App.BankKeeper.GetBalance(w.c.Ctx(), a, "unibi").Amount.BigInt()
}

func (w *c05World) encode(msgs ...*evm.MsgEthereumTx) ([]byte, error) {
	c := w.c
	b := c.TxCfg.NewTxBuilder().(authtx.ExtensionOptionsTxBuilder)
	opt, err := codectypes.NewAnyWithValue(&evm.ExtensionOptionsEthereumTx{})
	if err != nil {
		return nil, err
	}
	b.SetExtensionOptions(opt)
	fee := sdkmath.ZeroInt()
	gas := uint64(0)
	var sm []sdk.Msg
	for _, msg := range msgs {
		msg.From = ""
		sm = append(sm, msg)
		fee = fee.Add(sdkmath.NewIntFromBigInt(evm.WeiToNative(msg.EffectiveFeeWei(evm.BASE_FEE_WEI))))
		gas += msg.GetGas()
	}
	if err := b.SetMsgs(sm...); err != nil {
		return nil, err
	}
	b.SetFeeAmount(sdk.NewCoins(sdk.NewCoin("unibi", fee)))
	b.SetGasLimit(gas)
	return c.TxCfg.TxEncoder()(b.GetTx())
}

func (w *c05World) runCase(t *testing.T, cs c05Case) ([]c05Der, []c05Obs) {
	c := w.c
	S, S1, S2 := evmtest.NewEthPrivAcc(), evmtest.NewEthPrivAcc(), evmtest.NewEthPrivAcc()
	R := evmtest.NewEthPrivAcc().EthAddr
	B := evmtest.NewEthPrivAcc().EthAddr
	c.BeginBlock(5 * time.Second)
	w.blocks++
	fund := bigOf(cs.Fund)
	for _, a := range []evmtest.EthPrivKeyAcc{S, S1, S2} {
		if err := c.Fund(a.NibiruAddr, sdk.NewCoins(sdk.NewCoin("unibi", sdkmath.NewIntFromBigInt(fund)))); err != nil {
			t.Fatal(err)
		}
	}
	if rb := bigOf(cs.RBal); rb.Sign() > 0 {
		if err := c.Fund(eth.EthAddrToNibiruAddr(R), sdk.NewCoins(sdk.NewCoin("unibi", sdkmath.NewIntFromBigInt(rb)))); err != nil {
			t.Fatal(err)
		}
	}
	c.EndBlock()
	fc := gethcommon.BytesToAddress(c.App.AccountKeeper.GetModuleAddress("fee_collector"))
	evmMod := gethcommon.BytesToAddress(authtypes.NewModuleAddress(evm.ModuleName))
	dist := gethcommon.BytesToAddress(authtypes.NewModuleAddress(distrtypes.ModuleName))
	var ders []c05Der
	var obs []c05Obs
	signerAccs := []evmtest.EthPrivKeyAcc{S, S1, S2}
	for _, tx := range cs.Txs {
		c.BeginBlock(5 * time.Second)
		w.blocks++
		if !w.xAlive {
			w.X = w.deploy(t, c05XInit, 50)
			w.xAlive = true
		}
		ctx := c.Ctx()
		seqOf := func(a evmtest.EthPrivKeyAcc) uint64 {
			if acc := c.App.AccountKeeper.GetAccount(c.Ctx(), a.NibiruAddr); acc != nil {
				return acc.GetSequence()
			}
			return 0
		}
		nonce0 := seqOf(S)
		N := crypto.CreateAddress(S.EthAddr, nonce0)
		// the address the factory's creation of this tx will use
		fInit := c05CreateOK
		switch tx.FInit {
		case "revert":
			fInit = c05CreateRevert
		case "oog":
			fInit = c05InitOOG
		case "invalid":
			fInit = c05InitInvalid
		}
		w.salt++
		XF := crypto.CreateAddress(w.F, c.App.EvmKeeper.GetAccNonce(ctx, w.F))
		if tx.FC2 {
			XF = crypto.CreateAddress2(w.F, gethcommon.BigToHash(big.NewInt(w.salt)), crypto.Keccak256(fInit))
		}
		accts := []gethcommon.Address{S.EthAddr, fc, R, w.X, B, N, w.Y, w.B2, w.C3, w.D, S1.EthAddr, S2.EthAddr, w.F, XF}
		blockGas := eth.BlockGasLimit(ctx)
		if blockGas == 0 {
			if cp := c.App.GetConsensusParams(ctx); cp != nil && cp.Block != nil && cp.Block.MaxGas > 0 {
				blockGas = uint64(cp.Block.MaxGas)
			} else {
				blockGas = 1 << 62 // no limit
			}
		}
		// build signs one message of signer `from` with the given nonce
		build := func(from evmtest.EthPrivKeyAcc, nonce uint64, tx c05Tx) (*evm.MsgEthereumTx, c05Der) {
			var to *gethcommon.Address
			var data []byte
			toID := 2
			zgas := uint64(0)
			expect := "ok"
			hasCode := false
			switch tx.Target {
			case "eoa":
				a := R
				to = &a
			case "x":
				a := w.X
				to = &a
				toID = 3
				hasCode = true
				data = make([]byte, 96)
				data[31] = byte(tx.Mode)
				bigOf(tx.W).FillBytes(data[32:64])
				pto := B
				switch tx.PTo {
				case "S":
					pto = from.EthAddr
				case "X":
					pto = w.X
				case "R":
					pto = R
				}
				if tx.Mode == 9 {
					copy(data[76:96], pto.Bytes())
				} else {
					copy(data[76:96], B.Bytes())
				}
				switch tx.Mode {
				case 1, 2, 6, 8:
					expect = "fail"
				}
				if tx.Mode == 7 || tx.Mode == 8 || tx.Mode == 9 {
					amt := bigOf(tx.W)
					if tx.Mode == 9 {
						amt = bigOf(tx.PAmt)
					}
					in, err := embeds.SmartContract_FunToken.ABI.Pack("bankMsgSend", eth.EthAddrToNibiruAddr(pto).String(), "unibi", amt)
					if err != nil {
						t.Fatal(err)
					}
					data = append(data, in...)
				}
			case "y":
				a := w.Y
				to = &a
				toID = 6
				hasCode = true
				in, err := embeds.SmartContract_FunToken.ABI.Pack("whoAmI", from.NibiruAddr.String())
				if err != nil {
					t.Fatal(err)
				}
				data = in
			case "d":
				a := w.D
				to = &a
				toID = 9
				hasCode = true
				data = make([]byte, 64+128*len(tx.Steps))
				copy(data[12:32], w.X.Bytes())
				data[63] = byte(len(tx.Steps))
				for i, st := range tx.Steps {
					o := 64 + 128*i
					data[o+31] = byte(st.Mode)
					bigOf(st.Val).FillBytes(data[o+32 : o+64])
					bigOf(st.W).FillBytes(data[o+64 : o+96])
					ben := B
					switch st.Benef {
					case "R":
						ben = R
					case "D":
						ben = w.D
					case "X":
						ben = w.X
					}
					copy(data[o+108:o+128], ben.Bytes())
				}
			case "f":
				a := w.F
				to = &a
				toID = 12
				hasCode = true
				data = make([]byte, 192)
				copy(data[12:32], XF.Bytes())
				bigOf(tx.FV).FillBytes(data[32:64])
				bigOf(tx.FE).FillBytes(data[64:96])
				if tx.FC2 {
					data[127] = 1
				}
				big.NewInt(w.salt).FillBytes(data[128:160])
				data[191] = byte(len(fInit))
				data = append(data, fInit...)
			case "w":
				// the signer calls the wasm precompile directly: execute(W, msg, funds) moves `wamt` unibi from the
				// signer to the wasm contract through the bank keeper inside the EVM tx
				a := precompile.PrecompileAddr_Wasm
				to = &a
				toID = 14
				hasCode = true
				wmsg := []byte(`{"increment":{}}`)
				if tx.WBad {
					wmsg = []byte(`{"no_such_message":{}}`)
					expect = "fail"
				}
				funds := []precompile.WasmBankCoin{}
				if amt := bigOf(tx.WAmt); amt.Sign() > 0 {
					funds = append(funds, precompile.WasmBankCoin{Denom: "unibi", Amount: amt})
				}
				in, err := embeds.SmartContract_Wasm.ABI.Pack("execute", w.W.String(), wmsg, funds)
				if err != nil {
					t.Fatal(err)
				}
				data = in
			case "z":
				a := w.Z
				to = &a
				toID = 17
				hasCode = true
				if tx.ZRev {
					expect = "fail"
				}
				zaddr := func(n string) gethcommon.Address {
					switch n {
					case "R":
						return R
					case "S":
						return from.EthAddr
					case "X":
						return w.X
					case "Z":
						return w.Z
					case "DIST":
						return dist
					case "FC":
						return fc
					}
					return B
				}
				// every CALL gets its own gas budget (a failing precompile call burns all the gas it was given): 60k for a
				// transfer, 300k for a precompile call, the sum of its steps plus a margin for a frame
				var enc func(steps []c05ZStep, rev bool) ([]byte, uint64)
				enc = func(steps []c05ZStep, rev bool) ([]byte, uint64) {
					var out []byte
					total := uint64(30_000)
					word := func(v *big.Int) { out = append(out, gethcommon.LeftPadBytes(v.Bytes(), 32)...) }
					for _, st := range steps {
						var addr gethcommon.Address
						val := new(big.Int)
						var payload []byte
						g := uint64(60_000)
						switch st.Op {
						case "t":
							addr, val = zaddr(st.To), bigOf(st.W)
						case "p":
							addr = precompile.PrecompileAddr_FunToken
							g = 300_000
							var err error
							if st.Q {
								payload, err = embeds.SmartContract_FunToken.ABI.Pack("whoAmI", from.NibiruAddr.String())
							} else {
								payload, err = embeds.SmartContract_FunToken.ABI.Pack("bankMsgSend", eth.EthAddrToNibiruAddr(zaddr(st.To)).String(), "unibi", bigOf(st.W))
							}
							if err != nil {
								t.Fatal(err)
							}
						case "w":
							addr = precompile.PrecompileAddr_Wasm
							g = 1_500_000
							var msgs []sdk.Msg
							for _, sd := range st.Sends {
								// built by hand: sdk.NewCoins would drop a zero amount
								msgs = append(msgs, &banktypes.MsgSend{FromAddress: w.RW.String(), ToAddress: eth.EthAddrToNibiruAddr(zaddr(sd.To)).String(),
									Amount: sdk.Coins{sdk.Coin{Denom: "unibi", Amount: sdkmath.NewIntFromBigInt(bigOf(sd.W))}}})
							}
							if st.Conv != "" {
								msgs = append(msgs, &evm.MsgConvertCoinToEvm{Sender: w.RW.String(), BankCoin: sdk.Coin{Denom: "unibi", Amount: sdkmath.NewIntFromBigInt(bigOf(st.Conv))},
									ToEthAddr: eth.EIP55Addr{Address: R}})
							}
							funds := []precompile.WasmBankCoin{}
							if f := bigOf(st.Funds); f.Sign() > 0 {
								funds = append(funds, precompile.WasmBankCoin{Denom: "unibi", Amount: f})
							}
							var err error
							payload, err = embeds.SmartContract_Wasm.ABI.Pack("execute", w.RW.String(), c05ReflectPayload(msgs...), funds)
							if err != nil {
								t.Fatal(err)
							}
						default:
							addr = w.Z
							payload, g = enc(st.Body, st.Rev)
						}
						plen := (len(payload) + 31) / 32 * 32
						word(big.NewInt(1))
						word(new(big.Int).SetBytes(addr.Bytes()))
						word(val)
						word(new(big.Int).SetUint64(g))
						word(big.NewInt(int64(len(payload))))
						word(big.NewInt(int64(plen)))
						out = append(out, payload...)
						out = append(out, make([]byte, plen-len(payload))...)
						total += g + g/32 + 20_000 + 10*uint64(plen)
					}
					if rev {
						word(big.NewInt(3))
					} else {
						word(big.NewInt(0))
					}
					return out, total
				}
				data, zgas = enc(tx.ZSteps, tx.ZRev)
			case "create":
				toID = 5
				hasCode = true
				data = c05CreateOK
				if tx.Mode == 1 {
					data = c05CreateRevert
					expect = "fail"
				}
			}
			var al gethcore.AccessList
			if tx.Ty == 1 {
				al = gethcore.AccessList{{Address: R, StorageKeys: []gethcommon.Hash{{1}}}}
			}
			intrinsic, err := core.IntrinsicGas(data, al, to == nil, true, true)
			if err != nil {
				t.Fatal(err)
			}
			gas := intrinsic
			switch tx.GasMode {
			case "below":
				gas = intrinsic - 1 - uint64(tx.GasAdd)%intrinsic
				if gas == 0 {
					gas = 1
				}
			case "exact":
				if hasCode {
					expect = "fail" // no gas left for the first opcode / code deposit
				}
			case "plus":
				gas = intrinsic + uint64(tx.GasAdd)
			case "ample":
				gas = intrinsic + 300_000
				if tx.Target == "d" {
					gas = intrinsic + 2_000_000
				}
				if tx.Target == "f" {
					gas = intrinsic + 700_000
				}
				if tx.Target == "w" {
					gas = intrinsic + 2_000_000
				}
				if tx.Target == "z" {
					gas = intrinsic + zgas + zgas/16 + 100_000
				}
			case "large":
				gas = blockGas
			case "over":
				gas = blockGas + 1 + uint64(tx.GasAdd)
			}
			balWei := new(big.Int).Mul(w.bal(from.EthAddr), unibiWei)
			var value *big.Int
			if strings.HasPrefix(tx.Value, "bal-") {
				value = new(big.Int).Sub(balWei, bigOf(tx.Value[4:]))
				if value.Sign() < 0 {
					value = new(big.Int)
				}
			} else {
				value = bigOf(tx.Value)
			}
			var inner gethcore.TxData
			switch tx.Ty {
			case 1:
				inner = &gethcore.AccessListTx{ChainID: c.ChainID, Nonce: nonce, GasPrice: bigOf(tx.Gp), Gas: gas, To: to, Value: value, Data: data, AccessList: al}
			case 2:
				inner = &gethcore.DynamicFeeTx{ChainID: c.ChainID, Nonce: nonce, GasTipCap: bigOf(tx.Tip), GasFeeCap: bigOf(tx.Cap), Gas: gas, To: to, Value: value, Data: data}
			default:
				inner = &gethcore.LegacyTx{Nonce: nonce, GasPrice: bigOf(tx.Gp), Gas: gas, To: to, Value: value, Data: data}
			}
			key, err := from.PrivKey.ToECDSA()
			if err != nil {
				t.Fatal(err)
			}
			stx, err := gethcore.SignTx(gethcore.NewTx(inner), gethcore.LatestSignerForChainID(c.ChainID), key)
			if err != nil {
				t.Fatal(err)
			}
			msg := &evm.MsgEthereumTx{}
			if err := msg.FromEthereumTx(stx); err != nil {
				t.Fatal(err)
			}
			blocked := []int{}
			for i, a := range append(append([]gethcommon.Address{}, accts...), gethcommon.Address{}, gethcommon.BytesToAddress(w.W.Bytes()), evmMod, w.Z, dist) {
				if i != 14 && c.App.BankKeeper.BlockedAddr(eth.EthAddrToNibiruAddr(a)) {
					blocked = append(blocked, i)
				}
			}
			return msg, c05Der{Gas: gas, Intrinsic: intrinsic, Value: value.String(), To: toID, Expect: expect, Blocked: blocked,
				BaseFee: evm.NativeToWei(c.App.EvmKeeper.BaseFeeMicronibiPerGas(ctx)).String(), BlockGas: blockGas}
		}
		var msgs []*evm.MsgEthereumTx
		var d c05Der
		if len(tx.Bundle) == 0 {
			var msg *evm.MsgEthereumTx
			msg, d = build(S, nonce0, tx)
			msgs = append(msgs, msg)
		} else {
			next := map[int]uint64{}
			for _, sub := range tx.Bundle {
				k := sub.Signer % len(signerAccs)
				if _, ok := next[k]; !ok {
					next[k] = seqOf(signerAccs[k])
				}
				msg, sd := build(signerAccs[k], next[k], sub)
				next[k]++
				sd.Signer = []int{0, 10, 11}[k]
				msgs = append(msgs, msg)
				d.Msgs = append(d.Msgs, sd)
			}
			d.BaseFee, d.BlockGas = d.Msgs[0].BaseFee, d.Msgs[0].BlockGas
		}
		o := c05Obs{GasUsed: -1, SeqB: nonce0, GasUsedL: []int64{}, VmErrL: []bool{}}
		snap := func() ([]string, string) {
			var out []string
			for _, a := range accts {
				out = append(out, w.bal(a).String())
			}
			out = append(out, w.balNibi(w.W).String(), w.bal(gethcommon.BytesToAddress(w.W.Bytes())).String())
			out = append(out, w.bal(evmMod).String(), w.bal(w.Z).String(), w.bal(dist).String(), w.balNibi(w.RW).String())
			return out, c.App.BankKeeper.GetSupply(c.Ctx(), "unibi").Amount.String()
		}
		o.Before, o.SupplyB = snap()
		var res abci.ResponseDeliverTx
		bz, err := w.encode(msgs...)
		if err != nil {
			res = abci.ResponseDeliverTx{Code: 9999, Log: "encode: " + err.Error()}
		} else {
			res = c.App.DeliverTx(abci.RequestDeliverTx{Tx: bz})
		}
		o.After, o.SupplyA = snap()
		o.Code = res.Code
		o.AntePass = len(EventAttrs(res.Events, evm.PendingEthereumTxEvent)) > 0
		for _, a := range EventAttrs(res.Events, "eth.evm.v1.EventEthereumTx") {
			g, err := strconv.ParseInt(strings.Trim(a["gas_used"], `"`), 10, 64)
			if err != nil {
				g = -1
			}
			o.GasUsed = g
			v, ok := a["vm_error"]
			ve := ok && strings.Trim(v, `"`) != ""
			if ve {
				o.VmErr = true
			}
			o.GasUsedL = append(o.GasUsedL, g)
			o.VmErrL = append(o.VmErrL, ve)
		}
		o.SeqA = seqOf(S)
		if acct := c.App.EvmKeeper.GetAccount(c.Ctx(), w.X); acct == nil || !acct.IsContract() {
			w.xAlive = false
		}
		c.EndBlock()
		ders = append(ders, d)
		obs = append(obs, o)
	}
	return ders, obs
}

// ---------------------------------------------------------------- generation

func pickStr(r *Rng, xs ...string) string { return xs[r.Intn(len(xs))] }

func rndWei(r *Rng, maxUnibi int) string {
	v := new(big.Int).Mul(big.NewInt(int64(r.Intn(maxUnibi+1))), unibiWei)
	v.Add(v, big.NewInt(int64(r.Next()%1_000_000_000_000)))
	return v.String()
}

func genC05Tx(r *Rng) c05Tx {
	tx := c05Tx{Ty: r.Pick(4, 2, 4), Gp: "0", Tip: "0", Cap: "0", W: "0"}
	base := "1000000000000"
	tx.Gp = pickStr(r, base, base, "1000000000001", "1500000000001", "7000000123456", "1000000000000007", "0", "500000000000", "999999999999", rndWei(r, 40))
	tx.Tip = pickStr(r, "0", "1", base, "300000000007", "2500000000000", rndWei(r, 5))
	tip := bigOf(tx.Tip)
	capBase := new(big.Int).Add(tip, bigOf(base))
	switch r.Pick(4, 3, 2, 2, 1) {
	case 0: // cap = base + tip
		tx.Cap = capBase.String()
	case 1: // cap above
		tx.Cap = new(big.Int).Add(capBase, bigOf(rndWei(r, 3))).String()
	case 2: // base <= cap < base + tip (when possible)
		c := new(big.Int).Sub(capBase, big.NewInt(1))
		if c.Cmp(tip) < 0 {
			c = tip
		}
		tx.Cap = c.String()
	case 3: // cap == tip (may be below the base fee)
		tx.Cap = tx.Tip
	case 4: // huge
		tx.Cap = "1000000000000000000"
	}
	tx.Target = []string{"eoa", "x", "create", "y", "d", "f", "w", "z"}[r.Pick(5, 8, 2, 1, 4, 4, 3, 6)]
	switch tx.Target {
	case "z":
		tx.ZSteps, tx.ZRev = genC05Z(r.Fork())
	case "w":
		tx.WAmt = pickStr(r, "0", "1", "7", "7", "50", "123456")
		tx.WBad = r.Chance(1, 5)
	case "f":
		// the factory pre-funds the address of its next creation, then creates there with an endowment
		tx.FV = pickStr(r, "0", "3000000000000", "1000000000000", "2000000000001", "999999999999", rndWei(r, 9))
		tx.FE = pickStr(r, "0", "7000000000000", "1000000000000", "5000000000001", "1", rndWei(r, 9))
		tx.FInit = []string{"ok", "revert", "oog", "invalid"}[r.Pick(3, 4, 2, 2)]
		tx.FC2 = r.Chance(1, 3)
	case "d":
		// several calls into X inside one tx: self-destructs interleaved with payments into X and transfers out
		n := r.Range(2, 5)
		for i := 0; i < n; i++ {
			st := c05Step{Mode: []int{0, 1, 3, 4, 5, 6}[r.Pick(2, 1, 3, 6, 2, 1)], Val: pickStr(r, "0", "3000000000000", "1000000000000", "2000000000001", "7000000000000", rndWei(r, 9)),
				W: pickStr(r, "0", "1000000000000", "3000000000000", "999999999999", rndWei(r, 60)), Benef: pickStr(r, "B", "B", "R", "D", "X")}
			tx.Steps = append(tx.Steps, st)
		}
	case "x":
		tx.Mode = r.Pick(3, 2, 1, 4, 2, 2, 2, 4, 2, 4)
		if tx.Mode == 7 || tx.Mode == 8 || tx.Mode == 9 {
			// the recipient of the in-EVM bank send: a fresh account, the signer (dirty through its nonce), the
			// calling contract, an account that was paid by CALL earlier in the same tx (mode 9)
			tx.PTo = pickStr(r, "B", "S", "S", "X", "R")
		}
		if tx.Mode == 9 {
			tx.W = pickStr(r, "0", "1000000000000", "3000000000000", "2000000000005", "999999999999")
			tx.PAmt = pickStr(r, "0", "1", "7", "3", "60")
		} else if tx.Mode == 7 || tx.Mode == 8 {
			tx.W = pickStr(r, "0", "1", "7", "50", "51", "1000")
		} else {
			tx.W = pickStr(r, "0", "1", "999999999999", "1000000000000", "2000000000005", "50000000000000", "50000000000001", rndWei(r, 60))
		}
	case "create":
		tx.Mode = r.Pick(3, 1)
	}
	if tx.Target == "d" || tx.Target == "f" || tx.Target == "w" || tx.Target == "z" {
		tx.GasMode = []string{"below", "exact", "ample"}[r.Pick(1, 1, 14)]
	} else if tx.Target == "eoa" {
		tx.GasMode = []string{"below", "exact", "plus", "ample", "large", "over"}[r.Pick(2, 4, 3, 3, 1, 1)]
	} else {
		tx.GasMode = []string{"below", "exact", "ample", "large", "over"}[r.Pick(1, 1, 8, 1, 1)]
	}
	tx.GasAdd = r.Intn(5000)
	tx.Value = pickStr(r, "0", "0", "1", "999999999999", "1000000000000", "1000000000001", "5000000000999", "3000000000000", rndWei(r, 100), rndWei(r, 100))
	if r.Chance(1, 14) {
		tx.Value = "bal-" + pickStr(r, "0", "1", "20000000000000000", "999999999999")
		if r.Chance(1, 2) {
			tx.Gp = "0" // prepay (base fee) exceeds what Cost() reserved: the EVM sees too little balance
			tx.Ty = 0
		}
	}
	if tx.Target == "y" || tx.Target == "w" {
		tx.Value = "0"
	}
	if (tx.Target == "d" || tx.Target == "f" || tx.Target == "z") && (strings.HasPrefix(tx.Value, "bal-") || len(tx.Value) > 15) {
		tx.Value = "1000000000000"
	}
	return tx
}

// genC05Z: a script for contract Z.  Half of the scripts contain the shape "value transfer to a module account the
// bank blocks, then a precompile call in the same live frame" (the pre-precompile flush fails half-way), inside a frame
// that reverts, inside the top-level frame of a tx that reverts, or in frames that are kept (the final commit fails);
// the rest are free mixtures of transfers, precompile queries / bank sends and nested frames.
func genC05Z(r *Rng) ([]c05ZStep, bool) {
	amtWei := func() string {
		return pickStr(r, "1000000000000", "3000000000000", "999999999999", "2000000000005", "1000000000000000000", "7000000000000", "5000000000000000000000")
	}
	wasmx := func(conv bool) c05ZStep { // Wasm.execute(RW, reflect_msg{bank sends, maybe a refused evm message}, funds)
		st := c05ZStep{Op: "w", Funds: pickStr(r, "0", "5", "40", "50", "99999999999")}
		n := r.Pick(3, 4, 2)
		if n == 0 && !conv && r.Chance(5, 6) {
			n = 1 // reflect.wasm rejects an empty message list: the call fails (kept as a rare shape)
		}
		for i := 0; i < n; i++ {
			st.Sends = append(st.Sends, c05ZStep{To: pickStr(r, "B", "R", "S", "Z", "Z", "DIST"), W: pickStr(r, "1", "7", "30", "44", "0", "99999999")})
		}
		if conv {
			st.Conv = pickStr(r, "100", "5", "1")
		}
		return st
	}
	pre := func() c05ZStep {
		switch r.Pick(3, 4, 3, 3) {
		case 0:
			return c05ZStep{Op: "p", Q: true, W: "0"}
		case 2:
			return wasmx(false)
		case 3:
			return wasmx(true)
		}
		return c05ZStep{Op: "p", To: pickStr(r, "B", "B", "R", "S", "DIST", "FC"), W: pickStr(r, "1", "7", "60", "0", "3", "99999999999")}
	}
	var gen func(depth int) []c05ZStep
	gen = func(depth int) []c05ZStep {
		var out []c05ZStep
		n := r.Range(1, 4)
		for i := 0; i < n; i++ {
			switch k := r.Pick(4, 4, 3); {
			case k == 0:
				out = append(out, c05ZStep{Op: "t", To: pickStr(r, "DIST", "DIST", "FC", "B", "R", "S"), W: amtWei()})
			case k == 1:
				out = append(out, pre())
			case depth < 2:
				out = append(out, c05ZStep{Op: "f", Body: gen(depth + 1), Rev: r.Chance(1, 2)})
			default:
				out = append(out, c05ZStep{Op: "t", To: pickStr(r, "B", "R", "DIST"), W: amtWei()})
			}
		}
		return out
	}
	failing := func() []c05ZStep { // credit a blocked account, then call a precompile while the credit is pending
		st := []c05ZStep{}
		if r.Chance(1, 3) {
			st = append(st, c05ZStep{Op: "t", To: pickStr(r, "B", "R"), W: amtWei()})
		}
		st = append(st, c05ZStep{Op: "t", To: pickStr(r, "DIST", "DIST", "FC"), W: pickStr(r, "1000000000000", "1000000000000000000", "3000000000000", "2000000000005")})
		if r.Chance(1, 3) {
			st = append(st, c05ZStep{Op: "t", To: pickStr(r, "B", "S"), W: amtWei()})
		}
		st = append(st, pre())
		if r.Chance(1, 3) {
			st = append(st, pre())
		}
		return st
	}
	reentry := func() []c05ZStep { // a dispatch the chain refuses, surrounded by transfers and followed by further bank sends
		st := []c05ZStep{}
		if r.Chance(1, 2) {
			st = append(st, c05ZStep{Op: "t", To: pickStr(r, "B", "R"), W: amtWei()})
		}
		st = append(st, wasmx(true))
		for i, n := 0, r.Range(0, 2); i < n; i++ {
			if r.Chance(1, 2) {
				st = append(st, wasmx(false))
			} else {
				st = append(st, c05ZStep{Op: "p", To: pickStr(r, "B", "R", "S"), W: pickStr(r, "1", "7", "50")})
			}
		}
		if r.Chance(1, 2) {
			st = append(st, c05ZStep{Op: "t", To: pickStr(r, "B", "R"), W: amtWei()})
		}
		return st
	}
	switch r.Pick(3, 2, 1, 4, 4) {
	case 4: // Wasm.execute whose contract dispatches MsgConvertCoinToEvm: kept / in a reverted frame / in a reverted tx
		switch r.Pick(2, 2, 1) {
		case 0:
			return reentry(), false
		case 1:
			steps := []c05ZStep{{Op: "f", Body: reentry(), Rev: true}}
			if r.Chance(1, 2) {
				steps = append(steps, gen(1)...)
			}
			return steps, false
		}
		return reentry(), true
	case 0: // inside a frame that reverts, in a tx that goes on
		steps := []c05ZStep{}
		if r.Chance(1, 2) {
			steps = append(steps, gen(1)...)
		}
		steps = append(steps, c05ZStep{Op: "f", Body: failing(), Rev: true})
		if r.Chance(1, 2) {
			steps = append(steps, gen(1)...)
		}
		return steps, r.Chance(1, 5)
	case 1: // the whole tx reverts
		return failing(), true
	case 2: // kept: the final commit owes the blocked account its credit
		if r.Chance(1, 2) {
			return []c05ZStep{{Op: "f", Body: failing(), Rev: false}}, false
		}
		return failing(), false
	}
	return gen(0), r.Chance(1, 4)
}

// genC05Bundle: one Cosmos tx carrying 2-3 messages, mostly of different signers
func genC05Bundle(r *Rng) c05Tx {
	n := r.Range(2, 3)
	var subs []c05Tx
	for i := 0; i < n; i++ {
		m := genC05Tx(r.Fork())
		m.Steps = nil
		m.FV, m.FE, m.FInit, m.FC2 = "", "", "", false
		m.WAmt, m.WBad = "", false
		m.PTo, m.PAmt = "", ""
		m.ZSteps, m.ZRev = nil, false
		m.Signer = r.Intn(3)
		if i > 0 && r.Chance(1, 4) {
			m.Signer = subs[0].Signer
		}
		switch r.Pick(5, 4) {
		case 0:
			m.Target, m.Mode = "eoa", 0
		case 1:
			m.Target = "x"
			m.Mode = []int{0, 1, 3}[r.Pick(2, 1, 2)]
			m.W = pickStr(r, "0", "1", "999999999999", "1000000000000", "2000000000005", "7000000000000")
		}
		m.GasMode = []string{"below", "exact", "plus", "ample"}[r.Pick(1, 2, 3, 8)]
		if m.Target == "x" && m.GasMode == "plus" {
			m.GasMode = "ample" // a little gas above intrinsic may or may not suffice for the contract: not predictable
		}
		if strings.HasPrefix(m.Value, "bal-") || len(m.Value) > 15 {
			m.Value = pickStr(r, "0", "1000000000000", "5000000000999")
		}
		if m.Value == "1" || m.Value == "999999999999" {
			if r.Chance(3, 4) {
				m.Value = "3000000000000"
			}
		}
		subs = append(subs, m)
	}
	return c05Tx{Gp: "0", Tip: "0", Cap: "0", Value: "0", W: "0", Target: "bundle", Bundle: subs}
}

func genC05Case(r *Rng) c05Case {
	cs := c05Case{Fund: pickStr(r, "1000000000", "1000000000000", "3000000000000000", "400000"), RBal: pickStr(r, "0", "0", "17")}
	n := r.Range(1, 3)
	for i := 0; i < n; i++ {
		if r.Chance(1, 4) {
			cs.Txs = append(cs.Txs, genC05Bundle(r.Fork()))
		} else {
			cs.Txs = append(cs.Txs, genC05Tx(r.Fork()))
		}
	}
	return cs
}

func TestC05(t *testing.T) {
	cfg := LoadCfg(t, 150, 2500)
	em := NewEmitter(t, cfg.Out)
	defer em.Close()
	var w *c05World
	run := func(cs c05Case) {
		if w == nil || w.blocks > 600 {
			w = newC05World(t)
		}
		der, obs := w.runCase(t, cs)
		em.Emit(cs, obs, map[string]interface{}{"der": der})
	}
	if cfg.Replay != "" {
		for _, raw := range cfg.ReplayInputs(t) {
			var cs c05Case
			if err := json.Unmarshal(raw, &cs); err != nil {
				t.Fatal(err)
			}
			run(cs)
		}
		return
	}
	base := "1000000000000"
	leg := func(gm, gp, value, target string, mode int, w string) c05Tx {
		return c05Tx{Ty: 0, GasMode: gm, Gp: gp, Tip: "0", Cap: "0", Value: value, Target: target, Mode: mode, W: w}
	}
	// openers: the design-phase probes (ok / gas below intrinsic / odd price) …
	run(c05Case{Fund: "1000000000000", RBal: "0", Txs: []c05Tx{leg("exact", base, base, "eoa", 0, "0"), leg("below", base, base, "eoa", 0, "0"),
		{Ty: 0, GasMode: "plus", GasAdd: 29000, Gp: "1500000000001", Tip: "0", Cap: "0", Value: base, Target: "eoa", W: "0"}}})
	// … the frame-revert shape that minted 5 unibi per tx before 72672e0, three times in a row
	run(c05Case{Fund: "1000000000000", RBal: "0", Txs: []c05Tx{leg("ample", base, "0", "y", 0, "0"), leg("ample", base, "0", "y", 0, "0"), leg("ample", base, "0", "y", 0, "0")}})
	// … precompile bank send inside a frame that reverts / succeeds, sub-unibi forwards, self-destructs
	run(c05Case{Fund: "1000000000000", RBal: "0", Txs: []c05Tx{leg("ample", base, "3000000000000", "x", 8, "7"), leg("ample", base, "3000000000000", "x", 7, "7"),
		leg("ample", "1000000000001", "2000000000001", "x", 3, "999999999999")}})
	run(c05Case{Fund: "1000000000000", RBal: "0", Txs: []c05Tx{leg("ample", base, "1000000000000", "x", 4, "0"), leg("ample", base, "1000000000000", "x", 5, "0"),
		{Ty: 2, GasMode: "ample", Gp: "0", Tip: "300000000007", Cap: "1300000000006", Value: "5000000000999", Target: "create", W: "0"}}})
	// … repeated self-destructs of one contract inside one tx with payments into it in between
	kill := func(b string) c05Step { return c05Step{Mode: 4, Val: "0", W: "0", Benef: b} }
	pay := func(v string) c05Step { return c05Step{Mode: 0, Val: v, W: "0", Benef: "B"} }
	dtx := func(steps ...c05Step) c05Tx {
		return c05Tx{Ty: 0, GasMode: "ample", Gp: base, Tip: "0", Cap: "0", Value: "0", Target: "d", W: "0", Steps: steps}
	}
	run(c05Case{Fund: "1000000000000", RBal: "0", Txs: []c05Tx{dtx(kill("B"), pay("3000000000000"), kill("B"), kill("R")),
		dtx(kill("B"), pay("3000000000000"), kill("R"), c05Step{Mode: 3, Val: "0", W: "3000000000000", Benef: "D"}),
		dtx(c05Step{Mode: 5, Val: "0", W: "0", Benef: "X"}, pay("2000000000000"), c05Step{Mode: 5, Val: "1000000000000", W: "0", Benef: "X"}, kill("D"), pay("4000000000001"))}})
	// … a factory that pays the address of its next creation and then creates there with an endowment:
	// init code ok / revert / out of gas / invalid, CREATE and CREATE2
	ftx := func(fv, fe, init string, c2 bool) c05Tx {
		return c05Tx{Ty: 0, GasMode: "ample", Gp: base, Tip: "0", Cap: "0", Value: "0", Target: "f", W: "0", FV: fv, FE: fe, FInit: init, FC2: c2}
	}
	run(c05Case{Fund: "1000000000000", RBal: "0", Txs: []c05Tx{ftx("3000000000000", "7000000000000", "revert", false),
		ftx("3000000000000", "7000000000000", "ok", false), ftx("2000000000001", "5000000000001", "oog", false)}})
	run(c05Case{Fund: "1000000000000", RBal: "0", Txs: []c05Tx{ftx("3000000000000", "7000000000000", "invalid", true),
		ftx("1000000000000", "7000000000000", "revert", true), ftx("0", "7000000000000", "revert", false), ftx("3000000000000", "4000000000000", "ok", true)}})
	// … a bank send inside an EVM tx to an account that is already dirty in the StateDB: the contract bounces the tx
	// value back to the signer through bankMsgSend; pays the caller itself; pays R by CALL and then by bank send
	ptx := func(mode int, value, w, pto, pamt string) c05Tx {
		return c05Tx{Ty: 0, GasMode: "ample", Gp: base, Tip: "0", Cap: "0", Value: value, Target: "x", Mode: mode, W: w, PTo: pto, PAmt: pamt}
	}
	run(c05Case{Fund: "1000000000000", RBal: "0", Txs: []c05Tx{ptx(7, "7000000000000", "7", "S", ""), ptx(7, "3000000000000", "2", "X", ""),
		ptx(9, "5000000000000", "2000000000000", "R", "3"), ptx(9, "5000000000000", "1000000000000", "S", "4"), ptx(8, "7000000000000", "7", "S", "")}})
	// … a bank send inside an EVM tx whose recipient is NOT a 20-byte address: the signer calls the wasm precompile
	// `execute` with unibi funds for a wasm contract (32-byte address), three times, then a failing execute
	wtx := func(amt string, bad bool) c05Tx {
		return c05Tx{Ty: 0, GasMode: "ample", Gp: base, Tip: "0", Cap: "0", Value: "0", Target: "w", W: "0", WAmt: amt, WBad: bad}
	}
	run(c05Case{Fund: "1000000000000", RBal: "0", Txs: []c05Tx{wtx("7", false), wtx("7", false), wtx("0", false), wtx("5", true)}})
	// … a flush that fails half-way: contract Z pays 1 NIBI to the x/distribution module account (blocked by the bank) and
	// then calls the FunToken precompile, inside a sub-call that reverts / in a tx that reverts as a whole / in frames
	// that are kept (the final commit then fails); the same with the fee collector; a query instead of a bank send
	ztx := func(rev bool, steps ...c05ZStep) c05Tx {
		return c05Tx{Ty: 0, GasMode: "ample", Gp: base, Tip: "0", Cap: "0", Value: "0", Target: "z", W: "0", ZSteps: steps, ZRev: rev}
	}
	zt := func(to, w string) c05ZStep { return c05ZStep{Op: "t", To: to, W: w} }
	zsend := func(to, amt string) c05ZStep { return c05ZStep{Op: "p", To: to, W: amt} }
	zq := c05ZStep{Op: "p", Q: true, W: "0"}
	zf := func(rev bool, body ...c05ZStep) c05ZStep { return c05ZStep{Op: "f", Body: body, Rev: rev} }
	run(c05Case{Fund: "1000000000000", RBal: "0", Txs: []c05Tx{
		ztx(false, zf(true, zt("DIST", "1000000000000000000"), zsend("B", "1"))),
		ztx(true, zt("DIST", "1000000000000000000"), zsend("B", "1")),
		ztx(false, zt("B", "3000000000000"), zf(true, zt("FC", "2000000000000"), zq), zsend("R", "7")),
		ztx(false, zf(false, zt("DIST", "1000000000000"), zq))}})
	run(c05Case{Fund: "1000000000000", RBal: "0", Txs: []c05Tx{
		ztx(false, zf(true, zt("B", "2000000000005"), zt("DIST", "3000000000000"), zq, zsend("S", "3")), zf(true, zsend("B", "5"), zt("DIST", "999999999999"), zq)),
		ztx(false, zsend("B", "7"), zf(false, zf(true, zt("DIST", "1000000000000000000"), zsend("DIST", "1")), zt("R", "999999999999")), zq)}})
	// … the Wasm precompile: execute(RW, …) with funds, bank sends dispatched by the wasm contract, and a dispatched
	// MsgConvertCoinToEvm of unibi (refused inside a running EVM tx): plain, followed by further bank sends of the same
	// tx, inside a sub-call that reverts, in a tx that reverts
	zw := func(funds, conv string, sends ...c05ZStep) c05ZStep { return c05ZStep{Op: "w", Funds: funds, Conv: conv, Sends: sends} }
	ws := func(to, amt string) c05ZStep { return c05ZStep{To: to, W: amt} }
	run(c05Case{Fund: "1000000000000", RBal: "0", Txs: []c05Tx{
		ztx(false, zw("40", "", ws("B", "7"), ws("Z", "30"))),
		ztx(false, zt("B", "5000000000000"), zw("0", "100"), zt("R", "1000000000000")),
		ztx(false, zw("0", "100"), zw("50", "", ws("S", "1"))),
		ztx(false, zf(true, zt("B", "5000000000000"), zw("0", "100"), zt("R", "1000000000000")), zsend("B", "3")),
		ztx(true, zt("B", "5000000000000"), zw("5", "100", ws("R", "7")))}})
	// … one Cosmos tx bundling messages of different signers (each pays for its own gas) and of one signer
	sub := func(signer int, gm string, gasadd int, gp, value, target string, mode int, w string) c05Tx {
		return c05Tx{Signer: signer, Ty: 0, GasMode: gm, GasAdd: gasadd, Gp: gp, Tip: "0", Cap: "0", Value: value, Target: target, Mode: mode, W: w}
	}
	bundle := func(subs ...c05Tx) c05Tx {
		return c05Tx{Gp: "0", Tip: "0", Cap: "0", Value: "0", W: "0", Target: "bundle", Bundle: subs}
	}
	run(c05Case{Fund: "1000000000000", RBal: "0", Txs: []c05Tx{
		bundle(sub(1, "plus", 79000, base, "0", "eoa", 0, "0"), sub(2, "plus", 9000, "1500000000001", base, "eoa", 0, "0")),
		bundle(sub(0, "ample", 0, "7000000123456", "2000000000001", "x", 3, "999999999999"), sub(1, "ample", 0, base, "0", "x", 1, "0"), sub(0, "exact", 0, base, base, "eoa", 0, "0")),
		bundle(sub(2, "plus", 50000, "0", "0", "eoa", 0, "0"), sub(1, "below", 10, base, "0", "eoa", 0, "0"))}})
	// … prices below the base fee for each of the three tx types (charged and refunded at the base fee)
	run(c05Case{Fund: "1000000000000", RBal: "0", Txs: []c05Tx{
		{Ty: 1, GasMode: "plus", GasAdd: 79000, Gp: "0", Tip: "0", Cap: "0", Value: "0", Target: "eoa", W: "0"},
		{Ty: 0, GasMode: "plus", GasAdd: 79000, Gp: "500000000000", Tip: "0", Cap: "0", Value: base, Target: "eoa", W: "0"},
		{Ty: 2, GasMode: "plus", GasAdd: 79000, Gp: "0", Tip: "0", Cap: "0", Value: "0", Target: "eoa", W: "0"}}})
	run(c05Case{Fund: "1000000000000", RBal: "0", Txs: []c05Tx{
		{Ty: 1, GasMode: "ample", Gp: "999999999999", Tip: "0", Cap: "0", Value: "2000000000001", Target: "x", Mode: 0, W: "0"},
		{Ty: 2, GasMode: "ample", Gp: "0", Tip: "1", Cap: "999999999999", Value: "0", Target: "x", Mode: 1, W: "0"}}})
	rng := NewRng(cfg.Seed)
	for i := 0; i < cfg.N; i++ {
		run(genC05Case(rng.Fork()))
	}
}
