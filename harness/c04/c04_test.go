package c04

// C04 — call-frame atomicity across EVM state and precompile side effects.
//
// A case is an initial table of accounts / slots plus a script (tree of ops) executed on the REAL
// statedb.StateDB through its public API, exactly as the interpreter and precompile.OnRunStart use it:
//
//	ab/sb/sn/sc/ss  AddBalance / SubBalance (only if funds suffice) / SetNonce / SetCode / SetState
//	sd a b          opSelfdestruct: AddBalance(b, GetBalance(a)); Suicide(a)
//	cr a            evm.create: collision check, CreateAccount(a), SetNonce(a,1)
//	lg ar sr aa as  AddLog / AddRefund / SubRefund / AddAddressToAccessList / AddSlotToAccessList
//	to a            GetBalance(a) + bank balance of a on the current (cache) ctx  -> one "view" pair
//	rs a k          GetState(a,k) and GetCommittedState(a,k) -> one "view" entry tagged -(100a+k)
//	fr body rev     Snapshot; body; RevertToSnapshot if rev
//	pc sends fails  Snapshot; CacheCtxForPrecompile; SavePrecompileCalledJournalChange; CommitCacheCtx;
//	                bank SendCoins(unibi) (odd amounts) or AccountToModule+ModuleToAccount through the evm module
//	                (even amounts) on the returned cache ctx for every send; RevertToSnapshot if
//	                fails (or if the per-tx call limit was hit)
//
// A third driver (c04tx_test.go, TestC04Tx) sends REAL transactions through the real FunToken precompile.
//
// Observables: after StateDB.Commit the keeper's account / code / storage and the bank balance of every
// model address; logs, refund, access list at the end of the run; the view pairs in execution order.

import (
	"bytes"
	"encoding/json"
	"fmt"
	"math/big"
	"testing"

	sdkmath "cosmossdk.io/math"
	sdk "github.com/cosmos/cosmos-sdk/types"
	authtypes "github.com/cosmos/cosmos-sdk/x/auth/types"
	distrtypes "github.com/cosmos/cosmos-sdk/x/distribution/types"
	gethcommon "github.com/ethereum/go-ethereum/common"
	gethcore "github.com/ethereum/go-ethereum/core/types"
	"github.com/ethereum/go-ethereum/core/vm"
	"github.com/ethereum/go-ethereum/crypto"

	. "verifharness/hx"

	"github.com/NibiruChain/nibiru/v2/eth"
	"github.com/NibiruChain/nibiru/v2/x/evm/embeds"
	"github.com/NibiruChain/nibiru/v2/x/evm/evmtest"
	"github.com/NibiruChain/nibiru/v2/x/evm/precompile"
	"github.com/NibiruChain/nibiru/v2/x/evm/statedb"
)

const (
	nAddr = 7 // model addresses 1..nAddr; 6 and 7 are the distribution and fee-collector module accounts,
	// which the bank refuses to credit (blocked addresses): a commit that has to raise their balance fails
	nKey = 3 // slots 1..nKey
)

var blockedIDs = []int64{6, 7}

var unibiWei = big.NewInt(1_000_000_000_000)
var emptyCodeHash = crypto.Keccak256(nil)

// op is one node of the script tree, encoded as a heterogeneous JSON array (see package comment).
type op struct {
	K    string
	A, B int64 // addresses / slot
	V    int64 // amount, nonce, code id, value, gas
	Body []op
	Flag bool
}

func (o op) MarshalJSON() ([]byte, error) {
	switch o.K {
	case "ab", "sb", "sn", "sc":
		return json.Marshal([]interface{}{o.K, o.A, o.V})
	case "ss":
		return json.Marshal([]interface{}{o.K, o.A, o.B, o.V})
	case "sd", "as", "rs":
		return json.Marshal([]interface{}{o.K, o.A, o.B})
	case "cr", "aa", "to":
		return json.Marshal([]interface{}{o.K, o.A})
	case "lg":
		return json.Marshal([]interface{}{o.K})
	case "ar", "sr":
		return json.Marshal([]interface{}{o.K, o.V})
	case "bs", "is":
		return json.Marshal([]interface{}{o.K, o.A, o.B, o.V})
	case "fr", "pc":
		body := o.Body
		if body == nil {
			body = []op{}
		}
		return json.Marshal([]interface{}{o.K, body, o.Flag})
	}
	return nil, fmt.Errorf("unknown op %q", o.K)
}

func (o *op) UnmarshalJSON(bz []byte) error {
	var raw []json.RawMessage
	if err := json.Unmarshal(bz, &raw); err != nil {
		return err
	}
	if len(raw) == 0 {
		return fmt.Errorf("empty op")
	}
	if err := json.Unmarshal(raw[0], &o.K); err != nil {
		return err
	}
	num := func(i int) int64 {
		var v int64
		if i < len(raw) {
			_ = json.Unmarshal(raw[i], &v)
		}
		return v
	}
	switch o.K {
	case "ab", "sb", "sn", "sc":
		o.A, o.V = num(1), num(2)
	case "ss":
		o.A, o.B, o.V = num(1), num(2), num(3)
	case "sd", "as", "rs":
		o.A, o.B = num(1), num(2)
	case "cr", "aa", "to":
		o.A = num(1)
	case "lg":
	case "ar", "sr":
		o.V = num(1)
	case "fr":
		if len(raw) != 3 {
			return fmt.Errorf("bad frame")
		}
		if err := json.Unmarshal(raw[1], &o.Body); err != nil {
			return err
		}
		return json.Unmarshal(raw[2], &o.Flag)
	case "bs", "is":
		o.A, o.B, o.V = num(1), num(2), num(3)
	case "pc":
		if len(raw) != 3 {
			return fmt.Errorf("bad precompile op")
		}
		// body elements: ops, or bare [from, to, amount] triples (older corpus entries) = bank sends
		var items []json.RawMessage
		if err := json.Unmarshal(raw[1], &items); err != nil {
			return err
		}
		o.Body = []op{}
		for _, it := range items {
			var tri [3]int64
			if err := json.Unmarshal(it, &tri); err == nil {
				o.Body = append(o.Body, op{K: "bs", A: tri[0], B: tri[1], V: tri[2]})
				continue
			}
			var sub op
			if err := json.Unmarshal(it, &sub); err != nil {
				return err
			}
			o.Body = append(o.Body, sub)
		}
		return json.Unmarshal(raw[2], &o.Flag)
	default:
		return fmt.Errorf("unknown op %q", o.K)
	}
	return nil
}

type c04Input struct {
	Accs    [][4]int64 `json:"accs"` // id, unibi, nonce, code id
	Stor    [][3]int64 `json:"stor"` // id, slot, value
	Script  []op       `json:"script"`
	Blocked []int64    `json:"blocked"` // ids of blocked module accounts (always 6, 7; listed in accs with 0 0 0)
}

type c04Obs struct {
	Accs      [][5]int64  `json:"accs"` // id, exists, unibi, nonce, code id
	Stor      [][3]int64  `json:"stor"`
	Logs      int         `json:"logs"`
	Refund    uint64      `json:"refund"`
	Al        [][2]int64  `json:"al"`           // id, in access list
	Als       [][3]int64  `json:"als"`          // id, slot, in access list
	Views     [][3]string `json:"views"`        // id, StateDB wei, bank unibi
	LimitErrs int         `json:"limit_errs"`   // precompile calls refused by OnRunStart (limit or failing flush)
	FlushErrs int         `json:"flush_errs"`   // … of which CommitCacheCtx failed (API driver only)
	Supply    string      `json:"supply_delta"` // unibi supply after Commit minus before the case and minus the initial table
	CommitErr string      `json:"commit_err"`
	Panic     string      `json:"panic"`
}

func addrOf(id int64) gethcommon.Address {
	switch id {
	case 6:
		return gethcommon.BytesToAddress(authtypes.NewModuleAddress(distrtypes.ModuleName))
	case 7:
		return gethcommon.BytesToAddress(authtypes.NewModuleAddress(authtypes.FeeCollectorName))
	}
	return gethcommon.BigToAddress(big.NewInt(0xC0400000 + id))
}
func hashOf(v int64) gethcommon.Hash { return gethcommon.BigToHash(big.NewInt(v)) }
func codeOf(id int64) []byte {
	if id == 0 {
		return nil
	}
	return []byte{0x60, byte(id), 0x50, 0x00}
}
func codeID(code []byte) int64 {
	for id := int64(1); id < 8; id++ {
		if bytes.Equal(code, codeOf(id)) {
			return id
		}
	}
	return 99
}

// ---------------------------------------------------------------- execution on the real StateDB

type runner struct {
	deps          *evmtest.TestDeps
	ctx           sdk.Context
	db            *statedb.StateDB
	obs           *c04Obs
	viaOnRunStart bool // "pc" goes through precompile.OnRunStart (the real entry point) instead of the three API calls
}

var whoAmIInput = func() []byte {
	bz, err := embeds.SmartContract_FunToken.ABI.Pack("whoAmI", "nibi1")
	if err != nil {
		panic(err)
	}
	return bz
}()

// onRunStart prepares a precompile call: cache ctx + journal entry + flush. ok=false: refused.
func (r *runner) onRunStart() (cacheCtx sdk.Context, ok bool) {
	db := r.db
	if r.viaOnRunStart {
		res, err := precompile.OnRunStart(&vm.EVM{StateDB: db}, whoAmIInput, embeds.SmartContract_FunToken.ABI, 10_000_000)
		if err != nil {
			r.obs.LimitErrs++
			return cacheCtx, false
		}
		return res.CacheCtx, true
	}
	cacheCtx, je := db.CacheCtxForPrecompile()
	if err := db.SavePrecompileCalledJournalChange(je); err != nil {
		r.obs.LimitErrs++
		return cacheCtx, false
	}
	if err := db.CommitCacheCtx(); err != nil {
		// e.g. a blocked module account would have to be credited: the call fails, the frame is reverted
		r.obs.LimitErrs++
		r.obs.FlushErrs++
		return cacheCtx, false
	}
	return cacheCtx, true
}

func (r *runner) bankCtx() sdk.Context {
	if c := r.db.GetCacheContext(); c != nil {
		return *c
	}
	return r.ctx
}

// exec runs ops; cctx is the cache ctx of the precompile body the ops are direct elements of (nil: none).
func (r *runner) exec(ops []op, cctx *sdk.Context) {
	db := r.db
	for _, o := range ops {
		a, b := addrOf(o.A), addrOf(o.B)
		switch o.K {
		case "ab":
			db.AddBalance(a, big.NewInt(o.V))
		case "sb":
			if db.GetBalance(a).Cmp(big.NewInt(o.V)) >= 0 {
				db.SubBalance(a, big.NewInt(o.V))
			}
		case "sn":
			db.SetNonce(a, uint64(o.V))
		case "sc":
			db.SetCode(a, codeOf(o.V))
		case "ss":
			db.SetState(a, hashOf(o.B), hashOf(o.V))
		case "sd":
			if db.Exist(a) {
				bal := db.GetBalance(a)
				db.AddBalance(b, bal)
				db.Suicide(a)
			}
		case "cr":
			nonce := db.GetNonce(a)
			ch := db.GetCodeHash(a)
			if nonce != 0 || (ch != (gethcommon.Hash{}) && ch != gethcommon.BytesToHash(emptyCodeHash)) {
				break // ErrContractAddressCollision
			}
			db.CreateAccount(a)
			db.SetNonce(a, 1)
		case "lg":
			db.AddLog(&gethcore.Log{Address: addrOf(1)})
		case "ar":
			db.AddRefund(uint64(o.V))
		case "sr":
			if uint64(o.V) <= db.GetRefund() {
				db.SubRefund(uint64(o.V))
			}
		case "aa":
			db.AddAddressToAccessList(a)
		case "as":
			db.AddSlotToAccessList(a, hashOf(o.B))
		case "to":
			w := db.GetBalance(a)
			bk := r.deps.App.BankKeeper.GetBalance(r.bankCtx(), eth.EthAddrToNibiruAddr(a), "unibi").Amount
			r.obs.Views = append(r.obs.Views, [3]string{fmt.Sprint(o.A), w.String(), bk.String()})
		case "rs":
			v := db.GetState(a, hashOf(o.B))
			c := db.GetCommittedState(a, hashOf(o.B))
			r.obs.Views = append(r.obs.Views, [3]string{fmt.Sprint(-(o.A*100 + o.B)), v.Big().String(), c.Big().String()})
		case "is": // an ERC20-style update: slot += delta
			cur := db.GetState(a, hashOf(o.B)).Big()
			db.SetState(a, hashOf(o.B), gethcommon.BigToHash(new(big.Int).Add(cur, big.NewInt(o.V))))
		case "bs":
			if cctx == nil || o.V <= 0 {
				break
			}
			from, to := eth.EthAddrToNibiruAddr(addrOf(o.A)), eth.EthAddrToNibiruAddr(addrOf(o.B))
			coins := sdk.NewCoins(sdk.NewCoin("unibi", sdkmath.NewInt(o.V)))
			bk := r.deps.App.BankKeeper
			// an insufficient balance fails inside the bank keeper without any write
			if o.V%2 == 0 {
				// even amounts travel through the evm module account (as FunToken escrow moves do):
				// the other two Sync-ing bank entry points
				if err := bk.SendCoinsFromAccountToModule(*cctx, from, "evm", coins); err == nil {
					if err := bk.SendCoinsFromModuleToAccount(*cctx, "evm", to, coins); err != nil {
						r.obs.CommitErr = "module hop: " + err.Error()
					}
				}
			} else {
				_ = bk.SendCoins(*cctx, from, to, coins)
			}
		case "fr":
			snap := db.Snapshot()
			r.exec(o.Body, nil)
			if o.Flag {
				db.RevertToSnapshot(snap)
			}
		case "pc":
			snap := db.Snapshot() // evm.Call
			cacheCtx, ok := r.onRunStart()
			if !ok {
				db.RevertToSnapshot(snap)
				break
			}
			// the body: bank sends on the cache ctx, EVM writes, nested frames and nested precompile calls
			r.exec(o.Body, &cacheCtx)
			if o.Flag {
				db.RevertToSnapshot(snap)
			}
		}
	}
}

func runCase(deps *evmtest.TestDeps, in c04Input, viaOnRunStart bool) c04Obs {
	obs := c04Obs{Accs: [][5]int64{}, Stor: [][3]int64{}, Al: [][2]int64{}, Als: [][3]int64{}, Views: [][3]string{}}
	deps.EvmKeeper.Bank.StateDB = nil
	ctx, _ := deps.Ctx.CacheContext()
	supply0 := deps.App.BankKeeper.GetSupply(ctx, "unibi").Amount
	// initial table
	for _, a := range in.Accs {
		if a[0] == 6 || a[0] == 7 {
			continue // module accounts exist already (balance 0, sequence 0: checked at start-up)
		}
		code := codeOf(a[3])
		ch := emptyCodeHash
		if code != nil {
			ch = crypto.Keccak256(code)
			deps.EvmKeeper.SetCode(ctx, ch, code)
		}
		if err := deps.EvmKeeper.SetAccount(ctx, addrOf(a[0]), statedb.Account{BalanceNative: big.NewInt(a[1]), Nonce: uint64(a[2]), CodeHash: ch}); err != nil {
			obs.Panic = "init: " + err.Error()
			return obs
		}
	}
	for _, s := range in.Stor {
		deps.EvmKeeper.SetState(ctx, addrOf(s[0]), hashOf(s[1]), hashOf(s[2]).Bytes())
	}
	db := deps.EvmKeeper.NewStateDB(ctx, statedb.NewEmptyTxConfig(gethcommon.Hash{}))
	r := &runner{deps: deps, ctx: ctx, db: db, obs: &obs, viaOnRunStart: viaOnRunStart}
	obs.Panic = Recover(func() {
		r.exec(in.Script, nil)
		obs.Logs = len(db.Logs())
		obs.Refund = db.GetRefund()
		for id := int64(1); id <= nAddr; id++ {
			in := int64(0)
			if db.AddressInAccessList(addrOf(id)) {
				in = 1
			}
			obs.Al = append(obs.Al, [2]int64{id, in})
			for k := int64(1); k <= nKey; k++ {
				_, sl := db.SlotInAccessList(addrOf(id), hashOf(k))
				v := int64(0)
				if sl {
					v = 1
				}
				obs.Als = append(obs.Als, [3]int64{id, k, v})
			}
		}
		if err := db.Commit(); err != nil {
			obs.CommitErr = err.Error()
		}
	})
	deps.EvmKeeper.Bank.StateDB = nil
	// supply change from the initial table to the end (the initial table itself is minted)
	initSum := int64(0)
	for _, a := range in.Accs {
		initSum += a[1]
	}
	obs.Supply = deps.App.BankKeeper.GetSupply(ctx, "unibi").Amount.Sub(supply0).SubRaw(initSum).String()
	for id := int64(1); id <= nAddr; id++ {
		a := addrOf(id)
		acc := deps.EvmKeeper.GetAccount(ctx, a)
		bank := deps.App.BankKeeper.GetBalance(ctx, eth.EthAddrToNibiruAddr(a), "unibi").Amount.Int64()
		if acc == nil {
			// no auth account: the bank balance is still shown (it must be 0 for the model's "absent")
			obs.Accs = append(obs.Accs, [5]int64{id, 0, bank, 0, 0})
		} else {
			cid := int64(0)
			if !bytes.Equal(acc.CodeHash, emptyCodeHash) {
				cid = 99
				if code, err := deps.EvmKeeper.EvmState.ContractBytecode.Get(ctx, acc.CodeHash); err == nil {
					cid = codeID(code)
				}
			}
			obs.Accs = append(obs.Accs, [5]int64{id, 1, bank, int64(acc.Nonce), cid})
		}
		for k := int64(1); k <= nKey; k++ {
			v := deps.EvmKeeper.GetState(ctx, a, hashOf(k)).Big()
			vi := int64(-1)
			if v.IsInt64() {
				vi = v.Int64()
			}
			obs.Stor = append(obs.Stor, [3]int64{id, k, vi})
		}
	}
	return obs
}

// ---------------------------------------------------------------- generation

type gen struct {
	rng   *Rng
	calls int
	ops   int
	accs  [][4]int64 // the initial table (to write tx-start values back)
	stor  [][3]int64
	// restores: ops that put a field back to the value it had when the tx started; each becomes
	// eligible once at least one more precompile call has been generated after the first write
	pending []pendingRestore
}

type pendingRestore struct {
	op         op
	callsAtGen int
}

func (g *gen) initAcc(a int64) (bal, nonce, code int64) {
	for _, x := range g.accs {
		if x[0] == a {
			return x[1], x[2], x[3]
		}
	}
	return 0, 0, 0
}

func (g *gen) initSlot(a, k int64) int64 {
	for _, x := range g.stor {
		if x[0] == a && x[1] == k {
			return x[2]
		}
	}
	return 0
}

// roundtrip writes a value different from the tx-start one now and schedules the write-back.
func (g *gen) roundtrip() op {
	r := g.rng
	a := g.addr()
	_, n0, c0 := g.initAcc(a)
	var now, back op
	switch r.Pick(3, 3, 2, 3) {
	case 0: // nonce (the msg server resets the sender nonce and sets it again after the call)
		now, back = op{K: "sn", A: a, V: n0 + int64(r.Range(1, 2))}, op{K: "sn", A: a, V: n0}
		if n0 > 0 && r.Chance(1, 2) {
			now.V = n0 - 1
		}
	case 1: // balance: + x … - x
		x := int64(r.Range(1, 9)) * 1_000_000_000_000
		now, back = op{K: "ab", A: a, V: x}, op{K: "sb", A: a, V: x}
	case 2: // code
		now, back = op{K: "sc", A: a, V: (c0 + 1) % 3}, op{K: "sc", A: a, V: c0}
	default: // storage
		k := int64(r.Range(1, 2))
		v0 := g.initSlot(a, k)
		now, back = op{K: "ss", A: a, B: k, V: (v0 + int64(r.Range(1, 3))) % 4}, op{K: "ss", A: a, B: k, V: v0}
	}
	g.pending = append(g.pending, pendingRestore{op: back, callsAtGen: g.calls})
	return now
}

// due returns a scheduled write-back that has seen a precompile call since its first write.
func (g *gen) due() (op, bool) {
	for i, p := range g.pending {
		if g.calls > p.callsAtGen {
			g.pending = append(g.pending[:i:i], g.pending[i+1:]...)
			return p.op, true
		}
	}
	return op{}, false
}

// ordinary accounts only: the blocked module accounts 6, 7 appear only as credit targets
func (g *gen) addr() int64 { return int64(g.rng.Range(1, 5)) }

func (g *gen) amount() int64 {
	u := int64(g.rng.Pick(2, 3, 3, 2, 1)) // 0,1,2,3,4 unibi … scaled below
	u *= int64(g.rng.Range(1, 7))
	w := u * 1_000_000_000_000
	if g.rng.Chance(1, 5) {
		w += int64(g.rng.Range(1, 999_999)) * 1_000_003 % 1_000_000_000_000 // dust
	}
	return w
}

func (g *gen) simple() op {
	r := g.rng
	switch r.Pick(18, 12, 8, 6, 18, 5, 5, 3, 2, 2, 2, 2, 8, 5) {
	case 0:
		return op{K: "ab", A: g.addr(), V: g.amount()}
	case 1:
		return op{K: "sb", A: g.addr(), V: g.amount()}
	case 2:
		return op{K: "sn", A: g.addr(), V: int64(r.Range(0, 5))}
	case 3:
		return op{K: "sc", A: g.addr(), V: int64(r.Range(0, 2))}
	case 4:
		// mostly the contract that has storage, few slots, few values: rewriting a slot to the value it
		// had before (dirty == origin) must happen often
		a := g.addr()
		if r.Chance(3, 5) {
			a = 4
		}
		return op{K: "ss", A: a, B: int64(r.Range(1, 2)), V: int64(r.Pick(2, 1, 3, 3))}
	case 5:
		return op{K: "sd", A: g.addr(), B: g.addr()}
	case 6:
		return op{K: "cr", A: g.addr()}
	case 7:
		return op{K: "lg"}
	case 8:
		return op{K: "ar", V: int64(r.Range(0, 5))}
	case 9:
		return op{K: "sr", V: int64(r.Range(0, 5))}
	case 10:
		return op{K: "aa", A: g.addr()}
	case 11:
		return op{K: "as", A: g.addr(), B: int64(r.Range(1, nKey))}
	case 12:
		return op{K: "to", A: g.addr()}
	default:
		return op{K: "rs", A: g.addr(), B: int64(r.Range(1, nKey))}
	}
}

func (g *gen) precompile() []op {
	r := g.rng
	g.calls++
	n := r.Pick(3, 5, 3, 1)
	var sends [][3]int64
	seen := map[int64]bool{}
	for i := 0; i < n; i++ {
		f, t := g.addr(), g.addr()
		amt := int64(r.Range(1, 40))
		if r.Chance(1, 8) {
			amt = int64(r.Range(80, 400)) // likely insufficient
		}
		sends = append(sends, [3]int64{f, t, amt})
		seen[f], seen[t] = true, true
	}
	var pbody []op
	for _, sd := range sends {
		pbody = append(pbody, op{K: "bs", A: sd[0], B: sd[1], V: sd[2]})
	}
	sendOnly := true
	if r.Chance(1, 3) {
		// the body also writes EVM state, as FunToken's ERC20 mint / burn / transfer do, possibly in a
		// nested frame or together with a nested precompile call
		sendOnly = false
		extra := []op{{K: "is", A: 4, B: int64(r.Range(1, 3)), V: int64(r.Range(1, 9))}, {K: "is", A: 4, B: 3, V: int64(r.Range(1, 9))}, {K: "lg"}}
		if r.Chance(1, 3) {
			extra = append(extra, op{K: "sn", A: g.addr(), V: int64(r.Range(0, 5))})
		}
		if r.Chance(1, 3) {
			extra = append(extra, op{K: "fr", Body: []op{{K: "is", A: 4, B: int64(r.Range(1, 3)), V: int64(r.Range(1, 9))}, g.simple()}, Flag: r.Chance(1, 2)})
		}
		if r.Chance(1, 4) {
			extra = append(extra, op{K: "ab", A: g.addr(), V: g.amount()})
		}
		if g.calls < 11 && r.Chance(1, 4) {
			g.calls++
			extra = append(extra, op{K: "pc", Body: []op{{K: "bs", A: g.addr(), B: g.addr(), V: int64(r.Range(1, 20))}, {K: "is", A: 4, B: 2, V: 1}}, Flag: r.Chance(1, 3)})
		}
		// interleave
		pos := r.Intn(len(pbody) + 1)
		pbody = append(pbody[:pos:pos], append(extra, pbody[pos:]...)...)
	}
	_ = sendOnly
	out := []op{{K: "pc", Body: pbody, Flag: r.Chance(1, 4)}}
	if r.Chance(3, 5) { // read both views right after the return
		for a := range seen {
			_ = a
		}
		for id := int64(1); id <= 5; id++ {
			if seen[id] || r.Chance(1, 4) {
				out = append(out, op{K: "to", A: id})
			}
		}
	}
	return out
}

func (g *gen) body(depth, maxLen int) []op {
	r := g.rng
	n := r.Range(1, maxLen)
	var out []op
	for i := 0; i < n && g.ops < 60; i++ {
		g.ops++
		if back, ok := g.due(); ok && r.Chance(2, 5) {
			out = append(out, back)
			continue
		}
		switch {
		case g.calls < 12 && depth < 6 && r.Chance(6, 100):
			// a frame that credits a fresh / ordinary address and a BLOCKED module account, then calls a
			// precompile: the pre-run flush fails half-way; mostly the frame reverts (require(success))
			g.calls++
			inner := []op{{K: "ab", A: g.addr(), V: int64(r.Range(1, 9)) * 1_000_000_000_000}}
			if r.Chance(1, 2) {
				inner = append(inner, op{K: "sb", A: 1, V: int64(r.Range(1, 9)) * 1_000_000_000_000})
			}
			inner = append(inner, op{K: "ab", A: blockedIDs[r.Intn(2)], V: int64(r.Range(1, 9)) * 1_000_000_000_000})
			if r.Chance(1, 3) {
				inner = append(inner, op{K: "ss", A: 4, B: 1, V: int64(r.Range(0, 3))})
			}
			inner = append(inner, op{K: "pc", Body: []op{{K: "bs", A: 1, B: g.addr(), V: int64(r.Range(1, 9))}}, Flag: false})
			for id := int64(1); id <= 3; id++ {
				inner = append(inner, op{K: "to", A: id})
			}
			inner = append(inner, g.body(depth+1, 2)...)
			out = append(out, op{K: "fr", Body: inner, Flag: r.Chance(5, 6)})
		case depth < 6 && r.Chance(6, 100):
			// CreateAccount on an address that already has a funded object (nonce 0, no code), then balance
			// ops on it, inside a frame that mostly reverts
			a := int64(r.Range(2, 3))
			inner := []op{{K: "cr", A: a}}
			for i := r.Range(1, 3); i > 0; i-- {
				if r.Chance(1, 2) {
					inner = append(inner, op{K: "ab", A: a, V: g.amount()})
				} else {
					inner = append(inner, op{K: "sb", A: a, V: int64(r.Range(1, 5)) * 1_000_000_000_000})
				}
			}
			inner = append(inner, op{K: "to", A: a})
			inner = append(inner, g.body(depth+1, 2)...)
			out = append(out, op{K: "fr", Body: inner, Flag: r.Chance(2, 3)}, op{K: "to", A: a})
		case depth < 6 && r.Chance(18, 100):
			out = append(out, op{K: "fr", Body: g.body(depth+1, 5), Flag: r.Chance(1, 2)})
		case g.calls < 11 && depth < 6 && r.Chance(8, 100):
			// an earlier call succeeds, a later call's frame reverts
			first := g.precompile()
			first[0].Flag = false
			out = append(out, first...)
			inner := g.precompile()
			inner = append(inner, g.body(depth+1, 2)...)
			out = append(out, op{K: "fr", Body: inner, Flag: true})
		case g.calls < 12 && r.Chance(22, 100):
			out = append(out, g.precompile()...)
		case r.Chance(15, 100):
			out = append(out, g.roundtrip())
		default:
			out = append(out, g.simple())
		}
	}
	return out
}

var initVariants = []struct {
	accs [][4]int64
	stor [][3]int64
}{
	{[][4]int64{{1, 100, 1, 0}, {2, 50, 0, 0}, {4, 50, 1, 1}}, [][3]int64{{4, 1, 2}}},
	{[][4]int64{{1, 100, 1, 0}, {2, 50, 0, 0}, {3, 7, 0, 0}, {4, 50, 1, 1}, {5, 0, 1, 2}}, [][3]int64{{4, 1, 2}, {4, 2, 3}, {5, 1, 1}}},
	{[][4]int64{{1, 30, 3, 0}, {4, 0, 1, 1}}, [][3]int64{{4, 3, 1}}},
}

func genCase(r *Rng) c04Input {
	v := initVariants[r.Pick(3, 4, 2)]
	g := &gen{rng: r, accs: v.accs, stor: v.stor}
	script := g.body(0, 9)
	// write-backs still scheduled go to the top level, after everything else
	for _, p := range g.pending {
		if g.calls > p.callsAtGen && r.Chance(3, 4) {
			script = append(script, p.op)
		}
	}
	return c04Input{Accs: withModules(v.accs), Stor: v.stor, Script: script, Blocked: blockedIDs}
}

// withModules adds the two blocked module accounts (balance 0, sequence 0, no code) to the table.
func withModules(accs [][4]int64) [][4]int64 {
	out := append([][4]int64{}, accs...)
	return append(out, [4]int64{6, 0, 0, 0}, [4]int64{7, 0, 0, 0})
}

const U = 1_000_000_000_000

// the historic failure shapes (F2, F2b, F2c, F2d, the probe16 script) and the call limit
func openers() []c04Input {
	v := initVariants[0]
	pc := func(fails bool, sends ...[3]int64) op {
		var b []op
		for _, sd := range sends {
			b = append(b, op{K: "bs", A: sd[0], B: sd[1], V: sd[2]})
		}
		return op{K: "pc", Body: b, Flag: fails}
	}
	pcb := func(fails bool, body ...op) op { return op{K: "pc", Body: body, Flag: fails} }
	fr := func(rev bool, body ...op) op { return op{K: "fr", Body: body, Flag: rev} }
	var many []op
	for i := 0; i < 12; i++ {
		many = append(many, op{K: "ss", A: 4, B: 1, V: int64(i % 4)}, pc(i%3 == 0, [3]int64{1, 2, 1}), op{K: "to", A: 1}, op{K: "to", A: 2})
	}
	scripts := [][]op{
		{{K: "ss", A: 1, B: 1, V: 3}, pc(true)},
		{{K: "sb", A: 1, V: 5 * U}, {K: "ab", A: 2, V: 5 * U}, fr(true, pc(false), op{K: "sb", A: 1, V: U}, op{K: "ab", A: 3, V: U})},
		{fr(true, pc(false, [3]int64{1, 2, 3})), {K: "sb", A: 1, V: U}, {K: "ab", A: 2, V: U}},
		{{K: "sd", A: 4, B: 3}, fr(true, op{K: "ab", A: 1, V: 0}, pc(false))},
		{{K: "ab", A: 2, V: 5 * U}, {K: "ss", A: 1, B: 2, V: 3},
			fr(true, op{K: "sn", A: 1, V: 4}, pc(false, [3]int64{1, 2, 30}), op{K: "ss", A: 1, B: 3, V: 2}),
			pc(false, [3]int64{1, 3, 10}), {K: "to", A: 1}, {K: "to", A: 3}, {K: "sn", A: 1, V: 6}},
		many,
		// a precompile body that moves coins AND writes EVM state (ERC20-style slot updates, a log, a nested
		// frame, a nested precompile call) inside a frame that reverts; then the same kind of call kept
		{fr(true, pcb(false, op{K: "bs", A: 1, B: 2, V: 7}, op{K: "is", A: 4, B: 2, V: 7}, op{K: "is", A: 4, B: 3, V: 7}, op{K: "lg"},
			fr(true, op{K: "is", A: 4, B: 2, V: 100}), op{K: "sn", A: 2, V: 1}), op{K: "ss", A: 4, B: 1, V: 3}),
			pcb(false, op{K: "bs", A: 1, B: 2, V: 3}, op{K: "is", A: 4, B: 2, V: 3}, op{K: "is", A: 4, B: 3, V: 3}, op{K: "lg"}), {K: "rs", A: 4, B: 2}},
		{pcb(false, op{K: "is", A: 4, B: 2, V: 5}, pcb(true, op{K: "bs", A: 1, B: 3, V: 4}, op{K: "is", A: 4, B: 2, V: 9}), op{K: "bs", A: 1, B: 2, V: 1}), {K: "to", A: 1}, {K: "rs", A: 4, B: 2}},
		// the pre-run flush of a precompile call fails half-way (credit to a fresh address, then to a blocked
		// module account); the frame reverts, the outer frame goes on: nothing of the flush may survive
		{fr(true, op{K: "sb", A: 1, V: 12 * U}, op{K: "ab", A: 3, V: 5 * U}, op{K: "ab", A: 6, V: 7 * U}, pc(false), op{K: "to", A: 3}),
			{K: "to", A: 3}, {K: "sn", A: 1, V: 2}, pc(false, [3]int64{1, 2, 1}), {K: "to", A: 1}, {K: "to", A: 3}},
		{{K: "ab", A: 2, V: 3 * U}, fr(true, op{K: "ab", A: 3, V: 5 * U}, op{K: "ab", A: 7, V: 2 * U}, fr(true, pc(false)), op{K: "ss", A: 4, B: 1, V: 3}, pc(true)),
			pc(false), {K: "to", A: 2}, {K: "to", A: 3}},
		// CreateAccount on a funded object, balance ops on the new object, frame reverted / kept
		{fr(true, op{K: "cr", A: 2}, op{K: "ab", A: 2, V: 4 * U}, op{K: "sb", A: 2, V: U}, op{K: "to", A: 2}), {K: "to", A: 2}, {K: "ab", A: 2, V: 0}},
		{fr(false, op{K: "cr", A: 2}, op{K: "ab", A: 2, V: 4 * U}, fr(true, op{K: "sb", A: 2, V: 3 * U}, pc(false)), op{K: "to", A: 2}), {K: "to", A: 2}},
		// a field changed, flushed by a successful call, a LATER call's frame reverted, then the field written
		// back to its tx-start value (nonce: the msg server's reset/set pattern; balance; code; storage)
		{{K: "sn", A: 1, V: 0}, pc(false), fr(true, pc(false)), {K: "sn", A: 1, V: 1}},
		{{K: "ab", A: 1, V: 3 * U}, pc(false), fr(true, pc(false)), {K: "sb", A: 1, V: 3 * U}},
		{{K: "sc", A: 4, V: 2}, pc(false), fr(true, pc(false, [3]int64{1, 2, 1})), {K: "sc", A: 4, V: 1}},
		{{K: "ss", A: 4, B: 1, V: 3}, pc(false), fr(true, pc(false), op{K: "ss", A: 4, B: 1, V: 0}), {K: "ss", A: 4, B: 1, V: 2}},
		{{K: "sn", A: 1, V: 0}, pc(false), pc(true), {K: "sn", A: 1, V: 1}, pc(false), fr(true, pc(false), op{K: "sn", A: 1, V: 5})},
		// a slot written, flushed by a precompile call, then written back to its committed value
		{{K: "ss", A: 4, B: 1, V: 3}, pc(false), {K: "ss", A: 4, B: 1, V: 2}, {K: "rs", A: 4, B: 1}},
		{{K: "rs", A: 4, B: 1}, fr(true, op{K: "ss", A: 4, B: 1, V: 3}, pc(false, [3]int64{1, 2, 1}), op{K: "rs", A: 4, B: 1}), {K: "rs", A: 4, B: 1}, {K: "ss", A: 4, B: 1, V: 0}},
		{{K: "cr", A: 3}, {K: "ss", A: 3, B: 1, V: 1}, {K: "sc", A: 3, V: 2}, fr(true, pc(false, [3]int64{1, 3, 4}), op{K: "sd", A: 3, B: 1}), pc(false), {K: "to", A: 3}},
	}
	var out []c04Input
	for _, s := range scripts {
		out = append(out, c04Input{Accs: withModules(v.accs), Stor: v.stor, Script: s, Blocked: blockedIDs})
	}
	return out
}

// TestC04 drives the StateDB API calls of OnRunStart one by one; TestC04ViaOnRunStart runs the same kind
// of scripts (another random stream) through precompile.OnRunStart itself.
func TestC04(t *testing.T)              { runC04(t, false) }
func TestC04ViaOnRunStart(t *testing.T) { runC04(t, true) }

func runC04(t *testing.T, viaOnRunStart bool) {
	cfg := LoadCfg(t, 400, 6000)
	if viaOnRunStart {
		cfg.N = (cfg.N + 1) / 2
		cfg.Seed = cfg.Seed*2654435761 + 97
	}
	em := NewEmitter(t, cfg.Out)
	defer em.Close()
	deps := evmtest.NewTestDeps()
	for _, name := range []string{distrtypes.ModuleName, authtypes.FeeCollectorName} {
		acc := deps.App.AccountKeeper.GetModuleAccount(deps.Ctx, name) // creates it if missing
		bal := deps.App.BankKeeper.GetBalance(deps.Ctx, acc.GetAddress(), "unibi").Amount
		if !bal.IsZero() || acc.GetSequence() != 0 {
			t.Fatalf("module account %s is expected to start with balance 0 and sequence 0 (has %s, %d)", name, bal, acc.GetSequence())
		}
	}
	var inputs []c04Input
	if cfg.Replay != "" {
		for _, raw := range cfg.ReplayInputs(t) {
			var probe struct {
				Tx json.RawMessage `json:"tx"`
			}
			if err := json.Unmarshal(raw, &probe); err == nil && probe.Tx != nil {
				continue // an input of the transaction driver (c04tx_test.go)
			}
			var in c04Input
			if err := json.Unmarshal(raw, &in); err != nil {
				t.Fatalf("replay input: %v", err)
			}
			if in.Blocked == nil { // older corpus entries
				in.Blocked = blockedIDs
				in.Accs = withModules(in.Accs)
			}
			inputs = append(inputs, in)
		}
	} else {
		inputs = openers()
		rng := NewRng(cfg.Seed)
		for len(inputs) < cfg.N {
			inputs = append(inputs, genCase(rng.Fork()))
		}
	}
	for _, in := range inputs {
		obs := runCase(&deps, in, viaOnRunStart)
		em.Emit(in, obs, map[string]interface{}{"via_on_run_start": viaOnRunStart})
	}
}
