package c04

// C04 — transaction driver, part 2: the Wasm precompile.
//
//	["wx", [msgs], [funds]]            Wasm.execute(W, reflect_msg{msgs}, funds)        caller C
//	["wxm", [[[msgs], [funds]], …]]    Wasm.executeMulti of the same, in one precompile call
//
// W is an instance of reflect.wasm owned by C (model address 6; a 32-byte address, not visible to the EVM): it
// re-dispatches the messages with itself as signer.  funds = [tok, amt] coins sent C -> W with the call.  msgs:
//
//	["send", tok, amt, to]   bank MsgSend W -> to of denom(tok), tok ∈ {u, d}; fails when amt >= 10^6
//	["conv", tok, amt, to]   evm MsgConvertCoinToEvm{sender W}           REFUSED inside a running EVM tx
//	["cft"]                  evm MsgCreateFunToken{ucoin2, sender W}     REFUSED inside a running EVM tx
//	["exec", msg]            authz MsgExec{grantee W, [msg]}             as msg
//
// A call with a failing / refused message fails as a whole: the precompile call is reverted without effect.

import (
	"encoding/base64"
	"encoding/json"
	"fmt"
	"math/big"
	"os"
	"strings"

	wasmtypes "github.com/CosmWasm/wasmd/x/wasm/types"
	sdk "github.com/cosmos/cosmos-sdk/types"
	"github.com/cosmos/cosmos-sdk/x/authz"
	bank "github.com/cosmos/cosmos-sdk/x/bank/types"
	"github.com/cosmos/gogoproto/proto"

	"github.com/NibiruChain/nibiru/v2/eth"
	"github.com/NibiruChain/nibiru/v2/x/common/testutil/testapp"
	"github.com/NibiruChain/nibiru/v2/x/evm"
	"github.com/NibiruChain/nibiru/v2/x/evm/embeds"
	"github.com/NibiruChain/nibiru/v2/x/evm/precompile"
)

const ucoin2 = "ucoin2" // has bank metadata, no FunToken mapping
const wasmGas = 3_000_000

type wMsg struct {
	K     string
	Tok   string
	Amt   int64
	To    int64
	Inner *wMsg
}

func (m wMsg) MarshalJSON() ([]byte, error) {
	switch m.K {
	case "send", "conv":
		return json.Marshal([]interface{}{m.K, m.Tok, m.Amt, m.To})
	case "cft":
		return json.Marshal([]interface{}{m.K})
	case "exec":
		return json.Marshal([]interface{}{m.K, m.Inner})
	}
	return nil, fmt.Errorf("unknown wasm msg %q", m.K)
}

func (m *wMsg) UnmarshalJSON(bz []byte) error {
	var raw []json.RawMessage
	if err := json.Unmarshal(bz, &raw); err != nil || len(raw) == 0 {
		return fmt.Errorf("bad wasm msg")
	}
	if err := json.Unmarshal(raw[0], &m.K); err != nil {
		return err
	}
	switch m.K {
	case "send", "conv":
		if len(raw) != 4 {
			return fmt.Errorf("bad wasm msg %q", m.K)
		}
		if err := json.Unmarshal(raw[1], &m.Tok); err != nil {
			return err
		}
		if err := json.Unmarshal(raw[2], &m.Amt); err != nil {
			return err
		}
		return json.Unmarshal(raw[3], &m.To)
	case "cft":
		return nil
	case "exec":
		if len(raw) != 2 {
			return fmt.Errorf("bad wasm msg exec")
		}
		m.Inner = &wMsg{}
		return json.Unmarshal(raw[1], m.Inner)
	}
	return fmt.Errorf("unknown wasm msg %q", m.K)
}

type wFund struct {
	Tok string
	Amt int64
}

func (f wFund) MarshalJSON() ([]byte, error) { return json.Marshal([]interface{}{f.Tok, f.Amt}) }
func (f *wFund) UnmarshalJSON(bz []byte) error {
	var raw []json.RawMessage
	if err := json.Unmarshal(bz, &raw); err != nil || len(raw) != 2 {
		return fmt.Errorf("bad funds entry")
	}
	if err := json.Unmarshal(raw[0], &f.Tok); err != nil {
		return err
	}
	return json.Unmarshal(raw[1], &f.Amt)
}

type wExec struct {
	Msgs  []wMsg
	Funds []wFund
}

func (e wExec) parts() (interface{}, interface{}) {
	msgs, funds := e.Msgs, e.Funds
	if msgs == nil {
		msgs = []wMsg{}
	}
	if funds == nil {
		funds = []wFund{}
	}
	return msgs, funds
}
func (e wExec) MarshalJSON() ([]byte, error) {
	m, f := e.parts()
	return json.Marshal([]interface{}{m, f})
}
func (e *wExec) UnmarshalJSON(bz []byte) error {
	var raw []json.RawMessage
	if err := json.Unmarshal(bz, &raw); err != nil || len(raw) != 2 {
		return fmt.Errorf("bad wasm exec")
	}
	if err := json.Unmarshal(raw[0], &e.Msgs); err != nil {
		return err
	}
	return json.Unmarshal(raw[1], &e.Funds)
}

// ---------------------------------------------------------------- world

func (w *txWorld) setupWasm() {
	d := &w.deps
	bk := d.App.BankKeeper
	code, err := os.ReadFile(repoDirC04() + "/x/devgas/v1/keeper/testdata/reflect.wasm")
	w.must(err, "read reflect.wasm")
	owner := eth.EthAddrToNibiruAddr(w.c)
	store := &wasmtypes.MsgStoreCode{Sender: d.Sender.NibiruAddr.String(), WASMByteCode: code}
	rsp, err := d.App.MsgServiceRouter().Handler(store)(d.Ctx, store)
	w.must(err, "store reflect.wasm")
	var sr wasmtypes.MsgStoreCodeResponse
	w.must(proto.Unmarshal(rsp.Data, &sr), "store response")
	inst := &wasmtypes.MsgInstantiateContract{Sender: owner.String(), CodeID: sr.CodeID, Label: "reflect", Msg: []byte(`{}`)}
	rsp, err = d.App.MsgServiceRouter().Handler(inst)(d.Ctx, inst)
	w.must(err, "instantiate reflect.wasm")
	var ir wasmtypes.MsgInstantiateContractResponse
	w.must(proto.Unmarshal(rsp.Data, &ir), "instantiate response")
	w.wasm = sdk.MustAccAddressFromBech32(ir.Address)
	// enough unibi for the 10_000 NIBI CreateFunToken fee (were the message not refused), and some of the tf denom
	w.must(testapp.FundAccount(bk, d.Ctx, w.wasm, sdk.NewCoins(sdk.NewInt64Coin("unibi", 20_000_005_000))), "fund W")
	w.must(bk.SendCoins(d.Ctx, d.Sender.NibiruAddr, w.wasm, sdk.NewCoins(sdk.NewInt64Coin(w.denom["d"], 3000))), "tf to W")
	bk.SetDenomMetaData(d.Ctx, bank.Metadata{
		DenomUnits: []*bank.DenomUnit{{Denom: ucoin2, Exponent: 0}}, Base: ucoin2, Display: ucoin2, Name: ucoin2, Symbol: "UCOIN2"})
}

func repoDirC04() string {
	if d := os.Getenv("VERIF_REPO"); d != "" {
		return d
	}
	return "/repo"
}

// ---------------------------------------------------------------- encoding

func (w *txWorld) sdkMsg(m wMsg) (sdk.Msg, error) {
	self := w.wasm.String()
	switch m.K {
	case "send":
		return &bank.MsgSend{FromAddress: self, ToAddress: w.bankAddr(m.To).String(),
			Amount: sdk.NewCoins(sdk.NewInt64Coin(w.denom[m.Tok], m.Amt))}, nil
	case "conv":
		return &evm.MsgConvertCoinToEvm{Sender: self, BankCoin: sdk.NewInt64Coin(w.denom[m.Tok], m.Amt),
			ToEthAddr: eth.EIP55Addr{Address: w.addr(m.To)}}, nil
	case "cft":
		return &evm.MsgCreateFunToken{FromBankDenom: ucoin2, Sender: self}, nil
	case "exec":
		if m.Inner == nil {
			return nil, fmt.Errorf("exec without a message")
		}
		inner, err := w.sdkMsg(*m.Inner)
		if err != nil {
			return nil, err
		}
		x := authz.NewMsgExec(w.wasm, []sdk.Msg{inner})
		return &x, nil
	}
	return nil, fmt.Errorf("unknown wasm msg %q", m.K)
}

func (w *txWorld) reflectPayload(msgs []wMsg) ([]byte, error) {
	var parts []string
	for _, m := range msgs {
		if (m.K == "send" || m.K == "conv") && (w.denom[m.Tok] == "" || m.Amt <= 0) {
			return nil, fmt.Errorf("bad wasm msg")
		}
		sm, err := w.sdkMsg(m)
		if err != nil {
			return nil, err
		}
		bz, err := proto.Marshal(sm)
		if err != nil {
			return nil, err
		}
		parts = append(parts, fmt.Sprintf(`{"stargate":{"type_url":"%s","value":"%s"}}`, sdk.MsgTypeURL(sm), base64.StdEncoding.EncodeToString(bz)))
	}
	return []byte(`{"reflect_msg":{"msgs":[` + strings.Join(parts, ",") + `]}}`), nil
}

func (w *txWorld) encodeWasm(o txOp) ([]byte, error) {
	abi := embeds.SmartContract_Wasm.ABI
	coins := func(fs []wFund) ([]precompile.WasmBankCoin, error) {
		out := []precompile.WasmBankCoin{}
		for _, f := range fs {
			if w.denom[f.Tok] == "" || f.Amt <= 0 {
				return nil, fmt.Errorf("bad funds")
			}
			out = append(out, precompile.WasmBankCoin{Denom: w.denom[f.Tok], Amount: big.NewInt(f.Amt)})
		}
		return out, nil
	}
	switch o.K {
	case "wx":
		if len(o.Execs) != 1 {
			return nil, fmt.Errorf("wx takes one exec")
		}
		payload, err := w.reflectPayload(o.Execs[0].Msgs)
		if err != nil {
			return nil, err
		}
		funds, err := coins(o.Execs[0].Funds)
		if err != nil {
			return nil, err
		}
		return abi.Pack("execute", w.wasm.String(), payload, funds)
	case "wxm":
		type fundT = struct {
			Denom  string   `json:"denom"`
			Amount *big.Int `json:"amount"`
		}
		type execT = struct {
			ContractAddr string  `json:"contractAddr"`
			MsgArgs      []byte  `json:"msgArgs"`
			Funds        []fundT `json:"funds"`
		}
		var arg []execT
		for _, e := range o.Execs {
			payload, err := w.reflectPayload(e.Msgs)
			if err != nil {
				return nil, err
			}
			cs, err := coins(e.Funds)
			if err != nil {
				return nil, err
			}
			fs := []fundT{}
			for _, c := range cs {
				fs = append(fs, fundT{Denom: c.Denom, Amount: c.Amount})
			}
			arg = append(arg, execT{ContractAddr: w.wasm.String(), MsgArgs: payload, Funds: fs})
		}
		return abi.Pack("executeMulti", arg)
	}
	return nil, fmt.Errorf("not a wasm op")
}

// ---------------------------------------------------------------- generation

func (g *txGen) wasmMsg(allowExec bool) wMsg {
	r := g.rng
	switch r.Pick(6, 2, 1, 2) {
	case 0:
		return wMsg{K: "send", Tok: []string{"u", "d"}[r.Intn(2)], Amt: g.amount(), To: int64(r.Range(1, 3))}
	case 1:
		return wMsg{K: "conv", Tok: []string{"u", "d"}[r.Intn(2)], Amt: int64(r.Range(1, 20)), To: int64(r.Range(1, 3))}
	case 2:
		return wMsg{K: "cft"}
	}
	if !allowExec {
		return wMsg{K: "send", Tok: "u", Amt: int64(r.Range(1, 20)), To: 2}
	}
	in := g.wasmMsg(false)
	return wMsg{K: "exec", Inner: &in}
}

func (g *txGen) wasmExec() wExec {
	r := g.rng
	var e wExec
	for i, n := 0, r.Range(1, 2); i < n; i++ {
		e.Msgs = append(e.Msgs, g.wasmMsg(true))
	}
	if r.Chance(1, 2) {
		e.Funds = append(e.Funds, wFund{Tok: g.tok(), Amt: g.amount()})
	}
	return e
}

func (g *txGen) wasmCall() txOp {
	g.calls++
	if g.rng.Chance(1, 4) {
		return txOp{K: "wxm", Execs: []wExec{g.wasmExec(), g.wasmExec()}}
	}
	return txOp{K: "wx", Execs: []wExec{g.wasmExec()}}
}
