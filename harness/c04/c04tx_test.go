package c04

// C04 — third driver: REAL transactions through the REAL precompile code.
//
// Every case is one signed MsgEthereumTx, delivered through the EVM msg server (EvmKeeper.EthereumTx), to the
// hand-assembled "script" contract C below.  C interprets its calldata: SSTOREs, value transfers, calls to the
// FunToken precompile and self-calls (call frames) that end normally or with REVERT; results of calls are ignored,
// so a frame is reverted exactly when the script says so (or when a precompile call fails).  Nothing is emulated:
// FunToken.sendToEvm / sendToBank / bankMsgSend / balance run as deployed, for three FunToken mappings
//
//	u  coin-born, bank denom unibi                      (ERC20 deployed by the EVM module)
//	d  coin-born, a tokenfactory denom tf/<S>/c04      (ERC20 deployed by the EVM module)
//	e  ERC20-born: ORC, a hand-assembled ERC20 whose transfer() makes a NESTED precompile call that fails (oracle
//	   exchange rate of a pair without price) and ignores the failure; bank denom erc20/<ORC>
//
// Tx ops (JSON arrays; the caller of every precompile call is C = model address 1):
//
//	["ss", k, v]            SSTORE(k, v) in C
//	["xf", to, wei]         CALL(to, value = wei), no data           to ∈ {2, 3}
//	["ste", tok, amt, to]   FunToken.sendToEvm(denom(tok), amt, to)  to ∈ {1, 2, 3}
//	["stb", tok, amt, to]   FunToken.sendToBank(erc20(tok), amt, to)
//	["bms", tok, amt, to]   FunToken.bankMsgSend(to, denom(tok), amt) to ∈ {2, 3}
//	["qb", tok, who]        FunToken.balance(who, erc20(tok))         (query)
//	["fr", [ops], rev]      self-call executing ops, ending with REVERT iff rev
//
// Amounts 1..20 always succeed in this world (every holder starts with thousands); the generated failing amount is
// 10^12, above every funded balance (C and the recipients hold < 10^6 of everything, W holds 2*10^10 unibi).
// tools/props/c04.py translates a tx into the script ops of the Coq model (sendToEvm u = pc[bs 1 5 x; is 4 k x;
// is 4 9 x] …); balances of the non-unibi denoms are shown as balances of pseudo accounts (20+id for d, 30+id for
// e, 29 / 39 = 10^6 − bank supply of the denom), ERC20 ledgers as storage of 4 (u), 8 (d), 14 (ORC) with keys
// 1, 2, 3, 5 = balanceOf(C, R2, R3, EVM module) and 9 = totalSupply.
//
// Observables (same record shape as the other drivers): existence and unibi balance of C, R2, R3 and the EVM
// module; the pseudo accounts; C's slots 1..3; the ERC20 ledgers; the unibi supply change.  Nonces, code, logs,
// refund and access lists are NOT observed by this driver (the EVM and the keeper's nested calls bump them in ways
// the script does not describe): nonce / code are echoed from the initial table, logs / refund are 0.

import (
	"encoding/hex"
	"encoding/json"
	"fmt"
	"math/big"
	"testing"

	sdkmath "cosmossdk.io/math"
	sdk "github.com/cosmos/cosmos-sdk/types"
	bank "github.com/cosmos/cosmos-sdk/x/bank/types"
	gethcommon "github.com/ethereum/go-ethereum/common"
	"github.com/ethereum/go-ethereum/common/hexutil"
	"github.com/ethereum/go-ethereum/crypto"

	. "verifharness/hx"

	"github.com/NibiruChain/nibiru/v2/eth"
	"github.com/NibiruChain/nibiru/v2/x/common/testutil/testapp"
	"github.com/NibiruChain/nibiru/v2/x/evm"
	"github.com/NibiruChain/nibiru/v2/x/evm/embeds"
	"github.com/NibiruChain/nibiru/v2/x/evm/evmtest"
	"github.com/NibiruChain/nibiru/v2/x/evm/precompile"
	tftypes "github.com/NibiruChain/nibiru/v2/x/tokenfactory/types"
)

// script contract C (init code + 124 bytes of runtime; listing in coq/C04/README.md).  calldata = ops:
//
//	01 k v                                   SSTORE(k, v)
//	02 target(20) value(16) gas(4) len(2) payload   CALL, result ignored
//	03                                       REVERT(0, 0)
//	anything else / end of calldata          STOP
var scriptInit = mustHexTx("61007c600e60003961007c6000f3" +
	"60005b803560f81c80600114610021578060021461003b578060031461007657005b50806002013560f81c816001013560f81c55600301610002565b" +
	"50806029013560f01c8082602b0160003760006000826000856015013560801c866001013560601c876025013560e01cf15001602b01610002565b60006000fd")

// ORC: ERC20 whose transfer() moves the tokens, then calls oracle.queryExchangeRate("unibi:uusd") with 100000 gas
// ignoring the result, and returns true; balance slot = holder address; 1000 minted to the deployer; the runtime
// is followed by the 100 bytes of oracle calldata (listing in seeded/C04-revert-fix-nested-stale-ctx/demo).
const orcCodeHexTx = "6103e8335561013560136000396101356000f3" +
	"60003560e01c806370a082311461004e578063a9059cbb1461009157806318160ddd1461005b578063313ce567146100675780" +
	"6306fdde031461007257806395d89b4114610072575b60006000fd5b6004355460005260206000f35b6103e860005260206000" +
	"f35b601260005260206000f35b60206000526003602052604f6040536052604153604360425360606000f35b60243533548181" +
	"1061004857819003335560043580548201905560646100d160003960006000606460006000610801620186a0f1506001600052" +
	"60206000f3"

func mustHexTx(s string) []byte {
	b, err := hex.DecodeString(s)
	if err != nil {
		panic(err)
	}
	return b
}

// txOp is one node of a tx script.
type txOp struct {
	K     string
	Tok   string
	A, B  int64 // ss: slot, value; xf: to, wei; ste/stb/bms: amount, to; qb: who
	Body  []txOp
	Rev   bool
	Execs []wExec // wx, wxm (c04txw_test.go)
}

func (o txOp) MarshalJSON() ([]byte, error) {
	switch o.K {
	case "ss", "xf":
		return json.Marshal([]interface{}{o.K, o.A, o.B})
	case "ste", "stb", "bms":
		return json.Marshal([]interface{}{o.K, o.Tok, o.A, o.B})
	case "qb":
		return json.Marshal([]interface{}{o.K, o.Tok, o.A})
	case "fr":
		body := o.Body
		if body == nil {
			body = []txOp{}
		}
		return json.Marshal([]interface{}{o.K, body, o.Rev})
	case "wx":
		if len(o.Execs) != 1 {
			return nil, fmt.Errorf("wx takes one exec")
		}
		m, f := o.Execs[0].parts()
		return json.Marshal([]interface{}{o.K, m, f})
	case "wxm":
		return json.Marshal([]interface{}{o.K, o.Execs})
	}
	return nil, fmt.Errorf("unknown tx op %q", o.K)
}

func (o *txOp) UnmarshalJSON(bz []byte) error {
	var raw []json.RawMessage
	if err := json.Unmarshal(bz, &raw); err != nil {
		return err
	}
	if len(raw) == 0 {
		return fmt.Errorf("empty tx op")
	}
	if err := json.Unmarshal(raw[0], &o.K); err != nil {
		return err
	}
	get := func(i int, dst interface{}) error {
		if i >= len(raw) {
			return fmt.Errorf("tx op %q: missing field %d", o.K, i)
		}
		return json.Unmarshal(raw[i], dst)
	}
	switch o.K {
	case "ss", "xf":
		if err := get(1, &o.A); err != nil {
			return err
		}
		return get(2, &o.B)
	case "ste", "stb", "bms":
		if err := get(1, &o.Tok); err != nil {
			return err
		}
		if err := get(2, &o.A); err != nil {
			return err
		}
		return get(3, &o.B)
	case "qb":
		if err := get(1, &o.Tok); err != nil {
			return err
		}
		return get(2, &o.A)
	case "fr":
		if err := get(1, &o.Body); err != nil {
			return err
		}
		return get(2, &o.Rev)
	case "wx":
		var e wExec
		if err := get(1, &e.Msgs); err != nil {
			return err
		}
		if err := get(2, &e.Funds); err != nil {
			return err
		}
		o.Execs = []wExec{e}
		return nil
	case "wxm":
		return get(1, &o.Execs)
	}
	return fmt.Errorf("unknown tx op %q", o.K)
}

type c04TxInput struct {
	Accs    [][4]int64 `json:"accs"`
	Stor    [][3]int64 `json:"stor"`
	Tx      []txOp     `json:"tx"`
	Blocked []int64    `json:"blocked"`
}

// ---------------------------------------------------------------- world

const reservoirK = int64(1_000_000)

type txWorld struct {
	t      *testing.T
	deps   evmtest.TestDeps
	c      gethcommon.Address // 1
	r2, r3 gethcommon.Address // 2, 3
	tok    map[string]gethcommon.Address
	denom  map[string]string
	wasm   sdk.AccAddress // 6: reflect.wasm owned by C (32-byte address)
	accs   [][4]int64
	stor   [][3]int64
}

var tokID = map[string]int64{"u": 4, "d": 8, "e": 14}
var pseudoBase = map[string]int64{"d": 20, "e": 30}
var holderIDs = []int64{1, 2, 3, 5}  // holders of ERC20 balances (EVM addresses)
var bankIDs = []int64{1, 2, 3, 5, 6} // holders of bank balances

// bankAddr: the bank address of a model holder (6 = the wasm contract, which has no EVM address)
func (w *txWorld) bankAddr(id int64) sdk.AccAddress {
	if id == 6 {
		return w.wasm
	}
	return eth.EthAddrToNibiruAddr(w.addr(id))
}

func (w *txWorld) addr(id int64) gethcommon.Address {
	switch id {
	case 1:
		return w.c
	case 2:
		return w.r2
	case 3:
		return w.r3
	case 5:
		return evm.EVM_MODULE_ADDRESS
	}
	return gethcommon.BigToAddress(big.NewInt(0xC04F0000 + id))
}

// ethTx signs and delivers one MsgEthereumTx from the world's EOA on ctx.
func (w *txWorld) ethTx(ctx sdk.Context, to *gethcommon.Address, input []byte, gasLimit uint64, fund bool) (*evm.MsgEthereumTxResponse, error) {
	d := w.deps
	d.Ctx = ctx
	nonce := d.EvmKeeper.GetAccNonce(ctx, d.Sender.EthAddr)
	gas := hexutil.Uint64(gasLimit)
	args := evm.JsonTxArgs{From: &d.Sender.EthAddr, To: to, Nonce: (*hexutil.Uint64)(&nonce), Gas: &gas, Input: (*hexutil.Bytes)(&input)}
	msg := args.ToMsgEthTx()
	if err := msg.Sign(d.GethSigner(), d.Sender.KeyringSigner); err != nil {
		return nil, err
	}
	if fund { // the ante handler (not run here) would have moved the fee to the fee collector, which refunds the leftover
		if err := testapp.FundFeeCollector(d.App.BankKeeper, ctx, sdkmath.NewInt(int64(gasLimit))); err != nil {
			return nil, err
		}
	}
	return d.EvmKeeper.EthereumTx(sdk.WrapSDKContext(ctx), msg)
}

func (w *txWorld) must(err error, what string) {
	if err != nil {
		w.t.Fatalf("tx world setup: %s: %v", what, err)
	}
}

func (w *txWorld) mustTx(to *gethcommon.Address, input []byte, what string) {
	resp, err := w.ethTx(w.deps.Ctx, to, input, 5_000_000, true)
	w.must(err, what)
	if resp.VmError != "" {
		w.t.Fatalf("tx world setup: %s: vm error %s", what, resp.VmError)
	}
}

func newTxWorld(t *testing.T) *txWorld {
	w := &txWorld{t: t, deps: evmtest.NewTestDeps(), tok: map[string]gethcommon.Address{}, denom: map[string]string{}}
	d := &w.deps
	bk := d.App.BankKeeper
	goCtx := sdk.WrapSDKContext(d.Ctx)
	s := d.Sender
	coins := func(denom string, n int64) sdk.Coins { return sdk.NewCoins(sdk.NewInt64Coin(denom, n)) }
	w.must(testapp.FundAccount(bk, d.Ctx, s.NibiruAddr, coins("unibi", 1_000_000_000_000)), "fund sender")

	// the script contract
	nonce := d.EvmKeeper.GetAccNonce(d.Ctx, s.EthAddr)
	w.c = crypto.CreateAddress(s.EthAddr, nonce)
	w.mustTx(nil, scriptInit, "deploy script contract")
	w.r2 = gethcommon.HexToAddress("0x00000000000000000000000000000000C04A0002")
	w.r3 = gethcommon.HexToAddress("0x00000000000000000000000000000000C04A0003")
	w.must(testapp.FundAccount(bk, d.Ctx, eth.EthAddrToNibiruAddr(w.c), coins("unibi", 5000)), "fund C")
	w.must(testapp.FundAccount(bk, d.Ctx, eth.EthAddrToNibiruAddr(w.r2), coins("unibi", 50)), "fund R2")

	createCoin := func(key, denom string) {
		resp, err := d.EvmKeeper.CreateFunToken(goCtx, &evm.MsgCreateFunToken{FromBankDenom: denom, Sender: s.NibiruAddr.String()})
		w.must(err, "create funtoken "+denom)
		w.tok[key], w.denom[key] = resp.FuntokenMapping.Erc20Addr.Address, denom
		_, err = d.EvmKeeper.ConvertCoinToEvm(goCtx, &evm.MsgConvertCoinToEvm{
			Sender: s.NibiruAddr.String(), BankCoin: sdk.NewInt64Coin(denom, 2000), ToEthAddr: eth.EIP55Addr{Address: w.c}})
		w.must(err, "convert "+denom)
	}
	// u: unibi
	bk.SetDenomMetaData(d.Ctx, bank.Metadata{
		DenomUnits: []*bank.DenomUnit{{Denom: "unibi", Exponent: 0}, {Denom: "NIBI", Exponent: 6}},
		Base:       "unibi", Display: "NIBI", Name: "NIBI", Symbol: "NIBI",
	})
	createCoin("u", "unibi")
	// d: a tokenfactory denom
	_, err := d.App.TokenFactoryKeeper.CreateDenom(goCtx, &tftypes.MsgCreateDenom{Sender: s.NibiruAddr.String(), Subdenom: "c04"})
	w.must(err, "tf create denom")
	tf := tftypes.TFDenom{Creator: s.NibiruAddr.String(), Subdenom: "c04"}.Denom().String()
	_, err = d.App.TokenFactoryKeeper.Mint(goCtx, &tftypes.MsgMint{Sender: s.NibiruAddr.String(), Coin: sdk.NewInt64Coin(tf, 10000), MintTo: s.NibiruAddr.String()})
	w.must(err, "tf mint")
	w.must(bk.SendCoins(d.Ctx, s.NibiruAddr, eth.EthAddrToNibiruAddr(w.c), coins(tf, 5000)), "tf to C")
	createCoin("d", tf)
	// e: ORC and its mapping
	oracleInput, err := embeds.SmartContract_Oracle.ABI.Pack("queryExchangeRate", "unibi:uusd")
	w.must(err, "oracle input")
	if len(oracleInput) != 100 {
		t.Fatalf("oracle calldata has %d bytes, the ORC token embeds 100", len(oracleInput))
	}
	nonce = d.EvmKeeper.GetAccNonce(d.Ctx, s.EthAddr)
	orc := crypto.CreateAddress(s.EthAddr, nonce)
	w.mustTx(nil, append(mustHexTx(orcCodeHexTx), oracleInput...), "deploy ORC")
	in, err := embeds.SmartContract_ERC20MinterWithMetadataUpdates.ABI.Pack("transfer", w.c, big.NewInt(800))
	w.must(err, "pack transfer")
	w.mustTx(&orc, in, "ORC to C")
	resp, err := d.EvmKeeper.CreateFunToken(goCtx, &evm.MsgCreateFunToken{FromErc20: &eth.EIP55Addr{Address: orc}, Sender: s.NibiruAddr.String()})
	w.must(err, "create funtoken ORC")
	w.tok["e"], w.denom["e"] = orc, resp.FuntokenMapping.BankDenom
	// C bridges 300 ORC to itself: C holds 300 erc20/ORC coins, the EVM module escrows 300 ORC
	data, err := w.encode([]txOp{{K: "stb", Tok: "e", A: 300, B: 1}})
	w.must(err, "encode")
	w.mustTx(&w.c, data, "C: sendToBank(ORC, 300, C)")

	w.setupWasm()

	// the initial table of every case = the state of this world
	obs := w.observe(d.Ctx, nil)
	for _, a := range obs.Accs {
		if a[1] == 1 {
			w.accs = append(w.accs, [4]int64{a[0], a[2], a[3], a[4]})
		}
	}
	for _, id := range []int64{4, 8, 14} {
		w.accs = append(w.accs, [4]int64{id, 0, 1, 1})
	}
	for _, st := range obs.Stor {
		if st[2] != 0 {
			w.stor = append(w.stor, st)
		}
	}
	return w
}

// ---------------------------------------------------------------- encoding

func (w *txWorld) callOp(target gethcommon.Address, value *big.Int, gas uint32, payload []byte) []byte {
	out := []byte{2}
	out = append(out, target.Bytes()...)
	out = append(out, gethcommon.LeftPadBytes(value.Bytes(), 16)...)
	out = append(out, byte(gas>>24), byte(gas>>16), byte(gas>>8), byte(gas))
	out = append(out, byte(len(payload)>>8), byte(len(payload)))
	return append(out, payload...)
}

const precompileGas = 1_500_000

func (w *txWorld) encode(ops []txOp) ([]byte, error) {
	var out []byte
	ft := embeds.SmartContract_FunToken.ABI
	for _, o := range ops {
		var payload []byte
		var err error
		switch o.K {
		case "ss":
			out = append(out, 1, byte(o.A), byte(o.B))
			continue
		case "xf":
			out = append(out, w.callOp(w.addr(o.A), big.NewInt(o.B), 100_000, nil)...)
			continue
		case "fr":
			sub, err := w.encode(o.Body)
			if err != nil {
				return nil, err
			}
			if o.Rev {
				sub = append(sub, 3)
			}
			if len(sub) > 0xffff {
				return nil, fmt.Errorf("frame too long")
			}
			out = append(out, w.callOp(w.c, big.NewInt(0), 0xffffffff, sub)...)
			continue
		case "ste":
			payload, err = ft.Pack("sendToEvm", w.denom[o.Tok], big.NewInt(o.A), w.addr(o.B).Hex())
		case "stb":
			payload, err = ft.Pack("sendToBank", w.tok[o.Tok], big.NewInt(o.A), w.addr(o.B).Hex())
		case "bms":
			payload, err = ft.Pack("bankMsgSend", w.addr(o.B).Hex(), w.denom[o.Tok], big.NewInt(o.A))
		case "qb":
			payload, err = ft.Pack("balance", w.addr(o.A), w.tok[o.Tok])
		case "wx", "wxm":
			payload, err = w.encodeWasm(o)
			if err != nil {
				return nil, err
			}
			out = append(out, w.callOp(precompile.PrecompileAddr_Wasm, big.NewInt(0), wasmGas, payload)...)
			continue
		default:
			return nil, fmt.Errorf("unknown tx op %q", o.K)
		}
		if err != nil {
			return nil, err
		}
		if _, ok := w.tok[o.Tok]; !ok {
			return nil, fmt.Errorf("unknown token %q", o.Tok)
		}
		out = append(out, w.callOp(precompile.PrecompileAddr_FunToken, big.NewInt(0), precompileGas, payload)...)
	}
	return out, nil
}

// ---------------------------------------------------------------- observation

func (w *txWorld) observe(ctx sdk.Context, init [][4]int64) c04Obs {
	obs := c04Obs{Accs: [][5]int64{}, Stor: [][3]int64{}, Al: [][2]int64{}, Als: [][3]int64{}, Views: [][3]string{}}
	d := w.deps
	d.Ctx = ctx
	bk := d.App.BankKeeper
	echo := func(id int64) (int64, int64) {
		for _, a := range init {
			if a[0] == id {
				return a[2], a[3]
			}
		}
		return 0, 0
	}
	for _, id := range bankIDs {
		bal := bk.GetBalance(ctx, w.bankAddr(id), "unibi").Amount.Int64()
		if !d.App.AccountKeeper.HasAccount(ctx, w.bankAddr(id)) {
			obs.Accs = append(obs.Accs, [5]int64{id, 0, bal, 0, 0})
			continue
		}
		n, c := echo(id)
		if init == nil {
			n, c = 0, 0
			if id == 1 {
				n, c = 1, 1
			}
		}
		obs.Accs = append(obs.Accs, [5]int64{id, 1, bal, n, c})
	}
	for _, key := range []string{"d", "e"} {
		for _, id := range bankIDs {
			bal := bk.GetBalance(ctx, w.bankAddr(id), w.denom[key]).Amount.Int64()
			obs.Accs = append(obs.Accs, [5]int64{pseudoBase[key] + id, 1, bal, 0, 0})
		}
		sup := bk.GetSupply(ctx, w.denom[key]).Amount.Int64()
		obs.Accs = append(obs.Accs, [5]int64{pseudoBase[key] + 9, 1, reservoirK - sup, 0, 0})
	}
	for k := int64(1); k <= 3; k++ {
		v := d.EvmKeeper.GetState(ctx, w.c, hashOf(k)).Big()
		obs.Stor = append(obs.Stor, [3]int64{1, k, v.Int64()})
	}
	qctx, _ := ctx.CacheContext()
	d.Ctx = qctx
	erc := embeds.SmartContract_ERC20MinterWithMetadataUpdates.ABI
	num := func(tok gethcommon.Address, method string, args ...interface{}) int64 {
		evmObj, _ := d.NewEVM()
		v, err := d.EvmKeeper.ERC20().LoadERC20BigInt(qctx, evmObj, erc, tok, method, args...)
		if err != nil || !v.IsInt64() {
			return -1
		}
		return v.Int64()
	}
	for _, key := range []string{"u", "d", "e"} {
		for _, id := range holderIDs {
			obs.Stor = append(obs.Stor, [3]int64{tokID[key], id, num(w.tok[key], "balanceOf", w.addr(id))})
		}
		if key != "e" { // ORC's totalSupply is a constant of its code
			obs.Stor = append(obs.Stor, [3]int64{tokID[key], 9, num(w.tok[key], "totalSupply")})
		}
	}
	d.EvmKeeper.Bank.StateDB = nil
	return obs
}

func (w *txWorld) runCase(in c04TxInput) c04Obs {
	w.deps.EvmKeeper.Bank.StateDB = nil
	ctx, _ := w.deps.Ctx.CacheContext()
	var failure string
	const txGas = 60_000_000
	// the ante handler (not run here) would have moved the fee to the fee collector, which refunds the leftover;
	// funded before the supply is read: it is not a supply change of the transaction
	if err := testapp.FundFeeCollector(w.deps.App.BankKeeper, ctx, sdkmath.NewInt(txGas)); err != nil {
		failure = "fee: " + err.Error()
	}
	supply0 := w.deps.App.BankKeeper.GetSupply(ctx, "unibi").Amount
	panicked := Recover(func() {
		data, err := w.encode(in.Tx)
		if err != nil {
			failure = "encode: " + err.Error()
			return
		}
		resp, err := w.ethTx(ctx, &w.c, data, txGas, false)
		if err != nil {
			failure = "tx: " + err.Error()
			return
		}
		if resp.VmError != "" {
			failure = "vm: " + resp.VmError
		}
	})
	obs := w.observe(ctx, in.Accs)
	obs.Supply = w.deps.App.BankKeeper.GetSupply(ctx, "unibi").Amount.Sub(supply0).String()
	obs.CommitErr = failure
	obs.Panic = panicked
	return obs
}

// ---------------------------------------------------------------- generation

type txGen struct {
	rng   *Rng
	calls int // precompile calls so far, nested ones included
	ops   int
}

func (g *txGen) tok() string { return []string{"u", "d", "e"}[g.rng.Pick(4, 3, 3)] }

func (g *txGen) amount() int64 {
	if g.rng.Chance(1, 12) {
		return 1_000_000_000_000 // above every funded balance (W holds 2*10^10 unibi): the call fails
	}
	return int64(g.rng.Range(1, 20))
}

func (g *txGen) call() txOp {
	r := g.rng
	tok := g.tok()
	g.calls++
	switch r.Pick(4, 4, 2, 1) {
	case 0:
		if tok == "e" {
			g.calls++
		}
		return txOp{K: "ste", Tok: tok, A: g.amount(), B: int64(r.Range(1, 3))}
	case 1:
		if tok == "e" {
			g.calls++
		}
		return txOp{K: "stb", Tok: tok, A: g.amount(), B: int64(r.Range(1, 3))}
	case 2:
		return txOp{K: "bms", Tok: tok, A: g.amount(), B: int64(r.Range(2, 3))}
	}
	return txOp{K: "qb", Tok: tok, A: []int64{1, 2, 3, 5}[r.Intn(4)]}
}

func (g *txGen) plain() txOp {
	r := g.rng
	if r.Chance(1, 2) {
		return txOp{K: "ss", A: int64(r.Range(1, 3)), B: int64(r.Range(0, 9))}
	}
	wei := int64(r.Range(1, 9)) * 1_000_000_000_000
	if r.Chance(1, 3) {
		wei += int64(r.Range(1, 999_999)) // dust
	}
	return txOp{K: "xf", A: int64(r.Range(2, 3)), B: wei}
}

func (g *txGen) body(depth, maxLen, limit int) []txOp {
	r := g.rng
	var out []txOp
	n := r.Range(1, maxLen)
	for i := 0; i < n && g.ops < 24; i++ {
		g.ops++
		switch {
		case depth < 3 && r.Chance(1, 4):
			out = append(out, txOp{K: "fr", Body: g.body(depth+1, 5, limit), Rev: r.Chance(3, 5)})
		case g.calls < limit && r.Chance(1, 2):
			if r.Chance(1, 3) {
				out = append(out, g.wasmCall())
			} else {
				out = append(out, g.call())
			}
		default:
			out = append(out, g.plain())
		}
	}
	return out
}

func (w *txWorld) genCase(r *Rng) c04TxInput {
	g := &txGen{rng: r}
	limit := 9
	if r.Chance(1, 12) {
		limit = 13 // beyond maxMultistoreCacheCount: the last calls are refused
	}
	return w.input(g.body(0, 8, limit))
}

func (w *txWorld) input(tx []txOp) c04TxInput {
	return c04TxInput{Accs: w.accs, Stor: w.stor, Tx: tx, Blocked: []int64{}}
}

func (w *txWorld) openers() []c04TxInput {
	fr := func(rev bool, body ...txOp) txOp { return txOp{K: "fr", Body: body, Rev: rev} }
	ss := func(k, v int64) txOp { return txOp{K: "ss", A: k, B: v} }
	wx := func(msgs []wMsg, funds ...wFund) txOp {
		return txOp{K: "wx", Execs: []wExec{{Msgs: msgs, Funds: funds}}}
	}
	const U = 1_000_000_000_000
	var many []txOp
	for i := 0; i < 12; i++ {
		many = append(many, txOp{K: "bms", Tok: "u", A: 1, B: 2})
	}
	scripts := [][]txOp{
		// writes before / after a reverted frame whose precompile call succeeded (each mapping, both directions)
		{ss(1, 1), fr(true, txOp{K: "ste", Tok: "u", A: 7, B: 2}), ss(2, 2)},
		{ss(1, 1), fr(true, txOp{K: "stb", Tok: "u", A: 7, B: 3}), ss(2, 2), txOp{K: "xf", A: 3, B: 2*U + 5}},
		{fr(true, txOp{K: "ste", Tok: "d", A: 5, B: 3}, txOp{K: "stb", Tok: "d", A: 4, B: 2}), txOp{K: "bms", Tok: "d", A: 3, B: 2}},
		{txOp{K: "stb", Tok: "e", A: 9, B: 2}, fr(true, txOp{K: "ste", Tok: "e", A: 4, B: 3}), txOp{K: "xf", A: 3, B: 3 * U}},
		// kept frames, a failing call inside a kept frame, a query
		{fr(false, txOp{K: "ste", Tok: "u", A: 3, B: 1}, txOp{K: "bms", Tok: "u", A: 1_000_000_000, B: 2}, ss(3, 4)), txOp{K: "qb", Tok: "u", A: 1},
			txOp{K: "stb", Tok: "u", A: 2, B: 2}},
		// the same call once kept, then again in a reverted frame, then a plain transfer
		{txOp{K: "ste", Tok: "d", A: 6, B: 2}, fr(true, txOp{K: "ste", Tok: "d", A: 6, B: 2}, ss(1, 9)), txOp{K: "xf", A: 2, B: U}},
		{fr(true, fr(false, txOp{K: "bms", Tok: "u", A: 11, B: 3}), txOp{K: "stb", Tok: "e", A: 2, B: 3}), txOp{K: "ste", Tok: "e", A: 1, B: 1}},
		many,
		// the Wasm precompile: W re-dispatches bank sends (with funds attached), and EVM-module messages that must be
		// refused inside a running EVM tx (direct and inside authz MsgExec), in reverted / kept frames, then more bank ops
		{wx([]wMsg{{K: "send", Tok: "u", Amt: 7, To: 2}}, wFund{Tok: "u", Amt: 3}), ss(1, 5), txOp{K: "bms", Tok: "u", A: 2, B: 3}},
		{fr(true, wx([]wMsg{{K: "conv", Tok: "u", Amt: 5, To: 2}})), txOp{K: "bms", Tok: "u", A: 50, B: 3}, ss(2, 1)},
		{wx([]wMsg{{K: "conv", Tok: "u", Amt: 5, To: 2}}), txOp{K: "bms", Tok: "u", A: 50, B: 3}, txOp{K: "xf", A: 2, B: 3 * U}},
		{fr(false, wx([]wMsg{{K: "send", Tok: "d", Amt: 4, To: 3}, {K: "exec", Inner: &wMsg{K: "conv", Tok: "d", Amt: 5, To: 2}}})),
			txOp{K: "bms", Tok: "d", A: 3, B: 2}, txOp{K: "ste", Tok: "d", A: 6, B: 1}},
		{wx([]wMsg{{K: "cft"}}), txOp{K: "xf", A: 3, B: U}, fr(true, wx([]wMsg{{K: "exec", Inner: &wMsg{K: "cft"}}}), ss(3, 3))},
		{txOp{K: "wxm", Execs: []wExec{{Msgs: []wMsg{{K: "send", Tok: "u", Amt: 2, To: 1}}, Funds: []wFund{{Tok: "e", Amt: 5}}},
			{Msgs: []wMsg{{K: "exec", Inner: &wMsg{K: "send", Tok: "d", Amt: 3, To: 2}}}}}},
			fr(true, wx([]wMsg{{K: "send", Tok: "u", Amt: 9, To: 3}}, wFund{Tok: "d", Amt: 8})), txOp{K: "stb", Tok: "u", A: 4, B: 3}},
	}
	var out []c04TxInput
	for _, s := range scripts {
		out = append(out, w.input(s))
	}
	return out
}

func TestC04Tx(t *testing.T) {
	cfg := LoadCfg(t, 160, 3000)
	cfg.Seed = cfg.Seed*40503 + 11
	em := NewEmitter(t, cfg.Out)
	defer em.Close()
	w := newTxWorld(t)
	var inputs []c04TxInput
	if cfg.Replay != "" {
		for _, raw := range cfg.ReplayInputs(t) {
			var probe struct {
				Tx json.RawMessage `json:"tx"`
			}
			if err := json.Unmarshal(raw, &probe); err != nil || probe.Tx == nil {
				continue // an input of the API drivers
			}
			var in c04TxInput
			if err := json.Unmarshal(raw, &in); err != nil {
				t.Fatalf("replay input: %v", err)
			}
			// the initial table is the state of the world this driver builds, whatever the file says
			in.Accs, in.Stor, in.Blocked = w.accs, w.stor, []int64{}
			inputs = append(inputs, in)
		}
	} else {
		inputs = w.openers()
		rng := NewRng(cfg.Seed)
		for len(inputs) < cfg.N {
			inputs = append(inputs, w.genCase(rng.Fork()))
		}
	}
	for _, in := range inputs {
		obs := w.runCase(in)
		em.Emit(in, obs, map[string]interface{}{"driver": "tx"})
	}
}
