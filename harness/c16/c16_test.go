package c16

// C16 — privileged chain operations succeed only for current sudoers.
//
// A case = a world (sudo root, sudo contracts, authz grants) + a history of transactions, each a
// list of messages (MsgEditSudoers, MsgChangeRoot, the four sudo-gated messages, and trees of MESSAGE
// CARRIERS around those: authz MsgExec, and MsgExecuteContract on a contract that re-dispatches the
// messages it is given as Stargate messages — reflect.wasm — so that they go through app/wasmext's
// handleSdkMessage), delivered through the real BeginBlock / DeliverTx so that a rejection is observed
// as the full tx rollback the chain performs.
//
// Actors: ids 0..5 are key accounts, ids 6 and 7 are two reflect contract instances of the case, each
// owned by a key account of the case (only the owner can make it dispatch).  Any actor can be the sudo
// root, a listed sudo contract, a granter or a grantee.
//
// Observables per tx: accepted?, the sudoers read back (ids), and for each of the four stores the
// property talks about (sudo, oracle, inflation, bank denom-metadata) whether the sha256 of its raw
// KV content is the same before and after the tx.

import (
	"crypto/sha256"
	"encoding/base64"
	"encoding/json"
	"fmt"
	"math/rand"
	"os"
	"sort"
	"strings"
	"testing"
	"time"

	sdkmath "cosmossdk.io/math"
	wasmkeeper "github.com/CosmWasm/wasmd/x/wasm/keeper"
	wasmtypes "github.com/CosmWasm/wasmd/x/wasm/types"
	abci "github.com/cometbft/cometbft/abci/types"
	"github.com/cosmos/cosmos-sdk/crypto/keys/secp256k1"
	cryptotypes "github.com/cosmos/cosmos-sdk/crypto/types"
	storetypes "github.com/cosmos/cosmos-sdk/store/types"
	"github.com/cosmos/cosmos-sdk/testutil/sims"
	sdk "github.com/cosmos/cosmos-sdk/types"
	"github.com/cosmos/cosmos-sdk/x/authz"
	banktypes "github.com/cosmos/cosmos-sdk/x/bank/types"
	"github.com/cosmos/gogoproto/proto"

	. "verifharness/hx"

	"github.com/NibiruChain/nibiru/v2/app"

	inflationtypes "github.com/NibiruChain/nibiru/v2/x/inflation/types"
	oracletypes "github.com/NibiruChain/nibiru/v2/x/oracle/types"
	sudotypes "github.com/NibiruChain/nibiru/v2/x/sudo/types"
	tftypes "github.com/NibiruChain/nibiru/v2/x/tokenfactory/types"
)

const (
	nKeys      = 6 // ids 0..5: key accounts
	nContracts = 2 // ids 6, 7: reflect contract instances
	nActors    = nKeys + nContracts
)

func isContractID(i int) bool { return i >= nKeys && i < nActors }

type c16Msg struct {
	T       string   `json:"t"`                // edit | root | gated | exec | wasm
	Action  string   `json:"action,omitempty"` // edit: add | remove | bogus
	Sender  int      `json:"sender"`
	Cs      []int    `json:"cs,omitempty"`      // edit: contracts
	Bad     bool     `json:"bad,omitempty"`     // edit: one malformed contract string appended
	New     int      `json:"new,omitempty"`     // root: new root
	K       string   `json:"k,omitempty"`       // gated: oracle | infl_edit | infl_toggle | meta
	PV      int      `json:"pv,omitempty"`      // gated: 0 valid payload, 1 refused by ValidateBasic, 2 refused by the handler
	V       int      `json:"v,omitempty"`       // gated: payload variant
	Grantee int      `json:"grantee,omitempty"` // exec
	Sp      int      `json:"sp,omitempty"`      // leaves: how the sender string is spelled: 0 lower case (canonical), 1 upper case, 2 mixed case (undecodable)
	NSp     int      `json:"nsp,omitempty"`     // root: spelling of the new root
	CSp     []int    `json:"csp,omitempty"`     // edit: spelling of each contract entry (missing = 0)
	C       int      `json:"c,omitempty"`       // wasm: the contract (6 | 7) that is executed by Sender and dispatches Msgs
	Msgs    []c16Msg `json:"msgs,omitempty"`    // exec, wasm
}

type c16Grant struct {
	Granter int    `json:"granter"`
	Grantee int    `json:"grantee"`
	Kind    string `json:"kind"` // edit | root | oracle | infl_edit | infl_toggle | meta | exec | wasm
}

type c16Case struct {
	// Genesis: the sudoers come from a sudo GENESIS section of a fresh chain (InitChain stores the
	// contracts list as given: any order, duplicates) instead of the sorted duplicate-free form
	// every EditSudoers write produces
	Genesis   bool       `json:"genesis,omitempty"`
	Root      int        `json:"root"`
	Contracts []int      `json:"contracts"`
	Owners    []int      `json:"owners"` // owner (key account) of contract 6 and of contract 7
	Grants    []c16Grant `json:"grants"`
	Txs       [][]c16Msg `json:"txs"`
}

type c16Obs struct {
	OK         bool   `json:"ok"`
	Root       int    `json:"root"`
	Contracts  []int  `json:"contracts"`
	SameSudo   bool   `json:"same_sudo"`
	SameOracle bool   `json:"same_oracle"`
	SameInfl   bool   `json:"same_infl"`
	SameMeta   bool   `json:"same_meta"`
	Code       uint32 `json:"code"`
}

type c16World struct {
	c      *Chain
	codeID uint64 // reflect.wasm stored on chain c (0 = not yet)
	privs  []cryptotypes.PrivKey
	addrs  []sdk.AccAddress // key accounts, then the contracts of the case
	ids    map[string]int
	caseNo int
}

func repoDir() string {
	if d := os.Getenv("VERIF_REPO"); d != "" {
		return d
	}
	return "/repo"
}

var reflectCode []byte

// storeReflect stores reflect.wasm (a contract that re-dispatches the messages its owner hands it) on
// the chain of the world; the block must be open.
func (w *c16World) storeReflect(t *testing.T) {
	if reflectCode == nil {
		bz, err := os.ReadFile(repoDir() + "/x/devgas/v1/keeper/testdata/reflect.wasm")
		if err != nil {
			t.Fatal(err)
		}
		reflectCode = bz
	}
	c := w.c
	store := &wasmtypes.MsgStoreCode{Sender: sdk.AccAddress([]byte("c16-uploader________")).String(), WASMByteCode: reflectCode}
	rsp, err := c.App.MsgServiceRouter().Handler(store)(c.Ctx(), store)
	if err != nil {
		t.Fatal(err)
	}
	var sr wasmtypes.MsgStoreCodeResponse
	_ = c.App.AppCodec().Unmarshal(rsp.Data, &sr)
	w.codeID = sr.CodeID
}

// instantiateContracts gives the case its two contract actors (ids 6, 7), owned by the given key accounts.
func (w *c16World) instantiateContracts(t *testing.T, owners []int) {
	c := w.c
	for i := 0; i < nContracts; i++ {
		inst := &wasmtypes.MsgInstantiateContract{Sender: w.addrs[owners[i]].String(), CodeID: w.codeID,
			Label: fmt.Sprintf("reflect-%d-%d", w.caseNo, i), Msg: []byte(`{}`)}
		rsp, err := c.App.MsgServiceRouter().Handler(inst)(c.Ctx(), inst)
		if err != nil {
			t.Fatal(err)
		}
		var ir wasmtypes.MsgInstantiateContractResponse
		_ = c.App.AppCodec().Unmarshal(rsp.Data, &ir)
		a := sdk.MustAccAddressFromBech32(ir.Address)
		if len(w.addrs) > nKeys+i {
			// predicted before the chain existed (genesis cases)
			if !w.addrs[nKeys+i].Equals(a) {
				t.Fatalf("contract address prediction failed: %s vs %s", w.addrs[nKeys+i], a)
			}
			continue
		}
		w.addrs = append(w.addrs, a)
		w.ids[a.String()] = nKeys + i
	}
}

func (w *c16World) freshActors(t *testing.T) {
	w.caseNo++
	w.privs, w.addrs, w.ids = nil, nil, map[string]int{}
	for i := 0; i < nKeys; i++ {
		p := secp256k1.GenPrivKeyFromSecret([]byte(fmt.Sprintf("c16-actor-%d-%d", w.caseNo, i)))
		a := sdk.AccAddress(p.PubKey().Address())
		w.privs = append(w.privs, p)
		w.addrs = append(w.addrs, a)
		w.ids[a.String()] = i
	}
}

func (w *c16World) fundActors(t *testing.T) {
	for _, a := range w.addrs[:nKeys] {
		if err := w.c.Fund(a, Unibi(1_000_000)); err != nil {
			t.Fatal(err)
		}
	}
}

func (w *c16World) addr(i int) sdk.AccAddress { return w.addrs[((i%nActors)+nActors)%nActors] }

// spell writes the bech32 string of actor i the way a message may carry it: lower case (what
// AccAddress.String() gives), upper case (equally valid bech32), or mixed case (no valid bech32).
func (w *c16World) spell(i, sp int) string {
	s := w.addr(i).String()
	switch sp {
	case 1:
		return strings.ToUpper(s)
	case 2:
		h := len(s) / 2
		if up := strings.ToUpper(s[h:]); up != s[h:] {
			return s[:h] + up
		}
		return s[:4] + strings.ToUpper(s[4:])
	}
	return s
}

func sp3(x int) int { return ((x % 3) + 3) % 3 }

func typeURL(kind string) string {
	switch kind {
	case "edit":
		return sdk.MsgTypeURL(&sudotypes.MsgEditSudoers{})
	case "root":
		return sdk.MsgTypeURL(&sudotypes.MsgChangeRoot{})
	case "oracle":
		return sdk.MsgTypeURL(&oracletypes.MsgEditOracleParams{})
	case "infl_edit":
		return sdk.MsgTypeURL(&inflationtypes.MsgEditInflationParams{})
	case "infl_toggle":
		return sdk.MsgTypeURL(&inflationtypes.MsgToggleInflation{})
	case "meta":
		return sdk.MsgTypeURL(&tftypes.MsgSudoSetDenomMetadata{})
	case "wasm":
		return sdk.MsgTypeURL(&wasmtypes.MsgExecuteContract{})
	default:
		return sdk.MsgTypeURL(&authz.MsgExec{})
	}
}

// normalise makes the input self-describing: payload validity only where the message has an
// invalid form, ids within range.
func normalise(ms []c16Msg) {
	for i := range ms {
		m := &ms[i]
		m.Sender = ((m.Sender % nActors) + nActors) % nActors
		m.Sp, m.NSp = sp3(m.Sp), sp3(m.NSp)
		if m.T != "edit" {
			m.CSp = nil
		}
		if m.T != "root" {
			m.NSp = 0
		}
		if m.T == "exec" || m.T == "wasm" {
			m.Sp = 0
		}
		switch m.T {
		case "edit":
			for len(m.CSp) < len(m.Cs) {
				m.CSp = append(m.CSp, 0)
			}
			m.CSp = m.CSp[:len(m.Cs)]
			for j := range m.CSp {
				m.CSp[j] = sp3(m.CSp[j])
			}
			if m.Action != "add" && m.Action != "remove" {
				m.Action = "bogus"
			}
			for j := range m.Cs {
				m.Cs[j] = ((m.Cs[j] % nActors) + nActors) % nActors
			}
		case "root":
			m.New = ((m.New % nActors) + nActors) % nActors
		case "gated":
			switch m.K {
			case "infl_edit":
				if m.PV < 0 || m.PV > 2 {
					m.PV = 0
				}
			case "meta":
				if m.PV != 1 {
					m.PV = 0
				}
			case "oracle", "infl_toggle":
				m.PV = 0
			default:
				m.K, m.PV = "oracle", 0
			}
		case "exec":
			m.Grantee = ((m.Grantee % nActors) + nActors) % nActors
			normalise(m.Msgs)
		case "wasm":
			m.C = nKeys + ((m.C%nContracts)+nContracts)%nContracts
			normalise(m.Msgs)
		default:
			m.T, m.K, m.PV = "gated", "oracle", 0
		}
	}
}

func (w *c16World) build(m c16Msg) (sdk.Msg, int) {
	sender := w.spell(m.Sender, m.Sp)
	switch m.T {
	case "edit":
		action := map[string]string{"add": "add_contracts", "remove": "remove_contracts"}[m.Action]
		if action == "" {
			action = "bogus_action"
		}
		cs := []string{}
		for j, c := range m.Cs {
			sp := 0
			if j < len(m.CSp) {
				sp = m.CSp[j]
			}
			cs = append(cs, w.spell(c, sp))
		}
		if m.Bad {
			cs = append(cs, "nibi1notanaddress")
		}
		return &sudotypes.MsgEditSudoers{Action: action, Contracts: cs, Sender: sender}, m.Sender
	case "root":
		return &sudotypes.MsgChangeRoot{Sender: sender, NewRoot: w.spell(m.New, m.NSp)}, m.Sender
	case "gated":
		switch m.K {
		case "oracle":
			return &oracletypes.MsgEditOracleParams{Sender: sender, Params: &oracletypes.OracleParamsMsg{
				VotePeriod: uint64(10 + m.V%50), MinVoters: uint64(1 + m.V%3)}}, m.Sender
		case "infl_edit":
			msg := &inflationtypes.MsgEditInflationParams{Sender: sender}
			switch m.PV {
			case 0:
				n := sdkmath.NewInt(int64(20 + m.V%40))
				msg.EpochsPerPeriod = &n
			case 1: // distribution not summing to one: refused by ValidateBasic
				msg.InflationDistribution = &inflationtypes.InflationDistribution{
					StakingRewards: sdkmath.LegacyNewDecWithPrec(5, 1), CommunityPool: sdkmath.LegacyNewDecWithPrec(4, 1),
					StrategicReserves: sdkmath.LegacyNewDecWithPrec(3, 1)}
			case 2: // zero epochs per period: passes ValidateBasic, refused by Params.Validate in the handler
				z := sdkmath.ZeroInt()
				msg.EpochsPerPeriod = &z
			}
			return msg, m.Sender
		case "infl_toggle":
			return &inflationtypes.MsgToggleInflation{Sender: sender, Enable: m.V%2 == 0}, m.Sender
		default: // meta
			d := fmt.Sprintf("ibc/c16meta%d", m.V%4)
			md := banktypes.Metadata{
				Description: fmt.Sprintf("set by case %d variant %d", w.caseNo, m.V),
				DenomUnits:  []*banktypes.DenomUnit{{Denom: d, Exponent: 0}},
				Base:        d, Display: d, Name: d, Symbol: "C16",
			}
			if m.PV == 1 {
				md.Display = "" // refused by Metadata.Validate in ValidateBasic
			}
			return &tftypes.MsgSudoSetDenomMetadata{Sender: sender, Metadata: md}, m.Sender
		}
	case "wasm":
		// the contract is asked (by Sender) to dispatch the inner messages as Stargate messages
		parts := []string{}
		for _, x := range m.Msgs {
			im, _ := w.build(x)
			bz, err := proto.Marshal(im)
			if err != nil {
				panic(err)
			}
			parts = append(parts, fmt.Sprintf(`{"stargate":{"type_url":"%s","value":"%s"}}`, sdk.MsgTypeURL(im), base64.StdEncoding.EncodeToString(bz)))
		}
		payload := `{"reflect_msg":{"msgs":[` + strings.Join(parts, ",") + `]}}`
		return &wasmtypes.MsgExecuteContract{Sender: sender, Contract: w.addr(m.C).String(), Msg: []byte(payload)}, m.Sender
	default: // exec
		var inner []sdk.Msg
		for _, x := range m.Msgs {
			im, _ := w.build(x)
			inner = append(inner, im)
		}
		e := authz.NewMsgExec(w.addr(m.Grantee), inner)
		return &e, m.Grantee
	}
}

// deliver signs the tx with every distinct top-level signer (in order) and runs DeliverTx.
func (w *c16World) deliver(msgs []sdk.Msg, signers []int) abci.ResponseDeliverTx {
	c := w.c
	ctx := c.Ctx()
	var privs []cryptotypes.PrivKey
	var nums, seqs []uint64
	seen := map[int]bool{}
	for _, s := range signers {
		if seen[s] {
			continue
		}
		seen[s] = true
		if isContractID(s) {
			// nobody holds a key for a contract address: the best an attacker can do is sign with a key of
			// its own (the ante handler compares the public key with the signer address)
			s = 0
		}
		acc := c.App.AccountKeeper.GetAccount(ctx, w.addrs[s])
		privs = append(privs, w.privs[s])
		nums = append(nums, acc.GetAccountNumber())
		seqs = append(seqs, acc.GetSequence())
	}
	if len(msgs) == 0 {
		// a tx without messages still needs a signer to be well-formed up to the msg check
		acc := c.App.AccountKeeper.GetAccount(ctx, w.addrs[0])
		privs, nums, seqs = []cryptotypes.PrivKey{w.privs[0]}, []uint64{acc.GetAccountNumber()}, []uint64{acc.GetSequence()}
	}
	tx, err := sims.GenSignedMockTx(rand.New(rand.NewSource(1)), c.TxCfg, msgs, sdk.NewCoins(), 20_000_000, ctx.ChainID(), nums, seqs, privs...)
	if err != nil {
		return abci.ResponseDeliverTx{Code: 9999, Log: "build: " + err.Error()}
	}
	bz, err := c.TxCfg.TxEncoder()(tx)
	if err != nil {
		return abci.ResponseDeliverTx{Code: 9999, Log: "encode: " + err.Error()}
	}
	return c.App.DeliverTx(abci.RequestDeliverTx{Tx: bz})
}

func (w *c16World) storeKey(name string) storetypes.StoreKey {
	for _, k := range w.c.App.GetStoreKeys() {
		if k.Name() == name {
			return k
		}
	}
	panic("no store key " + name)
}

func (w *c16World) digest(store string, prefix []byte) [32]byte {
	ctx := w.c.Ctx()
	st := ctx.KVStore(w.storeKey(store))
	var it sdk.Iterator
	if prefix == nil {
		it = st.Iterator(nil, nil)
	} else {
		it = sdk.KVStorePrefixIterator(st, prefix)
	}
	defer it.Close()
	h := sha256.New()
	for ; it.Valid(); it.Next() {
		k, v := it.Key(), it.Value()
		fmt.Fprintf(h, "%d:%d:", len(k), len(v))
		h.Write(k)
		h.Write(v)
	}
	var out [32]byte
	copy(out[:], h.Sum(nil))
	return out
}

func (w *c16World) digests() [4][32]byte {
	return [4][32]byte{
		w.digest("sudo", nil), w.digest("oracle", nil), w.digest("inflation", nil),
		w.digest("bank", banktypes.DenomMetadataPrefix),
	}
}

func (w *c16World) sudoers(t *testing.T) (int, []int) {
	s, err := w.c.App.SudoKeeper.Sudoers.Get(w.c.Ctx())
	if err != nil {
		t.Fatal(err)
	}
	// the ACCOUNT a stored string names (the property is about accounts, not about spellings)
	id := func(a string) int {
		if acc, err := sdk.AccAddressFromBech32(a); err == nil {
			a = acc.String()
		}
		if i, ok := w.ids[a]; ok {
			return i
		}
		return 99
	}
	set := map[int]bool{}
	for _, c := range s.Contracts {
		set[id(c)] = true
	}
	cs := []int{}
	for i := range set {
		cs = append(cs, i)
	}
	sort.Ints(cs)
	return id(s.Root), cs
}

// runCase returns the observations per tx and, per grant of the case, whether its MsgGrant was accepted
// (the model takes every grant of the world as saved: a refused one is a mismatch, not a harness failure)
func (w *c16World) runCase(t *testing.T, cs *c16Case) ([]c16Obs, []bool) {
	w.freshActors(t)
	cs.Root = ((cs.Root % nActors) + nActors) % nActors
	for i := range cs.Contracts {
		cs.Contracts[i] = ((cs.Contracts[i] % nActors) + nActors) % nActors
	}
	if len(cs.Owners) != nContracts {
		cs.Owners = make([]int, nContracts)
	}
	for i := range cs.Owners {
		cs.Owners[i] = ((cs.Owners[i] % nKeys) + nKeys) % nKeys
	}
	if cs.Genesis {
		// a chain of its own, started from a genesis whose sudo section lists the contracts as given;
		// the two contract actors will be the first two instances of the first code of that chain
		for i := 0; i < nContracts; i++ {
			a := sdk.AccAddress(wasmkeeper.BuildContractAddressClassic(1, uint64(i+1)))
			w.addrs = append(w.addrs, a)
			w.ids[a.String()] = nKeys + i
		}
		raw := []string{}
		for _, c := range cs.Contracts {
			raw = append(raw, w.addr(c).String())
		}
		gs := sudotypes.GenesisState{Sudoers: sudotypes.Sudoers{Root: w.addr(cs.Root).String(), Contracts: raw}}
		shared, sharedCode := w.c, w.codeID
		w.c, w.codeID = NewChain(app.GenesisState{sudotypes.ModuleName: app.MakeEncodingConfig().Codec.MustMarshalJSON(&gs)}), 0
		defer func() { w.c, w.codeID = shared, sharedCode }()
	}
	c := w.c
	c.BeginBlock(5 * time.Second)
	defer c.EndBlock()
	w.fundActors(t)
	if w.codeID == 0 {
		w.storeReflect(t)
	}
	w.instantiateContracts(t, cs.Owners)
	if !cs.Genesis {
		// sudoers as an earlier edit would have stored them: sorted, duplicate-free
		set := map[string]bool{}
		for i := range cs.Contracts {
			set[w.addr(cs.Contracts[i]).String()] = true
		}
		var contracts []string
		for a := range set {
			contracts = append(contracts, a)
		}
		sort.Strings(contracts)
		c.App.SudoKeeper.Sudoers.Set(c.Ctx(), sudotypes.Sudoers{Root: w.addr(cs.Root).String(), Contracts: contracts})
	}
	// authz grants through real MsgGrant transactions
	grantsOK := []bool{}
	for i := range cs.Grants {
		g := &cs.Grants[i]
		g.Granter = ((g.Granter % nActors) + nActors) % nActors
		g.Grantee = ((g.Grantee % nActors) + nActors) % nActors
		if g.Granter == g.Grantee {
			g.Grantee = (g.Grantee + 1) % nActors
		}
		mg, err := authz.NewMsgGrant(w.addr(g.Granter), w.addr(g.Grantee), authz.NewGenericAuthorization(typeURL(g.Kind)), nil)
		if err != nil {
			t.Fatal(err)
		}
		var r abci.ResponseDeliverTx
		if isContractID(g.Granter) {
			// a contract grants by dispatching the MsgGrant itself, at its owner's request
			owner := cs.Owners[g.Granter-nKeys]
			bz, err := proto.Marshal(mg)
			if err != nil {
				t.Fatal(err)
			}
			payload := fmt.Sprintf(`{"reflect_msg":{"msgs":[{"stargate":{"type_url":"%s","value":"%s"}}]}}`, sdk.MsgTypeURL(mg), base64.StdEncoding.EncodeToString(bz))
			r = w.deliver([]sdk.Msg{&wasmtypes.MsgExecuteContract{Sender: w.addr(owner).String(), Contract: w.addr(g.Granter).String(), Msg: []byte(payload)}}, []int{owner})
		} else {
			r = w.deliver([]sdk.Msg{mg}, []int{g.Granter})
		}
		grantsOK = append(grantsOK, r.Code == 0)
	}
	obs := []c16Obs{}
	for _, tx := range cs.Txs {
		normalise(tx)
		var msgs []sdk.Msg
		var signers []int
		for _, m := range tx {
			sm, s := w.build(m)
			msgs = append(msgs, sm)
			signers = append(signers, s)
		}
		d0 := w.digests()
		r := w.deliver(msgs, signers)
		d1 := w.digests()
		root, cl := w.sudoers(t)
		obs = append(obs, c16Obs{OK: r.Code == 0, Root: root, Contracts: cl, Code: r.Code,
			SameSudo: d0[0] == d1[0], SameOracle: d0[1] == d1[1], SameInfl: d0[2] == d1[2], SameMeta: d0[3] == d1[3]})
	}
	return obs, grantsOK
}

// ---------------------------------------------------------------- generation

var gkinds = []string{"oracle", "infl_edit", "infl_toggle", "meta"}
var allKinds = []string{"edit", "root", "oracle", "infl_edit", "infl_toggle", "meta", "exec", "wasm"}

type shadow struct {
	root      int
	contracts map[int]bool
	formerR   []int
	removed   []int
	owners    []int
	grants    []c16Grant
	dry       bool // generating a message that is meant to be refused: do not track its effect
}

// grantTo: a grant whose grantee is the given actor, if the case has one
func (s *shadow) grantTo(r *Rng, grantee int) (c16Grant, bool) {
	var l []c16Grant
	for _, g := range s.grants {
		if g.Grantee == grantee && g.Kind != "exec" && g.Kind != "wasm" {
			l = append(l, g)
		}
	}
	if len(l) == 0 {
		return c16Grant{}, false
	}
	return l[r.Intn(len(l))], true
}

// a current sudoer (root or listed), the victim of choice of a spoofed message
func (s *shadow) pickSudoer(r *Rng) int {
	l := []int{}
	for c := range s.contracts {
		l = append(l, c)
	}
	sort.Ints(l)
	if len(l) == 0 || r.Chance(3, 5) {
		return s.root
	}
	return l[r.Intn(len(l))]
}

func (s *shadow) pickSender(r *Rng) int {
	switch r.Pick(30, 20, 15, 15, 20) {
	case 0:
		return s.root
	case 1:
		var l []int
		for c := range s.contracts {
			l = append(l, c)
		}
		sort.Ints(l)
		if len(l) > 0 {
			return l[r.Intn(len(l))]
		}
	case 2:
		if len(s.formerR) > 0 {
			return s.formerR[r.Intn(len(s.formerR))]
		}
	case 3:
		if len(s.removed) > 0 {
			return s.removed[r.Intn(len(s.removed))]
		}
	}
	return r.Intn(nActors)
}

func perm(r *Rng, n int) []int {
	p := make([]int, n)
	for i := range p {
		p[i] = i
	}
	for i := n - 1; i > 0; i-- {
		j := r.Intn(i + 1)
		p[i], p[j] = p[j], p[i]
	}
	return p
}

// genLeaf: one privileged message from sender (-1: picked among root / listed / removed / former root / anybody)
func genLeaf(r *Rng, s *shadow, sender int) c16Msg { return genLeafKind(r, s, sender, "") }

// genSp: how an address field is spelled: mostly lower case, often upper case, now and then undecodable
func genSp(r *Rng) int { return r.Pick(76, 21, 3) }

// genLeafKind: … of the given kind (edit | root | oracle | infl_edit | infl_toggle | meta; "": any);
// every address field in a spelling of its own
func genLeafKind(r *Rng, s *shadow, sender int, kind string) c16Msg {
	m := genLeafIDs(r, s, sender, kind)
	m.Sp = genSp(r)
	if m.T == "root" {
		m.NSp = genSp(r)
	}
	if m.T == "edit" {
		m.CSp = []int{}
		for range m.Cs {
			m.CSp = append(m.CSp, genSp(r))
		}
	}
	return m
}

func genLeafIDs(r *Rng, s *shadow, sender int, kind string) c16Msg {
	if sender < 0 {
		sender = s.pickSender(r)
	}
	pick := r.Pick(18, 16, 3, 13, 50)
	switch kind {
	case "":
	case "edit":
		pick = 0
	case "root":
		pick = 3
	default:
		pick = 4
	}
	switch pick {
	case 0, 1, 2:
		m := c16Msg{T: "edit", Sender: sender, Cs: []int{}}
		n := r.Pick(1, 5, 3, 1)
		for i := 0; i < n; i++ {
			m.Cs = append(m.Cs, r.Intn(nActors))
		}
		m.Action = []string{"add", "remove", "add", "remove", "bogus"}[r.Pick(40, 35, 0, 0, 6)]
		if m.Action == "remove" && len(s.contracts) > 0 && r.Chance(3, 4) {
			// remove listed accounts: one, or several in one message (any subset, any order)
			var l []int
			for c := range s.contracts {
				l = append(l, c)
			}
			sort.Ints(l)
			m.Cs = []int{l[r.Intn(len(l))]}
			if len(l) > 1 && r.Chance(1, 2) {
				k := r.Range(2, len(l))
				m.Cs = []int{}
				for _, i := range perm(r, len(l))[:k] {
					m.Cs = append(m.Cs, l[i])
				}
			}
		}
		m.Bad = r.Chance(1, 12)
		if sender == s.root && !m.Bad && !s.dry {
			for _, c := range m.Cs {
				if m.Action == "add" {
					s.contracts[c] = true
				} else if m.Action == "remove" && s.contracts[c] {
					delete(s.contracts, c)
					s.removed = append(s.removed, c)
				}
			}
		}
		return m
	case 3:
		m := c16Msg{T: "root", Sender: sender, New: r.Intn(nActors)}
		if sender == s.root && m.New != s.root && !s.dry {
			s.formerR = append(s.formerR, s.root)
			s.root = m.New
		}
		return m
	default:
		m := c16Msg{T: "gated", Sender: sender, K: gkinds[r.Intn(4)], V: r.Intn(1000)}
		if kind != "" {
			m.K = kind
		}
		if r.Chance(1, 6) {
			m.PV = r.Range(1, 2)
		}
		return m
	}
}

// genExec wraps n generated messages in a MsgExec; grantee < 0: the inner signer itself, or anybody
func genExec(r *Rng, s *shadow, depth, grantee int) c16Msg {
	n := r.Pick(0, 8, 2, 1)
	e := c16Msg{T: "exec", Msgs: []c16Msg{}}
	for i := 0; i < n; i++ {
		e.Msgs = append(e.Msgs, genMsg(r, s, depth+1))
	}
	// grantee: the inner signer itself, or anybody
	if grantee >= 0 {
		e.Grantee = grantee
	} else if len(e.Msgs) > 0 && r.Chance(1, 3) {
		if e.Msgs[0].T == "exec" {
			e.Grantee = e.Msgs[0].Grantee
		} else {
			e.Grantee = e.Msgs[0].Sender
		}
	} else {
		e.Grantee = r.Intn(nActors)
	}
	if r.Chance(1, 40) {
		e.Msgs = []c16Msg{}
	}
	return e
}

// genWasm: a contract (executed by its owner, sometimes by somebody else) dispatches 0-3 messages:
// its own privileged messages, messages in somebody else's name, MsgExec with itself as grantee
// (inner signer = itself, or a sudoer that may or may not have granted), MsgExec with a SPOOFED
// grantee (the sudoer whose name the inner message carries), deeper nestings.
func genWasm(r *Rng, s *shadow, depth int, c int) c16Msg {
	if c < 0 {
		c = nKeys + r.Intn(nContracts)
	}
	w := c16Msg{T: "wasm", C: c, Sender: s.owners[c-nKeys], Msgs: []c16Msg{}}
	if r.Chance(1, 8) {
		w.Sender = r.Intn(nKeys)
	}
	n := r.Pick(3, 75, 17, 5)
	for i := 0; i < n; i++ {
		var m c16Msg
		switch r.Pick(30, 14, 20, 22, 5, 4, 5) {
		case 0: // its own message
			m = genLeaf(r, s, c)
		case 1: // a leaf in somebody else's name
			s.dry = true
			m = genLeaf(r, s, -1)
			s.dry = false
		case 2: // honest exec: grantee = the contract; the inner signer is the contract, a granter of the contract, or a sudoer
			if g, ok := s.grantTo(r, c); ok && r.Chance(3, 5) {
				m = c16Msg{T: "exec", Grantee: c, Msgs: []c16Msg{genLeafKind(r, s, g.Granter, g.Kind)}}
			} else if r.Chance(1, 3) {
				m = c16Msg{T: "exec", Grantee: c, Msgs: []c16Msg{genLeaf(r, s, c)}}
			} else {
				s.dry = true
				m = c16Msg{T: "exec", Grantee: c, Msgs: []c16Msg{genLeaf(r, s, s.pickSudoer(r))}}
				s.dry = false
			}
		case 3: // exec with a spoofed grantee: the victim "grants itself"
			s.dry = true
			v := s.pickSudoer(r)
			if r.Chance(1, 6) {
				v = r.Intn(nActors)
			}
			m = c16Msg{T: "exec", Grantee: v, Msgs: []c16Msg{genLeaf(r, s, v)}}
			if r.Chance(1, 5) {
				m.Msgs = append(m.Msgs, genLeaf(r, s, v))
			}
			s.dry = false
		case 4: // exec inside exec, the inner one spoofed
			s.dry = true
			v := s.pickSudoer(r)
			m = c16Msg{T: "exec", Grantee: c, Msgs: []c16Msg{{T: "exec", Grantee: v, Msgs: []c16Msg{genLeaf(r, s, v)}}}}
			s.dry = false
		case 5: // the contract executes a contract (itself or the other one)
			if depth < 2 {
				m = genWasm(r, s, depth+1, nKeys+r.Intn(nContracts))
				m.Sender = c
			} else {
				m = genLeaf(r, s, c)
			}
		default:
			if depth < 2 {
				m = genMsg(r, s, depth+1)
			} else {
				m = genLeaf(r, s, -1)
			}
		}
		w.Msgs = append(w.Msgs, m)
	}
	return w
}

func genMsg(r *Rng, s *shadow, depth int) c16Msg {
	if depth < 2 {
		switch r.Pick(60, 20, 20) {
		case 1:
			return genExec(r, s, depth, -1)
		case 2:
			return genWasm(r, s, depth, -1)
		}
	}
	m := genLeaf(r, s, -1)
	if depth == 0 && isContractID(m.Sender) && r.Chance(9, 10) {
		// a contract cannot sign a tx: it sends its message by dispatching it
		w := c16Msg{T: "wasm", C: m.Sender, Sender: s.owners[m.Sender-nKeys], Msgs: []c16Msg{m}}
		if r.Chance(1, 4) {
			w.Msgs = []c16Msg{{T: "exec", Grantee: m.Sender, Msgs: []c16Msg{m}}}
		}
		return w
	}
	return m
}

func genC16Case(r *Rng) c16Case {
	cs := c16Case{Root: r.Intn(nKeys), Contracts: []int{}, Grants: []c16Grant{}, Owners: []int{r.Intn(nKeys), r.Intn(nKeys)}}
	if r.Chance(1, 7) {
		cs.Root = nKeys + r.Intn(nContracts) // the root is a contract
	}
	nc := r.Pick(3, 3, 3, 3, 2)
	for i := 0; i < nc; i++ {
		cs.Contracts = append(cs.Contracts, r.Intn(nActors))
	}
	sh := &shadow{root: cs.Root, contracts: map[int]bool{}, owners: cs.Owners}
	for _, c := range cs.Contracts {
		sh.contracts[c] = true
	}
	ng := r.Pick(2, 2, 3, 2, 1)
	for i := 0; i < ng; i++ {
		g := c16Grant{Granter: r.Intn(nActors), Grantee: r.Intn(nActors), Kind: allKinds[r.Intn(len(allKinds))]}
		if r.Chance(1, 2) {
			g.Granter = sh.pickSender(r) // a sudoer lends its authority
		}
		if r.Chance(1, 3) {
			g.Grantee = nKeys + r.Intn(nContracts) // … to a contract
			if r.Chance(2, 3) {
				g.Granter = sh.pickSudoer(r)
				g.Kind = allKinds[r.Intn(6)]
			}
		}
		if g.Granter == g.Grantee {
			g.Grantee = (g.Grantee + 1) % nActors
		}
		cs.Grants = append(cs.Grants, g)
	}
	sh.grants = cs.Grants
	if r.Chance(22, 100) {
		genesisPhases(r, &cs, sh)
	}
	nt := r.Range(3, 10)
	for i := 0; i < nt; i++ {
		tx := []c16Msg{}
		n := r.Pick(1, 80, 12, 5)
		for j := 0; j < n; j++ {
			tx = append(tx, genMsg(r, sh, 0))
		}
		cs.Txs = append(cs.Txs, tx)
		// a removal of several contracts in one message is followed by a gated op from every one of them
		if len(tx) == 1 && tx[0].T == "edit" && tx[0].Action == "remove" && len(tx[0].Cs) >= 2 {
			for _, c := range tx[0].Cs {
				cs.Txs = append(cs.Txs, sent(sh, c16Msg{T: "gated", K: gkinds[r.Intn(4)], Sender: c, V: r.Intn(1000)}))
			}
		}
	}
	return cs
}

// genesisPhases: the sudoers come from a generated genesis (0-6 contracts in random order, duplicates,
// root listed or not); every listed contract, the root and the strangers send gated ops of every
// module before any edit, then after a root hand-over, then after an edit.
// sent: the way the sender of m really sends it — a key account in a tx of its own, a contract by
// dispatching it at its owner's request
func sent(sh *shadow, m c16Msg) []c16Msg {
	if isContractID(m.Sender) {
		return []c16Msg{{T: "wasm", C: m.Sender, Sender: sh.owners[m.Sender-nKeys], Msgs: []c16Msg{m}}}
	}
	return []c16Msg{m}
}

func genesisPhases(r *Rng, cs *c16Case, sh *shadow) {
	cs.Genesis = true
	cs.Contracts = []int{}
	n := r.Range(0, 6)
	for i := 0; i < n; i++ {
		cs.Contracts = append(cs.Contracts, r.Intn(nActors))
	}
	if r.Chance(1, 3) {
		cs.Contracts = append(cs.Contracts, cs.Root)
	}
	sh.contracts = map[int]bool{}
	for _, c := range cs.Contracts {
		sh.contracts[c] = true
	}
	everybody := func() {
		k := r.Intn(4)
		for _, a := range perm(r, nActors) {
			cs.Txs = append(cs.Txs, sent(sh, c16Msg{T: "gated", K: gkinds[(k+a)%4], Sender: a, V: r.Intn(1000)}))
		}
	}
	everybody()
	if r.Chance(2, 3) {
		nr := r.Intn(nActors)
		cs.Txs = append(cs.Txs, sent(sh, c16Msg{T: "root", Sender: sh.root, New: nr}))
		if nr != sh.root {
			sh.formerR = append(sh.formerR, sh.root)
			sh.root = nr
		}
		everybody()
	}
	if r.Chance(2, 3) {
		m := c16Msg{T: "edit", Action: []string{"add", "remove"}[r.Intn(2)], Sender: sh.root, Cs: []int{r.Intn(nActors)}}
		cs.Txs = append(cs.Txs, sent(sh, m))
		if m.Action == "add" {
			sh.contracts[m.Cs[0]] = true
		} else {
			delete(sh.contracts, m.Cs[0])
		}
		everybody()
	}
}

func gated(k string, sender int) c16Msg { return c16Msg{T: "gated", K: k, Sender: sender, V: 7} }

func openers() []c16Case {
	return []c16Case{
		// empty contracts set: only the root may pass CheckPermissions
		{Root: 0, Contracts: []int{}, Grants: []c16Grant{}, Txs: [][]c16Msg{
			{gated("oracle", 3)}, {gated("infl_toggle", 3)}, {gated("infl_edit", 3)}, {gated("meta", 3)},
			{gated("oracle", 0)}, {gated("infl_toggle", 0)}, {gated("infl_edit", 0)}, {gated("meta", 0)}}},
		// root hand-over: the former root is rejected from the very next message
		{Root: 0, Contracts: []int{2}, Grants: []c16Grant{}, Txs: [][]c16Msg{
			{{T: "root", Sender: 0, New: 1}}, {gated("oracle", 0)}, {{T: "edit", Action: "add", Sender: 0, Cs: []int{0}}},
			{{T: "root", Sender: 0, New: 0}}, {gated("meta", 1)}, {{T: "edit", Action: "remove", Sender: 1, Cs: []int{2}}},
			{gated("infl_toggle", 2)}}},
		// removed contract
		{Root: 0, Contracts: []int{1, 2}, Grants: []c16Grant{}, Txs: [][]c16Msg{
			{gated("infl_edit", 1)}, {{T: "edit", Action: "remove", Sender: 0, Cs: []int{1}}}, {gated("infl_edit", 1)},
			{gated("infl_edit", 2)}, {{T: "edit", Action: "remove", Sender: 2, Cs: []int{2}}}, {{T: "edit", Action: "add", Sender: 1, Cs: []int{1}}}}},
		// sudoers imported from a genesis with an unsorted list with duplicates: listed means permitted
		// before any edit, after a root hand-over (which writes the list back as read) and after an edit
		{Genesis: true, Root: 0, Contracts: []int{5, 3, 1, 4, 3, 2}, Grants: []c16Grant{}, Txs: [][]c16Msg{
			{gated("oracle", 5)}, {gated("infl_toggle", 3)}, {gated("infl_edit", 1)}, {gated("meta", 4)}, {gated("oracle", 2)},
			{gated("meta", 0)}, {{T: "root", Sender: 0, New: 1}},
			{gated("meta", 5)}, {gated("oracle", 3)}, {gated("infl_toggle", 1)}, {gated("infl_edit", 4)}, {gated("meta", 2)}, {gated("oracle", 0)},
			{{T: "edit", Action: "remove", Sender: 1, Cs: []int{4}}},
			{gated("meta", 5)}, {gated("oracle", 3)}, {gated("infl_toggle", 1)}, {gated("infl_edit", 4)}, {gated("meta", 2)}}},
		// several removals in one message: every one of them must be gone afterwards
		{Root: 0, Contracts: []int{1, 2, 3, 4}, Grants: []c16Grant{}, Txs: [][]c16Msg{
			{{T: "edit", Action: "remove", Sender: 0, Cs: []int{1, 2}}}, {gated("oracle", 1)}, {gated("oracle", 2)},
			{{T: "edit", Action: "add", Sender: 0, Cs: []int{1, 2, 5}}},
			{{T: "edit", Action: "remove", Sender: 0, Cs: []int{5, 4, 3, 2, 1}}},
			{gated("infl_toggle", 1)}, {gated("infl_toggle", 2)}, {gated("infl_toggle", 3)}, {gated("infl_toggle", 4)}, {gated("infl_toggle", 5)}}},
		// atomicity: an accepted edit followed by a rejected message in the same tx is rolled back
		{Root: 0, Contracts: []int{}, Grants: []c16Grant{}, Txs: [][]c16Msg{
			{{T: "edit", Action: "add", Sender: 0, Cs: []int{4}}, gated("oracle", 5)},
			{gated("oracle", 4)},
			{{T: "edit", Action: "add", Sender: 0, Cs: []int{4}}, gated("oracle", 4)},
			{gated("meta", 0), gated("infl_edit", 0), {T: "gated", K: "infl_edit", Sender: 0, PV: 2}}}},
		// authz: the grantee's own status is irrelevant, the granter's counts
		{Root: 0, Contracts: []int{1}, Grants: []c16Grant{{0, 3, "oracle"}, {4, 0, "oracle"}, {1, 3, "meta"}, {0, 3, "edit"}},
			Txs: [][]c16Msg{
				{{T: "exec", Grantee: 3, Msgs: []c16Msg{gated("oracle", 0)}}},
				{{T: "exec", Grantee: 0, Msgs: []c16Msg{gated("oracle", 4)}}},
				{{T: "exec", Grantee: 3, Msgs: []c16Msg{gated("meta", 1)}}},
				{{T: "exec", Grantee: 3, Msgs: []c16Msg{gated("meta", 0)}}},
				{{T: "exec", Grantee: 3, Msgs: []c16Msg{{T: "edit", Action: "add", Sender: 0, Cs: []int{3}}}}},
				{gated("infl_toggle", 3)},
				{{T: "exec", Grantee: 3, Msgs: []c16Msg{{T: "exec", Grantee: 3, Msgs: []c16Msg{gated("oracle", 3)}}}}},
				{{T: "exec", Grantee: 5, Msgs: []c16Msg{gated("oracle", 5)}}},
				{{T: "exec", Grantee: 2, Msgs: []c16Msg{}}}}},
		// message carriers: contract 7 (owner 3) is a stranger, contract 6 (owner 2) is a listed sudo contract.
		// A listed contract gets its own messages through (plain, or under an exec it is the grantee of);
		// nobody gets anything through in the name of the root or of the listed contract: plain spoof,
		// MsgExec with a SPOOFED GRANTEE (x/authz accepts an inner signer equal to the grantee without a
		// grant, so the wrapper itself must be checked against the dispatching contract), the same one
		// level deeper, and with a real grant root -> 7 (then grantee 7 works, grantee 0 still does not).
		{Root: 0, Contracts: []int{6}, Owners: []int{2, 3}, Grants: []c16Grant{{0, 7, "infl_toggle"}, {6, 5, "meta"}},
			Txs: [][]c16Msg{
				{wasm(2, 6, gated("oracle", 6))},
				{wasm(2, 6, exec(6, gated("infl_edit", 6)))},
				{wasm(3, 7, gated("oracle", 7))},
				{wasm(3, 7, gated("oracle", 0))},
				{wasm(3, 7, exec(0, c16Msg{T: "edit", Action: "add", Sender: 0, Cs: []int{7}}))},
				{wasm(3, 7, gated("infl_toggle", 7))},
				{wasm(3, 7, exec(0, gated("infl_toggle", 0)))},
				{wasm(3, 7, exec(6, gated("meta", 6)))},
				{wasm(3, 7, exec(0, c16Msg{T: "root", Sender: 0, New: 7}))},
				{wasm(3, 7, exec(7, exec(0, gated("oracle", 0))))},
				{wasm(3, 7, exec(7, gated("infl_toggle", 0)))},
				{wasm(3, 7, exec(7, gated("oracle", 0)))},
				{exec(5, gated("meta", 6))},
				{wasm(3, 6, gated("oracle", 6))},
				{gated("oracle", 6)},
				{exec(3, wasm(2, 6, gated("infl_edit", 6)))},
				{wasm(2, 6, c16Msg{T: "edit", Action: "add", Sender: 6, Cs: []int{7}})},
				{{T: "root", Sender: 0, New: 6}},
				{wasm(2, 6, c16Msg{T: "edit", Action: "add", Sender: 6, Cs: []int{7}})},
				{wasm(3, 7, gated("oracle", 7))},
				{wasm(2, 6, c16Msg{T: "root", Sender: 6, New: 1}), wasm(3, 7, gated("meta", 7))},
				{wasm(2, 6, gated("oracle", 6))}}},
		// address spellings: the same history means the same whether the addresses are written in lower or in
		// (valid) upper case — removal of a listed account named in upper case, hand-over to a root named in
		// upper case followed by its gated ops in both spellings, the root writing itself in upper case,
		// upper-case entries added; a mixed-case string is refused
		{Root: 0, Contracts: []int{1, 2}, Owners: []int{2, 3}, Grants: []c16Grant{}, Txs: [][]c16Msg{
			{c16Msg{T: "edit", Action: "remove", Sender: 0, Cs: []int{1}, CSp: []int{1}}},
			{gated("oracle", 1)},
			{up(gated("oracle", 2))},
			{c16Msg{T: "edit", Action: "add", Sender: 0, Sp: 1, Cs: []int{3}}},
			{gated("meta", 3)},
			{c16Msg{T: "edit", Action: "add", Sender: 0, Cs: []int{4}, CSp: []int{1}}},
			{gated("infl_toggle", 4)},
			{c16Msg{T: "root", Sender: 0, New: 5, NSp: 1}},
			{gated("oracle", 5)},
			{up(gated("infl_edit", 5))},
			{gated("oracle", 0)},
			{c16Msg{T: "edit", Action: "remove", Sender: 5, Sp: 1, Cs: []int{2, 4}, CSp: []int{1, 0}}},
			{gated("oracle", 2)}, {gated("oracle", 4)},
			{c16Msg{T: "root", Sender: 5, Sp: 1, New: 0}},
			{c16Msg{T: "edit", Action: "add", Sender: 0, Cs: []int{1}, CSp: []int{2}}},
			{c16Msg{T: "root", Sender: 0, Sp: 2, New: 1}},
			{exec(0, c16Msg{T: "root", Sender: 0, New: 1, NSp: 2})},
			{wasm(2, 6, c16Msg{T: "gated", K: "oracle", Sender: 6, Sp: 1})},
			{c16Msg{T: "edit", Action: "add", Sender: 0, Cs: []int{6}, CSp: []int{1}}},
			{wasm(2, 6, c16Msg{T: "gated", K: "oracle", Sender: 6, Sp: 1})}}},
	}
}

// up: the same leaf with every address field in upper case
func up(m c16Msg) c16Msg {
	m.Sp, m.NSp = 1, 1
	m.CSp = nil
	for range m.Cs {
		m.CSp = append(m.CSp, 1)
	}
	return m
}

func wasm(sender, c int, ms ...c16Msg) c16Msg {
	return c16Msg{T: "wasm", Sender: sender, C: c, Msgs: ms}
}
func exec(grantee int, ms ...c16Msg) c16Msg { return c16Msg{T: "exec", Grantee: grantee, Msgs: ms} }

func TestC16(t *testing.T) {
	cfg := LoadCfg(t, 150, 3000)
	em := NewEmitter(t, cfg.Out)
	defer em.Close()
	w := &c16World{c: NewChain(nil)}
	run := func(cs c16Case) {
		if w.caseNo > 0 && w.caseNo%400 == 0 {
			w = &c16World{c: NewChain(nil), caseNo: w.caseNo}
		}
		obs, grantsOK := w.runCase(t, &cs)
		em.Emit(cs, obs, map[string]interface{}{"grants_ok": grantsOK})
	}
	if cfg.Replay != "" {
		for _, raw := range cfg.ReplayInputs(t) {
			var cs c16Case
			if err := json.Unmarshal(raw, &cs); err != nil {
				t.Fatal(err)
			}
			run(cs)
		}
		return
	}
	for _, cs := range openers() {
		run(cs)
	}
	rng := NewRng(cfg.Seed)
	for i := 0; i < cfg.N; i++ {
		run(genC16Case(rng.Fork()))
	}
}
