package c16

// C16 — privileged chain operations succeed only for current sudoers.
//
// A case = a world (sudo root, sudo contracts, authz grants) + a history of transactions, each a
// list of messages (MsgEditSudoers, MsgChangeRoot, the four sudo-gated messages, MsgExec trees of
// those), delivered through the real BeginBlock / DeliverTx so that a rejection is observed as the
// full tx rollback the chain performs.
//
// Observables per tx: accepted?, the sudoers read back (ids), and for each of the four stores the
// property talks about (sudo, oracle, inflation, bank denom-metadata) whether the sha256 of its raw
// KV content is the same before and after the tx.

import (
	"crypto/sha256"
	"encoding/json"
	"fmt"
	"math/rand"
	"sort"
	"testing"
	"time"

	sdkmath "cosmossdk.io/math"
	abci "github.com/cometbft/cometbft/abci/types"
	"github.com/cosmos/cosmos-sdk/crypto/keys/secp256k1"
	cryptotypes "github.com/cosmos/cosmos-sdk/crypto/types"
	storetypes "github.com/cosmos/cosmos-sdk/store/types"
	"github.com/cosmos/cosmos-sdk/testutil/sims"
	sdk "github.com/cosmos/cosmos-sdk/types"
	"github.com/cosmos/cosmos-sdk/x/authz"
	banktypes "github.com/cosmos/cosmos-sdk/x/bank/types"

	. "verifharness/hx"

	"github.com/NibiruChain/nibiru/v2/app"

	inflationtypes "github.com/NibiruChain/nibiru/v2/x/inflation/types"
	oracletypes "github.com/NibiruChain/nibiru/v2/x/oracle/types"
	sudotypes "github.com/NibiruChain/nibiru/v2/x/sudo/types"
	tftypes "github.com/NibiruChain/nibiru/v2/x/tokenfactory/types"
)

const nActors = 6

type c16Msg struct {
	T       string   `json:"t"`                // edit | root | gated | exec
	Action  string   `json:"action,omitempty"` // edit: add | remove | bogus
	Sender  int      `json:"sender"`
	Cs      []int    `json:"cs,omitempty"`      // edit: contracts
	Bad     bool     `json:"bad,omitempty"`     // edit: one malformed contract string appended
	New     int      `json:"new,omitempty"`     // root: new root
	K       string   `json:"k,omitempty"`       // gated: oracle | infl_edit | infl_toggle | meta
	PV      int      `json:"pv,omitempty"`      // gated: 0 valid payload, 1 refused by ValidateBasic, 2 refused by the handler
	V       int      `json:"v,omitempty"`       // gated: payload variant
	Grantee int      `json:"grantee,omitempty"` // exec
	Msgs    []c16Msg `json:"msgs,omitempty"`    // exec
}

type c16Grant struct {
	Granter int    `json:"granter"`
	Grantee int    `json:"grantee"`
	Kind    string `json:"kind"` // edit | root | oracle | infl_edit | infl_toggle | meta | exec
}

type c16Case struct {
	// Genesis: the sudoers come from a sudo GENESIS section of a fresh chain (InitChain stores the
	// contracts list as given: any order, duplicates) instead of the sorted duplicate-free form
	// every EditSudoers write produces
	Genesis   bool       `json:"genesis,omitempty"`
	Root      int        `json:"root"`
	Contracts []int      `json:"contracts"`
	Grants    []c16Grant `json:"grants"`
	Txs       [][]c16Msg `json:"txs"`
}

type c16Obs struct {
	OK         bool  `json:"ok"`
	Root       int   `json:"root"`
	Contracts  []int `json:"contracts"`
	SameSudo   bool  `json:"same_sudo"`
	SameOracle bool  `json:"same_oracle"`
	SameInfl   bool  `json:"same_infl"`
	SameMeta   bool  `json:"same_meta"`
	Code       uint32 `json:"code"`
}

type c16World struct {
	c      *Chain
	privs  []cryptotypes.PrivKey
	addrs  []sdk.AccAddress
	ids    map[string]int
	caseNo int
}

func (w *c16World) freshActors(t *testing.T) {
	w.caseNo++
	w.privs, w.addrs, w.ids = nil, nil, map[string]int{}
	for i := 0; i < nActors; i++ {
		p := secp256k1.GenPrivKeyFromSecret([]byte(fmt.Sprintf("c16-actor-%d-%d", w.caseNo, i)))
		a := sdk.AccAddress(p.PubKey().Address())
		w.privs = append(w.privs, p)
		w.addrs = append(w.addrs, a)
		w.ids[a.String()] = i
	}
}

func (w *c16World) fundActors(t *testing.T) {
	for _, a := range w.addrs {
		if err := w.c.Fund(a, Unibi(1_000_000)); err != nil {
			t.Fatal(err)
		}
	}
}

func (w *c16World) addr(i int) sdk.AccAddress { return w.addrs[((i%nActors)+nActors)%nActors] }

func typeURL(kind string) string {
	switch kind {
	case "edit":
		return sdk.MsgTypeURL(&sudotypes.MsgEditSudoers{})
	case "root":
		return sdk.MsgTypeURL(&sudotypes.MsgChangeRoot{})
	case "oracle":
		return sdk.MsgTypeURL(&oracletypes.MsgEditOracleParams{})
	case "infl_edit":
		return sdk.MsgTypeURL(&inflationtypes.MsgEditInflationParams{})
	case "infl_toggle":
		return sdk.MsgTypeURL(&inflationtypes.MsgToggleInflation{})
	case "meta":
		return sdk.MsgTypeURL(&tftypes.MsgSudoSetDenomMetadata{})
	default:
		return sdk.MsgTypeURL(&authz.MsgExec{})
	}
}

// normalise makes the input self-describing: payload validity only where the message has an
// invalid form, ids within range.
func normalise(ms []c16Msg) {
	for i := range ms {
		m := &ms[i]
		m.Sender = ((m.Sender % nActors) + nActors) % nActors
		switch m.T {
		case "edit":
			if m.Action != "add" && m.Action != "remove" {
				m.Action = "bogus"
			}
			for j := range m.Cs {
				m.Cs[j] = ((m.Cs[j] % nActors) + nActors) % nActors
			}
		case "root":
			m.New = ((m.New % nActors) + nActors) % nActors
		case "gated":
			switch m.K {
			case "infl_edit":
				if m.PV < 0 || m.PV > 2 {
					m.PV = 0
				}
			case "meta":
				if m.PV != 1 {
					m.PV = 0
				}
			case "oracle", "infl_toggle":
				m.PV = 0
			default:
				m.K, m.PV = "oracle", 0
			}
		case "exec":
			m.Grantee = ((m.Grantee % nActors) + nActors) % nActors
			normalise(m.Msgs)
		default:
			m.T, m.K, m.PV = "gated", "oracle", 0
		}
	}
}

func (w *c16World) build(m c16Msg) (sdk.Msg, int) {
	sender := w.addr(m.Sender).String()
	switch m.T {
	case "edit":
		action := map[string]string{"add": "add_contracts", "remove": "remove_contracts"}[m.Action]
		if action == "" {
			action = "bogus_action"
		}
		cs := []string{}
		for _, c := range m.Cs {
			cs = append(cs, w.addr(c).String())
		}
		if m.Bad {
			cs = append(cs, "nibi1notanaddress")
		}
		return &sudotypes.MsgEditSudoers{Action: action, Contracts: cs, Sender: sender}, m.Sender
	case "root":
		return &sudotypes.MsgChangeRoot{Sender: sender, NewRoot: w.addr(m.New).String()}, m.Sender
	case "gated":
		switch m.K {
		case "oracle":
			return &oracletypes.MsgEditOracleParams{Sender: sender, Params: &oracletypes.OracleParamsMsg{
				VotePeriod: uint64(10 + m.V%50), MinVoters: uint64(1 + m.V%3)}}, m.Sender
		case "infl_edit":
			msg := &inflationtypes.MsgEditInflationParams{Sender: sender}
			switch m.PV {
			case 0:
				n := sdkmath.NewInt(int64(20 + m.V%40))
				msg.EpochsPerPeriod = &n
			case 1: // distribution not summing to one: refused by ValidateBasic
				msg.InflationDistribution = &inflationtypes.InflationDistribution{
					StakingRewards: sdkmath.LegacyNewDecWithPrec(5, 1), CommunityPool: sdkmath.LegacyNewDecWithPrec(4, 1),
					StrategicReserves: sdkmath.LegacyNewDecWithPrec(3, 1)}
			case 2: // zero epochs per period: passes ValidateBasic, refused by Params.Validate in the handler
				z := sdkmath.ZeroInt()
				msg.EpochsPerPeriod = &z
			}
			return msg, m.Sender
		case "infl_toggle":
			return &inflationtypes.MsgToggleInflation{Sender: sender, Enable: m.V%2 == 0}, m.Sender
		default: // meta
			d := fmt.Sprintf("ibc/c16meta%d", m.V%4)
			md := banktypes.Metadata{
				Description: fmt.Sprintf("set by case %d variant %d", w.caseNo, m.V),
				DenomUnits:  []*banktypes.DenomUnit{{Denom: d, Exponent: 0}},
				Base:        d, Display: d, Name: d, Symbol: "C16",
			}
			if m.PV == 1 {
				md.Display = "" // refused by Metadata.Validate in ValidateBasic
			}
			return &tftypes.MsgSudoSetDenomMetadata{Sender: sender, Metadata: md}, m.Sender
		}
	default: // exec
		var inner []sdk.Msg
		for _, x := range m.Msgs {
			im, _ := w.build(x)
			inner = append(inner, im)
		}
		e := authz.NewMsgExec(w.addr(m.Grantee), inner)
		return &e, m.Grantee
	}
}

// deliver signs the tx with every distinct top-level signer (in order) and runs DeliverTx.
func (w *c16World) deliver(msgs []sdk.Msg, signers []int) abci.ResponseDeliverTx {
	c := w.c
	ctx := c.Ctx()
	var privs []cryptotypes.PrivKey
	var nums, seqs []uint64
	seen := map[int]bool{}
	for _, s := range signers {
		if seen[s] {
			continue
		}
		seen[s] = true
		acc := c.App.AccountKeeper.GetAccount(ctx, w.addrs[s])
		privs = append(privs, w.privs[s])
		nums = append(nums, acc.GetAccountNumber())
		seqs = append(seqs, acc.GetSequence())
	}
	if len(msgs) == 0 {
		// a tx without messages still needs a signer to be well-formed up to the msg check
		acc := c.App.AccountKeeper.GetAccount(ctx, w.addrs[0])
		privs, nums, seqs = []cryptotypes.PrivKey{w.privs[0]}, []uint64{acc.GetAccountNumber()}, []uint64{acc.GetSequence()}
	}
	tx, err := sims.GenSignedMockTx(rand.New(rand.NewSource(1)), c.TxCfg, msgs, sdk.NewCoins(), 20_000_000, ctx.ChainID(), nums, seqs, privs...)
	if err != nil {
		return abci.ResponseDeliverTx{Code: 9999, Log: "build: " + err.Error()}
	}
	bz, err := c.TxCfg.TxEncoder()(tx)
	if err != nil {
		return abci.ResponseDeliverTx{Code: 9999, Log: "encode: " + err.Error()}
	}
	return c.App.DeliverTx(abci.RequestDeliverTx{Tx: bz})
}

func (w *c16World) storeKey(name string) storetypes.StoreKey {
	for _, k := range w.c.App.GetStoreKeys() {
		if k.Name() == name {
			return k
		}
	}
	panic("no store key " + name)
}

func (w *c16World) digest(store string, prefix []byte) [32]byte {
	ctx := w.c.Ctx()
	st := ctx.KVStore(w.storeKey(store))
	var it sdk.Iterator
	if prefix == nil {
		it = st.Iterator(nil, nil)
	} else {
		it = sdk.KVStorePrefixIterator(st, prefix)
	}
	defer it.Close()
	h := sha256.New()
	for ; it.Valid(); it.Next() {
		k, v := it.Key(), it.Value()
		fmt.Fprintf(h, "%d:%d:", len(k), len(v))
		h.Write(k)
		h.Write(v)
	}
	var out [32]byte
	copy(out[:], h.Sum(nil))
	return out
}

func (w *c16World) digests() [4][32]byte {
	return [4][32]byte{
		w.digest("sudo", nil), w.digest("oracle", nil), w.digest("inflation", nil),
		w.digest("bank", banktypes.DenomMetadataPrefix),
	}
}

func (w *c16World) sudoers(t *testing.T) (int, []int) {
	s, err := w.c.App.SudoKeeper.Sudoers.Get(w.c.Ctx())
	if err != nil {
		t.Fatal(err)
	}
	id := func(a string) int {
		if i, ok := w.ids[a]; ok {
			return i
		}
		return 99
	}
	set := map[int]bool{}
	for _, c := range s.Contracts {
		set[id(c)] = true
	}
	cs := []int{}
	for i := range set {
		cs = append(cs, i)
	}
	sort.Ints(cs)
	return id(s.Root), cs
}

func (w *c16World) runCase(t *testing.T, cs *c16Case) []c16Obs {
	w.freshActors(t)
	cs.Root = ((cs.Root % nActors) + nActors) % nActors
	for i := range cs.Contracts {
		cs.Contracts[i] = ((cs.Contracts[i] % nActors) + nActors) % nActors
	}
	if cs.Genesis {
		// a chain of its own, started from a genesis whose sudo section lists the contracts as given
		raw := []string{}
		for _, c := range cs.Contracts {
			raw = append(raw, w.addr(c).String())
		}
		gs := sudotypes.GenesisState{Sudoers: sudotypes.Sudoers{Root: w.addr(cs.Root).String(), Contracts: raw}}
		shared := w.c
		w.c = NewChain(app.GenesisState{sudotypes.ModuleName: app.MakeEncodingConfig().Codec.MustMarshalJSON(&gs)})
		defer func() { w.c = shared }()
	}
	c := w.c
	c.BeginBlock(5 * time.Second)
	defer c.EndBlock()
	w.fundActors(t)
	if !cs.Genesis {
		// sudoers as an earlier edit would have stored them: sorted, duplicate-free
		set := map[string]bool{}
		for i := range cs.Contracts {
			set[w.addr(cs.Contracts[i]).String()] = true
		}
		var contracts []string
		for a := range set {
			contracts = append(contracts, a)
		}
		sort.Strings(contracts)
		c.App.SudoKeeper.Sudoers.Set(c.Ctx(), sudotypes.Sudoers{Root: w.addr(cs.Root).String(), Contracts: contracts})
	}
	// authz grants through real MsgGrant transactions
	for i := range cs.Grants {
		g := &cs.Grants[i]
		g.Granter = ((g.Granter % nActors) + nActors) % nActors
		g.Grantee = ((g.Grantee % nActors) + nActors) % nActors
		if g.Granter == g.Grantee {
			g.Grantee = (g.Grantee + 1) % nActors
		}
		mg, err := authz.NewMsgGrant(w.addr(g.Granter), w.addr(g.Grantee), authz.NewGenericAuthorization(typeURL(g.Kind)), nil)
		if err != nil {
			t.Fatal(err)
		}
		if r := w.deliver([]sdk.Msg{mg}, []int{g.Granter}); r.Code != 0 {
			t.Fatalf("grant setup failed: %s", r.Log)
		}
	}
	obs := []c16Obs{}
	for _, tx := range cs.Txs {
		normalise(tx)
		var msgs []sdk.Msg
		var signers []int
		for _, m := range tx {
			sm, s := w.build(m)
			msgs = append(msgs, sm)
			signers = append(signers, s)
		}
		d0 := w.digests()
		r := w.deliver(msgs, signers)
		d1 := w.digests()
		root, cl := w.sudoers(t)
		obs = append(obs, c16Obs{OK: r.Code == 0, Root: root, Contracts: cl, Code: r.Code,
			SameSudo: d0[0] == d1[0], SameOracle: d0[1] == d1[1], SameInfl: d0[2] == d1[2], SameMeta: d0[3] == d1[3]})
	}
	return obs
}

// ---------------------------------------------------------------- generation

var gkinds = []string{"oracle", "infl_edit", "infl_toggle", "meta"}
var allKinds = []string{"edit", "root", "oracle", "infl_edit", "infl_toggle", "meta", "exec"}

type shadow struct {
	root      int
	contracts map[int]bool
	formerR   []int
	removed   []int
}

func (s *shadow) pickSender(r *Rng) int {
	switch r.Pick(30, 20, 15, 15, 20) {
	case 0:
		return s.root
	case 1:
		var l []int
		for c := range s.contracts {
			l = append(l, c)
		}
		sort.Ints(l)
		if len(l) > 0 {
			return l[r.Intn(len(l))]
		}
	case 2:
		if len(s.formerR) > 0 {
			return s.formerR[r.Intn(len(s.formerR))]
		}
	case 3:
		if len(s.removed) > 0 {
			return s.removed[r.Intn(len(s.removed))]
		}
	}
	return r.Intn(nActors)
}

func perm(r *Rng, n int) []int {
	p := make([]int, n)
	for i := range p {
		p[i] = i
	}
	for i := n - 1; i > 0; i-- {
		j := r.Intn(i + 1)
		p[i], p[j] = p[j], p[i]
	}
	return p
}

func genLeaf(r *Rng, s *shadow) c16Msg {
	sender := s.pickSender(r)
	switch r.Pick(18, 16, 3, 13, 50) {
	case 0, 1, 2:
		m := c16Msg{T: "edit", Sender: sender, Cs: []int{}}
		n := r.Pick(1, 5, 3, 1)
		for i := 0; i < n; i++ {
			m.Cs = append(m.Cs, r.Intn(nActors))
		}
		m.Action = []string{"add", "remove", "add", "remove", "bogus"}[r.Pick(40, 35, 0, 0, 6)]
		if m.Action == "remove" && len(s.contracts) > 0 && r.Chance(3, 4) {
			// remove listed accounts: one, or several in one message (any subset, any order)
			var l []int
			for c := range s.contracts {
				l = append(l, c)
			}
			sort.Ints(l)
			m.Cs = []int{l[r.Intn(len(l))]}
			if len(l) > 1 && r.Chance(1, 2) {
				k := r.Range(2, len(l))
				m.Cs = []int{}
				for _, i := range perm(r, len(l))[:k] {
					m.Cs = append(m.Cs, l[i])
				}
			}
		}
		m.Bad = r.Chance(1, 12)
		if sender == s.root && !m.Bad {
			for _, c := range m.Cs {
				if m.Action == "add" {
					s.contracts[c] = true
				} else if m.Action == "remove" && s.contracts[c] {
					delete(s.contracts, c)
					s.removed = append(s.removed, c)
				}
			}
		}
		return m
	case 3:
		m := c16Msg{T: "root", Sender: sender, New: r.Intn(nActors)}
		if sender == s.root && m.New != s.root {
			s.formerR = append(s.formerR, s.root)
			s.root = m.New
		}
		return m
	default:
		m := c16Msg{T: "gated", Sender: sender, K: gkinds[r.Intn(4)], V: r.Intn(1000)}
		if r.Chance(1, 6) {
			m.PV = r.Range(1, 2)
		}
		return m
	}
}

func genMsg(r *Rng, s *shadow, depth int) c16Msg {
	if depth < 2 && r.Chance(22, 100) {
		n := r.Pick(0, 8, 2, 1)
		e := c16Msg{T: "exec", Msgs: []c16Msg{}}
		for i := 0; i < n; i++ {
			e.Msgs = append(e.Msgs, genMsg(r, s, depth+1))
		}
		// grantee: the inner signer itself, or anybody
		if len(e.Msgs) > 0 && r.Chance(1, 3) {
			if e.Msgs[0].T == "exec" {
				e.Grantee = e.Msgs[0].Grantee
			} else {
				e.Grantee = e.Msgs[0].Sender
			}
		} else {
			e.Grantee = r.Intn(nActors)
		}
		if r.Chance(1, 40) {
			e.Msgs = []c16Msg{}
		}
		return e
	}
	return genLeaf(r, s)
}

func genC16Case(r *Rng) c16Case {
	cs := c16Case{Root: r.Intn(nActors), Contracts: []int{}, Grants: []c16Grant{}}
	nc := r.Pick(3, 3, 3, 3, 2)
	for i := 0; i < nc; i++ {
		cs.Contracts = append(cs.Contracts, r.Intn(nActors))
	}
	sh := &shadow{root: cs.Root, contracts: map[int]bool{}}
	for _, c := range cs.Contracts {
		sh.contracts[c] = true
	}
	ng := r.Pick(2, 2, 3, 2, 1)
	for i := 0; i < ng; i++ {
		g := c16Grant{Granter: r.Intn(nActors), Grantee: r.Intn(nActors), Kind: allKinds[r.Intn(len(allKinds))]}
		if r.Chance(1, 2) {
			g.Granter = sh.pickSender(r) // a sudoer lends its authority
		}
		if g.Granter == g.Grantee {
			g.Grantee = (g.Grantee + 1) % nActors
		}
		cs.Grants = append(cs.Grants, g)
	}
	if r.Chance(22, 100) {
		genesisPhases(r, &cs, sh)
	}
	nt := r.Range(3, 10)
	for i := 0; i < nt; i++ {
		tx := []c16Msg{}
		n := r.Pick(1, 80, 12, 5)
		for j := 0; j < n; j++ {
			tx = append(tx, genMsg(r, sh, 0))
		}
		cs.Txs = append(cs.Txs, tx)
		// a removal of several contracts in one message is followed by a gated op from every one of them
		if len(tx) == 1 && tx[0].T == "edit" && tx[0].Action == "remove" && len(tx[0].Cs) >= 2 {
			for _, c := range tx[0].Cs {
				cs.Txs = append(cs.Txs, []c16Msg{{T: "gated", K: gkinds[r.Intn(4)], Sender: c, V: r.Intn(1000)}})
			}
		}
	}
	return cs
}

// genesisPhases: the sudoers come from a generated genesis (0-6 contracts in random order, duplicates,
// root listed or not); every listed contract, the root and the strangers send gated ops of every
// module before any edit, then after a root hand-over, then after an edit.
func genesisPhases(r *Rng, cs *c16Case, sh *shadow) {
	cs.Genesis = true
	cs.Contracts = []int{}
	n := r.Range(0, 6)
	for i := 0; i < n; i++ {
		cs.Contracts = append(cs.Contracts, r.Intn(nActors))
	}
	if r.Chance(1, 3) {
		cs.Contracts = append(cs.Contracts, cs.Root)
	}
	sh.contracts = map[int]bool{}
	for _, c := range cs.Contracts {
		sh.contracts[c] = true
	}
	everybody := func() {
		k := r.Intn(4)
		for _, a := range perm(r, nActors) {
			cs.Txs = append(cs.Txs, []c16Msg{{T: "gated", K: gkinds[(k+a)%4], Sender: a, V: r.Intn(1000)}})
		}
	}
	everybody()
	if r.Chance(2, 3) {
		nr := r.Intn(nActors)
		cs.Txs = append(cs.Txs, []c16Msg{{T: "root", Sender: sh.root, New: nr}})
		if nr != sh.root {
			sh.formerR = append(sh.formerR, sh.root)
			sh.root = nr
		}
		everybody()
	}
	if r.Chance(2, 3) {
		m := c16Msg{T: "edit", Action: []string{"add", "remove"}[r.Intn(2)], Sender: sh.root, Cs: []int{r.Intn(nActors)}}
		cs.Txs = append(cs.Txs, []c16Msg{m})
		if m.Action == "add" {
			sh.contracts[m.Cs[0]] = true
		} else {
			delete(sh.contracts, m.Cs[0])
		}
		everybody()
	}
}

func gated(k string, sender int) c16Msg { return c16Msg{T: "gated", K: k, Sender: sender, V: 7} }

func openers() []c16Case {
	return []c16Case{
		// empty contracts set: only the root may pass CheckPermissions
		{Root: 0, Contracts: []int{}, Grants: []c16Grant{}, Txs: [][]c16Msg{
			{gated("oracle", 3)}, {gated("infl_toggle", 3)}, {gated("infl_edit", 3)}, {gated("meta", 3)},
			{gated("oracle", 0)}, {gated("infl_toggle", 0)}, {gated("infl_edit", 0)}, {gated("meta", 0)}}},
		// root hand-over: the former root is rejected from the very next message
		{Root: 0, Contracts: []int{2}, Grants: []c16Grant{}, Txs: [][]c16Msg{
			{{T: "root", Sender: 0, New: 1}}, {gated("oracle", 0)}, {{T: "edit", Action: "add", Sender: 0, Cs: []int{0}}},
			{{T: "root", Sender: 0, New: 0}}, {gated("meta", 1)}, {{T: "edit", Action: "remove", Sender: 1, Cs: []int{2}}},
			{gated("infl_toggle", 2)}}},
		// removed contract
		{Root: 0, Contracts: []int{1, 2}, Grants: []c16Grant{}, Txs: [][]c16Msg{
			{gated("infl_edit", 1)}, {{T: "edit", Action: "remove", Sender: 0, Cs: []int{1}}}, {gated("infl_edit", 1)},
			{gated("infl_edit", 2)}, {{T: "edit", Action: "remove", Sender: 2, Cs: []int{2}}}, {{T: "edit", Action: "add", Sender: 1, Cs: []int{1}}}}},
		// sudoers imported from a genesis with an unsorted list with duplicates: listed means permitted
		// before any edit, after a root hand-over (which writes the list back as read) and after an edit
		{Genesis: true, Root: 0, Contracts: []int{5, 3, 1, 4, 3, 2}, Grants: []c16Grant{}, Txs: [][]c16Msg{
			{gated("oracle", 5)}, {gated("infl_toggle", 3)}, {gated("infl_edit", 1)}, {gated("meta", 4)}, {gated("oracle", 2)},
			{gated("meta", 0)}, {{T: "root", Sender: 0, New: 1}},
			{gated("meta", 5)}, {gated("oracle", 3)}, {gated("infl_toggle", 1)}, {gated("infl_edit", 4)}, {gated("meta", 2)}, {gated("oracle", 0)},
			{{T: "edit", Action: "remove", Sender: 1, Cs: []int{4}}},
			{gated("meta", 5)}, {gated("oracle", 3)}, {gated("infl_toggle", 1)}, {gated("infl_edit", 4)}, {gated("meta", 2)}}},
		// several removals in one message: every one of them must be gone afterwards
		{Root: 0, Contracts: []int{1, 2, 3, 4}, Grants: []c16Grant{}, Txs: [][]c16Msg{
			{{T: "edit", Action: "remove", Sender: 0, Cs: []int{1, 2}}}, {gated("oracle", 1)}, {gated("oracle", 2)},
			{{T: "edit", Action: "add", Sender: 0, Cs: []int{1, 2, 5}}},
			{{T: "edit", Action: "remove", Sender: 0, Cs: []int{5, 4, 3, 2, 1}}},
			{gated("infl_toggle", 1)}, {gated("infl_toggle", 2)}, {gated("infl_toggle", 3)}, {gated("infl_toggle", 4)}, {gated("infl_toggle", 5)}}},
		// atomicity: an accepted edit followed by a rejected message in the same tx is rolled back
		{Root: 0, Contracts: []int{}, Grants: []c16Grant{}, Txs: [][]c16Msg{
			{{T: "edit", Action: "add", Sender: 0, Cs: []int{4}}, gated("oracle", 5)},
			{gated("oracle", 4)},
			{{T: "edit", Action: "add", Sender: 0, Cs: []int{4}}, gated("oracle", 4)},
			{gated("meta", 0), gated("infl_edit", 0), {T: "gated", K: "infl_edit", Sender: 0, PV: 2}}}},
		// authz: the grantee's own status is irrelevant, the granter's counts
		{Root: 0, Contracts: []int{1}, Grants: []c16Grant{{0, 3, "oracle"}, {4, 0, "oracle"}, {1, 3, "meta"}, {0, 3, "edit"}},
			Txs: [][]c16Msg{
				{{T: "exec", Grantee: 3, Msgs: []c16Msg{gated("oracle", 0)}}},
				{{T: "exec", Grantee: 0, Msgs: []c16Msg{gated("oracle", 4)}}},
				{{T: "exec", Grantee: 3, Msgs: []c16Msg{gated("meta", 1)}}},
				{{T: "exec", Grantee: 3, Msgs: []c16Msg{gated("meta", 0)}}},
				{{T: "exec", Grantee: 3, Msgs: []c16Msg{{T: "edit", Action: "add", Sender: 0, Cs: []int{3}}}}},
				{gated("infl_toggle", 3)},
				{{T: "exec", Grantee: 3, Msgs: []c16Msg{{T: "exec", Grantee: 3, Msgs: []c16Msg{gated("oracle", 3)}}}}},
				{{T: "exec", Grantee: 5, Msgs: []c16Msg{gated("oracle", 5)}}},
				{{T: "exec", Grantee: 2, Msgs: []c16Msg{}}}}},
	}
}

func TestC16(t *testing.T) {
	cfg := LoadCfg(t, 150, 3000)
	em := NewEmitter(t, cfg.Out)
	defer em.Close()
	w := &c16World{c: NewChain(nil)}
	run := func(cs c16Case) {
		if w.caseNo > 0 && w.caseNo%400 == 0 {
			w = &c16World{c: NewChain(nil), caseNo: w.caseNo}
		}
		obs := w.runCase(t, &cs)
		em.Emit(cs, obs, nil)
	}
	if cfg.Replay != "" {
		for _, raw := range cfg.ReplayInputs(t) {
			var cs c16Case
			if err := json.Unmarshal(raw, &cs); err != nil {
				t.Fatal(err)
			}
			run(cs)
		}
		return
	}
	for _, cs := range openers() {
		run(cs)
	}
	rng := NewRng(cfg.Seed)
	for i := 0; i < cfg.N; i++ {
		run(genC16Case(rng.Fork()))
	}
}
